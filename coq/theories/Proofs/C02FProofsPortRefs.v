(* Proofs/C02FProofsPortRefs.v — one ARBITRARY module that passed the constructors' check, Orphanage, ResolvePortRefs WITH
   re-parenting (Model/C01FElab.v:portrefs2_module) and ConnTypes in the checked pipeline of Model/C02FPipeline.v: every fault
   class that lives in a single module's connections is excluded, also when the fault hides inside a slice or a concatenation.
   The structure is that of Proofs/C02EProofsPortRefs.v; what is new:
     ct_facts2        ConnTypes saw the RE-PARENTED connections of the module after step 1;
     pconn1_width     what a reference leaf is replaced by has the width of the port it names (fuel: reparent_mono);
     reparent_width   so the width ConnTypes computed is the width of the expression as it was written;
     ref_target2      a reference at ANY depth names an existing port of a single instance (module_portrefs holds them all);
     nc_unreferenced2 / added_referenced2 over mentioned2.  *)
From Coq Require Import String.
Require Import Hdl21.Base.PyInt Hdl21.Spec.PySlice Hdl21.Model.Slice Hdl21.Model.Resolve Hdl21.Base.Design
               Hdl21.Spec.WfDesign Hdl21.Model.Checks Hdl21.Model.C02Checks Hdl21.Model.C01EElab Hdl21.Model.C01FElab
               Hdl21.Model.C02EPipeline Hdl21.Model.C02FPipeline
               Hdl21.Proofs.FunGraph Hdl21.Proofs.ResolveProofs Hdl21.Proofs.ChecksProofs Hdl21.Proofs.C02Proofs
               Hdl21.Proofs.C01EProofsBase Hdl21.Proofs.C01EProofsPass
               Hdl21.Proofs.C02EProofsBase Hdl21.Proofs.C02EProofsPlan Hdl21.Proofs.C02EProofsPortRefs
               Hdl21.Proofs.C01FProofsGroups Hdl21.Proofs.C01FProofsPlan Hdl21.Proofs.C01FProofsPortRefs
               Hdl21.Proofs.C01FProofsReparent Hdl21.Proofs.C01FProofsReparentD Hdl21.Proofs.C02FProofsReparent.
Open Scope Z_scope.

Lemma assoc_same_keys {A B} (l : list (name * A)) (l' : list (name * B)) k : map fst l = map fst l' -> assoc k l = None -> assoc k l' = None.
Proof. intros E H. apply assoc_notin_None. rewrite <- E. apply assoc_None_notin. exact H. Qed.

Lemma seed2_of_mentioned m q y : In q (mentioned2 m) -> find_inst (m_insts m) (fst q) = Some y -> In (SRef q) (seeds2 m).
Proof.
  intros Hq Hf. destruct (find_inst_In _ _ _ Hf) as [Hy Hn]. unfold seeds2. apply in_flat_map. exists y.
  split; [apply pr_insts_split; exact Hy|]. unfold inst_seeds2. apply in_or_app. left. apply in_map. apply filter_In.
  split; [exact Hq|]. rewrite Hn. apply String.eqb_refl.
Qed.

Lemma seed2_is_mentioned m q : In (SRef q) (seeds2 m) -> In q (mentioned2 m).
Proof.
  unfold seeds2. intros H. apply in_flat_map in H. destruct H as [x [_ H]]. unfold inst_seeds2 in H. apply in_app_or in H.
  destruct H as [H|H].
  - apply in_map_iff in H. destruct H as [q' [E Hq']]. inversion E; subst q'. apply filter_In in Hq'. tauto.
  - apply in_flat_map in H. destruct H as [c [_ H]]. destruct (as_nc m (snd c)); [destruct H as [E|[]]; discriminate|destruct H].
Qed.

Section PRAny2.
Variables (d : design) (ncn : list (N * name)) (self : nat) (m : module).
Variables (keys : list key) (allocs : list alloc) (names : list name) (insts1 insts2 : list inst) (m2 : module).
Let table := number_allocs (combine allocs names) (next_leaf m).
Let mm1 := m1 m allocs names insts1.
Let F := ref_fuel keys.

(* given: what Python guarantees and the printer's annotations *)
Hypothesis Gnames : NoDup (map i_name (m_insts m)).
Hypothesis Gconns : forall x, In x (m_insts m) -> NoDup (map fst (i_conns x)).
Hypothesis Gports : forall x ports, In x (m_insts m) -> target_ports d (i_of x) = Ok ports -> nodup_names (map fst ports) = true.
Hypothesis Gpos : forall x ports pw, In x (m_insts m) -> target_ports d (i_of x) = Ok ports -> In pw ports -> 1 <= snd pw.
Hypothesis Gsig : forall x c lw, In x (m_insts m) -> In c (i_conns x) -> In lw (sx_leaves (snd c)) -> annot_ok m lw = true.
Hypothesis Gref : forall x c lw, In x (m_insts m) -> In c (i_conns x) -> In lw (sx_leaves (snd c)) -> ref_annot_ok d m lw = true.
(* the fragment *)
Hypothesis Fsingle : forall x c lw, In x (m_insts m) -> In c (i_conns x) -> In lw (sx_leaves (snd c)) -> ref_single m lw = true.
(* the passes that succeeded *)
Hypothesis Hbuild : build_check self m = Ok tt.
Hypothesis Horph : orphanage_check self m = Ok tt.
Hypothesis Hkeys : all_keys d m = Ok keys.
Hypothesis Hplan : plan d ncn m keys (seeds2 m) [] = Ok allocs.
Hypothesis Hins : Forall2 (fun x x1 => rewrite_inst m keys table x = Ok x1) (m_insts m) insts1.
Hypothesis Hrp : Forall2 (fun x1 x2 => reparent_inst mm1 F x1 = Ok x2) insts1 insts2.
Hypothesis Hleaves2 : m_leaves m2 = m_leaves mm1.
Hypothesis Hct : forall x2, In x2 insts2 -> conntypes_inst d m2 x2 = Ok tt.

Let KN := Datatypes.length keys.

(* ---- lookups ---- *)
Lemma pb_find x : In x (m_insts m) -> find_inst (m_insts m) (i_name x) = Some x.
Proof. apply find_inst_unique. exact Gnames. Qed.

Lemma pb_assoc x c : In x (m_insts m) -> In c (i_conns x) -> assoc (fst c) (i_conns x) = Some (snd c).
Proof. intros Hx Hc. destruct c as [p cx]. apply assoc_nodup_In'; [apply Gconns; exact Hx|exact Hc]. Qed.

Lemma pb_pconn x c : In x (m_insts m) -> In c (i_conns x) -> pconn m (i_name x, fst c) = Some (snd c).
Proof. intros Hx Hc. unfold pconn. cbn [fst snd]. rewrite (pb_find x Hx). apply pb_assoc; assumption. Qed.

(* the three forms of an instance: written, after step 1, after re-parenting *)
Lemma chain x : In x (m_insts m) -> exists x1 x2, In x1 insts1 /\ In x2 insts2 /\ rewrite_inst m keys table x = Ok x1 /\
  reparent_inst mm1 F x1 = Ok x2 /\ find_inst insts1 (i_name x) = Some x1.
Proof.
  intros Hx. destruct (find_inst1 m keys allocs names insts1 Hins (i_name x) x (pb_find x Hx)) as [x1 [Hf1 [Hr _]]].
  destruct (find_inst_In _ _ _ Hf1) as [Hx1 _]. destruct (Forall2_In_l _ _ _ x1 Hrp Hx1) as [x2 [Hx2 Hr2]]. exists x1, x2. auto.
Qed.

Lemma pb_rewrite x c : In x (m_insts m) -> In c (i_conns x) -> exists e, rewrite_conn m keys table x c = Ok (fst c, e).
Proof.
  intros Hx Hc. destruct (chain x Hx) as [x1 [_ [_ [_ [Hr _]]]]]. destruct (rewrite_inst_inv _ _ _ _ _ _ Hr) as [_ [_ [_ [cs [_ Fc]]]]].
  destruct (Forall2_In_l _ _ _ c Fc Hc) as [c1 [_ Hc1]]. pose proof (rewrite_conn_fst _ _ _ _ _ _ _ Hc1) as E.
  exists (snd c1). rewrite <- E. destruct c1. exact Hc1.
Qed.

(* ---- Orphanage ---- *)
Lemma orph_leaf2 x c lw : In x (m_insts m) -> In c (i_conns x) -> In lw (sx_leaves (snd c)) ->
  match assocN (fst lw) (m_leaves m) with
  | Some (LSig s) => exists w, sig_width m s = Some w
  | Some (LRef i _) => exists y, find_inst (m_insts m) i = Some y
  | Some (LNc _) => True
  | None => False
  end.
Proof. exact (orph_leaf self m Horph x c lw). Qed.

(* ---- ConnTypes on the re-parented module ---- *)
Lemma ct_width_leaves e : ct_width m2 e = ct_width mm1 e.
Proof. unfold ct_width, leaf_at. rewrite Hleaves2. reflexivity. Qed.

Lemma ct_facts2 x x1 x2 : In x (m_insts m) -> rewrite_inst m keys table x = Ok x1 -> reparent_inst mm1 F x1 = Ok x2 -> In x2 insts2 ->
  single x = true ->
  exists ports, target_ports d (i_of x) = Ok ports /\
    (forall p e2, assoc p (i_conns x2) = Some e2 -> exists w, assoc p ports = Some w /\ xwidth e2 = Ok w) /\
    (forall p w, assoc p ports = Some w -> exists e2, assoc p (i_conns x2) = Some e2).
Proof.
  intros Hx Hr1 Hr2 Hx2 Hs. destruct (rewrite_inst_inv _ _ _ _ _ _ Hr1) as [_ [Hn1 [Ho1 _]]].
  destruct (reparent_inst_inv _ _ _ _ Hr2) as [_ [Hn2 [Ho2 _]]].
  pose proof (Hct x2 Hx2) as H. unfold conntypes_inst in H.
  assert (single x2 = true) as Hs2 by (unfold single in *; rewrite Hn2, Hn1; exact Hs).
  rewrite Hs2, Ho2, Ho1 in H. apply bind_ok in H. destruct H as [ports [Hp H]]. apply bind_ok in H. destruct H as [cws [Hcw H]].
  apply check_ok in H. destruct (check_instance_sound ports cws (Gports x ports Hx Hp) H) as [A B].
  destruct (ct_widths_assoc _ _ _ Hcw) as [Hkeys1 Hlook].
  exists ports. split; [exact Hp|]. split.
  - intros p e2 Ha. pose proof (Hlook p) as L. rewrite Ha in L. destruct L as [w [Hw Hcws]].
    assert (In p (map fst ports)) as Hin by (apply B; apply in_fst_assoc; eauto).
    apply in_fst_assoc in Hin. destruct Hin as [wp Hwp]. pose proof (A _ _ Hwp) as E. rewrite Hcws in E. inversion E; subst wp.
    exists w. split; [exact Hwp|]. unfold ct_width in Hw. destruct (leaf_at m2 e2) as [[s|i q|s]|]; try discriminate; exact Hw.
  - intros p w Hw. pose proof (A _ _ Hw) as E. pose proof (Hlook p) as L.
    destruct (assoc p (i_conns x2)) as [e2|]; [eauto|rewrite L in E; discriminate].
Qed.

(* every connection of a single instance, read back through the two steps *)
Lemma single_facts2 y : In y (m_insts m) -> single y = true ->
  exists ports, target_ports d (i_of y) = Ok ports /\
    (forall c, In c (i_conns y) -> exists w e e2, assoc (fst c) ports = Some w /\
        rewrite_conn m keys table y c = Ok (fst c, e) /\ reparent mm1 F e = Ok e2 /\ xwidth e2 = Ok w) /\
    (forall p w, assoc p ports = Some w -> assoc p (i_conns y) = None -> exists e, In (p, e) (added_conns table y)).
Proof.
  intros Hy Hs. destruct (chain y Hy) as [y1 [y2 [Hy1 [Hy2 [Hr1 [Hr2 _]]]]]].
  destruct (ct_facts2 y y1 y2 Hy Hr1 Hr2 Hy2 Hs) as [ports [Hp [A B]]].
  destruct (rewrite_inst_inv _ _ _ _ _ _ Hr1) as [_ [_ [_ [cs [Hcs Fc]]]]].
  destruct (reparent_inst_inv _ _ _ _ Hr2) as [_ [_ [_ Frp]]].
  assert (forall a b, rewrite_conn m keys table y a = Ok b -> fst a = fst b) as Hfst by (intros a b E; symmetry; eapply rewrite_conn_fst; exact E).
  assert (forall a b : name * sx, fst b = fst a /\ reparent mm1 F (snd a) = Ok (snd b) -> fst a = fst b) as Hfst2 by (intros a b [E _]; auto).
  exists ports. split; [exact Hp|]. split.
  - intros c Hc. destruct (assoc_Forall2 _ _ _ (fst c) (snd c) Fc Hfst (pb_assoc y c Hy Hc)) as [e [Ha Hr]]. cbn beta in Hr.
    rewrite <- surjective_pairing in Hr.
    assert (assoc (fst c) (i_conns y1) = Some e) as Ha1 by (rewrite Hcs, assoc_app, Ha; reflexivity).
    destruct (assoc_Forall2 _ _ _ (fst c) e Frp Hfst2 Ha1) as [e2 [Ha2 [_ Hre]]]. cbn [snd] in Hre.
    destruct (A _ _ Ha2) as [w [Hw Hxw]]. exists w, e, e2. auto.
  - intros p w Hw Hnone. destruct (B _ _ Hw) as [e2 He2].
    destruct (assoc p (i_conns y1)) as [e1|] eqn:Ea.
    + assert (assoc p cs = None) as Hn'.
      { apply (assoc_same_keys (i_conns y) cs p); [apply (Forall2_map_eq _ fst fst _ _ Fc Hfst)|exact Hnone]. }
      rewrite Hcs, assoc_app, Hn' in Ea. exists e1. apply assoc_In. exact Ea.
    + exfalso. rewrite (assoc_same_keys (i_conns y1) (i_conns y2) p (Forall2_map_eq _ fst fst _ _ Frp Hfst2) Ea) in He2. discriminate.
Qed.

Lemma single_port2 y c : In y (m_insts m) -> single y = true -> In c (i_conns y) -> exists w, port_width d y (fst c) = Ok w.
Proof.
  intros Hy Hs Hc. destruct (single_facts2 y Hy Hs) as [ports [Hp [A _]]]. destruct (A c Hc) as [w [_ [_ [Hw _]]]].
  exists w. unfold port_width. rewrite Hp. cbn [bind]. rewrite Hw. reflexivity.
Qed.

(* ---- the plan ---- *)
Lemma seed_gok2 q y : In q (mentioned2 m) -> find_inst (m_insts m) (fst q) = Some y -> exists g, gid m keys q = Some g /\ gok d m keys g.
Proof.
  intros Hq Hf. destruct (plan_any d ncn m keys _ _ _ Hplan) as [P1 _].
  destruct (P1 q (seed2_of_mentioned m q y Hq Hf)) as [g [Hg [[]|Hok]]]. eauto.
Qed.

Lemma table_group2 e g : find_group table g = Some e ->
  In e table /\ exists o namer, group_res m keys g = Ok (GFresh o namer) /\ key_width d m namer = Ok (a_width (snd (fst e))).
Proof.
  intros H. unfold find_group in H. apply find_some in H. destruct H as [Hin Hk]. split; [exact Hin|]. destruct e as [[id a] nm]. cbn [fst snd] in *.
  destruct (a_kind a) as [g' o|i p] eqn:Ek; [|discriminate]. apply key_eqb_eq in Hk. subst g'.
  apply number_allocs_spec in Hin. destruct Hin as [_ Hin]. apply in_combine_l in Hin.
  destruct (plan_any d ncn m keys _ _ _ Hplan) as [_ P2]. destruct (P2 a g o Hin Ek) as [q [namer [_ [_ [Hgr Hw]]]]]. eauto.
Qed.

(* ---- a reference, at any depth, names an existing port of a single instance ---- *)
Lemma ref_target2 x c q : In x (m_insts m) -> In c (i_conns x) -> In q (refs_in m (snd c)) ->
  exists y w, find_inst (m_insts m) (fst q) = Some y /\ single y = true /\ port_width d y (snd q) = Ok w /\ 1 <= w /\ In q keys /\ In q (mentioned2 m).
Proof.
  intros Hx Hc Hr. pose proof Hr as Hr'. apply refs_in_In in Hr'. destruct Hr' as [lw [Hin Hl]].
  pose proof (orph_leaf2 x c lw Hx Hc Hin) as Ho. rewrite Hl in Ho. destruct Ho as [y Hy].
  pose proof (Fsingle x c lw Hx Hc Hin) as Hs. unfold ref_single in Hs. rewrite Hl, Hy in Hs.
  assert (In q (mentioned2 m)) as Hq by (apply pr_mentioned; eauto).
  destruct (find_inst_In _ _ _ Hy) as [Hyin Hyn].
  assert (exists w, port_width d y (snd q) = Ok w) as [w Hw].
  { destruct (assoc (snd q) (i_conns y)) as [cy|] eqn:Ea.
    - apply (single_port2 y (snd q, cy) Hyin Hs). apply assoc_In. exact Ea.
    - destruct (seed_gok2 q y Hq Hy) as [g [Hg [gr [Hgr Hok]]]].
      assert (pconn m q = None) as Hp by (unfold pconn; rewrite Hy; exact Ea).
      assert (nxt m q = q) as Hfix by (apply nxt_fixed_of_next; unfold next; rewrite Hp; reflexivity).
      unfold group_res in Hgr. rewrite (attr_of_fixed m keys q g Hg Hfix), Hp in Hgr. inversion Hgr; subst gr.
      destruct Hok as [w Hw]. unfold key_width in Hw. rewrite Hy in Hw. cbn [ofopt bind] in Hw. eauto. }
  exists y, w. split; [exact Hy|]. split; [exact Hs|]. split; [exact Hw|]. split.
  { unfold port_width in Hw. destruct (target_ports d (i_of y)) as [ps|] eqn:Ep; cbn [bind] in Hw; [|discriminate].
    apply ofopt_ok in Hw. apply (Gpos y ps (snd q, w) Hyin Ep). apply assoc_In. exact Hw. }
  split; [|exact Hq]. apply (keys_In_nd d m keys Gnames Hkeys). exists y, w. auto.
Qed.

Lemma whole_ref_in (x : inst) (c : name * sx) q : as_ref m (snd c) = Some q -> In q (refs_in m (snd c)).
Proof. intros H. rewrite (as_ref_refs_in m (snd c) q H). left. reflexivity. Qed.

Lemma keys_closed_any2 q : In q keys -> In (nxt m q) keys.
Proof.
  intros Hq. unfold nxt. destruct (next m q) as [q'|] eqn:En; [|exact Hq].
  apply (keys_In_nd d m keys Gnames Hkeys) in Hq. destruct Hq as [x [w [Hf _]]]. destruct (find_inst_In _ _ _ Hf) as [Hx _].
  unfold next, pconn in En. rewrite Hf in En. destruct (assoc (snd q) (i_conns x)) as [cx|] eqn:Ea; [|discriminate].
  destruct (ref_target2 x (snd q, cx) q' Hx (assoc_In _ _ _ Ea) (whole_ref_in x (snd q, cx) q' En)) as [_ [_ [_ [_ [_ [_ [H _]]]]]]]. exact H.
Qed.

Lemma gid_next_any2 q q' : In q keys -> next m q = Some q' -> gid m keys q = gid m keys q'.
Proof.
  intros Hq Hn. assert (nxt m q = q') as E by (unfold nxt; rewrite Hn; reflexivity).
  assert (In q' keys) as Hq' by (rewrite <- E; apply keys_closed_any2; exact Hq).
  assert (forall a b, In a keys -> In b keys ->
            (meets key key_eqb (orbitf key (nxt m) key_eqb KN a) (orbitf key (nxt m) key_eqb KN b) = true <-> conn key (nxt m) a b)) as MC.
  { intros a b Ha Hb. apply (meets_iff key (nxt m) key_eqb key_eqb_eq keys keys_closed_any2); [apply Nat.le_refl|exact Ha|exact Hb]. }
  assert (conn key (nxt m) q q') as C by (rewrite <- E; apply c_step).
  unfold gid. apply find_ext_in. intros k Hk. fold KN.
  destruct (meets key key_eqb (orbitf key (nxt m) key_eqb KN k) (orbitf key (nxt m) key_eqb KN q)) eqn:E1;
  destruct (meets key key_eqb (orbitf key (nxt m) key_eqb KN k) (orbitf key (nxt m) key_eqb KN q')) eqn:E2; try reflexivity; exfalso.
  - apply MC in E1; [|exact Hk|exact Hq]. assert (conn key (nxt m) k q') as C2 by (eapply c_trans; eassumption).
    apply MC in C2; [congruence|exact Hk|exact Hq'].
  - apply MC in E2; [|exact Hk|exact Hq']. assert (conn key (nxt m) k q) as C2 by (eapply c_trans; [exact E2|apply c_sym; exact C]).
    apply MC in C2; [congruence|exact Hk|exact Hq].
Qed.

Lemma res_next2 q q' : In q keys -> next m q = Some q' -> res m keys table q = res m keys table q'.
Proof. intros Hq Hn. unfold res. rewrite (gid_next_any2 q q' Hq Hn). reflexivity. Qed.

(* ---- leaves of the module after step 1 ---- *)
Lemma ref_leaf_old id lf : assocN id (m_leaves m) = Some lf ->
  ref_leaf mm1 id = match lf with LRef i p => Some (i, p) | _ => None end.
Proof. intros H. unfold ref_leaf. change (m_leaves mm1) with (leaves1 m allocs names). rewrite (leaves1_old m allocs names id lf H). reflexivity. Qed.

Lemma ref_leaf_new e : In e table -> ref_leaf mm1 (fst (fst e)) = None.
Proof.
  intros H. destruct e as [[id a] nm]. unfold ref_leaf. change (m_leaves mm1) with (leaves1 m allocs names).
  cbn [fst]. rewrite (leaves1_new m allocs names id a nm H). reflexivity.
Qed.

(* ---- what a reference leaf is replaced by has the width of the port it names ---- *)
Lemma pconn1_width q y w cxq r f : find_inst (m_insts m) (fst q) = Some y -> single y = true -> port_width d y (snd q) = Ok w ->
  pconn mm1 q = Some cxq -> (f <= F)%nat -> reparent mm1 f cxq = Ok r -> xwidth r = Ok w.
Proof.
  intros Hy Hs Hw Hpc Hf Hr. destruct (find_inst_In _ _ _ Hy) as [Hyin Hyn].
  destruct (chain y Hyin) as [y1 [y2 [Hy1 [Hy2 [Hr1 [Hr2 Hf1]]]]]]. rewrite Hyn in Hf1.
  unfold pconn in Hpc. change (m_insts mm1) with insts1 in Hpc. rewrite Hf1 in Hpc.
  destruct (reparent_inst_inv _ _ _ _ Hr2) as [_ [_ [_ Frp]]].
  assert (forall a b : name * sx, fst b = fst a /\ reparent mm1 F (snd a) = Ok (snd b) -> fst a = fst b) as Hfst2 by (intros a b [E _]; auto).
  destruct (assoc_Forall2 _ _ _ (snd q) cxq Frp Hfst2 Hpc) as [e2 [Ha2 [_ Hre]]]. cbn [snd] in Hre.
  destruct (ct_facts2 y y1 y2 Hyin Hr1 Hr2 Hy2 Hs) as [ports [Hp [A _]]]. destruct (A _ _ Ha2) as [w' [Hw' Hxw]].
  unfold port_width in Hw. rewrite Hp in Hw. cbn [bind] in Hw. rewrite Hw' in Hw. inversion Hw; subst w'.
  rewrite (reparent_mono mm1 f F cxq r Hf Hr) in Hre. inversion Hre; subst e2. exact Hxw.
Qed.

Definition leaf_good (lw : N * Z) : Prop :=
  match assocN (fst lw) (m_leaves m) with
  | Some (LRef i p) => exists y, find_inst (m_insts m) i = Some y /\ single y = true /\ port_width d y p = Ok (snd lw) /\ 1 <= snd lw
  | Some _ => True
  | None => False
  end.

Lemma reparent_width e e2 f : (f <= F)%nat -> reparent mm1 f e = Ok e2 -> (forall lw, In lw (sx_leaves e) -> leaf_good lw) ->
  xwidth e2 = xwidth e.
Proof.
  intros Hf Hr Hg. rewrite reparent_unfold in Hr. apply (sx_subst_width _ _ _ Hr). intros id w r Hin Hl.
  specialize (Hg (id, w) Hin). unfold leaf_good in Hg. cbn [fst snd] in Hg. unfold rp_leaf in Hl.
  destruct (assocN id (m_leaves m)) as [lf|] eqn:El; [|destruct Hg]. rewrite (ref_leaf_old id lf El) in Hl.
  destruct lf as [s|i p|s]; try (inversion Hl; reflexivity).
  destruct Hg as [y [Hy [Hs [Hw Hpos]]]]. destruct f as [|f0]; [discriminate|].
  apply bind_ok in Hl. destruct Hl as [cxq [Hcx Hl]]. apply ofopt_ok in Hcx.
  rewrite (pconn1_width (i, p) y w cxq r f0 Hy Hs Hw Hcx ltac:(lia) Hl). cbn [xwidth]. destruct (w <? 1) eqn:E; [lia|reflexivity].
Qed.

Lemma leaves_good x c : In x (m_insts m) -> In c (i_conns x) -> forall lw, In lw (sx_leaves (snd c)) -> leaf_good lw.
Proof.
  intros Hx Hc lw Hl. unfold leaf_good. pose proof (orph_leaf2 x c lw Hx Hc Hl) as Ho.
  destruct (assocN (fst lw) (m_leaves m)) as [[s|i p|s]|] eqn:El; try exact I; [|destruct Ho].
  assert (In (i, p) (refs_in m (snd c))) as Hr by (apply refs_in_In; exists lw; split; [exact Hl|exact El]).
  destruct (ref_target2 x c (i, p) Hx Hc Hr) as [y [w [Hy [Hs [Hw [Hpos _]]]]]]. cbn [fst snd] in *.
  pose proof (Gref x c lw Hx Hc Hl) as Ga. unfold ref_annot_ok in Ga. rewrite El, Hy, Hw in Ga.
  assert (w = snd lw) as <- by lia. exists y. auto.
Qed.

(* ---- what a whole-connection reference stands for has the width of the port it names ---- *)
Lemma ref_facts2 x c q e e2 : In x (m_insts m) -> In c (i_conns x) -> as_ref m (snd c) = Some q ->
  rewrite_conn m keys table x c = Ok (fst c, e) -> reparent mm1 F e = Ok e2 ->
  exists y w, find_inst (m_insts m) (fst q) = Some y /\ single y = true /\ port_width d y (snd q) = Ok w /\ xwidth e2 = Ok w.
Proof.
  intros Hx Hc Hr He He2. destruct (ref_target2 x c q Hx Hc (whole_ref_in x c q Hr)) as [y [w [Hy [Hs [Hw [Hpos [Hqk Hqm]]]]]]].
  assert (res m keys table q = Ok e) as Hres.
  { unfold rewrite_conn in He. rewrite Hr in He. apply bind_ok in He. destruct He as [e' [H1 H2]]. inversion H2; subst e'. exact H1. }
  exists y, w. split; [exact Hy|]. split; [exact Hs|]. split; [exact Hw|].
  destruct (find_inst_In _ _ _ Hy) as [Hyin Hyn].
  assert (exists ports, target_ports d (i_of y) = Ok ports /\ assoc (snd q) ports = Some w) as [ports [Hp Hpw]].
  { unfold port_width in Hw. destruct (target_ports d (i_of y)) as [ps|]; cbn [bind] in Hw; [|discriminate]. apply ofopt_ok in Hw. eauto. }
  destruct (seed_gok2 q y Hqm Hy) as [g [Hg [gr [Hgr Hok]]]].
  destruct (assoc (snd q) (i_conns y)) as [cy|] eqn:Ea.
  - (* the port has a connection of its own: ConnTypes saw its rewritten, re-parented form *)
    assert (In (snd q, cy) (i_conns y)) as Hcy by (apply assoc_In; exact Ea).
    destruct (single_facts2 y Hyin Hs) as [ports' [Hp' [A _]]]. rewrite Hp in Hp'. inversion Hp'; subst ports'.
    destruct (A _ Hcy) as [w' [e' [e2' [Hw' [He' [Hre' Hx']]]]]]. cbn [fst snd] in *. rewrite Hpw in Hw'. inversion Hw'; subst w'.
    assert (pconn m q = Some cy) as Hpc by (unfold pconn; rewrite Hy; exact Ea).
    assert (e' = e) as ->; [|rewrite He2 in Hre'; inversion Hre'; subst e2'; exact Hx'].
    destruct (as_ref m cy) as [q1|] eqn:Er.
    + assert (next m q = Some q1) as Hn by (unfold next; rewrite Hpc; exact Er).
      unfold rewrite_conn in He'. cbn [snd fst] in He'. rewrite Er in He'. apply bind_ok in He'. destruct He' as [e1 [H1 H2]]. inversion H2; subst e1.
      rewrite (res_next2 q q1 Hqk Hn), H1 in Hres. inversion Hres; reflexivity.
    + assert (nxt m q = q) as Hfix by (apply nxt_fixed_of_next; unfold next; rewrite Hpc; exact Er).
      unfold group_res in Hgr. rewrite (attr_of_fixed m keys q g Hg Hfix), Hpc, Er in Hgr.
      destruct (as_nc m cy) as [site|] eqn:Enc; [discriminate|]. inversion Hgr; subst gr.
      unfold rewrite_conn in He'. cbn [snd fst] in He'. rewrite Er, Enc in He'. inversion He'; subst e'.
      unfold res in Hres. rewrite Hg in Hres. cbn [ofopt bind] in Hres. unfold group_res in Hres. rewrite (attr_of_fixed m keys q g Hg Hfix), Hpc, Er, Enc in Hres.
      cbn [bind] in Hres. inversion Hres; reflexivity.
  - (* the port is connected to nothing: it is the root of its group, the implicit signal is copied from it *)
    assert (pconn m q = None) as Hpc by (unfold pconn; rewrite Hy; exact Ea).
    assert (nxt m q = q) as Hfix by (apply nxt_fixed_of_next; unfold next; rewrite Hpc; reflexivity).
    unfold res in Hres. rewrite Hg in Hres. cbn [ofopt bind] in Hres. unfold group_res in Hres. rewrite (attr_of_fixed m keys q g Hg Hfix), Hpc in Hres.
    cbn [bind] in Hres. apply bind_ok in Hres. destruct Hres as [en [Hen Hres]]. apply ofopt_ok in Hen. inversion Hres; subst e.
    destruct (table_group2 en g Hen) as [Hent [o [namer [Hgr' Hkw]]]]. unfold group_res in Hgr'. rewrite (attr_of_fixed m keys q g Hg Hfix), Hpc in Hgr'.
    inversion Hgr'; subst o namer. unfold key_width in Hkw. rewrite Hy in Hkw. cbn [ofopt bind] in Hkw. rewrite Hw in Hkw. inversion Hkw as [Haw].
    rewrite reparent_no_refs in He2.
    2:{ intros id w0 [E|[]]. inversion E; subst id w0. apply ref_leaf_new. exact Hent. }
    inversion He2; subst e2. cbn [xwidth]. rewrite <- Haw. destruct (w <? 1) eqn:El; [lia|reflexivity].
Qed.

(* ---- a no-connected port is referred to by nothing, at any depth ---- *)
Lemma nc_unreferenced2 x c site : In x (m_insts m) -> In c (i_conns x) -> as_nc m (snd c) = Some site -> refs_to m (i_name x) (fst c) = 0.
Proof.
  intros Hx Hc Hnc. pose proof (refs_to_nonneg m (i_name x) (fst c)) as H0.
  destruct (Z.eq_dec (refs_to m (i_name x) (fst c)) 0) as [E|E]; [exact E|]. exfalso.
  destruct (refs_to_pos_inv m (i_name x) (fst c) ltac:(lia)) as [x' [c' [Hx' [Hc' Hr']]]].
  set (q := (i_name x, fst c)) in *.
  assert (In q (mentioned2 m)) as Hq by (apply pr_mentioned; eauto).
  destruct (seed_gok2 q x Hq (pb_find x Hx)) as [g [Hg [gr [Hgr _]]]].
  assert (as_ref m (snd c) = None) as Er.
  { unfold as_nc in Hnc. unfold as_ref. destruct (leaf_at m (snd c)) as [[s|i p|s]|]; try discriminate; reflexivity. }
  assert (nxt m q = q) as Hfix by (apply nxt_fixed_of_next; unfold next, q; rewrite (pb_pconn x c Hx Hc); exact Er).
  unfold group_res in Hgr. rewrite (attr_of_fixed m keys q g Hg Hfix) in Hgr. unfold q in Hgr. rewrite (pb_pconn x c Hx Hc), Er, Hnc in Hgr. discriminate.
Qed.

(* ---- an unconnected port that ConnTypes found connected was given the implicit signal of a group: it is referred to ---- *)
Lemma next_referenced2 z t : next m z = Some t -> 0 < refs_to m (fst t) (snd t).
Proof.
  unfold next, pconn. destruct (find_inst (m_insts m) (fst z)) as [x|] eqn:Ef; [|discriminate].
  destruct (assoc (snd z) (i_conns x)) as [cx|] eqn:Ea; [|discriminate]. intros Hr.
  destruct (find_inst_In _ _ _ Ef) as [Hx _].
  apply (refs_to_pos m x (snd z, cx) t Hx (assoc_In _ _ _ Ea)). apply (whole_ref_in x (snd z, cx) t Hr).
Qed.

Lemma mentioned_referenced2 q : In q (mentioned2 m) -> 0 < refs_to m (fst q) (snd q).
Proof. intros H. apply pr_mentioned in H. destruct H as [x [c [Hx [Hc Hr]]]]. apply (refs_to_pos m x c q Hx Hc Hr). Qed.

Lemma iter_referenced2 n s t : Nat.iter n (nxt m) s = t -> s = t \/ 0 < refs_to m (fst t) (snd t).
Proof.
  intros H. destruct (iter_image key (nxt m) key_eqb key_eqb_eq n s t H) as [E|[z [Hz Hne]]]; [left; exact E|right].
  apply (next_referenced2 z t). apply nxt_image; assumption.
Qed.

Lemma added_referenced2 y p e : In y (m_insts m) -> In (p, e) (added_conns table y) -> 0 < refs_to m (i_name y) p.
Proof.
  intros Hy Hin. unfold added_conns in Hin. apply in_flat_map in Hin. destruct Hin as [[[id a] nm] [Ht Hin]].
  unfold added_one in Hin. cbn [fst snd] in Hin. destruct (a_kind a) as [g o|i0 p0] eqn:Ek; [|destruct Hin].
  destruct (String.eqb (fst o) (i_name y) && single y && match assoc (snd o) (i_conns y) with None => true | Some _ => false end) eqn:Eb; [|destruct Hin].
  destruct Hin as [E|[]]. inversion E; subst p e. apply andb_prop in Eb. destruct Eb as [Eb Enone]. apply andb_prop in Eb. destruct Eb as [Eo Es].
  apply String.eqb_eq in Eo. destruct (assoc (snd o) (i_conns y)) eqn:Ea; [discriminate|].
  assert (pconn m o = None) as Hpo by (unfold pconn; rewrite Eo, (pb_find y Hy); exact Ea).
  assert (nxt m o = o) as Hfo by (apply nxt_fixed_of_next; unfold next; rewrite Hpo; reflexivity).
  apply number_allocs_spec in Ht. destruct Ht as [_ Ht]. apply in_combine_l in Ht.
  destruct (plan_any d ncn m keys _ _ _ Hplan) as [_ P2]. destruct (P2 a g o Ht Ek) as [q [namer [Hseed [Hg [Hgr _]]]]].
  rewrite <- Eo. unfold group_res in Hgr. destruct (pconn m (attr m keys g)) as [cx|] eqn:Epr.
  - exfalso. destruct (as_ref m cx) as [q1|] eqn:Er.
    + destruct (members m keys g) as [|x0 t0]; [discriminate|]. inversion Hgr; subst o.
      unfold attr in Epr. rewrite (fixed_iter key (nxt m) g _ Hfo) in Epr. congruence.
    + destruct (as_nc m cx); discriminate.
  - inversion Hgr; subst o namer. unfold attr in *. fold KN in Hfo, Hpo |- *.
    destruct (iter_referenced2 KN g _ eq_refl) as [Egr|Hpos]; [|exact Hpos].
    rewrite <- Egr in Hfo |- *. pose proof (gid_meets m keys q g Hg) as Hm. fold KN in Hm. rewrite (orbitf_fixed key (nxt m) key_eqb key_eqb_eq KN g Hfo) in Hm.
    unfold meets in Hm. cbn [existsb] in Hm. rewrite orb_false_r in Hm. apply existsb_exists in Hm. destruct Hm as [b [Hb Hgb]].
    apply key_eqb_eq in Hgb. subst b. destruct (orbitf_le key (nxt m) key_eqb key_eqb_eq KN q g Hb) as [n [_ En]].
    destruct (iter_referenced2 n q g (eq_sym En)) as [Eq|Hpos]; [|exact Hpos].
    rewrite <- Eq. apply mentioned_referenced2. apply seed2_is_mentioned. exact Hseed.
Qed.

(* ---- the constructors: no no-connect inside an expression ---- *)
Lemma build_no_nc x c : In x (m_insts m) -> In c (i_conns x) -> is_nc m (snd c) = None -> has_nc_inside m (snd c) = false.
Proof.
  intros Hx Hc Hn. unfold build_check in Hbuild. apply check_ok in Hbuild. rewrite forallb_forall in Hbuild.
  specialize (Hbuild x Hx). rewrite forallb_forall in Hbuild. specialize (Hbuild c Hc). unfold build_conn in Hbuild. rewrite Hn in Hbuild.
  apply negb_true_iff in Hbuild. exact Hbuild.
Qed.

(* ---- one connection is valid by the specification, given the port and the width of what ConnTypes / ArrayFlattener saw ---- *)
Lemma wf_conn_any2 x ports c w : In x (m_insts m) -> In c (i_conns x) -> assoc (fst c) ports = Some w ->
  (forall e e2, rewrite_conn m keys table x c = Ok (fst c, e) -> reparent mm1 F e = Ok e2 -> as_nc m (snd c) = None ->
     exists cw, xwidth e2 = Ok cw /\ (cw = w \/ (0 < i_n x /\ cw = i_n x * w))) ->
  (forall e, rewrite_conn m keys table x c = Ok (fst c, e) -> exists e2, reparent mm1 F e = Ok e2) ->
  wf_conn d m x ports c = Ok tt.
Proof.
  intros Hx Hc Hw Hwidth Hrep. unfold wf_conn. rewrite Hw. cbn [ofopt bind]. rewrite <- as_nc_is_nc.
  pose proof (leaves_good x c Hx Hc) as Hgood.
  rewrite (all_ok_intro (wf_leaf d m) (sx_leaves (snd c))).
  2:{ intros lw Hl. pose proof (Hgood lw Hl) as Hg. pose proof (orph_leaf2 x c lw Hx Hc Hl) as Ho. unfold leaf_good in Hg. unfold wf_leaf.
      destruct (assocN (fst lw) (m_leaves m)) as [[s|i p|s]|] eqn:El; cbn [ofopt bind]; [| |reflexivity|destruct Ho].
      - destruct Ho as [w' Hs]. rewrite Hs. cbn [ofopt bind]. pose proof (Gsig x c lw Hx Hc Hl) as Ga. unfold annot_ok in Ga. rewrite El, Hs in Ga.
        unfold check. rewrite Ga. reflexivity.
      - destruct Hg as [y [Hy [Hs [Hpw Hpos]]]]. rewrite Hy. cbn [ofopt bind]. rewrite Hpw. cbn [bind]. unfold single in Hs. rewrite Hs.
        cbn [check bind]. unfold check. rewrite Z.eqb_refl. reflexivity. }
  cbn [bind]. destruct (as_nc m (snd c)) as [site|] eqn:Enc.
  - rewrite (nc_unreferenced2 x c site Hx Hc Enc). reflexivity.
  - rewrite (build_no_nc x c Hx Hc ltac:(rewrite <- as_nc_is_nc; exact Enc)). cbn [negb check bind].
    destruct (pb_rewrite x c Hx Hc) as [e He]. destruct (Hrep e He) as [e2 He2].
    destruct (Hwidth e e2 He He2 eq_refl) as [cw [Hcw Hcase]].
    assert (xwidth (snd c) = Ok cw) as ->.
    { destruct (as_ref m (snd c)) as [q|] eqn:Er.
      - destruct (ref_facts2 x c q e e2 Hx Hc Er He He2) as [y [wq [Hy [Hs [Hwq Hxe]]]]].
        destruct (as_ref_shape _ _ _ Er) as [id [wl [E Hl]]].
        assert (In (id, wl) (sx_leaves (snd c))) as Hin by (rewrite E; left; reflexivity).
        pose proof (Hgood (id, wl) Hin) as Hg. unfold leaf_good in Hg. cbn [fst snd] in Hg. rewrite Hl in Hg.
        destruct Hg as [y' [Hy' [_ [Hpw' Hpos]]]]. rewrite Hy in Hy'. inversion Hy'; subst y'. rewrite Hwq in Hpw'. inversion Hpw'; subst wq.
        rewrite Hxe in Hcw. inversion Hcw; subst cw. rewrite E. cbn [xwidth]. destruct (wl <? 1) eqn:El; [lia|reflexivity].
      - assert (e = snd c) as ->.
        { unfold rewrite_conn in He. rewrite Er, Enc in He. inversion He as [He']. rewrite He'. reflexivity. }
        rewrite <- (reparent_width (snd c) e2 F (Nat.le_refl _) He2 Hgood). exact Hcw. }
    cbn [bind]. unfold check.
    assert ((cw =? w) || (0 <? i_n x) && (cw =? i_n x * w) = true) as -> by lia. reflexivity.
Qed.

Lemma hier_inst_ok2 x : hier_module self m = Ok tt -> In x (m_insts m) ->
  match i_of x with TMod k => check (k <? self)%nat ECycle | TDev _ _ => Ok tt end = Ok tt.
Proof. intros H Hx. unfold hier_module in H. apply (all_ok_In _ _ x H Hx). Qed.

(* the re-parented form of every connection exists *)
Lemma rep_exists x c e : In x (m_insts m) -> In c (i_conns x) -> rewrite_conn m keys table x c = Ok (fst c, e) ->
  exists e2, reparent mm1 F e = Ok e2.
Proof.
  intros Hx Hc He. destruct (chain x Hx) as [x1 [x2 [_ [_ [Hr1 [Hr2 _]]]]]].
  destruct (rewrite_inst_inv _ _ _ _ _ _ Hr1) as [_ [_ [_ [cs [Hcs Fc]]]]]. destruct (reparent_inst_inv _ _ _ _ Hr2) as [_ [_ [_ Frp]]].
  destruct (Forall2_In_l _ _ _ c Fc Hc) as [c1 [Hc1 Hrc]].
  assert (c1 = (fst c, e)) as -> by (pose proof (eq_trans (eq_sym Hrc) He) as X; inversion X; reflexivity).
  assert (In (fst c, e) (i_conns x1)) as Hin by (rewrite Hcs; apply in_or_app; left; exact Hc1).
  destruct (Forall2_In_l _ _ _ _ Frp Hin) as [c2 [_ [_ Hre]]]. cbn [snd] in Hre. eauto.
Qed.

(* ---- a single instance ---- *)
Theorem single_inst_wf2 x : hier_module self m = Ok tt -> In x (m_insts m) -> single x = true -> wf_inst d self m x = Ok tt.
Proof.
  intros Hh Hx Hs. destruct (single_facts2 x Hx Hs) as [ports [Hp [A B]]]. unfold wf_inst.
  rewrite (hier_inst_ok2 x Hh Hx). cbn [bind]. rewrite Hp. cbn [bind].
  rewrite (proj2 (nodup_names_NoDup _) (Gconns x Hx)). cbn [check bind].
  rewrite (all_ok_intro (wf_conn d m x ports) (i_conns x)).
  2:{ intros c Hc. destruct (A c Hc) as [w [e [e2 [Hw [He [Hre Hxe]]]]]]. apply (wf_conn_any2 x ports c w Hx Hc Hw).
      - intros e' e2' He' Hre' _. rewrite He in He'. inversion He'; subst e'. rewrite Hre in Hre'. inversion Hre'; subst e2'.
        exists w. split; [exact Hxe|left; reflexivity].
      - intros e' He'. apply (rep_exists x c e' Hx Hc He'). }
  cbn [bind]. apply all_ok_intro. intros pw Hpw.
  assert (assoc (fst pw) ports = Some (snd pw)) as Hpa.
  { apply assoc_nodup_In'; [apply nodup_names_NoDup; apply (Gports x ports Hx Hp)|destruct pw; exact Hpw]. }
  destruct (assoc (fst pw) (i_conns x)) as [cx|] eqn:Ea; [reflexivity|].
  destruct (B _ _ Hpa Ea) as [e He]. pose proof (added_referenced2 x (fst pw) e Hx He) as Hpos.
  unfold check. assert ((0 <? refs_to m (i_name x) (fst pw)) = true) as -> by lia. reflexivity.
Qed.

(* ---- an instance array: ArrayFlattener gives every connection a port and a width w or n*w (on the rewritten, re-parented
        connection), PostFlattenConnTypes finds every port of the elements connected ---- *)
Theorem array_inst_wf2 x ports : hier_module self m = Ok tt -> In x (m_insts m) -> single x = false ->
  target_ports d (i_of x) = Ok ports ->
  (forall c e e2, In c (i_conns x) -> rewrite_conn m keys table x c = Ok (fst c, e) -> reparent mm1 F e = Ok e2 ->
     exists w cw, assoc (fst c) ports = Some w /\ xwidth e2 = Ok cw /\ (cw = w \/ cw = i_n x * w)) ->
  (forall pw, In pw ports -> assoc (fst pw) (i_conns x) <> None) ->
  wf_inst d self m x = Ok tt.
Proof.
  intros Hh Hx Hs Hp A B. unfold wf_inst.
  rewrite (hier_inst_ok2 x Hh Hx). cbn [bind]. rewrite Hp. cbn [bind].
  rewrite (proj2 (nodup_names_NoDup _) (Gconns x Hx)). cbn [check bind].
  assert (0 < i_n x) as Hn by (unfold single in Hs; lia).
  rewrite (all_ok_intro (wf_conn d m x ports) (i_conns x)).
  2:{ intros c Hc. destruct (pb_rewrite x c Hx Hc) as [e He]. destruct (rep_exists x c e Hx Hc He) as [e2 He2].
      destruct (A c e e2 Hc He He2) as [w [cw [Hw [Hcw Hcase]]]].
      apply (wf_conn_any2 x ports c w Hx Hc Hw).
      - intros e' e2' He' Hre' _. rewrite He in He'. inversion He'; subst e'. rewrite He2 in Hre'. inversion Hre'; subst e2'.
        exists cw. split; [exact Hcw|]. destruct Hcase as [->| ->]; [left; reflexivity|right; split; [exact Hn|reflexivity]].
      - intros e' He'. apply (rep_exists x c e' Hx Hc He'). }
  cbn [bind]. apply all_ok_intro. intros pw Hpw. specialize (B pw Hpw).
  destruct (assoc (fst pw) (i_conns x)); [reflexivity|congruence].
Qed.
End PRAny2.
