(* Proofs/C01BLowerProofs.v — the lowering lemma of the bundle fragment: the node map `phi` of Spec/C01BLower.v commutes with the
   one-step maps (Spec/C01BNets.bstep on the bundle design, Spec/Nets.step on the member-wise flattened design), hence
   flattening preserves nets. *)
Require Import Hdl21.Base.PyInt Hdl21.Spec.PySlice Hdl21.Model.Slice Hdl21.Model.Resolve Hdl21.Base.Design
               Hdl21.Spec.Nets Hdl21.Spec.WfDesign Hdl21.Base.C01BDesign Hdl21.Spec.C01BNets Hdl21.Spec.C01BLower
               Hdl21.Proofs.FunGraph Hdl21.Proofs.ResolveProofs Hdl21.Proofs.C01BProofs.
Require Hdl21.Spec.BundleSpec Hdl21.Proofs.BundleProofs.

(* ------------------------------------------------------------------------------------------------ *)
(* 0. lists, association lists                                                                       *)
(* ------------------------------------------------------------------------------------------------ *)
Lemma existsb_eqb_In x l : existsb (String.eqb x) l = true <-> In x l.
Proof.
  induction l as [|y l IH]; cbn [existsb In]; [split; [discriminate|tauto]|].
  rewrite orb_true_iff, IH, String.eqb_eq. split; intros [H|H]; auto.
Qed.

Lemma nodup_names_NoDup l : nodup_names l = true -> NoDup l.
Proof.
  induction l as [|x l IH]; intros H; [constructor|]. cbn [nodup_names] in H. apply andb_prop in H. destruct H as [H1 H2].
  constructor; [|apply IH; exact H2]. intros Hin. apply existsb_eqb_In in Hin. rewrite Hin in H1. discriminate.
Qed.

Lemma assoc_notin {V} k (l : list (name * V)) : ~ In k (map fst l) -> assoc k l = None.
Proof.
  induction l as [|[k' v] l IH]; intros H; [reflexivity|]. cbn [assoc]. cbn [map fst In] in H.
  destruct (String.eqb k k') eqn:E; [apply String.eqb_eq in E; subst; tauto|]. apply IH. tauto.
Qed.

Lemma assoc_In_some {V} k v (l : list (name * V)) : assoc k l = Some v -> In (k, v) l.
Proof.
  induction l as [|[k' v'] l IH]; cbn [assoc]; [discriminate|].
  destruct (String.eqb k k') eqn:E; [apply String.eqb_eq in E; subst; intros H; inversion H; left; reflexivity|].
  intros H. right. apply IH. exact H.
Qed.

Lemma In_assoc_some {V} k v (l : list (name * V)) : In (k, v) l -> exists v', assoc k l = Some v'.
Proof.
  induction l as [|[k' v'] l IH]; cbn [In assoc]; [tauto|]. intros [H|H].
  - inversion H; subst. rewrite String.eqb_refl. eauto.
  - destruct (String.eqb k k'); [eauto|apply IH; exact H].
Qed.

(* looking a key up in the image of a list whose keys are pairwise distinct *)
Lemma assoc_map_key_in {A V} (key : A -> name) (val : A -> V) (l : list A) a :
  NoDup (map key l) -> In a l -> assoc (key a) (map (fun x => (key x, val x)) l) = Some (val a).
Proof.
  induction l as [|x l IH]; intros ND Hin; [destruct Hin|]. cbn [map] in ND. inversion ND as [|? ? Hx ND']; subst.
  cbn [map assoc]. destruct Hin as [->|Hin]; [rewrite String.eqb_refl; reflexivity|].
  destruct (String.eqb (key a) (key x)) eqn:E; [|apply IH; assumption].
  apply String.eqb_eq in E. exfalso. apply Hx. rewrite <- E. apply in_map. exact Hin.
Qed.

Lemma assoc_map_key_notin {A V} (key : A -> name) (val : A -> V) (l : list A) k :
  ~ In k (map key l) -> assoc k (map (fun x => (key x, val x)) l) = None.
Proof. intros H. apply assoc_notin. rewrite map_map. cbn [fst]. exact H. Qed.

(* ... and in the image of the sub-list selected by `sel` *)
Definition select_items {A B} (sel : A -> option B) (l : list A) : list (A * B) :=
  concat (map (fun x => match sel x with Some b => [(x, b)] | None => [] end) l).

Lemma select_items_keys {A B} (key : A -> name) (sel : A -> option B) l k :
  In k (map (fun ab : A * B => key (fst ab)) (select_items sel l)) -> In k (map key l).
Proof.
  unfold select_items. induction l as [|x l IH]; cbn [map concat]; [tauto|].
  rewrite map_app, in_app_iff. intros [H|H]; [|right; apply IH; exact H].
  destruct (sel x); cbn [map In fst] in H; [|tauto]. destruct H as [H|[]]. left. exact H.
Qed.

Lemma select_items_In {A B} (sel : A -> option B) l a b : In a l -> sel a = Some b -> In (a, b) (select_items sel l).
Proof.
  unfold select_items. intros Hin Hs. apply in_concat. exists [(a, b)]. split; [|left; reflexivity].
  apply in_map_iff. exists a. rewrite Hs. auto.
Qed.

Lemma assoc_select {A B V} (key : A -> name) (sel : A -> option B) (g : A * B -> V) (l : list A) a :
  NoDup (map key l) -> In a l ->
  assoc (key a) (map (fun ab => (key (fst ab), g ab)) (select_items sel l)) =
  match sel a with Some b => Some (g (a, b)) | None => None end.
Proof.
  unfold select_items. induction l as [|x l IH]; intros ND Hin; [destruct Hin|].
  cbn [map] in ND. inversion ND as [|? ? Hx ND']; subst. cbn [map concat]. rewrite map_app.
  destruct Hin as [->|Hin].
  - destruct (sel a) as [b|]; cbn [map app assoc fst].
    + rewrite String.eqb_refl. reflexivity.
    + apply assoc_notin. rewrite map_map. cbn [fst]. intros H. apply Hx.
      apply (select_items_keys key sel l). exact H.
  - assert (Hne : String.eqb (key a) (key x) = false).
    { destruct (String.eqb (key a) (key x)) eqn:E; [|reflexivity]. apply String.eqb_eq in E. exfalso. apply Hx.
      rewrite <- E. apply in_map. exact Hin. }
    destruct (sel x) as [b|]; cbn [map app assoc fst]; [rewrite Hne|]; apply IH; assumption.
Qed.

Lemma NoDup_app_l {A} (a b : list A) : NoDup (a ++ b) -> NoDup a.
Proof. induction a as [|x a IH]; intros H; [constructor|]. inversion H; subst. constructor; [rewrite in_app_iff in *; tauto|auto]. Qed.

Lemma NoDup_app_disj {A} (a b : list A) x : NoDup (a ++ b) -> In x a -> In x b -> False.
Proof.
  induction a as [|y a IH]; intros H Ha Hb; [destruct Ha|]. inversion H; subst. destruct Ha as [->|Ha].
  - apply H2. apply in_app_iff. right. exact Hb.
  - apply IH; assumption.
Qed.

(* ------------------------------------------------------------------------------------------------ *)
(* 1. leaves                                                                                         *)
(* ------------------------------------------------------------------------------------------------ *)
Lemma leaf_eqb_eq a b : leaf_eqb a b = true <-> a = b.
Proof.
  destruct a, b; cbn [leaf_eqb]; split; intros H; try discriminate.
  - apply String.eqb_eq in H. subst. reflexivity.
  - inversion H. apply String.eqb_refl.
  - apply andb_prop in H. destruct H as [H1 H2]. apply String.eqb_eq in H1, H2. subst. reflexivity.
  - inversion H. rewrite !String.eqb_refl. reflexivity.
  - apply N.eqb_eq in H. subst. reflexivity.
  - inversion H. apply N.eqb_refl.
Qed.

Lemma assocN_number_from (lf : leaf) : forall ex off, In lf ex ->
  assocN (off + N.of_nat (index_of_leaf lf ex)) (number_leaves_from off ex) = Some lf.
Proof.
  induction ex as [|y ex IH]; intros off Hin; [destruct Hin|]. cbn [index_of_leaf number_leaves_from assocN].
  destruct (leaf_eqb y lf) eqn:E.
  - apply leaf_eqb_eq in E. subst. replace (off + N.of_nat 0)%N with off by lia. rewrite N.eqb_refl. reflexivity.
  - destruct Hin as [->|Hin]; [rewrite (proj2 (leaf_eqb_eq lf lf) eq_refl) in E; discriminate|].
    assert ((off + N.of_nat (S (index_of_leaf lf ex)) =? off)%N = false) as -> by (apply N.eqb_neq; lia).
    replace (off + N.of_nat (S (index_of_leaf lf ex)))%N with ((off + 1) + N.of_nat (index_of_leaf lf ex))%N by lia.
    apply IH. exact Hin.
Qed.

Lemma assocN_above {V} (tbl : list (N * V)) id :
  (fold_right (fun il a => N.max (fst il) a) 0%N tbl < id)%N -> assocN id tbl = None.
Proof.
  induction tbl as [|[k v] tbl IH]; intros H; [reflexivity|]. cbn [fold_right fst] in H. cbn [assocN].
  assert ((id =? k)%N = false) as -> by (apply N.eqb_neq; lia). apply IH. lia.
Qed.

Lemma assocN_app_l {V} (a b : list (N * V)) id v : assocN id a = Some v -> assocN id (a ++ b) = Some v.
Proof.
  induction a as [|[k x] a IH]; cbn [assocN app]; [discriminate|]. destruct (N.eqb id k); [tauto|exact IH].
Qed.

Lemma assocN_app_r {V} (a b : list (N * V)) id : assocN id a = None -> assocN id (a ++ b) = assocN id b.
Proof.
  induction a as [|[k x] a IH]; cbn [assocN app]; [reflexivity|]. destruct (N.eqb id k); [discriminate|exact IH].
Qed.

Lemma assocN_map {V W} (g : V -> W) (tbl : list (N * V)) id :
  assocN id (map (fun il => (fst il, g (snd il))) tbl) = option_map g (assocN id tbl).
Proof.
  induction tbl as [|[k v] tbl IH]; [reflexivity|]. cbn [map assocN fst snd]. destruct (N.eqb id k); [reflexivity|exact IH].
Qed.

Section Leaves.
Variable fl : name -> mpath -> name.
Variable d : bdesign.
Variable m : bmodule.
Let lm := lower_module fl d m.

(* a leaf of the written module keeps its id *)
Lemma lowered_leaf_old id lf : assocN id (bm_leaves m) = Some lf -> assocN id (m_leaves lm) = Some (lower_leaf fl lf).
Proof.
  intros H. unfold lm, lower_module. cbn [m_leaves]. apply assocN_app_l. rewrite assocN_map, H. reflexivity.
Qed.

(* a leaf invented by the lowering is found under its id *)
Lemma lowered_leaf_new lf : In lf (extra_leaves fl d m) ->
  assocN (leaf_id (leaf_off m) (extra_leaves fl d m) lf) (m_leaves lm) = Some lf.
Proof.
  intros H. unfold lm, lower_module. cbn [m_leaves]. rewrite assocN_app_r.
  - unfold leaf_id. apply assocN_number_from. exact H.
  - rewrite assocN_map. rewrite assocN_above; [reflexivity|]. unfold leaf_id, leaf_off. lia.
Qed.
End Leaves.

(* ------------------------------------------------------------------------------------------------ *)
(* 2. the structure of the lowered design                                                            *)
(* ------------------------------------------------------------------------------------------------ *)
Section Structure.
Variable fl : name -> mpath -> name.
Variable d : bdesign.

Lemma nth_mod_lower k : nth_mod (lower fl d) k = rmap (lower_module fl d) (nth_bmod d k).
Proof.
  unfold nth_mod, nth_bmod, lower. cbn [d_mods]. rewrite nth_error_map. destruct (nth_error (bd_mods d) k); reflexivity.
Qed.

Lemma find_inst_lower off ex l i :
  find_inst (map (lower_inst fl d off ex) l) i = option_map (lower_inst fl d off ex) (find_binst l i).
Proof.
  induction l as [|x l IH]; [reflexivity|]. cbn [map find_inst find_binst lower_inst i_name].
  destruct (String.eqb (bi_name x) i); [reflexivity|exact IH].
Qed.

Lemma mod_down_lower p : forall m, mod_down (lower fl d) (lower_module fl d m) p = rmap (lower_module fl d) (bmod_down d m p).
Proof.
  induction p as [|[i e] p IH]; intros m; [reflexivity|].
  cbn [mod_down bmod_down]. unfold lower_module at 1. cbn [m_insts]. rewrite find_inst_lower.
  destruct (find_binst (bm_insts m) i) as [x|]; [|reflexivity]. cbn [option_map ofopt bind lower_inst i_of].
  destruct (bi_of x) as [k|dev ps]; [|reflexivity].
  rewrite nth_mod_lower. destruct (nth_bmod d k) as [m'|err]; [|reflexivity]. cbn [rmap bind]. apply IH.
Qed.

Lemma mod_at_lower p : mod_at (lower fl d) p = rmap (lower_module fl d) (bmod_at d p).
Proof.
  unfold mod_at, bmod_at. rewrite nth_mod_lower. cbn [lower d_top].
  destruct (nth_bmod d (bd_top d)) as [m|err]; [|reflexivity]. cbn [rmap bind]. apply mod_down_lower.
Qed.

Lemma lower_sigs_scalar ps : lower_sigs fl (scalar_items ps) = ps.
Proof.
  unfold lower_sigs, scalar_items. rewrite map_map. cbn [skey fst snd lname].
  induction ps as [|[n w] ps IH]; [reflexivity|]. cbn [map fst snd]. rewrite IH. reflexivity.
Qed.

Lemma target_ports_lower t m' : (forall k, t = TMod k -> nth_bmod d k = Ok m') ->
  target_ports (lower fl d) t = Ok (lower_sigs fl (target_sports d t)).
Proof.
  intros H. destruct t as [k|dev ps]; cbn [target_ports target_sports].
  - rewrite nth_mod_lower. specialize (H k eq_refl). rewrite H. cbn [rmap bind lower_module m_ports].
    unfold nth_bmod in H. destruct (nth_error (bd_mods d) k); [|discriminate]. inversion H. reflexivity.
  - rewrite lower_sigs_scalar. reflexivity.
Qed.

(* modules reached by a path, or instantiated, are modules of the design *)
Lemma nth_bmod_In k m : nth_bmod d k = Ok m -> In m (bd_mods d).
Proof. unfold nth_bmod. destruct (nth_error (bd_mods d) k) eqn:E; [|discriminate]. intros H. inversion H; subst. eapply nth_error_In; eauto. Qed.

Lemma bmod_down_In p : forall m m', In m (bd_mods d) -> bmod_down d m p = Ok m' -> In m' (bd_mods d).
Proof.
  induction p as [|[i e] p IH]; intros m m' Hin H; cbn [bmod_down] in H; [inversion H; subst; exact Hin|].
  destruct (find_binst (bm_insts m) i) as [x|]; [|discriminate]. cbn [ofopt bind] in H.
  destruct (bi_of x) as [k|]; [|discriminate]. destruct (nth_bmod d k) as [mk|] eqn:E; [|discriminate]. cbn [bind] in H.
  eapply IH; [|exact H]. eapply nth_bmod_In; eauto.
Qed.

Lemma bmod_at_In p m : bmod_at d p = Ok m -> In m (bd_mods d).
Proof.
  unfold bmod_at. destruct (nth_bmod d (bd_top d)) as [top|] eqn:E; [|discriminate]. cbn [bind].
  apply bmod_down_In. eapply nth_bmod_In; eauto.
Qed.

Lemma find_binst_In l i x : find_binst l i = Some x -> In x l /\ bi_name x = i.
Proof.
  induction l as [|y l IH]; cbn [find_binst]; [discriminate|]. destruct (String.eqb (bi_name y) i) eqn:E.
  - intros H. inversion H; subst. apply String.eqb_eq in E. split; [left; reflexivity|exact E].
  - intros H. destruct (IH H). split; [right|]; assumption.
Qed.
End Structure.

(* ------------------------------------------------------------------------------------------------ *)
(* 3. members of trees; typed items                                                                  *)
(* ------------------------------------------------------------------------------------------------ *)
Lemma tree_members_In t q w : In (q, w) (tree_members t) <-> In q (BundleSpec.paths t) /\ member_width t q = Some w.
Proof.
  unfold tree_members. rewrite in_concat. split.
  - intros [l [Hl Hin]]. apply in_map_iff in Hl. destruct Hl as [q' [<- Hq']].
    destruct (member_width t q') as [w'|] eqn:E; [|destruct Hin]. destruct Hin as [H|[]]. inversion H; subst. auto.
  - intros [Hq Hw]. exists [(q, w)]. split; [|left; reflexivity]. apply in_map_iff. exists q. rewrite Hw. auto.
Qed.

Lemma member_width_In t q w : member_width t q = Some w -> In (q, w) (tree_members t).
Proof.
  intros H. apply tree_members_In. split; [|exact H]. unfold member_width in H.
  destruct (BundleSpec.walk q t) as [[is l]|] eqn:E; [|discriminate]. eapply BundleProofs.walk_paths; eauto.
Qed.

Lemma paths_nonempty t : ~ In [] (BundleSpec.paths t).
Proof.
  destruct t as [n c k r sigs subs]. cbn [BundleSpec.paths]. rewrite in_app_iff. intros [H|H].
  - apply in_map_iff in H. destruct H as [l [H _]]. discriminate.
  - induction subs as [|s subs IH]; [destruct H|]. apply in_app_iff in H. destruct H as [H|H]; [|auto].
    apply in_map_iff in H. destruct H as [q [H _]]. discriminate.
Qed.

Lemma find_bundle_In bs b pt : find_bundle bs b = Some pt -> In pt bs /\ BundleSpec.bname (snd pt) = b.
Proof.
  induction bs as [|x bs IH]; cbn [find_bundle]; [discriminate|]. destruct (String.eqb (BundleSpec.bname (snd x)) b) eqn:E.
  - intros H. inversion H; subst. apply String.eqb_eq in E. split; [left; reflexivity|exact E].
  - intros H. destruct (IH H). split; [right|]; assumption.
Qed.

Lemma find_bundle_nodup bs pt : NoDup (map (fun x : bool * btree => BundleSpec.bname (snd x)) bs) -> In pt bs ->
  find_bundle bs (BundleSpec.bname (snd pt)) = Some pt.
Proof.
  induction bs as [|x bs IH]; intros ND Hin; [destruct Hin|]. cbn [map] in ND. inversion ND as [|? ? Hx ND']; subst.
  cbn [find_bundle]. destruct Hin as [->|Hin]; [rewrite String.eqb_refl; reflexivity|].
  destruct (String.eqb (BundleSpec.bname (snd x)) (BundleSpec.bname (snd pt))) eqn:E; [|apply IH; assumption].
  apply String.eqb_eq in E. exfalso. apply Hx. rewrite E. apply (in_map (fun x : bool * btree => BundleSpec.bname (snd x))). exact Hin.
Qed.

Section Items.
Variable fl : name -> mpath -> name.

Lemma bundle_members_In port bs b q w :
  In (b, q, w) (bundle_members port bs) <-> exists t, In (port, t) bs /\ BundleSpec.bname t = b /\ In (q, w) (tree_members t).
Proof.
  unfold bundle_members. rewrite in_concat. split.
  - intros [l [Hl Hin]]. apply in_map_iff in Hl. destruct Hl as [[pf t] [<- Hpt]]. cbn [fst snd] in Hin.
    destruct (Bool.eqb pf port) eqn:E; [|destruct Hin]. apply Bool.eqb_prop in E. subst pf.
    apply in_map_iff in Hin. destruct Hin as [[q' w'] [H Hq]]. inversion H; subst. exists t. auto.
  - intros [t [Hin [Hb Hq]]]. exists (map (fun qw : mpath * Z => (BundleSpec.bname t, fst qw, snd qw)) (tree_members t)). split.
    + apply in_map_iff. exists (port, t). cbn [fst snd]. rewrite Bool.eqb_reflx. auto.
    + apply in_map_iff. exists (q, w). subst b. auto.
Qed.

Lemma scalar_items_In l s q w : In (s, q, w) (scalar_items l) <-> q = [] /\ In (s, w) l.
Proof.
  unfold scalar_items. rewrite in_map_iff. split.
  - intros [[n v] [H Hin]]. inversion H; subst. auto.
  - intros [-> Hin]. exists (s, w). auto.
Qed.

(* a port (member) that has a width is an item of the target's port list *)
Lemma width_item d t port mp w : btarget_port_width d t port mp = Ok w -> In (port, mp, w) (target_sports d t).
Proof.
  unfold btarget_port_width, target_sports. destruct t as [k|dev ps].
  - unfold nth_bmod. destruct (nth_error (bd_mods d) k) as [m|]; [|discriminate]. cbn [ofopt bind].
    unfold mod_sports. rewrite in_app_iff. destruct mp as [|n r].
    + intros H. left. apply scalar_items_In. split; [reflexivity|].
      destruct (assoc port (bm_ports m)) eqn:E; [|discriminate]. inversion H; subst. apply assoc_In_some. exact E.
    + destruct (find_bundle (bm_bundles m) port) as [[[|] t]|] eqn:E; try discriminate. intros H. right.
      apply find_bundle_In in E. destruct E as [Hin Hn]. cbn [snd] in Hn. apply bundle_members_In. exists t.
      split; [exact Hin|]. split; [exact Hn|]. apply member_width_In.
      destruct (member_width t (n :: r)); [|discriminate]. inversion H; reflexivity.
  - destruct mp; [|discriminate]. intros H. apply scalar_items_In. split; [reflexivity|].
    destruct (assoc port ps) eqn:E; [|discriminate]. inversion H; subst. apply assoc_In_some. exact E.
Qed.

Lemma existsb_item (l : list sitem) s mp :
  existsb (fun it : sitem => String.eqb (fst (fst it)) s && mpath_eqb (snd (fst it)) mp) l = true -> exists w, In (s, mp, w) l.
Proof.
  intros H. apply existsb_exists in H. destruct H as [[[s' mp'] w] [Hin H]]. cbn [fst snd] in H.
  apply andb_prop in H. destruct H as [H1 H2]. apply String.eqb_eq in H1. apply mpath_eqb_eq in H2. subst. eauto.
Qed.
End Items.

(* ------------------------------------------------------------------------------------------------ *)
(* 4. names: ports of the lowered module, ports of the lowered targets                               *)
(* ------------------------------------------------------------------------------------------------ *)
Section Names.
Variable fl : name -> mpath -> name.
Variable d : bdesign.

Lemma skey_scalar ps : map (skey fl) (scalar_items ps) = map fst ps.
Proof. unfold scalar_items. rewrite map_map. apply map_ext. intros [n w]. reflexivity. Qed.

Lemma module_names_ok_split m : module_names_ok fl m = true ->
  NoDup (map (skey fl) (mod_sports m) ++ map (skey fl) (mod_ssigs m)) /\
  NoDup (map (fun pt : bool * btree => BundleSpec.bname (snd pt)) (bm_bundles m)).
Proof.
  unfold module_names_ok. intros H. apply andb_prop in H. destruct H as [H1 H2].
  apply nodup_names_NoDup in H1, H2. rewrite map_app in H1. auto.
Qed.

Lemma is_port_lower m s mp w : module_names_ok fl m = true -> In (s, mp, w) (mod_sports m ++ mod_ssigs m) ->
  is_port (lower_module fl d m) (lname fl s mp) = is_bport m s mp.
Proof.
  intros Hok Hin. destruct (module_names_ok_split m Hok) as [ND NDb].
  unfold is_port, lower_module. cbn [m_ports]. unfold lower_sigs.
  change (lname fl s mp) with (skey fl (s, mp, w)).
  apply in_app_or in Hin. destruct Hin as [Hin|Hin].
  - rewrite (assoc_map_key_in (skey fl) (fun x : sitem => snd x)) by (eauto using NoDup_app_l).
    symmetry. unfold mod_sports in Hin. apply in_app_or in Hin. destruct Hin as [Hin|Hin].
    + apply scalar_items_In in Hin. destruct Hin as [-> Hin]. cbn [is_bport].
      destruct (In_assoc_some _ _ _ Hin) as [w' ->]. reflexivity.
    + apply bundle_members_In in Hin. destruct Hin as [t [Ht [Hn Hq]]].
      assert (Hne : mp <> []). { intros ->. apply tree_members_In in Hq. destruct Hq as [Hq _]. exact (paths_nonempty t Hq). }
      destruct mp as [|n r]; [congruence|]. cbn [is_bport]. subst s.
      pose proof (find_bundle_nodup _ (true, t) NDb Ht) as Hf. cbn [snd] in Hf. rewrite Hf. reflexivity.
  - rewrite assoc_map_key_notin.
    2:{ intros H. eapply (NoDup_app_disj _ _ _ ND H). apply (in_map (skey fl)) in Hin. exact Hin. }
    symmetry. unfold mod_ssigs in Hin. apply in_app_or in Hin. destruct Hin as [Hin|Hin].
    + pose proof Hin as Hin0. apply scalar_items_In in Hin. destruct Hin as [-> Hin]. cbn [is_bport].
      destruct (assoc s (bm_ports m)) as [w'|] eqn:E; [|reflexivity]. exfalso.
      apply assoc_In_some in E. eapply (NoDup_app_disj _ _ (skey fl (s, [], w)) ND).
      * change (skey fl (s, [], w)) with (skey fl (s, [], w')). apply in_map. unfold mod_sports. apply in_app_iff. left.
        apply scalar_items_In. auto.
      * apply in_map. unfold mod_ssigs. apply in_app_iff. left. exact Hin0.
    + apply bundle_members_In in Hin. destruct Hin as [t [Ht [Hn Hq]]].
      assert (Hne : mp <> []). { intros ->. apply tree_members_In in Hq. destruct Hq as [Hq _]. exact (paths_nonempty t Hq). }
      destruct mp as [|n r]; [congruence|]. cbn [is_bport]. subst s.
      pose proof (find_bundle_nodup _ (false, t) NDb Ht) as Hf. cbn [snd] in Hf. rewrite Hf. reflexivity.
Qed.

Lemma names_ok_mod m : names_ok fl d = true -> In m (bd_mods d) ->
  module_names_ok fl m = true /\ forall x, In x (bm_insts m) -> dev_names_ok x = true.
Proof.
  unfold names_ok. intros H Hin. rewrite forallb_forall in H. specialize (H m Hin). apply andb_prop in H.
  destruct H as [H1 H2]. split; [exact H1|]. rewrite forallb_forall in H2. exact H2.
Qed.

Lemma target_sports_nodup m x : names_ok fl d = true -> In m (bd_mods d) -> In x (bm_insts m) ->
  NoDup (map (skey fl) (target_sports d (bi_of x))).
Proof.
  intros Hok Hm Hx. destruct (names_ok_mod m Hok Hm) as [_ Hdev]. specialize (Hdev x Hx). unfold dev_names_ok in Hdev.
  unfold target_sports. destruct (bi_of x) as [k|dev ps].
  - destruct (nth_error (bd_mods d) k) as [mk|] eqn:E; [|constructor].
    apply nth_error_In in E. destruct (names_ok_mod mk Hok E) as [Hmk _].
    destruct (module_names_ok_split mk Hmk) as [ND _]. eapply NoDup_app_l; eauto.
  - rewrite skey_scalar. apply nodup_names_NoDup. exact Hdev.
Qed.
End Names.

(* ------------------------------------------------------------------------------------------------ *)
(* 5. bits                                                                                           *)
(* ------------------------------------------------------------------------------------------------ *)
Lemma pick_sig_bits id w j : 0 <= j < w -> pick (sig_bits id w) j = Ok (id, j).
Proof.
  intros H. unfold sig_bits. rewrite pick_map. unfold pick.
  destruct (j <? 0) eqn:E; [lia|]. rewrite iota_nth by lia. f_equal. f_equal. lia.
Qed.

Lemma pick_app_l {A} (l1 l2 : list A) j : 0 <= j < zlen l1 -> pick (l1 ++ l2) j = pick l1 j.
Proof.
  intros Hj. unfold pick, zlen in *. destruct (j <? 0) eqn:E; [lia|]. rewrite nth_error_app1 by lia. reflexivity.
Qed.

Lemma pick_app_r {A} (l1 l2 : list A) j : 0 <= j -> pick (l1 ++ l2) (zlen l1 + j) = pick l2 j.
Proof.
  intros Hj. unfold pick, zlen in *. destruct (Z.of_nat (Datatypes.length l1) + j <? 0) eqn:E; [lia|].
  destruct (j <? 0) eqn:E2; [lia|]. rewrite nth_error_app2 by lia.
  replace (Z.to_nat (Z.of_nat (Datatypes.length l1) + j) - Datatypes.length l1)%nat with (Z.to_nat j) by lia. reflexivity.
Qed.

Lemma xbits_xsig id w : 1 <= w -> xbits (XSig id w) = Ok (sig_bits id w).
Proof. intros H. cbn [xbits]. destruct (w <? 1) eqn:E; [lia|reflexivity]. Qed.

(* ------------------------------------------------------------------------------------------------ *)
(* 6. the two one-step maps, unfolded                                                                *)
(* ------------------------------------------------------------------------------------------------ *)
(* what Spec/Nets.step does with the bit (leaf id, index) it has picked *)
Definition resolve (lm : module) (p : path) (self : node) (ij : N * Z) : result node :=
  lf <- ofopt EMissing (assocN (fst ij) (m_leaves lm)) ;;
  match lf with
  | LSig s => Ok (NSig p s (snd ij))
  | LRef i' p' => Ok (NPort p i' 0 p' (snd ij))
  | LNc _ => Ok self
  end.

Definition selects {A} (bits : list A) (n w e k : Z) (ij : A) : Prop :=
  (zlen bits = w /\ pick bits k = Ok ij) \/
  (zlen bits <> w /\ 0 < n /\ zlen bits = n * w /\ pick bits (e * w + k) = Ok ij).

Lemma step_port ld p i e port k lm lx cx bits w ij :
  mod_at ld p = Ok lm -> find_inst (m_insts lm) i = Some lx -> assoc port (i_conns lx) = Some cx ->
  xbits cx = Ok bits -> port_width ld lx port = Ok w -> 0 <= k < w -> selects bits (i_n lx) w e k ij ->
  step ld (NPort p i e port k) = resolve lm p (NPort p i e port k) ij.
Proof.
  intros Hm Hx Hc Hb Hw Hk Hs. cbn [step]. rewrite Hm. cbn [bind]. rewrite Hx. cbn [ofopt bind].
  unfold conn_bit. rewrite Hc, Hb. cbn [bind]. rewrite Hw. cbn [bind].
  destruct ((k <? 0) || (w <=? k)) eqn:E; [lia|].
  destruct Hs as [[H1 H2]|[H1 [H2 [H3 H4]]]].
  - destruct (zlen bits =? w) eqn:E1; [|lia]. rewrite H2. cbn [bind]. destruct ij as [id j]. reflexivity.
  - destruct (zlen bits =? w) eqn:E1; [lia|]. destruct ((0 <? i_n lx) && (zlen bits =? i_n lx * w)) eqn:E2; [|lia].
    rewrite H4. cbn [bind]. destruct ij as [id j]. reflexivity.
Qed.

Lemma step_port_none ld p i e port k lm lx :
  mod_at ld p = Ok lm -> find_inst (m_insts lm) i = Some lx -> assoc port (i_conns lx) = None ->
  step ld (NPort p i e port k) = Ok (NPort p i e port k).
Proof.
  intros Hm Hx Hc. cbn [step]. rewrite Hm. cbn [bind]. rewrite Hx. cbn [ofopt bind]. unfold conn_bit. rewrite Hc. reflexivity.
Qed.

(* what Spec/C01BNets.bstep does with the member it has found *)
Definition after_member (m : bmodule) (p : path) (self : bnode) (nn : Z) (wr : result Z) (e k : Z) (t : mtarget) : result bnode :=
  match t with
  | MTSx cx => ij <- sx_bit nn cx wr e k ;; leaf_node m p self (fst ij) (snd ij)
  | MTSig b q => _ <- in_width wr k ;; Ok (NBSig p b q k)
  | MTRef i' p' q => _ <- in_width wr k ;; Ok (NBPort p i' 0 p' q k)
  | MTNc => _ <- in_width wr k ;; Ok self
  end.

Lemma bstep_port_unfold d p i e port mp k m x bx :
  bmod_at d p = Ok m -> find_binst (bm_insts m) i = Some x -> bassoc port (bi_conns x) = Some bx ->
  bstep d (NBPort p i e port mp k) =
  (t <- member bx (if bi_pair x && negb (is_sx bx) then pair_elem e :: mp else mp) ;;
   after_member m p (NBPort p i e port mp k) (if bi_pair x then 0 else bi_n x) (btarget_port_width d (bi_of x) port mp) e k t).
Proof.
  intros Hm Hx Hc. cbn [bstep]. rewrite Hm. cbn [bind]. rewrite Hx. cbn [ofopt bind]. rewrite Hc. reflexivity.
Qed.

Lemma after_member_width m p self nn err e k t n' : after_member m p self nn (Error err) e k t = Ok n' -> False.
Proof.
  destruct t; cbn [after_member in_width bind]; try discriminate.
  unfold sx_bit. destruct (xbits x); cbn [bind]; discriminate.
Qed.

Lemma in_width_inv w k : in_width (Ok w) k = Ok tt -> 0 <= k < w.
Proof. unfold in_width. cbn [bind]. destruct ((k <? 0) || (w <=? k)) eqn:E; [discriminate|lia]. Qed.

Section Member.
Variable fl : name -> mpath -> name.
Variable d : bdesign.
Variable m : bmodule.
Let lm := lower_module fl d m.
Let off := leaf_off m.
Let ex := extra_leaves fl d m.

Lemma resolve_old p self id j n' : leaf_node m p self id j = Ok n' -> resolve lm p (phi fl self) (id, j) = Ok (phi fl n').
Proof.
  unfold leaf_node, resolve. cbn [fst snd]. destruct (assocN id (bm_leaves m)) as [lf|] eqn:E; [|discriminate].
  cbn [ofopt bind]. unfold lm. rewrite (lowered_leaf_old fl d m id lf E). cbn [ofopt bind].
  destruct lf; cbn [lower_leaf]; intros H; inversion H; subst; reflexivity.
Qed.

(* the lowered expression of a member target, its bits, and where the selected bit leads *)
Lemma after_member_lowered p self nn w e k t n' :
  (forall lf, mt_leaf fl t = Some lf -> In lf ex) ->
  after_member m p self nn (Ok w) e k t = Ok n' ->
  exists bits ij, xbits (mt_sx fl off ex (Ok t) w) = Ok bits /\ 0 <= k < w /\ selects bits nn w e k ij /\
                  resolve lm p (phi fl self) ij = Ok (phi fl n').
Proof.
  intros Hex H. destruct t as [b q|cx|i' p' q|]; cbn [after_member] in H.
  - (* MTSig *)
    destruct (in_width (Ok w) k) as [[]|] eqn:Ew; [|discriminate]. cbn [bind] in H. inversion H; subst n'.
    apply in_width_inv in Ew. cbn [mt_sx mt_leaf].
    exists (sig_bits (leaf_id off ex (LSig (lname fl b q))) w), (leaf_id off ex (LSig (lname fl b q)), k).
    split; [apply xbits_xsig; lia|]. split; [exact Ew|]. split.
    + left. split; [apply sig_bits_len; lia|apply pick_sig_bits; exact Ew].
    + unfold resolve. cbn [fst snd]. unfold lm, off, ex. rewrite lowered_leaf_new by (apply Hex; reflexivity). reflexivity.
  - (* MTSx *)
    unfold sx_bit in H. destruct (xbits cx) as [bits|] eqn:Eb; [|discriminate]. cbn [bind] in H.
    destruct ((k <? 0) || (w <=? k)) eqn:Ek; [discriminate|].
    cbn [mt_sx]. exists bits.
    destruct (zlen bits =? w) eqn:E1.
    + destruct (pick bits k) as [[id j]|] eqn:Ep; [|discriminate]. cbn [bind fst snd] in H. exists (id, j).
      split; [exact Eb|]. split; [lia|]. split; [left; split; [lia|exact Ep]|]. apply resolve_old. exact H.
    + destruct ((0 <? nn) && (zlen bits =? nn * w)) eqn:E2; [|discriminate].
      destruct (pick bits (e * w + k)) as [[id j]|] eqn:Ep; [|discriminate]. cbn [bind fst snd] in H. exists (id, j).
      split; [exact Eb|]. split; [lia|]. split; [right; repeat split; try lia; exact Ep|]. apply resolve_old. exact H.
  - (* MTRef *)
    destruct (in_width (Ok w) k) as [[]|] eqn:Ew; [|discriminate]. cbn [bind] in H. inversion H; subst n'.
    apply in_width_inv in Ew. cbn [mt_sx mt_leaf].
    exists (sig_bits (leaf_id off ex (LRef i' (lname fl p' q))) w), (leaf_id off ex (LRef i' (lname fl p' q)), k).
    split; [apply xbits_xsig; lia|]. split; [exact Ew|]. split.
    + left. split; [apply sig_bits_len; lia|apply pick_sig_bits; exact Ew].
    + unfold resolve. cbn [fst snd]. unfold lm, off, ex. rewrite lowered_leaf_new by (apply Hex; reflexivity). reflexivity.
  - (* MTNc *)
    destruct (in_width (Ok w) k) as [[]|] eqn:Ew; [|discriminate]. cbn [bind] in H. inversion H; subst n'.
    apply in_width_inv in Ew. cbn [mt_sx mt_leaf].
    exists (sig_bits (leaf_id off ex (LNc 0)) w), (leaf_id off ex (LNc 0), k).
    split; [apply xbits_xsig; lia|]. split; [exact Ew|]. split.
    + left. split; [apply sig_bits_len; lia|apply pick_sig_bits; exact Ew].
    + unfold resolve. cbn [fst snd]. unfold lm, off, ex. rewrite lowered_leaf_new by (apply Hex; reflexivity). reflexivity.
Qed.

(* the leaves the lowering invents for a connection are in the module's table *)
Lemma extra_In x it bx q' t lf :
  In x (bm_insts m) -> In (it, bx) (inst_conn_items d x) -> In q' (conn_members x bx (snd (fst it))) ->
  member bx q' = Ok t -> mt_leaf fl t = Some lf -> In lf ex.
Proof.
  intros Hx Hit Hq Ht Hl. unfold ex, extra_leaves. apply in_concat.
  eexists. split; [apply in_map_iff; exists x; split; [reflexivity|exact Hx]|].
  apply in_concat. eexists. split; [apply in_map_iff; exists (it, bx); split; [reflexivity|exact Hit]|].
  cbn [fst snd]. unfold conn_leaves. apply in_concat. eexists. split; [apply in_map_iff; exists q'; split; [reflexivity|exact Hq]|].
  rewrite Ht, Hl. left. reflexivity.
Qed.
End Member.

(* ------------------------------------------------------------------------------------------------ *)
(* 7. the lowering lemma                                                                             *)
(* ------------------------------------------------------------------------------------------------ *)
Section Main.
Variable fl : name -> mpath -> name.
Variable d : bdesign.
Hypothesis Hnames : names_ok fl d = true.
Hypothesis Hpairs : pairs_ok d = true.

Lemma pairs_ok_item m x ib : In m (bd_mods d) -> In x (bm_insts m) -> In ib (inst_conn_items d x) -> pair_conn_ok d x ib = true.
Proof.
  intros Hm Hx Hib. unfold pairs_ok in Hpairs. rewrite forallb_forall in Hpairs. specialize (Hpairs m Hm).
  rewrite forallb_forall in Hpairs. specialize (Hpairs x Hx). rewrite forallb_forall in Hpairs. exact (Hpairs ib Hib).
Qed.

Lemma target_ports_lower_in t it : In it (target_sports d t) ->
  target_ports (lower fl d) t = Ok (lower_sigs fl (target_sports d t)).
Proof.
  intros Hin. destruct t as [k|dev ps]; cbn [target_ports target_sports] in *.
  - rewrite nth_mod_lower. unfold nth_bmod. destruct (nth_error (bd_mods d) k) as [mk|]; [reflexivity|destruct Hin].
  - rewrite lower_sigs_scalar. reflexivity.
Qed.

Lemma pair_member_bits off ex bx q w :
  match member bx q with
  | Ok (MTSx cx) => match xbits cx with Ok bits => zlen bits =? w | Error _ => false end
  | Ok _ => 1 <=? w
  | Error _ => false
  end = true ->
  exists t bits, member bx q = Ok t /\ xbits (mt_sx fl off ex (Ok t) w) = Ok bits /\ zlen bits = w.
Proof.
  destruct (member bx q) as [t|]; [|discriminate]. intros H. exists t.
  destruct t as [b q'|cx|i' p' q'|]; cbn [mt_sx mt_leaf].
  - eexists. split; [reflexivity|]. split; [apply xbits_xsig; lia|apply sig_bits_len; lia].
  - destruct (xbits cx) as [bits|]; [|discriminate]. exists bits. split; [reflexivity|]. split; [reflexivity|lia].
  - eexists. split; [reflexivity|]. split; [apply xbits_xsig; lia|apply sig_bits_len; lia].
  - eexists. split; [reflexivity|]. split; [apply xbits_xsig; lia|apply sig_bits_len; lia].
Qed.

Theorem lower_step n n' : bnode_ok d n = true -> bstep d n = Ok n' -> step (lower fl d) (phi fl n) = Ok (phi fl n').
Proof.
  intros Hok H. destruct n as [[|[i e] p'] s mp k|p i e port mp k|p s k].
  - cbn [bstep] in H. inversion H; subst. reflexivity.
  - (* a signal / bundle member of a non-top module *)
    cbn [bnode_ok] in Hok. cbn [bstep] in H. cbn [phi step].
    match type of H with context [bmod_at d ?q] => destruct (bmod_at d q) as [m|] eqn:Hm; [|discriminate] end.
    apply existsb_item in Hok. destruct Hok as [w Hit]. cbn [bind] in H.
    match goal with |- context [mod_at (lower fl d) ?q] =>
      rewrite (mod_at_lower fl d q); assert (Hm' : bmod_at d q = Ok m) by exact Hm; rewrite Hm' end.
    cbn [rmap bind].
    destruct (names_ok_mod fl d m Hnames (bmod_at_In d _ m Hm)) as [Hmok _].
    rewrite (is_port_lower fl d m s mp w Hmok Hit).
    destruct (is_bport m s mp); inversion H; subst; reflexivity.
  - (* a port (member) of an instance *)
    cbn [bnode_ok] in Hok. destruct (bmod_at d p) as [m|] eqn:Hm; [|discriminate].
    destruct (find_binst (bm_insts m) i) as [x|] eqn:Hx; [|discriminate].
    apply andb_prop in Hok. destruct Hok as [Hit He].
    apply existsb_item in Hit. destruct Hit as [w0 Hit].
    pose proof (bmod_at_In d p m Hm) as HmIn.
    destruct (find_binst_In _ _ _ Hx) as [HxIn _].
    pose proof (target_sports_nodup fl d m x Hnames HmIn HxIn) as ND.
    assert (L1 : mod_at (lower fl d) p = Ok (lower_module fl d m)) by (rewrite mod_at_lower, Hm; reflexivity).
    set (off := leaf_off m). set (ex := extra_leaves fl d m).
    set (lx := lower_inst fl d off ex x).
    assert (L2 : find_inst (m_insts (lower_module fl d m)) i = Some lx).
    { unfold lower_module. cbn [m_insts]. rewrite find_inst_lower, Hx. reflexivity. }
    assert (L3 : forall w, In (port, mp, w) (target_sports d (bi_of x)) ->
                 assoc (lname fl port mp) (i_conns lx) =
                 match bassoc port (bi_conns x) with Some bx => Some (conn_sx fl off ex x bx mp w) | None => None end).
    { intros w Hin.
      exact (assoc_select (skey fl) (fun it : sitem => bassoc (fst (fst it)) (bi_conns x))
                          (fun ib : sitem * bexpr => conn_sx fl off ex x (snd ib) (snd (fst (fst ib))) (snd (fst ib)))
                          (target_sports d (bi_of x)) (port, mp, w) ND Hin). }
    cbn [phi].
    destruct (bassoc port (bi_conns x)) as [bx|] eqn:Hc.
    2:{ cbn [bstep] in H. rewrite Hm in H. cbn [bind] in H. rewrite Hx in H. cbn [ofopt bind] in H. rewrite Hc in H.
        inversion H; subst n'. cbn [phi]. apply (step_port_none _ _ _ _ _ _ _ lx L1 L2). rewrite (L3 w0 Hit). reflexivity. }
    rewrite (bstep_port_unfold d p i e port mp k m x bx Hm Hx Hc) in H.
    destruct (btarget_port_width d (bi_of x) port mp) as [w|err] eqn:Hw.
    2:{ destruct (member bx (if bi_pair x && negb (is_sx bx) then pair_elem e :: mp else mp)) as [t|]; [|discriminate].
        cbn [bind] in H. exfalso. eapply after_member_width; eauto. }
    pose proof (width_item d _ _ _ _ Hw) as Hitw.
    assert (L4 : port_width (lower fl d) lx (lname fl port mp) = Ok w).
    { unfold port_width. unfold lx at 1. cbn [lower_inst i_of]. rewrite (target_ports_lower_in _ _ Hitw). cbn [bind].
      unfold lower_sigs. change (lname fl port mp) with (skey fl (port, mp, w)).
      rewrite (assoc_map_key_in (skey fl) (fun x : sitem => snd x) _ _ ND Hitw). reflexivity. }
    assert (Hitems : In ((port, mp, w), bx) (inst_conn_items d x)).
    { apply (select_items_In (fun it : sitem => bassoc (fst (fst it)) (bi_conns x))); [exact Hitw|exact Hc]. }
    specialize (L3 w Hitw).
    destruct (bi_pair x && negb (is_sx bx)) eqn:Hpr.
    + (* a Pair with a bundle-like connection: the lowered connection is the concatenation of its two members *)
      pose proof Hpr as Hpr'. apply andb_prop in Hpr'. destruct Hpr' as [Hpair Hnsx].
      rewrite Hpair in H, He. cbn [negb orb] in He.
      pose proof (pairs_ok_item m x _ HmIn HxIn Hitems) as Hpc. unfold pair_conn_ok in Hpc. cbn [fst snd] in Hpc.
      rewrite Hpr in Hpc. cbn [forallb] in Hpc. apply andb_prop in Hpc. destruct Hpc as [C0 Hpc].
      apply andb_prop in Hpc. destruct Hpc as [C1 _].
      destruct (pair_member_bits off ex _ _ _ C0) as [t0 [b0 [M0 [B0 Z0]]]].
      destruct (pair_member_bits off ex _ _ _ C1) as [t1 [b1 [M1 [B1 Z1]]]].
      assert (Hb : xbits (conn_sx fl off ex x bx mp w) = Ok (b0 ++ (b1 ++ []))).
      { unfold conn_sx. rewrite Hpr, M0, M1. cbn [xbits map cat_results]. rewrite B0, B1. reflexivity. }
      assert (Hn : i_n lx = 2) by (unfold lx; cbn [lower_inst i_n]; rewrite Hpair; reflexivity).
      assert (Hcase : e = 0 \/ e = 1) by lia.
      destruct Hcase as [-> | ->].
      * rewrite M0 in H. cbn [bind] in H.
        destruct (after_member_lowered fl d m p (NBPort p i 0 port mp k) 0 w 0 k t0 n') as [bits [ij [Hb' [Hk [Hs Hr]]]]]; [|exact H|].
        { intros lf Hl. eapply (extra_In fl d m x _ bx (pair_elem 0 :: mp) t0 lf HxIn Hitems); [|exact M0|exact Hl].
          cbn [fst snd]. unfold conn_members. rewrite Hpr. left. reflexivity. }
        fold off ex in Hb'. rewrite B0 in Hb'. inversion Hb'; subst bits.
        destruct Hs as [[_ Hp]|[_ [Hlt _]]]; [|lia].
        rewrite (step_port _ p i 0 (lname fl port mp) k _ lx _ _ w ij L1 L2 L3 Hb L4 Hk); [exact Hr|].
        right. rewrite Hn. rewrite !app_nil_r. unfold zlen in *. rewrite app_length. repeat split; try lia.
        replace (0 * w + k) with k by lia. rewrite pick_app_l by (unfold zlen; lia). exact Hp.
      * rewrite M1 in H. cbn [bind] in H.
        destruct (after_member_lowered fl d m p (NBPort p i 1 port mp k) 0 w 1 k t1 n') as [bits [ij [Hb' [Hk [Hs Hr]]]]]; [|exact H|].
        { intros lf Hl. eapply (extra_In fl d m x _ bx (pair_elem 1 :: mp) t1 lf HxIn Hitems); [|exact M1|exact Hl].
          cbn [fst snd]. unfold conn_members. rewrite Hpr. right. left. reflexivity. }
        fold off ex in Hb'. rewrite B1 in Hb'. inversion Hb'; subst bits.
        destruct Hs as [[_ Hp]|[_ [Hlt _]]]; [|lia].
        rewrite (step_port _ p i 1 (lname fl port mp) k _ lx _ _ w ij L1 L2 L3 Hb L4 Hk); [exact Hr|].
        right. rewrite Hn. rewrite !app_nil_r. unfold zlen in *. rewrite app_length. repeat split; try lia.
        replace (1 * w + k) with (zlen b0 + k) by (unfold zlen; lia). rewrite pick_app_r by lia. exact Hp.
    + (* a single instance, an array, or a Pair with a scalar connection *)
      destruct (member bx mp) as [t|] eqn:Ht; [|discriminate]. cbn [bind] in H.
      destruct (after_member_lowered fl d m p (NBPort p i e port mp k) (if bi_pair x then 0 else bi_n x) w e k t n') as [bits [ij [Hb [Hk [Hs Hr]]]]]; [|exact H|].
      { intros lf Hl. eapply (extra_In fl d m x _ bx mp t lf HxIn Hitems); [|exact Ht|exact Hl].
        cbn [fst snd]. unfold conn_members. rewrite Hpr. left. reflexivity. }
      fold off ex in Hb.
      assert (Hb2 : xbits (conn_sx fl off ex x bx mp w) = Ok bits) by (unfold conn_sx; rewrite Hpr, Ht; exact Hb).
      rewrite (step_port _ p i e (lname fl port mp) k _ lx _ _ w ij L1 L2 L3 Hb2 L4 Hk); [exact Hr|].
      destruct Hs as [Hs|[Hne [Hlt [Hz Hp]]]]; [left; exact Hs|right].
      assert (bi_pair x = false) as Hnp by (destruct (bi_pair x); [lia|reflexivity]).
      unfold lx. cbn [lower_inst i_n]. rewrite Hnp in *. auto.
  - cbn [bstep] in H. inversion H; subst. reflexivity.
Qed.
End Main.

(* ------------------------------------------------------------------------------------------------ *)
(* 8. flattening preserves nets                                                                      *)
(* ------------------------------------------------------------------------------------------------ *)
(* an injective map that commutes with the one-step maps preserves and reflects "orbits meet" *)
Section Embed.
Variables (A B : Type) (f : A -> A) (g : B -> B) (h : A -> B) (S : A -> Prop).
Hypothesis closed : forall x, S x -> S (f x).
Hypothesis commute : forall x, S x -> g (h x) = h (f x).
Hypothesis inj : forall x y, S x -> S y -> h x = h y -> x = y.

Lemma iter_S k x : S x -> S (Nat.iter k f x).
Proof. intros Hx. induction k as [|k IH]; simpl; [exact Hx|]. apply closed. exact IH. Qed.

Lemma iter_commute k x : S x -> Nat.iter k g (h x) = h (Nat.iter k f x).
Proof. intros Hx. induction k as [|k IH]; simpl; [reflexivity|]. rewrite IH. apply commute. apply iter_S. exact Hx. Qed.

Theorem conn_embed x y : S x -> S y -> (conn A f x y <-> conn B g (h x) (h y)).
Proof.
  intros Hx Hy. rewrite !conn_meet. unfold meet. split; intros [a [b E]]; exists a, b.
  - rewrite !iter_commute by assumption. f_equal. exact E.
  - rewrite !iter_commute in E by assumption. apply inj in E; auto using iter_S.
Qed.
End Embed.

Lemma NoDup_map_inj {A B} (key : A -> B) (l : list A) a b :
  NoDup (map key l) -> In a l -> In b l -> key a = key b -> a = b.
Proof.
  induction l as [|x l IH]; intros ND Ha Hb E; [destruct Ha|]. cbn [map] in ND. inversion ND as [|? ? Hx ND']; subst.
  destruct Ha as [->|Ha], Hb as [->|Hb]; [reflexivity| | |auto].
  - exfalso. apply Hx. rewrite E. apply in_map. exact Hb.
  - exfalso. apply Hx. rewrite <- E. apply in_map. exact Ha.
Qed.

Definition stepf (ld : design) (n : node) : node := match step ld n with Ok n' => n' | Error _ => n end.

Section Nets.
Variable fl : name -> mpath -> name.
Variable d : bdesign.
Hypothesis Hnames : names_ok fl d = true.
Hypothesis Hpairs : pairs_ok d = true.

(* on the nodes of the design, the flat names tell the members apart *)
Lemma phi_inj a b : bnode_ok d a = true -> bnode_ok d b = true -> phi fl a = phi fl b -> a = b.
Proof.
  intros Ha Hb E. destruct a as [p s mp k|p i e port mp k|p s k], b as [p2 s2 mp2 k2|p2 i2 e2 port2 mp2 k2|p2 s2 k2];
    cbn [phi] in E; try discriminate.
  - inversion E; subst p2 k2. cbn [bnode_ok] in Ha, Hb. destruct (bmod_at d p) as [m|] eqn:Hm; [|discriminate].
    apply existsb_item in Ha, Hb. destruct Ha as [w Ha], Hb as [w2 Hb].
    destruct (names_ok_mod fl d m Hnames (bmod_at_In d p m Hm)) as [Hmok _].
    destruct (module_names_ok_split fl m Hmok) as [ND _]. rewrite <- map_app in ND.
    assert (X : (s, mp, w) = (s2, mp2, w2)) by (eapply (NoDup_map_inj (skey fl)); eauto).
    inversion X; subst. reflexivity.
  - inversion E; subst p2 i2 e2 k2. cbn [bnode_ok] in Ha, Hb. destruct (bmod_at d p) as [m|] eqn:Hm; [|discriminate].
    destruct (find_binst (bm_insts m) i) as [x|] eqn:Hx; [|discriminate].
    apply andb_prop in Ha, Hb. destruct Ha as [Ha _], Hb as [Hb _].
    apply existsb_item in Ha, Hb. destruct Ha as [w Ha], Hb as [w2 Hb].
    destruct (find_binst_In _ _ _ Hx) as [HxIn _].
    pose proof (target_sports_nodup fl d m x Hnames (bmod_at_In d p m Hm) HxIn) as ND.
    assert (X : (port, mp, w) = (port2, mp2, w2)) by (eapply (NoDup_map_inj (skey fl)); eauto).
    inversion X; subst. reflexivity.
  - inversion E; subst. reflexivity.
Qed.

(* member-wise flattening preserves the net relation on every closed set of nodes of the design *)
Theorem lower_same_nets (f : bnode -> bnode) (nodes : list bnode) :
  (forall x, In x nodes -> bstep d x = Ok (f x)) -> (forall x, In x nodes -> In (f x) nodes) ->
  (forall x, In x nodes -> bnode_ok d x = true) ->
  forall x y, In x nodes -> In y nodes ->
    (conn bnode f x y <-> conn node (stepf (lower fl d)) (phi fl x) (phi fl y)).
Proof.
  intros Hstep Hclosed Hok x y Hx Hy.
  apply (conn_embed bnode node f (stepf (lower fl d)) (phi fl) (fun n => In n nodes)); auto.
  - intros n Hn. unfold stepf. rewrite (lower_step fl d Hnames Hpairs n (f n) (Hok n Hn) (Hstep n Hn)). reflexivity.
  - intros a b Ha Hb. apply phi_inj; auto.
Qed.

(* ... and the executable orbits and labels of the lowered design are the images of those of the bundle design *)
Section Exec.
Variable f : bnode -> bnode.
Variable nodes : list bnode.
Hypothesis Hstep : forall x, In x nodes -> bstep d x = Ok (f x).
Hypothesis Hclosed : forall x, In x nodes -> In (f x) nodes.
Hypothesis Hok : forall x, In x nodes -> bnode_ok d x = true.

Lemma node_eqb_phi a b : In a nodes -> In b nodes -> node_eqb (phi fl a) (phi fl b) = bnode_eqb a b.
Proof.
  intros Ha Hb. destruct (bnode_eqb a b) eqn:E.
  - apply bnode_eqb_eq in E. subst. apply NetsProofs.node_eqb_eq. reflexivity.
  - destruct (node_eqb (phi fl a) (phi fl b)) eqn:E2; [|reflexivity]. apply NetsProofs.node_eqb_eq in E2.
    apply phi_inj in E2; auto. subst. rewrite (proj2 (bnode_eqb_eq b b) eq_refl) in E. discriminate.
Qed.

Lemma orbit_lower fuel : forall x, In x nodes ->
  orbit (lower fl d) fuel (phi fl x) = Ok (map (phi fl) (orbitf bnode f bnode_eqb fuel x)).
Proof.
  induction fuel as [|k IH]; intros x Hx; cbn [orbit orbitf map]; [reflexivity|].
  rewrite (lower_step fl d Hnames Hpairs x (f x) (Hok x Hx) (Hstep x Hx)). cbn [bind].
  rewrite node_eqb_phi by auto. destruct (bnode_eqb (f x) x); [reflexivity|].
  rewrite IH by auto. reflexivity.
Qed.

Lemma orbitf_in fuel : forall x, In x nodes -> forall y, In y (orbitf bnode f bnode_eqb fuel x) -> In y nodes.
Proof.
  induction fuel as [|k IH]; intros x Hx y Hy; cbn [orbitf] in Hy.
  - destruct Hy as [<-|[]]. exact Hx.
  - destruct (bnode_eqb (f x) x); [destruct Hy as [<-|[]]; exact Hx|]. destruct Hy as [<-|Hy]; [exact Hx|]. eapply IH; [|exact Hy]. auto.
Qed.

Lemma meets_phi a b : (forall y, In y a -> In y nodes) -> (forall y, In y b -> In y nodes) ->
  Nets.meets (map (phi fl) a) (map (phi fl) b) = bmeets a b.
Proof.
  intros Ha Hb. unfold Nets.meets, bmeets. induction a as [|x a IH]; [reflexivity|]. cbn [map existsb].
  rewrite IH by (intros; apply Ha; right; assumption). f_equal.
  assert (Hx : In x nodes) by (apply Ha; left; reflexivity). clear IH Ha.
  induction b as [|y b IHb]; [reflexivity|]. cbn [map existsb].
  rewrite node_eqb_phi by (auto; apply Hb; left; reflexivity). rewrite IHb by (intros; apply Hb; right; assumption). reflexivity.
Qed.

Lemma first_meet_phi o os : (forall y, In y o -> In y nodes) -> (forall o', In o' os -> forall y, In y o' -> In y nodes) ->
  forall k, first_meet (map (phi fl) o) (map (map (phi fl)) os) k = bfirst_meet o os k.
Proof.
  intros Ho. induction os as [|o' os IH]; intros Hos k; [reflexivity|]. cbn [map first_meet bfirst_meet].
  rewrite meets_phi by (auto; apply Hos; left; reflexivity). destruct (bmeets o o'); [reflexivity|].
  apply IH. intros o'' Hin. apply Hos. right. exact Hin.
Qed.

Theorem labels_lower fuel ts : (forall t, In t ts -> In t nodes) ->
  labels (lower fl d) fuel (map (phi fl) ts) = blabels d fuel ts.
Proof.
  intros Hts. unfold labels, blabels.
  assert (T : forall l, (forall t, In t l -> In t nodes) ->
              traverse (orbit (lower fl d) fuel) (map (phi fl) l) = Ok (map (map (phi fl)) (map (orbitf bnode f bnode_eqb fuel) l)) /\
              traverse (borbit d fuel) l = Ok (map (orbitf bnode f bnode_eqb fuel) l)).
  { induction l as [|t l IH]; intros Hl; [split; reflexivity|]. cbn [map traverse].
    rewrite orbit_lower by (apply Hl; left; reflexivity).
    rewrite (borbit_orbitf d f nodes Hstep Hclosed) by (apply Hl; left; reflexivity). cbn [bind].
    destruct IH as [-> ->]; [intros; apply Hl; right; assumption|]. split; reflexivity. }
  destruct (T ts Hts) as [-> ->]. cbn [bind]. f_equal. rewrite map_map.
  set (os := map (orbitf bnode f bnode_eqb fuel) ts).
  assert (Hos : forall o, In o os -> forall y, In y o -> In y nodes).
  { intros o Ho y Hy. unfold os in Ho. apply in_map_iff in Ho. destruct Ho as [t [<- Ht]]. eapply orbitf_in; [|exact Hy]. auto. }
  apply map_ext_in. intros o Ho. apply first_meet_phi; [apply Hos; exact Ho|exact Hos].
Qed.
End Exec.
End Nets.

(* ------------------------------------------------------------------------------------------------ *)
(* 9. the same, with hypotheses that are decidable on the computed orbits (no closed node set needed) *)
(* ------------------------------------------------------------------------------------------------ *)
Section Checked.
Variable fl : name -> mpath -> name.
Variable d : bdesign.
Hypothesis Hnames : names_ok fl d = true.
Hypothesis Hpairs : pairs_ok d = true.

Definition all_ok_nodes (o : list bnode) : Prop := forall y, In y o -> bnode_ok d y = true.

Lemma node_eqb_phi_ok a b : bnode_ok d a = true -> bnode_ok d b = true -> node_eqb (phi fl a) (phi fl b) = bnode_eqb a b.
Proof.
  intros Ha Hb. destruct (bnode_eqb a b) eqn:E.
  - apply bnode_eqb_eq in E. subst. apply NetsProofs.node_eqb_eq. reflexivity.
  - destruct (node_eqb (phi fl a) (phi fl b)) eqn:E2; [|reflexivity]. apply NetsProofs.node_eqb_eq in E2.
    apply (phi_inj fl d Hnames) in E2; auto. subst. rewrite (proj2 (bnode_eqb_eq b b) eq_refl) in E. discriminate.
Qed.

Lemma borbit_head fuel x o : borbit d fuel x = Ok o -> exists r, o = x :: r.
Proof.
  destruct fuel as [|f]; cbn [borbit]; [intros H; inversion H; eauto|].
  destruct (bstep d x) as [n'|]; [|discriminate]. cbn [bind]. destruct (bnode_eqb n' x); [intros H; inversion H; eauto|].
  destruct (borbit d f n') as [r|]; [|discriminate]. cbn [bind]. intros H. inversion H. eauto.
Qed.

Lemma orbit_lower_checked fuel : forall x o, borbit d fuel x = Ok o -> all_ok_nodes o ->
  orbit (lower fl d) fuel (phi fl x) = Ok (map (phi fl) o).
Proof.
  induction fuel as [|f IH]; intros x o H Hok; [cbn [borbit orbit] in *; inversion H; reflexivity|].
  destruct (borbit_head (S f) x o H) as [r0 Ho]. subst o.
  assert (Hx : bnode_ok d x = true) by (apply Hok; left; reflexivity).
  cbn [borbit orbit] in *.
  destruct (bstep d x) as [n'|] eqn:Es; [|discriminate]. cbn [bind] in H.
  rewrite (lower_step fl d Hnames Hpairs x n' Hx Es). cbn [bind].
  destruct (bnode_eqb n' x) eqn:E.
  - apply bnode_eqb_eq in E. subst n'. rewrite (proj2 (NetsProofs.node_eqb_eq _ _) eq_refl). inversion H. reflexivity.
  - destruct (borbit d f n') as [r|] eqn:Er; [|discriminate]. cbn [bind] in H. inversion H; subst r0.
    destruct (borbit_head f n' r Er) as [r' Hr].
    assert (Hn' : bnode_ok d n' = true) by (apply Hok; right; rewrite Hr; left; reflexivity).
    rewrite node_eqb_phi_ok by assumption. rewrite E.
    rewrite (IH n' r Er) by (intros y Hy; apply Hok; right; exact Hy). reflexivity.
Qed.

Lemma meets_phi_ok a b : all_ok_nodes a -> all_ok_nodes b -> Nets.meets (map (phi fl) a) (map (phi fl) b) = bmeets a b.
Proof.
  intros Ha Hb. unfold Nets.meets, bmeets. induction a as [|x a IH]; [reflexivity|]. cbn [map existsb].
  rewrite IH by (intros y Hy; apply Ha; right; exact Hy). f_equal.
  assert (Hx : bnode_ok d x = true) by (apply Ha; left; reflexivity). clear IH Ha.
  induction b as [|y b IHb]; [reflexivity|]. cbn [map existsb].
  rewrite node_eqb_phi_ok by (auto; apply Hb; left; reflexivity).
  rewrite IHb by (intros z Hz; apply Hb; right; exact Hz). reflexivity.
Qed.

Lemma first_meet_phi_ok o os : all_ok_nodes o -> (forall o', In o' os -> all_ok_nodes o') ->
  forall k, first_meet (map (phi fl) o) (map (map (phi fl)) os) k = bfirst_meet o os k.
Proof.
  intros Ho. induction os as [|o' os IH]; intros Hos k; [reflexivity|]. cbn [map first_meet bfirst_meet].
  rewrite meets_phi_ok by (auto; apply Hos; left; reflexivity). destruct (bmeets o o'); [reflexivity|].
  apply IH. intros o'' Hin. apply Hos. right. exact Hin.
Qed.

Theorem labels_lower_checked fuel ts os :
  traverse (borbit d fuel) ts = Ok os -> forallb (forallb (bnode_ok d)) os = true ->
  labels (lower fl d) fuel (map (phi fl) ts) = blabels d fuel ts.
Proof.
  intros Ht Hall. unfold labels, blabels. rewrite Ht. cbn [bind].
  assert (Hos : forall o, In o os -> all_ok_nodes o).
  { intros o Ho y Hy. rewrite forallb_forall in Hall. specialize (Hall o Ho). rewrite forallb_forall in Hall. exact (Hall y Hy). }
  assert (T : traverse (orbit (lower fl d) fuel) (map (phi fl) ts) = Ok (map (map (phi fl)) os)).
  { clear Hall. revert os Ht Hos. induction ts as [|t ts IH]; intros os Ht Hos; cbn [map traverse] in *; [inversion Ht; reflexivity|].
    destruct (borbit d fuel t) as [o|] eqn:Eo; [|discriminate]. cbn [bind] in Ht.
    destruct (traverse (borbit d fuel) ts) as [os'|] eqn:Et; [|discriminate]. cbn [bind] in Ht. inversion Ht; subst os.
    rewrite (orbit_lower_checked fuel t o Eo) by (apply Hos; left; reflexivity). cbn [bind].
    rewrite (IH os' eq_refl) by (intros o' Ho'; apply Hos; right; exact Ho'). reflexivity. }
  rewrite T. cbn [bind]. f_equal. rewrite map_map. apply map_ext_in. intros o Ho.
  apply first_meet_phi_ok; [apply Hos; exact Ho|exact Hos].
Qed.
End Checked.
