(* Proofs/C04GroupProofs.v — group discovery reaches only what the FINAL mapping joins. *)
Require Import Hdl21.Base.PyInt Hdl21.Model.C04ConnOps Hdl21.Spec.C04LastWrite Hdl21.Proofs.C04Proofs Hdl21.Model.C04Groups.

Lemma reach_trans s a b c : reach s a b -> reach s b c -> reach s a c.
Proof. intros H1 H2. induction H2; [exact H1|]. eapply reach_step; [exact IHreach|assumption]. Qed.

Lemma gitem_eqb_eq a b : gitem_eqb a b = true <-> a = b.
Proof.
  destruct a, b; simpl; try (split; congruence).
  - rewrite pid_eqb_eq. split; congruence.
  - rewrite conn_eqb_eq. split; congruence.
Qed.

Lemma In_gadd x y g : In x (gadd y g) -> x = y \/ In x g.
Proof.
  unfold gadd. destruct (gmem y g); [auto|]. rewrite in_app_iff. simpl. intros [H|[H|[]]]; auto.
Qed.

(* what a member of a group can be: something already there, a port the seed reaches through the final
   mapping, or the (non-reference) connection of such a port *)
Definition justified (s : state) (q : pid) (g : list gitem) (x : gitem) : Prop :=
  In x g \/ (exists r, x = GRef r /\ reach s q r) \/
  (exists r c, x = GConn c /\ reach s q r /\ lookup r (st_conns s) = Some c).

Lemma justified_mono s q q' g g' x :
  reach s q q' -> (forall y, In y g' -> justified s q g y) -> justified s q' g' x -> justified s q g x.
Proof.
  intros R Hg [H|[[r [E R']]|[r [c [E [R' L]]]]]].
  - apply Hg, H.
  - right; left. exists r. split; [exact E|]. eapply reach_trans; eauto.
  - right; right. exists r, c. repeat split; auto. eapply reach_trans; eauto.
Qed.

Lemma follow_sound s inmod : Inv s -> forall fuel q g g',
  follow s inmod fuel q g = Some g' -> forall x, In x g' -> justified s q g x.
Proof.
  intros I. induction fuel as [|f IH]; intros q g g' H x Hx; [discriminate|].
  cbn [follow] in H. destruct (gmem (GRef q) g).
  { inversion H; subst. left; exact Hx. }
  set (g1 := g ++ [GRef q]) in *.
  assert (J1 : forall y, In y g1 -> justified s q g y).
  { intros y Hy. unfold g1 in Hy. apply in_app_iff in Hy. destruct Hy as [Hy|[<-|[]]]; [left; exact Hy|].
    right; left. exists q. split; [reflexivity|constructor]. }
  (* the connection branch *)
  set (r := match lookup q (st_conns s) with
            | Some (CRef i p) => follow s inmod f (i, p) g1
            | Some c => Some (gadd (GConn c) g1)
            | None => Some g1 end) in *.
  assert (J2 : forall g2, r = Some g2 -> forall y, In y g2 -> justified s q g y).
  { intros g2 Hr y Hy. unfold r in Hr. destruct (lookup q (st_conns s)) as [[k id|i p]|] eqn:L.
    - inversion Hr; subst. apply In_gadd in Hy. destruct Hy as [->|Hy]; [|apply J1, Hy].
      right; right. exists q, (CObj k id). repeat split; [constructor|exact L].
    - apply (justified_mono s q (i, p) g g1 y).
      + eapply reach_step; [constructor|]. left. exact L.
      + exact J1.
      + eapply IH; eauto.
    - inversion Hr; subst. apply J1, Hy. }
  (* the back-reference loop *)
  set (l := filter (fun q' => inmod (fst q')) (back_of (CRef (fst q) (snd q)) (st_back s))) in *.
  assert (Hl : forall q', In q' l -> adj s q q').
  { intros q' Hq. unfold l in Hq. apply filter_In in Hq. destruct Hq as [Hq _].
    apply (inv_sync s I) in Hq. right. exact Hq. }
  clearbody r l. revert r J2 H. induction l as [|q' t IHl]; intros r J2 H; simpl in H.
  - apply (J2 g' H x Hx).
  - apply (IHl (fun z Hz => Hl z (or_intror Hz)) (match r with Some g'0 => follow s inmod f q' g'0 | None => None end)); [|exact H].
    intros g3 H3 y Hy. destruct r as [g2|]; [|discriminate].
    apply (justified_mono s q q' g g2 y).
    + eapply reach_step; [constructor|]. apply Hl. left; reflexivity.
    + apply J2. reflexivity.
    + eapply IH; eauto.
Qed.

(* a handed-out reference nobody uses any more, on a port that is connected to an object: its group is
   the port and that object, whatever else the state holds *)
Lemma stale_group s inmod fuel q c : Inv s ->
  lookup q (st_conns s) = Some c -> (forall i p, c <> CRef i p) ->
  (forall q', lookup q' (st_conns s) <> Some (CRef (fst q) (snd q))) ->
  follow s inmod (S fuel) q [] = Some [GRef q; GConn c].
Proof.
  intros I L NR NU. cbn [follow gmem existsb]. rewrite L.
  assert (B : back_of (CRef (fst q) (snd q)) (st_back s) = []).
  { destruct (back_of (CRef (fst q) (snd q)) (st_back s)) as [|q' t] eqn:E; [reflexivity|].
    exfalso. apply (NU q'). apply (inv_sync s I). rewrite E. left; reflexivity. }
  rewrite B. simpl. destruct c as [k id|i p]; [reflexivity|]. exfalso. eapply NR; reflexivity.
Qed.

Lemma dict_set_same q c l : lookup q l = Some c -> dict_set q c l = l.
Proof.
  induction l as [|[k v] t IH]; simpl; [discriminate|].
  destruct (pid_eqb q k) eqn:E.
  - intros H. inversion H; subst. apply pid_eqb_eq in E. subst. reflexivity.
  - intros H. rewrite IH by exact H. reflexivity.
Qed.

(* resolving such a group re-connects the port to the object it is connected to: nothing changes *)
Lemma stale_resolve s q c : Inv s -> lookup q (st_conns s) = Some c ->
  exists s', connect s q (AConn c) = COk s' /\ Inv s' /\ st_conns s' = st_conns s /\ st_handed s' = st_handed s /\
             forall c0 x, In x (back_of c0 (st_back s')) <-> In x (back_of c0 (st_back s)).
Proof.
  intros I L. pose proof (connect_spec s q (AConn c) I) as H. simpl in H.
  destruct H as [s' [E [I' [Hh Hl]]]]. exists s'. split; [exact E|]. split; [exact I'|].
  assert (C : st_conns s' = st_conns s).
  { unfold connect in E. simpl in E. rewrite L in E. unfold do_replace in E. rewrite L in E.
    destruct (back_remove c q (st_back s)); [|discriminate]. inversion E; subst. cbn [st_conns].
    apply dict_set_same, L. }
  split; [exact C|]. split; [exact Hh|].
  intros c0 x. rewrite (inv_sync s' I'), (inv_sync s I), C. reflexivity.
Qed.

(* a port connected to a no-connect is a seed whether or not its reference was ever handed out *)
Lemma In_fold_set_add l : forall acc x, In x (fold_left (fun a q => set_add q a) l acc) <-> In x acc \/ In x l.
Proof.
  induction l as [|y t IH]; simpl; intros acc x; [tauto|].
  rewrite IH, In_set_add. split; [intros [[->|H]|H]; auto | intros [H|[->|H]]; auto].
Qed.

Lemma seeds_spec s x : In x (seeds s) <->
  In x (st_handed s) \/ exists c, In (x, c) (st_conns s) /\ is_noconn c = true.
Proof.
  unfold seeds. rewrite In_fold_set_add, in_map_iff. split.
  - intros [H|[[y c] [E H]]]; [auto|]. simpl in E. subst y. apply filter_In in H. right. exists c. exact H.
  - intros [H|[c [H1 H2]]]; [auto|]. right. exists (x, c). split; [reflexivity|]. apply filter_In. auto.
Qed.
