(* Proofs/C19EProofsDistinct.v — a consequence of the exported partition: the n flattened instances have n different names. *)
Require Import Hdl21.Base.PyInt Hdl21.Spec.PySlice Hdl21.Model.Slice Hdl21.Model.Resolve Hdl21.Base.Design
               Hdl21.Spec.Nets Hdl21.Spec.WfDesign Hdl21.Spec.C01ENets Hdl21.Base.Package Hdl21.Base.PrimTable
               Hdl21.Model.C01EElab Hdl21.Model.C01FElab Hdl21.Spec.C01FNets Hdl21.Proofs.C01FProofsEnd
               Hdl21.Spec.C19Topology Hdl21.Model.C19Series Hdl21.Proofs.C19Proofs
               Hdl21.Model.C19EDesign Hdl21.Proofs.C19EProofsStep Hdl21.Proofs.C19EProofsNames.
From Coq Require String.
Open Scope string_scope.
Open Scope Z_scope.

Theorem series_instance_names_distinct nm io a b w n xi p nms e1 e2 :
  series_ok nm io a b w n = true ->
  xinfo_ok xi (series_design nm io a b w n) = true -> elab_export_model2 xi (series_design nm io a b w n) = Ok p ->
  name_elems (sn_units nm) (Z.to_nat n) 0%N (remove_name (sn_units nm) (map fst io ++ [sn_i nm] ++ [sn_units nm])) = Ok nms ->
  0 <= e1 < n -> 0 <= e2 < n ->
  nth (Z.to_nat e1) nms (sn_units nm) = nth (Z.to_nat e2) nms (sn_units nm) -> e1 = e2.
Proof.
  intros Hok Hxi Hp Hnm H1 H2 E.
  destruct (series_ok_inv _ _ _ _ _ _ Hok) as [Hw [_ [Hab [Ha _]]]].
  assert (In (a, w) io) as Ia by (apply assoc_In; exact Ha). pose proof (Hw a w Ia) as Hw1.
  destruct (series_exported_explicit nm io a b w n xi p Hok Hxi Hp) as [pd [nms' [_ [Hnm' [Huu _]]]]].
  rewrite Hnm in Hnm'. injection Hnm' as <-. cbv zeta in Huu.
  pose proof (Huu e1 a w 0 e2 a w 0 Ia ltac:(lia) H1 Ia ltac:(lia) H2) as H. rewrite E in H.
  assert (series_key n a b e1 a 0 = series_key n a b e2 a 0) as K.
  { apply H. exists 0%nat, 0%nat, (NPort [] (nth (Z.to_nat e2) nms (sn_units nm)) 0 a 0). split; reflexivity. }
  unfold series_key in K. rewrite String.eqb_refl in K.
  destruct (e1 =? 0) eqn:E1; destruct (e2 =? 0) eqn:E2; try discriminate K; [lia|]. injection K as K. lia.
Qed.
