(* Proofs/C05Proofs.v — lemmas for property C05 (invented names never capture the designer's names).
   The facts about flatname itself (freshness, minimality, no fuel exhaustion, only the length limit fails) are those of
   Proofs/BundleProofs.v (property C10) and are re-used here. *)
From Coq Require Import String Ascii Arith DecimalString.
Require Import Hdl21.Base.PyInt Hdl21.Spec.BundleSpec Hdl21.Model.BundleFlat Hdl21.Proofs.BundleProofs
               Hdl21.Model.C05Naming.
Require Import Hdl21Gen.C10Tables.
Open Scope string_scope.
Open Scope list_scope.
Open Scope Z_scope.

(* ---------------------------------------------------------------------------------------------------- the namespace *)
Lemma eqb_sym' a b : String.eqb a b = String.eqb b a.
Proof. apply String.eqb_sym. Qed.

Lemma smem_keys k l : smem k (keys l) = match lookup k l with Some _ => true | None => false end.
Proof.
  induction l as [|[k' v] r IH]; [reflexivity|]. cbn [keys map fst smem lookup].
  destruct (String.eqb k' k); [reflexivity|]. exact IH.
Qed.

Lemma lookup_app k a b : lookup k (a ++ b) = match lookup k a with Some v => Some v | None => lookup k b end.
Proof.
  induction a as [|[k' v] r IH]; [reflexivity|]. cbn [app lookup]. destruct (String.eqb k' k); [reflexivity|exact IH].
Qed.

Lemma lookup_remove k n l : lookup k (ns_remove n l) = if String.eqb n k then None else lookup k l.
Proof.
  induction l as [|[k' v] r IH]; cbn [ns_remove lookup]; [destruct (String.eqb n k); reflexivity|].
  destruct (String.eqb k' n) eqn:E1.
  - apply String.eqb_eq in E1. subst k'. rewrite IH. destruct (String.eqb n k); reflexivity.
  - cbn [lookup]. destruct (String.eqb k' k) eqn:E2.
    + apply String.eqb_eq in E2. subst k'. rewrite eqb_sym', E1. reflexivity.
    + exact IH.
Qed.

Lemma lookup_replace k n o l :
  lookup k (ns_replace n o l) = if String.eqb n k then match lookup k l with Some _ => Some o | None => None end else lookup k l.
Proof.
  induction l as [|[k' v] r IH]; cbn [ns_replace lookup]; [destruct (String.eqb n k); reflexivity|].
  destruct (String.eqb k' n) eqn:E1; cbn [lookup].
  - apply String.eqb_eq in E1. subst k'. destruct (String.eqb n k); [reflexivity|exact IH].
  - destruct (String.eqb k' k) eqn:E2.
    + apply String.eqb_eq in E2. subst k'. rewrite eqb_sym', E1. reflexivity.
    + exact IH.
Qed.

(* _add: whatever was bound to the name before, afterwards the name denotes the NEW object - nothing protects an old binding *)
Lemma lookup_add k n o l : lookup k (ns_add n o l) = if String.eqb n k then Some o else lookup k l.
Proof.
  unfold ns_add. destruct (lookup n l) as [old|] eqn:L.
  - destruct (okind_eqb (o_kind old) (o_kind o)).
    + rewrite lookup_replace. destruct (String.eqb n k) eqn:E; [|reflexivity].
      apply String.eqb_eq in E. subst k. rewrite L. reflexivity.
    + rewrite lookup_app, lookup_remove. cbn [lookup]. destruct (String.eqb n k); [reflexivity|].
      destruct (lookup k l); reflexivity.
  - rewrite lookup_app. cbn [lookup]. destruct (String.eqb n k) eqn:E.
    + apply String.eqb_eq in E. subst k. rewrite L. reflexivity.
    + destruct (lookup k l); reflexivity.
Qed.

Lemma add_fresh n o l : lookup n l = None -> ns_add n o l = l ++ [(n, o)].
Proof. intros H. unfold ns_add. rewrite H. reflexivity. Qed.

Lemma keys_app a b : keys (a ++ b) = keys a ++ keys b.
Proof. unfold keys. apply map_app. Qed.

Lemma lookup_None_keys k l : lookup k l = None <-> ~ In k (keys l).
Proof.
  rewrite <- smem_false, smem_keys. destruct (lookup k l); split; congruence.
Qed.

Lemma keys_remove_In k n l : In k (keys (ns_remove n l)) -> In k (keys l) /\ k <> n.
Proof.
  induction l as [|[k' v] r IH]; cbn [ns_remove keys map fst]; [tauto|].
  destruct (String.eqb k' n) eqn:E.
  - intros H. destruct (IH H). split; [right; assumption|assumption].
  - cbn [keys map fst In]. intros [H|H].
    + subst k'. split; [left; reflexivity|]. intros ->. rewrite String.eqb_refl in E. discriminate.
    + destruct (IH H). split; [right; assumption|assumption].
Qed.

Lemma keys_remove_NoDup n l : NoDup (keys l) -> NoDup (keys (ns_remove n l)).
Proof.
  induction l as [|[k' v] r IH]; cbn [ns_remove keys map fst]; [trivial|]. intros H. inversion H; subst.
  destruct (String.eqb k' n); [apply IH; assumption|]. cbn [keys map fst]. constructor; [|apply IH; assumption].
  intros Hin. apply keys_remove_In in Hin. tauto.
Qed.

(* ---------------------------------------------------------------------------------------------------- invent *)
Lemma maxlen_nonneg : 0 <= flatname_maxlen.
Proof. vm_compute. discriminate. Qed.

(* the shape of every invented name: the plain joined name plus the least number of underscores that makes it free *)
Lemma invent_spec s l n : invent s l = Ok n ->
  lookup n l = None /\
  Z.of_nat (String.length n) <= flatname_maxlen /\
  exists k, n = (join_us (site_segs s) ++ underscores k)%string /\
            forall j, (j < k)%nat -> lookup (join_us (site_segs s) ++ underscores j)%string l <> None.
Proof.
  unfold invent, invent_v. cbn [site_avoids]. unfold flatname. intros H.
  apply flatname_loop_spec in H. destruct H as [k [E [F [M L]]]].
  rewrite smem_keys in F. split; [destruct (lookup n l); [discriminate|reflexivity]|]. split; [exact L|].
  exists k. split; [exact E|]. intros j Hj. specialize (M j Hj). rewrite smem_keys in M.
  destruct (lookup (join_us (site_segs s) ++ underscores j)%string l); [discriminate|discriminate M].
Qed.

Lemma invent_fresh s l n : invent s l = Ok n -> lookup n l = None.
Proof. intros H. apply (invent_spec s l n H). Qed.

(* the only failure is the length limit (a RuntimeError of flatname); the model's fuel never runs out *)
Lemma invent_err s l e : invent s l = Error e -> e = EName.
Proof.
  unfold invent, invent_v. cbn [site_avoids]. intros H.
  pose proof (flatname_no_fuel (site_segs s) (keys l) flatname_maxlen maxlen_nonneg) as NF.
  unfold flatname in H. destruct (flatname_loop_err _ _ _ _ _ H) as [->| ->]; [reflexivity|].
  exfalso. apply NF. exact H.
Qed.

(* no spurious renaming: a free plain name that fits is used as it is *)
Lemma invent_plain s l : lookup (join_us (site_segs s)) l = None ->
  Z.of_nat (String.length (join_us (site_segs s))) <= flatname_maxlen -> invent s l = Ok (join_us (site_segs s)).
Proof.
  intros H L. unfold invent, invent_v. cbn [site_avoids]. apply flatname_free; [exact maxlen_nonneg| |exact L].
  rewrite smem_keys, H. reflexivity.
Qed.

(* ---- flatname is total while there is room: pigeonhole over the candidates name, name_, name__, ... ---- *)
Lemma flatname_loop_fails fuel : forall nm avoid maxlen,
  flatname_loop fuel nm avoid maxlen = Error EName ->
  exists k, maxlen < Z.of_nat (String.length nm) + Z.of_nat k /\
            forall j, (j < k)%nat -> smem (nm ++ underscores j)%string avoid = true.
Proof.
  induction fuel as [|f IH]; intros nm avoid maxlen; cbn [flatname_loop]; [discriminate|].
  destruct (maxlen <? Z.of_nat (String.length nm)) eqn:El.
  - intros _. exists O. split; [lia|]. intros j Hj. lia.
  - destruct (smem nm avoid) eqn:Em; [|discriminate]. intros H. apply IH in H. destruct H as [k [Hl Hm]].
    exists (S k). rewrite length_append in Hl. cbn [String.length] in Hl. split; [lia|].
    intros j Hj. destruct j as [|j].
    + cbn [underscores]. rewrite append_nil_r. exact Em.
    + cbn [underscores]. rewrite <- append_assoc. apply Hm. lia.
Qed.

Lemma candidates_NoDup nm k : NoDup (map (fun j => (nm ++ underscores j)%string) (seq 0 k)).
Proof.
  apply NoDup_map_inj; [|apply seq_NoDup].
  intros a b E. apply (f_equal String.length) in E. rewrite !length_append, !underscores_length in E. lia.
Qed.

Lemma flatname_total segs avoid maxlen :
  0 <= maxlen -> Z.of_nat (String.length (join_us segs)) + Z.of_nat (List.length avoid) <= maxlen ->
  exists n, flatname segs avoid maxlen = Ok n.
Proof.
  intros H0 Hroom. destruct (flatname segs avoid maxlen) as [n|e] eqn:E; [exists n; reflexivity|exfalso].
  pose proof (flatname_no_fuel segs avoid maxlen H0) as NF. unfold flatname in E, NF.
  destruct (flatname_loop_err _ _ _ _ _ E) as [->| ->]; [|apply NF; exact E].
  apply flatname_loop_fails in E. destruct E as [k [Hl Hm]].
  assert (k <= List.length avoid)%nat.
  { rewrite <- (seq_length k 0), <- (map_length (fun j => (join_us segs ++ underscores j)%string)).
    apply NoDup_incl_length; [apply candidates_NoDup|].
    intros x Hx. apply in_map_iff in Hx. destruct Hx as [j [<- Hj]]. apply in_seq in Hj.
    apply smem_In. apply Hm. lia. }
  lia.
Qed.

(* ---------------------------------------------------------------------------------------------------- steps and histories *)
Lemma step_invent l s o l' inv : step l (OpInvent s o) = Ok (l', inv) ->
  exists n, invent s l = Ok n /\ inv = [n] /\ lookup n l = None /\ l' = l ++ [(n, o)].
Proof.
  unfold step, step_v. fold (invent s l). destruct (invent s l) as [n|e] eqn:E; cbn [bind]; [|discriminate].
  intros H. inversion H; subst. exists n. pose proof (invent_fresh _ _ _ E) as F.
  rewrite (add_fresh _ _ _ F). auto.
Qed.

Lemma run_cons l x rest l' inv : run l (x :: rest) = Ok (l', inv) ->
  exists l1 i1 i2, step l x = Ok (l1, i1) /\ run l1 rest = Ok (l', i2) /\ inv = i1 ++ i2.
Proof.
  unfold run, step. cbn [run_v]. destruct (step_v Repaired l x) as [[l1 i1]|e] eqn:E1; cbn [bind]; [|discriminate].
  cbn [fst snd]. destruct (run_v Repaired l1 rest) as [[l2 i2]|e] eqn:E2; cbn [bind]; [|discriminate].
  cbn [fst snd]. intros H. inversion H; subst. exists l1, i1, i2. auto.
Qed.

(* no existing binding is replaced or shadowed: only the names the passes pop on purpose disappear *)
Lemma run_extends_only ops : forall l l' inv, run l ops = Ok (l', inv) ->
  forall k v, lookup k l = Some v -> ~ In k (popped ops) -> lookup k l' = Some v.
Proof.
  induction ops as [|x rest IH]; intros l l' inv H k v Hk Hp.
  - unfold run in H. cbn [run_v] in H. inversion H; subst. exact Hk.
  - apply run_cons in H. destruct H as [l1 [i1 [i2 [Hs [Hr _]]]]]. destruct x as [n|s o].
    + unfold step, step_v in Hs. inversion Hs; subst. cbn [popped In] in Hp.
      eapply IH; [exact Hr| |tauto]. rewrite lookup_remove. destruct (String.eqb n k) eqn:E; [|exact Hk].
      apply String.eqb_eq in E. tauto.
    + apply step_invent in Hs. destruct Hs as [n [_ [_ [F ->]]]]. cbn [popped] in Hp.
      eapply IH; [exact Hr| |exact Hp]. rewrite lookup_app, Hk. reflexivity.
Qed.

(* an invented name never equals a name that was bound at the start, unless that name was popped (dissolved) meanwhile *)
Lemma run_invented_new ops : forall l l' inv, run l ops = Ok (l', inv) ->
  forall n v, In n inv -> lookup n l = Some v -> In n (popped ops).
Proof.
  induction ops as [|x rest IH]; intros l l' inv H n v Hin Hb.
  - unfold run in H. cbn [run_v] in H. inversion H; subst. destruct Hin.
  - apply run_cons in H. destruct H as [l1 [i1 [i2 [Hs [Hr ->]]]]]. destruct x as [p|s o].
    + unfold step, step_v in Hs. inversion Hs; subst. cbn [app] in Hin. cbn [popped].
      destruct (String.eqb p n) eqn:E; [apply String.eqb_eq in E; left; exact E|]. right.
      eapply IH; [exact Hr|exact Hin|]. rewrite lookup_remove, E. exact Hb.
    + apply step_invent in Hs. destruct Hs as [m [_ [-> [F ->]]]]. cbn [popped]. cbn [app In] in Hin.
      destruct Hin as [<-|Hin]; [congruence|].
      eapply IH; [exact Hr|exact Hin|]. rewrite lookup_app, Hb. reflexivity.
Qed.

(* the invented names are pairwise distinct (as long as none of them is itself dissolved again) *)
Lemma run_invented_NoDup ops : forall l l' inv, run l ops = Ok (l', inv) ->
  (forall n, In n inv -> ~ In n (popped ops)) -> NoDup inv.
Proof.
  induction ops as [|x rest IH]; intros l l' inv H Hp.
  - unfold run in H. cbn [run_v] in H. inversion H; subst. constructor.
  - apply run_cons in H. destruct H as [l1 [i1 [i2 [Hs [Hr ->]]]]]. destruct x as [p|s o].
    + unfold step, step_v in Hs. inversion Hs; subst. cbn [app] in *. eapply IH; [exact Hr|].
      intros n Hn Hq. apply (Hp n Hn). cbn [popped In]. tauto.
    + apply step_invent in Hs. destruct Hs as [m [_ [-> [F ->]]]]. cbn [app] in *. cbn [popped] in Hp. constructor.
      * intros Hin. apply (Hp m (or_introl eq_refl)).
        eapply (run_invented_new rest _ _ _ Hr m o Hin). rewrite lookup_app, F. cbn [lookup]. rewrite String.eqb_refl. reflexivity.
      * eapply IH; [exact Hr|]. intros n Hn. apply Hp. right. exact Hn.
Qed.

(* the namespace stays a dict: keys unique *)
Lemma run_NoDup ops : forall l l' inv, run l ops = Ok (l', inv) -> NoDup (keys l) -> NoDup (keys l').
Proof.
  induction ops as [|x rest IH]; intros l l' inv H N.
  - unfold run in H. cbn [run_v] in H. inversion H; subst. exact N.
  - apply run_cons in H. destruct H as [l1 [i1 [i2 [Hs [Hr _]]]]]. eapply IH; [exact Hr|]. destruct x as [p|s o].
    + unfold step, step_v in Hs. inversion Hs; subst. apply keys_remove_NoDup. exact N.
    + apply step_invent in Hs. destruct Hs as [m [_ [_ [F ->]]]]. rewrite keys_app. cbn [keys map fst].
      apply NoDup_app_iff. split; [exact N|]. split; [constructor; [intros []|constructor]|].
      intros k Hk [<-|[]]. apply lookup_None_keys in F. tauto.
Qed.

(* every binding of the final namespace is an initial binding or an invented one *)
Lemma run_bindings ops : forall l l' inv, run l ops = Ok (l', inv) ->
  forall k v, lookup k l' = Some v -> lookup k l = Some v \/ In k inv.
Proof.
  induction ops as [|x rest IH]; intros l l' inv H k v Hk.
  - unfold run in H. cbn [run_v] in H. inversion H; subst. left. exact Hk.
  - apply run_cons in H. destruct H as [l1 [i1 [i2 [Hs [Hr ->]]]]]. destruct (IH _ _ _ Hr k v Hk) as [B|B].
    + destruct x as [p|s o].
      * unfold step, step_v in Hs. inversion Hs; subst. rewrite lookup_remove in B. destruct (String.eqb p k); [discriminate|].
        left. exact B.
      * apply step_invent in Hs. destruct Hs as [m [_ [-> [F ->]]]]. rewrite lookup_app in B.
        destruct (lookup k l) eqn:L; [left; exact B|]. cbn [lookup] in B. destruct (String.eqb m k) eqn:E; [|discriminate].
        apply String.eqb_eq in E. right. left. exact E.
    + right. apply in_or_app. right. exact B.
Qed.

(* ---------------------------------------------------------------------------------------------------- dissolving passes *)
(* sites whose first segment is the dissolved object's own name *)
Definition headed (b : name) (s : site) : Prop :=
  match s with
  | SFlatMember b' _ | SArrayElem b' _ | SPairMember b' _ => b' = b
  | _ => False
  end.

Lemma headed_join b s : headed b s -> exists m, join_us (site_segs s) = (b ++ "_" ++ m)%string.
Proof.
  destruct s as [i p|nm i p|nm i p pth|b' m|b' k|b' m]; cbn [headed]; try tauto; intros ->; cbn [site_segs join_us]; eauto.
Qed.

Lemma headed_ne b s l n : headed b s -> invent s l = Ok n -> n <> b.
Proof.
  intros Hh H. destruct (invent_spec _ _ _ H) as [_ [_ [k [E _]]]]. destruct (headed_join _ _ Hh) as [m Em].
  rewrite Em in E. intros ->. apply (f_equal String.length) in E. rewrite !length_append in E. cbn [String.length] in E. lia.
Qed.

Fixpoint invents (ops : list op) : list site :=
  match ops with [] => [] | OpInvent s _ :: r => s :: invents r | OpPop _ :: r => invents r end.

Lemma run_no_pop ops : popped ops = [] -> forall l l' inv, run l ops = Ok (l', inv) ->
  Forall2 (fun s n => exists l0, invent s l0 = Ok n) (invents ops) inv.
Proof.
  induction ops as [|x rest IH]; intros Hp l l' inv H.
  - unfold run in H. cbn [run_v] in H. inversion H; subst. constructor.
  - apply run_cons in H. destruct H as [l1 [i1 [i2 [Hs [Hr ->]]]]]. destruct x as [p|s o]; [discriminate|].
    apply step_invent in Hs. destruct Hs as [m [E [-> _]]]. cbn [invents app]. constructor; [eauto|].
    eapply IH; [exact Hp|exact Hr].
Qed.

(* one dissolving pass over one object b: pop b, then insert its parts under invented names *)
Lemma dissolve_block b parts : popped parts = [] -> Forall (headed b) (invents parts) ->
  forall l l' inv, run l (OpPop b :: parts) = Ok (l', inv) ->
  List.length inv = List.length (invents parts) /\ NoDup inv /\
  (forall n, In n inv -> lookup n l = None /\ n <> b) /\
  (forall k v, k <> b -> lookup k l = Some v -> lookup k l' = Some v) /\
  lookup b l' = None.
Proof.
  intros Hp Hh l l' inv H.
  pose proof H as H0. apply run_cons in H. destruct H as [l1 [i1 [i2 [Hs [Hr ->]]]]].
  unfold step, step_v in Hs. inversion Hs; subst. cbn [app] in *.
  pose proof (run_no_pop parts Hp _ _ _ Hr) as F2.
  assert (Hne : forall n, In n i2 -> n <> b).
  { intros n Hn. destruct (Forall2_in_r _ _ _ _ F2 Hn) as [s [Hs' [l0 E]]].
    rewrite Forall_forall in Hh. eapply headed_ne; [apply Hh; exact Hs'|exact E]. }
  split; [symmetry; eapply Forall2_length'; exact F2|].
  split; [eapply run_invented_NoDup; [exact Hr|rewrite Hp; intros n _ []]|].
  split.
  { intros n Hn. split; [|apply Hne; exact Hn].
    destruct (lookup n l) as [v|] eqn:L; [|reflexivity]. exfalso.
    assert (In n (popped parts)) as Q; [|rewrite Hp in Q; destruct Q].
    eapply (run_invented_new parts _ _ _ Hr n v Hn). rewrite lookup_remove.
    destruct (String.eqb b n) eqn:E; [apply String.eqb_eq in E; exfalso; apply (Hne n Hn); congruence|exact L]. }
  split.
  { intros k v Hk L. eapply (run_extends_only _ _ _ _ H0 k v L). cbn [popped]. rewrite Hp. intros [->|[]]. congruence. }
  destruct (lookup b l') as [v|] eqn:L; [|reflexivity]. exfalso.
  destruct (run_bindings _ _ _ _ Hr b v L) as [B|B].
  - rewrite lookup_remove, String.eqb_refl in B. discriminate.
  - apply (Hne b B). reflexivity.
Qed.

Lemma popped_map_invent {A} (f : A -> site) (g : A -> obj) xs : popped (map (fun x => OpInvent (f x) (g x)) xs) = [].
Proof. induction xs; [reflexivity|exact IHxs]. Qed.

Lemma invents_map_invent {A} (f : A -> site) (g : A -> obj) xs : invents (map (fun x => OpInvent (f x) (g x)) xs) = map f xs.
Proof. induction xs as [|x r IH]; [reflexivity|]. cbn [map invents]. rewrite IH. reflexivity. Qed.

Lemma number_length {A} (l : list A) : forall k, List.length (number l k) = List.length l.
Proof. induction l; intros k; [reflexivity|]. cbn [number List.length]. rewrite IHl. reflexivity. Qed.

(* ---------------------------------------------------------------------------------------------------- the model of
   flatten_bundles.replace_bundle_inst (Model/BundleFlat.v:name_scope, property C10) is this model's bundle step sequence *)
Lemma name_scope_is_run (b : string) (port : bool) (sc : scope) : forall l acc out ks id0,
  name_scope b flatname_maxlen sc (keys l) acc = Ok (out, ks) ->
  exists l' inv, run l (map (fun pk => OpInvent (SFlatMember b (to_name (fst pk)))
                                         {| o_kind := if port then KPort else KSig; o_id := snd pk |})
                            (number (map fst sc) id0)) = Ok (l', inv) /\
                 keys l' = ks /\ ks = keys l ++ inv.
Proof.
  induction sc as [|[p f] rest IH]; intros l acc out ks id0; cbn [name_scope map number].
  - intros H. inversion H; subst. exists l, []. unfold run. cbn [run_v]. rewrite app_nil_r. auto.
  - destruct (flatname [b; to_name p] (keys l) flatname_maxlen) as [nm|e] eqn:E; cbn [bind]; [|discriminate].
    intros H.
    assert (Ei : invent (SFlatMember b (to_name p)) l = Ok nm) by exact E.
    pose proof (invent_fresh _ _ _ Ei) as F.
    set (o := {| o_kind := if port then KPort else KSig; o_id := id0 |}).
    assert (Ek : @app string (keys l) (@cons string nm (@nil string)) = keys (l ++ [(nm, o)])) by (rewrite keys_app; reflexivity).
    rewrite Ek in H.
    destruct (IH _ _ _ _ (id0 + 1)%N H) as [l' [inv [Hr [Hk Hks]]]].
    exists l', (nm :: inv). split; [|split; [exact Hk|]].
    + unfold run. cbn [run_v fst]. unfold step_v. fold (invent (SFlatMember b (to_name p)) l). rewrite Ei. cbn [bind fst snd].
      fold o. rewrite (add_fresh nm o l F). unfold run in Hr.
      match goal with |- bind ?X _ = _ => replace X with (@Ok (ns * list name) (l', inv)) by (symmetry; exact Hr) end.
      cbn [bind fst snd app]. reflexivity.
    + rewrite Hks, keys_app. cbn [keys map fst]. rewrite <- app_assoc. reflexivity.
Qed.

(* the names a dissolving block invents are the plain names of its sites plus collision underscores *)
Lemma run_no_pop_names ops : popped ops = [] -> forall l l' inv, run l ops = Ok (l', inv) ->
  Forall2 (fun s n => exists j, n = (join_us (site_segs s) ++ underscores j)%string) (invents ops) inv.
Proof.
  intros Hp l l' inv H. eapply Forall2_impl'; [|eapply run_no_pop; eassumption].
  intros s n [l0 E]. destruct (invent_spec _ _ _ E) as [_ [_ [k [En _]]]]. exists k. exact En.
Qed.

Lemma run_pop_first b parts l l' inv : run l (OpPop b :: parts) = Ok (l', inv) -> run (ns_remove b l) parts = Ok (l', inv).
Proof.
  intros H. apply run_cons in H. destruct H as [l1 [i1 [i2 [Hs [Hr ->]]]]].
  unfold step, step_v in Hs. inversion Hs; subst. exact Hr.
Qed.

(* ---------------------------------------------------------------------------------------------------- the regenerated
   table of flatname calls (coq/generated/C05Sites.v, re-extracted from the source on every run) against the model *)
Require Import Hdl21Gen.C05Sites.

Definition site_func (s : site) : string * string :=
  match s with
  | SPortRef _ _ => ("portrefs", "create_source")
  | SNoConn _ _ _ => ("portrefs", "replace_noconn")
  | SNoConnMember _ _ _ _ => ("portrefs", "noconn_array_bundle")
  | SFlatMember _ _ => ("flatten_bundles", "replace_bundle_inst")
  | SArrayElem _ _ => ("arrays", "elaborate_module")
  | SPairMember _ _ => ("inst_bundles", "elaborate_instance_bundle")
  end.

(* the function calls flatname, and every call of it passes `avoid=module.namespace` *)
Definition table_avoids (f : string * string) : bool :=
  (* a site is identified by its PASS (file): every flatname call of that pass hands over the namespace *)
  let cs := filter (fun c => String.eqb (fst (fst c)) (fst f)) c05_flatname_calls in
  negb (match cs with [] => true | _ => false end) && forallb (fun c => String.eqb (snd c) "module.namespace") cs.

Lemma sites_table s : site_avoids Repaired s = table_avoids (site_func s).
Proof. destruct s; vm_compute; reflexivity. Qed.

Lemma sites_table_complete :
  forallb (fun c => existsb (fun f => String.eqb (fst (fst c)) (fst f))
                            [site_func (SPortRef "" ""); site_func (SNoConn None "" ""); site_func (SNoConnMember None "" "" []); site_func (SFlatMember "" "");
                             site_func (SArrayElem "" 0); site_func (SPairMember "" "")]) c05_flatname_calls = true.
Proof. vm_compute. reflexivity. Qed.
