(* Proofs/C09FailOnce.v — whether a generator call is refused does not depend on the history; a cached call ran once.
   (Model/C09GenFail.v, policy StoreNamed; invariant and basic facts in Proofs/C09FailProofs.v.)

   Bad k: the call graph below k holds a call whose own result cannot be named, a call that hands on what it did not
   make, or a cycle.  Shown here:  a call that is refused (for another reason than the model's recursion bound) is Bad;
   a Bad call is never in the cache; hence it is refused again, at every position of every history.  And with that:
   every call in the cache executed its body exactly once. *)
Require Import Hdl21.Base.PyInt Hdl21.Model.GenCache Hdl21.Model.C09GenFail Hdl21.Proofs.GenCacheProofs Hdl21.Proofs.C09FailProofs.
From Coq Require Import String.
Open Scope list_scope.

Section Once.
Variable K : Type.
Variable keqb : K -> K -> bool.
Hypothesis keqb_eq : forall a b, keqb a b = true <-> a = b.
Variable prog : K -> body K.
Variable gen_name : K -> string.
Variable has_params : K -> bool.
Variable suffix : K -> option string.

Notation runf := (run_f keqb prog gen_name has_params suffix StoreNamed).
Notation histf := (hist_f keqb prog gen_name has_params suffix StoreNamed).
Notation hist_fromf := (hist_from keqb prog gen_name has_params suffix StoreNamed).
Notation lookup := (lookup keqb).
Notation memk := (memk keqb).
Notation removek := (removek keqb).
Notation nameok := (name_ok has_params suffix).
Notation nruns := (nruns keqb).
Notation Doomed := (Doomed prog has_params suffix).
Notation Calls := (Calls prog).
Notation CallsPlus := (CallsPlus prog).
Notation Bad := (Bad prog has_params suffix).
Notation InvF := (InvF K keqb prog gen_name has_params suffix).
Notation ExtF := (ExtF K keqb).
Notation GoodF := (GoodF K keqb prog gen_name has_params suffix).

Let krefl := keqb_refl K keqb keqb_eq.
Let kneq := keqb_neq K keqb keqb_eq.
Let lk_None := lookup_None K keqb keqb_eq prog gen_name has_params (sfx suffix).
Let lk_in := lookup_Some_in K keqb keqb_eq prog gen_name has_params (sfx suffix).
Let mem_false := memk_false K keqb keqb_eq prog gen_name has_params (sfx suffix).
Let rem_head := removek_head K keqb keqb_eq prog gen_name has_params (sfx suffix).
Let run_good := run_goodF K keqb keqb_eq prog gen_name has_params suffix.
Let fold_good := fold_goodF K keqb keqb_eq prog gen_name has_params suffix.

(* ---------- the cache is ordered by completion: no cached call lies on a cycle ---------- *)
Definition Ord (d : list (K * nat)) : Prop :=
  forall l1 k m l2, d = l1 ++ (k, m) :: l2 -> (forall k', Calls k k' -> In k' (map fst l2)) /\ ~ In k (map fst l2).

Lemma Ord_tail x d : Ord (x :: d) -> Ord d.
Proof. intros O l1 k m l2 E. apply (O (x :: l1) k m l2). rewrite E. reflexivity. Qed.

Lemma in_fst_split (k : K) (d : list (K * nat)) : In k (map fst d) -> exists l1 m l2, d = l1 ++ (k, m) :: l2.
Proof.
  induction d as [|[a b] d IH]; simpl; intros H; [contradiction|]. destruct H as [<-|H].
  - exists [], b, d. reflexivity.
  - destruct (IH H) as [l1 [m [l2 E]]]. exists ((a, b) :: l1), m, l2. rewrite E. reflexivity.
Qed.

Lemma Ord_closed d k k' : Ord d -> In k (map fst d) -> Calls k k' -> In k' (map fst d).
Proof.
  intros O H C. destruct (in_fst_split _ _ H) as [l1 [m [l2 E]]]. destruct (O _ _ _ _ E) as [Cl _].
  rewrite E, map_app. apply in_or_app. right. right. apply Cl. assumption.
Qed.

Lemma Ord_reach d k k' : Ord d -> CallsPlus k k' -> In k (map fst d) -> In k' (map fst d).
Proof.
  intros O R. induction R as [a b C|a b c C R IH]; intros H.
  - eapply Ord_closed; eassumption.
  - apply IH. eapply Ord_closed; eassumption.
Qed.

Lemma Ord_acyclic : forall d, Ord d -> forall k, In k (map fst d) -> ~ CallsPlus k k.
Proof.
  induction d as [|[k0 m0] d IH]; intros O k H R; [contradiction|].
  pose proof (Ord_tail _ _ O) as Od. destruct (O [] k0 m0 d eq_refl) as [Cl Nin].
  simpl in H. destruct H as [<-|H]; [|exact (IH Od k H R)].
  inversion R as [a b C|a b c C R']; subst.
  - apply Nin. apply Cl. assumption.
  - apply Nin. eapply Ord_reach; [exact Od|exact R'|]. apply Cl. assumption.
Qed.

Lemma InvF_Ord st : InvF st -> Ord (done st).
Proof. intros I. exact (F_order _ _ _ _ _ _ _ I). Qed.

Lemma bad_not_done st k : InvF st -> Bad k -> ~ In k (map fst (done st)).
Proof.
  intros I B. induction B as [k D|k R|k k' C B IH]; intros H.
  - exact (doomed_not_done K keqb prog gen_name has_params suffix st k I D H).
  - exact (Ord_acyclic _ (InvF_Ord _ I) k H R).
  - apply IH. eapply Ord_closed; [apply InvF_Ord; eassumption|eassumption|assumption].
Qed.

(* ---------- a refused call is Bad ---------- *)
Lemma CallsPlus_snoc a b c : CallsPlus a b -> Calls b c -> CallsPlus a c.
Proof.
  intros R C. induction R as [a b C1|a b d C1 R IH].
  - eapply CP_step; [exact C1|apply CP_one; exact C].
  - eapply CP_step; [exact C1|apply IH; exact C].
Qed.

(* the calls that are pending are the callers, direct and indirect, of the running call *)
Definition Anc (st : state K) (k : K) : Prop := forall p, In p (pending st) -> CallsPlus p k.

Lemma fold_raise r : GoodF r -> forall ks st st' e, InvF st -> fold_f r st ks = (st', FRaise e) ->
  exists k' sti stj, In k' ks /\ InvF sti /\ pending sti = pending st /\ r sti k' = (stj, Raise e).
Proof.
  intros G. induction ks as [|k ks IH]; intros st st' e I H; simpl in H; [discriminate|].
  destruct (r st k) as [st1 [m|e1]] eqn:R.
  - destruct (G _ _ _ _ I R) as [I1 [P1 _]].
    destruct (fold_f r st1 ks) as [st2 [ms|e2]] eqn:F; inversion H; subst.
    destruct (IH _ _ _ I1 F) as [k' [sti [stj [Hin [Ii [Pi Ri]]]]]].
    exists k', sti, stj. split; [right; assumption|]. split; [assumption|]. split; [congruence|assumption].
  - inversion H; subst. exists k, st, st'. split; [left; reflexivity|]. auto.
Qed.

Lemma fold_ret_len (r : state K -> K -> state K * outcome) : forall ks st st' ms, fold_f r st ks = (st', FRet ms) -> List.length ms = List.length ks.
Proof.
  induction ks as [|k ks IH]; intros st st' ms H; simpl in H.
  - inversion H. reflexivity.
  - destruct (r st k) as [st1 [m|e1]]; [|discriminate].
    destruct (fold_f r st1 ks) as [st2 [ms2|e2]] eqn:F; inversion H; subst. simpl. f_equal. eapply IH. eassumption.
Qed.

Lemma raise_bad : forall fuel st k st' e, InvF st -> Anc st k -> runf fuel st k = (st', Raise e) -> e <> EFuel -> Bad k.
Proof.
  induction fuel as [|f IHf]; intros st k st' e I A H NF; simpl in H.
  { inversion H; subst. contradiction. }
  destruct (lookup k (done st)) as [m0|] eqn:L; [discriminate|].
  destruct (memk k (pending st)) eqn:M.
  { apply B_cycle. apply A. unfold GenCache.memk in M. apply existsb_exists in M. destruct M as [x [Hx E]].
    apply keqb_eq in E. subst x. assumption. }
  pose proof (inv_enterF K keqb keqb_eq prog gen_name has_params suffix st k I L) as I1.
  destruct (fold_f (runf f) (enter k st) (b_calls (prog k))) as [st2 fo] eqn:F.
  destruct fo as [ms|e2].
  - pose proof (fold_ret_len _ _ _ _ _ F) as Len.
    destruct (b_ret (prog k)) as [o|i] eqn:R.
    + destruct (nameok k) eqn:NK; [discriminate|]. apply B_doomed. eapply D_name; eassumption.
    + destruct (nth_error ms i) as [mi|] eqn:N; [discriminate|]. apply B_doomed. eapply D_pass; [eassumption|].
      apply nth_error_None. apply nth_error_None in N. lia.
  - inversion H; subst.
    destruct (fold_raise _ (run_good f) _ _ _ _ I1 F) as [k' [sti [stj [Hin [Ii [Pi Ri]]]]]].
    eapply B_call; [exact Hin|].
    apply (IHf sti k' stj e Ii); [|exact Ri|exact NF].
    intros p Hp. rewrite Pi in Hp. unfold enter in Hp. cbn [pending] in Hp. destruct Hp as [<-|Hp].
    + apply CP_one. exact Hin.
    + eapply CallsPlus_snoc; [apply A; exact Hp|exact Hin].
Qed.

(* ---------- cutting a history at a position ---------- *)
Lemma hist_at fuel ks st os i k : histf fuel ks = (st, os) -> nth_error ks i = Some k ->
  exists sta stb o, InvF sta /\ pending sta = [] /\ runf fuel sta k = (stb, o) /\ nth_error os i = Some o.
Proof.
  intros H Ki. apply nth_error_split in Ki. destruct Ki as [ks1 [ks2 [Eks Li]]].
  unfold hist_f in H. rewrite Eks, (hist_from_app K keqb prog gen_name has_params suffix) in H.
  destruct (hist_fromf fuel init ks1) as [sta osa] eqn:Ha. cbn [fst snd] in H.
  destruct (hist_from_inv K keqb keqb_eq prog gen_name has_params suffix fuel _ _ _ _ (InvF_init K keqb prog gen_name has_params suffix) Ha)
    as [Ia [Pa [_ [_ [Lena _]]]]].
  simpl in H. destruct (runf fuel sta k) as [stb ob] eqn:Rb. cbn [fst snd] in H.
  inversion H as [[Hst Hos]]. exists sta, stb, ob. split; [assumption|]. split; [exact Pa|]. split; [exact Rb|].
  rewrite <- Li, <- Lena. replace (List.length osa) with (List.length osa + 0)%nat by lia.
  rewrite (nth_error_app_r osa). reflexivity.
Qed.

(* 10. refused in one history (for any reason but the model's recursion bound) -> Bad, a property of the call alone *)
Lemma refused_is_bad fuel ks st os i k e : histf fuel ks = (st, os) -> nth_error ks i = Some k ->
  nth_error os i = Some (Raise e) -> e <> EFuel -> Bad k.
Proof.
  intros H Ki Oi NF. destruct (hist_at _ _ _ _ _ _ H Ki) as [sta [stb [o [Ia [Pa [R Oi']]]]]].
  rewrite Oi in Oi'. inversion Oi'; subst o.
  eapply raise_bad; [exact Ia| |exact R|exact NF]. intros p Hp. rewrite Pa in Hp. contradiction.
Qed.

(* 11. ... and a Bad call is refused at every position of every history *)
Lemma bad_refused fuel ks st os i k : histf fuel ks = (st, os) -> Bad k -> nth_error ks i = Some k ->
  exists e, nth_error os i = Some (Raise e).
Proof.
  intros H B Ki. destruct (histf_inv K keqb keqb_eq prog gen_name has_params suffix _ _ _ _ H) as [I [_ [_ [Len Hp]]]].
  destruct (nth_error os i) as [[m|e]|] eqn:Oi.
  - exfalso. apply (bad_not_done st k I B). eapply lk_in. eapply Hp; eassumption.
  - eauto.
  - exfalso. apply nth_error_None in Oi. assert (nth_error ks i <> None) as Q by congruence. apply nth_error_Some in Q. lia.
Qed.

(* 12. refused, and refused again: in the same interpreter or in any other, before or after any other calls *)
Lemma refusal_history_free f1 f2 ks1 ks2 st1 st2 os1 os2 i j k e :
  histf f1 ks1 = (st1, os1) -> histf f2 ks2 = (st2, os2) ->
  nth_error ks1 i = Some k -> nth_error os1 i = Some (Raise e) -> e <> EFuel ->
  nth_error ks2 j = Some k -> exists e', nth_error os2 j = Some (Raise e').
Proof.
  intros H1 H2 Ki Oi NF Kj. eapply bad_refused; [exact H2| |exact Kj]. exact (refused_is_bad _ _ _ _ _ _ _ H1 Ki Oi NF).
Qed.

(* ---------- the body of a cached call ran exactly once ---------- *)
Lemma nruns_zero k st : ~ In k (runs st) -> nruns k st = 0%nat.
Proof.
  unfold C09GenFail.nruns. induction (runs st) as [|x l IH]; simpl; intros H; [reflexivity|].
  destruct (keqb k x) eqn:E; [apply keqb_eq in E; subst; exfalso; apply H; auto|]. apply IH. tauto.
Qed.

(* a call that is pending is not executed again while it is pending *)
Definition KeepP (r : state K -> K -> state K * outcome) : Prop :=
  forall st k st' o, InvF st -> r st k = (st', o) -> forall x, In x (pending st) -> nruns x st' = nruns x st.

Lemma fold_keepP r : GoodF r -> KeepP r -> forall ks st st' fo, InvF st -> fold_f r st ks = (st', fo) ->
  forall x, In x (pending st) -> nruns x st' = nruns x st.
Proof.
  intros G Kp. induction ks as [|k ks IH]; intros st st' fo I H x Hx; simpl in H.
  - inversion H; subst. reflexivity.
  - destruct (r st k) as [st1 [m|e1]] eqn:R.
    + destruct (G _ _ _ _ I R) as [I1 [P1 _]].
      destruct (fold_f r st1 ks) as [st2 fo2] eqn:F.
      assert (nruns x st2 = nruns x st) as Q.
      { rewrite (IH _ _ _ I1 F x) by (rewrite P1; assumption). eapply Kp; eassumption. }
      destruct fo2; inversion H; subst; exact Q.
    + inversion H; subst. eapply Kp; eassumption.
Qed.

Lemma run_keepP : forall fuel, KeepP (runf fuel).
Proof.
  induction fuel as [|f IHf]; intros st k st' o I H x Hx; simpl in H.
  { inversion H; subst. reflexivity. }
  destruct (lookup k (done st)) as [m0|] eqn:L; [inversion H; subst; reflexivity|].
  destruct (memk k (pending st)) eqn:M; [inversion H; subst; reflexivity|].
  pose proof (inv_enterF K keqb keqb_eq prog gen_name has_params suffix st k I L) as I1.
  assert (x <> k) as Nx.
  { intros ->. apply mem_false in M. contradiction. }
  destruct (fold_f (runf f) (enter k st) (b_calls (prog k))) as [st2 fo] eqn:F.
  assert (nruns x st2 = nruns x st) as Q.
  { rewrite (fold_keepP _ (run_good f) IHf _ _ _ _ I1 F x) by (unfold enter; cbn [pending]; right; assumption).
    apply (nruns_cons_other K keqb keqb_eq). assumption. }
  assert (forall s, runs s = runs st2 -> nruns x s = nruns x st) as Fin.
  { intros s E. unfold C09GenFail.nruns in *. rewrite E. exact Q. }
  destruct fo as [ms|e]; [|inversion H; subst; apply Fin; reflexivity].
  destruct (b_ret (prog k)) as [o'|i].
  - destruct (nameok k); inversion H; subst; apply Fin; reflexivity.
  - destruct (nth_error ms i); inversion H; subst; apply Fin; reflexivity.
Qed.

(* every call that ever ran is in the cache, pending, or Bad;  every cached call ran once *)
Definition Ran (st : state K) : Prop := forall k, In k (runs st) -> In k (map fst (done st)) \/ In k (pending st) \/ Bad k.
Definition Once (st : state K) : Prop := forall k, In k (map fst (done st)) -> nruns k st = 1%nat.

Definition GoodO (r : state K -> K -> state K * outcome) : Prop :=
  forall st k st' o, InvF st -> Ran st -> Once st -> Anc st k -> r st k = (st', o) -> o <> Raise EFuel -> Ran st' /\ Once st'.

Lemma fold_once r : GoodF r -> GoodO r -> forall ks st st' fo, InvF st -> Ran st -> Once st ->
  (forall k, In k ks -> Anc st k) -> fold_f r st ks = (st', fo) -> fo <> FRaise EFuel -> Ran st' /\ Once st'.
Proof.
  intros G Go. induction ks as [|k ks IH]; intros st st' fo I Rn On A H NF; simpl in H.
  - inversion H; subst. auto.
  - destruct (r st k) as [st1 [m|e1]] eqn:R.
    + destruct (G _ _ _ _ I R) as [I1 [P1 _]].
      destruct (Go _ _ _ _ I Rn On (A k (or_introl eq_refl)) R) as [Rn1 On1]; [discriminate|].
      destruct (fold_f r st1 ks) as [st2 fo2] eqn:F.
      assert (fo2 <> FRaise EFuel) as NF2 by (intros ->; inversion H; subst; apply NF; reflexivity).
      assert (forall k0, In k0 ks -> Anc st1 k0) as A1.
      { intros k0 Hk0 p Hp. rewrite P1 in Hp. apply (A k0); [right; assumption|assumption]. }
      destruct (IH _ _ _ I1 Rn1 On1 A1 F NF2) as [Rn2 On2].
      destruct fo2; inversion H; subst; auto.
    + inversion H; subst. apply (Go _ _ _ _ I Rn On (A k (or_introl eq_refl)) R). intros E. inversion E. subst. apply NF. reflexivity.
Qed.

Lemma run_once : forall fuel, GoodO (runf fuel).
Proof.
  induction fuel as [|f IHf]; intros st k st' oc I Rn On A H NF.
  { simpl in H. inversion H; subst. exfalso. apply NF. reflexivity. }
  pose proof (run_good (S f) _ _ _ _ I H) as [I' [P' [_ [E' L']]]].
  pose proof H as H0. simpl in H.
  destruct (lookup k (done st)) as [m0|] eqn:L; [inversion H; subst; auto|].
  destruct (memk k (pending st)) eqn:M; [inversion H; subst; auto|].
  pose proof (inv_enterF K keqb keqb_eq prog gen_name has_params suffix st k I L) as I1.
  assert (~ In k (pending st)) as NP by (apply mem_false; assumption).
  assert (~ In k (map fst (done st))) as ND by (apply lk_None; assumption).
  assert (Ran (enter k st)) as Rn1.
  { intros x Hx. unfold enter in *. cbn [runs done pending] in *. destruct Hx as [<-|Hx]; [right; left; left; reflexivity|].
    destruct (Rn x Hx) as [Q|[Q|Q]]; [left; assumption|right; left; right; assumption|right; right; assumption]. }
  assert (Once (enter k st)) as On1.
  { intros x Hx. unfold enter in Hx. cbn [done] in Hx. rewrite (nruns_cons_other K keqb keqb_eq); [apply On; assumption|].
    intros ->. contradiction. }
  assert (forall k0, In k0 (b_calls (prog k)) -> Anc (enter k st) k0) as A1.
  { intros k0 Hk0 p Hp. unfold enter in Hp. cbn [pending] in Hp. destruct Hp as [<-|Hp].
    - apply CP_one. exact Hk0.
    - eapply CallsPlus_snoc; [apply A; exact Hp|exact Hk0]. }
  destruct (fold_f (runf f) (enter k st) (b_calls (prog k))) as [st2 fo] eqn:F.
  destruct (fold_good _ (run_good f) _ _ _ _ I1 F) as [I2 [P2 [S2 [E2 F2]]]].
  unfold enter in P2. cbn [pending] in P2.
  assert (fo <> FRaise EFuel) as NF2.
  { intros ->. inversion H; subst. apply NF. reflexivity. }
  destruct (fold_once _ (run_good f) IHf _ _ _ _ I1 Rn1 On1 A1 F NF2) as [Rn2 On2].
  (* leaving without a result: the call is Bad, and that is why it may stay in the log of executions *)
  assert (forall e, oc = Raise e -> runs st' = runs st2 -> done st' = done st2 -> Ran st' /\ Once st') as LeaveFin.
  { intros e Eo Er Ed. subst oc.
    assert (Bad k) as Bk.
    { eapply raise_bad; [exact I|exact A|exact H0|]. intros ->. apply NF. reflexivity. }
    split.
    - intros x Hx. rewrite Er in Hx. rewrite Ed, P'. destruct (Rn2 x Hx) as [Q|[Q|Q]]; [left; assumption| |right; right; assumption].
      rewrite P2 in Q. destruct Q as [<-|Q]; [right; right; exact Bk|right; left; exact Q].
    - intros x Hx. rewrite Ed in Hx. unfold C09GenFail.nruns. rewrite Er. apply On2. assumption. }
  (* leaving with a result: it ran now, once, and never before - a call that ran before and is not in the cache is Bad *)
  assert (forall m, oc = Ret m -> runs st' = runs st2 -> done st' = (k, m) :: done st2 -> Ran st' /\ Once st') as StoreFin.
  { intros m Eo Er Ed. subst oc. split.
    - intros x Hx. rewrite Er in Hx. rewrite Ed, P'. destruct (Rn2 x Hx) as [Q|[Q|Q]]; [left; right; assumption| |right; right; assumption].
      rewrite P2 in Q. destruct Q as [<-|Q]; [left; left; reflexivity|right; left; exact Q].
    - intros x Hx. rewrite Ed in Hx. unfold C09GenFail.nruns. rewrite Er. destruct Hx as [<-|Hx]; [|apply On2; assumption].
      cbn [fst]. fold (nruns k st2).
      rewrite (fold_keepP _ (run_good f) (run_keepP f) _ _ _ _ I1 F k) by (unfold enter; cbn [pending]; left; reflexivity).
      rewrite (nruns_cons_same K keqb keqb_eq). f_equal. apply nruns_zero. intros Hr.
      destruct (Rn k Hr) as [Q|[Q|Q]]; [contradiction|contradiction|].
      apply (bad_not_done st' k I' Q). rewrite Ed. left. reflexivity. }
  destruct fo as [ms|e]; [|inversion H; subst; eapply LeaveFin; reflexivity].
  destruct (b_ret (prog k)) as [o'|i].
  - destruct (nameok k); inversion H; subst; [eapply StoreFin; reflexivity|eapply LeaveFin; reflexivity].
  - destruct (nth_error ms i); inversion H; subst; [eapply StoreFin; reflexivity|eapply LeaveFin; reflexivity].
Qed.

Lemma Ran_init : Ran init.
Proof. intros k []. Qed.
Lemma Once_init : Once init.
Proof. intros k []. Qed.

Lemma hist_from_once fuel : forall ks st st' os, InvF st -> Ran st -> Once st -> pending st = [] ->
  hist_fromf fuel st ks = (st', os) -> ~ In (Raise EFuel) os -> Ran st' /\ Once st'.
Proof.
  induction ks as [|k ks IH]; intros st st' os I Rn On P H NF; simpl in H.
  - inversion H; subst. auto.
  - destruct (runf fuel st k) as [st1 o] eqn:R. cbn [fst snd] in H.
    destruct (hist_fromf fuel st1 ks) as [st2 os2] eqn:Hh. cbn [fst snd] in H. inversion H; subst; clear H.
    destruct (run_good fuel _ _ _ _ I R) as [I1 [P1 _]].
    assert (Anc st k) as A by (intros p Hp; rewrite P in Hp; contradiction).
    destruct (run_once fuel _ _ _ _ I Rn On A R) as [Rn1 On1]; [intros ->; apply NF; left; reflexivity|].
    apply (IH st1 st' os2 I1 Rn1 On1); [congruence|exact Hh|]. intros Q. apply NF. right. exact Q.
Qed.

(* 13. in a history in which the model's recursion bound was not hit: every call in the cache - in particular every
       call that was answered with a module, and every nested call that completed - executed its body exactly once,
       however often it was repeated and whatever was refused in between; and a call that executed without getting
       into the cache is Bad (it will be refused whenever it is made) *)
Lemma body_once fuel ks st os : histf fuel ks = (st, os) -> ~ In (Raise EFuel) os ->
  (forall k, In k (map fst (done st)) -> nruns k st = 1%nat) /\
  (forall k, In k (runs st) -> In k (map fst (done st)) \/ Bad k).
Proof.
  intros H NF.
  destruct (hist_from_once fuel _ _ _ _ (InvF_init K keqb prog gen_name has_params suffix) Ran_init Once_init eq_refl H NF) as [Rn On].
  destruct (histf_inv K keqb keqb_eq prog gen_name has_params suffix _ _ _ _ H) as [_ [P _]].
  split; [exact On|]. intros k Hk. destruct (Rn k Hk) as [Q|[Q|Q]]; [left; exact Q|rewrite P in Q; contradiction|right; exact Q].
Qed.

Lemma accepted_ran_once fuel ks st os i k m : histf fuel ks = (st, os) -> ~ In (Raise EFuel) os ->
  nth_error ks i = Some k -> nth_error os i = Some (Ret m) -> nruns k st = 1%nat.
Proof.
  intros H NF Ki Oi. destruct (body_once _ _ _ _ H NF) as [On _]. apply On.
  destruct (histf_inv K keqb keqb_eq prog gen_name has_params suffix _ _ _ _ H) as [_ [_ [_ [_ Hp]]]].
  eapply lk_in. eapply Hp; eassumption.
Qed.

End Once.
