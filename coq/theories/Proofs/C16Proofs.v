(* Proofs/C16Proofs.v — lemmas behind Props/C16.v: walk's environment invariant, the claim registry,
   and the connectivity of the hierarchy against that of the flattened module. *)
Require Import Hdl21.Base.PyInt Hdl21.Base.Design Hdl21.Spec.C16Flat Hdl21.Model.C16Flatten Hdl21.Proofs.FunGraph.
From Coq Require Import String.
Open Scope string_scope.
Open Scope list_scope.
Open Scope Z_scope.

Section hinst_ind'.
  Variable P : hinst -> Prop.
  Hypothesis Hleaf : forall nm dev dp c, P (ILeaf nm dev dp c).
  Hypothesis Hsub : forall nm ports sigs body c, Forall P body -> P (ISub nm ports sigs body c).
  Fixpoint hinst_ind' (x : hinst) : P x :=
    match x with
    | ILeaf nm dev dp c => Hleaf nm dev dp c
    | ISub nm ports sigs body c =>
        Hsub nm ports sigs body c ((fix go (l : list hinst) : Forall P l :=
                                      match l with [] => Forall_nil _ | y :: l' => Forall_cons _ (hinst_ind' y) (go l') end) body)
    end.
End hinst_ind'.

(* ---------- names, lists ---------- *)
Lemma hnames_eqb_eq a : forall b, hnames_eqb a b = true <-> a = b.
Proof.
  induction a as [|x a IH]; intros [|y b]; cbn [hnames_eqb]; split; intros H; try reflexivity; try discriminate.
  - apply andb_prop in H. destruct H as [H1 H2]. apply String.eqb_eq in H1. apply IH in H2. subst. reflexivity.
  - inversion H; subst. rewrite String.eqb_refl. cbn. apply IH. reflexivity.
Qed.

Lemma nodupb_NoDup l : nodupb l = true -> NoDup l.
Proof.
  induction l as [|x l IH]; cbn [nodupb]; intros H; [constructor|].
  apply andb_prop in H. destruct H as [H1 H2]. constructor; [|apply IH; exact H2].
  intros Hin. apply negb_true_iff in H1.
  assert (existsb (String.eqb x) l = true) as E.
  { apply existsb_exists. exists x. split; [exact Hin|apply String.eqb_refl]. }
  congruence.
Qed.

Lemma find_hinst_in l : forall x, NoDup (map iname l) -> In x l -> find_hinst l (iname x) = Some x.
Proof.
  induction l as [|y l IH]; intros x ND Hin; [destruct Hin|].
  cbn [find_hinst]. cbn [map] in ND. inversion ND as [|? ? Hn ND']; subst.
  destruct Hin as [->|Hin].
  - rewrite String.eqb_refl. reflexivity.
  - destruct (String.eqb (iname y) (iname x)) eqn:E.
    + apply String.eqb_eq in E. exfalso. apply Hn. rewrite E. apply in_map. exact Hin.
    + apply IH; assumption.
Qed.

Lemma assoc_in {A} k (l : list (name * A)) v : assoc k l = Some v -> In (k, v) l.
Proof.
  induction l as [|[k' v'] l IH]; cbn [assoc]; intros H; [discriminate|].
  destruct (String.eqb k k') eqn:E.
  - apply String.eqb_eq in E. inversion H; subst. left. reflexivity.
  - right. apply IH. exact H.
Qed.

Lemma in_assoc {A} k (l : list (name * A)) v : In (k, v) l -> exists v', assoc k l = Some v'.
Proof.
  induction l as [|[k' v'] l IH]; intros H; [destruct H|]. cbn [assoc].
  destruct (String.eqb k k') eqn:E; [eauto|].
  destruct H as [H|H]; [inversion H; subst; rewrite String.eqb_refl in E; discriminate|]. apply IH. exact H.
Qed.

Lemma assoc_map {A B} (g : A -> B) k (l : list (name * A)) :
  assoc k (map (fun c => (fst c, g (snd c))) l) = option_map g (assoc k l).
Proof.
  induction l as [|[k' v'] l IH]; cbn [map assoc fst snd]; [reflexivity|].
  destruct (String.eqb k k'); [reflexivity|exact IH].
Qed.

(* ---------- paths ---------- *)
Lemma mod_down_app M a : forall i,
  mod_down M (a ++ [i]) = match mod_down M a with
                          | Some M' => match find_hinst (h_body M') i with Some x => sub_mod x | None => None end
                          | None => None
                          end.
Proof.
  revert M. induction a as [|j a IH]; intros M i; cbn [app mod_down].
  - destruct (find_hinst (h_body M) i) as [x|]; [|reflexivity]. destruct (sub_mod x); reflexivity.
  - destruct (find_hinst (h_body M) j) as [x|]; [|reflexivity]. destruct (sub_mod x) as [M'|]; [|reflexivity]. apply IH.
Qed.

Lemma mod_at_cons t i p :
  mod_at t (i :: p) = match mod_at t p with
                      | Some M' => match find_hinst (h_body M') i with Some x => sub_mod x | None => None end
                      | None => None
                      end.
Proof. unfold mod_at. cbn [rev]. apply mod_down_app. Qed.

Lemma suffix_inj {A} (l1 l2 p : list A) a b : l1 ++ a :: p = l2 ++ b :: p -> a = b.
Proof.
  intros H. change (a :: p) with ([a] ++ p) in H. change (b :: p) with ([b] ++ p) in H.
  rewrite !app_assoc in H. apply app_inv_tail in H. apply app_inj_tail in H. tauto.
Qed.

(* ---------- fixed points ---------- *)
Lemma conn_fixed_eq {A} (f : A -> A) x y : conn A f x y -> f x = x -> f y = y -> x = y.
Proof.
  intros C Hx Hy. apply conn_meet in C. destruct C as [m [n E]].
  rewrite (fixed_iter A f x m Hx), (fixed_iter A f y n Hy) in E. exact E.
Qed.

Lemma hsig_top_fixed t s : hstep t (HSig [] s) = HSig [] s.
Proof. reflexivity. Qed.

(* ---------- walk's inner loop ---------- *)
Lemma new_conns_spec p mp ms env : forall conns nc cl, new_conns p mp ms env conns = Ok (nc, cl) ->
  (forall port, assoc port conns = None -> assoc port nc = None) /\
  (forall port c, assoc port conns = Some c -> exists key f, c = CSig key /\ assoc port nc = Some f /\
       (assoc key env = Some f \/ (assoc key env = None /\ fst f = (p, key) /\ In (key :: p) cl))) /\
  (forall port, ~ In (port, COther) conns).
Proof.
  intros conns; induction conns as [|[port0 c0] rest IH]; intros nc cl H; cbn [new_conns] in H.
  - inversion H; subst. split; [reflexivity|]. split; [intros; discriminate|intros ? []].
  - destruct c0 as [key|]; [|discriminate].
    match type of H with context [bind ?X _] => destruct X as [r|e] eqn:Er end; cbn [bind] in H; [|discriminate].
    destruct (new_conns p mp ms env rest) as [[nc' cl']|e] eqn:En; cbn [bind] in H; [|discriminate].
    inversion H; subst; clear H. destruct (IH _ _ eq_refl) as [IH1 [IH2 IH3]]. cbn [fst snd]. split; [|split].
    + intros port Hn. cbn [assoc] in *. destruct (String.eqb port port0); [discriminate|]. apply IH1; exact Hn.
    + intros port c Hc. cbn [assoc] in *. destruct (String.eqb port port0) eqn:E.
      * inversion Hc; subst. exists key, (fst r). split; [reflexivity|]. split; [reflexivity|].
        destruct (assoc key env) as [f0|] eqn:Ee.
        -- inversion Er; subst. left; reflexivity.
        -- right. split; [reflexivity|].
           destruct (assoc key ms) as [w|].
           { inversion Er; subst. cbn. split; [reflexivity|]. left; reflexivity. }
           destruct (assoc key mp) as [w|]; [|discriminate].
           inversion Er; subst. cbn. split; [reflexivity|]. left; reflexivity.
      * destruct (IH2 _ _ Hc) as [k [f [-> [Hf Hor]]]]. exists k, f. split; [reflexivity|]. split; [exact Hf|].
        destruct Hor as [Hor|[H1 [H2 H3]]]; [left; exact Hor|].
        right. split; [exact H1|]. split; [exact H2|]. apply in_or_app. right. exact H3.
    + intros port [Hin|Hin]; [discriminate|]. exact (IH3 _ Hin).
Qed.

Lemma new_conns_some p mp ms env conns nc cl port f :
  new_conns p mp ms env conns = Ok (nc, cl) -> assoc port nc = Some f -> exists c, assoc port conns = Some c.
Proof.
  intros H Hf. destruct (new_conns_spec _ _ _ _ _ _ _ H) as [H1 _].
  destruct (assoc port conns) as [c|] eqn:E; [eauto|]. rewrite (H1 _ E) in Hf. discriminate.
Qed.

(* ---------- the claim registry ---------- *)
Definition reg_inv (reg : list (name * hpath)) := forall k q, assoc k reg = Some q -> flat_name q = k.

Lemma check_claims_ok : forall cl reg, check_claims reg cl = Ok tt -> reg_inv reg ->
  forall q, In q cl -> forall q', (In q' cl \/ assoc (flat_name q') reg = Some q') -> flat_name q = flat_name q' -> q = q'.
Proof.
  induction cl as [|q0 cl IH]; intros reg H Inv q Hq q' Hq' E; [destruct Hq|].
  cbn [check_claims] in H.
  destruct (assoc (flat_name q0) reg) as [q''|] eqn:Ea.
  - destruct (hnames_eqb q'' q0) eqn:Eq; [|discriminate]. apply hnames_eqb_eq in Eq. subst q''.
    destruct Hq as [Hq|Hq].
    + subst q. destruct Hq' as [[Hq'|Hq']|Hq']; [exact Hq'| |].
      * symmetry. apply (IH reg H Inv q' Hq' q0); [right; exact Ea|symmetry; exact E].
      * rewrite <- E in Hq'. congruence.
    + destruct Hq' as [[Hq'|Hq']|Hq'].
      * subst q'. apply (IH reg H Inv q Hq q0); [right; exact Ea|exact E].
      * apply (IH reg H Inv q Hq q'); [left; exact Hq'|exact E].
      * apply (IH reg H Inv q Hq q'); [right; exact Hq'|exact E].
  - assert (Inv' : reg_inv ((flat_name q0, q0) :: reg)).
    { intros k q1. cbn [assoc]. destruct (String.eqb k (flat_name q0)) eqn:Ek.
      - intros X; inversion X; subst. apply String.eqb_eq in Ek. symmetry. exact Ek.
      - apply Inv. }
    assert (Hreg : forall q1, assoc (flat_name q1) reg = Some q1 -> flat_name q1 <> flat_name q0).
    { intros q1 H1 E1. rewrite E1 in H1. congruence. }
    assert (Hnew : assoc (flat_name q0) ((flat_name q0, q0) :: reg) = Some q0).
    { cbn [assoc]. rewrite String.eqb_refl. reflexivity. }
    assert (Hold : forall q1, assoc (flat_name q1) reg = Some q1 -> assoc (flat_name q1) ((flat_name q0, q0) :: reg) = Some q1).
    { intros q1 H1. cbn [assoc]. destruct (String.eqb (flat_name q1) (flat_name q0)) eqn:Ek; [|exact H1].
      apply String.eqb_eq in Ek. exfalso. exact (Hreg _ H1 Ek). }
    destruct Hq as [Hq|Hq].
    + subst q. destruct Hq' as [[Hq'|Hq']|Hq']; [exact Hq'| |].
      * symmetry. apply (IH _ H Inv' q' Hq' q0); [right; exact Hnew|symmetry; exact E].
      * exfalso. apply (Hreg _ Hq'). symmetry. exact E.
    + destruct Hq' as [[Hq'|Hq']|Hq'].
      * subst q'. apply (IH _ H Inv' q Hq q0); [right; exact Hnew|exact E].
      * apply (IH _ H Inv' q Hq q'); [left; exact Hq'|exact E].
      * apply (IH _ H Inv' q Hq q'); [right; apply Hold; exact Hq'|exact E].
Qed.

Lemma claims_injective cl : check_claims [] cl = Ok tt ->
  forall q q', In q cl -> In q' cl -> flat_name q = flat_name q' -> q = q'.
Proof.
  intros H q q' Hq Hq' E. apply (check_claims_ok cl [] H); [intros k x X; discriminate|exact Hq|left; exact Hq'|exact E].
Qed.

(* the converse: a registry that never sees two objects under one name accepts *)
Lemma check_claims_complete : forall cl reg,
  (forall q, In q cl -> forall q', (In q' cl \/ assoc (flat_name q') reg = Some q') -> flat_name q = flat_name q' -> q = q') ->
  reg_inv reg -> (forall k q, assoc k reg = Some q -> assoc (flat_name q) reg = Some q) ->
  check_claims reg cl = Ok tt.
Proof.
  induction cl as [|q0 cl IH]; intros reg Hinj Inv Hself; [reflexivity|]. cbn [check_claims].
  destruct (assoc (flat_name q0) reg) as [q''|] eqn:Ea.
  - assert (q0 = q'') as <-.
    { apply Hinj; [left; reflexivity| |].
      - right. apply Hself in Ea. exact Ea.
      - symmetry. apply Inv. exact Ea. }
    rewrite (proj2 (hnames_eqb_eq q0 q0) eq_refl).
    apply IH; [|exact Inv|exact Hself].
    intros q Hq q' Hq' E. apply Hinj; [right; exact Hq| |exact E]. destruct Hq' as [Hq'|Hq']; [left; right; exact Hq'|right; exact Hq'].
  - apply IH.
    + intros q Hq q' Hq' E. apply Hinj; [right; exact Hq| |exact E].
      destruct Hq' as [Hq'|Hq']; [left; right; exact Hq'|].
      cbn [assoc] in Hq'. destruct (String.eqb (flat_name q') (flat_name q0)) eqn:Ek.
      * inversion Hq'; subst. left; left; reflexivity.
      * right; exact Hq'.
    + intros k q1. cbn [assoc]. destruct (String.eqb k (flat_name q0)) eqn:Ek.
      * intros X; inversion X; subst. apply String.eqb_eq in Ek. symmetry. exact Ek.
      * apply Inv.
    + intros k q1. cbn [assoc]. destruct (String.eqb k (flat_name q0)) eqn:Ek.
      * intros X; inversion X; subst. rewrite String.eqb_refl. reflexivity.
      * intros X. pose proof (Hself _ _ X) as Y. destruct (String.eqb (flat_name q1) (flat_name q0)) eqn:Ek2; [|exact Y].
        apply String.eqb_eq in Ek2. rewrite Ek2 in Y. congruence.
Qed.

(* ---------- the walk: environment invariant and what every yielded leaf satisfies ---------- *)
Definition qnode (q : qsig) : hnode := HSig (fst q) (snd q).
Definition fixedp (t : hmod) (n : hnode) := hstep t n = n.
Notation hconn_rel t := (conn hnode (hstep t)).

Lemma step_conn t a b : hstep t a = b -> hconn_rel t a b.
Proof. intros <-. apply c_step. Qed.

Definition env_inv (t : hmod) (p : hpath) (env : cenv) (C : list hpath) :=
  (forall s f, assoc s env = Some f -> hconn_rel t (HSig p s) (qnode (fst f)) /\ fixedp t (qnode (fst f)) /\ In (qn (fst f)) C) /\
  (forall s, assoc s env = None -> fixedp t (HSig p s)).

Definition node_rel (t : hmod) (C : list hpath) (an : anode) (l : hleaf) :=
  an_path an = lf_path l /\ an_dev an = lf_dev l /\ an_dports an = lf_ports l /\ In (lf_path l) C /\
  exists i lp, lf_path l = i :: lp /\ inst_at t lp i = Some (ILeaf i (lf_dev l) (lf_ports l) (lf_conns l)) /\
    (forall port s, assoc port (lf_conns l) = Some (CSig s) -> exists f, assoc port (an_conns an) = Some f /\
        hconn_rel t (HPort lp i port) (qnode (fst f)) /\ fixedp t (qnode (fst f)) /\ In (qn (fst f)) C) /\
    (forall port, ~ In (port, COther) (lf_conns l)).

Lemma collect_Forall2 {A} (f : A -> result wout) (g : A -> list hleaf) (R : list hpath -> anode -> hleaf -> Prop) C0 l :
  forall nodes cl, collect f l = Ok (nodes, cl) ->
  (forall y, In y l -> forall n c, f y = Ok (n, c) -> forall C', incl (C0 ++ c) C' -> Forall2 (R C') n (g y)) ->
  forall C', incl (C0 ++ cl) C' -> Forall2 (R C') nodes (flat_map g l).
Proof.
  induction l as [|y l IH]; intros nodes cl H Hy C' Hi; cbn [collect] in H.
  - inversion H; subst. constructor.
  - destruct (f y) as [[n1 c1]|e] eqn:E1; cbn [bind] in H; [|discriminate].
    destruct (collect f l) as [[n2 c2]|e] eqn:E2; cbn [bind] in H; [|discriminate].
    inversion H; subst; clear H. cbn [fst snd flat_map]. apply Forall2_app.
    + apply (Hy y (or_introl eq_refl) _ _ E1). intros q Hq. apply Hi. apply in_app_or in Hq. apply in_or_app.
      destruct Hq as [Hq|Hq]; [left; exact Hq|right; apply in_or_app; left; exact Hq].
    + apply (IH _ _ eq_refl).
      * intros y' Hy'. apply Hy. right. exact Hy'.
      * intros q Hq. apply Hi. apply in_app_or in Hq. apply in_or_app.
        destruct Hq as [Hq|Hq]; [left; exact Hq|right; apply in_or_app; right; exact Hq].
Qed.

Lemma walk_rel t : forall x p mp ms mb env C nodes cl,
  mod_at t p = Some {| h_ports := mp; h_sigs := ms; h_body := mb |} -> In x mb -> NoDup (map iname mb) -> wf_inst x = true ->
  env_inv t p env C -> walk_inst p mp ms env x = Ok (nodes, cl) ->
  forall C', incl (C ++ cl) C' -> Forall2 (node_rel t C') nodes (leaves_inst p x).
Proof.
  intros x. induction x as [nm dev dp c|nm ports sigs body c IHb] using hinst_ind';
    intros p mp ms mb env C nodes cl Hmod Hin ND Hwf [Henv1 Henv2] H C' Hi; cbn [walk_inst] in H.
  - destruct (new_conns p mp ms env c) as [[nc cl0]|e] eqn:En; cbn [bind] in H; [|discriminate].
    inversion H; subst; clear H. cbn [fst snd leaves_inst]. constructor; [|constructor].
    destruct (new_conns_spec _ _ _ _ _ _ _ En) as [S1 [S2 S3]].
    assert (Hinst : inst_at t p nm = Some (ILeaf nm dev dp c)).
    { unfold inst_at. rewrite Hmod. cbn [h_body]. apply (find_hinst_in mb (ILeaf nm dev dp c) ND Hin). }
    unfold node_rel. cbn [an_path an_dev an_dports an_conns lf_path lf_dev lf_ports lf_conns].
    split; [reflexivity|]. split; [reflexivity|]. split; [reflexivity|]. split.
    { apply Hi. apply in_or_app. right. apply in_or_app. right. left. reflexivity. }
    exists nm, p. split; [reflexivity|]. split; [exact Hinst|]. split; [|exact S3].
    intros port s Hs. destruct (S2 _ _ Hs) as [key [f [Ek [Hf Hor]]]]. inversion Ek; subst key.
    exists f. split; [exact Hf|].
    assert (Hst : hconn_rel t (HPort p nm port) (HSig p s)).
    { apply step_conn. cbn [hstep]. rewrite Hinst. cbn [iconns]. rewrite Hs. reflexivity. }
    destruct Hor as [He|[He [Hq Hc]]].
    + destruct (Henv1 _ _ He) as [E1 [E2 E3]]. split; [eapply c_trans; [exact Hst|exact E1]|]. split; [exact E2|].
      apply Hi. apply in_or_app. left. exact E3.
    + unfold qnode. rewrite Hq. cbn [fst snd]. split; [exact Hst|]. split; [apply Henv2; exact He|].
      unfold qn. cbn [fst snd]. apply Hi. apply in_or_app. right. apply in_or_app. left. exact Hc.
  - destruct (new_conns p mp ms env c) as [[nc cl0]|e] eqn:En; cbn [bind] in H; [|discriminate]. cbn [fst snd] in H.
    destruct (collect (walk_inst (nm :: p) ports sigs nc) body) as [[n2 c2]|e] eqn:Ec; cbn [bind] in H; [|discriminate].
    inversion H; subst; clear H. cbn [fst snd leaves_inst].
    destruct (new_conns_spec _ _ _ _ _ _ _ En) as [S1 [S2 S3]].
    cbn [wf_inst] in Hwf. apply andb_prop in Hwf. destruct Hwf as [Hwf Hwf3]. apply andb_prop in Hwf. destruct Hwf as [Hwf1 Hwf2].
    assert (Hinst : inst_at t p nm = Some (ISub nm ports sigs body c)).
    { unfold inst_at. rewrite Hmod. cbn [h_body]. apply (find_hinst_in mb (ISub nm ports sigs body c) ND Hin). }
    assert (Hmod' : mod_at t (nm :: p) = Some {| h_ports := ports; h_sigs := sigs; h_body := body |}).
    { rewrite mod_at_cons. unfold inst_at in Hinst. destruct (mod_at t p) as [M'|]; [|discriminate]. rewrite Hinst. reflexivity. }
    assert (Hup : forall s c0, assoc s c = Some c0 -> hstep t (HSig (nm :: p) s) = HPort p nm s).
    { intros s c0 Hs. cbn [hstep]. rewrite Hinst. unfold has_key at 2. rewrite Hs.
      rewrite forallb_forall in Hwf1. specialize (Hwf1 _ (assoc_in _ _ _ Hs)). cbn [fst] in Hwf1. rewrite Hwf1. reflexivity. }
    assert (Henv' : env_inv t (nm :: p) nc (C ++ cl0)).
    { split.
      - intros s f Hf. destruct (new_conns_some _ _ _ _ _ _ _ _ _ En Hf) as [c0 Hc0].
        destruct (S2 _ _ Hc0) as [key [f' [-> [Hf' Hor]]]]. rewrite Hf in Hf'. inversion Hf'; subst f'.
        assert (Hst : hconn_rel t (HSig (nm :: p) s) (HSig p key)).
        { eapply c_trans; [apply step_conn; apply (Hup _ _ Hc0)|]. apply step_conn. cbn [hstep]. rewrite Hinst. cbn [iconns]. rewrite Hc0. reflexivity. }
        destruct Hor as [He|[He [Hq Hc]]].
        + destruct (Henv1 _ _ He) as [E1 [E2 E3]]. split; [eapply c_trans; [exact Hst|exact E1]|]. split; [exact E2|].
          apply in_or_app. left. exact E3.
        + unfold qnode, qn. rewrite Hq. cbn [fst snd]. split; [exact Hst|]. split; [apply Henv2; exact He|].
          apply in_or_app. right. exact Hc.
      - intros s Hs. unfold fixedp. cbn [hstep]. rewrite Hinst.
        destruct (assoc s c) as [c0|] eqn:Ec0.
        + destruct (S2 _ _ Ec0) as [key [f' [_ [Hf' _]]]]. rewrite Hs in Hf'. discriminate.
        + unfold has_key at 2. rewrite Ec0. rewrite andb_false_r. reflexivity. }
    apply nodupb_NoDup in Hwf2. rewrite forallb_forall in Hwf3. rewrite Forall_forall in IHb.
    apply (collect_Forall2 (walk_inst (nm :: p) ports sigs nc) (leaves_inst (nm :: p)) (node_rel t) (C ++ cl0) body _ _ Ec).
    + intros y Hy n c1 Hy1 C'' Hi''. apply (IHb y Hy (nm :: p) ports sigs body nc (C ++ cl0) n c1 Hmod' Hy Hwf2 (Hwf3 _ Hy) Henv' Hy1 C'' Hi'').
    + intros q Hq. apply Hi. rewrite <- app_assoc in Hq. exact Hq.
Qed.

Lemma top_env_assoc s (l : list (name * Z)) (f : fsig) :
  assoc s (map (fun sw : name * Z => (fst sw, ((([] : hpath), fst sw), snd sw))) l) = Some f ->
  fst f = (([] : hpath), s) /\ In [s] (map (fun sw : name * Z => [fst sw]) l).
Proof.
  induction l as [|[k w] l IH]; cbn [map assoc fst snd]; intros H; [discriminate|].
  destruct (String.eqb s k) eqn:E.
  - apply String.eqb_eq in E. inversion H; subst. cbn. split; [reflexivity|left; reflexivity].
  - destruct (IH H) as [H1 H2]. split; [exact H1|right; exact H2].
Qed.

Lemma walk_top_rel t nodes cl : wf_hier t = true -> walk_top t = Ok (nodes, cl) ->
  Forall2 (node_rel t (top_claims t ++ cl)) nodes (leaves t).
Proof.
  intros Hwf H. unfold wf_hier in Hwf. apply andb_prop in Hwf. destruct Hwf as [W1 W2].
  apply nodupb_NoDup in W1. rewrite forallb_forall in W2. unfold walk_top in H. unfold leaves.
  apply (collect_Forall2 _ (leaves_inst []) (node_rel t) (top_claims t) (h_body t) _ _ H); [|apply incl_refl].
  intros y Hy n c Hy1 C' Hi.
  apply (walk_rel t y [] (h_ports t) (h_sigs t) (h_body t) (top_env t) (top_claims t) n c); try assumption.
  - destruct t; reflexivity.
  - apply W2. exact Hy.
  - split.
    + intros s f Hf. destruct (top_env_assoc _ _ _ Hf) as [E1 E2]. rewrite E1. unfold qnode, qn. cbn [fst snd].
      split; [apply c_refl|]. split; [reflexivity|exact E2].
    + intros s _. reflexivity.
Qed.

(* ---------- leaf paths are pairwise distinct ---------- *)
Lemma leaves_suffix : forall x p l, In l (leaves_inst p x) -> exists pre, lf_path l = pre ++ iname x :: p.
Proof.
  intros x. induction x as [nm dev dp c|nm ports sigs body c IHb] using hinst_ind'; intros p l Hl; cbn [leaves_inst] in Hl.
  - destruct Hl as [<-|[]]. exists []. reflexivity.
  - apply in_flat_map in Hl. destruct Hl as [y [Hy Hl]]. rewrite Forall_forall in IHb.
    destruct (IHb y Hy _ _ Hl) as [pre E]. exists (pre ++ [iname y]). rewrite E. cbn [iname]. rewrite <- app_assoc. reflexivity.
Qed.

Lemma NoDup_app' {A} (a b : list A) : NoDup a -> NoDup b -> (forall x, In x a -> ~ In x b) -> NoDup (a ++ b).
Proof.
  induction a as [|x a IH]; intros Ha Hb Hd; [exact Hb|]. cbn [app]. inversion Ha; subst. constructor.
  - intros Hin. apply in_app_or in Hin. destruct Hin as [Hin|Hin]; [contradiction|]. apply (Hd x (or_introl eq_refl) Hin).
  - apply IH; [assumption|assumption|]. intros y Hy. apply Hd. right. exact Hy.
Qed.

Lemma leaves_body_nodup p body : NoDup (map iname body) ->
  (forall y, In y body -> NoDup (map lf_path (leaves_inst p y))) ->
  NoDup (map lf_path (flat_map (leaves_inst p) body)).
Proof.
  induction body as [|y body IH]; intros ND Hy; cbn [flat_map map]; [constructor|].
  cbn [map] in ND. inversion ND as [|? ? Hn ND']; subst. rewrite map_app. apply NoDup_app'.
  - apply Hy. left. reflexivity.
  - apply IH; [exact ND'|]. intros z Hz. apply Hy. right. exact Hz.
  - intros q Hq1 Hq2. apply in_map_iff in Hq1. destruct Hq1 as [l1 [E1 Hl1]]. apply in_map_iff in Hq2. destruct Hq2 as [l2 [E2 Hl2]].
    apply in_flat_map in Hl2. destruct Hl2 as [z [Hz Hl2]].
    destruct (leaves_suffix _ _ _ Hl1) as [pre1 P1]. destruct (leaves_suffix _ _ _ Hl2) as [pre2 P2].
    rewrite <- E2 in E1. rewrite P1, P2 in E1. apply suffix_inj in E1. apply Hn. rewrite E1. apply in_map. exact Hz.
Qed.

Lemma leaves_inst_nodup : forall x p, wf_inst x = true -> NoDup (map lf_path (leaves_inst p x)).
Proof.
  intros x. induction x as [nm dev dp c|nm ports sigs body c IHb] using hinst_ind'; intros p Hwf; cbn [leaves_inst].
  - cbn. constructor; [intros []|constructor].
  - cbn [wf_inst] in Hwf. apply andb_prop in Hwf. destruct Hwf as [Hwf W3]. apply andb_prop in Hwf. destruct Hwf as [_ W2].
    apply nodupb_NoDup in W2. rewrite forallb_forall in W3. rewrite Forall_forall in IHb.
    apply leaves_body_nodup; [exact W2|]. intros y Hy. apply IHb; [exact Hy|apply W3; exact Hy].
Qed.

Lemma leaves_nodup t : wf_hier t = true -> NoDup (map lf_path (leaves t)).
Proof.
  intros Hwf. unfold wf_hier in Hwf. apply andb_prop in Hwf. destruct Hwf as [W1 W2].
  apply nodupb_NoDup in W1. rewrite forallb_forall in W2. unfold leaves.
  apply leaves_body_nodup; [exact W1|]. intros y Hy. apply leaves_inst_nodup. apply W2. exact Hy.
Qed.

(* ---------- the flattened module ---------- *)
Definition an_finst (an : anode) : finst :=
  {| fi_name := flat_name (an_path an); fi_dev := an_dev an; fi_dports := an_dports an;
     fi_conns := map (fun c => (fst c, fsig_name (snd c))) (an_conns an) |}.

Lemma build_insts t nodes : f_insts (build t nodes) = map an_finst nodes.
Proof. reflexivity. Qed.

Lemma flatten_inv t f : flatten t = Ok (FNew f) ->
  exists nodes cl, walk_top t = Ok (nodes, cl) /\ check_claims [] (top_claims t ++ cl) = Ok tt /\ f = build t nodes /\ is_flat t = false.
Proof.
  unfold flatten. destruct (is_flat t) eqn:Ef; [discriminate|].
  destruct (walk_top t) as [[nodes cl]|e] eqn:Ew; cbn [bind]; [|discriminate]. cbn [fst snd].
  destruct (check_claims [] (top_claims t ++ cl)) as [[]|e] eqn:Ec; cbn [bind]; [|discriminate].
  intros H. inversion H; subst. exists nodes, cl. split; [reflexivity|]. split; [exact Ec|]. split; reflexivity.
Qed.

Lemma Forall2_in_r {A B} (R : A -> B -> Prop) la lb : Forall2 R la lb -> forall b, In b lb -> exists a, In a la /\ R a b.
Proof.
  induction 1 as [|a b la lb Hab _ IH]; intros b' Hb; [destruct Hb|].
  destruct Hb as [<-|Hb]; [exists a; split; [left; reflexivity|exact Hab]|].
  destruct (IH _ Hb) as [a' [Ha' Hr]]. exists a'. split; [right; exact Ha'|exact Hr].
Qed.

Lemma Forall2_map_eq {A B C} (R : A -> B -> Prop) (g : A -> C) (h : B -> C) la lb :
  Forall2 R la lb -> (forall a b, R a b -> g a = h b) -> map g la = map h lb.
Proof. induction 1 as [|a b la lb Hab _ IH]; intros H; cbn [map]; [reflexivity|]. rewrite (H _ _ Hab), (IH H). reflexivity. Qed.

Lemma NoDup_map_inj_in {A B} (g : A -> B) l : NoDup l -> (forall x y, In x l -> In y l -> g x = g y -> x = y) -> NoDup (map g l).
Proof.
  induction l as [|x l IH]; intros ND Hinj; cbn [map]; [constructor|]. inversion ND; subst. constructor.
  - intros Hin. apply in_map_iff in Hin. destruct Hin as [y [E Hy]].
    assert (y = x) by (apply Hinj; [right; exact Hy|left; reflexivity|exact E]). subst. contradiction.
  - apply IH; [assumption|]. intros a b Ha Hb. apply Hinj; right; assumption.
Qed.

Lemma Forall2_in_l {A B} (R : A -> B -> Prop) la lb : Forall2 R la lb -> forall a, In a la -> exists b, In b lb /\ R a b.
Proof.
  induction 1 as [|a b la lb Hab _ IH]; intros a' Ha; [destruct Ha|].
  destruct Ha as [<-|Ha]; [exists b; split; [left; reflexivity|exact Hab]|].
  destruct (IH _ Ha) as [b' [Hb' Hr]]. exists b'. split; [right; exact Hb'|exact Hr].
Qed.

Section Flat.
Variable t : hmod.
Variables (nodes : list anode) (cl : list hpath).
Hypothesis Hwf : wf_hier t = true.
Hypothesis Hwalk : walk_top t = Ok (nodes, cl).
Hypothesis Hchk : check_claims [] (top_claims t ++ cl) = Ok tt.
Let C := top_claims t ++ cl.
Let F := fmod_hmod (build t nodes).

Lemma flat_names_nodup : NoDup (map (fun an => flat_name (an_path an)) nodes).
Proof.
  pose proof (walk_top_rel t nodes cl Hwf Hwalk) as R.
  rewrite <- (map_map an_path flat_name). apply NoDup_map_inj_in.
  - rewrite (Forall2_map_eq _ an_path lf_path _ _ R); [apply leaves_nodup; exact Hwf|]. intros a b [E _]. exact E.
  - intros x y Hx Hy E. apply in_map_iff in Hx. destruct Hx as [a [<- Ha]]. apply in_map_iff in Hy. destruct Hy as [b [<- Hb]].
    assert (HC : forall a0, In a0 nodes -> In (an_path a0) C).
    { intros a0 Ha0. destruct (Forall2_in_l _ _ _ R a0 Ha0) as [l [Hl Hr]].
      destruct Hr as [E1 [_ [_ [Hc _]]]]. rewrite E1. exact Hc. }
    apply (claims_injective _ Hchk); [apply HC; exact Ha|apply HC; exact Hb|exact E].
Qed.

Lemma flat_inst_at an : In an nodes -> inst_at F [] (flat_name (an_path an)) = Some (finst_hinst (an_finst an)).
Proof.
  intros Ha. unfold inst_at, mod_at. cbn [rev mod_down]. unfold F. cbn [fmod_hmod h_body]. rewrite build_insts.
  change (flat_name (an_path an)) with (iname (finst_hinst (an_finst an))).
  apply find_hinst_in.
  - rewrite !map_map. cbn [iname finst_hinst an_finst fi_name]. exact flat_names_nodup.
  - apply in_map. apply in_map. exact Ha.
Qed.

(* every terminal of the hierarchy is joined, in the hierarchy, to a fixed signal q that has been claimed, and its
   image in the flattened module is joined to the top-level signal named flat_name q *)
Lemma term_rep a : In a (terminals t) ->
  exists q : qsig, In (qn q) C /\ hconn_rel t a (qnode q) /\ fixedp t (qnode q) /\
                   hconn_rel F (tr a) (HSig [] (flat_name (qn q))).
Proof.
  intros Ha. unfold terminals in Ha. apply in_app_or in Ha. destruct Ha as [Ha|Ha].
  - apply in_map_iff in Ha. destruct Ha as [[s w] [<- Hs]]. cbn [fst]. exists ([], s). unfold qn, qnode. cbn [fst snd].
    split; [|split; [apply c_refl|split; [reflexivity|apply c_refl]]].
    unfold C. apply in_or_app. left. unfold top_claims. apply in_map_iff. exists (s, w). split; [reflexivity|].
    apply in_or_app. left. exact Hs.
  - apply in_flat_map in Ha. destruct Ha as [l [Hl Ha]].
    pose proof (walk_top_rel t nodes cl Hwf Hwalk) as R.
    destruct (Forall2_in_r _ _ _ R l Hl) as [an [Han [E1 [E2 [E3 [Hc [i [lp [Ep [Hinst [Hports Hno]]]]]]]]]]].
    unfold leaf_terms in Ha. rewrite Ep in Ha. apply in_flat_map in Ha. destruct Ha as [[port c0] [Hc0 Ha]]. cbn [fst snd] in Ha.
    destruct c0 as [s0|]; [|destruct Ha]. destruct Ha as [<-|[]].
    destruct (in_assoc _ _ _ Hc0) as [v Hv].
    destruct v as [s|]; [|exfalso; apply (Hno port); apply assoc_in; exact Hv].
    destruct (Hports _ _ Hv) as [f [Hf [Hconn [Hfix HinC]]]].
    exists (fst f). split; [exact HinC|]. split; [exact Hconn|]. split; [exact Hfix|].
    apply step_conn. cbn [tr hstep]. rewrite <- Ep, <- E1. rewrite (flat_inst_at an Han).
    cbn [iconns finst_hinst an_finst fi_conns]. rewrite !assoc_map. rewrite Hf. reflexivity.
Qed.

Lemma qnode_inj q q' : qnode q = qnode q' -> q = q'.
Proof. destruct q, q'. unfold qnode. cbn. intros H. inversion H. reflexivity. Qed.

Lemma qn_inj q q' : qn q = qn q' -> q = q'.
Proof. destruct q, q'. unfold qn. cbn. intros H. inversion H. reflexivity. Qed.

Theorem nets_preserved a b : In a (terminals t) -> In b (terminals t) ->
  (hconn_rel t a b <-> hconn_rel F (tr a) (tr b)).
Proof.
  intros Ha Hb. destruct (term_rep a Ha) as [qa [Ca [A1 [A2 A3]]]]. destruct (term_rep b Hb) as [qb [Cb [B1 [B2 B3]]]].
  split; intros H.
  - assert (qa = qb) as ->.
    { apply qnode_inj. apply (conn_fixed_eq (hstep t)); [|exact A2|exact B2].
      eapply c_trans; [apply c_sym; exact A1|]. eapply c_trans; [exact H|exact B1]. }
    eapply c_trans; [exact A3|apply c_sym; exact B3].
  - assert (qa = qb) as ->.
    { apply qn_inj. apply (claims_injective _ Hchk); [exact Ca|exact Cb|].
      assert (E : HSig [] (flat_name (qn qa)) = HSig [] (flat_name (qn qb))).
      { apply (conn_fixed_eq (hstep F)); [|reflexivity|reflexivity].
        eapply c_trans; [apply c_sym; exact A3|]. eapply c_trans; [exact H|exact B3]. }
      inversion E. reflexivity. }
    eapply c_trans; [exact A1|apply c_sym; exact B1].
Qed.

Theorem leaves_preserved :
  map (fun fi => (fi_name fi, fi_dev fi, fi_dports fi)) (f_insts (build t nodes))
  = map (fun l => (flat_name (lf_path l), lf_dev l, lf_ports l)) (leaves t)
  /\ NoDup (map fi_name (f_insts (build t nodes))).
Proof.
  pose proof (walk_top_rel t nodes cl Hwf Hwalk) as R. rewrite build_insts. split.
  - rewrite map_map. apply (Forall2_map_eq _ _ _ _ _ R).
    intros an l [E1 [E2 [E3 _]]]. cbn [an_finst fi_name fi_dev fi_dports]. rewrite E1, E2, E3. reflexivity.
  - rewrite map_map. cbn [an_finst fi_name]. exact flat_names_nodup.
Qed.
End Flat.

(* ---------- rejection ---------- *)
Lemma no_other_conns (c : list (name * hconn)) : (forall port, ~ In (port, COther) c) -> existsb other_conn c = false.
Proof.
  intros H. destruct (existsb other_conn c) eqn:E; [|reflexivity]. apply existsb_exists in E.
  destruct E as [[port x] [Hin Hx]]. unfold other_conn in Hx. cbn [snd] in Hx. destruct x; [discriminate|]. exfalso. exact (H _ Hin).
Qed.

Lemma collect_ok_each {A} (f : A -> result wout) l : forall r, collect f l = Ok r -> forall y, In y l -> exists r', f y = Ok r'.
Proof.
  induction l as [|y l IH]; intros r H z Hz; [destruct Hz|]. cbn [collect] in H.
  destruct (f y) as [r1|e] eqn:E1; cbn [bind] in H; [|discriminate].
  destruct (collect f l) as [r2|e] eqn:E2; cbn [bind] in H; [|discriminate].
  destruct Hz as [<-|Hz]; [eauto|]. apply (IH _ eq_refl _ Hz).
Qed.

Lemma walk_ok_no_other : forall x p mp ms env r, walk_inst p mp ms env x = Ok r -> has_other x = false.
Proof.
  intros x. induction x as [nm dev dp c|nm ports sigs body c IHb] using hinst_ind'; intros p mp ms env r H; cbn [walk_inst has_other] in *.
  - destruct (new_conns p mp ms env c) as [[nc cl0]|e] eqn:En; cbn [bind] in H; [|discriminate].
    destruct (new_conns_spec _ _ _ _ _ _ _ En) as [_ [_ S3]]. apply no_other_conns. exact S3.
  - destruct (new_conns p mp ms env c) as [[nc cl0]|e] eqn:En; cbn [bind] in H; [|discriminate]. cbn [fst snd] in H.
    destruct (collect (walk_inst (nm :: p) ports sigs nc) body) as [r2|e] eqn:Ec; cbn [bind] in H; [|discriminate].
    destruct (new_conns_spec _ _ _ _ _ _ _ En) as [_ [_ S3]]. rewrite (no_other_conns _ S3). cbn [orb].
    destruct (existsb has_other body) eqn:E; [|reflexivity]. apply existsb_exists in E. destruct E as [y [Hy E]].
    rewrite Forall_forall in IHb. destruct (collect_ok_each _ _ _ Ec y Hy) as [r' Hr']. rewrite (IHb y Hy _ _ _ _ _ Hr') in E. discriminate.
Qed.

Lemma flatten_rejects_other t : is_flat t = false -> existsb has_other (h_body t) = true -> exists e, flatten t = Error e.
Proof.
  intros Ef Ho. unfold flatten. rewrite Ef. destruct (walk_top t) as [r|e] eqn:Ew; cbn [bind]; [|eauto].
  exfalso. apply existsb_exists in Ho. destruct Ho as [y [Hy E]]. unfold walk_top in Ew.
  destruct (collect_ok_each _ _ _ Ew y Hy) as [r' Hr']. rewrite (walk_ok_no_other _ _ _ _ _ _ Hr') in E. discriminate.
Qed.

Lemma flatten_rejects_collision t nodes cl : is_flat t = false -> walk_top t = Ok (nodes, cl) ->
  (exists q q', In q (top_claims t ++ cl) /\ In q' (top_claims t ++ cl) /\ flat_name q = flat_name q' /\ q <> q') ->
  exists e, flatten t = Error e.
Proof.
  intros Ef Ew [q [q' [Hq [Hq' [E Hne]]]]]. unfold flatten. rewrite Ef, Ew. cbn [bind fst snd].
  destruct (check_claims [] (top_claims t ++ cl)) as [[]|e] eqn:Ec; cbn [bind]; [|eauto].
  exfalso. apply Hne. apply (claims_injective _ Ec); assumption.
Qed.

Lemma flatten_accepts t nodes cl : is_flat t = false -> walk_top t = Ok (nodes, cl) ->
  (forall q q', In q (top_claims t ++ cl) -> In q' (top_claims t ++ cl) -> flat_name q = flat_name q' -> q = q') ->
  flatten t = Ok (FNew (build t nodes)).
Proof.
  intros Ef Ew Hinj. unfold flatten. rewrite Ef, Ew. cbn [bind fst snd].
  rewrite (check_claims_complete (top_claims t ++ cl) []); [reflexivity| | |].
  - intros q Hq q' [Hq'|Hq'] E; [apply Hinj; assumption|discriminate].
  - intros k q X; discriminate.
  - intros k q X; discriminate.
Qed.

Lemma flatten_same t : flatten t = Ok FSame <-> is_flat t = true.
Proof.
  unfold flatten. destruct (is_flat t); split; intros H; try reflexivity; try discriminate.
  destruct (walk_top t) as [r|e]; cbn [bind] in H; [|discriminate].
  destruct (check_claims [] (top_claims t ++ snd r)) as [u|e]; cbn [bind] in H; discriminate.
Qed.

(* ---------- bits: a whole-signal connection relates bit k to bit k ---------- *)
Lemma conn_bits {A} (f : A -> A) (x y : A) (k k' : Z) :
  conn (A * Z) (fun nk => (f (fst nk), snd nk)) (x, k) (y, k') <-> conn A f x y /\ k = k'.
Proof.
  split.
  - intros H. remember (x, k) as a eqn:Ea. remember (y, k') as b eqn:Eb.
    assert (G : conn A f (fst a) (fst b) /\ snd a = snd b).
    { clear Ea Eb. induction H as [a|a|a b _ IH|a b c _ IH1 _ IH2].
      - split; [apply c_refl|reflexivity].
      - cbn [fst snd]. split; [apply c_step|reflexivity].
      - destruct IH. split; [apply c_sym; assumption|congruence].
      - destruct IH1, IH2. split; [eapply c_trans; eassumption|congruence]. }
    subst a b. exact G.
  - intros [H <-]. induction H as [a|a|a b _ IH|a b c _ IH1 _ IH2].
    + apply c_refl.
    + apply (c_step (A * Z) (fun nk => (f (fst nk), snd nk)) (a, k)).
    + apply c_sym. exact IH.
    + eapply c_trans; eassumption.
Qed.

(* ---------- walk succeeds on every hierarchy whose connections are whole, declared signals ---------- *)
Lemma new_conns_total p mp ms env : forall conns, forallb (conn_declared mp ms) conns = true ->
  exists r, new_conns p mp ms env conns = Ok r.
Proof.
  induction conns as [|[port c] rest IH]; intros H; cbn [new_conns]; [eauto|].
  cbn [forallb] in H. apply andb_prop in H. destruct H as [H1 H2]. unfold conn_declared in H1. cbn [snd] in H1.
  destruct c as [key|]; [|discriminate]. destruct (IH H2) as [rs Hrs]. rewrite Hrs.
  destruct (assoc key env) as [f|]; [cbn [bind]; eauto|].
  unfold has_key in H1. destruct (assoc key ms) as [w|]; [cbn [bind]; eauto|].
  destruct (assoc key mp) as [w|]; [cbn [bind]; eauto|discriminate].
Qed.

Lemma collect_total {A} (f : A -> result wout) l : (forall y, In y l -> exists r, f y = Ok r) -> exists r, collect f l = Ok r.
Proof.
  induction l as [|y l IH]; intros H; cbn [collect]; [eauto|].
  destruct (H y (or_introl eq_refl)) as [r1 E1]. rewrite E1. cbn [bind].
  destruct IH as [r2 E2]; [intros z Hz; apply H; right; exact Hz|]. rewrite E2. cbn [bind]. eauto.
Qed.

Lemma walk_inst_total : forall x p mp ms env, sup_inst mp ms x = true -> exists r, walk_inst p mp ms env x = Ok r.
Proof.
  intros x. induction x as [nm dev dp c|nm ports sigs body c IHb] using hinst_ind'; intros p mp ms env H; cbn [walk_inst sup_inst] in *.
  - destruct (new_conns_total p mp ms env c H) as [r Hr]. rewrite Hr. cbn [bind]. eauto.
  - apply andb_prop in H. destruct H as [H1 H2]. destruct (new_conns_total p mp ms env c H1) as [r Hr]. rewrite Hr. cbn [bind].
    rewrite forallb_forall in H2. rewrite Forall_forall in IHb.
    destruct (collect_total (walk_inst (nm :: p) ports sigs (fst r)) body) as [r2 E2].
    { intros y Hy. apply IHb; [exact Hy|apply H2; exact Hy]. }
    rewrite E2. cbn [bind]. eauto.
Qed.

Lemma walk_top_total t : supported t = true -> exists r, walk_top t = Ok r.
Proof.
  intros H. unfold supported in H. rewrite forallb_forall in H. unfold walk_top. apply collect_total.
  intros y Hy. apply walk_inst_total. apply H. exact Hy.
Qed.


(* ---------- the algorithm WITHOUT the claim registry (the pinned code) does not preserve nets ---------- *)
Definition flatten_unchecked (t : hmod) : result fmod := r <- walk_top t ;; Ok (build t (fst r)).

Definition bad_t : hmod :=
  {| h_ports := [("p", 1)]; h_sigs := [("l:x", 1)];
     h_body := [ISub "l" [("a", 1)] [("x", 1)]
                  [ILeaf "r" "R" [("p", 1); ("n", 1)] [("p", CSig "a"); ("n", CSig "x")]] [("a", CSig "p")];
                ILeaf "r2" "R" [("p", 1); ("n", 1)] [("p", CSig "l:x"); ("n", CSig "p")]] |}.

Lemma unchecked_refuted :
  exists t f a b, wf_hier t = true /\ flatten_unchecked t = Ok f /\ In a (terminals t) /\ In b (terminals t) /\
                  ~ conn hnode (hstep t) a b /\ conn hnode (hstep (fmod_hmod f)) (tr a) (tr b).
Proof.
  exists bad_t. eexists. exists (HPort ["l"] "r" "n"), (HPort [] "r2" "p").
  split; [reflexivity|]. split; [vm_compute; reflexivity|]. split; [cbn; tauto|]. split; [cbn; tauto|]. split.
  - intros H.
    assert (E : HSig ["l"] "x" = HSig [] "l:x").
    { apply (conn_fixed_eq (hstep bad_t)); [|reflexivity|reflexivity].
      eapply c_trans; [apply c_sym; apply (c_step hnode (hstep bad_t) (HPort ["l"] "r" "n"))|].
      eapply c_trans; [exact H|]. apply (c_step hnode (hstep bad_t) (HPort [] "r2" "p")). }
    discriminate E.
  - apply conn_meet. exists 1%nat, 1%nat. reflexivity.
Qed.
