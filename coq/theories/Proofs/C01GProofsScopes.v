(* Proofs/C01GProofsScopes.v — what BundleFlattener's naming (Model/C01GBundlePasses.v:mscopes = BundleFlat.flatten_module) gives,
   read by path: every bundle instance of the module has a scope that lists exactly the member paths of its definition tree,
   in order, with the members' widths (from BundleProofs.replace_bundle_inst_spec); hence the flattened signals of the model
   are the lowered members of Spec/C01GLower.v under the naming fl_impl. *)
From Coq Require Import String.
Require Import Hdl21.Base.PyInt Hdl21.Spec.PySlice Hdl21.Model.Slice Hdl21.Model.Resolve Hdl21.Base.Design
               Hdl21.Spec.Nets Hdl21.Spec.WfDesign Hdl21.Base.C01BDesign Hdl21.Spec.C01BNets Hdl21.Spec.C01BWf Hdl21.Spec.C01BLower
               Hdl21.Spec.C01GLower Hdl21.Model.C01GBundlePasses
               Hdl21.Proofs.C01BProofs Hdl21.Proofs.C01BLowerProofs Hdl21.Proofs.C01EProofsBase.
Require Hdl21.Spec.BundleSpec Hdl21.Model.BundleFlat Hdl21.Proofs.BundleProofs.
Open Scope Z_scope.

Definition scope_for (t : btree) (sc : BundleSpec.scope) : Prop :=
  map fst sc = BundleSpec.paths t /\ forall p f, In (p, f) sc -> member_width t p = Some (BundleSpec.fwidth f).

Definition scoped (pt : bool * btree) (bs : string * BundleSpec.scope) : Prop :=
  fst bs = BundleSpec.bname (snd pt) /\ scope_for (snd pt) (snd bs).

Lemma flatten_insts_spec mx l : forall ns out ns', (forall pt, In pt l -> BundleSpec.wf_tree (snd pt) = true) ->
  BundleFlat.flatten_insts mx l ns = Ok (out, ns') -> Forall2 scoped l out.
Proof.
  induction l as [|[port t] rest IH]; intros ns out ns' W H; cbn [BundleFlat.flatten_insts] in H.
  - inversion H. constructor.
  - destruct (BundleFlat.replace_bundle_inst mx port t (BundleFlat.remove_name (BundleSpec.bname t) ns)) as [[sc ns1]|] eqn:E; cbn [bind] in H; [|discriminate].
    destruct (BundleFlat.flatten_insts mx rest ns1) as [[out1 ns2]|] eqn:E2; cbn [bind] in H; [|discriminate].
    inversion H; subst. constructor; [|eapply IH; [intros pt Hpt; apply W; right; exact Hpt|exact E2]].
    assert (Wt : BundleSpec.wf_tree t = true) by (apply (W (port, t)); left; reflexivity).
    destruct (BundleProofs.replace_bundle_inst_spec _ _ _ _ _ _ Wt E) as [Hfst [_ [_ [_ Hall]]]].
    split; [reflexivity|]. split; [exact Hfst|]. cbn [snd]. intros p f Hin.
    destruct (Hall p f Hin) as [r [l [k [Hw [Hwd _]]]]]. unfold member_width. rewrite Hw, Hwd. reflexivity.
Qed.

Lemma mscopes_spec m own : (forall pt, In pt (bm_bundles m) -> BundleSpec.wf_tree (snd pt) = true) ->
  mscopes m = Ok own -> Forall2 scoped (rev (bm_bundles m)) own.
Proof.
  intros W H. unfold mscopes, BundleFlat.flatten_module in H. apply bind_ok in H. destruct H as [[out ns'] [H1 H2]].
  inversion H2; subst. cbn [fst]. eapply flatten_insts_spec; [|exact H1]. intros pt Hpt. apply W. apply in_rev. exact Hpt.
Qed.

Lemma scoped_assoc l (out : list (string * BundleSpec.scope)) : Forall2 scoped l out -> NoDup (map (fun pt : bool * btree => BundleSpec.bname (snd pt)) l) ->
  forall pt, In pt l -> exists sc : BundleSpec.scope, assoc (BundleSpec.bname (snd pt)) out = Some sc /\ scope_for (snd pt) sc.
Proof.
  induction 1 as [|pt0 [b0 sc0] l out [Hb Hs] F IH]; intros ND pt Hin; [destruct Hin|].
  cbn [map] in ND. inversion ND as [|? ? Hx ND']; subst. cbn [fst snd] in *. subst b0. cbn [assoc].
  destruct Hin as [->|Hin]; [rewrite String.eqb_refl; eauto|].
  destruct (String.eqb (BundleSpec.bname (snd pt)) (BundleSpec.bname (snd pt0))) eqn:E; [|apply IH; assumption].
  apply String.eqb_eq in E. exfalso. apply Hx. rewrite <- E. apply (in_map (fun pt : bool * btree => BundleSpec.bname (snd pt))). exact Hin.
Qed.

Lemma scoped_assoc_inv l (out : list (string * BundleSpec.scope)) : Forall2 scoped l out -> forall b (sc : BundleSpec.scope), assoc b out = Some sc ->
  exists pt, In pt l /\ BundleSpec.bname (snd pt) = b /\ scope_for (snd pt) sc.
Proof.
  induction 1 as [|pt0 [b0 sc0] l out [Hb Hs] F IH]; intros b sc H; [discriminate|]. cbn [fst snd] in *. subst b0. cbn [assoc] in H.
  destruct (String.eqb b (BundleSpec.bname (snd pt0))) eqn:E.
  - apply String.eqb_eq in E. inversion H; subst. exists pt0. split; [left; reflexivity|]. auto.
  - destruct (IH b sc H) as [pt [Hin R]]. exists pt. split; [right; exact Hin|exact R].
Qed.

Lemma scoped_keys l (out : list (string * BundleSpec.scope)) : Forall2 scoped l out ->
  map fst out = map (fun pt : bool * btree => BundleSpec.bname (snd pt)) l.
Proof. induction 1 as [|pt bs l out [Hb _] F IH]; [reflexivity|]. cbn [map]. rewrite Hb, IH. reflexivity. Qed.

(* ---- one scope ---- *)
Lemma scope_for_passoc t sc q f : BundleSpec.wf_tree t = true -> scope_for t sc -> In (q, f) sc -> BundleSpec.passoc q sc = Some f.
Proof.
  intros W [Hp _] Hin. apply BundleProofs.passoc_NoDup; [|exact Hin]. rewrite Hp. apply BundleProofs.paths_NoDup. exact W.
Qed.

Lemma scope_for_nonempty t sc q f : scope_for t sc -> In (q, f) sc -> q <> [].
Proof.
  intros [Hp _] Hin. apply (BundleProofs.paths_nonempty t). rewrite <- Hp. apply (in_map fst) in Hin. exact Hin.
Qed.

Lemma scope_for_passoc_in t sc q f : scope_for t sc -> BundleSpec.passoc q sc = Some f -> q <> [].
Proof. intros S H. apply BundleProofs.passoc_In in H. eapply scope_for_nonempty; eauto. Qed.

Lemma scope_for_members t sc : scope_for t sc ->
  tree_members t = map (fun e : mpath * BundleSpec.fsig => (fst e, BundleSpec.fwidth (snd e))) sc.
Proof.
  intros [Hp Hw]. unfold tree_members. rewrite <- Hp. clear Hp. induction sc as [|[q f] sc IH]; [reflexivity|].
  cbn [map concat fst snd]. rewrite (Hw q f) by (left; reflexivity). cbn [app]. f_equal. apply IH.
  intros p g Hin. apply Hw. right. exact Hin.
Qed.

(* ---- the naming ---- *)
Lemma scope_name_at (own : list (string * BundleSpec.scope)) b (sc : BundleSpec.scope) q f : assoc b own = Some sc -> BundleSpec.passoc q sc = Some f -> scope_name own b q = BundleSpec.fname f.
Proof. intros H1 H2. unfold scope_name. rewrite H1, H2. reflexivity. Qed.

Lemma fl_impl_at m own : mscopes m = Ok own -> fl_impl m = scope_name own.
Proof. intros H. unfold fl_impl. rewrite H. reflexivity. Qed.

(* the flattened signals of one scope are the lowered members of its tree *)
Lemma scope_sigs_lower (own : list (string * BundleSpec.scope)) t (sc : BundleSpec.scope) : BundleSpec.wf_tree t = true -> scope_for t sc -> assoc (BundleSpec.bname t) own = Some sc ->
  scope_sigs sc = map (fun x : sitem => (skey (scope_name own) x, snd x))
                      (map (fun qw : mpath * Z => (BundleSpec.bname t, fst qw, snd qw)) (tree_members t)).
Proof.
  intros W S Ha. rewrite (scope_for_members t sc S), !map_map. unfold scope_sigs. apply map_ext_in. intros [q f] Hin.
  cbn [fst snd skey]. f_equal. pose proof (scope_for_nonempty _ _ _ _ S Hin) as Hq. destruct q as [|x q]; [exfalso; apply Hq; reflexivity|]. cbn [lname].
  symmetry. apply (scope_name_at own _ sc); [exact Ha|]. eapply scope_for_passoc; eauto.
Qed.

Section Module.
Variable m : bmodule.
Variable own : list (string * BundleSpec.scope).
Hypothesis Hown : mscopes m = Ok own.
Hypothesis W : forall pt, In pt (bm_bundles m) -> BundleSpec.wf_tree (snd pt) = true.
Hypothesis ND : NoDup (map (fun pt : bool * btree => BundleSpec.bname (snd pt)) (bm_bundles m)).

Lemma ND_rev : NoDup (map (fun pt : bool * btree => BundleSpec.bname (snd pt)) (rev (bm_bundles m))).
Proof. rewrite map_rev. apply NoDup_rev. exact ND. Qed.

Lemma own_scope pt : In pt (bm_bundles m) -> exists sc : BundleSpec.scope, assoc (BundleSpec.bname (snd pt)) own = Some sc /\ scope_for (snd pt) sc.
Proof. intros Hin. apply (scoped_assoc _ _ (mscopes_spec m own W Hown) ND_rev). apply in_rev in Hin. exact Hin. Qed.

Lemma own_scope_inv b (sc : BundleSpec.scope) : assoc b own = Some sc ->
  exists pt, In pt (bm_bundles m) /\ BundleSpec.bname (snd pt) = b /\ scope_for (snd pt) sc.
Proof.
  intros H. destruct (scoped_assoc_inv _ _ (mscopes_spec m own W Hown) b sc H) as [pt [Hin R]]. exists pt. split; [|exact R].
  apply in_rev. exact Hin.
Qed.

Lemma own_find b bt (sc : BundleSpec.scope) : find_bundle (bm_bundles m) b = Some bt -> assoc b own = Some sc -> scope_for (snd bt) sc /\ BundleSpec.wf_tree (snd bt) = true.
Proof.
  intros Hf Ha. destruct (find_bundle_In _ _ _ Hf) as [Hin Hn]. destruct (own_scope bt Hin) as [sc' [Ha' S]]. rewrite Hn, Ha in Ha'.
  inversion Ha'; subst. split; [exact S|apply W; exact Hin].
Qed.

Lemma own_keys : map fst own = map (fun pt : bool * btree => BundleSpec.bname (snd pt)) (rev (bm_bundles m)).
Proof.
  apply scoped_keys. apply mscopes_spec; assumption.
Qed.

Lemma own_at b (sc : BundleSpec.scope) : In (b, sc) own -> assoc b own = Some sc.
Proof.
  intros Hin. pose proof ND_rev as N. rewrite <- own_keys in N.
  apply (assoc_map_key_in (fun bs : string * BundleSpec.scope => fst bs) (fun bs => snd bs) own (b, sc)) in Hin; [|exact N].
  cbn [fst snd] in Hin. rewrite <- Hin. f_equal. clear. induction own as [|[k v] l IH]; [reflexivity|]. cbn [map fst snd]. rewrite <- IH. reflexivity.
Qed.

(* the flattened signals of the module, as Spec/C01GLower.v lists them *)
Lemma flat_sigs_lower port : flat_sigs port m own = lower_sigs (scope_name own) (bundle_members port (rev (bm_bundles m))).
Proof.
  unfold flat_sigs, lower_sigs, bundle_members.
  pose proof (mscopes_spec m own W Hown) as F.
  assert (Hall : forall pt, In pt (rev (bm_bundles m)) -> In pt (bm_bundles m)) by (intros pt Hpt; apply in_rev; exact Hpt).
  assert (Hat : forall bs, In bs own -> assoc (fst bs) own = Some (snd bs)) by (intros [b sc] Hbs; apply own_at; exact Hbs).
  revert F Hall Hat. generalize (rev (bm_bundles m)) as l. generalize own at 1 2 4 as out.
  intros out l F. induction F as [|pt [b sc] l out [Hb S] F IH]; intros Hall Hat; [reflexivity|].
  cbn [flat_map map concat fst snd] in *. subst b. rewrite map_app.
  rewrite IH by (try (intros pt' H'; apply Hall; right; exact H'); intros bs' H'; apply Hat; right; exact H'). f_equal.
  assert (Hin : In pt (bm_bundles m)) by (apply Hall; left; reflexivity).
  rewrite (find_bundle_nodup _ pt ND Hin). destruct pt as [p t]. cbn [fst snd] in *.
  destruct (Bool.eqb p port); [|reflexivity].
  apply scope_sigs_lower; [apply (W (p, t)); exact Hin|exact S|]. apply (Hat (BundleSpec.bname t, sc)). left. reflexivity.
Qed.
End Module.
