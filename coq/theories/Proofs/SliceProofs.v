Require Import Hdl21.Base.PyInt Hdl21.Spec.PySlice Hdl21.Model.Slice.

Lemma py_len_pos_exact lo n st : 0 < st -> 1 <= n -> py_len lo (lo + (n - 1) * st + 1) st = n.
Proof.
  intros Hs Hn. unfold py_len. destruct (0 <? st) eqn:E; [|lia].
  destruct (lo <? lo + (n - 1) * st + 1) eqn:E2; [|nia].
  replace (lo + (n - 1) * st + 1 - lo - 1) with ((n - 1) * st) by lia.
  rewrite Z.div_mul by lia. lia.
Qed.

Lemma py_len_neg_exact lo n st : st < 0 -> 1 <= n -> py_len lo (lo + (n - 1) * st - 1) st = n.
Proof.
  intros Hs Hn. unfold py_len. destruct (0 <? st) eqn:E; [lia|].
  destruct (lo + (n - 1) * st - 1 <? lo) eqn:E2; [|nia].
  replace (lo - (lo + (n - 1) * st - 1) - 1) with ((n - 1) * (- st)) by lia.
  rewrite Z.div_mul by lia. lia.
Qed.

Lemma iota_nonempty n a st : (0 < n)%nat -> iota n a st <> [].
Proof. destruct n; simpl; [lia|discriminate]. Qed.

(* The model of _slice_inner agrees with the specification `sel` on acceptance, on the selected
   positions (in order), and reports as width the number of selected positions. *)
Lemma slice_inner_sel w ix : 0 <= w ->
  match slice_inner w ix with
  | Ok r => sel w ix = Ok (inner_bits r) /\ width r = zlen (inner_bits r) /\ 1 <= width r
  | Error _ => exists e, sel w ix = Error e
  end.
Proof.
  intros Hw. destruct ix as [i|a b os]; unfold slice_inner, sel.
  - destruct ((w <=? i) || (i <? - w)) eqn:E.
    + assert ((- w <=? i) && (i <? w) = false) as -> by lia. eauto.
    + assert ((- w <=? i) && (i <? w) = true) as -> by lia.
      unfold inner_bits, py_range; cbn [top bot step width].
      change (0 <? 1) with true. cbv iota.
      set (i' := if i <? 0 then i + w else i).
      assert (Hi : i' = i mod w).
      { subst i'. destruct (i <? 0) eqn:E1.
        - apply Z.mod_unique with (q := -1); lia.
        - symmetry. apply Z.mod_small; lia. }
      pose proof (py_len_pos_exact i' 1 1 ltac:(lia) ltac:(lia)) as Hl.
      replace (i' + (1 - 1) * 1 + 1) with (i' + 1) in Hl by lia. rewrite Hl.
      simpl. rewrite Hi. unfold zlen; simpl. repeat split; lia.
  - destruct (step_of os =? 0) eqn:E0; [eauto|].
    unfold py_indices. destruct (py_start_stop w a b (step_of os)) as [lo hi] eqn:Ess.
    set (st := step_of os) in *. set (n := py_len lo hi st).
    destruct (n <? 1) eqn:En.
    + assert (Z.to_nat n = 0%nat) as -> by lia. simpl. eauto.
    + assert (Hn : 1 <= n) by lia.
      assert (Hne : iota (Z.to_nat n) lo st <> []) by (apply iota_nonempty; lia).
      destruct (0 <? st) eqn:Es; unfold inner_bits, py_range; cbn [top bot step width]; rewrite Es.
      * rewrite py_len_pos_exact by lia.
        destruct (iota (Z.to_nat n) lo st) eqn:El; [congruence|]. rewrite <- El.
        unfold zlen. rewrite iota_length. repeat split; lia.
      * replace (lo + 1 - 1) with lo by lia.
        rewrite py_len_neg_exact by lia.
        destruct (iota (Z.to_nat n) lo st) eqn:El; [congruence|]. rewrite <- El.
        unfold zlen. rewrite iota_length. repeat split; lia.
Qed.

Lemma inner_bits_in_range w ix r y : 0 <= w -> slice_inner w ix = Ok r -> In y (inner_bits r) -> 0 <= y < w.
Proof.
  intros Hw H. pose proof (slice_inner_sel w ix Hw) as S. rewrite H in S. destruct S as [S _].
  eapply sel_in_range; eauto.
Qed.
