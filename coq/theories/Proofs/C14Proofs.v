(* Proofs/C14Proofs.v — lemmas about Model/Prefixed.v (the model of the REPAIRED hdl21/prefix.py).
   `vat e p` is the exact value of the prefixed number p as an integer multiple of 10^e; it is meaningful for
   every e <= pexp p (the exponent of the value).  All exactness statements are integer identities between such
   scaled values; no rationals, no rounding. *)
Require Import Hdl21.Base.PyInt Hdl21.Base.Dec Hdl21.Model.Prefixed Hdl21Gen.PrefixTable.
Open Scope Z_scope.

(* ------------------------------------------------------------------ the generated table *)
Lemma prefix_values_cons : exists v r, prefix_values = v :: r.
Proof. eexists. eexists. vm_compute. reflexivity. Qed.

Lemma unit_prefix_ok : unit_prefix = Ok 0.
Proof. vm_compute. reflexivity. Qed.

Lemma unit_is_prefix : is_prefix 0 = true.
Proof. vm_compute. reflexivity. Qed.

Lemma is_prefix_In q : is_prefix q = true <-> In q prefix_values.
Proof.
  unfold is_prefix. rewrite existsb_exists. split.
  - intros [x [Hx E]]. apply Z.eqb_eq in E. subst. exact Hx.
  - intros H. exists q. split; [exact H|apply Z.eqb_refl].
Qed.

(* ------------------------------------------------------------------ values *)
Lemma pexp_pval p : dexp (pval p) = pexp p.
Proof. reflexivity. Qed.

Lemma vat_number e p : vat e p = at_ (e - prefix p) (number p).
Proof.
  unfold vat, pval. rewrite <- (dscaleb_exact (e - prefix p) (number p) (prefix p)). f_equal. lia.
Qed.

Lemma vat_shift e' e p : e' <= e -> e <= pexp p -> vat e' p = vat e p * 10 ^ (e - e').
Proof. intros H1 H2. unfold vat. apply at_shift; [exact H1|rewrite pexp_pval; exact H2]. Qed.

(* ------------------------------------------------------------------ scale(prefix) *)
Lemma prefix_pscale p q : prefix (pscale p q) = q.
Proof. reflexivity. Qed.

Lemma pexp_pscale p q : pexp (pscale p q) = dexp (number p) + Z.min (prefix p - q) 0 + q.
Proof. unfold pexp, pscale; cbn [number prefix]. rewrite dexp_dscale10. reflexivity. Qed.

Lemma pexp_pscale_le p q : pexp (pscale p q) <= pexp p.
Proof. rewrite pexp_pscale. unfold pexp. lia. Qed.

Lemma pscale_vat e p q : e <= pexp (pscale p q) -> vat e (pscale p q) = vat e p.
Proof.
  intros H. rewrite pexp_pscale in H. rewrite !vat_number. unfold pscale; cbn [number prefix].
  rewrite dscale10_exact by lia. f_equal. lia.
Qed.

(* the number of p at prefix q, as a scaled integer *)
Lemma pscale_number_at e p q : e + q <= pexp (pscale p q) -> at_ e (number (pscale p q)) = vat (e + q) p.
Proof.
  intros H. rewrite <- (pscale_vat (e + q) p q H). rewrite vat_number. rewrite prefix_pscale. f_equal. lia.
Qed.

(* ------------------------------------------------------------------ closest prefix: a member of the table *)
Lemma fold_pick_in (f : Z -> Z -> Z) : (forall b x, f b x = b \/ f b x = x) ->
  forall r v, In (fold_left f r v) (v :: r).
Proof.
  intros Hf. induction r as [|x r IH]; intros v; cbn [fold_left].
  - left. reflexivity.
  - destruct (IH (f v x)) as [E|I].
    + destruct (Hf v x) as [E'|E']; [left|right; left]; rewrite <- E; symmetry; exact E'.
    + right. right. exact I.
Qed.

Lemma closer_log_pick c2 k b x : closer_log c2 k b x = b \/ closer_log c2 k b x = x.
Proof.
  unfold closer_log. destruct (b <? x); [destruct (sq_cmp c2 k (x + b)); auto|].
  destruct (x <? b); [destruct (sq_cmp c2 k (x + b)); auto|auto].
Qed.

Lemma closer_int_pick t b x : closer_int t b x = b \/ closer_int t b x = x.
Proof. unfold closer_int. destruct (_ <? _); auto. Qed.

Lemma closest_log_member p : exists q, closest_log p = Ok q /\ is_prefix q = true.
Proof.
  destruct prefix_values_cons as [v [r E]].
  assert (forall q, In q (v :: r) -> is_prefix q = true) as M.
  { intros q Hq. apply is_prefix_In. rewrite E. exact Hq. }
  unfold closest_log. rewrite E. destruct (Z.abs (dint (number p)) =? 0).
  - exists v. split; [reflexivity|apply M; left; reflexivity].
  - eexists. split; [reflexivity|]. apply M. apply fold_pick_in. apply closer_log_pick.
Qed.

Lemma closest_int_member t : exists q, closest_int t = Ok q /\ is_prefix q = true.
Proof.
  destruct prefix_values_cons as [v [r E]].
  assert (forall q, In q (v :: r) -> is_prefix q = true) as M.
  { intros q Hq. apply is_prefix_In. rewrite E. exact Hq. }
  unfold closest_int. rewrite E. eexists. split; [reflexivity|]. apply M. apply fold_pick_in. apply closer_int_pick.
Qed.

(* scale(): never raises, lands on a member of Prefix, is scale(that member) *)
Lemma pscale_auto_spec p : exists q, is_prefix q = true /\ pscale_auto p = Ok (pscale p q).
Proof.
  destruct (closest_log_member p) as [q [E M]]. exists q. split; [exact M|].
  unfold pscale_auto. rewrite E. reflexivity.
Qed.

Lemma pscale_auto_inv p r : pscale_auto p = Ok r -> exists q, is_prefix q = true /\ r = pscale p q.
Proof.
  intros H. destruct (pscale_auto_spec p) as [q [M E]]. rewrite E in H. inversion H. exists q. split; [exact M|reflexivity].
Qed.

Lemma pscale_auto_vat e p r : pscale_auto p = Ok r -> e <= pexp r -> vat e r = vat e p.
Proof. intros H He. destruct (pscale_auto_inv p r H) as [q [_ ->]]. apply pscale_vat. exact He. Qed.

Lemma pscale_auto_pexp p r : pscale_auto p = Ok r -> pexp r <= pexp p.
Proof. intros H. destruct (pscale_auto_inv p r H) as [q [_ ->]]. apply pexp_pscale_le. Qed.

Lemma pscale_auto_wf p r : pscale_auto p = Ok r -> pwf r = true.
Proof. intros H. destruct (pscale_auto_inv p r H) as [q [M ->]]. exact M. Qed.

(* ------------------------------------------------------------------ _add / _subtract *)
Lemma smaller_prefix_min a b : smaller_prefix a b = Z.min (prefix a) (prefix b).
Proof. unfold smaller_prefix. destruct (prefix a <? prefix b) eqn:E; lia. Qed.

Lemma pexp_padd_raw a b : pexp (padd_raw a b) <= pexp a /\ pexp (padd_raw a b) <= pexp b.
Proof.
  unfold padd_raw. destruct (prefix a =? prefix b) eqn:E.
  - unfold pexp; cbn [number prefix]. rewrite dexp_dadd. unfold dmin. lia.
  - pose proof (pexp_pscale_le a (smaller_prefix a b)) as Ha. pose proof (pexp_pscale_le b (smaller_prefix a b)) as Hb.
    unfold pexp in *; rewrite prefix_pscale in Ha, Hb; cbn [number prefix]. rewrite dexp_dadd. unfold dmin. lia.
Qed.

Lemma pexp_psub_raw a b : pexp (psub_raw a b) <= pexp a /\ pexp (psub_raw a b) <= pexp b.
Proof.
  unfold psub_raw. destruct (prefix a =? prefix b) eqn:E.
  - unfold pexp; cbn [number prefix]. rewrite dexp_dsub. unfold dmin. lia.
  - pose proof (pexp_pscale_le a (smaller_prefix a b)) as Ha. pose proof (pexp_pscale_le b (smaller_prefix a b)) as Hb.
    unfold pexp in *; rewrite prefix_pscale in Ha, Hb; cbn [number prefix]. rewrite dexp_dsub. unfold dmin. lia.
Qed.

Lemma padd_raw_vat e a b : e <= pexp (padd_raw a b) -> vat e (padd_raw a b) = vat e a + vat e b.
Proof.
  unfold padd_raw. destruct (prefix a =? prefix b) eqn:E; intros H.
  - unfold pexp in H; cbn [number prefix] in H. rewrite dexp_dadd in H. unfold dmin in H.
    rewrite !vat_number. cbn [number prefix]. assert (prefix b = prefix a) as -> by lia.
    apply dadd_exact; lia.
  - set (s := smaller_prefix a b) in *.
    unfold pexp in H; cbn [number prefix] in H. rewrite dexp_dadd in H. unfold dmin in H.
    rewrite (vat_number e (mkP _ _)). cbn [number prefix].
    rewrite dadd_exact by lia.
    rewrite !pscale_number_at by (unfold pexp; rewrite prefix_pscale; lia).
    replace (e - s + s) with e by lia. reflexivity.
Qed.

Lemma psub_raw_vat e a b : e <= pexp (psub_raw a b) -> vat e (psub_raw a b) = vat e a - vat e b.
Proof.
  unfold psub_raw. destruct (prefix a =? prefix b) eqn:E; intros H.
  - unfold pexp in H; cbn [number prefix] in H. rewrite dexp_dsub in H. unfold dmin in H.
    rewrite !vat_number. cbn [number prefix]. assert (prefix b = prefix a) as -> by lia.
    apply dsub_exact; lia.
  - set (s := smaller_prefix a b) in *.
    unfold pexp in H; cbn [number prefix] in H. rewrite dexp_dsub in H. unfold dmin in H.
    rewrite (vat_number e (mkP _ _)). cbn [number prefix].
    rewrite dsub_exact by lia.
    rewrite !pscale_number_at by (unfold pexp; rewrite prefix_pscale; lia).
    replace (e - s + s) with e by lia. reflexivity.
Qed.

Lemma padd_exact e a b r : padd a b = Ok r -> e <= pexp r ->
  vat e r = vat e a + vat e b /\ pexp r <= pexp a /\ pexp r <= pexp b.
Proof.
  unfold padd. intros H He. pose proof (pscale_auto_pexp _ _ H) as L. destruct (pexp_padd_raw a b) as [La Lb].
  rewrite (pscale_auto_vat e _ _ H He). rewrite padd_raw_vat by lia. lia.
Qed.

Lemma psub_exact e a b r : psub a b = Ok r -> e <= pexp r ->
  vat e r = vat e a - vat e b /\ pexp r <= pexp a /\ pexp r <= pexp b.
Proof.
  unfold psub. intros H He. pose proof (pscale_auto_pexp _ _ H) as L. destruct (pexp_psub_raw a b) as [La Lb].
  rewrite (pscale_auto_vat e _ _ H He). rewrite psub_raw_vat by lia. lia.
Qed.

(* ------------------------------------------------------------------ Prefix.__rmul__ and products *)
Lemma prefix_rmul_inv p q r : prefix_rmul p q = Ok r ->
  exists sym, is_prefix sym = true /\ r = pscale (mkP (number p) (q + prefix p)) sym.
Proof.
  unfold prefix_rmul. destruct (closest_int_member (q + prefix p)) as [sym [E M]]. rewrite E. cbn [bind].
  intros H. inversion H. exists sym. split; [exact M|reflexivity].
Qed.

Lemma prefix_rmul_total p q : exists r, prefix_rmul p q = Ok r.
Proof.
  unfold prefix_rmul. destruct (closest_int_member (q + prefix p)) as [sym [E M]]. rewrite E. cbn [bind]. eauto.
Qed.

(* value (p * Prefix q) = value p * 10^q *)
Lemma prefix_rmul_vat e p q r : prefix_rmul p q = Ok r -> e <= pexp r ->
  vat e r = vat (e - q) p /\ pexp r <= pexp p + q /\ pwf r = true.
Proof.
  intros H He. destruct (prefix_rmul_inv p q r H) as [sym [M ->]]. split; [|split; [|exact M]].
  - rewrite pscale_vat by exact He. rewrite !vat_number. cbn [number prefix]. f_equal. lia.
  - pose proof (pexp_pscale_le (mkP (number p) (q + prefix p)) sym) as L. unfold pexp in *; cbn [number prefix] in *. lia.
Qed.

Lemma pmul_exact ea eb a b r : pmul a b = Ok r -> ea <= pexp a -> eb <= pexp b -> ea + eb <= pexp r ->
  vat (ea + eb) r = vat ea a * vat eb b.
Proof.
  unfold pmul. intros H Ha Hb He.
  destruct (prefix_rmul (mkP (dmul (number a) (number b)) (prefix a)) (prefix b)) as [p2|] eqn:E2; cbn [bind] in H; [|discriminate].
  pose proof (pscale_auto_pexp _ _ H) as L.
  rewrite (pscale_auto_vat _ _ _ H He).
  destruct (prefix_rmul_vat (ea + eb) _ _ _ E2 ltac:(lia)) as [V _]. rewrite V.
  rewrite !vat_number. cbn [number prefix].
  replace (ea + eb - prefix b - prefix a) with ((ea - prefix a) + (eb - prefix b)) by lia.
  apply dmul_exact; unfold pexp in *; lia.
Qed.

Lemma pmul_total a b : exists r, pmul a b = Ok r /\ pwf r = true.
Proof.
  unfold pmul. destruct (prefix_rmul_total (mkP (dmul (number a) (number b)) (prefix a)) (prefix b)) as [p2 E]. rewrite E. cbn [bind].
  destruct (pscale_auto_spec p2) as [q [M Eq]]. rewrite Eq. eexists. split; [reflexivity|exact M].
Qed.

Lemma pmul_scalar_exact ea eb a d r : pmul_scalar a d = Ok r -> ea <= pexp a -> eb <= dexp d -> ea + eb <= pexp r ->
  vat (ea + eb) r = vat ea a * at_ eb d.
Proof.
  unfold pmul_scalar. intros H Ha Hb He. rewrite (pscale_auto_vat _ _ _ H He).
  rewrite !vat_number. cbn [number prefix].
  replace (ea + eb - prefix a) with ((ea - prefix a) + eb) by lia.
  apply dmul_exact; unfold pexp in *; lia.
Qed.

(* ------------------------------------------------------------------ negation, abs *)
Lemma pneg_exact e a : vat e (pneg a) = - vat e a.
Proof. rewrite !vat_number. cbn [pneg number prefix]. apply dneg_exact. Qed.

Lemma pabs_exact e a : e <= pexp a -> vat e (pabs a) = Z.abs (vat e a).
Proof. intros H. rewrite !vat_number. cbn [pabs number prefix]. apply dabs_exact. unfold pexp in H. lia. Qed.

(* ------------------------------------------------------------------ to_prefixed *)
Lemma to_prefixed_spec d : to_prefixed d = Ok (mkP d 0).
Proof. unfold to_prefixed. rewrite unit_prefix_ok. reflexivity. Qed.

Lemma vat_unit e d : vat e (mkP d 0) = at_ e d.
Proof. rewrite vat_number. cbn [number prefix]. f_equal. lia. Qed.

(* ------------------------------------------------------------------ comparison: the key is the exact value rounded
   half-even to the grid 10^(s - EPSILON), s the smaller of the two prefixes *)
Lemma rkey_low a b e :
  let s := smaller_prefix a b in
  e <= pexp (pscale a s) -> e <= pexp (pscale b s) -> e <= s - EPSILON ->
  rkey a b = (rhe (vat e a) (10 ^ (s - EPSILON - e)), rhe (vat e b) (10 ^ (s - EPSILON - e))).
Proof.
  intros s Ha Hb Hs. unfold rkey. fold s.
  assert (forall p, e <= pexp (pscale p s) ->
            dq_int (number (pscale p s)) (- EPSILON) = rhe (vat e p) (10 ^ (s - EPSILON - e))) as K.
  { intros p Hp. rewrite (dq_int_rhe (e - s)).
    - rewrite pscale_number_at by (replace (e - s + s) with e by lia; exact Hp).
      replace (e - s + s) with e by lia. f_equal. f_equal. lia.
    - lia.
    - unfold pexp in Hp. rewrite prefix_pscale in Hp. lia. }
  rewrite (K a Ha), (K b Hb). reflexivity.
Qed.

Lemma rkey_spec a b e :
  let s := smaller_prefix a b in
  e <= pexp a -> e <= pexp b -> e <= s - EPSILON ->
  rkey a b = (rhe (vat e a) (10 ^ (s - EPSILON - e)), rhe (vat e b) (10 ^ (s - EPSILON - e))).
Proof.
  intros s Ha Hb Hs.
  set (e0 := Z.min e (Z.min (pexp (pscale a s)) (pexp (pscale b s)))).
  assert (e0 <= e) as L by (unfold e0; lia).
  pose proof (rkey_low a b e0) as K. cbv zeta in K. fold s in K.
  rewrite K by (unfold e0; lia).
  rewrite (vat_shift e0 e a L Ha), (vat_shift e0 e b L Hb).
  replace (s - EPSILON - e0) with ((s - EPSILON - e) + (e - e0)) by lia.
  rewrite p10_add by lia.
  pose proof (p10_pos' (s - EPSILON - e) ltac:(lia)) as P1. pose proof (p10_pos' (e - e0) ltac:(lia)) as P2.
  rewrite !rhe_scale by assumption. reflexivity.
Qed.

Lemma pcmp_key o a b : pcmp o a b = int_op o (fst (rkey a b)) (snd (rkey a b)).
Proof. unfold pcmp. destruct (rkey a b). reflexivity. Qed.

Lemma rkey_swap a b : rkey b a = (snd (rkey a b), fst (rkey a b)).
Proof.
  unfold rkey. rewrite (smaller_prefix_min b a), (smaller_prefix_min a b), Z.min_comm. reflexivity.
Qed.

(* a common exponent always exists *)
Definition cmp_exp (a b : pfx) : Z := Z.min (Z.min (pexp a) (pexp b)) (smaller_prefix a b - EPSILON).

(* the order of the keys never contradicts the order of the exact values *)
Lemma pcmp_le_of_le a b e : e <= pexp a -> e <= pexp b -> vat e a <= vat e b -> pcmp OLe a b = true.
Proof.
  intros Ha Hb H. set (e0 := Z.min e (cmp_exp a b)).
  assert (vat e0 a <= vat e0 b) as H0.
  { rewrite (vat_shift e0 e a), (vat_shift e0 e b) by (unfold e0; lia).
    pose proof (p10_pos' (e - e0) ltac:(unfold e0; lia)). nia. }
  rewrite pcmp_key. rewrite (rkey_spec a b e0) by (unfold e0, cmp_exp; lia). cbn [fst snd int_op].
  apply Z.leb_le. apply rhe_mono; [apply p10_pos'; unfold e0, cmp_exp; lia|exact H0].
Qed.

Lemma pcmp_eq_of_eq a b e : e <= pexp a -> e <= pexp b -> vat e a = vat e b -> pcmp OEq a b = true.
Proof.
  intros Ha Hb H. set (e0 := Z.min e (cmp_exp a b)).
  assert (vat e0 a = vat e0 b) as H0.
  { rewrite (vat_shift e0 e a), (vat_shift e0 e b) by (unfold e0; lia). rewrite H. reflexivity. }
  rewrite pcmp_key. rewrite (rkey_spec a b e0) by (unfold e0, cmp_exp; lia). cbn [fst snd int_op].
  rewrite H0. apply Z.eqb_refl.
Qed.

(* beyond the tolerance 10^(s - EPSILON) the keys are strictly ordered like the values *)
Lemma pcmp_lt_of_far a b e : e <= pexp a -> e <= pexp b -> e <= smaller_prefix a b - EPSILON ->
  vat e a + 10 ^ (smaller_prefix a b - EPSILON - e) < vat e b -> pcmp OLt a b = true.
Proof.
  intros Ha Hb Hs H. rewrite pcmp_key. rewrite (rkey_spec a b e) by assumption. cbn [fst snd int_op].
  apply Z.ltb_lt. apply rhe_gap; [apply p10_pos'; lia|exact H].
Qed.

(* ------------------------------------------------------------------ relations between the six operators *)
Lemma int_op_trichotomy x y :
  (int_op OLt x y = true /\ int_op OEq x y = false /\ int_op OGt x y = false) \/
  (int_op OLt x y = false /\ int_op OEq x y = true /\ int_op OGt x y = false) \/
  (int_op OLt x y = false /\ int_op OEq x y = false /\ int_op OGt x y = true).
Proof. cbn [int_op]. lia. Qed.

Lemma int_op_rel x y :
  int_op OLe x y = int_op OLt x y || int_op OEq x y /\
  int_op OGe x y = int_op OGt x y || int_op OEq x y /\
  int_op ONe x y = negb (int_op OEq x y) /\
  int_op OLe x y = negb (int_op OGt x y) /\
  int_op OGe x y = negb (int_op OLt x y).
Proof. cbn [int_op]. lia. Qed.

Definition swap_op (o : cmpop) : cmpop :=
  match o with OLt => OGt | OLe => OGe | OEq => OEq | ONe => ONe | OGt => OLt | OGe => OLe end.

Lemma int_op_swap o x y : int_op (swap_op o) y x = int_op o x y.
Proof. destruct o; cbn [int_op swap_op]; try reflexivity; rewrite Z.eqb_sym; reflexivity. Qed.

Lemma pcmp_swap o a b : pcmp (swap_op o) b a = pcmp o a b.
Proof. rewrite !pcmp_key. rewrite rkey_swap. cbn [fst snd]. apply int_op_swap. Qed.

(* ------------------------------------------------------------------ the exact-context variant never raises and is pcmp *)
Lemma at_of_int_same z q : at_ q (of_int z q) = z.
Proof. rewrite at_of_int by lia. rewrite Z.sub_diag. change (10 ^ 0) with 1. lia. Qed.

Lemma dec_op_of_int o x y q : dec_op o (of_int x q) (of_int y q) = int_op o x y.
Proof.
  assert (dmin (of_int x q) (of_int y q) = q) as M by (unfold dmin; rewrite !dexp_of_int; lia).
  assert (dmin (of_int y q) (of_int x q) = q) as M' by (unfold dmin; rewrite !dexp_of_int; lia).
  destruct o; cbn [dec_op int_op]; unfold dltb, deqb; rewrite ?M, ?M', !at_of_int_same; try reflexivity; lia.
Qed.

Lemma pcmp_ctx_exact o a b : pcmp_ctx None o a b = inl (pcmp o a b).
Proof.
  unfold pcmp_ctx, rounded_to_smaller, quantize_ctx, dquantize, pcmp, rkey. rewrite dec_op_of_int. reflexivity.
Qed.

(* ------------------------------------------------------------------ number of digits (for the pinned 28-digit context) *)
Lemma ndig_aux_lower fuel : forall n k, 0 <= n -> n < 2 ^ Z.of_nat fuel -> 10 ^ k <= n -> 0 <= k -> k + 1 <= ndig_aux fuel n.
Proof.
  induction fuel as [|f IH]; intros n k Hn Hb Hk K0.
  - simpl in Hb. assert (n = 0) by lia. subst. pose proof (p10_pos' k K0). lia.
  - cbn [ndig_aux]. destruct (n <? 10) eqn:E.
    + destruct (Z.eq_dec k 0) as [->|NZ]; [lia|].
      exfalso. assert (10 ^ 1 <= 10 ^ k) by (apply Z.pow_le_mono_r; lia). change (10 ^ 1) with 10 in *. lia.
    + destruct (Z.eq_dec k 0) as [->|NZ].
      * assert (0 <= ndig_aux f (n / 10)); [|lia]. destruct f; cbn [ndig_aux]; [lia|]. destruct (n / 10 <? 10); [lia|].
        clear. generalize (n / 10 / 10). intros m. destruct f; cbn [ndig_aux]; [lia|]. destruct (m <? 10); [lia|].
        assert (forall g x, 1 <= ndig_aux g x) as P.
        { induction g; intros x; cbn [ndig_aux]; [lia|]. destruct (x <? 10); [lia|]. specialize (IHg (x / 10)). lia. }
        specialize (P f (m / 10)). lia.
      * assert (10 ^ (k - 1) <= n / 10) as Hk'.
        { replace k with (1 + (k - 1)) in Hk by lia. rewrite p10_add in Hk by lia. change (10 ^ 1) with 10 in Hk.
          apply Z.div_le_lower_bound; lia. }
        rewrite Nat2Z.inj_succ, Z.pow_succ_r in Hb by lia.
        specialize (IH (n / 10) (k - 1) ltac:(apply Z.div_pos; lia) ltac:(apply Z.div_lt_upper_bound; lia) Hk' ltac:(lia)). lia.
Qed.

Lemma ndigits_lower z k : 0 <= k -> 10 ^ k <= Z.abs z -> k + 1 <= ndigits z.
Proof.
  intros K0 H. unfold ndigits. apply ndig_aux_lower; [lia| |exact H|exact K0].
  pose proof (p10_pos' k K0). pose proof (Z.log2_spec (Z.abs z) ltac:(lia)) as [_ U].
  pose proof (Z.log2_nonneg (Z.abs z)). rewrite Nat2Z.inj_add, Z2Nat.id by lia. change (Z.of_nat 1) with 1.
  replace (Z.log2 (Z.abs z) + 1) with (Z.succ (Z.log2 (Z.abs z))) by lia. exact U.
Qed.

(* ------------------------------------------------------------------ hash, int, float: through scale(UNIT) *)
Lemma unit_number_spec p : unit_number p = Ok (number (pscale p 0)).
Proof. unfold unit_number. rewrite unit_prefix_ok. reflexivity. Qed.

(* the UNIT-scaled number denotes the value of p *)
Lemma unit_number_at e p : e <= dexp (number (pscale p 0)) -> at_ e (number (pscale p 0)) = vat e p.
Proof.
  intros H. rewrite pscale_number_at; [f_equal; lia|]. unfold pexp. rewrite prefix_pscale. lia.
Qed.

Lemma unit_number_exp p : dexp (number (pscale p 0)) <= pexp p.
Proof. pose proof (pexp_pscale_le p 0) as L. unfold pexp in L at 1. rewrite prefix_pscale in L. lia. Qed.

Lemma vat_eq_any e e' a b : e <= pexp a -> e <= pexp b -> e' <= pexp a -> e' <= pexp b ->
  vat e a = vat e b -> vat e' a = vat e' b.
Proof.
  intros Ha Hb Ha' Hb' H. unfold vat in *.
  apply (at_eq_any e' (pval a) (pval b)); [rewrite pexp_pval; lia|rewrite pexp_pval; lia|].
  apply (at_eq_any e (pval a) (pval b)); [rewrite pexp_pval; lia|rewrite pexp_pval; lia|exact H].
Qed.

Lemma phash_consistent a b e : e <= pexp a -> e <= pexp b -> vat e a = vat e b -> phash a = phash b.
Proof.
  intros Ha Hb H. unfold phash. rewrite !unit_number_spec. cbn [bind]. f_equal.
  apply dnorm_eqv.
  pose proof (unit_number_exp a) as La. pose proof (unit_number_exp b) as Lb.
  set (m := dmin (number (pscale a 0)) (number (pscale b 0))).
  assert (m <= dexp (number (pscale a 0)) /\ m <= dexp (number (pscale b 0))) as [Ma Mb] by (unfold m, dmin; lia).
  rewrite (unit_number_at m a Ma), (unit_number_at m b Mb).
  apply (vat_eq_any e); try assumption; lia.
Qed.

Lemma phash_total p : exists c e, phash p = Ok (Some (c, e)).
Proof.
  unfold phash. rewrite unit_number_spec. cbn [bind]. destruct (dnorm_total (number (pscale p 0))) as [c [e E]].
  rewrite E. eauto.
Qed.

(* integer part, stated on the value at any exponent e <= 0 *)
Definition int_part_at (t V e : Z) : Prop :=
  Z.abs t * 10 ^ (- e) <= Z.abs V < (Z.abs t + 1) * 10 ^ (- e) /\ 0 <= t * V.

Lemma dtrunc_at d e : e <= dexp d -> e <= 0 -> int_part_at (dtrunc d) (at_ e d) e.
Proof.
  intros Hd He. destruct (dtrunc_spec d) as [S1 S2]. unfold int_part_at.
  pose proof (p10_pos' (- e) ltac:(lia)) as Pe.
  destruct (Z_le_gt_dec 0 (dexp d)) as [C|C].
  - specialize (S1 C). rewrite S1.
    assert (at_ e d = dint d * 10 ^ dexp d * 10 ^ (- e)) as ->.
    { unfold at_. rewrite pow10_spec. replace (dexp d - e) with (dexp d + - e) by lia. rewrite p10_add by lia. ring. }
    set (t := dint d * 10 ^ dexp d). rewrite Z.abs_mul. rewrite (Z.abs_eq (10 ^ - e)) by lia. nia.
  - destruct (S2 ltac:(lia)) as [[B1 B2] B3]. set (t := dtrunc d) in *.
    assert (at_ e d = dint d * 10 ^ (dexp d - e)) as -> by (unfold at_; rewrite pow10_spec; reflexivity).
    pose proof (p10_pos' (dexp d - e) ltac:(lia)) as Pd.
    assert (10 ^ (- e) = 10 ^ (- dexp d) * 10 ^ (dexp d - e)) as Q.
    { rewrite <- p10_add by lia. f_equal. lia. }
    rewrite Z.abs_mul. rewrite (Z.abs_eq (10 ^ (dexp d - e))) by lia. rewrite Q.
    set (P := 10 ^ (dexp d - e)) in *. set (M := 10 ^ (- dexp d)) in *. nia.
Qed.

(* the bounds transfer along the exact scaling between two exponents *)
Lemma int_part_at_shift t V e e' : e' <= e -> e <= 0 -> int_part_at t (V * 10 ^ (e - e')) e' -> int_part_at t V e.
Proof.
  intros L He [[B1 B2] B3]. unfold int_part_at.
  pose proof (p10_pos' (e - e') ltac:(lia)) as P. pose proof (p10_pos' (- e) ltac:(lia)) as Pe.
  assert (10 ^ (- e') = 10 ^ (- e) * 10 ^ (e - e')) as Q.
  { rewrite <- p10_add by lia. f_equal. lia. }
  rewrite Q in B1, B2. rewrite Z.abs_mul in B1, B2. rewrite (Z.abs_eq (10 ^ (e - e'))) in B1, B2 by lia.
  set (T := 10 ^ (e - e')) in *. set (M := 10 ^ (- e)) in *. nia.
Qed.

Lemma pint_trunc p e : e <= pexp p -> e <= 0 -> exists t, pint p = Ok t /\ int_part_at t (vat e p) e.
Proof.
  intros Hp He. unfold pint. rewrite unit_number_spec. cbn [bind]. eexists. split; [reflexivity|].
  set (x := number (pscale p 0)). pose proof (unit_number_exp p) as L. fold x in L.
  set (e' := Z.min e (dexp x)).
  apply (int_part_at_shift _ _ e e'); [unfold e'; lia|exact He|].
  rewrite <- (vat_shift e' e p) by (unfold e'; lia).
  unfold x. rewrite <- unit_number_at by (fold x; unfold e'; lia). fold x.
  apply dtrunc_at; unfold e'; lia.
Qed.

(* the integer part is unique: the specification determines int() *)
Lemma int_part_at_unique t1 t2 V e : e <= 0 -> int_part_at t1 V e -> int_part_at t2 V e -> t1 = t2.
Proof.
  intros He [[A1 A2] A3] [[B1 B2] B3]. pose proof (p10_pos' (- e) ltac:(lia)) as P. set (M := 10 ^ (- e)) in *.
  assert (Z.abs t1 = Z.abs t2) as E by nia.
  destruct (Z.eq_dec V 0) as [->|NV].
  - assert (Z.abs t1 = 0) by nia. lia.
  - nia.
Qed.

(* float: ONE rounding of a decimal that denotes the exact value *)
Lemma pfloat_one_rounding {F : Type} (rnd : dec -> F) p :
  exists x, pfloat rnd p = Ok (rnd x) /\ dexp x <= pexp p /\ forall e, e <= dexp x -> at_ e x = vat e p.
Proof.
  exists (number (pscale p 0)). unfold pfloat. rewrite unit_number_spec. cbn [bind]. split; [reflexivity|].
  split; [apply unit_number_exp|]. intros e He. apply unit_number_at. exact He.
Qed.

(* ------------------------------------------------------------------ the pinned behaviour, as literal variants of the model
   (used only by the `_refuted` theorems of Props/C14.v) *)
(* pinned __hash__: hash((self.number, self.prefix)) — a function of the two FIELDS; hash(Decimal) depends on the value
   of `number` only, so the key is (normal form of number, prefix) *)
Definition phash_pinned (p : pfx) : option (Z * Z) * Z := (dnorm (number p), prefix p).
(* pinned __int__: int(self.number) * 10**self.prefix.value — for a negative prefix 10**prefix is a float, the product is a
   float and int() raises TypeError (__int__ returned non-int) *)
Definition pint_pinned (p : pfx) : result Z :=
  if 0 <=? prefix p then Ok (dtrunc (number p) * pow10 (prefix p)) else Error EOther.
(* pinned _add: the sum is evaluated in the default context, i.e. rounded to 28 significant digits *)
Definition padd_raw_pinned (a b : pfx) : pfx :=
  let r := padd_raw a b in mkP (round_prec 28 (number r)) (prefix r).
(* pinned comparison operators: round(number, EPSILON) in the default context = pcmp_ctx (Some 28) *)

(* in a context of precision 28, quantize raises as soon as the rounded number needs more than 28 digits *)
Lemma pcmp_ctx_raises prec o a b e :
  let s := smaller_prefix a b in
  0 <= prec -> e <= pexp a -> e <= pexp b -> e <= s - EPSILON ->
  10 ^ prec * 10 ^ (s - EPSILON - e) <= Z.abs (vat e a) ->
  pcmp_ctx (Some prec) o a b = inr InvalidOperation.
Proof.
  intros s Hp Ha Hb Hs H.
  pose proof (rkey_spec a b e Ha Hb Hs) as K. cbv zeta in K. fold s in K. unfold rkey in K. fold s in K. pose proof (f_equal fst K) as Ka. cbn [fst] in Ka.
  clear K. set (D := 10 ^ (s - EPSILON - e)) in *. assert (0 < D) as PD by (apply p10_pos'; lia).
  assert (10 ^ prec <= Z.abs (dq_int (number (pscale a s)) (- EPSILON))) as B.
  { rewrite Ka. destruct (Z_le_gt_dec 0 (vat e a)) as [C|C].
    - assert (10 ^ prec * D <= vat e a) as H' by lia. pose proof (rhe_mono _ _ D PD H') as M. rewrite rhe_exact in M by exact PD. lia.
    - assert (vat e a <= (- 10 ^ prec) * D) as H' by lia. pose proof (rhe_mono _ _ D PD H') as M. rewrite rhe_exact in M by exact PD. lia. }
  unfold pcmp_ctx, rounded_to_smaller. fold s.
  assert (quantize_ctx (Some prec) (number (pscale a s)) (- EPSILON) = inr InvalidOperation) as ->.
  { unfold quantize_ctx, dquantize. rewrite dint_of_int.
    pose proof (ndigits_lower _ prec Hp B) as N.
    destruct (prec <? ndigits (dq_int (number (pscale a s)) (- EPSILON))) eqn:E; [reflexivity|lia]. }
  reflexivity.
Qed.

(* ------------------------------------------------------------------ soundness of the six operators, assembled *)
Lemma pcmp_sound a b e :
  let s := smaller_prefix a b in
  e <= pexp a -> e <= pexp b -> e <= s - EPSILON ->
  10 ^ (s - EPSILON - e) < Z.abs (vat e a - vat e b) ->
  (pcmp OLt a b = true <-> vat e a < vat e b) /\ (pcmp OGt a b = true <-> vat e b < vat e a) /\
  pcmp OEq a b = false /\ pcmp ONe a b = true /\
  (pcmp OLe a b = true <-> vat e a < vat e b) /\ (pcmp OGe a b = true <-> vat e b < vat e a).
Proof.
  intros s Ha Hb Hs H. pose proof (rkey_spec a b e Ha Hb Hs) as K. cbv zeta in K. fold s in K.
  set (D := 10 ^ (s - EPSILON - e)) in *. assert (0 < D) as PD by (apply p10_pos'; lia).
  rewrite !pcmp_key, K. cbn [fst snd int_op].
  destruct (Z_lt_le_dec (vat e a) (vat e b)) as [C|C].
  - pose proof (rhe_gap (vat e a) (vat e b) D PD ltac:(lia)). lia.
  - pose proof (rhe_gap (vat e b) (vat e a) D PD ltac:(lia)). lia.
Qed.

Lemma pcmp_same_value a b e : e <= pexp a -> e <= pexp b -> vat e a = vat e b ->
  pcmp OEq a b = true /\ pcmp OLe a b = true /\ pcmp OGe a b = true /\
  pcmp OLt a b = false /\ pcmp OGt a b = false /\ pcmp ONe a b = false.
Proof.
  intros Ha Hb H. pose proof (pcmp_eq_of_eq a b e Ha Hb H) as Q. rewrite !pcmp_key in *. cbn [int_op] in *. lia.
Qed.

Lemma pcmp_never_inverts a b e : e <= pexp a -> e <= pexp b -> vat e a <= vat e b ->
  pcmp OGt a b = false /\ pcmp OLe a b = true.
Proof.
  intros Ha Hb H. pose proof (pcmp_le_of_le a b e Ha Hb H) as Q. rewrite !pcmp_key in *. cbn [int_op] in *. lia.
Qed.

Lemma pcmp_trichotomy a b :
  (pcmp OLt a b = true /\ pcmp OEq a b = false /\ pcmp OGt a b = false) \/
  (pcmp OLt a b = false /\ pcmp OEq a b = true /\ pcmp OGt a b = false) \/
  (pcmp OLt a b = false /\ pcmp OEq a b = false /\ pcmp OGt a b = true).
Proof. rewrite !pcmp_key. apply int_op_trichotomy. Qed.

Lemma pcmp_rel a b :
  pcmp OLe a b = pcmp OLt a b || pcmp OEq a b /\
  pcmp OGe a b = pcmp OGt a b || pcmp OEq a b /\
  pcmp ONe a b = negb (pcmp OEq a b) /\
  pcmp OLe a b = negb (pcmp OGt a b) /\
  pcmp OGe a b = negb (pcmp OLt a b).
Proof. rewrite !pcmp_key. apply int_op_rel. Qed.

Lemma pcmp_refl a : pcmp OEq a a = true.
Proof. apply (pcmp_eq_of_eq a a (pexp a)); lia. Qed.

(* the converse: in the model, numbers with equal hashes denote the same value (the modelled hash is the normal form
   of the value; CPython's hash may of course collide) *)
Lemma dnorm_inj x y : dnorm x = dnorm y -> at_ (dmin x y) x = at_ (dmin x y) y.
Proof.
  intros H. destruct (dnorm_total x) as [c [k Nx]]. pose proof Nx as Ny. rewrite H in Ny.
  pose proof (dnorm_spec x c k Nx) as Sx. pose proof (dnorm_spec y c k Ny) as Sy.
  set (m := dmin x y). assert (m <= dexp x /\ m <= dexp y) as [Mx My] by (unfold m, dmin; lia).
  unfold at_. rewrite !pow10_spec.
  destruct Sx as [[Zx [Cx Kx]]|[Nzx [Lx [Ex Dx]]]]; destruct Sy as [[Zy [Cy Ky]]|[Nzy [Ly [Ey Dy]]]].
  - rewrite Zx, Zy. reflexivity.
  - exfalso. subst c. apply Dy. reflexivity.
  - exfalso. subst c. apply Dx. reflexivity.
  - rewrite Ex, Ey. rewrite <- !Z.mul_assoc, <- !p10_add by lia. f_equal. f_equal. lia.
Qed.

Lemma phash_injective a b e : e <= pexp a -> e <= pexp b -> phash a = phash b -> vat e a = vat e b.
Proof.
  intros Ha Hb H. unfold phash in H. rewrite !unit_number_spec in H. cbn [bind] in H.
  assert (dnorm (number (pscale a 0)) = dnorm (number (pscale b 0))) as N by (injection H; intros N; exact N).
  apply dnorm_inj in N.
  pose proof (unit_number_exp a) as La. pose proof (unit_number_exp b) as Lb.
  set (m := dmin (number (pscale a 0)) (number (pscale b 0))) in *.
  assert (m <= dexp (number (pscale a 0)) /\ m <= dexp (number (pscale b 0))) as [Ma Mb] by (unfold m, dmin; lia).
  rewrite (unit_number_at m a Ma), (unit_number_at m b Mb) in N.
  apply (vat_eq_any m); try assumption; lia.
Qed.
