(* Proofs/C01EProofsWfs.v — the invariant between the passes: a valid design whose connections mention signals only
   (no port reference, no no-connect is left after ResolvePortRefs) and whose ports are all connected.
   wfs d implies wf_design d = Ok tt and frag_ok d = true, so everything proved from those applies at every stage. *)
Require Import Hdl21.Base.PyInt Hdl21.Spec.PySlice Hdl21.Model.Slice Hdl21.Model.Resolve Hdl21.Base.Design
               Hdl21.Spec.Nets Hdl21.Spec.WfDesign Hdl21.Spec.C01ENets Hdl21.Proofs.ResolveProofs
               Hdl21.Proofs.C01EProofsGraph Hdl21.Proofs.C01EProofsBase.

Definition leaf_ok (m : module) (lw : N * Z) : Prop :=
  exists s, assocN (fst lw) (m_leaves m) = Some (LSig s) /\ sig_width m s = Some (snd lw).

Definition conn_ok (m : module) (x : inst) (ports : list (name * Z)) (c : name * sx) : Prop :=
  exists w cw, assoc (fst c) ports = Some w /\ 1 <= w /\ Forall (leaf_ok m) (sx_leaves (snd c)) /\
               xwidth (snd c) = Ok cw /\ (cw = w \/ (0 < i_n x /\ cw = i_n x * w)).

Definition inst_ok (d : design) (self : nat) (m : module) (x : inst) : Prop :=
  match i_of x with TMod j => (j < self)%nat | TDev _ _ => True end /\
  exists ports, target_ports d (i_of x) = Ok ports /\ NoDup (map fst (i_conns x)) /\
                Forall (conn_ok m x ports) (i_conns x) /\
                (forall pw, In pw ports -> assoc (fst pw) (i_conns x) <> None).

Definition module_ok (d : design) (self : nat) (m : module) : Prop :=
  m_name m <> "" /\ NoDup (mod_names m) /\
  forallb (fun pw : name * Z => 1 <=? snd pw) (m_ports m ++ m_sigs m) = true /\
  Forall (inst_ok d self m) (m_insts m).

Definition wfs (d : design) : Prop :=
  (d_top d < Datatypes.length (d_mods d))%nat /\ NoDup (map m_name (d_mods d)) /\
  forall k m, nth_error (d_mods d) k = Some m -> module_ok d k m.

Lemma wf_mods_intro d : forall ms k0, (forall j m, nth_error ms j = Some m -> wf_module d (k0 + j) m = Ok tt) ->
  wf_mods d k0 ms = Ok tt.
Proof.
  induction ms as [|m ms IH]; intros k0 H; cbn [wf_mods]; [reflexivity|].
  pose proof (H 0%nat m eq_refl) as H0. rewrite Nat.add_0_r in H0. rewrite H0. cbn [bind]. apply IH.
  intros j m' Hj. replace (S k0 + j)%nat with (k0 + S j)%nat by lia. apply H. exact Hj.
Qed.

Lemma leaf_ok_wf d m lw : leaf_ok m lw -> wf_leaf d m lw = Ok tt.
Proof.
  intros [s [Hl Hs]]. unfold wf_leaf. rewrite Hl. cbn [ofopt bind]. rewrite Hs. cbn [ofopt bind]. unfold check. rewrite Z.eqb_refl. reflexivity.
Qed.

Lemma leaf_ok_not_nc m cx : Forall (leaf_ok m) (sx_leaves cx) -> is_nc m cx = None /\ has_nc_inside m cx = false.
Proof.
  intros H. split.
  - unfold is_nc. destruct cx as [id w|p ix|ps]; try reflexivity. cbn [sx_leaves] in H. inversion H as [|? ? [s [Hl _]] _]; subst.
    cbn [fst] in Hl. rewrite Hl. reflexivity.
  - unfold has_nc_inside. apply not_true_is_false. intros E. apply existsb_exists in E. destruct E as [lw [Hin E]].
    rewrite Forall_forall in H. destruct (H lw Hin) as [s [Hl _]]. rewrite Hl in E. discriminate.
Qed.

Lemma conn_ok_wf d m x ports c : conn_ok m x ports c -> wf_conn d m x ports c = Ok tt.
Proof.
  intros [w [cw [Hw [_ [Hl [Hcw Hcase]]]]]]. unfold wf_conn. rewrite Hw. cbn [ofopt bind].
  rewrite (all_ok_intro (wf_leaf d m) (sx_leaves (snd c))).
  2:{ intros lw Hin. apply leaf_ok_wf. rewrite Forall_forall in Hl. apply Hl. exact Hin. }
  cbn [bind]. destruct (leaf_ok_not_nc _ _ Hl) as [-> ->]. cbn [negb check bind]. rewrite Hcw. cbn [bind].
  unfold check. assert ((cw =? w) || (0 <? i_n x) && (cw =? i_n x * w) = true) as -> by lia. reflexivity.
Qed.

Lemma inst_ok_wf d k m x : inst_ok d k m x -> wf_inst d k m x = Ok tt.
Proof.
  intros [Ho [ports [Hp [Hnd [Hc Hall]]]]]. unfold wf_inst.
  assert (match i_of x with TMod k0 => check (k0 <? k)%nat ECycle | TDev _ _ => Ok tt end = Ok tt) as ->.
  { destruct (i_of x); [|reflexivity]. unfold check. apply Nat.ltb_lt in Ho. rewrite Ho. reflexivity. }
  cbn [bind]. rewrite Hp. cbn [bind]. apply nodup_names_NoDup in Hnd. rewrite Hnd. cbn [check bind].
  rewrite (all_ok_intro (wf_conn d m x ports) (i_conns x)).
  2:{ intros c Hin. apply conn_ok_wf. rewrite Forall_forall in Hc. apply Hc. exact Hin. }
  cbn [bind]. apply all_ok_intro. intros pw Hin. specialize (Hall pw Hin). destruct (assoc (fst pw) (i_conns x)); [reflexivity|congruence].
Qed.

Lemma module_ok_wf d k m : module_ok d k m -> wf_module d k m = Ok tt.
Proof.
  intros [Hn [Hnd [Hw Hi]]]. unfold wf_module.
  assert (negb (String.eqb (m_name m) "") = true) as ->.
  { apply negb_true_iff. apply not_true_is_false. intros E. apply String.eqb_eq in E. contradiction. }
  cbn [check bind]. apply nodup_names_NoDup in Hnd. unfold mod_names in Hnd. rewrite Hnd. cbn [check bind]. rewrite Hw. cbn [check bind].
  apply all_ok_intro. intros x Hin. apply inst_ok_wf. rewrite Forall_forall in Hi. apply Hi. exact Hin.
Qed.

Theorem wfs_wf d : wfs d -> wf_design d = Ok tt.
Proof.
  intros [Ht [Hnd Hm]]. unfold wf_design. apply Nat.ltb_lt in Ht. rewrite Ht. cbn [check bind].
  apply nodup_names_NoDup in Hnd. rewrite Hnd. cbn [check bind]. apply wf_mods_intro.
  intros j m Hj. cbn [Nat.add]. apply module_ok_wf. apply Hm. exact Hj.
Qed.

Theorem wfs_frag d : wfs d -> frag_ok d = true.
Proof.
  intros [_ [_ Hm]]. unfold frag_ok. apply forallb_forall. intros m Hin. apply In_nth_error in Hin. destruct Hin as [k Hk].
  destruct (Hm k m Hk) as [_ [_ [_ Hi]]]. apply forallb_forall. intros x Hx. rewrite Forall_forall in Hi.
  destruct (Hi x Hx) as [_ [ports [_ [_ [Hc _]]]]]. apply forallb_forall. intros c Hcin. rewrite Forall_forall in Hc.
  destruct (Hc c Hcin) as [w [cw [_ [_ [Hl _]]]]]. unfold conn_frag. rewrite Forall_forall in Hl.
  destruct (snd c) as [id wl|p ix|ps] eqn:Ec.
  - cbn [sx_leaves] in Hl. destruct (Hl (id, wl) (or_introl eq_refl)) as [s [Hs _]]. cbn [fst] in Hs. rewrite Hs. reflexivity.
  - apply forallb_forall. intros lw Hlw. destruct (Hl lw Hlw) as [s [Hs _]]. unfold leaf_kind. rewrite Hs. reflexivity.
  - apply forallb_forall. intros lw Hlw. destruct (Hl lw Hlw) as [s [Hs _]]. unfold leaf_kind. rewrite Hs. reflexivity.
Qed.

(* everything the step needs, from wfs *)
Corollary wfs_step_total d : wfs d -> forall x, valid d x -> exists y, Nets.step d x = Ok y /\ valid d y.
Proof. intros H. apply step_total; [apply wfs_wf|apply wfs_frag]; exact H. Qed.

Lemma wfs_module d p m : wfs d -> vmod_at d p = Ok m -> exists k, nth_mod d k = Ok m /\ module_ok d k m.
Proof.
  intros [_ [_ Hm]] H. destruct (vmod_at_nth _ _ _ H) as [k Hk]. exists k. split; [exact Hk|]. apply Hm. apply nth_mod_nth. exact Hk.
Qed.

(* the local target of a port bit in a wfs design is a signal bit, and is determined by the bits of its connection *)
Lemma wfs_local_tgt d k m x e port kk w : module_ok d k m -> In x (m_insts m) -> elem_ok x e = true ->
  port_width d x port = Ok w -> 0 <= kk < w ->
  exists cx bits id j s ws, assoc port (i_conns x) = Some cx /\ xbits cx = Ok bits /\
    (zlen bits = w \/ (0 < i_n x /\ zlen bits = i_n x * w)) /\
    pick bits (conn_index x (zlen bits) w e kk) = Ok (id, j) /\
    assocN id (m_leaves m) = Some (LSig s) /\ sig_width m s = Some ws /\ 0 <= j < ws /\
    local_tgt d m x e port kk = Ok (LtSig s j).
Proof.
  intros [_ [_ [_ Hi]]] Hx He Hw Hk. rewrite Forall_forall in Hi. destruct (Hi x Hx) as [_ [ports [Hp [_ [Hc Hall]]]]].
  assert (assoc port ports = Some w) as Hpw.
  { unfold port_width in Hw. rewrite Hp in Hw. cbn [bind] in Hw. apply ofopt_ok in Hw. exact Hw. }
  destruct (assoc port (i_conns x)) as [cx|] eqn:Ea.
  2:{ exfalso. apply (Hall (port, w)); [apply assoc_In; exact Hpw|exact Ea]. }
  rewrite Forall_forall in Hc. destruct (Hc (port, cx) (assoc_In _ _ _ Ea)) as [w' [cw [Hw' [_ [Hl [Hcw Hcase]]]]]]. cbn [fst snd] in *.
  assert (w' = w) as -> by congruence.
  destruct (xwidth_ok_xbits _ _ Hcw) as [bits [Hb Hlen]].
  destruct (conn_bit_some d x e port kk _ _ w Ea Hb Hw Hk He) as [Hcb Hidx]; [rewrite Hlen; exact Hcase|].
  destruct (pick_ok _ _ Hidx) as [[id j] [Hpk _]].
  pose proof (pick_In _ _ _ Hpk) as Hin. destruct (xbits_inside _ _ Hb _ _ Hin) as [wl [Hlv Hj]]. rewrite leaves_sx_leaves in Hlv.
  rewrite Forall_forall in Hl. destruct (Hl _ Hlv) as [s [Hs Hsw]]. cbn [fst snd] in *.
  exists cx, bits, id, j, s, wl. split; [reflexivity|]. split; [exact Hb|]. split; [rewrite Hlen; exact Hcase|].
  split; [exact Hpk|]. split; [exact Hs|]. split; [exact Hsw|]. split; [lia|].
  unfold local_tgt. rewrite Hcb, Hpk. cbn [bind]. rewrite Hs. reflexivity.
Qed.
