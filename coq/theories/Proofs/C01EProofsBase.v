(* Proofs/C01EProofsBase.v — shared lemmas of the end-to-end proof: the result monad, association lists,
   what wf_design says about one connection, paths through the hierarchy, and
   step_total: on a valid design of the fragment the step of Spec/Nets.v is total on valid nodes and keeps them valid. *)
Require Import Hdl21.Base.PyInt Hdl21.Spec.PySlice Hdl21.Model.Slice Hdl21.Model.Resolve Hdl21.Base.Design
               Hdl21.Spec.Nets Hdl21.Spec.WfDesign Hdl21.Spec.C01ENets Hdl21.Proofs.ResolveProofs
               Hdl21.Proofs.C01EProofsGraph.

(* ------------------------------------------------------------------------------------------ the result monad *)
Ltac binv H :=
  repeat match type of H with
  | bind ?r _ = Ok _ => let E := fresh "E" in destruct r eqn:E; cbn [bind] in H; [|discriminate H]
  end.

Lemma bind_ok {A B} (r : result A) (f : A -> result B) b : bind r f = Ok b -> exists a, r = Ok a /\ f a = Ok b.
Proof. destruct r as [a|e]; cbn [bind]; [eauto|discriminate]. Qed.

Lemma check_ok b e u : check b e = Ok u -> b = true.
Proof. unfold check. destruct b; [reflexivity|discriminate]. Qed.

Lemma ofopt_ok {A} e (o : option A) a : ofopt e o = Ok a -> o = Some a.
Proof. destruct o; cbn [ofopt]; intros H; inversion H; reflexivity. Qed.

Lemma traverse_Forall2 {A B} (f : A -> result B) l : forall r, traverse f l = Ok r -> Forall2 (fun x y => f x = Ok y) l r.
Proof.
  induction l as [|x xs IH]; cbn [traverse]; intros r H.
  - inversion H. constructor.
  - binv H. inversion H; subst. constructor; [assumption|]. apply IH. reflexivity.
Qed.

Lemma Forall2_traverse {A B} (f : A -> result B) l r : Forall2 (fun x y => f x = Ok y) l r -> traverse f l = Ok r.
Proof. induction 1 as [|x y l r H _ IH]; cbn [traverse]; [reflexivity|]. rewrite H, IH. reflexivity. Qed.

Lemma traverse_In {A B} (f : A -> result B) l r x : traverse f l = Ok r -> In x l -> exists y, f x = Ok y /\ In y r.
Proof.
  intros H. apply traverse_Forall2 in H. induction H as [|a b l r Hab _ IH]; intros Hin; [destruct Hin|].
  destruct Hin as [<-|Hin]; [exists b; split; [assumption|left; reflexivity]|].
  destruct (IH Hin) as [y [Hy Iy]]. exists y. split; [assumption|right; assumption].
Qed.

Lemma all_ok_In {A} (f : A -> result unit) l x : all_ok f l = Ok tt -> In x l -> f x = Ok tt.
Proof.
  unfold all_ok. intros H Hin. apply bind_ok in H. destruct H as [r [Hr _]].
  destruct (traverse_In f l r x Hr Hin) as [[] [Hy _]]. exact Hy.
Qed.

Lemma all_ok_intro {A} (f : A -> result unit) l : (forall x, In x l -> f x = Ok tt) -> all_ok f l = Ok tt.
Proof.
  intros H. unfold all_ok. assert (exists r, traverse f l = Ok r) as [r ->]; [|reflexivity].
  induction l as [|x xs IH]; cbn [traverse]; [eauto|]. rewrite (H x (or_introl eq_refl)). cbn [bind].
  destruct IH as [r ->]; [intros y Hy; apply H; right; exact Hy|]. cbn [bind]. eauto.
Qed.

(* ------------------------------------------------------------------------------------------ association lists *)
Lemma assoc_In {A} k (l : list (name * A)) v : assoc k l = Some v -> In (k, v) l.
Proof.
  induction l as [|[k' v'] l IH]; cbn [assoc]; [discriminate|].
  destruct (String.eqb k k') eqn:E; [apply String.eqb_eq in E; subst; intros H; inversion H; left; reflexivity|].
  intros H. right. apply IH. exact H.
Qed.

Lemma assoc_None_notin {A} k (l : list (name * A)) : assoc k l = None -> ~ In k (map fst l).
Proof.
  induction l as [|[k' v'] l IH]; cbn [assoc map fst]; [tauto|].
  destruct (String.eqb k k') eqn:E; [discriminate|]. intros H [Hk|Hin]; [subst; rewrite String.eqb_refl in E; discriminate|].
  apply IH; assumption.
Qed.

Lemma assoc_notin_None {A} k (l : list (name * A)) : ~ In k (map fst l) -> assoc k l = None.
Proof.
  induction l as [|[k' v'] l IH]; cbn [assoc map fst]; [reflexivity|]. intros H.
  destruct (String.eqb k k') eqn:E; [apply String.eqb_eq in E; subst; exfalso; apply H; left; reflexivity|].
  apply IH. intros Hin. apply H. right. exact Hin.
Qed.

Lemma assoc_app {A} k (a b : list (name * A)) :
  assoc k (a ++ b) = match assoc k a with Some v => Some v | None => assoc k b end.
Proof. induction a as [|[k' v'] a IH]; cbn [app assoc]; [reflexivity|]. destruct (String.eqb k k'); [reflexivity|exact IH]. Qed.

Lemma assocN_app {A} k (a b : list (N * A)) :
  assocN k (a ++ b) = match assocN k a with Some v => Some v | None => assocN k b end.
Proof. induction a as [|[k' v'] a IH]; cbn [app assocN]; [reflexivity|]. destruct (N.eqb k k'); [reflexivity|exact IH]. Qed.

Lemma find_inst_In l i x : find_inst l i = Some x -> In x l /\ i_name x = i.
Proof.
  induction l as [|y l IH]; cbn [find_inst]; [discriminate|].
  destruct (String.eqb (i_name y) i) eqn:E.
  - intros H; inversion H; subst. apply String.eqb_eq in E. split; [left; reflexivity|exact E].
  - intros H. destruct (IH H) as [Hin Hn]. split; [right; exact Hin|exact Hn].
Qed.

Lemma existsb_eqb_In s l : existsb (String.eqb s) l = true <-> In s l.
Proof.
  rewrite existsb_exists. split.
  - intros [x [Hin E]]. apply String.eqb_eq in E. subst. exact Hin.
  - intros Hin. exists s. split; [exact Hin|apply String.eqb_refl].
Qed.

Lemma nodup_names_NoDup l : nodup_names l = true <-> NoDup l.
Proof.
  induction l as [|x l IH]; cbn [nodup_names]; [split; [constructor|reflexivity]|].
  rewrite andb_true_iff, negb_true_iff, IH. split.
  - intros [H1 H2]. constructor; [|exact H2]. intros Hin. apply existsb_eqb_In in Hin. congruence.
  - intros H. inversion H; subst. split; [|assumption].
    destruct (existsb (String.eqb x) l) eqn:E; [|reflexivity]. apply existsb_eqb_In in E. contradiction.
Qed.

Lemma find_inst_unique l x : NoDup (map i_name l) -> In x l -> find_inst l (i_name x) = Some x.
Proof.
  induction l as [|y l IH]; cbn [map find_inst]; intros ND Hin; [destruct Hin|].
  inversion ND as [|? ? Hn ND']; subst. destruct Hin as [->|Hin]; [rewrite String.eqb_refl; reflexivity|].
  destruct (String.eqb (i_name y) (i_name x)) eqn:E; [|apply IH; assumption].
  apply String.eqb_eq in E. exfalso. apply Hn. rewrite E. apply in_map. exact Hin.
Qed.

(* ------------------------------------------------------------------------------------------ NoDup and append *)
Lemma NoDup_app_l {A} (a b : list A) : NoDup (a ++ b) -> NoDup a.
Proof. induction a as [|x a IH]; cbn [app]; intros H; [constructor|]. inversion H; subst. constructor; [intros Hin; apply H2; apply in_or_app; left; exact Hin|apply IH; assumption]. Qed.
Lemma NoDup_app_r {A} (a b : list A) : NoDup (a ++ b) -> NoDup b.
Proof. induction a as [|x a IH]; cbn [app]; intros H; [exact H|]. inversion H; subst. apply IH. assumption. Qed.
Lemma NoDup_app_disj {A} (a b : list A) x : NoDup (a ++ b) -> In x a -> In x b -> False.
Proof.
  induction a as [|y a IH]; cbn [app]; intros H Ha Hb; [destruct Ha|]. inversion H; subst.
  destruct Ha as [->|Ha]; [apply H2; apply in_or_app; right; exact Hb|]. apply IH; assumption.
Qed.

Lemma NoDup_app_intro {A} (a b : list A) : NoDup a -> NoDup b -> (forall x, In x a -> In x b -> False) -> NoDup (a ++ b).
Proof.
  induction a as [|x a IH]; intros Ha Hb H; cbn [app]; [exact Hb|]. inversion Ha; subst. constructor.
  - intros Hin. apply in_app_or in Hin. destruct Hin as [Hin|Hin]; [contradiction|]. apply (H x); [left; reflexivity|exact Hin].
  - apply IH; try assumption. intros y Hy. apply H. right. exact Hy.
Qed.


(* ------------------------------------------------------------------------------------------ wf_design, taken apart *)
Lemma wf_mods_nth d : forall ms k0 j m, wf_mods d k0 ms = Ok tt -> nth_error ms j = Some m -> wf_module d (k0 + j) m = Ok tt.
Proof.
  induction ms as [|m0 ms IH]; intros k0 j m H Hn; [destruct j; discriminate|].
  cbn [wf_mods] in H. apply bind_ok in H. destruct H as [[] [H0 H1]].
  destruct j as [|j]; cbn [nth_error] in Hn.
  - inversion Hn; subst. rewrite Nat.add_0_r. exact H0.
  - replace (k0 + S j)%nat with (S k0 + j)%nat by lia. eapply IH; eassumption.
Qed.

Lemma wf_design_inv d : wf_design d = Ok tt ->
  (d_top d < Datatypes.length (d_mods d))%nat /\ NoDup (map m_name (d_mods d)) /\
  forall k m, nth_error (d_mods d) k = Some m -> wf_module d k m = Ok tt.
Proof.
  unfold wf_design. intros H. apply bind_ok in H. destruct H as [[] [H1 H]]. apply bind_ok in H. destruct H as [[] [H2 H3]].
  apply check_ok in H1. apply check_ok in H2. split; [apply Nat.ltb_lt; exact H1|]. split; [apply nodup_names_NoDup; exact H2|].
  intros k m Hn. apply (wf_mods_nth d _ 0%nat k m H3 Hn).
Qed.

Lemma nth_mod_nth d k m : nth_mod d k = Ok m <-> nth_error (d_mods d) k = Some m.
Proof. unfold nth_mod. destruct (nth_error (d_mods d) k); cbn [ofopt]; split; intros H; inversion H; reflexivity. Qed.

Definition mod_names (m : module) : list name := map fst (m_ports m) ++ map fst (m_sigs m) ++ map i_name (m_insts m).

Lemma wf_module_inv d k m : wf_module d k m = Ok tt ->
  m_name m <> "" /\ NoDup (mod_names m) /\ forallb (fun pw : name * Z => 1 <=? snd pw) (m_ports m ++ m_sigs m) = true /\
  forall x, In x (m_insts m) -> wf_inst d k m x = Ok tt.
Proof.
  unfold wf_module. intros H. apply bind_ok in H. destruct H as [[] [H1 H]]. apply bind_ok in H. destruct H as [[] [H2 H]].
  apply bind_ok in H. destruct H as [[] [H3 H4]]. apply check_ok in H1. apply check_ok in H2. apply check_ok in H3.
  split; [intros E; rewrite E in H1; discriminate|]. split; [apply nodup_names_NoDup; exact H2|]. split; [exact H3|].
  intros x Hx. eapply all_ok_In; eassumption.
Qed.

Lemma wf_inst_inv d k m x : wf_inst d k m x = Ok tt ->
  match i_of x with TMod j => (j < k)%nat | TDev _ _ => True end /\
  exists ports, target_ports d (i_of x) = Ok ports /\ NoDup (map fst (i_conns x)) /\
    (forall c, In c (i_conns x) -> wf_conn d m x ports c = Ok tt) /\
    (forall pw, In pw ports -> assoc (fst pw) (i_conns x) = None -> 0 < refs_to m (i_name x) (fst pw)).
Proof.
  unfold wf_inst. intros H. apply bind_ok in H. destruct H as [[] [H1 H]]. apply bind_ok in H. destruct H as [ports [H2 H]].
  apply bind_ok in H. destruct H as [[] [H3 H]]. apply bind_ok in H. destruct H as [[] [H4 H5]].
  split.
  - destruct (i_of x); [|exact I]. apply check_ok in H1. apply Nat.ltb_lt. exact H1.
  - exists ports. split; [exact H2|]. apply check_ok in H3. split; [apply nodup_names_NoDup; exact H3|]. split.
    + intros c Hc. eapply all_ok_In; eassumption.
    + intros pw Hpw Hn. pose proof (all_ok_In _ _ pw H5 Hpw) as Q. cbv beta in Q. rewrite Hn in Q. apply check_ok in Q. lia.
Qed.

(* the two definitions of the leaves of an expression coincide *)
Lemma leaves_sx_leaves x : leaves x = sx_leaves x.
Proof.
  induction x as [id w|p ix IH|ps IH] using sx_ind'; cbn [leaves sx_leaves]; [reflexivity|exact IH|].
  f_equal.
Qed.

Lemma is_nc_shape m cx site : is_nc m cx = Some site -> exists id w, cx = XSig id w /\ assocN id (m_leaves m) = Some (LNc site).
Proof.
  unfold is_nc. destruct cx as [id w|p ix|ps]; try discriminate.
  destruct (assocN id (m_leaves m)) as [[s|i p|s]|] eqn:E; try discriminate.
  intros H; inversion H; subst. eauto.
Qed.

(* ------------------------------------------------------------------------------------------ paths *)
Lemma vdown_mod_down d : forall p m m', vdown d m p = Ok m' -> mod_down d m p = Ok m'.
Proof.
  induction p as [|[i e] p IH]; intros m m' H; cbn [vdown mod_down] in *; [exact H|].
  destruct (ofopt EMissing (find_inst (m_insts m) i)) as [x|]; cbn [bind] in *; [|discriminate].
  destruct (elem_ok x e); [|discriminate]. destruct (i_of x); [|discriminate].
  destruct (nth_mod d k) as [mk|]; cbn [bind] in *; [|discriminate]. apply IH. exact H.
Qed.

Lemma vmod_at_mod_at d p m : vmod_at d p = Ok m -> mod_at d p = Ok m.
Proof.
  unfold vmod_at, mod_at. destruct (nth_mod d (d_top d)); cbn [bind]; [|discriminate]. apply vdown_mod_down.
Qed.

Lemma vdown_app d : forall p q m m', vdown d m (p ++ q) = Ok m' <-> exists m1, vdown d m p = Ok m1 /\ vdown d m1 q = Ok m'.
Proof.
  induction p as [|[i e] p IH]; intros q m m'; cbn [app vdown].
  - split; [intros H; exists m; split; [reflexivity|exact H]|intros [m1 [H1 H2]]; inversion H1; subst; exact H2].
  - destruct (ofopt EMissing (find_inst (m_insts m) i)) as [x|]; cbn [bind]; [|split; [discriminate|intros [m1 [H _]]; discriminate]].
    destruct (elem_ok x e); [|split; [discriminate|intros [m1 [H _]]; discriminate]].
    destruct (i_of x); [|split; [discriminate|intros [m1 [H _]]; discriminate]].
    destruct (nth_mod d k) as [mk|]; cbn [bind]; [|split; [discriminate|intros [m1 [H _]]; discriminate]].
    apply IH.
Qed.

(* the module at (i, e) :: p is reached from the module at p through element e of its instance i *)
Lemma vmod_at_cons d i e p m : vmod_at d (((i, e) : pelem) :: p) = Ok m <->
  exists m0 x k, vmod_at d p = Ok m0 /\ find_inst (m_insts m0) i = Some x /\ elem_ok x e = true /\
                 i_of x = TMod k /\ nth_mod d k = Ok m.
Proof.
  unfold vmod_at. cbn [rev]. destruct (nth_mod d (d_top d)) as [top|]; cbn [bind].
  - rewrite vdown_app. split.
    + intros [m0 [H0 H1]]. cbn [vdown] in H1.
      destruct (find_inst (m_insts m0) i) as [x|] eqn:Ef; cbn [ofopt bind] in H1; [|discriminate].
      destruct (elem_ok x e) eqn:Ee; [|discriminate]. destruct (i_of x) as [k|] eqn:Eo; [|discriminate].
      destruct (nth_mod d k) as [mk|] eqn:Ek; cbn [bind vdown] in H1; [|discriminate]. inversion H1; subst.
      exists m0, x, k. auto.
    + intros [m0 [x [k [H0 [Hf [He [Ho Hk]]]]]]]. exists m0. split; [exact H0|]. cbn [vdown].
      rewrite Hf. cbn [ofopt bind]. rewrite He, Ho, Hk. reflexivity.
  - split; [discriminate|]. intros [m0 [x [k [H _]]]]. discriminate.
Qed.

(* ------------------------------------------------------------------------------------------ the step, case by case *)
Lemma step_sig_top d s k : Nets.step d (NSig [] s k) = Ok (NSig [] s k).
Proof. reflexivity. Qed.

Lemma step_sig_up d i e p s k m : mod_at d (((i, e) : pelem) :: p) = Ok m ->
  Nets.step d (NSig (((i, e) : pelem) :: p) s k) = Ok (if is_port m s then NPort p i e s k else NSig (((i, e) : pelem) :: p) s k).
Proof. intros H. cbn [Nets.step]. rewrite H. cbn [bind]. destruct (is_port m s); reflexivity. Qed.

(* what a port bit is connected to inside its module *)
Inductive ltgt := LtSig (s : name) (j : Z) | LtPort (i p : name) (j : Z) | LtSelf.

Definition local_tgt (d : design) (m : module) (x : inst) (e : Z) (port : name) (k : Z) : result ltgt :=
  ob <- conn_bit d x e port k ;;
  match ob with
  | None => Ok LtSelf
  | Some (id, j) =>
      lf <- ofopt EMissing (assocN id (m_leaves m)) ;;
      match lf with
      | LSig s => Ok (LtSig s j)
      | LRef i' p' => Ok (LtPort i' p' j)
      | LNc _ => Ok LtSelf
      end
  end.

Definition ltgt_node (p : path) (i : name) (e : Z) (port : name) (k : Z) (t : ltgt) : node :=
  match t with
  | LtSig s j => NSig p s j
  | LtPort i' p' j => NPort p i' 0 p' j
  | LtSelf => NPort p i e port k
  end.

Lemma step_port d p i e port k m x : mod_at d p = Ok m -> find_inst (m_insts m) i = Some x ->
  Nets.step d (NPort p i e port k) = (t <- local_tgt d m x e port k ;; Ok (ltgt_node p i e port k t)).
Proof.
  intros Hm Hx. cbn [Nets.step]. rewrite Hm. cbn [bind]. rewrite Hx. cbn [ofopt bind]. unfold local_tgt.
  destruct (conn_bit d x e port k) as [[[id j]|]|]; cbn [bind]; try reflexivity.
  destruct (assocN id (m_leaves m)) as [[s|i' p'|s]|]; cbn [ofopt bind]; reflexivity.
Qed.

(* ------------------------------------------------------------------------------------------ totality of the step *)
Lemma vdown_nth d : forall p m m', vdown d m p = Ok m' -> m' = m \/ exists k, nth_mod d k = Ok m'.
Proof.
  induction p as [|[i e] p IH]; intros m m' H; cbn [vdown] in H; [inversion H; left; reflexivity|].
  destruct (ofopt EMissing (find_inst (m_insts m) i)) as [x|]; cbn [bind] in H; [|discriminate].
  destruct (elem_ok x e); [|discriminate]. destruct (i_of x); [|discriminate].
  destruct (nth_mod d k) as [mk|] eqn:Ek; cbn [bind] in H; [|discriminate].
  destruct (IH _ _ H) as [->|Hk]; right; eauto.
Qed.

Lemma vmod_at_nth d p m : vmod_at d p = Ok m -> exists k, nth_mod d k = Ok m.
Proof.
  unfold vmod_at. destruct (nth_mod d (d_top d)) as [top|] eqn:Et; cbn [bind]; [|discriminate].
  intros H. destruct (vdown_nth d _ _ _ H) as [->|Hk]; eauto.
Qed.

Lemma frag_ok_conn d k m x c : frag_ok d = true -> nth_mod d k = Ok m -> In x (m_insts m) -> In c (i_conns x) ->
  conn_frag d m x c = true.
Proof.
  unfold frag_ok. intros H Hm Hx Hc. apply nth_mod_nth in Hm. apply nth_error_In in Hm.
  rewrite forallb_forall in H. specialize (H m Hm). rewrite forallb_forall in H. specialize (H x Hx).
  rewrite forallb_forall in H. apply H. exact Hc.
Qed.

Lemma wf_conn_inv d m x ports c : wf_conn d m x ports c = Ok tt ->
  exists w, assoc (fst c) ports = Some w /\ (forall lw, In lw (sx_leaves (snd c)) -> wf_leaf d m lw = Ok tt) /\
    match is_nc m (snd c) with
    | Some _ => refs_to m (i_name x) (fst c) = 0
    | None => has_nc_inside m (snd c) = false /\
              exists cw, xwidth (snd c) = Ok cw /\ (cw = w \/ (0 < i_n x /\ cw = i_n x * w))
    end.
Proof.
  unfold wf_conn. intros H. apply bind_ok in H. destruct H as [w [Hw H]]. apply ofopt_ok in Hw.
  apply bind_ok in H. destruct H as [[] [Hl H]]. exists w. split; [exact Hw|]. split; [intros lw Hin; eapply all_ok_In; eassumption|].
  destruct (is_nc m (snd c)).
  - apply check_ok in H. lia.
  - apply bind_ok in H. destruct H as [[] [Hn H]]. apply check_ok in Hn. apply negb_true_iff in Hn. split; [exact Hn|].
    apply bind_ok in H. destruct H as [cw [Hcw H]]. apply check_ok in H. exists cw. split; [exact Hcw|]. lia.
Qed.

Lemma xwidth_ok_xbits x cw : xwidth x = Ok cw -> exists bits, xbits x = Ok bits /\ zlen bits = cw.
Proof.
  intros H. pose proof (xwidth_xbits x) as W. destruct (xbits x) as [l|e].
  - exists l. split; [reflexivity|]. rewrite H in W. inversion W. reflexivity.
  - destruct W as [e' W]. rewrite H in W. discriminate.
Qed.

Definition ltgt_valid (d : design) (m : module) (t : ltgt) : Prop :=
  match t with
  | LtSig s j => exists w, sig_width m s = Some w /\ 0 <= j < w
  | LtPort i p j => exists x w, find_inst (m_insts m) i = Some x /\ i_n x <= 0 /\ port_width d x p = Ok w /\ 0 <= j < w
  | LtSelf => True
  end.

Lemma wf_leaf_inv d m lw : wf_leaf d m lw = Ok tt ->
  exists lf, assocN (fst lw) (m_leaves m) = Some lf /\
    match lf with
    | LSig s => sig_width m s = Some (snd lw)
    | LRef i p => exists x, find_inst (m_insts m) i = Some x /\ i_n x <= 0 /\ port_width d x p = Ok (snd lw)
    | LNc _ => True
    end.
Proof.
  unfold wf_leaf. intros H. apply bind_ok in H. destruct H as [lf [Hlf H]]. apply ofopt_ok in Hlf. exists lf. split; [exact Hlf|].
  destruct lf as [s|i p|s].
  - apply bind_ok in H. destruct H as [w [Hw H]]. apply ofopt_ok in Hw. apply check_ok in H. rewrite Hw. f_equal. lia.
  - apply bind_ok in H. destruct H as [x [Hx H]]. apply ofopt_ok in Hx. apply bind_ok in H. destruct H as [w [Hw H]].
    apply bind_ok in H. destruct H as [[] [H1 H2]]. apply check_ok in H1. apply check_ok in H2.
    exists x. split; [exact Hx|]. split; [lia|]. rewrite Hw. f_equal. lia.
  - exact I.
Qed.

(* the index into the bits of the connection that conn_bit uses *)
Definition conn_index (x : inst) (cw w e k : Z) : Z := if cw =? w then k else e * w + k.

Lemma conn_bit_some d x e port k cx bits w : assoc port (i_conns x) = Some cx -> xbits cx = Ok bits ->
  port_width d x port = Ok w -> 0 <= k < w -> elem_ok x e = true ->
  (zlen bits = w \/ (0 < i_n x /\ zlen bits = i_n x * w)) ->
  conn_bit d x e port k = (b <- pick bits (conn_index x (zlen bits) w e k) ;; Ok (Some b)) /\
  0 <= conn_index x (zlen bits) w e k < zlen bits.
Proof.
  intros Ha Hb Hw Hk He Hcw. unfold conn_bit, conn_index. rewrite Ha, Hb. cbn [bind]. rewrite Hw. cbn [bind].
  assert ((k <? 0) || (w <=? k) = false) as -> by lia.
  destruct (zlen bits =? w) eqn:E1; [split; [reflexivity|lia]|].
  destruct Hcw as [Hcw|[Hn Hcw]]; [lia|].
  assert ((0 <? i_n x) && (zlen bits =? i_n x * w) = true) as -> by lia.
  split; [reflexivity|]. unfold elem_ok in He. destruct (i_n x <=? 0) eqn:En; [lia|]. nia.
Qed.

Lemma local_tgt_total d k m x e port kk w :
  wf_module d k m = Ok tt -> (forall c, In c (i_conns x) -> conn_frag d m x c = true) ->
  In x (m_insts m) -> elem_ok x e = true -> port_width d x port = Ok w -> 0 <= kk < w ->
  exists t, local_tgt d m x e port kk = Ok t /\ ltgt_valid d m t.
Proof.
  intros Hwf Hfrag Hx He Hw Hk.
  destruct (wf_module_inv _ _ _ Hwf) as [_ [_ [_ Hin]]]. specialize (Hin x Hx).
  destruct (wf_inst_inv _ _ _ _ Hin) as [_ [ports [Hp [_ [Hc _]]]]].
  unfold local_tgt.
  destruct (assoc port (i_conns x)) as [cx|] eqn:Ea.
  2:{ unfold conn_bit. rewrite Ea. cbn [bind]. exists LtSelf. split; [reflexivity|exact I]. }
  pose proof (assoc_In _ _ _ Ea) as Hcin. specialize (Hc _ Hcin). specialize (Hfrag _ Hcin).
  destruct (wf_conn_inv _ _ _ _ _ Hc) as [w' [Hw' [Hl Hnc]]]. cbn [fst snd] in *.
  assert (w' = w) as ->.
  { unfold port_width in Hw. rewrite Hp in Hw. cbn [bind] in Hw. apply ofopt_ok in Hw. congruence. }
  destruct (is_nc m cx) as [site|] eqn:Enc.
  - destruct (is_nc_shape _ _ _ Enc) as [id [wl [-> Hlf]]].
    unfold conn_frag in Hfrag. cbn [snd fst] in Hfrag. rewrite Hlf, Hw in Hfrag. assert (wl = w) as -> by lia.
    assert (xbits (XSig id w) = Ok (sig_bits id w)) as Hb by (cbn [xbits]; destruct (w <? 1) eqn:E; [lia|reflexivity]).
    destruct (conn_bit_some d x e port kk _ _ w Ea Hb Hw Hk He) as [Hcb Hidx]; [left; apply sig_bits_len; lia|].
    rewrite Hcb. destruct (pick_ok _ _ Hidx) as [[id' j] [Hpk _]]. rewrite Hpk. cbn [bind].
    apply pick_In in Hpk. unfold sig_bits in Hpk. apply in_map_iff in Hpk. destruct Hpk as [j' [Hj' _]]. inversion Hj'; subst id'.
    rewrite Hlf. cbn [ofopt bind]. exists LtSelf. split; [reflexivity|exact I].
  - destruct Hnc as [_ [cw [Hcw Hcase]]].
    destruct (xwidth_ok_xbits _ _ Hcw) as [bits [Hb Hlen]].
    destruct (conn_bit_some d x e port kk _ _ w Ea Hb Hw Hk He) as [Hcb Hidx]; [rewrite Hlen; exact Hcase|].
    rewrite Hcb. destruct (pick_ok _ _ Hidx) as [[id j] [Hpk _]]. rewrite Hpk. cbn [bind].
    apply pick_In in Hpk. destruct (xbits_inside _ _ Hb _ _ Hpk) as [wl [Hlv Hj]]. rewrite leaves_sx_leaves in Hlv.
    destruct (wf_leaf_inv _ _ _ (Hl _ Hlv)) as [lf [Hlf Hkind]]. cbn [fst snd] in *. rewrite Hlf. cbn [ofopt bind].
    destruct lf as [s|i' p'|s].
    + exists (LtSig s j). split; [reflexivity|]. cbn. eauto.
    + destruct Hkind as [x' [Hx' [Hn' Hw'']]]. exists (LtPort i' p' j). split; [reflexivity|]. cbn. exists x', wl. auto.
    + exists LtSelf. split; [reflexivity|exact I].
Qed.

Theorem step_total d : wf_design d = Ok tt -> frag_ok d = true ->
  forall x, valid d x -> exists y, Nets.step d x = Ok y /\ valid d y.
Proof.
  intros Hwf Hfr x Hv. destruct (wf_design_inv _ Hwf) as [_ [_ Hmods]].
  destruct x as [p s k|p i e port k|p s k]; [| |destruct Hv].
  - destruct Hv as [m [w [Hm [Hs Hk]]]]. destruct p as [|[i e] p'].
    + exists (NSig [] s k). split; [reflexivity|]. exists m, w. auto.
    + rewrite (step_sig_up d i e p' s k m (vmod_at_mod_at _ _ _ Hm)).
      destruct (is_port m s) eqn:Ep.
      * exists (NPort p' i e s k). split; [reflexivity|].
        apply vmod_at_cons in Hm. destruct Hm as [m0 [x [kx [H0 [Hf [He [Ho Hk']]]]]]].
        exists m0, x, w. repeat split; try assumption; try lia.
        unfold port_width, target_ports. rewrite Ho, Hk'. cbn [bind].
        unfold is_port in Ep. unfold sig_width in Hs. destruct (assoc s (m_ports m)); [|discriminate]. rewrite Hs. reflexivity.
      * exists (NSig ((i, e) :: p') s k). split; [reflexivity|]. exists m, w. auto.
  - destruct Hv as [m [x [w [Hm [Hf [He [Hw Hk]]]]]]].
    destruct (vmod_at_nth _ _ _ Hm) as [km Hkm]. pose proof (Hmods km m (proj1 (nth_mod_nth _ _ _) Hkm)) as Hwm.
    destruct (find_inst_In _ _ _ Hf) as [Hxin _].
    destruct (local_tgt_total d km m x e port k w Hwm) as [t [Ht Hval]]; try assumption.
    { intros c Hc. eapply frag_ok_conn; eassumption. }
    rewrite (step_port d p i e port k m x (vmod_at_mod_at _ _ _ Hm) Hf), Ht. cbn [bind].
    exists (ltgt_node p i e port k t). split; [reflexivity|].
    destruct t as [s j|i' p' j|]; cbn [ltgt_node ltgt_valid] in *.
    + destruct Hval as [w' [Hs Hj]]. exists m, w'. auto.
    + destruct Hval as [x' [w' [Hx' [Hn' [Hw' Hj]]]]]. exists m, x', w'. repeat split; try assumption; try lia.
      unfold elem_ok. destruct (i_n x' <=? 0) eqn:E; lia.
    + exists m, x, w. auto.
Qed.
