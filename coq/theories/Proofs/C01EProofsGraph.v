(* Proofs/C01EProofsGraph.v — partial functional graphs.
   `same_net` of Spec/Nets.v is "the orbits under the partial one-step map meet".  On a set of valid nodes that is
   closed under the step and on which the step is total, this is the equivalence closure of the step relation
   (FunGraph.conn_meet), and it is transported along two kinds of graph change:
     * an injective node map that commutes with the step                      (sim_meet)
     * a rewiring with a retraction: old edges stay joined, new edges join only what was joined   (rewire_meet) *)
Require Import Hdl21.Base.PyInt Hdl21.Proofs.FunGraph.

Section Partial.
Variable A : Type.
Variable g : A -> result A.

Fixpoint iter_r (n : nat) (x : A) : result A :=
  match n with O => Ok x | S n' => y <- g x ;; iter_r n' y end.

Definition meet_r (x y : A) : Prop := exists m n z, iter_r m x = Ok z /\ iter_r n y = Ok z.

Variable V : A -> Prop.
Hypothesis V_total : forall x, V x -> exists y, g x = Ok y /\ V y.

Definition gf (x : A) : A := match g x with Ok y => y | Error _ => x end.

Lemma iter_r_gf n : forall x, V x -> iter_r n x = Ok (Nat.iter n gf x) /\ V (Nat.iter n gf x).
Proof.
  induction n as [|n IH]; intros x Hx; simpl; [split; [reflexivity|exact Hx]|].
  destruct (V_total x Hx) as [y [Hy Vy]]. rewrite Hy. cbn [bind].
  destruct (IH y Vy) as [E Vn].
  assert (Nat.iter n gf y = gf (Nat.iter n gf x)) as Ec.
  { rewrite <- iter_comm. f_equal. unfold gf. rewrite Hy. reflexivity. }
  rewrite E, Ec. split; [reflexivity|]. rewrite <- Ec. exact Vn.
Qed.

Lemma meet_r_meet x y : V x -> V y -> (meet_r x y <-> meet A gf x y).
Proof.
  intros Hx Hy. split.
  - intros [m [n [z [H1 H2]]]]. exists m, n.
    rewrite (proj1 (iter_r_gf m x Hx)) in H1. rewrite (proj1 (iter_r_gf n y Hy)) in H2. congruence.
  - intros [m [n E]]. exists m, n, (Nat.iter m gf x). split; [apply iter_r_gf; exact Hx|].
    rewrite E. apply iter_r_gf. exact Hy.
Qed.

(* the equivalence closure of the step relation on valid nodes *)
Inductive ec : A -> A -> Prop :=
| ec_refl x : ec x x
| ec_step x y : V x -> g x = Ok y -> ec x y
| ec_sym x y : ec x y -> ec y x
| ec_trans x y z : ec x y -> ec y z -> ec x z.

Lemma ec_conn x y : ec x y -> conn A gf x y.
Proof.
  induction 1 as [x|x y Hv Hg|x y _ IH|x y z _ IH1 _ IH2].
  - apply c_refl.
  - replace y with (gf x) by (unfold gf; rewrite Hg; reflexivity). apply c_step.
  - apply c_sym. exact IH.
  - eapply c_trans; eassumption.
Qed.

Lemma iter_ec n : forall x, V x -> ec x (Nat.iter n gf x).
Proof.
  induction n as [|n IH]; intros x Hx; simpl; [apply ec_refl|].
  eapply ec_trans; [apply IH; exact Hx|].
  destruct (iter_r_gf n x Hx) as [_ Vn]. set (z := Nat.iter n gf x) in *. destruct (V_total _ Vn) as [y [Hy _]].
  apply ec_step; [exact Vn|]. unfold gf. rewrite Hy. reflexivity.
Qed.

Theorem meet_r_ec x y : V x -> V y -> (meet_r x y <-> ec x y).
Proof.
  intros Hx Hy. rewrite (meet_r_meet x y Hx Hy). split.
  - intros [m [n E]]. eapply ec_trans; [apply (iter_ec m x Hx)|]. rewrite E. apply ec_sym. apply iter_ec. exact Hy.
  - intros H. apply conn_meet. apply ec_conn. exact H.
Qed.
End Partial.

Arguments iter_r {A} g n x.
Arguments meet_r {A} g x y.
Arguments ec {A} g V x y.

(* ---- an injective map of the valid nodes that commutes with the step ---- *)
Section Sim.
Variables A B : Type.
Variable g : A -> result A.
Variable g' : B -> result B.
Variable V : A -> Prop.
Variable phi : A -> B.
Hypothesis V_total : forall x, V x -> exists y, g x = Ok y /\ V y.
Hypothesis commute : forall x y, V x -> g x = Ok y -> g' (phi x) = Ok (phi y).
Hypothesis inj : forall x y, V x -> V y -> phi x = phi y -> x = y.

Lemma sim_iter n : forall x, V x -> exists z, iter_r g n x = Ok z /\ V z /\ iter_r g' n (phi x) = Ok (phi z).
Proof.
  induction n as [|n IH]; intros x Hx; cbn [iter_r].
  - exists x. auto.
  - destruct (V_total x Hx) as [y [Hy Vy]]. rewrite Hy, (commute x y Hx Hy). cbn [bind]. apply IH. exact Vy.
Qed.

Theorem sim_meet x y : V x -> V y -> (meet_r g x y <-> meet_r g' (phi x) (phi y)).
Proof.
  intros Hx Hy. split.
  - intros [m [n [z [H1 H2]]]].
    destruct (sim_iter m x Hx) as [z1 [E1 [_ F1]]]. destruct (sim_iter n y Hy) as [z2 [E2 [_ F2]]].
    exists m, n, (phi z). split; [|]; congruence.
  - intros [m [n [z [H1 H2]]]].
    destruct (sim_iter m x Hx) as [z1 [E1 [V1 F1]]]. destruct (sim_iter n y Hy) as [z2 [E2 [V2 F2]]].
    assert (phi z1 = phi z2) as E by congruence. apply inj in E; try assumption.
    exists m, n, z1. split; [exact E1|]. rewrite E. exact E2.
Qed.
End Sim.

(* ---- rewiring: both graphs on the same node type, a retraction psi of the new nodes onto the old ones ---- *)
Section Rewire.
Variable A : Type.
Variable g g' : A -> result A.
Variable V V' : A -> Prop.
Variable psi : A -> A.
Hypothesis V_total : forall x, V x -> exists y, g x = Ok y /\ V y.
Hypothesis V'_total : forall x, V' x -> exists y, g' x = Ok y /\ V' y.
Hypothesis V_V' : forall x, V x -> V' x.
Hypothesis psi_id : forall x, V x -> psi x = x.
Hypothesis psi_V : forall u, V' u -> V (psi u).
(* every old connection is still joined by the new ones *)
Hypothesis fwd : forall x y, V x -> g x = Ok y -> ec g' V' x y.
(* every new connection joins only what the old ones joined *)
Hypothesis bwd : forall u v, V' u -> g' u = Ok v -> ec g V (psi u) (psi v).

Lemma rewire_fwd x y : ec g V x y -> ec g' V' x y.
Proof.
  induction 1 as [x|x y Hv Hg|x y _ IH|x y z _ IH1 _ IH2].
  - apply ec_refl.
  - apply fwd; assumption.
  - apply ec_sym. exact IH.
  - eapply ec_trans; eassumption.
Qed.

Lemma rewire_bwd u v : ec g' V' u v -> ec g V (psi u) (psi v).
Proof.
  induction 1 as [x|x y Hv Hg|x y _ IH|x y z _ IH1 _ IH2].
  - apply ec_refl.
  - apply bwd; assumption.
  - apply ec_sym. exact IH.
  - eapply ec_trans; eassumption.
Qed.

Theorem rewire_meet x y : V x -> V y -> (meet_r g x y <-> meet_r g' x y).
Proof.
  intros Hx Hy.
  rewrite (meet_r_ec A g V V_total x y Hx Hy).
  rewrite (meet_r_ec A g' V' V'_total x y (V_V' x Hx) (V_V' y Hy)).
  split; [apply rewire_fwd|].
  intros H. apply rewire_bwd in H. rewrite (psi_id x Hx), (psi_id y Hy) in H. exact H.
Qed.
End Rewire.
