(* Proofs/C02FProofsAgree.v — C02F extends C02E: on EVERY design (valid or not) whose port references and no-connects are
   whole connections (Model/C02EPipeline.v:frag_conns, the first half of frag_e) the checked pipeline over the C01F functions
   (Model/C02FPipeline.v) and the checked pipeline of C02E are the same function, errors included:
     the constructors' check has nothing to refuse, module_portrefs holds the same references (mentioned2 = mentioned),
     and after step 1 no reference leaf is left, so re-parenting is the identity. *)
From Coq Require Import String.
Require Import Hdl21.Base.PyInt Hdl21.Spec.PySlice Hdl21.Model.Slice Hdl21.Model.Resolve Hdl21.Base.Design
               Hdl21.Spec.WfDesign Hdl21.Base.Package Hdl21.Model.Checks Hdl21.Model.C02Checks Hdl21.Model.C01EElab Hdl21.Model.C01FElab
               Hdl21.Model.C02EPipeline Hdl21.Model.C02FPipeline
               Hdl21.Proofs.ResolveProofs Hdl21.Proofs.C02Proofs Hdl21.Proofs.C01EProofsBase Hdl21.Proofs.C01EProofsPass
               Hdl21.Proofs.C02EProofsBase
               Hdl21.Proofs.C01FProofsGroups Hdl21.Proofs.C01FProofsPlan Hdl21.Proofs.C01FProofsPortRefs
               Hdl21.Proofs.C01FProofsReparent Hdl21.Proofs.C02FProofsReparent.
Open Scope Z_scope.

Definition not_ref (m : module) (id : N) : Prop := match assocN id (m_leaves m) with Some (LRef _ _) => False | _ => True end.

Lemma assocN_map_sig {E} (f : E -> N) (g : E -> name) id l lf : assocN id (map (fun e => (f e, LSig (g e))) l) = Some lf -> exists nm, lf = LSig nm.
Proof.
  induction l as [|e l IH]; cbn [map assocN]; [discriminate|]. destruct (N.eqb id (f e)); [intros H; inversion H; eauto|exact IH].
Qed.

Section AgreeModule.
Variables (d : design) (ncn : list (N * name)) (m : module).
Hypothesis Hwhole : forall x c, In x (m_insts m) -> In c (i_conns x) -> conn_whole m c = true.

Lemma whole_leaves x c : In x (m_insts m) -> In c (i_conns x) -> as_ref m (snd c) = None ->
  forall lw, In lw (sx_leaves (snd c)) -> not_ref m (fst lw).
Proof.
  intros Hx Hc Hr lw Hl. pose proof (Hwhole x c Hx Hc) as H. unfold conn_whole in H. unfold not_ref.
  destruct (snd c) as [id w|p ix|ps] eqn:Ec.
  - cbn [sx_leaves] in Hl. destruct Hl as [<-|[]]. cbn [fst]. unfold as_ref, leaf_at in Hr.
    destruct (assocN id (m_leaves m)) as [[s|i p|s]|]; try exact I. discriminate.
  - rewrite forallb_forall in H. specialize (H lw Hl). unfold leaf_whole_ok in H.
    destruct (assocN (fst lw) (m_leaves m)) as [[s|i p0|s]|]; try exact I; discriminate.
  - rewrite forallb_forall in H. specialize (H lw Hl). unfold leaf_whole_ok in H.
    destruct (assocN (fst lw) (m_leaves m)) as [[s|i p0|s]|]; try exact I; discriminate.
Qed.

Lemma whole_refs_in x c : In x (m_insts m) -> In c (i_conns x) ->
  refs_in m (snd c) = match as_ref m (snd c) with Some q => [q] | None => [] end.
Proof.
  intros Hx Hc. destruct (as_ref m (snd c)) as [q|] eqn:E.
  - apply as_ref_refs_in. exact E.
  - pose proof (whole_leaves x c Hx Hc E) as H. unfold refs_in. induction (sx_leaves (snd c)) as [|lw l IH]; cbn [flat_map]; [reflexivity|].
    rewrite IH by (intros y Hy; apply H; right; exact Hy). specialize (H lw (or_introl eq_refl)). unfold not_ref in H. unfold leaf_ref.
    destruct (assocN (fst lw) (m_leaves m)) as [[s|i p0|s]|]; try reflexivity. destruct H.
Qed.

Lemma whole_mentioned2 : mentioned2 m = mentioned m.
Proof.
  unfold mentioned2, mentioned. f_equal.
  assert (forall l : list inst, (forall x, In x l -> In x (m_insts m)) ->
            flat_map (fun x => flat_map (fun c => refs_in m (snd c)) (i_conns x)) l =
            flat_map (fun x => flat_map (fun c => match as_ref m (snd c) with Some q => [q] | None => [] end) (i_conns x)) l) as G.
  { induction l as [|x l IH]; intros Hl; cbn [flat_map]; [reflexivity|]. rewrite IH by (intros y Hy; apply Hl; right; exact Hy). f_equal.
    assert (forall cs : list (name * sx), (forall c, In c cs -> In c (i_conns x)) ->
              flat_map (fun c => refs_in m (snd c)) cs = flat_map (fun c => match as_ref m (snd c) with Some q => [q] | None => [] end) cs) as G2.
    { induction cs as [|c cs IH2]; intros Hcs; cbn [flat_map]; [reflexivity|]. rewrite IH2 by (intros y Hy; apply Hcs; right; exact Hy). f_equal.
      apply (whole_refs_in x c (Hl x (or_introl eq_refl)) (Hcs c (or_introl eq_refl))). }
    apply G2. auto. }
  apply G. auto.
Qed.

Lemma whole_seeds2 : seeds2 m = seeds m.
Proof. unfold seeds2, seeds, inst_seeds2, inst_seeds. rewrite whole_mentioned2. reflexivity. Qed.

Lemma whole_pr_table : pr_table2 d ncn m = pr_table d ncn m.
Proof. unfold pr_table2, pr_table. rewrite whole_seeds2. reflexivity. Qed.

(* no leaf of the module after step 1 is a reference, unless it was one before *)
Lemma ref_leaf_module1 table insts id : not_ref m id -> ref_leaf (module1 m table insts) id = None.
Proof.
  unfold not_ref, ref_leaf. cbn [module1 m_leaves]. rewrite assocN_app. intros H.
  destruct (assocN id (m_leaves m)) as [[s|i p|s]|]; try reflexivity; [destruct H|].
  destruct (assocN id (map (fun e : N * alloc * name => (fst (fst e), LSig (snd e))) table)) as [lf|] eqn:E; [|reflexivity].
  destruct (assocN_map_sig _ _ _ _ _ E) as [nm ->]. reflexivity.
Qed.

Lemma table_not_ref (allocs : list alloc) (names : list name) e : In e (number_allocs (combine allocs names) (next_leaf m)) -> not_ref m (fst (fst e)).
Proof.
  intros H. unfold not_ref. destruct (assocN (fst (fst e)) (m_leaves m)) as [lf|] eqn:E; [|exact I]. exfalso.
  apply assocN_In in E. apply next_leaf_above in E. destruct e as [[id a] nm]. apply number_allocs_spec in H. cbn [fst] in E. lia.
Qed.

(* every leaf of every connection after step 1 *)
Lemma step1_no_refs keys allocs names x x1 : In x (m_insts m) ->
  rewrite_inst m keys (number_allocs (combine allocs names) (next_leaf m)) x = Ok x1 ->
  forall c1 lw, In c1 (i_conns x1) -> In lw (sx_leaves (snd c1)) -> not_ref m (fst lw).
Proof.
  intros Hx Hr c1 lw Hc1 Hl. set (table := number_allocs (combine allocs names) (next_leaf m)) in *.
  destruct (rewrite_inst_inv _ _ _ _ _ _ Hr) as [_ [_ [_ [cs [Hcs Fc]]]]]. rewrite Hcs in Hc1. apply in_app_or in Hc1. destruct Hc1 as [Hc1|Hc1].
  - destruct (Forall2_In_r _ _ _ c1 Fc Hc1) as [c [Hc Hrc]]. unfold rewrite_conn in Hrc.
    destruct (as_ref m (snd c)) as [q|] eqn:Er.
    + apply bind_ok in Hrc. destruct Hrc as [e [He Hrc]]. inversion Hrc; subst c1. cbn [snd] in Hl.
      unfold res in He. apply bind_ok in He. destruct He as [g [_ He]]. apply bind_ok in He. destruct He as [gr [Hgr He]].
      destruct gr as [cx|o nmr].
      * inversion He; subst e. unfold group_res in Hgr. destruct (pconn m (attr m keys g)) as [cx'|] eqn:Ep; [|discriminate].
        destruct (as_ref m cx') eqn:Er'; [destruct (members m keys g); discriminate|]. destruct (as_nc m cx'); [discriminate|]. inversion Hgr; subst cx'.
        unfold pconn in Ep. destruct (find_inst (m_insts m) (fst (attr m keys g))) as [y|] eqn:Ef; [|discriminate].
        destruct (find_inst_In _ _ _ Ef) as [Hy _]. apply (whole_leaves y (snd (attr m keys g), cx) Hy (assoc_In _ _ _ Ep) Er' lw Hl).
      * apply bind_ok in He. destruct He as [en [Hen He]]. inversion He; subst e. cbn [sx_leaves] in Hl. destruct Hl as [<-|[]]. cbn [fst].
        apply ofopt_ok in Hen. unfold find_group in Hen. apply find_some in Hen. apply (table_not_ref allocs names en (proj1 Hen)).
    + destruct (as_nc m (snd c)) as [site|] eqn:Enc.
      * apply bind_ok in Hrc. destruct Hrc as [en [Hen Hrc]]. inversion Hrc; subst c1. cbn [snd sx_leaves] in Hl. destruct Hl as [<-|[]]. cbn [fst].
        apply ofopt_ok in Hen. unfold find_nc in Hen. apply find_some in Hen. apply (table_not_ref allocs names en (proj1 Hen)).
      * inversion Hrc; subst c1. apply (whole_leaves x c Hx Hc Er lw Hl).
  - unfold added_conns in Hc1. apply in_flat_map in Hc1. destruct Hc1 as [en [Hen Hc1]]. unfold added_one in Hc1.
    destruct (a_kind (snd (fst en))); [|destruct Hc1].
    destruct (_ && _ && _); [|destruct Hc1]. destruct Hc1 as [<-|[]]. cbn [snd sx_leaves] in Hl. destruct Hl as [<-|[]]. cbn [fst].
    apply (table_not_ref allocs names en Hen).
Qed.

Lemma reparent_module_noref fuel mm : (forall x c lw, In x (m_insts mm) -> In c (i_conns x) -> In lw (sx_leaves (snd c)) -> ref_leaf mm (fst lw) = None) ->
  reparent_module fuel mm = Ok mm.
Proof.
  intros Hn. unfold reparent_module.
  assert (traverse (reparent_inst mm fuel) (m_insts mm) = Ok (m_insts mm)) as ->; [|cbn [bind]; destruct mm; reflexivity].
  assert (forall l : list inst, (forall x, In x l -> In x (m_insts mm)) -> traverse (reparent_inst mm fuel) l = Ok l) as G; [|apply G; auto].
  induction l as [|x l IH]; intros Hl; cbn [traverse]; [reflexivity|].
  rewrite IH by (intros y Hy; apply Hl; right; exact Hy).
  assert (reparent_inst mm fuel x = Ok x) as ->; [|reflexivity]. unfold reparent_inst.
  assert (traverse (fun c : name * sx => e <- reparent mm fuel (snd c) ;; Ok (fst c, e)) (i_conns x) = Ok (i_conns x)) as ->; [|cbn [bind]; destruct x; reflexivity].
  assert (forall cs : list (name * sx), (forall c, In c cs -> In c (i_conns x)) ->
            traverse (fun c : name * sx => e <- reparent mm fuel (snd c) ;; Ok (fst c, e)) cs = Ok cs) as G2; [|apply G2; auto].
  induction cs as [|c cs IH2]; intros Hcs; cbn [traverse]; [reflexivity|].
  rewrite IH2 by (intros y Hy; apply Hcs; right; exact Hy).
  assert (reparent mm fuel (snd c) = Ok (snd c)) as ->; [|cbn [bind]; destruct c; reflexivity].
  apply reparent_no_refs. intros id w Hin. apply (Hn x c (id, w) (Hl x (or_introl eq_refl)) (Hcs c (or_introl eq_refl)) Hin).
Qed.

Theorem whole_portrefs2_module : portrefs2_module d ncn m = portrefs_module d ncn m.
Proof.
  unfold portrefs2_module, portrefs1_module, portrefs_module. rewrite whole_pr_table.
  destruct (pr_table d ncn m) as [[keys table]|e] eqn:Et; cbn [bind fst snd]; [|reflexivity].
  destruct (traverse (rewrite_inst m keys table) (m_insts m)) as [insts|e] eqn:Ei; cbn [bind fst snd]; [|reflexivity].
  unfold pr_table in Et. apply bind_ok in Et. destruct Et as [keys' [_ Et]]. apply bind_ok in Et. destruct Et as [allocs [_ Et]].
  apply bind_ok in Et. destruct Et as [names [_ Et]]. inversion Et; subst keys' table.
  change {| m_name := m_name m; m_ports := m_ports m;
            m_sigs := m_sigs m ++ map (fun e : N * alloc * name => (snd e, a_width (snd (fst e)))) (number_allocs (combine allocs names) (next_leaf m));
            m_insts := insts;
            m_leaves := m_leaves m ++ map (fun e : N * alloc * name => (fst (fst e), LSig (snd e))) (number_allocs (combine allocs names) (next_leaf m)) |}
    with (module1 m (number_allocs (combine allocs names) (next_leaf m)) insts).
  apply reparent_module_noref. intros x1 c1 lw Hx1 Hc1 Hl. cbn [module1 m_insts] in Hx1.
  apply traverse_Forall2 in Ei. destruct (Forall2_In_r _ _ _ x1 Ei Hx1) as [x [Hx Hr]].
  apply ref_leaf_module1. apply (step1_no_refs keys allocs names x x1 Hx Hr c1 lw Hc1 Hl).
Qed.

Lemma whole_build self : build_check self m = Ok tt.
Proof.
  unfold build_check. apply check_true. apply forallb_forall. intros x Hx. apply forallb_forall. intros c Hc. unfold build_conn.
  destruct (is_nc m (snd c)) eqn:En; [reflexivity|]. apply negb_true_iff. unfold has_nc_inside. apply not_true_is_false. intros Ex.
  apply existsb_exists in Ex. destruct Ex as [lw [Hl Hb]]. pose proof (Hwhole x c Hx Hc) as H. unfold conn_whole in H.
  destruct (snd c) as [id w|p ix|ps] eqn:Ec.
  - cbn [sx_leaves] in Hl. destruct Hl as [<-|[]]. cbn [fst] in Hb. unfold is_nc in En. destruct (assocN id (m_leaves m)) as [[s|i p|s]|]; discriminate.
  - rewrite forallb_forall in H. specialize (H lw Hl). unfold leaf_whole_ok in H. destruct (assocN (fst lw) (m_leaves m)) as [[s|i p0|s]|]; discriminate.
  - rewrite forallb_forall in H. specialize (H lw Hl). unfold leaf_whole_ok in H. destruct (assocN (fst lw) (m_leaves m)) as [[s|i p0|s]|]; discriminate.
Qed.
End AgreeModule.

Lemma frag_conns_whole d m : frag_conns d = true -> In m (d_mods d) -> forall x c, In x (m_insts m) -> In c (i_conns x) -> conn_whole m c = true.
Proof.
  intros F Hm x c Hx Hc. unfold frag_conns in F. rewrite forallb_forall in F. specialize (F m Hm). rewrite forallb_forall in F. specialize (F x Hx).
  rewrite forallb_forall in F. specialize (F c Hc). apply andb_prop in F. tauto.
Qed.

Lemma traverse_ext_in {A B} (f g : A -> result B) l : (forall x, In x l -> f x = g x) -> traverse f l = traverse g l.
Proof.
  induction l as [|x l IH]; intros H; cbn [traverse]; [reflexivity|]. rewrite (H x (or_introl eq_refl)), IH by (intros y Hy; apply H; right; exact Hy). reflexivity.
Qed.

Theorem whole_portrefs2_design xi d : frag_conns d = true -> portrefs2_design xi d = portrefs_design xi d.
Proof.
  intros F. unfold portrefs2_design, portrefs_design, map_modules.
  rewrite (traverse_ext_in _ (fun m => portrefs_module d (ncnames xi m) m)); [reflexivity|].
  intros m Hm. apply whole_portrefs2_module. apply (frag_conns_whole d m F Hm).
Qed.

Theorem pipeline2_agrees xi d : frag_conns d = true -> checked_pipeline2 xi d = checked_pipeline xi d.
Proof.
  intros F. unfold checked_pipeline2, checked_elab2, checked_pipeline, checked_elab.
  assert (build_design d = Ok tt) as ->.
  { apply each_module_intro. intros k m Hk. apply whole_build. apply (frag_conns_whole d m F (nth_error_In _ _ Hk)). }
  cbn [bind]. rewrite (whole_portrefs2_design xi d F). reflexivity.
Qed.
