(* Proofs/C01FProofsGroups.v — copy of Proofs/C01EProofsGroups.v WITHOUT the hypothesis frag_ok (it was never used in
   an essential way: the group structure only looks at whole-connection references).  Reference groups (Model/C01EElab.v:gid/attr/group_res) in a valid module:
   the ports of single instances are closed under "the port my connection refers to"; the group identifier gid is the
   same for connected ports (FunGraph.meets_iff) and is itself a member of the group; a group has one width; a port that
   refers to nothing is where every orbit of its group ends (uniqueness of the root). *)
From Coq Require Import String.
Require Import Hdl21.Base.PyInt Hdl21.Spec.PySlice Hdl21.Model.Slice Hdl21.Model.Resolve Hdl21.Base.Design
               Hdl21.Spec.Nets Hdl21.Spec.WfDesign Hdl21.Spec.C01ENets Hdl21.Model.C01EElab Hdl21.Proofs.FunGraph
               Hdl21.Proofs.ResolveProofs Hdl21.Proofs.C01EProofsGraph Hdl21.Proofs.C01EProofsBase Hdl21.Proofs.C01EProofsPass.
Open Scope Z_scope.

Lemma key_eqb_eq (a b : key) : key_eqb a b = true <-> a = b.
Proof.
  destruct a as [i p], b as [j q]. unfold key_eqb. cbn [fst snd]. rewrite andb_true_iff, !String.eqb_eq.
  split; [intros [-> ->]; reflexivity|intros H; inversion H; auto].
Qed.

Lemma kmem_In q l : kmem q l = true <-> In q l.
Proof.
  unfold kmem. rewrite existsb_exists. split.
  - intros [x [Hx E]]. apply key_eqb_eq in E. subst. exact Hx.
  - intros H. exists q. split; [exact H|apply key_eqb_eq; reflexivity].
Qed.

Lemma find_ext_in {A} (P Q : A -> bool) l : (forall x, In x l -> P x = Q x) -> find P l = find Q l.
Proof.
  induction l as [|x l IH]; intros H; cbn [find]; [reflexivity|]. rewrite (H x (or_introl eq_refl)).
  destruct (Q x); [reflexivity|]. apply IH. intros y Hy. apply H. right. exact Hy.
Qed.

Lemma as_ref_shape m cx q : as_ref m cx = Some q -> exists id w, cx = XSig id w /\ assocN id (m_leaves m) = Some (LRef (fst q) (snd q)).
Proof.
  unfold as_ref, leaf_at. destruct cx as [id w|p ix|ps]; try discriminate.
  destruct (assocN id (m_leaves m)) as [[s|i p|s]|] eqn:E; try discriminate. intros H; inversion H; subst. cbn. eauto.
Qed.

Lemma as_nc_is_nc m cx : as_nc m cx = is_nc m cx.
Proof. unfold as_nc, is_nc, leaf_at. destruct cx; reflexivity. Qed.

Section Groups.
Variables (d : design) (km : nat) (m : module) (keys : list key).
Hypothesis Hwm : wf_module d km m = Ok tt.
Hypothesis Hkeys : all_keys d m = Ok keys.

Lemma g_insts_NoDup : NoDup (map i_name (m_insts m)).
Proof. destruct (wf_module_inv _ _ _ Hwm) as [_ [H _]]. unfold mod_names in H. apply NoDup_app_r in H. apply NoDup_app_r in H. exact H. Qed.

(* membership in the universe of groups *)
Lemma keys_In q : In q keys <-> exists x w, find_inst (m_insts m) (fst q) = Some x /\ single x = true /\ port_width d x (snd q) = Ok w.
Proof.
  pose proof Hkeys as Hk. unfold all_keys in Hk. apply cat_results_map_ok in Hk. destruct Hk as [rs [Hrs ->]]. apply traverse_Forall2 in Hrs.
  split.
  - intros Hin. apply in_concat in Hin. destruct Hin as [l [Hl Hq]]. destruct (Forall2_In_r _ _ _ l Hrs Hl) as [x [Hx Hf]].
    cbv beta in Hf. destruct (single x) eqn:Es; [|inversion Hf; subst; destruct Hq].
    apply bind_ok in Hf. destruct Hf as [ps [Hps Hf]]. inversion Hf; subst. apply in_map_iff in Hq. destruct Hq as [[pn w] [<- Hpw]].
    cbn [fst snd]. destruct (assoc pn ps) as [w'|] eqn:Ea.
    + exists x, w'. split; [apply find_inst_unique; [exact g_insts_NoDup|exact Hx]|]. split; [exact Es|].
      unfold port_width. rewrite Hps. cbn [bind]. rewrite Ea. reflexivity.
    + exfalso. apply (assoc_None_notin _ _ Ea). apply (in_map fst) in Hpw. exact Hpw.
  - intros [x [w [Hf [Es Hw]]]]. destruct (find_inst_In _ _ _ Hf) as [Hx Hn].
    destruct (Forall2_In_l _ _ _ x Hrs Hx) as [l [Hl Hfx]]. cbv beta in Hfx. rewrite Es in Hfx.
    unfold port_width in Hw. destruct (target_ports d (i_of x)) as [ps|]; cbn [bind] in *; [|discriminate].
    inversion Hfx; subst l. apply ofopt_ok in Hw. apply in_concat. eexists. split; [exact Hl|].
    apply in_map_iff. exists (snd q, w). split; [destruct q; cbn [fst snd] in *; subst; reflexivity|apply assoc_In; exact Hw].
Qed.

(* the connection of a port, in a valid module *)
Lemma pconn_wf q x cx : find_inst (m_insts m) (fst q) = Some x -> assoc (snd q) (i_conns x) = Some cx ->
  exists ports w, target_ports d (i_of x) = Ok ports /\ assoc (snd q) ports = Some w /\ wf_conn d m x ports (snd q, cx) = Ok tt.
Proof.
  intros Hf Ha. destruct (find_inst_In _ _ _ Hf) as [Hx _].
  destruct (wf_module_inv _ _ _ Hwm) as [_ [_ [_ Hi]]]. destruct (wf_inst_inv _ _ _ _ (Hi x Hx)) as [_ [ports [Hp [_ [Hc _]]]]].
  pose proof (assoc_In _ _ _ Ha) as Hin. specialize (Hc _ Hin). destruct (wf_conn_inv _ _ _ _ _ Hc) as [w [Hw _]].
  exists ports, w. split; [exact Hp|]. split; [exact Hw|]. exact Hc.
Qed.

(* a whole-connection reference: the referred port is a port of a single instance, of the width of the referring port
   (times the array size for per-element wiring) *)
Lemma next_wf q q' x : find_inst (m_insts m) (fst q) = Some x -> next m q = Some q' ->
  exists w w', port_width d x (snd q) = Ok w /\ In q' keys /\ key_width d m q' = Ok w' /\ 1 <= w' /\
               (w' = w \/ (0 < i_n x /\ w' = i_n x * w)) /\
               exists id, assoc (snd q) (i_conns x) = Some (XSig id w') /\ assocN id (m_leaves m) = Some (LRef (fst q') (snd q')).
Proof.
  intros Hf Hn. unfold next, pconn in Hn. rewrite Hf in Hn. destruct (assoc (snd q) (i_conns x)) as [cx|] eqn:Ea; [|discriminate].
  destruct (as_ref_shape _ _ _ Hn) as [id [wl [-> Hl]]].
  destruct (pconn_wf q x _ Hf Ea) as [ports [w [Hp [Hw Hc]]]].
  destruct (wf_conn_inv _ _ _ _ _ Hc) as [w2 [Hw2 [Hlv Hnc]]]. cbn [fst snd] in *. assert (w2 = w) as -> by congruence.
  assert (is_nc m (XSig id wl) = None) as Enc by (unfold is_nc; rewrite Hl; reflexivity). rewrite Enc in Hnc.
  destruct Hnc as [_ [cw [Hcw Hcase]]]. cbn [xwidth] in Hcw. destruct (wl <? 1) eqn:E1; [discriminate|]. inversion Hcw; subst cw.
  destruct (wf_leaf_inv _ _ _ (Hlv (id, wl) (or_introl eq_refl))) as [lf [Hlf Hk]]. cbn [fst snd] in *. rewrite Hl in Hlf. inversion Hlf; subst lf.
  destruct Hk as [x' [Hx' [Hn' Hw']]].
  exists w, wl. split; [unfold port_width; rewrite Hp; cbn [bind]; rewrite Hw; reflexivity|].
  split; [apply keys_In; exists x', wl; split; [exact Hx'|]; split; [unfold single; lia|exact Hw']|].
  split; [unfold key_width; rewrite Hx'; cbn [ofopt bind]; exact Hw'|]. split; [lia|]. split; [exact Hcase|]. exists id. auto.
Qed.

Lemma keys_closed q : In q keys -> In (nxt m q) keys.
Proof.
  intros Hq. unfold nxt. destruct (next m q) as [q'|] eqn:En; [|exact Hq].
  apply keys_In in Hq. destruct Hq as [x [w [Hf _]]]. destruct (next_wf q q' x Hf En) as [_ [_ [_ [H _]]]]. exact H.
Qed.

Lemma key_width_keys q : In q keys -> exists w, key_width d m q = Ok w.
Proof. intros Hq. apply keys_In in Hq. destruct Hq as [x [w [Hf [_ Hw]]]]. exists w. unfold key_width. rewrite Hf. cbn [ofopt bind]. exact Hw. Qed.

(* a group has one width *)
Lemma nxt_width q : In q keys -> key_width d m (nxt m q) = key_width d m q.
Proof.
  intros Hq. unfold nxt. destruct (next m q) as [q'|] eqn:En; [|reflexivity].
  apply keys_In in Hq. destruct Hq as [x [w [Hf [Hs Hw]]]]. destruct (next_wf q q' x Hf En) as [w1 [w' [Hw1 [_ [Hw' [_ [Hcase _]]]]]]].
  rewrite Hw'. unfold key_width. rewrite Hf. cbn [ofopt bind]. rewrite Hw1. f_equal. unfold single in Hs. lia.
Qed.

Lemma iter_keys n q : In q keys -> In (Nat.iter n (nxt m) q) keys /\ key_width d m (Nat.iter n (nxt m) q) = key_width d m q.
Proof.
  intros Hq. induction n as [|n [IH1 IH2]]; simpl; [auto|]. split; [apply keys_closed; exact IH1|]. rewrite nxt_width by exact IH1. exact IH2.
Qed.

Lemma conn_width a b : In a keys -> In b keys -> conn key (nxt m) a b -> key_width d m a = key_width d m b.
Proof.
  intros Ha Hb C. apply conn_meet in C. destruct C as [n1 [n2 E]].
  rewrite <- (proj2 (iter_keys n1 a Ha)), <- (proj2 (iter_keys n2 b Hb)), E. reflexivity.
Qed.

(* ---- gid ---- *)
Lemma meets_conn a b : In a keys -> In b keys ->
  (FunGraph.meets key key_eqb (orbitf key (nxt m) key_eqb (Datatypes.length keys) a) (orbitf key (nxt m) key_eqb (Datatypes.length keys) b) = true
   <-> conn key (nxt m) a b).
Proof. intros Ha Hb. apply (meets_iff key (nxt m) key_eqb key_eqb_eq keys keys_closed); [apply Nat.le_refl|exact Ha|exact Hb]. Qed.

Lemma gid_spec q g : In q keys -> gid m keys q = Some g -> In g keys /\ conn key (nxt m) g q.
Proof.
  intros Hq H. unfold gid in H. apply find_some in H. destruct H as [Hg Hm]. split; [exact Hg|]. apply meets_conn; assumption.
Qed.

Lemma gid_total q : In q keys -> exists g, gid m keys q = Some g.
Proof.
  intros Hq. unfold gid. destruct (find _ keys) as [g|] eqn:E; [eauto|]. exfalso.
  pose proof (find_none _ _ E q Hq) as Hn. cbv beta in Hn.
  assert (FunGraph.meets key key_eqb (orbitf key (nxt m) key_eqb (Datatypes.length keys) q) (orbitf key (nxt m) key_eqb (Datatypes.length keys) q) = true) as Ht; [|congruence].
  apply meets_conn; [exact Hq|exact Hq|apply c_refl].
Qed.

Lemma gid_conn a b : In a keys -> In b keys -> conn key (nxt m) a b -> gid m keys a = gid m keys b.
Proof.
  intros Ha Hb C. unfold gid. apply find_ext_in. intros k Hk.
  destruct (FunGraph.meets key key_eqb (orbitf key (nxt m) key_eqb (Datatypes.length keys) k) (orbitf key (nxt m) key_eqb (Datatypes.length keys) a)) eqn:E1;
  destruct (FunGraph.meets key key_eqb (orbitf key (nxt m) key_eqb (Datatypes.length keys) k) (orbitf key (nxt m) key_eqb (Datatypes.length keys) b)) eqn:E2; try reflexivity; exfalso.
  - apply meets_conn in E1; [|exact Hk|exact Ha]. assert (conn key (nxt m) k b) as C2 by (eapply c_trans; eassumption).
    apply meets_conn in C2; [congruence|exact Hk|exact Hb].
  - apply meets_conn in E2; [|exact Hk|exact Hb]. assert (conn key (nxt m) k a) as C2 by (eapply c_trans; [exact E2|apply c_sym; exact C]).
    apply meets_conn in C2; [congruence|exact Hk|exact Ha].
Qed.

Lemma gid_idem q g : In q keys -> gid m keys q = Some g -> gid m keys g = Some g.
Proof.
  intros Hq H. destruct (gid_spec q g Hq H) as [Hg C]. rewrite (gid_conn g q Hg Hq C). exact H.
Qed.

Lemma gid_next q q' : In q keys -> next m q = Some q' -> gid m keys q = gid m keys q'.
Proof.
  intros Hq Hn. assert (nxt m q = q') as E by (unfold nxt; rewrite Hn; reflexivity).
  apply gid_conn; [exact Hq|rewrite <- E; apply keys_closed; exact Hq|rewrite <- E; apply c_step].
Qed.

(* ---- the root of a group ---- *)
Lemma attr_spec g : In g keys -> In (attr m keys g) keys /\ conn key (nxt m) g (attr m keys g).
Proof.
  intros Hg. unfold attr. split; [apply iter_keys; exact Hg|]. apply conn_meet. exists (Datatypes.length keys), 0%nat. reflexivity.
Qed.

Lemma attr_fixed g r : In g keys -> In r keys -> nxt m r = r -> conn key (nxt m) g r -> attr m keys g = r.
Proof.
  intros Hg Hr Hfix C. apply conn_meet in C. destruct C as [a [b E]]. rewrite (fixed_iter key (nxt m) r b Hfix) in E.
  destruct (orbit_bounded key (nxt m) key_eqb key_eqb_eq keys keys_closed g Hg a) as [a' [Ha' Ea]]. rewrite E in Ea.
  unfold attr. replace (Datatypes.length keys) with ((Datatypes.length keys - a') + a')%nat by lia.
  rewrite iter_add, Ea. apply fixed_iter. exact Hfix.
Qed.

Lemma nxt_fixed_iff q : nxt m q = q <-> (next m q = None \/ next m q = Some q).
Proof. unfold nxt. destruct (next m q) as [q'|]; split; intros H; auto; [right; congruence|destruct H as [H|H]; [discriminate|inversion H; congruence]]. Qed.
End Groups.
