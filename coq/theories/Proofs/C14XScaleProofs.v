(* Proofs/C14XScaleProofs.v — C14X: the prefix chosen by Prefixed.scale() (Model/Prefixed.v closest_log) IS the closest one.

   The code computes  Prefix.closest(log10|number| + prefix) = min(members, key = |member - L|),  L = log10 |value|.
   The model decides every comparison |v - L| < |best - L| exactly, through  value^2 ? 10^(v+best)  (sq_cmp).
   Here: there is an INTEGER key t (twice the floor of log10 value^2, plus one when value^2 is not that power of ten) with
       sq_cmp c2 k s = (t ?= 2s)     for every s,
   so "v is strictly closer to L than q" <=> |4v - t| < |4q - t|, the fold is an argmin over the table, and
   - no member of Prefix is strictly closer to log10|value| than the chosen one (decade comparisons on exact rationals only);
   - the chosen member is one of the two table neighbours of the value (10^lo <= |value| <= 10^hi, no member between lo, hi);
   - whenever the correspondence run accepts a different prefix q than the model's q' (Corr/C14.v in_band: value^2 within
     1e-24, relative, of 10^(q+q')), q and q' are the two table neighbours of the value, which lies strictly between 10^q'
     and 10^q: the 28-digit log10 of the code can only pick the OTHER neighbour, and only beside the midpoint. *)
Require Import Hdl21.Base.PyInt Hdl21.Base.Dec Hdl21.Model.Prefixed Hdl21Gen.PrefixTable.
Require Import Hdl21.Proofs.C14Proofs Hdl21.Model.C14XModel Hdl21.Corr.C14.
Open Scope Z_scope.

(* ---------------------------------------------------------------- floor(log10 c) exists *)
Lemma ex_log10 c : 0 < c -> exists j, 0 <= j /\ 10 ^ j <= c < 10 ^ (j + 1).
Proof.
  intros Hc.
  assert (forall n : nat, c < 10 ^ Z.of_nat n -> exists j, 0 <= j /\ 10 ^ j <= c < 10 ^ (j + 1)) as G.
  { induction n as [|n IH]; intros Hn.
    - change (10 ^ Z.of_nat 0) with 1 in Hn. lia.
    - destruct (Z_lt_le_dec c (10 ^ Z.of_nat n)) as [L|L]; [exact (IH L)|].
      exists (Z.of_nat n). split; [lia|]. split; [exact L|]. replace (Z.of_nat n + 1) with (Z.of_nat (S n)) by lia. exact Hn. }
  apply (G (Z.to_nat c)).
  rewrite Z2Nat.id by lia. apply Z.pow_gt_lin_r; lia.
Qed.

Lemma p10_lt a b : 0 <= a -> a < b -> 10 ^ a < 10 ^ b.
Proof. intros. apply Z.pow_lt_mono_r; lia. Qed.
Lemma p10_le a b : 0 <= a -> a <= b -> 10 ^ a <= 10 ^ b.
Proof. intros. apply Z.pow_le_mono_r; lia. Qed.
Lemma p10_pos0 a : 0 <= a -> 0 < 10 ^ a.
Proof. intros. apply Z.pow_pos_nonneg; lia. Qed.

(* ---------------------------------------------------------------- the integer key of log10 (value^2) *)
Lemma sq_cmp_key c2 k : 0 < c2 -> exists t, forall s, sq_cmp c2 k s = (t ?= 2 * s).
Proof.
  intros Hc. destruct (ex_log10 c2 Hc) as [j [Hj [L U]]].
  exists (2 * (j + 2 * k) + (if c2 =? 10 ^ j then 0 else 1)). intros s.
  unfold sq_cmp. cbn zeta. rewrite !pow10_spec. set (u := s - 2 * k).
  destruct (0 <=? u) eqn:EU.
  - destruct (Z.lt_trichotomy u j) as [Q|[Q|Q]].
    + pose proof (p10_lt u j ltac:(lia) Q).
      assert ((c2 ?= 10 ^ u) = Gt) as -> by (apply Z.compare_gt_iff; lia).
      symmetry. apply Z.compare_gt_iff. destruct (c2 =? 10 ^ j); lia.
    + rewrite Q. destruct (c2 =? 10 ^ j) eqn:EQ.
      * assert (c2 = 10 ^ j) as -> by lia. rewrite Z.compare_refl. symmetry. apply Z.compare_eq_iff. lia.
      * assert ((c2 ?= 10 ^ j) = Gt) as -> by (apply Z.compare_gt_iff; lia).
        symmetry. apply Z.compare_gt_iff. lia.
    + pose proof (p10_le (j + 1) u ltac:(lia) ltac:(lia)).
      assert ((c2 ?= 10 ^ u) = Lt) as -> by (apply Z.compare_lt_iff; lia).
      symmetry. apply Z.compare_lt_iff. destruct (c2 =? 10 ^ j); lia.
  - pose proof (p10_lt 0 (- u) ltac:(lia) ltac:(lia)) as P. change (10 ^ 0) with 1 in P.
    assert ((c2 * 10 ^ (- u) ?= 1) = Gt) as -> by (apply Z.compare_gt_iff; nia).
    symmetry. apply Z.compare_gt_iff. destruct (c2 =? 10 ^ j); lia.
Qed.

(* sq_cmp is the comparison of value^2 with 10^s at any common exponent *)
Lemma sq_cmp_at c2 k s e : e <= 2 * k -> e <= s -> sq_cmp c2 k s = (c2 * 10 ^ (2 * k - e) ?= 10 ^ (s - e)).
Proof.
  intros H1 H2. unfold sq_cmp. cbn zeta. rewrite !pow10_spec. pose proof (p10_pos0 (2 * k - e) ltac:(lia)) as P.
  destruct (0 <=? s - 2 * k) eqn:EU.
  - replace (s - e) with ((s - 2 * k) + (2 * k - e)) by lia. rewrite Z.pow_add_r by lia.
    apply Zmult_compare_compat_r. lia.
  - replace (2 * k - e) with ((- (s - 2 * k)) + (s - e)) by lia. rewrite Z.pow_add_r by lia.
    pose proof (p10_pos0 (s - e) ltac:(lia)) as P'.
    rewrite Z.mul_assoc. rewrite <- (Z.mul_1_l (10 ^ (s - e))) at 2.
    apply Zmult_compare_compat_r. lia.
Qed.

(* ---------------------------------------------------------------- the fold is an argmin of |4v - t| *)
Definition key4 (t v : Z) : Z := Z.abs (4 * v - t).

Lemma closer_log_key c2 k t best v : (forall s, sq_cmp c2 k s = (t ?= 2 * s)) ->
  closer_log c2 k best v = if key4 t v <? key4 t best then v else best.
Proof.
  intros K. unfold closer_log, key4. rewrite K.
  destruct (best <? v) eqn:E1; [|destruct (v <? best) eqn:E2].
  - destruct (Z.compare_spec t (2 * (v + best))); destruct (Z.abs (4 * v - t) <? Z.abs (4 * best - t)) eqn:E; try reflexivity; lia.
  - destruct (Z.compare_spec t (2 * (v + best))); destruct (Z.abs (4 * v - t) <? Z.abs (4 * best - t)) eqn:E; try reflexivity; lia.
  - assert (v = best) as -> by lia. rewrite Z.ltb_irrefl. reflexivity.
Qed.

Lemma strictly_closer_key c2 k t q v : (forall s, sq_cmp c2 k s = (t ?= 2 * s)) ->
  strictly_closer c2 k q v = (key4 t v <? key4 t q).
Proof.
  intros K. unfold strictly_closer, key4. rewrite K.
  destruct (Z.compare_spec t (2 * (q + v))); destruct (q <? v) eqn:E1; destruct (v <? q) eqn:E2; cbn [andb orb];
    destruct (Z.abs (4 * v - t) <? Z.abs (4 * q - t)) eqn:E; try reflexivity; lia.
Qed.

Lemma fold_argmin (key : Z -> Z) (f : Z -> Z -> Z) : (forall b x, f b x = if key x <? key b then x else b) ->
  forall r v0, let q := fold_left f r v0 in In q (v0 :: r) /\ forall w, In w (v0 :: r) -> key q <= key w.
Proof.
  intros F. induction r as [|x r IH]; intros v0; cbn zeta.
  - cbn [fold_left]. split; [left; reflexivity|]. intros w [<-|[]]. lia.
  - cbn [fold_left]. destruct (IH (f v0 x)) as [I M]. cbn zeta in I, M. split.
    + destruct I as [I|I]; [|right; right; exact I]. rewrite <- I. rewrite F. destruct (key x <? key v0); [right; left|left]; reflexivity.
    + intros w [<-|[<-|I']].
      * apply Z.le_trans with (key (f v0 x)); [apply M; left; reflexivity|]. rewrite F. destruct (key x <? key v0) eqn:E; lia.
      * apply Z.le_trans with (key (f v0 x)); [apply M; left; reflexivity|]. rewrite F. destruct (key x <? key v0) eqn:E; lia.
      * apply M. right. exact I'.
Qed.

(* the key of a prefixed number *)
Definition pc2 (p : pfx) : Z := Z.abs (dint (number p)) * Z.abs (dint (number p)).

Lemma closest_log_argmin p q : dint (number p) <> 0 -> closest_log p = Ok q ->
  exists t, (forall s, sq_cmp (pc2 p) (pexp p) s = (t ?= 2 * s)) /\
            In q prefix_values /\ forall w, In w prefix_values -> key4 t q <= key4 t w.
Proof.
  intros NZ H. unfold closest_log in H. destruct prefix_values as [|v r] eqn:PV; [discriminate|].
  cbn zeta in H. destruct (Z.abs (dint (number p)) =? 0) eqn:EZ; [lia|].
  fold (pc2 p) in H. inversion H as [Hq]. clear H.
  assert (0 < pc2 p) as PC by (unfold pc2; nia).
  destruct (sq_cmp_key (pc2 p) (pexp p) PC) as [t K]. exists t. split; [exact K|].
  apply (fold_argmin (key4 t) (closer_log (pc2 p) (pexp p))). intros b x. apply closer_log_key. exact K.
Qed.

(* ---------------------------------------------------------------- 1. no member is strictly closer *)
Theorem closest_log_closest p q : dint (number p) <> 0 -> closest_log p = Ok q ->
  is_prefix q = true /\ forall v, is_prefix v = true -> strictly_closer (pc2 p) (pexp p) q v = false.
Proof.
  intros NZ H. destruct (closest_log_argmin p q NZ H) as [t [K [I M]]]. split; [apply is_prefix_In; exact I|].
  intros v Hv. apply is_prefix_In in Hv. rewrite (strictly_closer_key _ _ t q v K). specialize (M v Hv). lia.
Qed.

(* zero: log10 is -Infinity, every distance is infinite, min() keeps the first member of the enumeration *)
Lemma closest_log_zero p : dint (number p) = 0 -> closest_log p = Ok (-24).
Proof. intros Z0. unfold closest_log. rewrite Z0. vm_compute. reflexivity. Qed.

(* ---------------------------------------------------------------- 2. the chosen member is a table neighbour of the value *)
(* lo < hi are neighbouring members of the table *)
Definition adjacentb (lo hi : Z) : bool :=
  is_prefix lo && is_prefix hi && (lo <? hi) && forallb (fun w => (w <=? lo) || (hi <=? w)) prefix_values.

Lemma adjacentb_spec lo hi : adjacentb lo hi = true ->
  In lo prefix_values /\ In hi prefix_values /\ lo < hi /\ forall w, In w prefix_values -> w <= lo \/ hi <= w.
Proof.
  unfold adjacentb. intros H. apply andb_true_iff in H. destruct H as [H F]. apply andb_true_iff in H. destruct H as [H L].
  apply andb_true_iff in H. destruct H as [A B]. repeat split; try (apply is_prefix_In; assumption); try lia.
  intros w I. rewrite forallb_forall in F. specialize (F w I). lia.
Qed.

Lemma table_bounds : forall w, In w prefix_values -> -24 <= w <= 24.
Proof.
  assert (forallb (fun w => (-24 <=? w) && (w <=? 24)) prefix_values = true) as F by (vm_compute; reflexivity).
  intros w I. rewrite forallb_forall in F. specialize (F w I). lia.
Qed.
Lemma table_ends : In (-24) prefix_values /\ In 24 prefix_values.
Proof. split; apply is_prefix_In; vm_compute; reflexivity. Qed.

(* every key between the ends lies between two neighbouring members *)
Definition coverb (t : Z) : bool :=
  existsb (fun lo => existsb (fun hi => adjacentb lo hi && (4 * lo <=? t) && (t <=? 4 * hi)) prefix_values) prefix_values.
Lemma cover_all t : -96 <= t <= 96 -> coverb t = true.
Proof.
  intros H.
  assert (forallb (fun i => coverb (Z.of_nat i - 96)) (seq 0 193) = true) as F by (vm_compute; reflexivity).
  rewrite forallb_forall in F. specialize (F (Z.to_nat (t + 96))).
  replace (Z.of_nat (Z.to_nat (t + 96)) - 96) with t in F by lia. apply F. apply in_seq. lia.
Qed.

Theorem closest_log_neighbour p q : dint (number p) <> 0 -> closest_log p = Ok q ->
  (* below the table: |value| <= 10^-24 *)
  (sq_cmp (pc2 p) (pexp p) (-48) <> Gt /\ q = -24) \/
  (* above the table: |value| >= 10^24 *)
  (sq_cmp (pc2 p) (pexp p) 48 <> Lt /\ q = 24) \/
  (* 10^lo <= |value| <= 10^hi for neighbouring members lo < hi, and q is one of them *)
  (exists lo hi, adjacentb lo hi = true /\ sq_cmp (pc2 p) (pexp p) (2 * lo) <> Lt /\ sq_cmp (pc2 p) (pexp p) (2 * hi) <> Gt /\
                 (q = lo \/ q = hi)).
Proof.
  intros NZ H. destruct (closest_log_argmin p q NZ H) as [t [K [I M]]].
  pose proof (table_bounds q I) as BQ. destruct table_ends as [IL IH]. unfold key4 in M.
  destruct (Z_le_gt_dec t (-96)) as [TL|TL].
  - left. split; [rewrite K; intros Q; rewrite Z.compare_gt_iff in Q; lia|]. specialize (M (-24) IL). lia.
  - destruct (Z_le_gt_dec 96 t) as [TH|TH].
    + right. left. split; [rewrite K; intros Q; rewrite Z.compare_lt_iff in Q; lia|]. specialize (M 24 IH). lia.
    + right. right. pose proof (cover_all t ltac:(lia)) as CV. unfold coverb in CV.
      apply existsb_exists in CV. destruct CV as [lo [_ CV]]. apply existsb_exists in CV. destruct CV as [hi [_ CV]].
      apply andb_true_iff in CV. destruct CV as [CV T2]. apply andb_true_iff in CV. destruct CV as [AD T1].
      exists lo, hi. split; [exact AD|]. destruct (adjacentb_spec lo hi AD) as [Ilo [Ihi [LT BT]]].
      split; [rewrite K; intros Q; rewrite Z.compare_lt_iff in Q; lia|].
      split; [rewrite K; intros Q; rewrite Z.compare_gt_iff in Q; lia|].
      pose proof (M lo Ilo) as M1. pose proof (M hi Ihi) as M2. destruct (BT q I) as [B1|B1]; lia.
Qed.

(* ---------------------------------------------------------------- 3. what the run accepts beside the model's choice *)
Lemma in_band_facts raw q q' : in_band raw q q' = true ->
  sq_cmp (pc2 raw) (pexp raw) (q + q' - 1) = Gt /\ sq_cmp (pc2 raw) (pexp raw) (q + q' + 1) = Lt.
Proof.
  unfold in_band. cbn zeta. intros H. apply negb_true_iff in H.
  set (k := pexp raw) in *. set (s := q + q') in *.
  set (x := dmul (pval raw) (pval raw)) in *. set (Bd := of_int 1 s) in *.
  assert (dexp x = 2 * k) as EX by (unfold x; rewrite dexp_dmul, pexp_pval; fold k; lia).
  assert (dexp Bd = s) as EB by apply dexp_of_int.
  set (e := Z.min (2 * k) s).
  set (y := dscaleb (dabs (dsub x Bd)) 24) in *.
  assert (dexp y = e + 24) as EY by (unfold y; rewrite dexp_dscaleb, dexp_dabs, dexp_dsub; unfold dmin; rewrite EX, EB; reflexivity).
  assert (~ (at_ e Bd < at_ e y)) as N.
  { intros Q. apply (dltb_spec e Bd y) in Q; [congruence|lia|lia]. }
  assert (at_ e Bd = 10 ^ (s - e)) as AB by (unfold Bd; rewrite at_of_int by lia; lia).
  assert (at_ (e - 24) Bd = 10 ^ (s - e) * 10 ^ 24) as AB'.
  { unfold Bd. rewrite at_of_int by lia. replace (s - (e - 24)) with ((s - e) + 24) by lia. rewrite Z.pow_add_r by lia. lia. }
  assert (at_ k (pval raw) = dint (number raw)) as AK.
  { unfold at_. rewrite pexp_pval. fold k. replace (k - k) with 0 by lia. rewrite pow10_spec. change (10 ^ 0) with 1.
    unfold pval. rewrite dint_dscaleb. lia. }
  assert (at_ e x = pc2 raw * 10 ^ (2 * k - e)) as AX.
  { replace e with (k + (e - k)) at 1 by lia. unfold x. rewrite dmul_exact by (rewrite pexp_pval; fold k; lia).
    rewrite (at_shift (e - k) k) by (rewrite ?pexp_pval; fold k; lia). rewrite AK.
    replace (k - (e - k)) with (2 * k - e) by lia. unfold pc2. set (dd := dint (number raw)).
    assert (Z.abs dd * Z.abs dd = dd * dd) as SQ by nia. rewrite SQ. ring. }
  assert (at_ (e - 24) x = pc2 raw * 10 ^ (2 * k - e) * 10 ^ 24) as AX'.
  { rewrite (at_shift (e - 24) e) by lia. rewrite AX. replace (e - (e - 24)) with 24 by lia. reflexivity. }
  assert (at_ e y = Z.abs (pc2 raw * 10 ^ (2 * k - e) - 10 ^ (s - e)) * 10 ^ 24) as AY.
  { unfold y. replace e with ((e - 24) + 24) at 1 by lia. rewrite dscaleb_exact.
    rewrite dabs_exact by (rewrite dexp_dsub; unfold dmin; lia).
    rewrite dsub_exact by lia. rewrite AX', AB'. rewrite <- Z.mul_sub_distr_r. rewrite Z.abs_mul. f_equal. }
  rewrite AB, AY in N. change (10 ^ 24) with 1000000000000000000000000 in N.
  pose proof (p10_pos0 (s - e) ltac:(lia)) as PY. pose proof (p10_pos0 (2 * k - e) ltac:(lia)) as PX.
  set (X := pc2 raw * 10 ^ (2 * k - e)) in *. set (Y := 10 ^ (s - e)) in *.
  split.
  - rewrite (sq_cmp_at _ k (s - 1) (e - 1)) by lia. fold k.
    replace (2 * k - (e - 1)) with ((2 * k - e) + 1) by lia. replace (s - 1 - (e - 1)) with (s - e) by lia.
    rewrite Z.pow_add_r by lia. change (10 ^ 1) with 10. rewrite Z.mul_assoc. fold X. fold Y.
    apply Z.compare_gt_iff. lia.
  - rewrite (sq_cmp_at _ k (s + 1) e) by lia. fold k. fold X.
    replace (s + 1 - e) with ((s - e) + 1) by lia. rewrite Z.pow_add_r by lia. change (10 ^ 1) with 10. fold Y.
    apply Z.compare_lt_iff. lia.
Qed.

Theorem in_band_neighbour raw q q' : dint (number raw) <> 0 -> closest_log raw = Ok q' -> is_prefix q = true -> q <> q' ->
  in_band raw q q' = true ->
  let lo := Z.min q q' in let hi := Z.max q q' in
  adjacentb lo hi = true /\
  sq_cmp (pc2 raw) (pexp raw) (2 * lo) = Gt /\ sq_cmp (pc2 raw) (pexp raw) (2 * hi) = Lt.
Proof.
  intros NZ H Pq NE IB. cbn zeta. destruct (closest_log_argmin raw q' NZ H) as [t [K [I M]]].
  destruct (in_band_facts raw q q' IB) as [F1 F2]. rewrite K in F1, F2.
  rewrite Z.compare_gt_iff in F1. rewrite Z.compare_lt_iff in F2.
  pose proof Pq as Iq. apply is_prefix_In in Iq. unfold key4 in M.
  split; [|split; rewrite K; [apply Z.compare_gt_iff|apply Z.compare_lt_iff]; lia].
  unfold adjacentb. rewrite !andb_true_iff. repeat split.
  - apply is_prefix_In. destruct (Z.min_spec q q') as [[_ ->]|[_ ->]]; assumption.
  - apply is_prefix_In. destruct (Z.max_spec q q') as [[_ ->]|[_ ->]]; assumption.
  - lia.
  - apply forallb_forall. intros w Iw. specialize (M w Iw). lia.
Qed.

(* ---------------------------------------------------------------- scale() itself *)
Lemma pscale_auto_choice p r : pscale_auto p = Ok r -> closest_log p = Ok (prefix r) /\ r = pscale p (prefix r).
Proof.
  unfold pscale_auto. destruct (closest_log p) as [q|err]; cbn [bind]; intros H; inversion H; subst.
  rewrite prefix_pscale. split; reflexivity.
Qed.

(* what "strictly closer" says, on exact rationals: value^2 = c2 * 10^(2k) against the decade 10^(q+v), at any common exponent *)
Lemma strictly_closer_meaning c2 k q v e : e <= 2 * k -> e <= q + v ->
  (strictly_closer c2 k q v = true <->
   (q < v /\ 10 ^ (q + v - e) < c2 * 10 ^ (2 * k - e)) \/ (v < q /\ c2 * 10 ^ (2 * k - e) < 10 ^ (q + v - e))).
Proof.
  intros H1 H2. unfold strictly_closer. rewrite (sq_cmp_at c2 k (q + v) e H1 H2).
  destruct (Z.compare_spec (c2 * 10 ^ (2 * k - e)) (10 ^ (q + v - e))); destruct (q <? v) eqn:E1; destruct (v <? q) eqn:E2;
    cbn [andb orb]; split; intros Q; try discriminate; try reflexivity; try lia.
Qed.
