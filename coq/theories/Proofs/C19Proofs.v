(* Proofs/C19Proofs.v — lemmas behind Props/C19.v: the invented names are fresh and always found; what each
   element of the unit array of Series is connected to, derived from the array-element theorem
   (Proofs/ArraysProofs.v) and the bit semantics of concatenations (Model/Resolve.v). *)
Require Import Hdl21.Base.PyInt Hdl21.Spec.PySlice Hdl21.Model.Slice Hdl21.Model.Resolve Hdl21.Model.Arrays
               Hdl21.Base.Design Hdl21.Spec.C19Topology Hdl21.Model.C19Series
               Hdl21.Proofs.SliceProofs Hdl21.Proofs.ResolveProofs Hdl21.Proofs.ArraysProofs.
Open Scope string_scope.
Open Scope Z_scope.

(* ---------------- names ---------------- *)
Lemma length_sapp a b : String.length (sapp a b) = (String.length a + String.length b)%nat.
Proof. unfold sapp. induction a; simpl; auto. Qed.

Lemma mem_true_iff s l : mem s l = true <-> In s l.
Proof.
  unfold mem. rewrite existsb_exists. split.
  - intros [x [Hx E]]. apply String.eqb_eq in E. subst; auto.
  - intros H. exists s. split; auto. apply String.eqb_refl.
Qed.

Lemma mem_false_iff s l : mem s l = false <-> ~ In s l.
Proof. rewrite <- mem_true_iff. destruct (mem s l); split; intros; congruence. Qed.

Lemma mem_maxlen s l : mem s l = true -> (String.length s <= maxlen l)%nat.
Proof.
  induction l as [|x l IH]; simpl; [discriminate|].
  destruct (String.eqb s x) eqn:E; simpl.
  - apply String.eqb_eq in E. subst. lia.
  - intros H. specialize (IH H). lia.
Qed.

Lemma unused_name_fresh fuel names : forall c r, unused_name fuel names c = Ok r -> mem r names = false.
Proof.
  induction fuel as [|f IH]; intros c r; simpl; destruct (mem c names) eqn:E; try discriminate.
  - intros H; inversion H; subst; exact E.
  - apply IH.
  - intros H; inversion H; subst; exact E.
Qed.

Lemma unused_name_cands fuel names : forall c r, unused_name fuel names c = Ok r -> In r (cands fuel c).
Proof.
  induction fuel as [|f IH]; intros c r; simpl; destruct (mem c names) eqn:E; try discriminate.
  - intros H; inversion H; auto.
  - intros H. right. apply IH. exact H.
  - intros H; inversion H; auto.
Qed.

(* the fuel is never exhausted: candidates grow by one character per step *)
Lemma unused_name_total fuel names : forall c, (maxlen names < String.length c + fuel)%nat ->
  exists r, unused_name fuel names c = Ok r.
Proof.
  induction fuel as [|f IH]; intros c H; simpl; destruct (mem c names) eqn:E; eauto.
  - apply mem_maxlen in E. lia.
  - apply IH. rewrite length_sapp. simpl. lia.
Qed.

Lemma unused_name_ok names c : exists r, unused_name (name_fuel names) names c = Ok r /\ mem r names = false.
Proof.
  destruct (unused_name_total (name_fuel names) names c) as [r Hr]; [unfold name_fuel; lia|].
  exists r. split; [exact Hr|]. eapply unused_name_fresh; eauto.
Qed.

(* ---------------- association lists over numbered lists ---------------- *)
Lemma number_In {A} (l : list A) : forall k id x, In (id, x) (number l k) ->
  (k <= id < k + N.of_nat (List.length l))%N /\ In x l.
Proof.
  induction l as [|y t IH]; intros k id x; simpl; [tauto|]. intros [H|H].
  - inversion H; subst. split; [lia|auto].
  - apply IH in H. destruct H as [H1 H2]. split; [lia|auto].
Qed.

Lemma In_number {A} (l : list A) x : In x l -> forall k, exists id, In (id, x) (number l k).
Proof.
  induction l as [|y t IH]; simpl; [tauto|]. intros [->|H] k.
  - exists k. auto.
  - destruct (IH H (k + 1)%N) as [id Hid]. exists id. auto.
Qed.

Lemma number_app {A} (l1 l2 : list A) : forall k,
  number (l1 ++ l2) k = number l1 k ++ number l2 (k + N.of_nat (List.length l1))%N.
Proof.
  induction l1 as [|y t IH]; intros k; simpl.
  - f_equal. lia.
  - f_equal. rewrite IH. f_equal. f_equal. lia.
Qed.

Lemma assocN_number {A B} (g : A -> B) (l : list A) : forall k id x, In (id, x) (number l k) ->
  assocN id (map (fun e => (fst e, g (snd e))) (number l k)) = Some (g x).
Proof.
  induction l as [|y t IH]; intros k id x; simpl; [tauto|]. intros [H|H].
  - inversion H; subst. rewrite N.eqb_refl. reflexivity.
  - pose proof (number_In t _ _ _ H) as [Hr _].
    assert (N.eqb id k = false) as -> by (apply N.eqb_neq; lia). apply IH. exact H.
Qed.

Lemma assoc_In_nodup {V} (l : list (name * V)) p v : nodup_names (map fst l) = true -> In (p, v) l -> assoc p l = Some v.
Proof.
  induction l as [|[q u] t IH]; simpl; [tauto|]. intros Hnd [H|H].
  - inversion H; subst. rewrite String.eqb_refl. reflexivity.
  - apply andb_prop in Hnd. destruct Hnd as [Hq Hnd].
    destruct (String.eqb p q) eqn:E.
    + apply String.eqb_eq in E. subst. exfalso.
      apply negb_true_iff in Hq. apply mem_false_iff in Hq. apply Hq. apply (in_map fst) in H. exact H.
    + apply IH; assumption.
Qed.

Lemma assoc_In {V} (l : list (name * V)) p v : assoc p l = Some v -> In (p, v) l.
Proof.
  induction l as [|[q u] t IH]; simpl; [discriminate|].
  destruct (String.eqb p q) eqn:E.
  - apply String.eqb_eq in E. intros H; inversion H; subst. auto.
  - intros H. right. apply IH. exact H.
Qed.

(* a map over a numbered list that keeps the port name as key *)
Lemma assoc_number {V} (f : N * (name * Z) -> name * V) (l : list (name * Z)) :
  (forall e, fst (f e) = fst (snd e)) ->
  forall k id p w, nodup_names (map fst l) = true -> In (id, (p, w)) (number l k) ->
  assoc p (map f (number l k)) = Some (snd (f (id, (p, w)))).
Proof.
  intros Hf. induction l as [|[q v] t IH]; intros k id p w Hnd; simpl; [tauto|]. intros [H|H].
  - inversion H; subst. destruct (f (id, (p, w))) as [kk vv] eqn:E.
    pose proof (Hf (id, (p, w))) as Hk. rewrite E in Hk. simpl in Hk. subst kk.
    simpl. rewrite String.eqb_refl. reflexivity.
  - simpl in Hnd. apply andb_prop in Hnd. destruct Hnd as [Hq Hnd].
    destruct (f (k, (q, v))) as [kk vv] eqn:E.
    pose proof (Hf (k, (q, v))) as Hk. rewrite E in Hk. simpl in Hk. subst kk.
    simpl. destruct (String.eqb p q) eqn:Epq.
    + apply String.eqb_eq in Epq. subst. exfalso.
      apply negb_true_iff in Hq. apply mem_false_iff in Hq. apply Hq.
      apply number_In in H. destruct H as [_ H]. apply (in_map fst) in H. exact H.
    + apply IH; assumption.
Qed.

(* ---------------- picking bits ---------------- *)
Lemma pick_sig_bits id w j : 0 <= j < w -> pick (sig_bits id w) j = Ok (id, j).
Proof.
  intros H. unfold sig_bits. rewrite pick_map. unfold pick.
  destruct (j <? 0) eqn:E; [lia|].
  rewrite iota_nth by lia. f_equal. f_equal. lia.
Qed.

Lemma pick_app {A} (l1 l2 : list A) j : 0 <= j ->
  pick (l1 ++ l2) j = if j <? zlen l1 then pick l1 j else pick l2 (j - zlen l1).
Proof.
  intros Hj. unfold pick, zlen. destruct (j <? 0) eqn:E; [lia|].
  destruct (j <? Z.of_nat (List.length l1)) eqn:E1.
  - rewrite nth_error_app1 by lia. reflexivity.
  - destruct (j - Z.of_nat (List.length l1) <? 0) eqn:E2; [lia|].
    rewrite nth_error_app2 by lia. replace (Z.to_nat (j - Z.of_nat (List.length l1))) with (Z.to_nat j - List.length l1)%nat by lia.
    reflexivity.
Qed.

Lemma single_pick {A} (l : list A) x : zlen l = 1 -> pick l 0 = Ok x -> l = [x].
Proof.
  unfold zlen. destruct l as [|y [|z t]]; simpl; intros H; try lia.
  unfold pick. simpl. intros H'; inversion H'; reflexivity.
Qed.

Lemma sig_bits_1 id : sig_bits id 1 = [(id, 0)].
Proof. reflexivity. Qed.

(* ---------------- the stack module of Series ---------------- *)
Lemma series_conn_key iid n a b e : fst (series_conn iid n a b e) = fst (snd e).
Proof. destruct e as [id [p w]]. reflexivity. Qed.

Section Series.
  Variables (u : unit) (a b : name) (n : Z) (iname uname : name).
  Hypothesis Hwf : wf_unit u = true.
  Hypothesis Hn : 2 <= n.
  Hypothesis Hab : a <> b.
  Hypothesis Ha : assoc a (u_sigs u) = Some 1.
  Hypothesis Hb : assoc b (u_sigs u) = Some 1.
  Hypothesis Hi : mem iname (map fst (unit_io u)) = false.

  Let io := unit_io u.
  Let iid := N.of_nat (List.length io).
  Let m := series_module u a b n iname uname.
  Let x := {| i_name := uname; i_n := n; i_of := TDev unit_dev io;
              i_conns := map (series_conn iid n a b) (number io 0%N) |}.

  Lemma wf_parts : forallb (fun pw : name * Z => 1 <=? snd pw) io = true /\ nodup_names (map fst io) = true.
  Proof.
    pose proof Hwf as W. unfold wf_unit in W. repeat (apply andb_prop in W; destruct W as [W ?]). split; assumption.
  Qed.

  Lemma io_width p w : In (p, w) io -> 1 <= w.
  Proof.
    intros H. destruct wf_parts as [Hw _]. rewrite forallb_forall in Hw. specialize (Hw _ H). simpl in Hw. lia.
  Qed.

  Lemma a_in_io : In (a, 1) io.
  Proof. unfold io, unit_io. apply in_or_app. left. apply assoc_In. exact Ha. Qed.
  Lemma b_in_io : In (b, 1) io.
  Proof. unfold io, unit_io. apply in_or_app. left. apply assoc_In. exact Hb. Qed.

  Lemma m_insts_x : m_insts m = [x].
  Proof. reflexivity. Qed.

  Lemma leaf_port id p w j : In (id, (p, w)) (number io 0%N) -> leaf_name m (id, j) = Ok (p, j).
  Proof.
    intros H. unfold leaf_name, m, series_module. cbn [m_leaves fst snd]. unfold leaves_of.
    rewrite (assocN_number (fun pw : name * Z => LSig (fst pw)) (unit_io u ++ [(iname, n - 1)]) 0%N id (p, w)).
    - reflexivity.
    - rewrite number_app. apply in_or_app. left. exact H.
  Qed.

  Lemma leaf_internal j : leaf_name m (iid, j) = Ok (iname, j).
  Proof.
    unfold leaf_name, m, series_module. cbn [m_leaves fst snd]. unfold leaves_of.
    rewrite (assocN_number (fun pw : name * Z => LSig (fst pw)) (unit_io u ++ [(iname, n - 1)]) 0%N iid (iname, n - 1)).
    - reflexivity.
    - rewrite number_app. apply in_or_app. right. simpl. left. reflexivity.
  Qed.

  Lemma conn_of id p w : In (id, (p, w)) (number io 0%N) ->
    assoc p (i_conns x) = Some (snd (series_conn iid n a b (id, (p, w)))) /\ assoc p (inst_ports x) = Some w.
  Proof.
    intros H. destruct wf_parts as [_ Hnd]. split.
    - cbn [i_conns x]. apply assoc_number; [apply series_conn_key|exact Hnd|exact H].
    - cbn [inst_ports i_of x]. apply assoc_In_nodup; [exact Hnd|]. apply number_In in H. tauto.
  Qed.

  (* a port wired in parallel: every element gets the module port of the same name, all bits *)
  Lemma unit_bits_parallel k p w : In (p, w) io -> p <> a -> p <> b ->
    unit_bits m x k p = Ok (map (pair p) (bits_of w)).
  Proof.
    intros Hin Hpa Hpb. destruct (In_number io (p, w) Hin 0%N) as [id Hid].
    destruct (conn_of id p w Hid) as [Hc Hp]. pose proof (io_width p w Hin) as Hw.
    unfold unit_bits, elem_conn. rewrite Hc, Hp. cbn [ofopt bind series_conn snd].
    apply String.eqb_neq in Hpa. apply String.eqb_neq in Hpb. rewrite Hpa, Hpb.
    assert (i_n x =? 0 = false) as -> by (cbn [i_n x]; lia).
    unfold array_elem_conn. cbn [xwidth]. assert (w <? 1 = false) as E by lia. rewrite E. cbn [bind].
    rewrite Z.eqb_refl. cbn [bind xbits]. rewrite E. cbn [bind].
    unfold sig_bits, bits_of. induction (iota (Z.to_nat w) 0 1) as [|j js IH]; [reflexivity|].
    cbn [map traverse]. rewrite (leaf_port id p w j Hid). cbn [bind]. rewrite IH. reflexivity.
  Qed.

  (* the bits of the two offset concatenations *)
  Lemma first_concat_pick id k : 0 <= k < n ->
    pick (sig_bits id 1 ++ sig_bits iid (n - 1) ++ []) (k * 1 + 0) = Ok (if k =? 0 then (id, 0) else (iid, k - 1)).
  Proof.
    intros Hk. rewrite pick_app by lia. rewrite sig_bits_1. change (zlen [(id, 0)]) with 1.
    destruct (k =? 0) eqn:E.
    - assert (k = 0) as -> by lia. reflexivity.
    - assert (k * 1 + 0 <? 1 = false) as -> by lia. rewrite app_nil_r.
      replace (k * 1 + 0 - 1) with (k - 1) by lia. apply pick_sig_bits. lia.
  Qed.

  Lemma second_concat_pick id k : 0 <= k < n ->
    pick (sig_bits iid (n - 1) ++ sig_bits id 1 ++ []) (k * 1 + 0) = Ok (if k =? n - 1 then (id, 0) else (iid, k)).
  Proof.
    intros Hk. rewrite pick_app by lia. rewrite (sig_bits_len iid (n - 1)) by lia.
    destruct (k =? n - 1) eqn:E.
    - assert (k * 1 + 0 <? n - 1 = false) as -> by lia. rewrite sig_bits_1.
      replace (k * 1 + 0 - (n - 1)) with 0 by lia. reflexivity.
    - assert (k * 1 + 0 <? n - 1 = true) as -> by lia. replace (k * 1 + 0) with k by lia. apply pick_sig_bits. lia.
  Qed.

  (* an offset concatenation of width n fed to the array: element k receives exactly bit k (array element theorem) *)
  Lemma elem_of_concat c bits k y : 0 <= k < n -> xbits c = Ok bits -> zlen bits = n -> pick bits (k * 1 + 0) = Ok y ->
    exists c', array_elem_conn n 1 c k = Ok c' /\ xbits c' = Ok [y].
  Proof.
    intros Hk Hbits Hlen Hpick.
    pose proof (array_element_bits n 1 c k bits ltac:(lia) Hk Hbits) as T.
    destruct (array_elem_conn n 1 c k) as [c'|e].
    - destruct T as [l' [Hl' [Hlen' Hp]]]. exists c'. split; [reflexivity|]. rewrite Hl'. f_equal.
      apply single_pick; [exact Hlen'|]. rewrite (Hp 0 ltac:(lia)).
      assert (zlen bits =? 1 = false) as -> by lia. exact Hpick.
    - exfalso. destruct T as [_ T]. apply T. lia.
  Qed.

  Lemma unit_bits_first k : 0 <= k < n ->
    unit_bits m x k a = Ok [if k =? 0 then (a, 0) else (iname, k - 1)].
  Proof.
    intros Hk. destruct (In_number io (a, 1) a_in_io 0%N) as [id Hid].
    destruct (conn_of id a 1 Hid) as [Hc Hp].
    unfold unit_bits, elem_conn. rewrite Hc, Hp. cbn [ofopt bind series_conn snd].
    assert (String.eqb a b = false) as -> by (apply String.eqb_neq; exact Hab). rewrite String.eqb_refl.
    assert (i_n x =? 0 = false) as -> by (cbn [i_n x]; lia). cbn [i_n x].
    destruct (elem_of_concat (XConcat [XSig id 1; XSig iid (n - 1)]) (sig_bits id 1 ++ sig_bits iid (n - 1) ++ []) k
                (if k =? 0 then (id, 0) else (iid, k - 1)) Hk) as [c' [Hc' Hb']].
    - cbn [xbits map cat_results]. assert (n - 1 <? 1 = false) as -> by lia. reflexivity.
    - unfold zlen. rewrite !app_length. simpl. pose proof (sig_bits_len iid (n - 1) ltac:(lia)) as L. unfold zlen in L. lia.
    - apply first_concat_pick. exact Hk.
    - rewrite Hc'. cbn [bind]. rewrite Hb'. cbn [bind traverse].
      destruct (k =? 0).
      + rewrite (leaf_port id a 1 0 Hid). reflexivity.
      + rewrite leaf_internal. reflexivity.
  Qed.

  Lemma unit_bits_second k : 0 <= k < n ->
    unit_bits m x k b = Ok [if k =? n - 1 then (b, 0) else (iname, k)].
  Proof.
    intros Hk. destruct (In_number io (b, 1) b_in_io 0%N) as [id Hid].
    destruct (conn_of id b 1 Hid) as [Hc Hp].
    unfold unit_bits, elem_conn. rewrite Hc, Hp. cbn [ofopt bind series_conn snd].
    rewrite String.eqb_refl.
    assert (i_n x =? 0 = false) as -> by (cbn [i_n x]; lia). cbn [i_n x].
    destruct (elem_of_concat (XConcat [XSig iid (n - 1); XSig id 1]) (sig_bits iid (n - 1) ++ sig_bits id 1 ++ []) k
                (if k =? n - 1 then (id, 0) else (iid, k)) Hk) as [c' [Hc' Hb']].
    - cbn [xbits map cat_results]. assert (n - 1 <? 1 = false) as -> by lia. reflexivity.
    - unfold zlen. rewrite !app_length. simpl. pose proof (sig_bits_len iid (n - 1) ltac:(lia)) as L. unfold zlen in L. lia.
    - apply second_concat_pick. exact Hk.
    - rewrite Hc'. cbn [bind]. rewrite Hb'. cbn [bind traverse].
      destruct (k =? n - 1).
      + rewrite (leaf_port id b 1 0 Hid). reflexivity.
      + rewrite leaf_internal. reflexivity.
  Qed.

  Lemma iname_not_port p w : In (p, w) io -> p <> iname.
  Proof.
    intros H E. subst p. apply mem_false_iff in Hi. apply Hi. apply (in_map fst) in H. exact H.
  Qed.

  (* nothing else is on bit k of the internal bus *)
  Lemma internal_bit_private k k' p w l : 0 <= k' < n -> In (p, w) io ->
    unit_bits m x k' p = Ok l -> In (iname, k) l ->
    (p = b /\ k' = k /\ k < n - 1) \/ (p = a /\ k' = k + 1).
  Proof.
    intros Hk' Hin Hl Hk.
    destruct (String.eqb p b) eqn:Eb.
    - apply String.eqb_eq in Eb. subst p. rewrite (unit_bits_second k' Hk') in Hl. inversion Hl; subst l; clear Hl.
      destruct (k' =? n - 1) eqn:E; simpl in Hk; destruct Hk as [Hk|[]]; inversion Hk.
      + exfalso. exact (iname_not_port b 1 b_in_io H0).
      + left. repeat split; lia.
    - apply String.eqb_neq in Eb. destruct (String.eqb p a) eqn:Ea.
      + apply String.eqb_eq in Ea. subst p. rewrite (unit_bits_first k' Hk') in Hl. inversion Hl; subst l; clear Hl.
        destruct (k' =? 0) eqn:E; simpl in Hk; destruct Hk as [Hk|[]]; inversion Hk.
        * exfalso. exact (iname_not_port a 1 a_in_io H0).
        * right. split; [reflexivity|lia].
      + apply String.eqb_neq in Ea. rewrite (unit_bits_parallel k' p w Hin Ea Eb) in Hl. inversion Hl; subst l; clear Hl.
        apply in_map_iff in Hk. destruct Hk as [j [Hj _]]. inversion Hj. exfalso. exact (iname_not_port p w Hin H0).
  Qed.
End Series.

(* ---------------- the generator functions ---------------- *)
Lemma wf_internal_fresh u r : wf_unit u = true ->
  unused_name (name_fuel (unit_names u)) (unit_names u) "i" = Ok r -> mem r (map fst (unit_io u)) = false.
Proof.
  intros Hwf Hr. unfold wf_unit in Hwf. apply andb_prop in Hwf. destruct Hwf as [_ Hc].
  rewrite forallb_forall in Hc. specialize (Hc r (unused_name_cands _ _ _ _ Hr)).
  rewrite (unused_name_fresh _ _ _ _ Hr) in Hc. simpl in Hc. apply negb_true_iff in Hc. exact Hc.
Qed.

Lemma series_gen_valid u a b n wa wb : wf_unit u = true -> 2 <= n ->
  assoc a (u_sigs u) = Some wa -> assoc b (u_sigs u) = Some wb ->
  exists iname uname, series_gen u a b n = Ok (series_module u a b n iname uname) /\
     mem iname (map fst (unit_io u)) = false /\ mem iname (unit_names u) = false /\
     mem uname (iname :: unit_names u) = false.
Proof.
  intros Hwf Hn Ha Hb. unfold series_gen, series_port.
  assert (n <? 1 = false) as -> by lia. assert (n =? 1 = false) as -> by lia. rewrite Ha, Hb. cbn [bind].
  destruct (unused_name_ok (unit_names u) "i") as [iname [Hi Hif]]. rewrite Hi. cbn [bind].
  destruct (unused_name_ok (iname :: unit_names u) "units") as [uname [Hu Huf]]. rewrite Hu. cbn [bind].
  exists iname, uname. repeat split; try assumption. eapply wf_internal_fresh; eauto.
Qed.

Lemma series_gen_inv u a b n m : 2 <= n -> series_gen u a b n = Ok m ->
  exists wa wb iname uname, assoc a (u_sigs u) = Some wa /\ assoc b (u_sigs u) = Some wb /\
     unused_name (name_fuel (unit_names u)) (unit_names u) "i" = Ok iname /\ m = series_module u a b n iname uname.
Proof.
  intros Hn. unfold series_gen, series_port.
  assert (n <? 1 = false) as -> by lia. assert (n =? 1 = false) as -> by lia.
  destruct (assoc a (u_sigs u)) as [wa|]; cbn [bind]; [|discriminate].
  destruct (assoc b (u_sigs u)) as [wb|]; cbn [bind]; [|discriminate].
  destruct (unused_name (name_fuel (unit_names u)) (unit_names u) "i") as [iname|] eqn:Ei; cbn [bind]; [|discriminate].
  destruct (unused_name _ (iname :: unit_names u) "units") as [uname|]; cbn [bind]; [|discriminate].
  intros H; inversion H. exists wa, wb, iname, uname. repeat split; reflexivity.
Qed.

(* a series port that is not a signal-valued port of the unit (absent, or bundle valued): rejected *)
Lemma series_gen_rejects u a b n : 2 <= n -> assoc a (u_sigs u) = None \/ assoc b (u_sigs u) = None ->
  exists e, series_gen u a b n = Error e.
Proof.
  intros Hn H. unfold series_gen, series_port.
  assert (n <? 1 = false) as -> by lia. assert (n =? 1 = false) as -> by lia.
  destruct (assoc a (u_sigs u)); cbn [bind]; [|eauto]. destruct H as [H|H]; [discriminate|]. rewrite H. cbn [bind]. eauto.
Qed.

(* ---------------- Wrapper ---------------- *)
Section Wrapper.
  Variables (u : unit) (iname : name).
  Hypothesis Hwf : wf_unit u = true.
  Let io := unit_io u.
  Let m := wrapper_module u iname.
  Let x := {| i_name := iname; i_n := 0; i_of := TDev unit_dev io;
              i_conns := map (fun e : N * (name * Z) => (fst (snd e), XSig (fst e) (snd (snd e)))) (number io 0%N) |}.

  Lemma wrapper_bits p w : In (p, w) io -> unit_bits m x 0 p = Ok (map (pair p) (bits_of w)).
  Proof.
    intros Hin. pose proof (wf_parts u Hwf) as [Hw Hnd]. fold io in Hw, Hnd.
    assert (1 <= w) as Hw1 by (rewrite forallb_forall in Hw; specialize (Hw _ Hin); simpl in Hw; lia).
    destruct (In_number io (p, w) Hin 0%N) as [id Hid].
    unfold unit_bits, elem_conn. cbn [i_conns x].
    rewrite (assoc_number (fun e : N * (name * Z) => (fst (snd e), XSig (fst e) (snd (snd e)))) io
               (fun e => eq_refl) 0%N id p w Hnd Hid).
    cbn [inst_ports i_of x]. rewrite (assoc_In_nodup io p w Hnd Hin). cbn [ofopt bind fst snd i_n].
    assert (i_n x =? 0 = true) as -> by reflexivity.
    cbn [xwidth]. assert (w <? 1 = false) as E by lia. rewrite E. cbn [bind].
    rewrite Z.eqb_refl. cbn [bind xbits]. rewrite E. cbn [bind].
    unfold sig_bits, bits_of. induction (iota (Z.to_nat w) 0 1) as [|j js IH]; [reflexivity|].
    cbn [map traverse].
    assert (leaf_name m (id, j) = Ok (p, j)) as ->.
    { unfold leaf_name, m, wrapper_module. cbn [m_leaves fst snd]. unfold leaves_of.
      rewrite (assocN_number (fun pw : name * Z => LSig (fst pw)) (unit_io u) 0%N id (p, w) Hid). reflexivity. }
    cbn [bind]. rewrite IH. reflexivity.
  Qed.
End Wrapper.

(* ---------------- model nets = specification keys ---------------- *)
(* the net (signal bit of the generated module) that realises a key of Spec/C19Topology.v: module port bits are
   themselves; chain k is bit k of the internal bus.  Injective as soon as the internal name is no port name. *)
Definition net_of (iname : name) (key : netkey) : name * Z :=
  match key with KPort p j => (p, j) | KChain k j => (iname, k + j) end.

Lemma net_of_injective iname (io : list (name * Z)) k1 k2 :
  mem iname (map fst io) = false ->
  (forall p j, k1 = KPort p j -> In p (map fst io)) -> (forall p j, k2 = KPort p j -> In p (map fst io)) ->
  (forall k j, k1 = KChain k j -> j = 0) -> (forall k j, k2 = KChain k j -> j = 0) ->
  net_of iname k1 = net_of iname k2 -> k1 = k2.
Proof.
  intros Hi P1 P2 C1 C2. apply mem_false_iff in Hi.
  destruct k1 as [p j|k j], k2 as [q l|k' l]; simpl; intros H; inversion H; subst.
  - reflexivity.
  - exfalso. apply Hi. eapply P1. reflexivity.
  - exfalso. apply Hi. eapply P2. reflexivity.
  - rewrite (C1 _ _ eq_refl) in *. rewrite (C2 _ _ eq_refl) in *. f_equal. lia.
Qed.

Lemma series_model_meets_spec u a b n iname uname k p w :
  wf_unit u = true -> 2 <= n -> a <> b -> assoc a (u_sigs u) = Some 1 -> assoc b (u_sigs u) = Some 1 ->
  mem iname (map fst (unit_io u)) = false -> 0 <= k < n -> In (p, w) (unit_io u) ->
  let io := unit_io u in
  let x := {| i_name := uname; i_n := n; i_of := TDev unit_dev io;
              i_conns := map (series_conn (N.of_nat (List.length io)) n a b) (number io 0%N) |} in
  unit_bits (series_module u a b n iname uname) x k p
  = Ok (map (fun j => net_of iname (series_key n a b k p j)) (bits_of w)).
Proof.
  intros Hwf Hn Hab Ha Hb Hi Hk Hin io x.
  pose proof (wf_parts u Hwf) as [_ Hnd].
  destruct (String.eqb p a) eqn:Ea.
  - apply String.eqb_eq in Ea. subst p.
    assert (w = 1) as ->.
    { pose proof (assoc_In_nodup (unit_io u) a w Hnd Hin) as E1.
      pose proof (assoc_In_nodup (unit_io u) a 1 Hnd (a_in_io u a Ha)) as E2. congruence. }
    unfold x, io. rewrite (unit_bits_first u a b n iname uname Hwf Hn Hab Ha k Hk).
    unfold series_key. rewrite String.eqb_refl. change (bits_of 1) with [0]. cbn [map].
    destruct (k =? 0); cbn [net_of]; rewrite ?Z.add_0_r; reflexivity.
  - apply String.eqb_neq in Ea. destruct (String.eqb p b) eqn:Eb.
    + apply String.eqb_eq in Eb. subst p.
      assert (w = 1) as ->.
      { pose proof (assoc_In_nodup (unit_io u) b w Hnd Hin) as E1.
        pose proof (assoc_In_nodup (unit_io u) b 1 Hnd (b_in_io u b Hb)) as E2. congruence. }
      unfold x, io. rewrite (unit_bits_second u a b n iname uname Hwf Hn Hb k Hk).
      unfold series_key. assert (String.eqb b a = false) as -> by (apply String.eqb_neq; congruence).
      rewrite String.eqb_refl. change (bits_of 1) with [0]. cbn [map].
      destruct (k =? n - 1); cbn [net_of]; rewrite ?Z.add_0_r; reflexivity.
    + apply String.eqb_neq in Eb.
      unfold x, io. rewrite (unit_bits_parallel u a b n iname uname Hwf Hn k p w Hin Ea Eb).
      f_equal. apply map_ext. intros j. unfold series_key.
      apply String.eqb_neq in Ea. apply String.eqb_neq in Eb. rewrite Ea, Eb. reflexivity.
Qed.
