(* Proofs/C19Proofs.v — lemmas behind Props/C19.v: the invented names are fresh and always found; what each
   element of the unit array of Series is connected to, derived from the array-element theorem
   (Proofs/ArraysProofs.v) and the bit semantics of concatenations (Model/Resolve.v). *)
Require Import Hdl21.Base.PyInt Hdl21.Spec.PySlice Hdl21.Model.Slice Hdl21.Model.Resolve Hdl21.Model.Arrays
               Hdl21.Base.Design Hdl21.Spec.C19Topology Hdl21.Model.C19Series
               Hdl21.Proofs.SliceProofs Hdl21.Proofs.ResolveProofs Hdl21.Proofs.ArraysProofs.
Open Scope string_scope.
Open Scope Z_scope.

(* ---------------- names ---------------- *)
Lemma length_sapp a b : String.length (sapp a b) = (String.length a + String.length b)%nat.
Proof. unfold sapp. induction a; simpl; auto. Qed.

Lemma mem_true_iff s l : mem s l = true <-> In s l.
Proof.
  unfold mem. rewrite existsb_exists. split.
  - intros [x [Hx E]]. apply String.eqb_eq in E. subst; auto.
  - intros H. exists s. split; auto. apply String.eqb_refl.
Qed.

Lemma mem_false_iff s l : mem s l = false <-> ~ In s l.
Proof. rewrite <- mem_true_iff. destruct (mem s l); split; intros; congruence. Qed.

Lemma mem_maxlen s l : mem s l = true -> (String.length s <= maxlen l)%nat.
Proof.
  induction l as [|x l IH]; simpl; [discriminate|].
  destruct (String.eqb s x) eqn:E; simpl.
  - apply String.eqb_eq in E. subst. lia.
  - intros H. specialize (IH H). lia.
Qed.

Lemma unused_name_fresh fuel names : forall c r, unused_name fuel names c = Ok r -> mem r names = false.
Proof.
  induction fuel as [|f IH]; intros c r; simpl; destruct (mem c names) eqn:E; try discriminate.
  - intros H; inversion H; subst; exact E.
  - apply IH.
  - intros H; inversion H; subst; exact E.
Qed.

Lemma unused_name_cands fuel names : forall c r, unused_name fuel names c = Ok r -> In r (cands fuel c).
Proof.
  induction fuel as [|f IH]; intros c r; simpl; destruct (mem c names) eqn:E; try discriminate.
  - intros H; inversion H; auto.
  - intros H. right. apply IH. exact H.
  - intros H; inversion H; auto.
Qed.

(* the fuel is never exhausted: candidates grow by one character per step *)
Lemma unused_name_total fuel names : forall c, (maxlen names < String.length c + fuel)%nat ->
  exists r, unused_name fuel names c = Ok r.
Proof.
  induction fuel as [|f IH]; intros c H; simpl; destruct (mem c names) eqn:E; eauto.
  - apply mem_maxlen in E. lia.
  - apply IH. rewrite length_sapp. simpl. lia.
Qed.

Lemma unused_name_ok names c : exists r, unused_name (name_fuel names) names c = Ok r /\ mem r names = false.
Proof.
  destruct (unused_name_total (name_fuel names) names c) as [r Hr]; [unfold name_fuel; lia|].
  exists r. split; [exact Hr|]. eapply unused_name_fresh; eauto.
Qed.

(* ---------------- association lists over numbered lists ---------------- *)
Lemma number_In {A} (l : list A) : forall k id x, In (id, x) (number l k) ->
  (k <= id < k + N.of_nat (List.length l))%N /\ In x l.
Proof.
  induction l as [|y t IH]; intros k id x; simpl; [tauto|]. intros [H|H].
  - inversion H; subst. split; [lia|auto].
  - apply IH in H. destruct H as [H1 H2]. split; [lia|auto].
Qed.

Lemma In_number {A} (l : list A) x : In x l -> forall k, exists id, In (id, x) (number l k).
Proof.
  induction l as [|y t IH]; simpl; [tauto|]. intros [->|H] k.
  - exists k. auto.
  - destruct (IH H (k + 1)%N) as [id Hid]. exists id. auto.
Qed.

Lemma number_app {A} (l1 l2 : list A) : forall k,
  number (l1 ++ l2) k = number l1 k ++ number l2 (k + N.of_nat (List.length l1))%N.
Proof.
  induction l1 as [|y t IH]; intros k; simpl.
  - f_equal. lia.
  - f_equal. rewrite IH. f_equal. f_equal. lia.
Qed.

Lemma assocN_number {A B} (g : A -> B) (l : list A) : forall k id x, In (id, x) (number l k) ->
  assocN id (map (fun e => (fst e, g (snd e))) (number l k)) = Some (g x).
Proof.
  induction l as [|y t IH]; intros k id x; simpl; [tauto|]. intros [H|H].
  - inversion H; subst. rewrite N.eqb_refl. reflexivity.
  - pose proof (number_In t _ _ _ H) as [Hr _].
    assert (N.eqb id k = false) as -> by (apply N.eqb_neq; lia). apply IH. exact H.
Qed.

Lemma assoc_In_nodup {V} (l : list (name * V)) p v : nodup_names (map fst l) = true -> In (p, v) l -> assoc p l = Some v.
Proof.
  induction l as [|[q u] t IH]; simpl; [tauto|]. intros Hnd [H|H].
  - inversion H; subst. rewrite String.eqb_refl. reflexivity.
  - apply andb_prop in Hnd. destruct Hnd as [Hq Hnd].
    destruct (String.eqb p q) eqn:E.
    + apply String.eqb_eq in E. subst. exfalso.
      apply negb_true_iff in Hq. apply mem_false_iff in Hq. apply Hq. apply (in_map fst) in H. exact H.
    + apply IH; assumption.
Qed.

Lemma assoc_In {V} (l : list (name * V)) p v : assoc p l = Some v -> In (p, v) l.
Proof.
  induction l as [|[q u] t IH]; simpl; [discriminate|].
  destruct (String.eqb p q) eqn:E.
  - apply String.eqb_eq in E. intros H; inversion H; subst. auto.
  - intros H. right. apply IH. exact H.
Qed.

(* a map over a numbered list that keeps the port name as key *)
Lemma assoc_number {V} (f : N * (name * Z) -> name * V) (l : list (name * Z)) :
  (forall e, fst (f e) = fst (snd e)) ->
  forall k id p w, nodup_names (map fst l) = true -> In (id, (p, w)) (number l k) ->
  assoc p (map f (number l k)) = Some (snd (f (id, (p, w)))).
Proof.
  intros Hf. induction l as [|[q v] t IH]; intros k id p w Hnd; simpl; [tauto|]. intros [H|H].
  - inversion H; subst. destruct (f (id, (p, w))) as [kk vv] eqn:E.
    pose proof (Hf (id, (p, w))) as Hk. rewrite E in Hk. simpl in Hk. subst kk.
    simpl. rewrite String.eqb_refl. reflexivity.
  - simpl in Hnd. apply andb_prop in Hnd. destruct Hnd as [Hq Hnd].
    destruct (f (k, (q, v))) as [kk vv] eqn:E.
    pose proof (Hf (k, (q, v))) as Hk. rewrite E in Hk. simpl in Hk. subst kk.
    simpl. destruct (String.eqb p q) eqn:Epq.
    + apply String.eqb_eq in Epq. subst. exfalso.
      apply negb_true_iff in Hq. apply mem_false_iff in Hq. apply Hq.
      apply number_In in H. destruct H as [_ H]. apply (in_map fst) in H. exact H.
    + apply IH; assumption.
Qed.

(* ---------------- picking bits ---------------- *)
Lemma pick_sig_bits id w j : 0 <= j < w -> pick (sig_bits id w) j = Ok (id, j).
Proof.
  intros H. unfold sig_bits. rewrite pick_map. unfold pick.
  destruct (j <? 0) eqn:E; [lia|].
  rewrite iota_nth by lia. f_equal. f_equal. lia.
Qed.

Lemma pick_app {A} (l1 l2 : list A) j : 0 <= j ->
  pick (l1 ++ l2) j = if j <? zlen l1 then pick l1 j else pick l2 (j - zlen l1).
Proof.
  intros Hj. unfold pick, zlen. destruct (j <? 0) eqn:E; [lia|].
  destruct (j <? Z.of_nat (List.length l1)) eqn:E1.
  - rewrite nth_error_app1 by lia. reflexivity.
  - destruct (j - Z.of_nat (List.length l1) <? 0) eqn:E2; [lia|].
    rewrite nth_error_app2 by lia. replace (Z.to_nat (j - Z.of_nat (List.length l1))) with (Z.to_nat j - List.length l1)%nat by lia.
    reflexivity.
Qed.

Lemma single_pick {A} (l : list A) x : zlen l = 1 -> pick l 0 = Ok x -> l = [x].
Proof.
  unfold zlen. destruct l as [|y [|z t]]; simpl; intros H; try lia.
  unfold pick. simpl. intros H'; inversion H'; reflexivity.
Qed.

Lemma sig_bits_1 id : sig_bits id 1 = [(id, 0)].
Proof. reflexivity. Qed.

(* two lists with the same picks are the same list *)
Lemma nth_error_ext' {A} : forall (l1 l2 : list A), (forall i, nth_error l1 i = nth_error l2 i) -> l1 = l2.
Proof.
  induction l1 as [|y l1 IH]; intros [|z l2] H; auto.
  - specialize (H 0%nat). discriminate.
  - specialize (H 0%nat). discriminate.
  - f_equal.
    + specialize (H 0%nat). simpl in H. congruence.
    + apply IH. intros i. exact (H (S i)).
Qed.

Lemma pick_ext {A} (l1 l2 : list A) : zlen l1 = zlen l2 -> (forall j, 0 <= j < zlen l1 -> pick l1 j = pick l2 j) -> l1 = l2.
Proof.
  unfold zlen. intros Hlen H. apply nth_error_ext'. intros i.
  destruct (lt_dec i (List.length l1)) as [Hi|Hi].
  - specialize (H (Z.of_nat i) ltac:(lia)). unfold pick in H.
    assert (Z.of_nat i <? 0 = false) as E by lia. rewrite E in H. rewrite Nat2Z.id in H.
    destruct (nth_error l1 i), (nth_error l2 i); try discriminate; [|reflexivity].
    inversion H; reflexivity.
  - rewrite (proj2 (nth_error_None l1 i)) by lia. rewrite (proj2 (nth_error_None l2 i)) by lia. reflexivity.
Qed.

Lemma In_bits_of w j : In j (bits_of w) -> 0 <= j < w.
Proof. unfold bits_of. intros H. apply iota_in in H. destruct H as [k [Hk ->]]. lia. Qed.

Lemma zlen_map_bits_of {A} (f : Z -> A) w : 0 <= w -> zlen (map f (bits_of w)) = w.
Proof. intros H. unfold zlen, bits_of. rewrite map_length, iota_length. lia. Qed.

Lemma pick_map_bits_of {A} (f : Z -> A) w j : 0 <= j < w -> pick (map f (bits_of w)) j = Ok (f j).
Proof.
  intros H. rewrite pick_map. unfold pick, bits_of. destruct (j <? 0) eqn:E; [lia|].
  rewrite iota_nth by lia. f_equal. f_equal. lia.
Qed.

Lemma traverse_map_ok {A B C} (f : B -> result C) (g : A -> B) (h : A -> C) l :
  (forall y, In y l -> f (g y) = Ok (h y)) -> traverse f (map g l) = Ok (map h l).
Proof.
  induction l as [|y l IH]; intros H; [reflexivity|]. cbn [map traverse].
  rewrite (H y (or_introl eq_refl)). cbn [bind]. rewrite IH; [reflexivity|]. intros z Hz. apply H. right. exact Hz.
Qed.

Lemma traverse_error {A B} (f : A -> result B) l y e : In y l -> f y = Error e -> exists e', traverse f l = Error e'.
Proof.
  induction l as [|z l IH]; [intros []|]. intros [->|Hin] Hy; cbn [traverse].
  - rewrite Hy. cbn [bind]. eauto.
  - destruct (f z); cbn [bind]; [|eauto]. destruct (IH Hin Hy) as [e' ->]. cbn [bind]. eauto.
Qed.

(* a bit index of a bus made of w-bit groups determines the group *)
Lemma group_unique w k j k' j' : 0 <= j < w -> 0 <= j' < w -> k * w + j = k' * w + j' -> k = k' /\ j = j'.
Proof.
  intros Hj Hj' E.
  assert (k = k') as ->.
  { destruct (Z.lt_trichotomy k k') as [H|[H|H]]; [exfalso|exact H|exfalso].
    - assert ((k + 1) * w <= k' * w) by (apply Z.mul_le_mono_nonneg_r; lia). lia.
    - assert ((k' + 1) * w <= k * w) by (apply Z.mul_le_mono_nonneg_r; lia). lia. }
  split; [reflexivity|lia].
Qed.

(* ---------------- the stack module of Series ---------------- *)
Lemma series_conn_key iid iw a b e : fst (series_conn iid iw a b e) = fst (snd e).
Proof. destruct e as [id [p w]]. reflexivity. Qed.

(* the stack with an internal bus of ANY width iw >= 1: structure, the parallel ports, and when elaboration refuses it *)
Section SeriesGen.
  Variables (u : unit) (a b : name) (iw n : Z) (iname uname : name).
  Hypothesis Hwf : wf_unit u = true.
  Hypothesis Hn : 2 <= n.

  Let io := unit_io u.
  Let iid := N.of_nat (List.length io).
  Let m := series_module_gen u a b iw n iname uname.
  Let x := {| i_name := uname; i_n := n; i_of := TDev unit_dev io;
              i_conns := map (series_conn iid iw a b) (number io 0%N) |}.

  Lemma wf_parts : forallb (fun pw : name * Z => 1 <=? snd pw) io = true /\ nodup_names (map fst io) = true.
  Proof.
    pose proof Hwf as W. unfold wf_unit in W. repeat (apply andb_prop in W; destruct W as [W ?]). split; assumption.
  Qed.

  Lemma io_width p w : In (p, w) io -> 1 <= w.
  Proof.
    intros H. destruct wf_parts as [Hw _]. rewrite forallb_forall in Hw. specialize (Hw _ H). simpl in Hw. lia.
  Qed.

  Lemma sig_in_io c w : assoc c (u_sigs u) = Some w -> In (c, w) io.
  Proof. intros H. unfold io, unit_io. apply in_or_app. left. apply assoc_In. exact H. Qed.

  Lemma m_insts_x : m_insts m = [x].
  Proof. reflexivity. Qed.

  Lemma leaf_port id p w j : In (id, (p, w)) (number io 0%N) -> leaf_name m (id, j) = Ok (p, j).
  Proof.
    intros H. unfold leaf_name, m, series_module_gen. cbn [m_leaves fst snd]. unfold leaves_of.
    rewrite (assocN_number (fun pw : name * Z => LSig (fst pw)) (unit_io u ++ [(iname, iw)]) 0%N id (p, w)).
    - reflexivity.
    - rewrite number_app. apply in_or_app. left. exact H.
  Qed.

  Lemma leaf_internal j : leaf_name m (iid, j) = Ok (iname, j).
  Proof.
    unfold leaf_name, m, series_module_gen. cbn [m_leaves fst snd]. unfold leaves_of.
    rewrite (assocN_number (fun pw : name * Z => LSig (fst pw)) (unit_io u ++ [(iname, iw)]) 0%N iid (iname, iw)).
    - reflexivity.
    - rewrite number_app. apply in_or_app. right. simpl. left. reflexivity.
  Qed.

  Lemma conn_of id p w : In (id, (p, w)) (number io 0%N) ->
    assoc p (i_conns x) = Some (snd (series_conn iid iw a b (id, (p, w)))) /\ assoc p (inst_ports x) = Some w.
  Proof.
    intros H. destruct wf_parts as [_ Hnd]. split.
    - cbn [i_conns x]. apply assoc_number; [apply series_conn_key|exact Hnd|exact H].
    - cbn [inst_ports i_of x]. apply assoc_In_nodup; [exact Hnd|]. apply number_In in H. tauto.
  Qed.

  (* a port wired in parallel: every element gets the module port of the same name, all bits *)
  Lemma unit_bits_parallel k p w : In (p, w) io -> p <> a -> p <> b ->
    unit_bits m x k p = Ok (map (pair p) (bits_of w)).
  Proof.
    intros Hin Hpa Hpb. destruct (In_number io (p, w) Hin 0%N) as [id Hid].
    destruct (conn_of id p w Hid) as [Hc Hp]. pose proof (io_width p w Hin) as Hw.
    unfold unit_bits, elem_conn. rewrite Hc, Hp. cbn [ofopt bind series_conn snd].
    apply String.eqb_neq in Hpa. apply String.eqb_neq in Hpb. rewrite Hpa, Hpb.
    assert (i_n x =? 0 = false) as -> by (cbn [i_n x]; lia).
    unfold array_elem_conn. cbn [xwidth]. assert (w <? 1 = false) as E by lia. rewrite E. cbn [bind].
    rewrite Z.eqb_refl. cbn [bind xbits]. rewrite E. cbn [bind].
    unfold sig_bits, bits_of. induction (iota (Z.to_nat w) 0 1) as [|j js IH]; [reflexivity|].
    cbn [map traverse]. rewrite (leaf_port id p w j Hid). cbn [bind]. rewrite IH. reflexivity.
  Qed.

  (* ArrayFlattener refuses a connection whose width is neither that of the port nor n times it *)
  Lemma unit_bits_first_refused wa k : 1 <= iw -> a <> b -> assoc a (u_sigs u) = Some wa -> wa + iw <> n * wa ->
    unit_bits m x k a = Error EWidth.
  Proof.
    intros Hiw Hab Ha Hne. pose proof (sig_in_io a wa Ha) as Hin. destruct (In_number io (a, wa) Hin 0%N) as [id Hid].
    destruct (conn_of id a wa Hid) as [Hc Hp]. pose proof (io_width a wa Hin) as Hw.
    unfold unit_bits, elem_conn. rewrite Hc, Hp. cbn [ofopt bind series_conn snd].
    assert (String.eqb a b = false) as -> by (apply String.eqb_neq; exact Hab). rewrite String.eqb_refl.
    assert (i_n x =? 0 = false) as -> by (cbn [i_n x]; lia). cbn [i_n x].
    unfold array_elem_conn. cbn [xwidth map sum_results].
    assert (wa <? 1 = false) as -> by lia. assert (iw <? 1 = false) as -> by lia. cbn [bind].
    assert (wa + (iw + 0) =? wa = false) as -> by lia. assert (wa + (iw + 0) =? n * wa = false) as -> by lia. reflexivity.
  Qed.

  Lemma unit_bits_second_refused wb k : 1 <= iw -> assoc b (u_sigs u) = Some wb -> iw + wb <> n * wb ->
    unit_bits m x k b = Error EWidth.
  Proof.
    intros Hiw Hb Hne. pose proof (sig_in_io b wb Hb) as Hin. destruct (In_number io (b, wb) Hin 0%N) as [id Hid].
    destruct (conn_of id b wb Hid) as [Hc Hp]. pose proof (io_width b wb Hin) as Hw.
    unfold unit_bits, elem_conn. rewrite Hc, Hp. cbn [ofopt bind series_conn snd].
    rewrite String.eqb_refl.
    assert (i_n x =? 0 = false) as -> by (cbn [i_n x]; lia). cbn [i_n x].
    unfold array_elem_conn. cbn [xwidth map sum_results].
    assert (wb <? 1 = false) as -> by lia. assert (iw <? 1 = false) as -> by lia. cbn [bind].
    assert (iw + (wb + 0) =? wb = false) as -> by lia. assert (iw + (wb + 0) =? n * wb = false) as -> by lia. reflexivity.
  Qed.

  (* one refused port of unit 0 and elaboration as a whole fails *)
  Lemma all_unit_bits_refused p w e : In (p, w) io -> unit_bits m x 0 p = Error e -> exists e', all_unit_bits m = Error e'.
  Proof.
    intros Hin He. unfold all_unit_bits. rewrite m_insts_x.
    destruct (traverse_error (fun pw : name * Z => unit_bits m x 0 (fst pw)) (inst_ports x) (p, w) e Hin He) as [e' He'].
    apply (traverse_error (fun k => traverse (fun pw : name * Z => unit_bits m x k (fst pw)) (inst_ports x)) (elems_of x) 0 e'); [|exact He'].
    unfold elems_of. assert (i_n x =? 0 = false) as -> by (cbn [i_n x]; lia). cbn [i_n x].
    destruct (Z.to_nat n) eqn:E; [lia|]. left. reflexivity.
  Qed.
End SeriesGen.

(* the stack generators.py builds (fixes/C19W-1): internal bus of width (n-1)*w, w = the width of both series ports *)
Section Series.
  Variables (u : unit) (a b : name) (w n : Z) (iname uname : name).
  Hypothesis Hwf : wf_unit u = true.
  Hypothesis Hn : 2 <= n.
  Hypothesis Hab : a <> b.
  Hypothesis Ha : assoc a (u_sigs u) = Some w.
  Hypothesis Hb : assoc b (u_sigs u) = Some w.
  Hypothesis Hi : mem iname (map fst (unit_io u)) = false.

  Let io := unit_io u.
  Let iid := N.of_nat (List.length io).
  Let m := series_module_gen u a b ((n - 1) * w) n iname uname.
  Let x := {| i_name := uname; i_n := n; i_of := TDev unit_dev io;
              i_conns := map (series_conn iid ((n - 1) * w) a b) (number io 0%N) |}.

  Lemma a_in_io : In (a, w) io.
  Proof. exact (sig_in_io u a w Ha). Qed.
  Lemma b_in_io : In (b, w) io.
  Proof. exact (sig_in_io u b w Hb). Qed.

  Lemma w_pos : 1 <= w.
  Proof. exact (io_width u Hwf a w a_in_io). Qed.

  Lemma iw_pos : 1 <= (n - 1) * w.
  Proof. pose proof w_pos. nia. Qed.

  (* the bits of the two offset concatenations: bit k*w + j *)
  Lemma first_concat_pick id k j : 0 <= k < n -> 0 <= j < w ->
    pick (sig_bits id w ++ sig_bits iid ((n - 1) * w) ++ []) (k * w + j) = Ok (if k =? 0 then (id, j) else (iid, (k - 1) * w + j)).
  Proof.
    intros Hk Hj. pose proof w_pos as Hw. pose proof iw_pos as Hiw.
    rewrite pick_app by nia. rewrite (sig_bits_len id w Hw).
    destruct (k =? 0) eqn:E.
    - assert (k = 0) as -> by lia. assert (0 * w + j <? w = true) as -> by lia.
      replace (0 * w + j) with j by lia. apply pick_sig_bits. exact Hj.
    - assert (w <= k * w) by nia. assert (k * w + j <? w = false) as -> by lia. rewrite app_nil_r.
      replace (k * w + j - w) with ((k - 1) * w + j) by lia. apply pick_sig_bits.
      assert (k * w <= (n - 1) * w) by (apply Z.mul_le_mono_nonneg_r; lia). lia.
  Qed.

  Lemma second_concat_pick id k j : 0 <= k < n -> 0 <= j < w ->
    pick (sig_bits iid ((n - 1) * w) ++ sig_bits id w ++ []) (k * w + j) = Ok (if k =? n - 1 then (id, j) else (iid, k * w + j)).
  Proof.
    intros Hk Hj. pose proof w_pos as Hw. pose proof iw_pos as Hiw.
    rewrite pick_app by nia. rewrite (sig_bits_len iid ((n - 1) * w) Hiw).
    destruct (k =? n - 1) eqn:E.
    - assert (k = n - 1) as -> by lia. assert ((n - 1) * w + j <? (n - 1) * w = false) as -> by lia.
      replace ((n - 1) * w + j - (n - 1) * w) with j by lia. rewrite app_nil_r. apply pick_sig_bits. exact Hj.
    - assert ((k + 1) * w <= (n - 1) * w) by (apply Z.mul_le_mono_nonneg_r; lia).
      assert (k * w + j <? (n - 1) * w = true) as -> by lia. apply pick_sig_bits. nia.
  Qed.

  (* an offset concatenation of width n*w fed to the array: element k receives exactly bits k*w .. k*w + w - 1 (array element theorem) *)
  Lemma elem_of_concat c bits k (f : Z -> bit) : 0 <= k < n -> xbits c = Ok bits -> zlen bits = n * w ->
    (forall j, 0 <= j < w -> pick bits (k * w + j) = Ok (f j)) ->
    exists c', array_elem_conn n w c k = Ok c' /\ xbits c' = Ok (map f (bits_of w)).
  Proof.
    intros Hk Hbits Hlen Hpick. pose proof w_pos as Hw.
    pose proof (array_element_bits n w c k bits Hw Hk Hbits) as T.
    destruct (array_elem_conn n w c k) as [c'|e].
    - destruct T as [l' [Hl' [Hlen' Hp]]]. exists c'. split; [reflexivity|]. rewrite Hl'. f_equal.
      apply pick_ext.
      + rewrite zlen_map_bits_of by lia. exact Hlen'.
      + intros j Hj. rewrite Hlen' in Hj. rewrite (Hp j Hj).
        assert (zlen bits =? w = false) as -> by nia. rewrite (Hpick j Hj). symmetry. apply pick_map_bits_of. exact Hj.
    - exfalso. destruct T as [_ T]. apply T. exact Hlen.
  Qed.

  Lemma concat_len id1 w1 id2 w2 : 1 <= w1 -> 1 <= w2 -> zlen (sig_bits id1 w1 ++ sig_bits id2 w2 ++ []) = w1 + w2.
  Proof.
    intros H1 H2. pose proof (sig_bits_len id1 w1 H1) as L1. pose proof (sig_bits_len id2 w2 H2) as L2.
    unfold zlen in *. rewrite !app_length. simpl. lia.
  Qed.

  Lemma unit_bits_first k : 0 <= k < n ->
    unit_bits m x k a = Ok (map (fun j => if k =? 0 then (a, j) else (iname, (k - 1) * w + j)) (bits_of w)).
  Proof.
    intros Hk. pose proof w_pos as Hw. pose proof iw_pos as Hiw.
    destruct (In_number io (a, w) a_in_io 0%N) as [id Hid].
    destruct (conn_of u a b ((n - 1) * w) n uname Hwf id a w Hid) as [Hc Hp].
    unfold unit_bits, elem_conn. fold io iid x in Hc, Hp. rewrite Hc, Hp. cbn [ofopt bind series_conn snd].
    assert (String.eqb a b = false) as -> by (apply String.eqb_neq; exact Hab). rewrite String.eqb_refl.
    assert (i_n x =? 0 = false) as -> by (cbn [i_n x]; lia). cbn [i_n x].
    destruct (elem_of_concat (XConcat [XSig id w; XSig iid ((n - 1) * w)]) (sig_bits id w ++ sig_bits iid ((n - 1) * w) ++ []) k
                (fun j => if k =? 0 then (id, j) else (iid, (k - 1) * w + j)) Hk) as [c' [Hc' Hb']].
    - cbn [xbits map cat_results]. assert (w <? 1 = false) as -> by lia. assert ((n - 1) * w <? 1 = false) as -> by lia. reflexivity.
    - rewrite concat_len by lia. lia.
    - intros j Hj. apply first_concat_pick; assumption.
    - rewrite Hc'. cbn [bind]. rewrite Hb'. cbn [bind].
      apply traverse_map_ok. intros j _. destruct (k =? 0).
      + exact (leaf_port u a b ((n - 1) * w) n iname uname id a w j Hid).
      + exact (leaf_internal u a b ((n - 1) * w) n iname uname _).
  Qed.

  Lemma unit_bits_second k : 0 <= k < n ->
    unit_bits m x k b = Ok (map (fun j => if k =? n - 1 then (b, j) else (iname, k * w + j)) (bits_of w)).
  Proof.
    intros Hk. pose proof w_pos as Hw. pose proof iw_pos as Hiw.
    destruct (In_number io (b, w) b_in_io 0%N) as [id Hid].
    destruct (conn_of u a b ((n - 1) * w) n uname Hwf id b w Hid) as [Hc Hp].
    unfold unit_bits, elem_conn. fold io iid x in Hc, Hp. rewrite Hc, Hp. cbn [ofopt bind series_conn snd].
    rewrite String.eqb_refl.
    assert (i_n x =? 0 = false) as -> by (cbn [i_n x]; lia). cbn [i_n x].
    destruct (elem_of_concat (XConcat [XSig iid ((n - 1) * w); XSig id w]) (sig_bits iid ((n - 1) * w) ++ sig_bits id w ++ []) k
                (fun j => if k =? n - 1 then (id, j) else (iid, k * w + j)) Hk) as [c' [Hc' Hb']].
    - cbn [xbits map cat_results]. assert (w <? 1 = false) as -> by lia. assert ((n - 1) * w <? 1 = false) as -> by lia. reflexivity.
    - rewrite concat_len by lia. lia.
    - intros j Hj. apply second_concat_pick; assumption.
    - rewrite Hc'. cbn [bind]. rewrite Hb'. cbn [bind].
      apply traverse_map_ok. intros j _. destruct (k =? n - 1).
      + exact (leaf_port u a b ((n - 1) * w) n iname uname id b w j Hid).
      + exact (leaf_internal u a b ((n - 1) * w) n iname uname _).
  Qed.

  Lemma unit_bits_par k p wp : In (p, wp) io -> p <> a -> p <> b -> unit_bits m x k p = Ok (map (pair p) (bits_of wp)).
  Proof. exact (unit_bits_parallel u a b ((n - 1) * w) n iname uname Hwf Hn k p wp). Qed.

  Lemma iname_not_port p wp : In (p, wp) io -> p <> iname.
  Proof.
    intros H E. subst p. apply mem_false_iff in Hi. apply Hi. apply (in_map fst) in H. exact H.
  Qed.

  (* nothing else is on bit k*w + j of the internal bus *)
  Lemma internal_bit_private k j k' p wp l : 0 <= k' < n -> 0 <= j < w -> In (p, wp) io ->
    unit_bits m x k' p = Ok l -> In (iname, k * w + j) l ->
    (p = b /\ k' = k /\ k < n - 1) \/ (p = a /\ k' = k + 1).
  Proof.
    intros Hk' Hj Hin Hl Hk.
    destruct (String.eqb p b) eqn:Eb.
    - apply String.eqb_eq in Eb. subst p. rewrite (unit_bits_second k' Hk') in Hl. inversion Hl; subst l; clear Hl.
      apply in_map_iff in Hk. destruct Hk as [j' [Hk Hj']]. apply In_bits_of in Hj'.
      destruct (k' =? n - 1) eqn:E; inversion Hk.
      + exfalso. exact (iname_not_port b w b_in_io H0).
      + left. destruct (group_unique w k' j' k j Hj' Hj H0) as [-> _]. repeat split; lia.
    - apply String.eqb_neq in Eb. destruct (String.eqb p a) eqn:Ea.
      + apply String.eqb_eq in Ea. subst p. rewrite (unit_bits_first k' Hk') in Hl. inversion Hl; subst l; clear Hl.
        apply in_map_iff in Hk. destruct Hk as [j' [Hk Hj']]. apply In_bits_of in Hj'.
        destruct (k' =? 0) eqn:E; inversion Hk.
        * exfalso. exact (iname_not_port a w a_in_io H0).
        * right. destruct (group_unique w (k' - 1) j' k j Hj' Hj H0) as [E' _]. split; [reflexivity|lia].
      + apply String.eqb_neq in Ea. rewrite (unit_bits_par k' p wp Hin Ea Eb) in Hl. inversion Hl; subst l; clear Hl.
        apply in_map_iff in Hk. destruct Hk as [j' [Hj' _]]. inversion Hj'. exfalso. exact (iname_not_port p wp Hin H0).
  Qed.
End Series.

(* ---------------- when elaboration refuses the stack ---------------- *)
(* series ports of different widths: the generator returns the module sized by the first, ArrayFlattener refuses it *)
Lemma series_unequal_refused u a b wa wb n iname uname : wf_unit u = true -> 2 <= n -> a <> b ->
  assoc a (u_sigs u) = Some wa -> assoc b (u_sigs u) = Some wb -> wa <> wb ->
  (forall k, unit_bits (series_module u a b wa n iname uname)
      {| i_name := uname; i_n := n; i_of := TDev unit_dev (unit_io u);
         i_conns := map (series_conn (N.of_nat (List.length (unit_io u))) ((n - 1) * wa) a b) (number (unit_io u) 0%N) |} k b = Error EWidth) /\
  exists e, all_unit_bits (series_module u a b wa n iname uname) = Error e.
Proof.
  intros Hwf Hn Hab Ha Hb Hne.
  pose proof (io_width u Hwf a wa (sig_in_io u a wa Ha)) as Hwa. pose proof (io_width u Hwf b wb (sig_in_io u b wb Hb)) as Hwb.
  assert (1 <= (n - 1) * wa) as Hiw by nia.
  assert ((n - 1) * wa + wb <> n * wb) as Hw by nia.
  assert (forall k, unit_bits (series_module u a b wa n iname uname)
      {| i_name := uname; i_n := n; i_of := TDev unit_dev (unit_io u);
         i_conns := map (series_conn (N.of_nat (List.length (unit_io u))) ((n - 1) * wa) a b) (number (unit_io u) 0%N) |} k b = Error EWidth) as H.
  { intros k. exact (unit_bits_second_refused u a b ((n - 1) * wa) n iname uname Hwf Hn wb k Hiw Hb Hw). }
  split; [exact H|].
  exact (all_unit_bits_refused u a b ((n - 1) * wa) n iname uname Hn b wb EWidth (sig_in_io u b wb Hb) (H 0)).
Qed.

(* the PINNED generators.py (bus of width n-1) on series ports wider than one bit: ArrayFlattener refuses Concat(a, i) *)
Lemma series_pinned_wide_refused u a b w n iname uname : wf_unit u = true -> 2 <= n -> a <> b ->
  assoc a (u_sigs u) = Some w -> 2 <= w ->
  exists e, all_unit_bits (series_module_pinned u a b n iname uname) = Error e.
Proof.
  intros Hwf Hn Hab Ha Hw.
  assert (w + (n - 1) <> n * w) as Hne by nia.
  exact (all_unit_bits_refused u a b (n - 1) n iname uname Hn a w EWidth (sig_in_io u a w Ha)
           (unit_bits_first_refused u a b (n - 1) n iname uname Hwf Hn w 0 ltac:(lia) Hab Ha Hne)).
Qed.

(* ---------------- the generator functions ---------------- *)
Lemma wf_internal_fresh u r : wf_unit u = true ->
  unused_name (name_fuel (unit_names u)) (unit_names u) "i" = Ok r -> mem r (map fst (unit_io u)) = false.
Proof.
  intros Hwf Hr. unfold wf_unit in Hwf. apply andb_prop in Hwf. destruct Hwf as [_ Hc].
  rewrite forallb_forall in Hc. specialize (Hc r (unused_name_cands _ _ _ _ Hr)).
  rewrite (unused_name_fresh _ _ _ _ Hr) in Hc. simpl in Hc. apply negb_true_iff in Hc. exact Hc.
Qed.

Lemma series_gen_valid u a b n wa wb : wf_unit u = true -> 2 <= n ->
  assoc a (u_sigs u) = Some wa -> assoc b (u_sigs u) = Some wb ->
  exists iname uname, series_gen u a b n = Ok (series_module u a b wa n iname uname) /\
     mem iname (map fst (unit_io u)) = false /\ mem iname (unit_names u) = false /\
     mem uname (iname :: unit_names u) = false.
Proof.
  intros Hwf Hn Ha Hb. unfold series_gen, series_port.
  assert (n <? 1 = false) as -> by lia. assert (n =? 1 = false) as -> by lia. rewrite Ha, Hb. cbn [bind].
  destruct (unused_name_ok (unit_names u) "i") as [iname [Hi Hif]]. rewrite Hi. cbn [bind].
  destruct (unused_name_ok (iname :: unit_names u) "units") as [uname [Hu Huf]]. rewrite Hu. cbn [bind].
  exists iname, uname. repeat split; try assumption. eapply wf_internal_fresh; eauto.
Qed.

Lemma series_gen_inv u a b n m : 2 <= n -> series_gen u a b n = Ok m ->
  exists wa wb iname uname, assoc a (u_sigs u) = Some wa /\ assoc b (u_sigs u) = Some wb /\
     unused_name (name_fuel (unit_names u)) (unit_names u) "i" = Ok iname /\ m = series_module u a b wa n iname uname.
Proof.
  intros Hn. unfold series_gen, series_port.
  assert (n <? 1 = false) as -> by lia. assert (n =? 1 = false) as -> by lia.
  destruct (assoc a (u_sigs u)) as [wa|]; cbn [bind]; [|discriminate].
  destruct (assoc b (u_sigs u)) as [wb|]; cbn [bind]; [|discriminate].
  destruct (unused_name (name_fuel (unit_names u)) (unit_names u) "i") as [iname|] eqn:Ei; cbn [bind]; [|discriminate].
  destruct (unused_name _ (iname :: unit_names u) "units") as [uname|]; cbn [bind]; [|discriminate].
  intros H; inversion H. exists wa, wb, iname, uname. repeat split; reflexivity.
Qed.

(* the pinned generator differs from the repaired one in the width of the bus only; for one-bit series ports not at all *)
Lemma series_gen_pinned_valid u a b n wa wb : 2 <= n ->
  assoc a (u_sigs u) = Some wa -> assoc b (u_sigs u) = Some wb ->
  exists iname uname, series_gen_pinned u a b n = Ok (series_module_pinned u a b n iname uname) /\
                      series_gen u a b n = Ok (series_module u a b wa n iname uname).
Proof.
  intros Hn Ha Hb. unfold series_gen_pinned, series_gen, series_port.
  assert (n <? 1 = false) as -> by lia. assert (n =? 1 = false) as -> by lia. rewrite Ha, Hb. cbn [bind].
  destruct (unused_name_ok (unit_names u) "i") as [iname [Hi Hif]]. rewrite Hi. cbn [bind].
  destruct (unused_name_ok (iname :: unit_names u) "units") as [uname [Hu Huf]]. rewrite Hu. cbn [bind].
  exists iname, uname. split; reflexivity.
Qed.

Lemma series_module_pinned_w1 u a b n iname uname : series_module_pinned u a b n iname uname = series_module u a b 1 n iname uname.
Proof. unfold series_module_pinned, series_module. rewrite Z.mul_1_r. reflexivity. Qed.

(* a series port that is not a signal-valued port of the unit (absent, or bundle valued): rejected *)
Lemma series_gen_rejects u a b n : 2 <= n -> assoc a (u_sigs u) = None \/ assoc b (u_sigs u) = None ->
  exists e, series_gen u a b n = Error e.
Proof.
  intros Hn H. unfold series_gen, series_port.
  assert (n <? 1 = false) as -> by lia. assert (n =? 1 = false) as -> by lia.
  destruct (assoc a (u_sigs u)); cbn [bind]; [|eauto]. destruct H as [H|H]; [discriminate|]. rewrite H. cbn [bind]. eauto.
Qed.

(* ---------------- Wrapper ---------------- *)
Section Wrapper.
  Variables (u : unit) (iname : name).
  Hypothesis Hwf : wf_unit u = true.
  Let io := unit_io u.
  Let m := wrapper_module u iname.
  Let x := {| i_name := iname; i_n := 0; i_of := TDev unit_dev io;
              i_conns := map (fun e : N * (name * Z) => (fst (snd e), XSig (fst e) (snd (snd e)))) (number io 0%N) |}.

  Lemma wrapper_bits p w : In (p, w) io -> unit_bits m x 0 p = Ok (map (pair p) (bits_of w)).
  Proof.
    intros Hin. pose proof (wf_parts u Hwf) as [Hw Hnd]. fold io in Hw, Hnd.
    assert (1 <= w) as Hw1 by (rewrite forallb_forall in Hw; specialize (Hw _ Hin); simpl in Hw; lia).
    destruct (In_number io (p, w) Hin 0%N) as [id Hid].
    unfold unit_bits, elem_conn. cbn [i_conns x].
    rewrite (assoc_number (fun e : N * (name * Z) => (fst (snd e), XSig (fst e) (snd (snd e)))) io
               (fun e => eq_refl) 0%N id p w Hnd Hid).
    cbn [inst_ports i_of x]. rewrite (assoc_In_nodup io p w Hnd Hin). cbn [ofopt bind fst snd i_n].
    assert (i_n x =? 0 = true) as -> by reflexivity.
    cbn [xwidth]. assert (w <? 1 = false) as E by lia. rewrite E. cbn [bind].
    rewrite Z.eqb_refl. cbn [bind xbits]. rewrite E. cbn [bind].
    unfold sig_bits, bits_of. induction (iota (Z.to_nat w) 0 1) as [|j js IH]; [reflexivity|].
    cbn [map traverse].
    assert (leaf_name m (id, j) = Ok (p, j)) as ->.
    { unfold leaf_name, m, wrapper_module. cbn [m_leaves fst snd]. unfold leaves_of.
      rewrite (assocN_number (fun pw : name * Z => LSig (fst pw)) (unit_io u) 0%N id (p, w) Hid). reflexivity. }
    cbn [bind]. rewrite IH. reflexivity.
  Qed.
End Wrapper.

(* ---------------- model nets = specification keys ---------------- *)
(* the net (signal bit of the generated module) that realises a key of Spec/C19Topology.v: module port bits are
   themselves; bit j of chain k is bit k*w + j of the internal bus (w = the width of the series ports).
   Injective as soon as the internal name is no port name and the bit indices of chain keys are below w. *)
Definition net_of (iname : name) (w : Z) (key : netkey) : name * Z :=
  match key with KPort p j => (p, j) | KChain k j => (iname, k * w + j) end.

Lemma net_of_injective iname w (io : list (name * Z)) k1 k2 :
  mem iname (map fst io) = false ->
  (forall p j, k1 = KPort p j -> In p (map fst io)) -> (forall p j, k2 = KPort p j -> In p (map fst io)) ->
  (forall k j, k1 = KChain k j -> 0 <= j < w) -> (forall k j, k2 = KChain k j -> 0 <= j < w) ->
  net_of iname w k1 = net_of iname w k2 -> k1 = k2.
Proof.
  intros Hi P1 P2 C1 C2. apply mem_false_iff in Hi.
  destruct k1 as [p j|k j], k2 as [q l|k' l]; simpl; intros H; inversion H; subst.
  - reflexivity.
  - exfalso. apply Hi. eapply P1. reflexivity.
  - exfalso. apply Hi. eapply P2. reflexivity.
  - destruct (group_unique w k j k' l (C1 _ _ eq_refl) (C2 _ _ eq_refl) H1) as [-> ->]. reflexivity.
Qed.

Lemma series_model_meets_spec u a b w n iname uname k p wp :
  wf_unit u = true -> 2 <= n -> a <> b -> assoc a (u_sigs u) = Some w -> assoc b (u_sigs u) = Some w ->
  mem iname (map fst (unit_io u)) = false -> 0 <= k < n -> In (p, wp) (unit_io u) ->
  let io := unit_io u in
  let x := {| i_name := uname; i_n := n; i_of := TDev unit_dev io;
              i_conns := map (series_conn (N.of_nat (List.length io)) ((n - 1) * w) a b) (number io 0%N) |} in
  unit_bits (series_module u a b w n iname uname) x k p
  = Ok (map (fun j => net_of iname w (series_key n a b k p j)) (bits_of wp)).
Proof.
  intros Hwf Hn Hab Ha Hb Hi Hk Hin io x.
  pose proof (wf_parts u Hwf) as [_ Hnd].
  destruct (String.eqb p a) eqn:Ea.
  - apply String.eqb_eq in Ea. subst p.
    assert (wp = w) as ->.
    { pose proof (assoc_In_nodup (unit_io u) a wp Hnd Hin) as E1.
      pose proof (assoc_In_nodup (unit_io u) a w Hnd (a_in_io u a w Ha)) as E2. congruence. }
    unfold x, io, series_module. rewrite (unit_bits_first u a b w n iname uname Hwf Hn Hab Ha k Hk).
    f_equal. apply map_ext. intros j. unfold series_key. rewrite String.eqb_refl.
    destruct (k =? 0); reflexivity.
  - apply String.eqb_neq in Ea. destruct (String.eqb p b) eqn:Eb.
    + apply String.eqb_eq in Eb. subst p.
      assert (wp = w) as ->.
      { pose proof (assoc_In_nodup (unit_io u) b wp Hnd Hin) as E1.
        pose proof (assoc_In_nodup (unit_io u) b w Hnd (b_in_io u b w Hb)) as E2. congruence. }
      unfold x, io, series_module. rewrite (unit_bits_second u a b w n iname uname Hwf Hn Ha Hb k Hk).
      f_equal. apply map_ext. intros j. unfold series_key.
      assert (String.eqb b a = false) as -> by (apply String.eqb_neq; congruence).
      rewrite String.eqb_refl. destruct (k =? n - 1); reflexivity.
    + apply String.eqb_neq in Eb.
      unfold x, io, series_module. rewrite (unit_bits_parallel u a b ((n - 1) * w) n iname uname Hwf Hn k p wp Hin Ea Eb).
      f_equal. apply map_ext. intros j. unfold series_key.
      apply String.eqb_neq in Ea. apply String.eqb_neq in Eb. rewrite Ea, Eb. reflexivity.
Qed.
