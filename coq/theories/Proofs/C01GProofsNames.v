(* Proofs/C01GProofsNames.v — the naming the passes compute (fl_impl) is injective on every module: names_ok_m fl_impl d holds
   whenever the attribute names of every module are pairwise distinct and the flattening succeeds.  Every flattened signal is
   named by flatname with avoid = the module namespace at that moment (BundleProofs.replace_bundle_inst_spec: fresh), the
   namespace keeps every scalar name, every bundle instance not yet popped and every flattened name made so far. *)
From Coq Require Import String.
Require Import Hdl21.Base.PyInt Hdl21.Spec.PySlice Hdl21.Model.Slice Hdl21.Model.Resolve Hdl21.Base.Design
               Hdl21.Spec.Nets Hdl21.Spec.WfDesign Hdl21.Base.C01BDesign Hdl21.Spec.C01BNets Hdl21.Spec.C01BWf Hdl21.Spec.C01BLower
               Hdl21.Spec.C01GLower Hdl21.Model.C01GBundlePasses
               Hdl21.Proofs.C01BProofs Hdl21.Proofs.C01BLowerProofs Hdl21.Proofs.C01EProofsBase
               Hdl21.Proofs.C01GProofsLower Hdl21.Proofs.C01GProofsScopes Hdl21.Proofs.C01GProofsPasses.
Require Hdl21.Spec.BundleSpec Hdl21.Model.BundleFlat Hdl21.Proofs.BundleProofs.
Open Scope Z_scope.

Notation bname := BundleSpec.bname.

Lemma NoDup_nodup_names l : NoDup l -> nodup_names l = true.
Proof.
  induction 1 as [|x l Hx ND IH]; [reflexivity|]. cbn [nodup_names]. rewrite IH, andb_true_r. apply negb_true_iff.
  destruct (existsb (String.eqb x) l) eqn:E; [|reflexivity]. apply existsb_eqb_In in E. contradiction.
Qed.

Lemma remove_name_keeps n b ns : In n ns -> n <> b -> In n (BundleFlat.remove_name b ns).
Proof.
  induction ns as [|x ns IH]; intros Hin Hne; [destruct Hin|]. cbn [BundleFlat.remove_name]. destruct (String.eqb x b) eqn:E.
  - apply String.eqb_eq in E. subst x. destruct Hin as [->|Hin]; [congruence|exact Hin].
  - destruct Hin as [->|Hin]; [left; reflexivity|right; apply IH; assumption].
Qed.

Definition allflat (out : list (string * BundleSpec.scope)) : list string := flat_map (fun bs => BundleProofs.snames (snd bs)) out.

(* P: names that must stay in the namespace and must not be handed out again *)
Lemma flatten_insts_fresh mx l : forall ns out ns' (P : list string),
  (forall pt, In pt l -> BundleSpec.wf_tree (snd pt) = true) ->
  NoDup (map (fun pt : bool * btree => bname (snd pt)) l) ->
  (forall n, In n P -> In n ns) -> (forall n, In n P -> ~ In n (map (fun pt : bool * btree => bname (snd pt)) l)) ->
  (forall pt, In pt l -> In (bname (snd pt)) ns) ->
  BundleFlat.flatten_insts mx l ns = Ok (out, ns') ->
  NoDup (allflat out) /\ forall n, In n (allflat out) -> ~ In n P.
Proof.
  induction l as [|[port t] rest IH]; intros ns out ns' P W ND HP HPl Hl H; cbn [BundleFlat.flatten_insts] in H.
  - inversion H; subst. split; [constructor|intros n []].
  - destruct (BundleFlat.replace_bundle_inst mx port t (BundleFlat.remove_name (bname t) ns)) as [[sc ns1]|] eqn:E; cbn [bind] in H; [|discriminate].
    destruct (BundleFlat.flatten_insts mx rest ns1) as [[out1 ns2]|] eqn:E2; cbn [bind] in H; [|discriminate]. inversion H; subst out ns'.
    assert (Wt : BundleSpec.wf_tree t = true) by (apply (W (port, t)); left; reflexivity).
    destruct (BundleProofs.replace_bundle_inst_spec _ _ _ _ _ _ Wt E) as [_ [Nsc [Fsc [Ens1 _]]]].
    cbn [map snd] in ND, HPl. inversion ND as [|? ? Hb ND']; subst.
    assert (Hkeep : forall n, In n P -> In n (BundleFlat.remove_name (bname t) ns)).
    { intros n Hn. apply remove_name_keeps; [apply HP; exact Hn|]. intros ->. apply (HPl _ Hn). left. reflexivity. }
    assert (Hrest : forall pt, In pt rest -> In (bname (snd pt)) (BundleFlat.remove_name (bname t) ns)).
    { intros pt Hpt. apply remove_name_keeps; [apply Hl; right; exact Hpt|]. intros E0. apply Hb. rewrite <- E0.
      apply (in_map (fun pt : bool * btree => bname (snd pt))) in Hpt. exact Hpt. }
    destruct (IH (BundleFlat.remove_name (bname t) ns ++ BundleProofs.snames sc) out1 ns2 (P ++ BundleProofs.snames sc)) as [N1 F1].
    + intros pt Hpt. apply W. right. exact Hpt.
    + exact ND'.
    + intros n Hn. apply in_app_iff in Hn. apply in_app_iff. destruct Hn as [Hn|Hn]; [left; apply Hkeep; exact Hn|right; exact Hn].
    + intros n Hn G. apply in_app_iff in Hn. destruct Hn as [Hn|Hn]; [apply (HPl n Hn); right; exact G|].
      apply in_map_iff in G. destruct G as [pt [Epn Hpt]]. apply (Fsc n Hn). rewrite <- Epn. apply Hrest. exact Hpt.
    + intros pt Hpt. apply in_app_iff. left. apply Hrest. exact Hpt.
    + exact E2.
    + unfold allflat in *. cbn [flat_map snd]. split.
      * apply BundleProofs.NoDup_app_iff. split; [exact Nsc|]. split; [exact N1|]. intros n Hn G. apply (F1 n G). apply in_app_iff. right. exact Hn.
      * intros n Hn G. apply in_app_iff in Hn. destruct Hn as [Hn|Hn]; [apply (Fsc n Hn); apply Hkeep; exact G|].
        apply (F1 n Hn). apply in_app_iff. left. exact G.
Qed.

(* splitting the flattened names by port-ness keeps them distinct *)
Lemma NoDup_split {A B} (f : A -> list B) (p : A -> bool) l : NoDup (flat_map f l) ->
  NoDup (flat_map (fun x => if p x then f x else []) l ++ flat_map (fun x => if p x then [] else f x) l).
Proof.
  induction l as [|x l IH]; intros H; [constructor|]. cbn [flat_map] in *. apply BundleProofs.NoDup_app_iff in H. destruct H as [Nx [Nl D]].
  specialize (IH Nl). apply BundleProofs.NoDup_app_iff in IH. destruct IH as [Na [Nb Dab]].
  assert (Sa : forall y, In y (flat_map (fun x => if p x then f x else []) l) -> In y (flat_map f l)).
  { intros y Hy. apply in_flat_map in Hy. destruct Hy as [z [Hz Hy]]. apply in_flat_map. exists z. split; [exact Hz|]. destruct (p z); [exact Hy|destruct Hy]. }
  assert (Sb : forall y, In y (flat_map (fun x => if p x then [] else f x) l) -> In y (flat_map f l)).
  { intros y Hy. apply in_flat_map in Hy. destruct Hy as [z [Hz Hy]]. apply in_flat_map. exists z. split; [exact Hz|]. destruct (p z); [destruct Hy|exact Hy]. }
  destruct (p x); cbn [app].
  - rewrite <- app_assoc. apply BundleProofs.NoDup_app_iff. split; [exact Nx|]. split.
    + apply BundleProofs.NoDup_app_iff. auto.
    + intros y Hy G. apply in_app_iff in G. destruct G as [G|G]; [apply (D y Hy (Sa y G))|apply (D y Hy (Sb y G))].
  - apply BundleProofs.NoDup_app_iff. split; [exact Na|]. split.
    + apply BundleProofs.NoDup_app_iff. split; [exact Nx|]. split; [exact Nb|]. intros y Hy G. apply (D y Hy (Sb y G)).
    + intros y Hy G. apply in_app_iff in G. destruct G as [G|G]; [apply (D y G (Sa y Hy))|apply (Dab y Hy G)].
Qed.

Section Module.
Variable m : bmodule.
Variable own : list (string * BundleSpec.scope).
Hypothesis Hown : mscopes m = Ok own.
Hypothesis W : forall pt, In pt (bm_bundles m) -> BundleSpec.wf_tree (snd pt) = true.
Hypothesis NDall : NoDup (C01GLower.mod_names m).

Let bnames := map (fun pt : bool * btree => bname (snd pt)) (bm_bundles m).

Lemma NDb : NoDup bnames.
Proof. unfold C01GLower.mod_names in NDall. apply NoDup_app_r in NDall. apply NoDup_app_r in NDall. apply NoDup_app_l in NDall. exact NDall. Qed.

Definition scalars : list string := map fst (bm_ports m) ++ map fst (bm_sigs m).

Lemma scalars_nodup : NoDup scalars.
Proof. unfold scalars, C01GLower.mod_names in *. rewrite app_assoc in NDall. apply NoDup_app_l in NDall. exact NDall. Qed.

Lemma scalar_not_bundle n : In n scalars -> ~ In n bnames.
Proof.
  unfold scalars, C01GLower.mod_names in *. intros Hn G. rewrite app_assoc in NDall. eapply (NoDup_app_disj _ _ n NDall Hn). apply in_app_iff. left. exact G.
Qed.

Lemma own_fresh : NoDup (allflat own) /\ forall n, In n (allflat own) -> ~ In n scalars.
Proof.
  unfold mscopes, BundleFlat.flatten_module in Hown. apply bind_ok in Hown. destruct Hown as [[out ns'] [H1 H2]]. inversion H2; subst own. cbn [fst].
  eapply (flatten_insts_fresh _ _ _ _ _ scalars); [| | | | |exact H1].
  - intros pt Hpt. apply W. apply in_rev. exact Hpt.
  - rewrite map_rev. apply NoDup_rev. exact NDb.
  - intros n Hn. unfold scalars, flat_ns0 in *. apply in_app_iff. left. rewrite app_assoc. apply in_app_iff. left. exact Hn.
  - intros n Hn G. rewrite map_rev in G. apply in_rev in G. exact (scalar_not_bundle n Hn G).
  - intros pt Hpt. apply in_app_iff. right. apply in_rev in Hpt. apply (in_map (fun pt : bool * btree => bname (snd pt))) in Hpt. exact Hpt.
Qed.

Lemma flat_sigs_names port : map fst (flat_sigs port m own) = map (skey (scope_name own)) (bundle_members port (rev (bm_bundles m))).
Proof. rewrite (flat_sigs_lower m own Hown W NDb). unfold lower_sigs. rewrite map_map. reflexivity. Qed.

Definition is_port_scope (port : bool) (bs : string * BundleSpec.scope) : bool :=
  match find_bundle (bm_bundles m) (fst bs) with Some (p, _) => Bool.eqb p port | None => false end.

Lemma flat_sigs_split port : map fst (flat_sigs port m own) = flat_map (fun bs => if is_port_scope port bs then BundleProofs.snames (snd bs) else []) own.
Proof.
  unfold flat_sigs. generalize own as l. induction l as [|bs l IH]; [reflexivity|]. cbn [flat_map]. rewrite map_app, IH. f_equal.
  unfold is_port_scope. destruct (find_bundle (bm_bundles m) (fst bs)) as [[p t]|]; [|reflexivity]. destruct (Bool.eqb p port); [|reflexivity].
  unfold scope_sigs, BundleProofs.snames. rewrite map_map. reflexivity.
Qed.

Lemma module_names_ok_impl : module_names_ok_m fl_impl m = true.
Proof.
  unfold module_names_ok_m. apply andb_true_intro. split; [|apply NoDup_nodup_names; exact NDb].
  apply NoDup_nodup_names. rewrite (fl_impl_at m own Hown). unfold mod_sports_r, mod_ssigs_r. rewrite !map_app.
  rewrite !(skey_scalar (scope_name own)). rewrite <- !flat_sigs_names.
  destruct own_fresh as [Nf Ff]. pose proof (NoDup_split (fun bs : string * BundleSpec.scope => BundleProofs.snames (snd bs)) (is_port_scope true) own Nf) as Ns.
  rewrite (flat_sigs_split true), (flat_sigs_split false).
  assert (Efalse : forall l : list (string * BundleSpec.scope), (forall bs, In bs l -> exists p t, find_bundle (bm_bundles m) (fst bs) = Some (p, t)) ->
            flat_map (fun bs => if is_port_scope false bs then BundleProofs.snames (snd bs) else []) l =
            flat_map (fun bs => if is_port_scope true bs then [] else BundleProofs.snames (snd bs)) l).
  { induction l as [|bs l IHl]; intros Hl; [reflexivity|]. cbn [flat_map]. rewrite IHl by (intros bs' H'; apply Hl; right; exact H'). f_equal.
    destruct (Hl bs (or_introl eq_refl)) as [p [t Hf]]. unfold is_port_scope. rewrite Hf. destruct p; reflexivity. }
  rewrite Efalse.
  2:{ intros [b sc] Hbs. pose proof (own_at m own Hown W NDb b sc Hbs) as Ha. destruct (own_scope_inv m own Hown W b sc Ha) as [[p t] [Hin [Hn _]]].
      exists p, t. cbn [fst snd] in *. rewrite <- Hn. apply (find_bundle_nodup _ (p, t) NDb Hin). }
  set (FP := flat_map (fun bs => if is_port_scope true bs then BundleProofs.snames (snd bs) else []) own) in *.
  set (FI := flat_map (fun bs => if is_port_scope true bs then [] else BundleProofs.snames (snd bs)) own) in *.
  assert (Sub : forall n, In n (FP ++ FI) -> In n (allflat own)).
  { intros n Hn. apply in_app_iff in Hn. unfold FP, FI, allflat in *. destruct Hn as [Hn|Hn]; apply in_flat_map in Hn; destruct Hn as [bs [Hbs Hn]];
      apply in_flat_map; exists bs; (split; [exact Hbs|]); destruct (is_port_scope true bs); try exact Hn; destruct Hn. }
  pose proof scalars_nodup as Nsc. unfold scalars in Nsc. apply BundleProofs.NoDup_app_iff in Nsc. destruct Nsc as [Np [Ns' Dps]].
  apply BundleProofs.NoDup_app_iff in Ns. destruct Ns as [NP [NI DPI]].
  assert (Fs : forall n, In n (FP ++ FI) -> ~ In n scalars) by (intros n Hn; apply Ff; apply Sub; exact Hn).
  (* ports ++ FP ++ sigs ++ FI *)
  rewrite <- app_assoc. apply BundleProofs.NoDup_app_iff. split; [exact Np|]. split.
  - apply BundleProofs.NoDup_app_iff. split; [exact NP|]. split.
    + apply BundleProofs.NoDup_app_iff. split; [exact Ns'|]. split; [exact NI|].
      intros n Hn G. apply (Fs n); [apply in_app_iff; right; exact G|]. unfold scalars. apply in_app_iff. right. exact Hn.
    + intros n Hn G. apply in_app_iff in G. destruct G as [G|G]; [|exact (DPI n Hn G)].
      apply (Fs n); [apply in_app_iff; left; exact Hn|]. unfold scalars. apply in_app_iff. right. exact G.
  - intros n Hn G. apply in_app_iff in G. destruct G as [G|G].
    + apply (Fs n); [apply in_app_iff; left; exact G|]. unfold scalars. apply in_app_iff. left. exact Hn.
    + apply in_app_iff in G. destruct G as [G|G]; [exact (Dps n Hn G)|].
      apply (Fs n); [apply in_app_iff; right; exact G|]. unfold scalars. apply in_app_iff. left. exact Hn.
Qed.
End Module.

Lemma bp_wf_names d m : bp_wf d = true -> In m (bd_mods d) -> NoDup (C01GLower.mod_names m).
Proof.
  unfold bp_wf. intros H Hin. rewrite forallb_forall in H. specialize (H m Hin). unfold bp_wf_module in H.
  apply andb_prop in H. destruct H as [_ H]. apply nodup_names_NoDup. exact H.
Qed.

Theorem fl_impl_names_ok d : bp_wf d = true -> (forall m, In m (bd_mods d) -> exists own, mscopes m = Ok own) -> names_ok_m fl_impl d = true.
Proof.
  intros Hwf Hs. unfold names_ok_m. apply forallb_forall. intros m Hm. destruct (Hs m Hm) as [own Hown].
  destruct (bp_wf_mod d m Hwf Hm) as [_ [W Hx]]. apply andb_true_intro. split.
  - apply (module_names_ok_impl m own Hown W (bp_wf_names d m Hwf Hm)).
  - apply forallb_forall. intros x Hxin. apply (Hx x Hxin).
Qed.

Lemma flat_design_scopes d d' : flat_design d = Ok d' -> forall m, In m (bd_mods d) -> exists own, mscopes m = Ok own.
Proof.
  unfold flat_design. intros H m Hm. apply bind_ok in H. destruct H as [ms [Hms _]].
  destruct (traverse_In _ _ _ m Hms Hm) as [lm [Hlm _]]. unfold flat_module in Hlm. apply bind_ok in Hlm. destruct Hlm as [own [Hown _]]. eauto.
Qed.
