(* Proofs/C04EProofs.v — the dictionary of Model/C04EBridge.v is faithful for reference groups:
   "lane k of port q" -> its (instance name, port name) commutes with "the port my connection refers to"
   (C04ConnOps books: lookup q = CRef ..;  design: Model/C01EElab.v:nxt) and is injective, so the two graphs have the
   same weak components. *)
From Coq Require Import String.
Require Import Hdl21.Base.PyInt Hdl21.Spec.PySlice Hdl21.Model.Slice Hdl21.Model.Resolve Hdl21.Base.Design
               Hdl21.Spec.WfDesign Hdl21.Model.C04ConnOps Hdl21.Spec.C04LastWrite Hdl21.Proofs.C04Proofs
               Hdl21.Model.C04Groups Hdl21.Proofs.C04GroupProofs Hdl21.Proofs.C04GroupComplete
               Hdl21.Proofs.FunGraph Hdl21.Model.C01EElab Hdl21.Proofs.C01EProofsBase Hdl21.Model.C04EBridge.
Open Scope Z_scope.

(* ---------------------------------------------------------------------------------------------- lists *)
Lemma nodupb_NoDup {A} (eqb : A -> A -> bool) (E : forall a b, eqb a b = true <-> a = b) l :
  nodupb eqb l = true -> NoDup l.
Proof.
  induction l as [|x t IH]; cbn [nodupb]; intros H; [constructor|].
  apply andb_prop in H. destruct H as [H1 H2]. constructor; [|apply IH; exact H2].
  intros Hin. apply negb_true_iff in H1. assert (existsb (eqb x) t = true) as C; [|congruence].
  apply existsb_exists. exists x. split; [exact Hin|apply E; reflexivity].
Qed.

Lemma NoDup_map_inj {A B} (f : A -> B) l a b : NoDup (map f l) -> In a l -> In b l -> f a = f b -> a = b.
Proof.
  induction l as [|x t IH]; cbn [map]; intros ND Ha Hb E; [destruct Ha|].
  inversion ND as [|? ? Hn ND']; subst.
  destruct Ha as [->|Ha], Hb as [->|Hb]; [reflexivity| | |apply IH; assumption].
  - exfalso. apply Hn. rewrite E. apply in_map. exact Hb.
  - exfalso. apply Hn. rewrite <- E. apply in_map. exact Ha.
Qed.

Lemma assocN_In id (l : leaf) t : NoDup (map fst t) -> In (id, l) t -> assocN id t = Some l.
Proof.
  induction t as [|[k v] t IH]; cbn [map fst assocN]; intros ND Hin; [destruct Hin|].
  inversion ND as [|? ? Hn ND']; subst. destruct Hin as [Hin|Hin].
  - inversion Hin; subst. rewrite N.eqb_refl. reflexivity.
  - destruct (N.eqb id k) eqn:E; [|apply IH; assumption].
    apply N.eqb_eq in E. subst. exfalso. apply Hn. apply (in_map fst) in Hin. exact Hin.
Qed.

Lemma leaf_eqb_eq a b : leaf_eqb a b = true <-> a = b.
Proof.
  destruct a, b; cbn [leaf_eqb]; try (split; [discriminate|intros H; inversion H]).
  - rewrite String.eqb_eq. split; [intros ->; reflexivity|intros H; inversion H; reflexivity].
  - rewrite andb_true_iff, !String.eqb_eq. split; [intros [-> ->]; reflexivity|intros H; inversion H; auto].
  - rewrite N.eqb_eq. split; [intros ->; reflexivity|intros H; inversion H; reflexivity].
Qed.

(* ---------------------------------------------------------------------------------------------- the universe's tables *)
Section Tables.
Variable u : universe.
Hypothesis Hu : u_ok u = true.

Lemma u_ok_inv : nodupb Z.eqb (map ui_id (u_insts u)) = true /\ nodupb String.eqb (map ui_name (u_insts u)) = true /\
  forallb (fun x => nodupb String.eqb (map us_name (ui_slots x))) (u_insts u) = true /\
  nodupb N.eqb (map fst (u_leaves u)) = true /\ forallb (fun o => forallb (plain_sx u) (snd o)) (u_objs u) = true.
Proof.
  pose proof Hu as H. unfold u_ok in H. rewrite !andb_true_iff in H. tauto.
Qed.

Lemma u_ids : NoDup (map ui_id (u_insts u)).
Proof. apply (nodupb_NoDup Z.eqb Z.eqb_eq). apply u_ok_inv. Qed.
Lemma u_names : NoDup (map ui_name (u_insts u)).
Proof. apply (nodupb_NoDup String.eqb String.eqb_eq). apply u_ok_inv. Qed.
Lemma u_slotnames x : In x (u_insts u) -> NoDup (map us_name (ui_slots x)).
Proof.
  intros Hx. apply (nodupb_NoDup String.eqb String.eqb_eq).
  destruct u_ok_inv as [_ [_ [H _]]]. exact (proj1 (forallb_forall _ _) H x Hx).
Qed.
Lemma u_leafids : NoDup (map fst (u_leaves u)).
Proof. apply (nodupb_NoDup N.eqb N.eqb_eq). apply u_ok_inv. Qed.
Lemma u_plain c es e : find_obj c (u_objs u) = Some es -> In e es -> plain_sx u e = true.
Proof.
  intros Hf He. destruct u_ok_inv as [_ [_ [_ [_ Ho]]]].
  assert (In (c, es) (u_objs u) \/ exists c', In (c', es) (u_objs u)) as Hin.
  { clear -Hf. induction (u_objs u) as [|[c' es'] t IH]; cbn [find_obj] in Hf; [discriminate|].
    destruct (conn_eqb c c'); [inversion Hf; subst; right; exists c'; left; reflexivity|].
    destruct (IH Hf) as [A|[c'' A]]; [left; right; exact A|right; exists c''; right; exact A]. }
  destruct Hin as [Hin|[c' Hin]]; pose proof (proj1 (forallb_forall _ _) Ho _ Hin) as Hp; cbn [snd] in Hp;
    exact (proj1 (forallb_forall _ _) Hp e He).
Qed.

Lemma find_ui_spec i x : find_ui u i = Some x -> In x (u_insts u) /\ ui_id x = i.
Proof. unfold find_ui. intros H. apply find_some in H. destruct H as [H1 H2]. apply Z.eqb_eq in H2. auto. Qed.

Lemma find_slot_spec x p k s : find_slot x p k = Some s -> In s (ui_slots x) /\ us_port s = p /\ us_lane s = k.
Proof.
  unfold find_slot. intros H. apply find_some in H. destruct H as [H1 H2]. apply andb_prop in H2. destruct H2 as [H2 H3].
  apply Z.eqb_eq in H2. apply Nat.eqb_eq in H3. auto.
Qed.

Lemma find_leaf_spec l id : find_leaf u l = Some id -> assocN id (u_leaves u) = Some l.
Proof.
  unfold find_leaf. destruct (find _ (u_leaves u)) as [[id' l']|] eqn:E; [|discriminate]. intros H. inversion H; subst. cbn [fst].
  apply find_some in E. destruct E as [Hin Hl]. cbn [snd] in Hl. apply leaf_eqb_eq in Hl. subst.
  apply assocN_In; [exact u_leafids|exact Hin].
Qed.

(* lane k of port q has at most one name, and a name names at most one port *)
Lemma key_of_spec q k a : key_of u q k = Some a ->
  exists x s, find_ui u (fst q) = Some x /\ find_slot x (snd q) k = Some s /\ a = (ui_name x, us_name s).
Proof.
  unfold key_of. destruct (find_ui u (fst q)) as [x|] eqn:E1; [|discriminate]. destruct (find_slot x (snd q) k) as [s|] eqn:E2; [|discriminate].
  intros H. inversion H. exists x, s. auto.
Qed.

Lemma key_of_inj q r k a : key_of u q k = Some a -> key_of u r k = Some a -> q = r.
Proof.
  intros Hq Hr. destruct (key_of_spec _ _ _ Hq) as [x [s [Hx [Hs Ea]]]]. destruct (key_of_spec _ _ _ Hr) as [y [t [Hy [Ht Eb]]]].
  rewrite Ea in Eb. inversion Eb as [[E1 E2]].
  destruct (find_ui_spec _ _ Hx) as [Ix Ex]. destruct (find_ui_spec _ _ Hy) as [Iy Ey].
  assert (x = y) by (apply (NoDup_map_inj ui_name (u_insts u)); [exact u_names|exact Ix|exact Iy|exact E1]). subst y.
  destruct (find_slot_spec _ _ _ _ Hs) as [Is [Ps _]]. destruct (find_slot_spec _ _ _ _ Ht) as [It [Pt _]].
  assert (s = t) by (apply (NoDup_map_inj us_name (ui_slots x)); [exact (u_slotnames x Ix)|exact Is|exact It|exact E2]). subst t.
  destruct q as [qi qp], r as [ri rp]. cbn [fst snd] in *. congruence.
Qed.
End Tables.

(* ---------------------------------------------------------------------------------------------- the design of a mapping *)
Section Design.
Variable u : universe.
Variable m : pid -> option C04ConnOps.conn.
Hypothesis Hu : u_ok u = true.
Hypothesis Hs : shape_ok u m = true.
Let T := top_of u m.

(* the port a port refers to, in the mapping *)
Definition nxtP (q : pid) : pid := match m q with Some (CRef i p) => (i, p) | _ => q end.

Lemma find_inst_top x : In x (u_insts u) -> find_inst (m_insts T) (ui_name x) = Some (inst_of u m x).
Proof.
  intros Hx. unfold T, top_of. cbn [m_insts].
  change (ui_name x) with (i_name (inst_of u m x)). apply find_inst_unique.
  - rewrite map_map. cbn [inst_of i_name]. exact (u_names u Hu).
  - apply in_map. exact Hx.
Qed.

Lemma assoc_slots_notin x nm : forall l, ~ In nm (map us_name l) -> assoc nm (flat_map (slot_conn u m x) l) = None.
Proof.
  induction l as [|t l IH]; cbn [map flat_map]; intros Hn; [reflexivity|].
  assert (nm <> us_name t) as Hne by (intros E; apply Hn; left; symmetry; exact E).
  assert (~ In nm (map us_name l)) as Hn' by (intros H; apply Hn; right; exact H).
  unfold slot_conn at 1. destruct (m (ui_id x, us_port t)); cbn [app assoc].
  - apply String.eqb_neq in Hne. rewrite Hne. apply IH. exact Hn'.
  - apply IH. exact Hn'.
Qed.

Lemma assoc_slots x s : forall l, NoDup (map us_name l) -> In s l ->
  assoc (us_name s) (flat_map (slot_conn u m x) l) =
  match m (ui_id x, us_port s) with Some c => Some (conn_sx u c s) | None => None end.
Proof.
  induction l as [|t l IH]; cbn [map flat_map]; intros ND Hin; [destruct Hin|].
  inversion ND as [|? ? Hn ND']; subst. destruct Hin as [->|Hin].
  - unfold slot_conn at 1. destruct (m (ui_id x, us_port s)) as [c|].
    + cbn [app assoc]. rewrite String.eqb_refl. reflexivity.
    + cbn [app]. apply assoc_slots_notin. exact Hn.
  - assert (us_name s <> us_name t) as Hne by (intros E; apply Hn; rewrite <- E; apply in_map; exact Hin).
    unfold slot_conn at 1. destruct (m (ui_id x, us_port t)); cbn [app assoc].
    + apply String.eqb_neq in Hne. rewrite Hne. apply IH; assumption.
    + apply IH; assumption.
Qed.

Lemma pconn_key q k a x s : find_ui u (fst q) = Some x -> find_slot x (snd q) k = Some s -> a = (ui_name x, us_name s) ->
  pconn T a = match m q with Some c => Some (conn_sx u c s) | None => None end.
Proof.
  intros Hx Hsl ->. destruct (find_ui_spec u _ _ Hx) as [Ix Ex]. destruct (find_slot_spec _ _ _ _ Hsl) as [Is [Ps Ls]].
  unfold pconn. cbn [fst snd]. rewrite (find_inst_top x Ix). cbn [inst_of i_conns].
  rewrite (assoc_slots x s _ (u_slotnames u Hu x Ix) Is). rewrite Ex, Ps. destruct q; reflexivity.
Qed.

Lemma shape_at x s c : In x (u_insts u) -> In s (ui_slots x) -> m (ui_id x, us_port s) = Some c -> conn_ok u c s = true.
Proof.
  intros Hx Hsl Hm. unfold shape_ok in Hs. pose proof (proj1 (forallb_forall _ _) Hs x Hx) as H1. cbv beta in H1.
  pose proof (proj1 (forallb_forall _ _) H1 s Hsl) as H2. cbv beta in H2. rewrite Hm in H2. exact H2.
Qed.

(* the dictionary commutes with "the port my connection refers to" *)
Lemma key_step q k a : key_of u q k = Some a -> key_of u (nxtP q) k = Some (nxt T a).
Proof.
  intros Hq. destruct (key_of_spec u _ _ _ Hq) as [x [s [Hx [Hsl Ea]]]].
  destruct (find_ui_spec u _ _ Hx) as [Ix Ex]. destruct (find_slot_spec _ _ _ _ Hsl) as [Is [Ps Ls]].
  unfold nxt, next. rewrite (pconn_key q k a x s Hx Hsl Ea). unfold nxtP.
  destruct (m q) as [c|] eqn:Hm; [|exact Hq].
  assert (m (ui_id x, us_port s) = Some c) as Hm' by (rewrite Ex, Ps; destruct q; exact Hm).
  pose proof (shape_at x s c Ix Is Hm') as Hc.
  destruct c as [kd id|j p].
  - (* an object: never a bare reference leaf *)
    assert (as_ref T (conn_sx u (CObj kd id) s) = None) as Hr.
    { destruct kd; cbn [conn_sx conn_ok] in *;
      try (unfold obj_sx; destruct (find_obj _ (u_objs u)) as [es|] eqn:Ho; [|discriminate];
           apply Nat.ltb_lt in Hc;
           pose proof (u_plain u Hu _ es _ Ho (nth_In es (orphan u) Hc)) as Hp;
           unfold as_ref, leaf_at, plain_sx in *; destruct (nth (us_lane s) es (orphan u)) as [lid w|? ?|?]; try reflexivity;
           unfold T, top_of; cbn [m_leaves]; destruct (assocN lid (u_leaves u)) as [[?|? ?|?]|]; try discriminate; reflexivity).
      unfold nc_sx. destruct (find_leaf u (LNc (nc_site id (us_lane s)))) as [lid|] eqn:Hl; [|discriminate].
      unfold as_ref, leaf_at, T, top_of. cbn [m_leaves]. rewrite (find_leaf_spec u Hu _ _ Hl). reflexivity. }
    rewrite Hr. exact Hq.
  - cbn [conn_sx conn_ok] in *. unfold ref_sx. rewrite Ls in *.
    destruct (find_ui u j) as [y|] eqn:Hy; [|discriminate]. apply andb_prop in Hc. destruct Hc as [_ Hc].
    destruct (find_slot y p k) as [t|] eqn:Ht; [|discriminate].
    destruct (find_leaf u (LRef (ui_name y) (us_name t))) as [lid|] eqn:Hl; [|discriminate].
    unfold as_ref, leaf_at, T, top_of. cbn [m_leaves]. rewrite (find_leaf_spec u Hu _ _ Hl).
    unfold key_of. cbn [fst snd]. rewrite Hy, Ht. reflexivity.
Qed.

Lemma key_iter n : forall q k a, key_of u q k = Some a -> key_of u (Nat.iter n nxtP q) k = Some (Nat.iter n (nxt T) a).
Proof.
  induction n as [|n IH]; intros q k a Hq; [exact Hq|]. cbn [Nat.iter]. apply key_step. apply IH. exact Hq.
Qed.

(* same weak components on both sides *)
Theorem conn_key q r k a b : key_of u q k = Some a -> key_of u r k = Some b ->
  (FunGraph.conn pid nxtP q r <-> FunGraph.conn key (nxt T) a b).
Proof.
  intros Hq Hr. rewrite !conn_meet. unfold meet. split; intros [n1 [n2 E]]; exists n1, n2.
  - pose proof (key_iter n1 q k a Hq) as H1. pose proof (key_iter n2 r k b Hr) as H2. rewrite E in H1. rewrite H1 in H2.
    inversion H2. reflexivity.
  - pose proof (key_iter n1 q k a Hq) as H1. pose proof (key_iter n2 r k b Hr) as H2. rewrite E in H1.
    exact (key_of_inj u Hu _ _ k _ H1 H2).
Qed.
End Design.

(* ---------------------------------------------------------------------------------------------- the books *)
(* `reach` (Model/C04Groups.v) is the weak connectivity of the same functional graph *)
Lemma reach_conn s m a b : (forall q, lookup q (st_conns s) = m q) ->
  (reach s a b <-> FunGraph.conn pid (nxtP m) a b).
Proof.
  intros Hm. split.
  - induction 1 as [|b c R IH [A|A]]; [apply c_refl| |].
    + eapply c_trans; [exact IH|]. assert (nxtP m b = c) as <-; [|apply c_step].
      unfold nxtP. rewrite <- Hm, A. destruct c; reflexivity.
    + eapply c_trans; [exact IH|]. apply c_sym. assert (nxtP m c = b) as <-; [|apply c_step].
      unfold nxtP. rewrite <- Hm, A. destruct b; reflexivity.
  - induction 1 as [x|x|x y _ IH|x y z _ IH1 _ IH2].
    + constructor.
    + unfold nxtP. rewrite <- Hm. destruct (lookup x (st_conns s)) as [[kd id|i p]|] eqn:E; try constructor.
      eapply reach_step; [constructor|]. left. exact E.
    + clear -IH. induction IH as [|b c R IH A]; [constructor|].
      apply (reach_trans _ c b x); [|exact IH]. eapply reach_step; [constructor|]. destruct A as [A|A]; [right|left]; exact A.
    + eapply reach_trans; eassumption.
Qed.

Lemma design_of_ext u m1 m2 : (forall q, In q (upids u) -> m1 q = m2 q) -> design_of u m1 = design_of u m2.
Proof.
  intros H. unfold design_of. f_equal. f_equal. unfold top_of. f_equal. f_equal.
  apply map_ext_in. intros x Hx. unfold inst_of. f_equal.
  assert (forall l, incl l (ui_slots x) -> flat_map (slot_conn u m1 x) l = flat_map (slot_conn u m2 x) l) as F.
  { induction l as [|s l IH]; intros Hl; [reflexivity|]. cbn [flat_map]. rewrite IH by (intros y Hy; apply Hl; right; exact Hy).
    f_equal. unfold slot_conn. rewrite H; [reflexivity|].
    unfold upids. apply in_flat_map. exists x. split; [exact Hx|]. apply in_map_iff. exists s. split; [reflexivity|apply Hl; left; reflexivity]. }
  apply F. apply incl_refl.
Qed.
