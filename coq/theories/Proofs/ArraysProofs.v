Require Import Hdl21.Base.PyInt Hdl21.Spec.PySlice Hdl21.Model.Slice Hdl21.Model.Resolve Hdl21.Model.Arrays
               Hdl21.Proofs.SliceProofs Hdl21.Proofs.ResolveProofs.

Lemma sel_unit_range W a b : 0 <= a -> a < b -> b <= W ->
  sel W (Sl (Some a) (Some b) None) = Ok (iota (Z.to_nat (b - a)) a 1).
Proof.
  intros Ha Hab Hb. unfold sel, step_of. change (1 =? 0) with false. cbv iota.
  unfold py_indices, py_start_stop. change (0 <? 1) with true. cbv iota.
  unfold norm_pos, clamp.
  assert ((a <? 0) = false) as -> by lia. assert ((b <? 0) = false) as -> by lia.
  replace (Z.max 0 (Z.min W a)) with a by lia. replace (Z.max 0 (Z.min W b)) with b by lia.
  unfold py_len. change (0 <? 1) with true. cbv iota. assert ((a <? b) = true) as -> by lia.
  replace ((b - a - 1) / 1 + 1) with (b - a) by (rewrite Z.div_1_r; lia).
  destruct (Z.to_nat (b - a)) eqn:E; [lia|]. reflexivity.
Qed.

Lemma select_iota_pick {A} (l : list A) n : forall a r, select l (iota n a 1) = Ok r ->
  forall j, 0 <= j < Z.of_nat n -> pick r j = pick l (a + j).
Proof.
  unfold select. induction n as [|n IH]; intros a r H j Hj; [lia|].
  cbn [iota traverse] in H. destruct (pick l a) as [x|e] eqn:Ep; cbn [bind] in H; [|discriminate].
  destruct (traverse (pick l) (iota n (a + 1) 1)) as [r'|e] eqn:Et; cbn [bind] in H; [|discriminate].
  inversion H; subst; clear H.
  destruct (Z.eq_dec j 0) as [->|Hne].
  - replace (a + 0) with a by lia. rewrite Ep. reflexivity.
  - specialize (IH (a + 1) r' Et (j - 1) ltac:(lia)). replace (a + 1 + (j - 1)) with (a + j) in IH by lia.
    rewrite <- IH. unfold pick. destruct (j <? 0) eqn:E1; [lia|]. destruct (j - 1 <? 0) eqn:E2; [lia|].
    replace (Z.to_nat j) with (S (Z.to_nat (j - 1))) by lia. reflexivity.
Qed.

(* element k of an n-array: broadcast of a w-wide connection, or bits k*w .. (k+1)*w-1 of an n*w-wide one;
   every other width is rejected — exactly the rule of Spec/Nets.v:conn_bit *)
Theorem array_element_bits n w c k bits : 1 <= w -> 0 <= k < n -> xbits c = Ok bits ->
  match array_elem_conn n w c k with
  | Ok c' => exists l', xbits c' = Ok l' /\ zlen l' = w /\
               forall j, 0 <= j < w -> pick l' j = (if zlen bits =? w then pick bits j else pick bits (k * w + j))
  | Error _ => zlen bits <> w /\ zlen bits <> n * w
  end.
Proof.
  intros Hw Hk Hb. unfold array_elem_conn.
  pose proof (xwidth_xbits c) as W. rewrite Hb in W. rewrite W. cbn [bind].
  destruct (zlen bits =? w) eqn:E1.
  - exists bits. repeat split; [exact Hb|lia].
  - destruct (zlen bits =? n * w) eqn:E2; [|lia].
    cbn [xbits]. rewrite Hb. cbn [bind].
    rewrite sel_unit_range by nia. cbn [bind].
    replace ((k + 1) * w - k * w) with w by lia.
    destruct (select_total bits (iota (Z.to_nat w) (k * w) 1)) as [l' [Hl' Hlen]].
    { intros y Hy. apply iota_in in Hy. destruct Hy as [m [Hm ->]]. nia. }
    exists l'. split; [exact Hl'|]. split.
    + unfold zlen. rewrite Hlen, iota_length. lia.
    + intros j Hj. apply (select_iota_pick bits (Z.to_nat w) (k * w) l' Hl' j). lia.
Qed.
