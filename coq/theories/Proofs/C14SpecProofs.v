(* Proofs/C14SpecProofs.v — the model of prefix.py satisfies the very predicates that the correspondence run
   (Corr/C14.v: `exact`, `cmp_spec`, `is_int_partb`) evaluates on the implementation's outputs.  This ties the
   theorems of Props/C14.v to the specification that is checked on every run: spec and theorem are the same text. *)
Require Import Hdl21.Base.PyInt Hdl21.Base.Dec Hdl21.Model.Prefixed Hdl21Gen.PrefixTable.
Require Import Hdl21.Proofs.C14Proofs Hdl21.Corr.C14.
Open Scope Z_scope.

Lemma model_cmp_spec a b :
  cmp_spec (pval a) (pval b) (Z.min (prefix a) (prefix b))
    (CVal (pcmp OLt a b) (pcmp OLe a b) (pcmp OEq a b) (pcmp ONe a b) (pcmp OGt a b) (pcmp OGe a b)) = true.
Proof.
  rewrite <- smaller_prefix_min. set (s := smaller_prefix a b). set (e := cmp_exp a b).
  assert (e <= pexp a /\ e <= pexp b /\ e <= s - EPSILON) as [Ea [Eb Es]] by (unfold e, cmp_exp; fold s; lia).
  pose proof (rkey_spec a b e Ea Eb Es) as K. cbv zeta in K. fold s in K.
  set (D := 10 ^ (s - EPSILON - e)) in *. assert (0 < D) as PD by (apply p10_pos'; lia).
  assert (dltb (of_int 1 (s - EPSILON)) (dabs (dsub (pval a) (pval b))) = true <-> D < Z.abs (vat e a - vat e b)) as FI.
  { rewrite (dltb_spec e) by (rewrite ?dexp_of_int, ?dexp_dabs, ?dexp_dsub; unfold dmin; rewrite ?pexp_pval; lia).
    rewrite at_of_int by lia. rewrite dabs_exact by (rewrite dexp_dsub; unfold dmin; rewrite !pexp_pval; lia).
    rewrite dsub_exact by (rewrite pexp_pval; lia). fold (vat e a) (vat e b). fold D. lia. }
  assert (dltb (pval a) (pval b) = true <-> vat e a < vat e b) as LI
    by (apply dltb_spec; rewrite pexp_pval; lia).
  assert (dltb (pval b) (pval a) = true <-> vat e b < vat e a) as GI
    by (apply dltb_spec; rewrite pexp_pval; lia).
  assert (deqb (pval a) (pval b) = true <-> vat e a = vat e b) as QI
    by (apply deqb_spec; rewrite pexp_pval; lia).
  set (Va := vat e a) in *. set (Vb := vat e b) in *.
  rewrite !pcmp_key, K. cbn [fst snd].
  assert (Va <= Vb -> rhe Va D <= rhe Vb D) as M1 by (intros; apply rhe_mono; assumption).
  assert (Vb <= Va -> rhe Vb D <= rhe Va D) as M2 by (intros; apply rhe_mono; assumption).
  assert (Va + D < Vb -> rhe Va D < rhe Vb D) as G1 by (intros; apply rhe_gap; assumption).
  assert (Vb + D < Va -> rhe Vb D < rhe Va D) as G2 by (intros; apply rhe_gap; assumption).
  set (x := rhe Va D) in *. set (y := rhe Vb D) in *.
  unfold cmp_spec, bool_eqb. cbn [int_op].
  destruct (dltb (of_int 1 (s - EPSILON)) (dabs (dsub (pval a) (pval b)))) eqn:F;
  destruct (dltb (pval a) (pval b)) eqn:L; destruct (dltb (pval b) (pval a)) eqn:G;
  destruct (deqb (pval a) (pval b)) eqn:Q;
  destruct (x <? y) eqn:C1; destruct (x =? y) eqn:C2; destruct (y <? x) eqn:C3; destruct (x <=? y) eqn:C4; destruct (y <=? x) eqn:C5;
  try reflexivity; exfalso; lia.
Qed.

(* exactness predicates of the correspondence run *)
Lemma exact_of_vat r want :
  pwf r = true -> pexp r <= dexp want -> vat (pexp r) r = at_ (pexp r) want ->
  exact (IVal (number r) (prefix r)) want = true.
Proof.
  intros W L H. unfold exact. unfold pwf in W. rewrite W. cbn [andb].
  fold (pval r). apply (deqb_spec (pexp r)); [rewrite pexp_pval; lia|exact L|exact H].
Qed.

Lemma model_add_exact a b r : padd a b = Ok r -> exact (IVal (number r) (prefix r)) (dadd (pval a) (pval b)) = true.
Proof.
  intros H. destruct (padd_exact (pexp r) a b r H ltac:(lia)) as [V [La Lb]].
  apply exact_of_vat.
  - unfold padd in H. exact (pscale_auto_wf _ _ H).
  - rewrite dexp_dadd. unfold dmin. rewrite !pexp_pval. lia.
  - rewrite V. rewrite dadd_exact by (rewrite pexp_pval; lia). reflexivity.
Qed.

Lemma model_sub_exact a b r : psub a b = Ok r -> exact (IVal (number r) (prefix r)) (dsub (pval a) (pval b)) = true.
Proof.
  intros H. destruct (psub_exact (pexp r) a b r H ltac:(lia)) as [V [La Lb]].
  apply exact_of_vat.
  - unfold psub in H. exact (pscale_auto_wf _ _ H).
  - rewrite dexp_dsub. unfold dmin. rewrite !pexp_pval. lia.
  - rewrite V. rewrite dsub_exact by (rewrite pexp_pval; lia). reflexivity.
Qed.

Lemma pexp_pmul a b r : pmul a b = Ok r -> pexp r <= pexp a + pexp b /\ pwf r = true.
Proof.
  unfold pmul. intros H.
  destruct (prefix_rmul (mkP (dmul (number a) (number b)) (prefix a)) (prefix b)) as [p2|] eqn:E2; cbn [bind] in H; [|discriminate].
  pose proof (pscale_auto_pexp _ _ H) as L. split; [|exact (pscale_auto_wf _ _ H)].
  destruct (prefix_rmul_vat (pexp p2) _ _ _ E2 ltac:(lia)) as [_ [L2 _]].
  unfold pexp in *; cbn [number prefix] in *. rewrite dexp_dmul in L2. lia.
Qed.

Lemma model_mul_exact a b r : pmul a b = Ok r -> exact (IVal (number r) (prefix r)) (dmul (pval a) (pval b)) = true.
Proof.
  intros H. destruct (pexp_pmul a b r H) as [L W].
  (* compare at e = ea + eb with ea := pexp a + (pexp r - pexp a - pexp b), eb := pexp b *)
  set (ea := pexp r - pexp b).
  unfold exact. unfold pwf in W. rewrite W. cbn [andb]. fold (pval r).
  apply (deqb_spec (ea + pexp b)); [rewrite pexp_pval; unfold ea; lia|rewrite dexp_dmul, !pexp_pval; unfold ea; lia|].
  fold (vat (ea + pexp b) r). rewrite (pmul_exact ea (pexp b) a b r H) by (unfold ea; lia).
  rewrite dmul_exact by (rewrite pexp_pval; unfold ea; lia). reflexivity.
Qed.

Lemma model_int_spec p t : pint p = Ok t -> is_int_partb t (pval p) = true.
Proof.
  intros H. set (e := Z.min (pexp p) 0).
  destruct (pint_trunc p e ltac:(unfold e; lia) ltac:(unfold e; lia)) as [t' [E [[B1 B2] B3]]].
  rewrite E in H. inversion H; subst t'. unfold is_int_partb. rewrite pexp_pval. fold e. fold (vat e p).
  rewrite !pow10_spec. lia.
Qed.
