(* Proofs/C01GProofsEnd.v — composition: the lowering lemma for lower_m (Proofs/C01GProofsLower.v), "the model of BundleFlattener is
   lower_m fl_impl" (Proofs/C01GProofsPasses.v) and the end-to-end theorem of the pipeline model (Proofs/C01FProofsEnd.v).
   bsame_net / live / orbit_closed are those of Proofs/C01FProofsBundles.v. *)
From Coq Require Import String.
Require Import Hdl21.Base.PyInt Hdl21.Spec.PySlice Hdl21.Model.Slice Hdl21.Model.Resolve Hdl21.Base.Design
               Hdl21.Spec.Nets Hdl21.Spec.WfDesign Hdl21.Base.Package Hdl21.Base.PrimTable Hdl21.Spec.PkgWf
               Hdl21.Base.C01BDesign Hdl21.Spec.C01BNets Hdl21.Spec.C01BWf Hdl21.Spec.C01BLower
               Hdl21.Spec.C01ENets Hdl21.Model.C01EElab Hdl21.Model.C01FElab Hdl21.Spec.C01FNets
               Hdl21.Proofs.C01BProofs Hdl21.Proofs.C01BLowerProofs
               Hdl21.Proofs.C01EProofsGraph Hdl21.Proofs.C01EProofsBase Hdl21.Proofs.C01EProofsPass Hdl21.Proofs.C01EProofsSim Hdl21.Proofs.C01EProofsEnd
               Hdl21.Proofs.C01FProofsEnd Hdl21.Proofs.C01FProofsBundles
               Hdl21.Spec.C01GLower Hdl21.Model.C01GBundlePasses Hdl21.Proofs.C01GProofsLower Hdl21.Proofs.C01GProofsPasses Hdl21.Proofs.C01GProofsNames Hdl21.Proofs.C01GProofsPairs.
Open Scope Z_scope.

(* the lowering keeps "the orbits meet", both ways, on live nodes *)
Theorem lower_m_meet nm d x y : names_ok_m nm d = true -> no_pairs d = true -> live d x -> live d y ->
  (bsame_net d x y <-> same_net (lower_m nm d) (phi_m nm d x) (phi_m nm d y)).
Proof.
  intros Hn Hp Hx Hy. rewrite same_net_meet_r. unfold bsame_net.
  apply (sim_meet bnode node (bstep d) (Nets.step (lower_m nm d)) (live d) (phi_m nm d)).
  - intros a Ha. apply live_step. exact Ha.
  - intros a b Ha Hab. apply (lower_m_step nm d Hn Hp a b); [|exact Hab]. destruct (Ha 0%nat) as [z [Hz Hok]]. cbn [iter_r] in Hz. inversion Hz; subst. exact Hok.
  - intros a b Ha Hb E. apply (phi_m_inj nm d Hn a b); [| |exact E].
    + destruct (Ha 0%nat) as [z [Hz Hok]]. cbn [iter_r] in Hz. inversion Hz; subst. exact Hok.
    + destruct (Hb 0%nat) as [z [Hz Hok]]. cbn [iter_r] in Hz. inversion Hz; subst. exact Hok.
  - exact Hx.
  - exact Hy.
Qed.

(* ---- BundleFlattener's model followed by the pipeline model: the nets of the (Pair-free) bundle design ---- *)
Theorem flat_end_to_end_live xi d d' ts p tl :
  bp_wf d = true -> no_pairs d = true -> flat_design d = Ok d' -> (forall t, In t ts -> live d t) ->
  wf_design d' = Ok tt -> frag_ok2 d' = true -> xinfo_ok xi d' = true ->
  terminals d' = Ok tl -> forallb (fun t => existsb (node_eqb (phi_m fl_impl d t)) (map fst tl)) ts = true ->
  elab_export_model2 xi d' = Ok p ->
  exists tn, top_name d' = Ok tn /\
    forall t1 t2, In t1 ts -> In t2 ts ->
      (same_net_pkg p tn (term_map2 xi d' (phi_m fl_impl d t1)) (term_map2 xi d' (phi_m fl_impl d t2)) <-> bsame_net d t1 t2).
Proof.
  intros Hbw Hnp Hfl Hlive Hwf Hfr Hxi Htl Hin Hm.
  pose proof (fl_impl_names_ok d Hbw (flat_design_scopes d d' Hfl)) as Hn.
  pose proof (flat_design_is_lower d d' Hbw Hfl) as Hd'. subst d'.
  destruct (end_to_end2 xi (lower_m fl_impl d) p Hwf Hfr Hxi Hm) as [tn [pd [Htn [Hpd [_ [Hs _]]]]]].
  exists tn. split; [exact Htn|]. intros t1 t2 H1 H2.
  assert (forall t, In t ts -> valid (lower_m fl_impl d) (phi_m fl_impl d t)) as G.
  { intros t Ht. rewrite forallb_forall in Hin. specialize (Hin t Ht). apply existsb_exists in Hin. destruct Hin as [n [Hn' E]].
    apply NetsProofs.node_eqb_eq in E. subst n. apply in_map_iff in Hn'. destruct Hn' as [[n dev] [E Hnd]]. cbn [fst] in E. subst n.
    apply (terminals_valid xi (lower_m fl_impl d) tl Hwf Hxi Htl (phi_m fl_impl d t) dev Hnd). }
  rewrite (lower_m_meet fl_impl d t1 t2 Hn Hnp (Hlive t1 H1) (Hlive t2 H2)). rewrite <- (Hs _ _ (G t1 H1) (G t2 H2)). unfold same_net_pkg. split.
  - intros [pd' [Hpd' H]]. rewrite Hpd in Hpd'. inversion Hpd'; subst pd'. exact H.
  - intros H. exists pd. auto.
Qed.

(* the decidable form of "every iterate exists and is a node of the design": the computed orbits are closed *)
Lemma orbits_live d fuel ts os : traverse (borbit d fuel) ts = Ok os -> forallb (forallb (bnode_ok d)) os = true -> forallb (orbit_closed d) os = true ->
  forall t, In t ts -> live d t.
Proof.
  intros Hos Hok Hcl t Ht. apply traverse_Forall2 in Hos. destruct (Forall2_In_l _ _ _ t Hos Ht) as [o [Ho Hbo]].
  rewrite forallb_forall in Hok, Hcl. apply (closed_orbit_live d o (Hok o Ho) (Hcl o Ho)). eapply C01FProofsBundles.borbit_head. exact Hbo.
Qed.

Theorem flat_end_to_end xi d d' fuel ts os p tl :
  bp_wf d = true -> no_pairs d = true -> flat_design d = Ok d' ->
  traverse (borbit d fuel) ts = Ok os -> forallb (forallb (bnode_ok d)) os = true -> forallb (orbit_closed d) os = true ->
  wf_design d' = Ok tt -> frag_ok2 d' = true -> xinfo_ok xi d' = true ->
  terminals d' = Ok tl -> forallb (fun t => existsb (node_eqb (phi_m fl_impl d t)) (map fst tl)) ts = true ->
  elab_export_model2 xi d' = Ok p ->
  exists tn, top_name d' = Ok tn /\
    forall t1 t2, In t1 ts -> In t2 ts ->
      (same_net_pkg p tn (term_map2 xi d' (phi_m fl_impl d t1)) (term_map2 xi d' (phi_m fl_impl d t2)) <-> bsame_net d t1 t2).
Proof.
  intros Hbw Hnp Hfl Hos Hok Hcl. apply (flat_end_to_end_live xi d d' ts p tl Hbw Hnp Hfl). exact (orbits_live d fuel ts os Hos Hok Hcl).
Qed.

(* ---- the two bundle passes followed by the pipeline model: the nets of the written bundle design, Pairs included ---- *)
Definition term_map_g (xi : xinfo) (d d1 : bdesign) (d' : design) (t : bnode) : node :=
  term_map2 xi d' (phi_m fl_impl d1 (up_node d t)).

Theorem passes_end_to_end xi d d1 d' fuel ts os p tl :
  pairs_wf d = true -> ib_design d = Ok d1 -> bp_wf d1 = true -> flat_design d1 = Ok d' ->
  traverse (borbit d fuel) ts = Ok os -> forallb (forallb (bnode_ok d)) os = true -> forallb (orbit_closed d) os = true ->
  forallb (node_path_ok d) ts = true ->
  wf_design d' = Ok tt -> frag_ok2 d' = true -> xinfo_ok xi d' = true ->
  terminals d' = Ok tl -> forallb (fun t => existsb (node_eqb (phi_m fl_impl d1 (up_node d t))) (map fst tl)) ts = true ->
  elab_export_model2 xi d' = Ok p ->
  exists tn, top_name d' = Ok tn /\
    forall t1 t2, In t1 ts -> In t2 ts ->
      (same_net_pkg p tn (term_map_g xi d d1 d' t1) (term_map_g xi d d1 d' t2) <-> bsame_net d t1 t2).
Proof.
  intros Hpw Hib Hbw Hfl Hos Hok Hcl Hpo Hwf Hfr Hxi Htl Hin Hm.
  assert (HS : forall t, In t ts -> nodeS d t).
  { intros t Ht. split; [exact (orbits_live d fuel ts os Hos Hok Hcl t Ht)|]. rewrite forallb_forall in Hpo. apply node_path_ok_pokp. exact (Hpo t Ht). }
  destruct (flat_end_to_end_live xi d1 d' (map (up_node d) ts) p tl Hbw (ib_design_no_pairs d d1 Hib) Hfl) as [tn [Htn Hall]]; auto.
  - intros t1 Ht1. apply in_map_iff in Ht1. destruct Ht1 as [t [<- Ht]]. apply (live_up d d1 Hib Hpw). apply HS. exact Ht.
  - rewrite forallb_forall. intros t1 Ht1. apply in_map_iff in Ht1. destruct Ht1 as [t [<- Ht]]. rewrite forallb_forall in Hin. exact (Hin t Ht).
  - exists tn. split; [exact Htn|]. intros t1 t2 H1 H2. unfold term_map_g.
    rewrite (Hall (up_node d t1) (up_node d t2) (in_map _ _ _ H1) (in_map _ _ _ H2)). symmetry. apply (ib_meet d d1 Hib Hpw); apply HS; assumption.
Qed.
