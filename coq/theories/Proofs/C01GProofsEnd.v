(* Proofs/C01GProofsEnd.v — composition: the lowering lemma for lower_m (Proofs/C01GProofsLower.v), "the model of BundleFlattener is
   lower_m fl_impl" (Proofs/C01GProofsPasses.v) and the end-to-end theorem of the pipeline model (Proofs/C01FProofsEnd.v).
   bsame_net / live / orbit_closed are those of Proofs/C01FProofsBundles.v. *)
From Coq Require Import String.
Require Import Hdl21.Base.PyInt Hdl21.Spec.PySlice Hdl21.Model.Slice Hdl21.Model.Resolve Hdl21.Base.Design
               Hdl21.Spec.Nets Hdl21.Spec.WfDesign Hdl21.Base.Package Hdl21.Base.PrimTable Hdl21.Spec.PkgWf
               Hdl21.Base.C01BDesign Hdl21.Spec.C01BNets Hdl21.Spec.C01BWf Hdl21.Spec.C01BLower
               Hdl21.Spec.C01ENets Hdl21.Model.C01EElab Hdl21.Model.C01FElab Hdl21.Spec.C01FNets
               Hdl21.Proofs.C01BProofs Hdl21.Proofs.C01BLowerProofs
               Hdl21.Proofs.C01EProofsGraph Hdl21.Proofs.C01EProofsBase Hdl21.Proofs.C01EProofsPass Hdl21.Proofs.C01EProofsSim Hdl21.Proofs.C01EProofsEnd
               Hdl21.Proofs.C01FProofsEnd Hdl21.Proofs.C01FProofsBundles
               Hdl21.Spec.C01GLower Hdl21.Model.C01GBundlePasses Hdl21.Proofs.C01GProofsLower Hdl21.Proofs.C01GProofsPasses Hdl21.Proofs.C01GProofsNames.
Open Scope Z_scope.

(* the lowering keeps "the orbits meet", both ways, on live nodes *)
Theorem lower_m_meet nm d x y : names_ok_m nm d = true -> no_pairs d = true -> live d x -> live d y ->
  (bsame_net d x y <-> same_net (lower_m nm d) (phi_m nm d x) (phi_m nm d y)).
Proof.
  intros Hn Hp Hx Hy. rewrite same_net_meet_r. unfold bsame_net.
  apply (sim_meet bnode node (bstep d) (Nets.step (lower_m nm d)) (live d) (phi_m nm d)).
  - intros a Ha. apply live_step. exact Ha.
  - intros a b Ha Hab. apply (lower_m_step nm d Hn Hp a b); [|exact Hab]. destruct (Ha 0%nat) as [z [Hz Hok]]. cbn [iter_r] in Hz. inversion Hz; subst. exact Hok.
  - intros a b Ha Hb E. apply (phi_m_inj nm d Hn a b); [| |exact E].
    + destruct (Ha 0%nat) as [z [Hz Hok]]. cbn [iter_r] in Hz. inversion Hz; subst. exact Hok.
    + destruct (Hb 0%nat) as [z [Hz Hok]]. cbn [iter_r] in Hz. inversion Hz; subst. exact Hok.
  - exact Hx.
  - exact Hy.
Qed.

(* ---- BundleFlattener's model followed by the pipeline model: the nets of the (Pair-free) bundle design ---- *)
Theorem flat_end_to_end xi d d' fuel ts os p tl :
  bp_wf d = true -> no_pairs d = true -> flat_design d = Ok d' ->
  traverse (borbit d fuel) ts = Ok os -> forallb (forallb (bnode_ok d)) os = true -> forallb (orbit_closed d) os = true ->
  wf_design d' = Ok tt -> frag_ok2 d' = true -> xinfo_ok xi d' = true ->
  terminals d' = Ok tl -> forallb (fun t => existsb (node_eqb (phi_m fl_impl d t)) (map fst tl)) ts = true ->
  elab_export_model2 xi d' = Ok p ->
  exists tn, top_name d' = Ok tn /\
    forall t1 t2, In t1 ts -> In t2 ts ->
      (same_net_pkg p tn (term_map2 xi d' (phi_m fl_impl d t1)) (term_map2 xi d' (phi_m fl_impl d t2)) <-> bsame_net d t1 t2).
Proof.
  intros Hbw Hnp Hfl Hos Hok Hcl Hwf Hfr Hxi Htl Hin Hm.
  pose proof (fl_impl_names_ok d Hbw (flat_design_scopes d d' Hfl)) as Hn.
  pose proof (flat_design_is_lower d d' Hbw Hfl) as Hd'. subst d'.
  destruct (end_to_end2 xi (lower_m fl_impl d) p Hwf Hfr Hxi Hm) as [tn [pd [Htn [Hpd [_ [Hs _]]]]]].
  exists tn. split; [exact Htn|]. intros t1 t2 H1 H2.
  assert (forall t, In t ts -> live d t /\ valid (lower_m fl_impl d) (phi_m fl_impl d t)) as G.
  { intros t Ht. split.
    - apply traverse_Forall2 in Hos. destruct (Forall2_In_l _ _ _ t Hos Ht) as [o [Ho Hbo]].
      rewrite forallb_forall in Hok, Hcl. apply (closed_orbit_live d o (Hok o Ho) (Hcl o Ho)). eapply C01FProofsBundles.borbit_head. exact Hbo.
    - rewrite forallb_forall in Hin. specialize (Hin t Ht). apply existsb_exists in Hin. destruct Hin as [n [Hn' E]].
      apply NetsProofs.node_eqb_eq in E. subst n. apply in_map_iff in Hn'. destruct Hn' as [[n dev] [E Hnd]]. cbn [fst] in E. subst n.
      apply (terminals_valid xi (lower_m fl_impl d) tl Hwf Hxi Htl (phi_m fl_impl d t) dev Hnd). }
  destruct (G t1 H1) as [L1 V1]. destruct (G t2 H2) as [L2 V2].
  rewrite (lower_m_meet fl_impl d t1 t2 Hn Hnp L1 L2). rewrite <- (Hs _ _ V1 V2). unfold same_net_pkg. split.
  - intros [pd' [Hpd' H]]. rewrite Hpd in Hpd'. inversion Hpd'; subst pd'. exact H.
  - intros H. exists pd. auto.
Qed.
