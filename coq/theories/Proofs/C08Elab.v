(* Proofs/C08Elab.v — the pass list a call runs with depends on how the designer wrote the installation, never on what was
   installed, edited or reset before (Model/C08Elaborator.v, `fresh = true`). *)
Require Import Hdl21.Base.PyInt Hdl21.Model.C08PassFail Hdl21.Model.C08Elaborator.
Open Scope list_scope.

Lemma nth_error_snoc {A} (h : list A) (x : A) : nth_error (h ++ [x]) (length h) = Some x.
Proof. induction h; simpl; auto. Qed.

Lemma set_nth_snoc (h : list (list pass)) x y : set_nth (length h) y (h ++ [x]) = h ++ [y].
Proof. induction h; simpl; auto. f_equal. exact IHh. Qed.

Lemma firstn_app_exact {A} (h t : list A) : firstn (length h) (h ++ t) = h.
Proof. induction h; simpl; auto. f_equal. exact IHh. Qed.

(* one installation, from ANY state: it succeeds exactly when the designer's own edits succeed on the pristine default list,
   the_global_elaborator then holds the intended list, and no Elaborator object that existed before has changed *)
Lemma install_intended dflt s i :
  match einstall_step true dflt s i, intended dflt i with
  | Some s', Some l => current s' = Some l /\ firstn (length (heap s)) (heap s') = heap s /\ memo s' = memo s
  | None, None => True
  | _, _ => False
  end.
Proof.
  destruct i as [l | ops | ops | ]; cbn [einstall_step intended default_obj heap glob memo].
  - unfold current; cbn [heap glob]. rewrite nth_error_snoc, firstn_app_exact. auto.
  - rewrite nth_error_snoc. destruct (apply_ops ops dflt) as [l'|]; [|exact I].
    unfold current; cbn [heap glob memo]. rewrite set_nth_snoc, nth_error_snoc, firstn_app_exact. auto.
  - rewrite nth_error_snoc. destruct (apply_ops ops dflt) as [l'|]; [|exact I].
    unfold current; cbn [heap glob memo]. rewrite set_nth_snoc, nth_error_snoc, firstn_app_exact. auto.
  - unfold current; cbn [heap glob memo]. rewrite nth_error_snoc, firstn_app_exact. auto.
Qed.

Lemma reset_default dflt s : exists s', einstall_step true dflt s EReset = Some s' /\ current s' = Some dflt.
Proof.
  pose proof (install_intended dflt s EReset) as H. cbn [intended] in H.
  destruct (einstall_step true dflt s EReset) as [s'|]; [|contradiction]. exists s'. split; [reflexivity|apply H].
Qed.

(* any history of installations that ends with reset_elaborator(): the default list is back *)
Lemma history_then_reset dflt is s s' :
  einstall_all true dflt s (is ++ [EReset]) = Some s' -> current s' = Some dflt.
Proof.
  revert s. induction is as [|i is IH]; intros s H.
  - cbn [app einstall_all] in H. destruct (reset_default dflt s) as [s1 [E1 C1]]. rewrite E1 in H. inversion H; subst. exact C1.
  - cbn [app einstall_all] in H. destruct (einstall_step true dflt s i) as [s1|]; [|discriminate]. exact (IH s1 H).
Qed.

(* ... and the installation made after any history gives the intended list *)
Lemma history_then_install dflt is i s s' l :
  einstall_all true dflt s (is ++ [i]) = Some s' -> intended dflt i = Some l -> current s' = Some l.
Proof.
  revert s. induction is as [|j is IH]; intros s H Hi.
  - cbn [app einstall_all] in H. pose proof (install_intended dflt s i) as P. rewrite Hi in P.
    destruct (einstall_step true dflt s i) as [s1|]; [|contradiction]. inversion H; subst. apply P.
  - cbn [app einstall_all] in H. destruct (einstall_step true dflt s j) as [s1|]; [|discriminate]. exact (IH s1 H Hi).
Qed.
