(* Proofs/C01EProofsArrays.v — ArrayFlattener (Model/C01EElab.v:arrays_design): element e of an n-array becomes the
   Instance elem_rename names; it receives bit e*w+k (or bit k, broadcast) of the array's connection - exactly the rule of
   Spec/Nets.v:conn_bit - so the local target of every port bit is kept, and with it wfs and same_net along the
   terminal correspondence.  The only failure on a valid design is flatname's length limit. *)
From Coq Require Import String.
Require Import Hdl21.Base.PyInt Hdl21.Spec.PySlice Hdl21.Model.Slice Hdl21.Model.Resolve Hdl21.Base.Design
               Hdl21.Spec.Nets Hdl21.Spec.WfDesign Hdl21.Spec.C01ENets Hdl21.Model.Arrays Hdl21.Model.C01EElab
               Hdl21.Proofs.SliceProofs Hdl21.Proofs.ResolveProofs Hdl21.Proofs.ArraysProofs
               Hdl21.Proofs.C01EProofsGraph Hdl21.Proofs.C01EProofsBase Hdl21.Proofs.C01EProofsSim Hdl21.Proofs.C01EProofsWfs
               Hdl21.Proofs.C01EProofsPass Hdl21.Proofs.C01EProofsNames Hdl21.Proofs.C01EProofsSlices.
Open Scope Z_scope.

(* ------------------------------------------------------------------------------------------ lists *)
Lemma combine_In_l {A B} (l : list A) (r : list B) x : Datatypes.length l = Datatypes.length r -> In x l -> exists y, In (x, y) (combine l r).
Proof.
  revert r. induction l as [|a l IH]; intros [|b r] Hlen Hin; cbn in *; try discriminate; [destruct Hin|].
  destruct Hin as [<-|Hin]; [exists b; left; reflexivity|]. destruct (IH r ltac:(lia) Hin) as [y Hy]. exists y. right. exact Hy.
Qed.

Lemma map_snd_combine {A B} (l : list A) (r : list B) : Datatypes.length l = Datatypes.length r -> map snd (combine l r) = r.
Proof.
  revert r. induction l as [|a l IH]; intros [|b r] Hlen; cbn in *; try discriminate; [reflexivity|]. f_equal. apply IH. lia.
Qed.

Lemma nth_error_combine {A B} (l : list A) (r : list B) k a b : nth_error l k = Some a -> nth_error r k = Some b ->
  nth_error (combine l r) k = Some (a, b).
Proof.
  revert r k. induction l as [|x l IH]; intros [|y r] [|k] Ha Hb; cbn in *; try discriminate.
  - inversion Ha; inversion Hb; reflexivity.
  - apply IH; assumption.
Qed.

Lemma find_inst_filter (l : list inst) (P : inst -> bool) i x : find_inst l i = Some x -> P x = true -> find_inst (filter P l) i = Some x.
Proof.
  induction l as [|y l IH]; cbn [find_inst filter]; [discriminate|].
  destruct (String.eqb (i_name y) i) eqn:E.
  - intros H HP; inversion H; subst. rewrite HP. cbn [find_inst]. rewrite E. reflexivity.
  - intros H HP. destruct (P y); [cbn [find_inst]; rewrite E|]; apply IH; assumption.
Qed.

Lemma find_inst_app l r i : find_inst (l ++ r) i = match find_inst l i with Some x => Some x | None => find_inst r i end.
Proof. induction l as [|y l IH]; cbn [app find_inst]; [reflexivity|]. destruct (String.eqb (i_name y) i); [reflexivity|exact IH]. Qed.

Lemma NoDup_map_filter {A B} (f : A -> B) (P : A -> bool) l : NoDup (map f l) -> NoDup (map f (filter P l)).
Proof.
  induction l as [|x l IH]; cbn [map filter]; intros H; [constructor|]. inversion H; subst.
  destruct (P x); [|apply IH; assumption]. cbn [map]. constructor; [|apply IH; assumption].
  intros Hin. apply in_map_iff in Hin. destruct Hin as [y [Hy Hin]]. apply filter_In in Hin. destruct Hin as [Hin _].
  apply H2. rewrite <- Hy. apply in_map. exact Hin.
Qed.

(* ------------------------------------------------------------------------------------------ one array *)
Lemma elem_inst_inv d x ps knm el : elem_inst d x ps knm = Ok el ->
  i_name el = snd knm /\ i_n el = 0 /\ i_of el = i_of x /\
  Forall2 (fun c c' : name * sx => fst c' = fst c /\ exists w, assoc (fst c) ps = Some w /\
                                      array_elem_conn (i_n x) w (snd c) (fst knm) = Ok (snd c')) (i_conns x) (i_conns el).
Proof.
  unfold elem_inst. intros H. apply bind_ok in H. destruct H as [cs [Hcs H]]. inversion H; subst. cbn. repeat split.
  apply traverse_Forall2 in Hcs. eapply Forall2_impl'; [|exact Hcs]. intros c c' Hc. cbv beta in Hc.
  apply bind_ok in Hc. destruct Hc as [w [Hw Hc]]. apply ofopt_ok in Hw. apply bind_ok in Hc. destruct Hc as [c2 [Hc2 Hc]]. inversion Hc; subst.
  cbn [fst snd]. split; [reflexivity|]. exists w. auto.
Qed.

Lemma expand_names d x nms els : expand_array d (x, nms) = Ok els -> Datatypes.length nms = Z.to_nat (i_n x) -> map i_name els = nms.
Proof.
  unfold expand_array. cbn [fst snd]. intros H Hl. apply bind_ok in H. destruct H as [ps [_ H]]. apply traverse_Forall2 in H.
  transitivity (map snd (combine (iota (Z.to_nat (i_n x)) 0 1) nms)); [|apply map_snd_combine; rewrite iota_length; lia].
  symmetry. eapply Forall2_map_eq; [exact H|]. intros knm el Hk. apply elem_inst_inv in Hk. symmetry. tauto.
Qed.

Lemma expand_elem d x nms els e : expand_array d (x, nms) = Ok els -> Datatypes.length nms = Z.to_nat (i_n x) -> 0 <= e < i_n x ->
  exists ps el, target_ports d (i_of x) = Ok ps /\ In el els /\ elem_inst d x ps (e, nth (Z.to_nat e) nms (i_name x)) = Ok el.
Proof.
  unfold expand_array. cbn [fst snd]. intros H Hl He. apply bind_ok in H. destruct H as [ps [Hps H]]. apply traverse_Forall2 in H.
  assert (nth_error (combine (iota (Z.to_nat (i_n x)) 0 1) nms) (Z.to_nat e) = Some (e, nth (Z.to_nat e) nms (i_name x))) as Hn.
  { apply nth_error_combine.
    - rewrite iota_nth by lia. f_equal. lia.
    - apply nth_error_nth'. lia. }
  destruct (Forall2_nth _ _ _ H _ _ Hn) as [el [Hel Hk]]. exists ps, el. split; [exact Hps|]. split; [eapply nth_error_In; exact Hel|exact Hk].
Qed.

Lemma find_pair_unique (arrs : list inst) (tbl : list (list name)) x nms : NoDup (map i_name arrs) -> In (x, nms) (combine arrs tbl) ->
  find (fun xn : inst * list name => String.eqb (i_name (fst xn)) (i_name x)) (combine arrs tbl) = Some (x, nms).
Proof.
  revert tbl. induction arrs as [|a arrs IH]; intros [|t tbl] Hnd Hin; cbn [combine] in *; try destruct Hin.
  - inversion H; subst. cbn [find fst]. rewrite String.eqb_refl. reflexivity.
  - cbn [map] in Hnd. inversion Hnd as [|? ? Ha Hnd']; subst. cbn [find fst].
    destruct (String.eqb (i_name a) (i_name x)) eqn:E.
    + exfalso. apply String.eqb_eq in E. apply Ha. rewrite E. apply in_map. apply in_combine_l in H. exact H.
    + apply IH; assumption.
Qed.

Lemma find_pair_none (arrs : list inst) (tbl : list (list name)) i : ~ In i (map i_name arrs) ->
  find (fun xn : inst * list name => String.eqb (i_name (fst xn)) i) (combine arrs tbl) = None.
Proof.
  revert tbl. induction arrs as [|a arrs IH]; intros [|t tbl] Hn; cbn [combine find]; try reflexivity.
  cbn [map] in Hn. cbn [fst]. destruct (String.eqb (i_name a) i) eqn:E; [apply String.eqb_eq in E; exfalso; apply Hn; left; exact E|].
  apply IH. intros Hin. apply Hn. right. exact Hin.
Qed.

(* ------------------------------------------------------------------------------------------ one module *)
Lemma arrays_module_inv d m m' : arrays_module d m = Ok m' ->
  exists tbl new, array_names (dissolved m) (namespace m) = Ok tbl /\
    traverse (expand_array d) (combine (dissolved m) tbl) = Ok new /\
    m_name m' = m_name m /\ m_ports m' = m_ports m /\ m_sigs m' = m_sigs m /\ m_leaves m' = m_leaves m /\
    m_insts m' = filter single (m_insts m) ++ concat new.
Proof.
  unfold arrays_module. intros H. apply bind_ok in H. destruct H as [tbl [Ht H]]. apply bind_ok in H. destruct H as [new [Hn H]].
  inversion H; subst. exists tbl, new. cbn. auto 10.
Qed.

Lemma dissolved_In m x : In x (dissolved m) <-> In x (m_insts m) /\ single x = false.
Proof. unfold dissolved. rewrite <- in_rev, filter_In, negb_true_iff. tauto. Qed.

Lemma dissolved_NoDup m : NoDup (map i_name (m_insts m)) -> NoDup (map i_name (dissolved m)).
Proof.
  intros H. unfold dissolved. rewrite map_rev. apply NoDup_rev. apply NoDup_map_filter. exact H.
Qed.

Lemma namespace_split m : namespace m = mod_names m.
Proof. reflexivity. Qed.

Lemma in_combine_concat {A B} (l : list A) (t : list (list B)) a nms z : In (a, nms) (combine l t) -> In z nms -> In z (concat t).
Proof. intros H Hz. apply in_combine_r in H. apply in_concat. eauto. Qed.

Lemma combine_owner_unique {A B} (l : list A) (t : list (list B)) x y nx ny z : NoDup (concat t) ->
  In (x, nx) (combine l t) -> In (y, ny) (combine l t) -> In z nx -> In z ny -> x = y /\ nx = ny.
Proof.
  revert t. induction l as [|a l IH]; intros [|b t] Hnd Hx Hy Hzx Hzy; cbn [combine] in *; try destruct Hx.
  - destruct Hy as [Hy|Hy]; [split; congruence|]. exfalso. inversion H; subst. cbn [concat] in Hnd.
    apply (NoDup_app_disj _ _ z Hnd Hzx). eapply in_combine_concat; eassumption.
  - destruct Hy as [Hy|Hy].
    + exfalso. inversion Hy; subst. cbn [concat] in Hnd. apply (NoDup_app_disj _ _ z Hnd Hzy). eapply in_combine_concat; eassumption.
    + cbn [concat] in Hnd. apply NoDup_app_r in Hnd. eapply IH; eassumption.
Qed.

Lemma NoDup_concat_In {A} (t : list (list A)) l : NoDup (concat t) -> In l t -> NoDup l.
Proof.
  induction t as [|a t IH]; intros Hnd Hin; [destruct Hin|]. cbn [concat] in Hnd.
  destruct Hin as [->|Hin]; [apply (NoDup_app_l _ _ Hnd)|apply IH; [apply (NoDup_app_r _ _ Hnd)|exact Hin]].
Qed.

Section ArraysModule.
Variables (d : design) (k : nat) (m m' : module) (tbl : list (list name)) (new : list (list inst)).
Hypothesis Hok : module_ok d k m.
Hypothesis Ht : array_names (dissolved m) (namespace m) = Ok tbl.
Hypothesis Hn : traverse (expand_array d) (combine (dissolved m) tbl) = Ok new.
Hypothesis Hi : m_insts m' = filter single (m_insts m) ++ concat new.
Hypothesis Hp : m_ports m' = m_ports m.
Hypothesis Hs : m_sigs m' = m_sigs m.

Definition stay_names : list name := map fst (m_ports m) ++ map fst (m_sigs m) ++ map i_name (filter single (m_insts m)).

Lemma am_insts_NoDup : NoDup (map i_name (m_insts m)).
Proof. destruct Hok as [_ [H _]]. unfold mod_names in H. apply NoDup_app_r in H. apply NoDup_app_r in H. exact H. Qed.

Lemma am_names :
    Forall2 (fun x nms => Datatypes.length nms = Z.to_nat (i_n x)) (dissolved m) tbl /\
    map i_name (concat new) = concat tbl /\ NoDup (concat tbl) /\
    (forall nm, In nm (concat tbl) -> ~ In nm stay_names).
Proof.
  pose proof am_insts_NoDup as Hnd.
  destruct (array_names_spec _ _ _ Ht (dissolved_NoDup _ Hnd)) as [F [Hnd2 HK]].
  { intros x Hx. apply dissolved_In in Hx. unfold namespace. apply in_or_app. right. apply in_or_app. right. apply in_map. tauto. }
  split; [exact F|]. split; [|split; [exact Hnd2|]].
  - pose proof Hn as Hn'. apply traverse_Forall2 in Hn'. clear HK Hnd2 Ht Hn Hi. revert new Hn'.
    induction F as [|x nms arrs tb Hl _ IH]; intros nw Hn'; cbn [combine] in Hn'; inversion Hn'; subst; [reflexivity|].
    cbn [concat]. rewrite map_app. rewrite (expand_names d x nms y H1 Hl). f_equal. apply IH. assumption.
  - apply HK.
    + intros s Hs'. unfold namespace. unfold stay_names in Hs'. apply in_app_or in Hs'. apply in_or_app. destruct Hs' as [Hs'|Hs']; [left; exact Hs'|right].
      apply in_app_or in Hs'. apply in_or_app. destruct Hs' as [Hs'|Hs']; [left; exact Hs'|right].
      apply in_map_iff in Hs'. destruct Hs' as [y [<- Hy]]. apply filter_In in Hy. apply in_map. tauto.
    + intros x Hx Hin. apply dissolved_In in Hx. destruct Hx as [Hx Hsx].
      destruct Hok as [_ [Hall _]]. unfold mod_names in Hall. unfold stay_names in Hin.
      apply in_app_or in Hin. destruct Hin as [Hin|Hin].
      * apply (NoDup_app_disj _ _ (i_name x) Hall Hin). apply in_or_app. right. apply in_map. exact Hx.
      * apply NoDup_app_r in Hall. apply in_app_or in Hin. destruct Hin as [Hin|Hin].
        -- apply (NoDup_app_disj _ _ (i_name x) Hall Hin). apply in_map. exact Hx.
        -- apply in_map_iff in Hin. destruct Hin as [y [Hy Hyin]]. apply filter_In in Hyin. destruct Hyin as [Hyin Hys].
           apply NoDup_app_r in Hall.
           assert (y = x) as ->; [|congruence].
           pose proof (find_inst_unique _ _ Hall Hx) as F1. pose proof (find_inst_unique _ _ Hall Hyin) as F2. rewrite Hy in F2. congruence.
Qed.

Lemma am_NoDup' : NoDup (mod_names m').
Proof.
  destruct am_names as [_ [Hmap [Hnd Hfresh]]].
  destruct Hok as [_ [Hall _]]. unfold mod_names in *. rewrite Hp, Hs, Hi, map_app, Hmap.
  rewrite !app_assoc. apply NoDup_app_intro.
  - rewrite <- !app_assoc. rewrite app_assoc in Hall. rewrite app_assoc.
    apply NoDup_app_intro; [apply (NoDup_app_l _ _ Hall)|apply NoDup_map_filter; apply (NoDup_app_r _ _ Hall)|].
    intros x H1 H2. apply (NoDup_app_disj _ _ x Hall H1). apply in_map_iff in H2. destruct H2 as [y [<- Hy]]. apply filter_In in Hy. apply in_map. tauto.
  - exact Hnd.
  - intros x H1 H2. apply (Hfresh x H2). unfold stay_names. rewrite <- !app_assoc in H1. exact H1.
Qed.

Lemma am_insts_NoDup' : NoDup (map i_name (m_insts m')).
Proof. pose proof am_NoDup' as H. unfold mod_names in H. apply NoDup_app_r in H. apply NoDup_app_r in H. exact H. Qed.

(* a single instance stays *)
Lemma am_single i x : find_inst (m_insts m) i = Some x -> single x = true ->
  find_inst (m_insts m') i = Some x /\ forall e, elem_rename m (i, e) = (i, e).
Proof.
  intros Hf Hsx.
  split; [rewrite Hi, find_inst_app, (find_inst_filter _ single i x Hf Hsx); reflexivity|].
  intros e. unfold elem_rename. rewrite Ht. cbn [fst snd]. rewrite find_pair_none; [reflexivity|].
  intros Hin. apply in_map_iff in Hin. destruct Hin as [y [Hy Hyin]]. apply dissolved_In in Hyin. destruct Hyin as [Hyin Hys].
  destruct (find_inst_In _ _ _ Hf) as [Hxin Hxn].
  pose proof (find_inst_unique _ _ am_insts_NoDup Hyin) as F1. rewrite Hy, Hf in F1. inversion F1; subst. congruence.
Qed.

(* element e of an array becomes an Instance of its own *)
Lemma am_elem i x e : find_inst (m_insts m) i = Some x -> single x = false -> 0 <= e < i_n x ->
  exists nms ps el, In (x, nms) (combine (dissolved m) tbl) /\ Datatypes.length nms = Z.to_nat (i_n x) /\
    elem_rename m (i, e) = (nth (Z.to_nat e) nms i, 0) /\ find_inst (m_insts m') (nth (Z.to_nat e) nms i) = Some el /\
    target_ports d (i_of x) = Ok ps /\ elem_inst d x ps (e, nth (Z.to_nat e) nms i) = Ok el.
Proof.
  intros Hf Hsx He. destruct (find_inst_In _ _ _ Hf) as [Hxin Hxn]. subst i.
  destruct am_names as [F [Hmap _]].
  assert (In x (dissolved m)) as Hxd by (apply dissolved_In; auto).
  destruct (combine_In_l (dissolved m) tbl x (Forall2_length' _ _ _ F) Hxd) as [nms Hpair].
  assert (Datatypes.length nms = Z.to_nat (i_n x)) as Hl.
  { clear - F Hpair. induction F as [|a t arrs tb Hl _ IH]; cbn [combine] in Hpair; [destruct Hpair|].
    destruct Hpair as [E|Hpr]; [inversion E; subst; exact Hl|apply IH; exact Hpr]. }
  destruct (traverse_In _ _ _ _ Hn Hpair) as [els [Hex Hels]].
  destruct (expand_elem d x nms els e Hex Hl He) as [ps [el [Hps [Hel Hei]]]].
  exists nms, ps, el. split; [exact Hpair|]. split; [exact Hl|]. split; [|split; [|split; [exact Hps|exact Hei]]].
  - unfold elem_rename. rewrite Ht. cbn [fst snd]. rewrite (find_pair_unique _ _ x nms (dissolved_NoDup _ am_insts_NoDup) Hpair). reflexivity.
  - pose proof (elem_inst_inv _ _ _ _ _ Hei) as [Hname _]. cbn [snd] in Hname. rewrite <- Hname.
    apply find_inst_unique; [exact am_insts_NoDup'|]. rewrite Hi. apply in_or_app. right. apply in_concat. eauto.
Qed.

(* every instance of the new module is a single instance of the old one or an element of one of its arrays *)
Lemma am_back el : In el (m_insts m') ->
  (In el (m_insts m) /\ single el = true) \/
  exists x nms ps e, In x (m_insts m) /\ single x = false /\ 0 <= e < i_n x /\ target_ports d (i_of x) = Ok ps /\
                     elem_inst d x ps (e, nms) = Ok el.
Proof.
  rewrite Hi. intros Hin. apply in_app_or in Hin. destruct Hin as [Hin|Hin]; [left; apply filter_In in Hin; exact Hin|right].
  apply in_concat in Hin. destruct Hin as [els [Hels Hel]].
  pose proof Hn as Hn'. apply traverse_Forall2 in Hn'. destruct (Forall2_In_r _ _ _ els Hn' Hels) as [[x nms] [Hpair Hex]].
  unfold expand_array in Hex. cbn [fst snd] in Hex. apply bind_ok in Hex. destruct Hex as [ps [Hps Hex]]. apply traverse_Forall2 in Hex.
  destruct (Forall2_In_r _ _ _ el Hex Hel) as [[e nm] [Hk Hei]].
  apply in_combine_l in Hpair. apply dissolved_In in Hpair. destruct Hpair as [Hx Hsx].
  apply in_combine_l in Hk. apply iota_in in Hk. destruct Hk as [j [Hj ->]].
  exists x, nm, ps, (0 + j * 1). repeat split; try assumption; try lia.
Qed.

Lemma am_inj i e x j f y : find_inst (m_insts m) i = Some x -> elem_ok x e = true ->
  find_inst (m_insts m) j = Some y -> elem_ok y f = true -> elem_rename m (i, e) = elem_rename m (j, f) -> i = j /\ e = f.
Proof.
  intros Hfx Hex Hfy Hey E. destruct am_names as [_ [_ [Hnd Hfresh]]].
  assert (forall i x, find_inst (m_insts m) i = Some x -> single x = true -> In i stay_names) as Hstay.
  { intros i0 x0 Hf0 Hs0. unfold stay_names. apply in_or_app. right. apply in_or_app. right. apply in_map_iff. exists x0.
    destruct (find_inst_In _ _ _ Hf0) as [Hin Hnm]. split; [exact Hnm|]. apply filter_In. auto. }
  unfold elem_ok, single in *.
  destruct (i_n x <=? 0) eqn:Esx; destruct (i_n y <=? 0) eqn:Esy.
  - destruct (am_single i x Hfx Esx) as [_ Hrx]. destruct (am_single j y Hfy Esy) as [_ Hry]. rewrite Hrx, Hry in E. inversion E. auto.
  - exfalso. destruct (am_single i x Hfx Esx) as [_ Hrx].
    destruct (am_elem j y f Hfy Esy ltac:(lia)) as [nms [ps [el [Hpair [Hl [Hr _]]]]]]. rewrite Hrx, Hr in E. inversion E as [[Ei Ee]].
    apply (Hfresh i); [|apply (Hstay i x Hfx Esx)]. rewrite Ei. eapply in_combine_concat; [exact Hpair|]. apply nth_In. lia.
  - exfalso. destruct (am_single j y Hfy Esy) as [_ Hry].
    destruct (am_elem i x e Hfx Esx ltac:(lia)) as [nms [ps [el [Hpair [Hl [Hr _]]]]]]. rewrite Hry, Hr in E. inversion E as [[Ei Ee]].
    apply (Hfresh j); [|apply (Hstay j y Hfy Esy)]. rewrite <- Ei. eapply in_combine_concat; [exact Hpair|]. apply nth_In. lia.
  - destruct (am_elem i x e Hfx Esx ltac:(lia)) as [nx [psx [elx [Hpx [Hlx [Hrx _]]]]]].
    destruct (am_elem j y f Hfy Esy ltac:(lia)) as [ny [psy [ely [Hpy [Hly [Hry _]]]]]].
    rewrite Hrx, Hry in E. inversion E as [Ez].
    assert (In (nth (Z.to_nat e) nx i) nx) as Hzx by (apply nth_In; lia).
    assert (In (nth (Z.to_nat f) ny j) ny) as Hzy by (apply nth_In; lia).
    rewrite <- Ez in Hzy.
    destruct (combine_owner_unique _ _ x y nx ny _ Hnd Hpx Hpy Hzx Hzy) as [<- <-].
    destruct (find_inst_In _ _ _ Hfx) as [_ <-]. destruct (find_inst_In _ _ _ Hfy) as [_ <-]. split; [reflexivity|].
    pose proof (NoDup_concat_In tbl nx Hnd (in_combine_r _ _ _ _ Hpx)) as Hndx.
    rewrite NoDup_nth in Hndx. specialize (Hndx (Z.to_nat e) (Z.to_nat f) ltac:(lia) ltac:(lia) Ez). lia.
Qed.
End ArraysModule.

Lemma local_tgt_ext d d' m m' x e port k : m_leaves m' = m_leaves m -> port_width d' x port = port_width d x port ->
  local_tgt d' m' x e port k = local_tgt d m x e port k.
Proof. intros Hl Hp. unfold local_tgt, conn_bit. rewrite Hl, Hp. reflexivity. Qed.

Lemma array_elem_conn_leaves n w c e c' : array_elem_conn n w c e = Ok c' -> sx_leaves c' = sx_leaves c.
Proof.
  unfold array_elem_conn. destruct (xwidth c) as [cw|]; cbn [bind]; [|discriminate].
  destruct (cw =? w); [intros H; inversion H; reflexivity|]. destruct (cw =? n * w); [|discriminate]. intros H; inversion H; reflexivity.
Qed.

(* ------------------------------------------------------------------------------------------ the pass *)
Section ArraysPass.
Variables d d' : design.
Hypothesis Hwfs : wfs d.
Hypothesis Hpass : arrays_design d = Ok d'.

Let MR (m m' : module) : Prop := (exists k, nth_mod d k = Ok m /\ module_ok d k m) /\ arrays_module d m = Ok m'.
Let rho (m : module) (ie : pelem) : pelem := elem_rename m ie.
Let mu (k : nat) : option nat := Some k.

Lemma arrays_ports_keep : forall m m', arrays_module d m = Ok m' -> m_ports m' = m_ports m.
Proof. intros m m' H. destruct (arrays_module_inv _ _ _ H) as [_ [_ [_ [_ [_ [H1 _]]]]]]. exact H1. Qed.

Lemma ar_top : mu (d_top d) = Some (d_top d').
Proof. unfold mu. f_equal. symmetry. apply (map_modules_inv _ _ _ Hpass). Qed.

Lemma ar_desc : forall k k' m, mu k = Some k' -> nth_mod d k = Ok m -> exists m', nth_mod d' k' = Ok m' /\ MR m m'.
Proof.
  intros k k' m Hk Hn. inversion Hk; subst k'. destruct (map_modules_nth _ _ _ _ _ Hpass Hn) as [m' [Hk' Hf]].
  exists m'. split; [exact Hk'|]. split; [|exact Hf]. exists k. split; [exact Hn|]. destruct Hwfs as [_ [_ H]]. apply H. apply nth_mod_nth. exact Hn.
Qed.

Lemma ar_ports : forall m m', MR m m' -> m_ports m = m_ports m'.
Proof. intros m m' [_ R]. symmetry. apply arrays_ports_keep. exact R. Qed.

Lemma ar_sigs : forall m m' s w, MR m m' -> sig_width m s = Some w -> sig_width m' s = Some w.
Proof.
  intros m m' s w [_ R] Hs. destruct (arrays_module_inv _ _ _ R) as [_ [_ [_ [_ [_ [Hp [Hsg _]]]]]]].
  rewrite (sig_width_keep m m' s Hp Hsg). exact Hs.
Qed.

Lemma tgt_rel_refl t : tgt_rel mu t t.
Proof. destruct t as [j|dv ps]; cbn; auto. Qed.

Lemma ar_inst : forall m m' i e x, MR m m' -> find_inst (m_insts m) i = Some x -> elem_ok x e = true ->
  exists x', find_inst (m_insts m') (fst (rho m (i, e))) = Some x' /\ elem_ok x' (snd (rho m (i, e))) = true /\
             tgt_rel mu (i_of x) (i_of x').
Proof.
  intros m m' i e x [[k [_ Hok]] R] Hf He. unfold rho.
  destruct (arrays_module_inv _ _ _ R) as [tbl [new [Ht [Hn [_ [Hp [Hs [_ Hi]]]]]]]].
  destruct (single x) eqn:Es.
  - destruct (am_single d k m m' tbl new Hok Ht Hi i x Hf Es) as [Hf' Hr]. rewrite Hr. cbn [fst snd]. exists x. split; [exact Hf'|].
    split; [exact He|apply tgt_rel_refl].
  - unfold elem_ok, single in *. rewrite Es in He.
    destruct (am_elem d k m m' tbl new Hok Ht Hn Hi Hp Hs i x e Hf Es ltac:(lia)) as [nms [ps [el [_ [_ [Hr [Hf' [_ Hei]]]]]]]]. rewrite Hr. cbn [fst snd].
    apply elem_inst_inv in Hei. destruct Hei as [_ [Hn' [Ho _]]]. exists el. split; [exact Hf'|]. split.
    + unfold elem_ok. rewrite Hn'. reflexivity.
    + rewrite Ho. apply tgt_rel_refl.
Qed.

Lemma ar_single : forall m m' i x, MR m m' -> find_inst (m_insts m) i = Some x -> i_n x <= 0 -> snd (rho m (i, 0)) = 0.
Proof.
  intros m m' i x _ _ _. unfold rho, elem_rename. destruct (array_names _ _); [|reflexivity]. destruct (find _ _); reflexivity.
Qed.

Lemma ar_inj : forall m m' i e x j f y, MR m m' -> find_inst (m_insts m) i = Some x -> elem_ok x e = true ->
  find_inst (m_insts m) j = Some y -> elem_ok y f = true -> rho m (i, e) = rho m (j, f) -> i = j /\ e = f.
Proof.
  intros m m' i e x j f y [[k [_ Hok]] R] Hfx Hex Hfy Hey E.
  destruct (arrays_module_inv _ _ _ R) as [tbl [new [Ht [Hn [_ [Hp [Hs [_ Hi]]]]]]]].
  exact (am_inj d k m m' tbl new Hok Ht Hn Hi Hp Hs i e x j f y Hfx Hex Hfy Hey E).
Qed.

Lemma ar_val : forall p m i e x port k w t, vmod_at d p = Ok m -> find_inst (m_insts m) i = Some x ->
  elem_ok x e = true -> port_width d x port = Ok w -> 0 <= k < w -> local_tgt d m x e port k = Ok t -> ltgt_valid d m t.
Proof.
  intros p m i e x0 port k w t Hm Hf He Hw Hk Ht.
  destruct (wfs_module _ _ _ Hwfs Hm) as [km [Hkm Hok]]. destruct (find_inst_In _ _ _ Hf) as [Hxin _].
  destruct (wfs_local_tgt d km m x0 e port k w Hok Hxin He Hw Hk) as [cx [bits [id [j [s [ws [_ [_ [_ [_ [_ [Hs [Hj Hlt]]]]]]]]]]]]].
  rewrite Hlt in Ht. inversion Ht; subst t. cbn. eauto.
Qed.

Lemma ar_loc : forall m m' i e x x' port k w t, MR m m' ->
  find_inst (m_insts m) i = Some x -> elem_ok x e = true ->
  find_inst (m_insts m') (fst (rho m (i, e))) = Some x' ->
  port_width d x port = Ok w -> 0 <= k < w ->
  local_tgt d m x e port k = Ok t -> ltgt_valid d m t ->
  local_tgt d' m' x' (snd (rho m (i, e))) port k = Ok (map_lt rho m t).
Proof.
  intros m m' i e x x' port k w t [[km [Hkm Hok]] R] Hf He Hf' Hw Hk Ht _. unfold rho in *.
  destruct (arrays_module_inv _ _ _ R) as [tbl [new [Htb [Hn [_ [Hp [Hs [Hlv Hi]]]]]]]].
  destruct (find_inst_In _ _ _ Hf) as [Hxin _].
  destruct (wfs_local_tgt d km m x e port k w Hok Hxin He Hw Hk) as [cx [bits [id [j [s [ws [Ha [Hb [Hc [Hpk [Hl [_ [_ Hlt]]]]]]]]]]]]].
  rewrite Hlt in Ht. inversion Ht; subst t. cbn [map_lt].
  destruct (single x) eqn:Es.
  - destruct (am_single d km m m' tbl new Hok Htb Hi i x Hf Es) as [Hfx Hr]. rewrite Hr in *. cbn [fst snd] in *.
    rewrite Hfx in Hf'. inversion Hf'; subst x'.
    rewrite (local_tgt_ext d d' m m' x e port k Hlv); [exact Hlt|].
    rewrite Hw. apply (port_width_keep _ _ _ x x port w Hpass arrays_ports_keep eq_refl Hw).
  - unfold elem_ok, single in *. rewrite Es in He.
    destruct (am_elem d km m m' tbl new Hok Htb Hn Hi Hp Hs i x e Hf Es ltac:(lia)) as [nms [ps [el [_ [_ [Hr [Hfe [Hps Hei]]]]]]]].
    rewrite Hr in *. cbn [fst snd] in *. rewrite Hfe in Hf'. inversion Hf'; subst x'.
    destruct (elem_inst_inv _ _ _ _ _ Hei) as [_ [Hn0 [Ho Fc]]]. cbn [fst] in Fc.
    destruct (assoc_Forall2 _ _ _ port cx Fc (fun a b H => eq_sym (proj1 H)) Ha) as [c' [Ha' [_ [w0 [Hw0 Hac]]]]]. cbn [fst snd] in *.
    assert (w0 = w) as ->.
    { unfold port_width in Hw. rewrite Hps in Hw. cbn [bind] in Hw. apply ofopt_ok in Hw. congruence. }
    pose proof (array_element_bits (i_n x) w cx e bits ltac:(lia) ltac:(lia) Hb) as AE. rewrite Hac in AE.
    destruct AE as [l' [Hb' [Hlen' Hpick]]].
    assert (port_width d' el port = Ok w) as Hw'.
    { apply (port_width_keep _ _ _ x el port w Hpass arrays_ports_keep Ho Hw). }
    apply (local_tgt_intro d' m' el 0 port k w c' l' id j s Ha' Hb' Hw' Hk).
    + unfold elem_ok. rewrite Hn0. reflexivity.
    + left. exact Hlen'.
    + unfold conn_index in *. rewrite Hlen', Z.eqb_refl. rewrite (Hpick k Hk). destruct (zlen bits =? w); exact Hpk.
    + rewrite Hlv. exact Hl.
Qed.

Theorem arrays_valid x : valid d x -> valid d' (phi d rho x).
Proof.
  exact (valid_tr d d' mu rho MR ar_top ar_desc ar_ports ar_sigs ar_inst ar_single ar_inj ar_loc ar_val (wfs_step_total d Hwfs) x).
Qed.

Theorem arrays_same_net x y : valid d x -> valid d y -> (same_net d x y <-> same_net d' (phi d rho x) (phi d rho y)).
Proof.
  exact (sim_same_net d d' mu rho MR ar_top ar_desc ar_ports ar_sigs ar_inst ar_single ar_inj ar_loc ar_val (wfs_step_total d Hwfs) x y).
Qed.
Theorem arrays_dev x dev : valid d x -> dev_at d x = Ok dev -> dev_at d' (phi d rho x) = Ok dev.
Proof.
  exact (sim_dev d d' mu rho MR ar_top ar_desc ar_ports ar_sigs ar_inst ar_single ar_inj ar_loc ar_val (wfs_step_total d Hwfs) x dev).
Qed.
End ArraysPass.

(* ------------------------------------------------------------------------------------------ wfs is kept *)
Lemma inst_ok_keep d d' k m m' x : (forall t ps, target_ports d t = Ok ps -> target_ports d' t = Ok ps) ->
  m_leaves m' = m_leaves m -> m_ports m' = m_ports m -> m_sigs m' = m_sigs m -> inst_ok d k m x -> inst_ok d' k m' x.
Proof.
  intros Htp Hl Hp Hs [Ho [ports [Hpt [Hnd [Hc Hall]]]]]. split; [exact Ho|]. exists ports. split; [apply Htp; exact Hpt|]. split; [exact Hnd|].
  split; [|exact Hall]. eapply Forall_impl; [|exact Hc]. intros c [w [cw [H1 [H2 [H3 H4]]]]]. exists w, cw. split; [exact H1|]. split; [exact H2|].
  split; [|exact H4]. eapply Forall_impl; [|exact H3]. intros lw. apply leaf_ok_keep; assumption.
Qed.

Theorem arrays_wfs d d' : wfs d -> arrays_design d = Ok d' -> wfs d' /\ no_arrays d'.
Proof.
  intros Hwfs Hpass. pose proof Hwfs as [Htop [Hnd Hmods]].
  assert (forall k m', nth_error (d_mods d') k = Some m' -> exists m, nth_error (d_mods d) k = Some m /\ arrays_module d m = Ok m') as Hback.
  { intros k m' Hk. apply (map_modules_nth_rev _ _ _ _ _ Hpass Hk). }
  assert (forall t ps, target_ports d t = Ok ps -> target_ports d' t = Ok ps) as Htp.
  { intros t ps. apply (target_ports_keep _ _ _ t Hpass (arrays_ports_keep d)). }
  split.
  - split; [|split].
    + rewrite (map_modules_length _ _ _ Hpass). rewrite (proj1 (map_modules_inv _ _ _ Hpass)). exact Htop.
    + rewrite (map_modules_names _ _ _ Hpass); [exact Hnd|]. intros m m' H. destruct (arrays_module_inv _ _ _ H) as [_ [_ [_ [_ [H1 _]]]]]. exact H1.
    + intros k m' Hk. destruct (Hback k m' Hk) as [m [Hkm Hm]]. pose proof (Hmods k m Hkm) as Hok. destruct Hok as [Hn [Hnd' [Hw Hi]]].
      destruct (arrays_module_inv _ _ _ Hm) as [tbl [new [Ht [Hnw [En [Ep [Es [El Ei]]]]]]]].
      split; [rewrite En; exact Hn|]. split; [apply (am_NoDup' d k m m' tbl new (Hmods k m Hkm) Ht Hnw Ei Ep Es)|].
      split; [rewrite Ep, Es; exact Hw|].
      apply Forall_forall. intros el Hel.
      destruct (am_back d m m' tbl new Hnw Ei el Hel) as [[Hin Hs]|[x [nm [ps [e [Hx [Hsx [He [Hps Hei]]]]]]]]].
      * rewrite Forall_forall in Hi. apply (inst_ok_keep d d' k m m' el Htp El Ep Es). apply Hi. exact Hin.
      * rewrite Forall_forall in Hi. destruct (Hi x Hx) as [Ho [ports [Hpt [Hcnd [Hc Hall]]]]].
        assert (ports = ps) as -> by congruence.
        destruct (elem_inst_inv _ _ _ _ _ Hei) as [_ [Hn0 [Hof Fc]]]. cbn [fst] in Fc.
        split; [rewrite Hof; exact Ho|]. exists ps. split; [rewrite Hof; apply Htp; exact Hps|]. split.
        { rewrite <- (Forall2_map_eq _ fst fst _ _ Fc); [exact Hcnd|]. intros a b [Hab _]. symmetry. exact Hab. }
        split.
        { apply Forall_forall. intros c' Hc'. destruct (Forall2_In_r _ _ _ c' Fc Hc') as [c [Hcin [Hfst [w0 [Hw0 Hac]]]]].
          rewrite Forall_forall in Hc. destruct (Hc c Hcin) as [w [cw [Hpw [Hw1 [Hl [Hcw Hcase]]]]]].
          assert (w0 = w) as -> by congruence.
          destruct (xwidth_ok_xbits _ _ Hcw) as [bits [Hb Hlen]].
          pose proof (array_element_bits (i_n x) w (snd c) e bits Hw1 He Hb) as AE. rewrite Hac in AE. destruct AE as [l' [Hb' [Hlen' _]]].
          exists w, w. split; [rewrite Hfst; exact Hpw|]. split; [exact Hw1|]. split.
          - rewrite (array_elem_conn_leaves _ _ _ _ _ Hac). eapply Forall_impl; [|exact Hl]. intros lw. apply leaf_ok_keep; assumption.
          - split; [|left; reflexivity]. pose proof (xwidth_xbits (snd c')) as W. rewrite Hb' in W. rewrite W, Hlen'. reflexivity. }
        intros pw Hpwin E. apply (Hall pw Hpwin).
        apply (assoc_Forall2_none _ _ _ (fst pw) Fc); [|exact E]. intros a b [Hab _]. symmetry. exact Hab.
  - intros k m' Hk. destruct (Hback k m' Hk) as [m [Hkm Hm]].
    destruct (arrays_module_inv _ _ _ Hm) as [tbl [new [Ht [Hnw [En [Ep [Es [El Ei]]]]]]]].
    apply forallb_forall. intros el Hel.
    destruct (am_back d m m' tbl new Hnw Ei el Hel) as [[Hin Hs]|[x [nm [ps [e [Hx [Hsx [He [Hps Hei]]]]]]]]]; [exact Hs|].
    destruct (elem_inst_inv _ _ _ _ _ Hei) as [_ [Hn0 _]]. unfold single. rewrite Hn0. reflexivity.
Qed.

(* ------------------------------------------------------------------------------------------ the only failure is the name length limit *)
Lemma traverse_ok_or {A B} (f : A -> result B) (e0 : err) l :
  (forall x, In x l -> (exists y, f x = Ok y) \/ f x = Error e0) -> (exists r, traverse f l = Ok r) \/ traverse f l = Error e0.
Proof.
  induction l as [|x l IH]; intros H; cbn [traverse]; [left; eauto|].
  destruct (H x (or_introl eq_refl)) as [[y ->]| ->]; cbn [bind]; [|right; reflexivity].
  destruct IH as [[r ->]| ->]; [intros z Hz; apply H; right; exact Hz| |]; cbn [bind]; [left; eauto|right; reflexivity].
Qed.

Lemma map_modules_ok_or f e0 d : (forall k m, nth_error (d_mods d) k = Some m -> (exists m', f m = Ok m') \/ f m = Error e0) ->
  (exists d', map_modules f d = Ok d') \/ map_modules f d = Error e0.
Proof.
  intros H. unfold map_modules. destruct (traverse_ok_or f e0 (d_mods d)) as [[ms ->]| ->]; cbn [bind]; [|left; eauto|right; reflexivity].
  intros m Hin. apply In_nth_error in Hin. destruct Hin as [k Hk]. eapply H. exact Hk.
Qed.

Theorem arrays_total d : wfs d -> (exists d', arrays_design d = Ok d') \/ arrays_design d = Error EName.
Proof.
  intros [_ [_ Hmods]]. apply map_modules_ok_or. intros k m Hk. destruct (Hmods k m Hk) as [_ [_ [_ Hi]]]. unfold arrays_module.
  destruct (array_names (dissolved m) (namespace m)) as [tbl|e] eqn:Et; cbn [bind].
  2:{ right. rewrite (array_names_err _ _ _ Et). reflexivity. }
  left. destruct (traverse_total (expand_array d) (combine (dissolved m) tbl)) as [new ->]; [|cbn [bind]; eauto].
  intros [x nms] Hpair. apply in_combine_l in Hpair. apply dissolved_In in Hpair. destruct Hpair as [Hx Hsx].
  rewrite Forall_forall in Hi. destruct (Hi x Hx) as [_ [ports [Hpt [_ [Hc _]]]]].
  unfold expand_array. cbn [fst snd]. rewrite Hpt. cbn [bind]. apply traverse_total. intros [e nm] _.
  unfold elem_inst. cbn [fst snd].
  destruct (traverse_total (fun c : name * sx => w <- ofopt EExtra (assoc (fst c) ports) ;;
             c' <- array_elem_conn (i_n x) w (snd c) e ;; Ok (fst c, c')) (i_conns x)) as [cs ->]; [|cbn [bind]; eauto].
  intros c Hcin. rewrite Forall_forall in Hc. destruct (Hc c Hcin) as [w [cw [Hpw [_ [_ [Hcw Hcase]]]]]].
  rewrite Hpw. cbn [ofopt bind]. unfold array_elem_conn. rewrite Hcw. cbn [bind].
  destruct (cw =? w) eqn:E1; [cbn [bind]; eauto|]. destruct Hcase as [Hcase|[_ Hcase]]; [lia|].
  assert (cw =? i_n x * w = true) as -> by lia. cbn [bind]. eauto.
Qed.
