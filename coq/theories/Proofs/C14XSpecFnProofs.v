(* Proofs/C14XSpecFnProofs.v — C14X: the specification function of the C14 correspondence run, Corr/C14.v nearest_double
   (binade from Z.log2 of numerator and denominator, ONE half-even rounding of the scaled quotient, overflow test on the
   rounded mantissa), returns the same double as round_dec, for every finite Decimal.

   Route: nearest_pos a b = Some (m, E) satisfies the midpoint conditions of Spec/SimSpec.v near_abs for the canonical form
   of m*2^E ((2^52, E+1) when the rounding carried to m = 2^53); the nearest double is unique (C17NearestProofs) and round_dbl
   is one (C17RoundProofs), so the two agree. *)
Require Import Hdl21.Base.PyInt Hdl21.Base.Dec Hdl21.Model.Prefixed Hdl21Gen.PrefixTable.
Require Import Hdl21.Spec.SimSpec Hdl21.Model.C17Float Hdl21.Proofs.C17NearestProofs Hdl21.Proofs.C17RoundProofs.
Require Import Hdl21.Corr.C14 Hdl21.Model.C14XModel Hdl21.Corr.C14X Hdl21.Proofs.C14XFloatProofs.
Open Scope Z_scope.

Lemma pw2 k : 0 <= k -> 0 < 2 ^ k.
Proof. intros. apply Z.pow_pos_nonneg; lia. Qed.
Lemma pw2_add a b : 0 <= a -> 0 <= b -> 2 ^ (a + b) = 2 ^ a * 2 ^ b.
Proof. intros. apply Z.pow_add_r; lia. Qed.
Lemma pw2_le a b : 0 <= a -> a <= b -> 2 ^ a <= 2 ^ b.
Proof. intros. apply Z.pow_le_mono_r; lia. Qed.

(* ---------------------------------------------------------------- half-even rounding: within half a step, ties on even *)
Lemma rhe_half n d : 0 < d ->
  2 * Z.abs (n - rhe n d * d) <= d /\ (2 * Z.abs (n - rhe n d * d) = d -> Z.even (rhe n d) = true).
Proof.
  intros Hd. pose proof (Z.div_mod n d ltac:(lia)) as DM. pose proof (Z.mod_pos_bound n d Hd) as MB.
  unfold rhe. destruct (2 * (n mod d) <? d) eqn:E1; [split; [nia|intros Q; nia]|].
  destruct (d <? 2 * (n mod d)) eqn:E2; [split; [nia|intros Q; nia]|].
  destruct (Z.even (n / d)) eqn:EV; [split; [nia|intros _; exact EV]|].
  split; [nia|]. intros _. rewrite Z.even_add. rewrite EV. reflexivity.
Qed.

(* ---------------------------------------------------------------- a/b against powers of two, for exponents of either sign *)
Definition rge (a b f : Z) : Prop := if 0 <=? f then b * 2 ^ f <= a else b <= a * 2 ^ (- f).
Definition rlt (a b f : Z) : Prop := if 0 <=? f then a < b * 2 ^ f else a * 2 ^ (- f) < b.

Lemma rge_unif a b f : -1076 <= f -> (rge a b f <-> b * 2 ^ (f + 1076) <= a * 2 ^ 1076).
Proof.
  intros H. unfold rge. destruct (0 <=? f) eqn:E.
  - rewrite pw2_add by lia. pose proof (pw2 1076 ltac:(lia)). pose proof (pw2 f ltac:(lia)). split; nia.
  - assert (2 ^ 1076 = 2 ^ (- f) * 2 ^ (f + 1076)) as Q by (rewrite <- pw2_add by lia; f_equal; lia).
    rewrite Q. pose proof (pw2 (f + 1076) ltac:(lia)). pose proof (pw2 (- f) ltac:(lia)). split; nia.
Qed.
Lemma rlt_unif a b f : -1076 <= f -> (rlt a b f <-> a * 2 ^ 1076 < b * 2 ^ (f + 1076)).
Proof.
  intros H. unfold rlt. destruct (0 <=? f) eqn:E.
  - rewrite pw2_add by lia. pose proof (pw2 1076 ltac:(lia)). pose proof (pw2 f ltac:(lia)). split; nia.
  - assert (2 ^ 1076 = 2 ^ (- f) * 2 ^ (f + 1076)) as Q by (rewrite <- pw2_add by lia; f_equal; lia).
    rewrite Q. pose proof (pw2 (f + 1076) ltac:(lia)). pose proof (pw2 (- f) ltac:(lia)). split; nia.
Qed.
(* far below the normal range only the upper bound matters *)
Lemma rlt_low a b g : 0 <= a -> 0 < b -> g <= -1022 -> rlt a b g -> a * 2 ^ 1076 < b * 2 ^ 54.
Proof.
  intros Ha Hb Hg. unfold rlt. destruct (0 <=? g) eqn:E; [lia|]. intros H.
  destruct (Z_le_gt_dec (- g) 1076) as [Q|Q].
  - assert (2 ^ 1076 = 2 ^ (- g) * 2 ^ (1076 + g)) as P by (rewrite <- pw2_add by lia; f_equal; lia).
    rewrite P. pose proof (pw2 (1076 + g) ltac:(lia)). pose proof (pw2_le (1076 + g) 54 ltac:(lia) ltac:(lia)).
    pose proof (pw2 (- g) ltac:(lia)). nia.
  - pose proof (pw2_le 1076 (- g) ltac:(lia) ltac:(lia)). pose proof (pw2 54 ltac:(lia)). pose proof (pw2 1076 ltac:(lia)). nia.
Qed.

(* floor(log2(a/b)) is Z.log2 a - Z.log2 b or one less; the test of nearest_pos decides *)
Lemma log2_ratio a b : 0 < a -> 0 < b -> let L := Z.log2 a - Z.log2 b in rge a b (L - 1) /\ rlt a b (L + 1).
Proof.
  intros Ha Hb L. pose proof (Z.log2_spec a Ha) as [A1 A2]. pose proof (Z.log2_spec b Hb) as [B1 B2].
  pose proof (Z.log2_nonneg a) as NA. pose proof (Z.log2_nonneg b) as NB.
  set (la := Z.log2 a) in *. set (lb := Z.log2 b) in *. replace (Z.succ la) with (la + 1) in A2 by lia. replace (Z.succ lb) with (lb + 1) in B2 by lia.
  pose proof (pw2 la NA). pose proof (pw2 lb NB).
  split.
  - unfold rge. destruct (0 <=? L - 1) eqn:E.
    + (* b * 2^(L-1) < 2^(lb+1) * 2^(L-1) = 2^la <= a *)
      assert (2 ^ la = 2 ^ (lb + 1) * 2 ^ (L - 1)) as Q by (rewrite <- pw2_add by lia; f_equal; lia).
      pose proof (pw2 (L - 1) ltac:(lia)). nia.
    + (* b < 2^(lb+1) = 2^la * 2^(-(L-1)) <= a * 2^(-(L-1)) *)
      assert (2 ^ (lb + 1) = 2 ^ la * 2 ^ (- (L - 1))) as Q by (rewrite <- pw2_add by lia; f_equal; lia).
      pose proof (pw2 (- (L - 1)) ltac:(lia)). nia.
  - unfold rlt. destruct (0 <=? L + 1) eqn:E.
    + assert (2 ^ (la + 1) = 2 ^ lb * 2 ^ (L + 1)) as Q by (rewrite <- pw2_add by lia; f_equal; lia).
      pose proof (pw2 (L + 1) ltac:(lia)). nia.
    + assert (2 ^ lb = 2 ^ (la + 1) * 2 ^ (- (L + 1))) as Q by (rewrite <- pw2_add by lia; f_equal; lia).
      pose proof (pw2 (- (L + 1)) ltac:(lia)). nia.
Qed.

Definition floor_log2 (a b : Z) : Z :=
  let L := Z.log2 a - Z.log2 b in
  let ge := if 0 <=? L then Z.shiftl b L <=? a else b <=? Z.shiftl a (- L) in
  if ge then L else L - 1.

Lemma floor_log2_spec a b : 0 < a -> 0 < b -> rge a b (floor_log2 a b) /\ rlt a b (floor_log2 a b + 1).
Proof.
  intros Ha Hb. destruct (log2_ratio a b Ha Hb) as [G Lt]. cbn zeta in G, Lt. unfold floor_log2. cbn zeta.
  set (L := Z.log2 a - Z.log2 b) in *.
  destruct (0 <=? L) eqn:E.
  - rewrite Z.shiftl_mul_pow2 by lia. destruct (b * 2 ^ L <=? a) eqn:T.
    + split; [unfold rge; rewrite E; lia|exact Lt].
    + split; [exact G|]. replace (L - 1 + 1) with L by lia. unfold rlt. rewrite E. lia.
  - rewrite Z.shiftl_mul_pow2 by lia. destruct (b <=? a * 2 ^ (- L)) eqn:T.
    + split; [unfold rge; rewrite E; lia|exact Lt].
    + split; [exact G|]. replace (L - 1 + 1) with L by lia. unfold rlt. rewrite E. lia.
Qed.

(* ---------------------------------------------------------------- the rounding step of nearest_pos at the common scale *)
Definition np_E (a b : Z) : Z := Z.max (floor_log2 a b - 52) (-1074).
Definition np_m (a b : Z) : Z :=
  let E := np_E a b in if 0 <=? E then rhe a (Z.shiftl b E) else rhe (Z.shiftl a (- E)) b.

Lemma nearest_pos_unfold a b :
  nearest_pos a b = if Z.shiftl 1 (1024 + 1074) <=? Z.shiftl (np_m a b) (np_E a b + 1074) then None else Some (np_m a b, np_E a b).
Proof. reflexivity. Qed.

(* X = a*2^1076, U = 2^(E+1076)*b (one unit in the last place): 2|X - m U| <= U, a tie only for even m *)
Lemma np_half a b : 0 < a -> 0 < b ->
  let E := np_E a b in let m := np_m a b in
  let X := a * 2 ^ 1076 in let U := 2 ^ (E + 1076) * b in
  2 * Z.abs (X - m * U) <= U /\ (2 * Z.abs (X - m * U) = U -> Z.even m = true) /\ 0 <= m.
Proof.
  intros Ha Hb. cbn zeta. unfold np_m. cbn zeta. set (E := np_E a b).
  assert (-1074 <= E) as HE by (unfold E, np_E; lia).
  destruct (0 <=? E) eqn:S.
  - rewrite Z.shiftl_mul_pow2 by lia. pose proof (pw2 E ltac:(lia)) as PE. pose proof (pw2 1076 ltac:(lia)) as PX.
    set (D := b * 2 ^ E). assert (0 < D) as PD by (unfold D; nia).
    destruct (rhe_half a D PD) as [H1 H2]. set (m := rhe a D) in *.
    assert (0 <= m) as M0. { destruct (rhe_bounds a D PD) as [B _]. pose proof (Z.div_pos a D ltac:(lia) PD). fold m in B. lia. }
    assert (2 ^ (E + 1076) * b = D * 2 ^ 1076) as QU by (unfold D; rewrite pw2_add by lia; ring).
    rewrite QU. replace (a * 2 ^ 1076 - m * (D * 2 ^ 1076)) with ((a - m * D) * 2 ^ 1076) by ring.
    rewrite Z.abs_mul. rewrite (Z.abs_eq (2 ^ 1076)) by lia.
    split; [nia|]. split; [intros Q; apply H2; nia|exact M0].
  - rewrite Z.shiftl_mul_pow2 by lia. pose proof (pw2 (- E) ltac:(lia)) as PE. pose proof (pw2 (E + 1076) ltac:(lia)) as PT.
    set (N := a * 2 ^ (- E)). destruct (rhe_half N b Hb) as [H1 H2]. set (m := rhe N b) in *.
    assert (0 <= m) as M0. { destruct (rhe_bounds N b Hb) as [B _]. pose proof (Z.div_pos N b ltac:(unfold N; nia) Hb). fold m in B. lia. }
    assert (a * 2 ^ 1076 = N * 2 ^ (E + 1076)) as QX.
    { unfold N. rewrite <- Z.mul_assoc. rewrite <- pw2_add by lia. f_equal. f_equal. lia. }
    rewrite QX. replace (N * 2 ^ (E + 1076) - m * (2 ^ (E + 1076) * b)) with ((N - m * b) * 2 ^ (E + 1076)) by ring.
    rewrite Z.abs_mul. rewrite (Z.abs_eq (2 ^ (E + 1076))) by lia.
    split; [nia|]. split; [intros Q; apply H2; nia|exact M0].
Qed.

(* the binade: 2^52 U <= X < 2^53 U when the exponent is not clamped; X < 2^52 U (only) when it is clamped to -1074 *)
Lemma np_binade a b : 0 < a -> 0 < b ->
  let E := np_E a b in let X := a * 2 ^ 1076 in let U := 2 ^ (E + 1076) * b in
  (E = floor_log2 a b - 52 /\ 2 ^ 52 * U <= X < 2 ^ 53 * U) \/ (E = -1074 /\ X < 2 ^ 52 * U).
Proof.
  intros Ha Hb. cbn zeta. destruct (floor_log2_spec a b Ha Hb) as [G L]. unfold np_E. set (f := floor_log2 a b) in *.
  destruct (Z_le_gt_dec (-1074) (f - 52)) as [Q|Q].
  - left. rewrite Z.max_l by lia. split; [reflexivity|].
    apply (rge_unif a b f ltac:(lia)) in G. apply (rlt_unif a b (f + 1) ltac:(lia)) in L.
    replace (f - 52 + 1076) with (f + 1024) by lia.
    assert (2 ^ (f + 1076) = 2 ^ 52 * 2 ^ (f + 1024)) as Q1 by (rewrite <- pw2_add by lia; f_equal; lia).
    assert (2 ^ (f + 1 + 1076) = 2 ^ 53 * 2 ^ (f + 1024)) as Q2 by (rewrite <- pw2_add by lia; f_equal; lia).
    rewrite Q1 in G. rewrite Q2 in L. split; nia.
  - right. rewrite Z.max_r by lia. split; [reflexivity|].
    pose proof (rlt_low a b (f + 1) ltac:(lia) Hb ltac:(lia) L) as R.
    replace (-1074 + 1076) with 2 by lia. change (2 ^ 2) with 4. change (2 ^ 54) with (2 ^ 52 * 4) in R. nia.
Qed.

Lemma np_m_range a b : 0 < a -> 0 < b ->
  let E := np_E a b in let m := np_m a b in
  0 <= m <= 2 ^ 53 /\ (2 ^ 52 <= m \/ E = -1074) /\ (E = -1074 -> a * 2 ^ 1076 < 2 ^ 52 * (2 ^ (E + 1076) * b) -> m <= 2 ^ 52).
Proof.
  intros Ha Hb. cbn zeta. destruct (np_half a b Ha Hb) as [H [_ M0]]. cbn zeta in H, M0.
  destruct (np_binade a b Ha Hb) as [[EQ [B1 B2]]|[EQ B2]]; cbn zeta in *.
  - set (E := np_E a b) in *. set (m := np_m a b) in *.
    assert (-1074 <= E) as HE by (unfold E, np_E; lia).
    pose proof (pw2 (E + 1076) ltac:(lia)) as PT. set (U := 2 ^ (E + 1076) * b) in *. assert (0 < U) as PU by (unfold U; nia).
    set (X := a * 2 ^ 1076) in *. change (2 ^ 52) with 4503599627370496 in *. change (2 ^ 53) with 9007199254740992 in *.
    split; [split; [exact M0|nia]|]. split; [left; nia|]. intros _ C. nia.
  - set (E := np_E a b) in *. set (m := np_m a b) in *.
    pose proof (pw2 (E + 1076) ltac:(lia)) as PT. set (U := 2 ^ (E + 1076) * b) in *. assert (0 < U) as PU by (unfold U; nia).
    set (X := a * 2 ^ 1076) in *. change (2 ^ 52) with 4503599627370496 in *. change (2 ^ 53) with 9007199254740992 in *.
    split; [split; [exact M0|nia]|]. split; [right; exact EQ|]. intros _ C. nia.
Qed.

(* ---------------------------------------------------------------- nearest_pos meets the midpoint specification *)
Definition canon_of (m E : Z) : Z * Z := if m =? 2 ^ 53 then (2 ^ 52, E + 1) else (m, E).

Lemma nearest_pos_spec a b : 0 < a -> 0 < b ->
  match nearest_pos a b with
  | Some (m, E) =>
      let '(M, E') := canon_of m E in
      canonical M E' = true /\
      (a * 2 ^ 1076 < hiB M E' * b \/ (a * 2 ^ 1076 = hiB M E' * b /\ Z.even M = true)) /\
      (loB M E' * b < a * 2 ^ 1076 \/ (a * 2 ^ 1076 = loB M E' * b /\ Z.even M = true))
  | None => B (2 ^ 54 - 1) 970 * b <= a * 2 ^ 1076
  end.
Proof.
  intros Ha Hb. rewrite nearest_pos_unfold.
  destruct (np_half a b Ha Hb) as [H [TIE M0]]. pose proof (np_binade a b Ha Hb) as BIN. destruct (np_m_range a b Ha Hb) as [[_ M53] [MLO MCL]].
  cbn zeta in *. set (E := np_E a b) in *. set (m := np_m a b) in *.
  assert (-1074 <= E) as HE by (unfold E, np_E; lia).
  destruct (pow2_split E HE) as [P4 [P2 PQ]].
  rewrite P4 in H, TIE, BIN, MCL. set (Q := 2 ^ (E + 1074)) in *.
  assert (0 < Q * b) as PQb by nia. set (X := a * 2 ^ 1076) in *.
  change (2 ^ 52) with 4503599627370496 in *. change (2 ^ 53) with 9007199254740992 in *.
  rewrite !Z.shiftl_mul_pow2 by lia. rewrite Z.mul_1_l. fold Q.
  destruct (2 ^ (1024 + 1074) <=? m * Q) eqn:OV.
  - (* overflow: m * 2^(E+1074) >= 2^2098 *)
    apply Z.leb_le in OV. unfold B. change (2 ^ 54 - 1) with 18014398509481983. change (970 + 1076) with 2046.
    change (1024 + 1074) with 2098 in OV.
    assert (4503599627370496 <= m) as MN.
    { destruct MLO as [?|EQ]; [assumption|]. exfalso. unfold Q in OV. rewrite EQ in OV. change (2 ^ (-1074 + 1074)) with 1 in OV.
      assert (9007199254740992 < 2 ^ 2098) by (vm_compute; reflexivity). lia. }
    assert (2 ^ 2045 <= Q) as QL.
    { assert (2 ^ 2098 = 9007199254740992 * 2 ^ 2045) as R by (vm_compute; reflexivity). nia. }
    assert (2 ^ 2046 = 2 * 2 ^ 2045) as R1 by (vm_compute; reflexivity). rewrite R1.
    set (W := 2 ^ 2045) in *. assert (0 < W) by (unfold W; apply pw2; lia).
    (* X >= (2m-1) * 2Q b always; X >= 4 m Q b at the binade start *)
    destruct BIN as [[_ [B1 _]]|[EQ _]]; [|exfalso; unfold Q in OV; rewrite EQ in OV; change (2 ^ (-1074 + 1074)) with 1 in OV;
      assert (9007199254740992 < 2 ^ 2098) by (vm_compute; reflexivity); lia].
    destruct (Z.eq_dec m 4503599627370496) as [EM|NM].
    + (* m = 2^52: then Q >= 2^2046, and X >= 2^52 * 4Q b *)
      rewrite EM in *. assert (2 * W <= Q) by (assert (2 ^ 2098 = 4503599627370496 * (2 * W)) by (unfold W; vm_compute; reflexivity); nia).
      nia.
    + assert (4503599627370497 <= m) by lia.
      assert (X >= (2 * m - 1) * (2 * (Q * b))) as XL by lia.
      destruct (Z_le_gt_dec (2 * W) Q) as [QB|QS].
      * assert ((2 * m - 1) * (2 * (Q * b)) >= 9007199254740993 * (2 * (2 * W * b))) by nia. nia.
      * (* Q = 2^2045 exactly would need m >= 2^53 *)
        assert (Q = W) as QW.
        { assert (E + 1074 <= 2045) as EL.
          { destruct (Z_le_gt_dec (E + 1074) 2045) as [?|G]; [assumption|]. exfalso.
            assert (2 ^ 2046 <= Q) by (unfold Q; apply pw2_le; lia). lia. }
          assert (Q <= W) by (unfold Q, W; apply pw2_le; lia). lia. }
        assert (2 ^ 2098 = 9007199254740992 * W) as R2 by (unfold W; vm_compute; reflexivity).
        assert (9007199254740992 * W <= m * W) as OV' by (rewrite <- R2; rewrite <- QW; exact OV).
        assert (9007199254740992 <= m) as MG by (apply (proj2 (Z.mul_le_mono_pos_r 9007199254740992 m W ltac:(lia))); exact OV').
        assert (m = 9007199254740992) as EM by lia. rewrite EM, QW in XL.
        replace (18014398509481983 * (2 * W) * b) with (18014398509481983 * (2 * (W * b))) by ring. lia.
  - apply Z.leb_gt in OV. change (1024 + 1074) with 2098 in OV. unfold canon_of. change (2 ^ 53) with 9007199254740992.
    destruct (m =? 9007199254740992) eqn:CM.
    + (* the rounding carried into the next binade *)
      assert (m = 9007199254740992) as EM by lia. rewrite EM in *. change (2 ^ 52) with 4503599627370496.
      destruct BIN as [[_ [_ B2]]|[EQ B2]]; [|exfalso; specialize (MCL EQ B2); lia].
      assert (E + 1 <= 971) as E971.
      { destruct (Z_le_gt_dec (E + 1) 971) as [?|G]; [assumption|]. exfalso.
        assert (2 ^ 2045 <= Q) by (unfold Q; apply pw2_le; lia).
        assert (2 ^ 2098 = 9007199254740992 * 2 ^ 2045) as R by (vm_compute; reflexivity). nia. }
      assert (canonical 4503599627370496 (E + 1) = true) as C by (unfold canonical; change (2 ^ 52) with 4503599627370496; change (2 ^ 53) with 9007199254740992; lia).
      split; [exact C|].
      rewrite (grid_hi _ (E + 1)) by lia. rewrite (grid_lo _ (E + 1)) by lia. change (2 ^ 52) with 4503599627370496.
      replace ((4503599627370496 =? 4503599627370496) && (-1074 <? E + 1)) with true by (symmetry; apply andb_true_iff; split; lia).
      replace (E + 1 + 1074) with (E + 1074 + 1) by lia. rewrite (pw2_add (E + 1074) 1) by lia. change (2 ^ 1) with 2. fold Q.
      split; [left; nia|].
      destruct (Z.eq_dec (2 * Z.abs (X - 9007199254740992 * (4 * Q * b))) (4 * Q * b)) as [T|NT].
      * right. split; [nia|reflexivity].
      * left. nia.
    + assert (m < 9007199254740992) as ML by lia.
      assert (E <= 971) as E971.
      { destruct (Z_le_gt_dec E 971) as [?|G]; [assumption|]. exfalso.
        assert (4503599627370496 <= m) by lia.
        assert (2 ^ 2046 <= Q) by (unfold Q; apply pw2_le; lia).
        assert (2 ^ 2098 = 4503599627370496 * 2 ^ 2046) as R by (vm_compute; reflexivity). nia. }
      assert (canonical m E = true) as C.
      { unfold canonical. change (2 ^ 52) with 4503599627370496; change (2 ^ 53) with 9007199254740992.
        destruct MLO as [?|EQ]; [lia|]. destruct (Z.eq_dec m 0); lia. }
      split; [exact C|].
      rewrite (grid_hi m E) by lia. rewrite (grid_lo m E) by lia. change (2 ^ 52) with 4503599627370496. fold Q.
      split.
      * destruct (Z.eq_dec X (4 * (m * Q) * b + 2 * Q * b)) as [T|NT].
        -- right. split; [lia|]. apply TIE. nia.
        -- left. nia.
      * destruct ((m =? 4503599627370496) && (-1074 <? E)) eqn:BD.
        -- (* binade start: the lower neighbour is half as far; X >= 2^52 U *)
           left. assert (m = 4503599627370496 /\ -1074 < E) as [EM HB] by lia.
           destruct BIN as [[_ [B1 _]]|[EQ _]]; [|lia]. rewrite EM in *. nia.
        -- destruct (Z.eq_dec X (4 * (m * Q) * b - 2 * Q * b)) as [T|NT].
           ++ right. split; [lia|]. apply TIE. nia.
           ++ left. nia.
Qed.

(* ---------------------------------------------------------------- Corr/C14.v nearest_double = round_dec, by value *)
Lemma bin_eqb_refl m E : bin_eqb m E m E = true.
Proof. unfold bin_eqb. rewrite Z.min_id. apply Z.eqb_refl. Qed.
Lemma bin_eqb_carry s E : bin_eqb (s * 2 ^ 53) E (s * 2 ^ 52) (E + 1) = true.
Proof.
  unfold bin_eqb. rewrite Z.min_l by lia. replace (E - E) with 0 by lia. replace (E + 1 - E) with 1 by lia.
  rewrite !Z.shiftl_mul_pow2 by lia. apply Z.eqb_eq. change (2 ^ 53) with (2 ^ 52 * 2 ^ 1). ring.
Qed.

Lemma nearest_double_is_round_dec d : ofl_eqb (Some (C14.nearest_double d)) (fl_of_dbl (round_dec d)) = true.
Proof.
  unfold C14.nearest_double, round_dec. set (m0 := dint d). set (e := dexp d).
  destruct (Z.abs m0 =? 0) eqn:Z0.
  - (* zero *)
    assert (m0 = 0) as -> by lia.
    assert (round_dbl 0 e = DFin false 0 (-1074)) as R.
    { symmetry. apply nearest_double_iff. cbn [SimSpec.nearest_double]. change (0 <? 0) with false. cbn [Bool.eqb andb]. change (Z.abs 0) with 0.
      apply near_abs_intro; [reflexivity| |]; cbn zeta; change (Z.abs 0) with 0; pose proof (scale10_den_pos 0 e) as Pb;
        assert (fst (scale10 0 e) = 0) as F0 by (unfold scale10; destruct (0 <=? e); cbn [fst]; lia); rewrite F0.
      - left. assert (0 < hiB 0 (-1074)) by (vm_compute; reflexivity). nia.
      - left. assert (loB 0 (-1074) < 0) by (vm_compute; reflexivity). nia. }
    rewrite R. cbn [fl_of_dbl ofl_eqb fl_eqb]. reflexivity.
  - set (c := Z.abs m0) in *. assert (0 < c) as Pc by lia.
    (* both sides work on the fraction scale10 c e *)
    assert ((if 0 <=? e then nearest_pos (c * pow10 e) 1 else nearest_pos c (pow10 (- e))) =
            nearest_pos (fst (scale10 c e)) (snd (scale10 c e))) as NP.
    { unfold scale10. rewrite !pow10_spec. destruct (0 <=? e); reflexivity. }
    rewrite NP. pose proof (scale10_den_pos c e) as Pb.
    assert (0 < fst (scale10 c e)) as Pa.
    { unfold scale10. destruct (0 <=? e) eqn:E; cbn [fst]; [|exact Pc]. pose proof (C17NearestProofs.p10_pos e ltac:(lia)). nia. }
    pose proof (nearest_pos_spec _ _ Pa Pb) as S.
    destruct (nearest_pos (fst (scale10 c e)) (snd (scale10 c e))) as [[m E]|].
    + assert (round_dbl m0 e = DFin (m0 <? 0) (fst (canon_of m E)) (snd (canon_of m E))) as R.
      { symmetry. apply nearest_double_iff. cbn [SimSpec.nearest_double]. rewrite Bool.eqb_reflx. cbn [andb]. fold c.
        destruct (canon_of m E) as [M E'] eqn:CO. cbn [fst snd]. destruct S as [C [HI LO]]. apply near_abs_intro; assumption. }
      rewrite R. cbn [fl_of_dbl ofl_eqb fl_eqb]. unfold canon_of. destruct (m =? 2 ^ 53) eqn:CM; cbn [fst snd].
      * assert (m = 2 ^ 53) as -> by lia. destruct (m0 <? 0).
        -- replace (- 2 ^ 53) with ((-1) * 2 ^ 53) by ring. replace (- 2 ^ 52) with ((-1) * 2 ^ 52) by ring. apply bin_eqb_carry.
        -- replace (2 ^ 53) with (1 * 2 ^ 53) at 1 by ring. replace (2 ^ 52) with (1 * 2 ^ 52) by ring. apply bin_eqb_carry.
      * apply bin_eqb_refl.
    + assert (round_dbl m0 e = DInf (m0 <? 0)) as R.
      { symmetry. apply nearest_double_iff. cbn [SimSpec.nearest_double]. rewrite Bool.eqb_reflx. cbn [andb]. fold c.
        rewrite cmp_dec_bin_norm by lia.
        destruct (Z.compare_spec (fst (scale10 c e) * 2 ^ 1076) (B (2 ^ 54 - 1) 970 * snd (scale10 c e))); try reflexivity. lia. }
      rewrite R. cbn [fl_of_dbl ofl_eqb fl_eqb]. apply Bool.eqb_reflx.
Qed.
