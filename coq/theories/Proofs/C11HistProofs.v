(* Proofs/C11HistProofs.v — C11, export histories over mutable ExternalModule objects (Model/C11History.v). *)
Require Import Hdl21.Base.PyInt Hdl21.Base.Design Hdl21.Base.Package Hdl21.Base.Dec Hdl21.Model.C11RoundTrip Hdl21.Proofs.C11Proofs.
Require Import Hdl21.Model.C11Share Hdl21.Proofs.C11ShareProofs Hdl21.Model.C11History.
Require Import Hdl21Gen.C11Maps.
From Coq Require Import String.
Open Scope string_scope.
Open Scope Z_scope.

(* ------------------------------------------------------------------------------------------ equality of declarations *)
Lemma pair_sz_eq : forall x y : name * Z, pair_eqb String.eqb Z.eqb x y = true -> x = y.
Proof.
  intros [a b] [c d]. unfold pair_eqb. cbn [fst snd]. intros H. apply andb_true_iff in H. destruct H as [H1 H2].
  apply String.eqb_eq in H1. apply Z.eqb_eq in H2. rewrite H1, H2. reflexivity.
Qed.

Lemma pair_ss_eq : forall x y : name * string, pair_eqb String.eqb String.eqb x y = true -> x = y.
Proof.
  intros [a b] [c d]. unfold pair_eqb. cbn [fst snd]. intros H. apply andb_true_iff in H. destruct H as [H1 H2].
  apply String.eqb_eq in H1. apply String.eqb_eq in H2. rewrite H1, H2. reflexivity.
Qed.

Lemma c11ext_eqb_eq a b : c11ext_eqb a b = true -> a = b.
Proof.
  unfold c11ext_eqb. intros H.
  apply andb_true_iff in H. destruct H as [H H5]. apply andb_true_iff in H. destruct H as [H H4].
  apply andb_true_iff in H. destruct H as [H H3]. apply andb_true_iff in H. destruct H as [H1 H2].
  apply String.eqb_eq in H1. apply String.eqb_eq in H2. apply String.eqb_eq in H5.
  apply (list_eqb_eq _ pair_sz_eq) in H3. apply (list_eqb_eq _ pair_ss_eq) in H4.
  destruct a, b. cbn in *. subst. reflexivity.
Qed.

Lemma list_eqb_refl {A} (f : A -> A -> bool) : (forall x, f x x = true) -> forall l, list_eqb f l l = true.
Proof. intros Hf. induction l as [|x l IH]; simpl; [reflexivity|]. rewrite Hf, IH. reflexivity. Qed.

Lemma c11ext_eqb_refl a : c11ext_eqb a a = true.
Proof.
  unfold c11ext_eqb. rewrite !String.eqb_refl. cbn [andb].
  rewrite (list_eqb_refl (pair_eqb String.eqb Z.eqb)), (list_eqb_refl (pair_eqb String.eqb String.eqb)); [reflexivity| |].
  - intros [x y]. unfold pair_eqb. cbn [fst snd]. rewrite !String.eqb_refl. reflexivity.
  - intros [x y]. unfold pair_eqb. cbn [fst snd]. rewrite String.eqb_refl, Z.eqb_refl. reflexivity.
Qed.

(* ------------------------------------------------------------------------------------------ the by-name table *)
Lemma find_decl_In d ds d' : find_decl d ds = Some d' -> In d' ds.
Proof.
  induction ds as [|x ds IH]; simpl; [discriminate|]. destruct (same_decl_name x d).
  - intros H. inversion H. left. reflexivity.
  - intros H. right. apply IH. exact H.
Qed.

Lemma nodup_app_one d ds : nodup_ext_names ds = true -> find_decl d ds = None -> nodup_ext_names (ds ++ [d]) = true.
Proof.
  induction ds as [|x ds IH]; [reflexivity|]. cbn [nodup_ext_names find_decl app]. intros H.
  apply andb_true_iff in H. destruct H as [H1 H2]. destruct (same_decl_name x d) eqn:E; [discriminate|]. intros F.
  apply andb_true_iff. split; [|apply IH; assumption].
  rewrite existsb_app. apply negb_true_iff in H1. rewrite H1. cbn [existsb orb].
  unfold same_decl_name in E. rewrite E. reflexivity.
Qed.

(* ------------------------------------------------------------------------------------------ one export, nothing remembered *)
Definition inv (hp : heap) (ids : list nat) (ds : list c11ext) : Prop :=
  (forall d, In d ds -> exists id o, In id ids /\ nth_error hp id = Some o /\ decl_of o = Ok d) /\
  (forall id, In id ids -> exists o d, nth_error hp id = Some o /\ decl_of o = Ok d /\ In d ds) /\
  nodup_ext_names ds = true.

Lemma existsb_nat_In id ids : existsb (Nat.eqb id) ids = true -> In id ids.
Proof. intros H. apply existsb_exists in H. destruct H as [x [Hx E]]. apply Nat.eqb_eq in E. subst. exact Hx. Qed.

Lemma export_ext_fresh_step hp ids ds id ids' ds' m' :
  export_ext unit decl_fresh hp (ids, ds, tt) id = Ok (ids', ds', m') -> inv hp ids ds ->
  inv hp ids' ds' /\ In id ids' /\ (forall i, In i ids -> In i ids') /\ (forall i, In i ids' -> i = id \/ In i ids).
Proof.
  unfold export_ext. destruct (existsb (Nat.eqb id) ids) eqn:Eex.
  - intros H I. inversion H; subst. apply existsb_nat_In in Eex. repeat split; try apply I; auto.
  - destruct (nth_error hp id) as [o|] eqn:En; cbn [ofopt bind]; [|discriminate].
    unfold decl_fresh. destruct (decl_of o) as [d|e] eqn:Ed; cbn [bind fst snd]; [|discriminate].
    destruct (find_decl d ds) as [d'|] eqn:Ef.
    + destruct (c11ext_eqb d' d) eqn:Eq; [|discriminate]. intros H I. inversion H; subst ids' ds' m'. clear H.
      apply c11ext_eqb_eq in Eq. subst d'. apply find_decl_In in Ef. destruct I as [I1 [I2 I3]].
      split; [|split; [left; reflexivity|split; [intros i Hi; right; exact Hi|intros i [Hi|Hi]; [left; symmetry; exact Hi|right; exact Hi]]]].
      split; [|split; [|exact I3]].
      * intros x Hx. destruct (I1 x Hx) as [i [o' [A [B C]]]]. exists i, o'. split; [right; exact A|split; assumption].
      * intros i [Hi|Hi]; [subst i; exists o, d; repeat split; assumption|]. apply I2. exact Hi.
    + intros H I. inversion H; subst ids' ds' m'. clear H. destruct I as [I1 [I2 I3]].
      split; [|split; [left; reflexivity|split; [intros i Hi; right; exact Hi|intros i [Hi|Hi]; [left; symmetry; exact Hi|right; exact Hi]]]].
      split; [|split; [|apply nodup_app_one; assumption]].
      * intros x Hx. apply in_app_or in Hx. destruct Hx as [Hx|[Hx|[]]].
        -- destruct (I1 x Hx) as [i [o' [A [B C]]]]. exists i, o'. split; [right; exact A|split; assumption].
        -- subst x. exists id, o. split; [left; reflexivity|split; assumption].
      * intros i [Hi|Hi].
        -- subst i. exists o, d. split; [exact En|split; [exact Ed|apply in_or_app; right; left; reflexivity]].
        -- destruct (I2 i Hi) as [o' [x [A [B C]]]]. exists o', x. split; [exact A|split; [exact B|apply in_or_app; left; exact C]].
Qed.

Lemma export_exts_fresh hp uses : forall ids ds ids' ds' m',
  export_exts unit decl_fresh hp (ids, ds, tt) uses = Ok (ids', ds', m') -> inv hp ids ds ->
  inv hp ids' ds' /\ (forall i, In i ids \/ In i uses -> In i ids') /\ (forall i, In i ids' -> In i ids \/ In i uses).
Proof.
  induction uses as [|id r IH]; intros ids ds ids' ds' m'.
  - cbn [export_exts]. intros H I. inversion H; subst. split; [exact I|]. split; [intros i [Hi|[]]; exact Hi|intros i Hi; left; exact Hi].
  - cbn [export_exts]. destruct (export_ext unit decl_fresh hp (ids, ds, tt) id) as [[[ids1 ds1] m1]|e] eqn:E; cbn [bind]; [|discriminate].
    destruct m1. intros H I. destruct (export_ext_fresh_step _ _ _ _ _ _ _ E I) as [I1 [A [B C]]].
    destruct (IH _ _ _ _ _ H I1) as [I2 [D F]]. split; [exact I2|]. split.
    + intros i [Hi|[Hi|Hi]]; apply D; [left; apply B; exact Hi|subst i; left; exact A|right; exact Hi].
    + intros i Hi. destruct (F i Hi) as [G|G]; [|right; right; exact G]. destruct (C i G) as [G'|G']; [right; left; symmetry; exact G'|left; exact G'].
Qed.

Theorem fresh_export_current hp uses ds m : export_one unit decl_fresh hp tt uses = Ok (ds, m) -> decls_current hp uses ds.
Proof.
  unfold export_one. destruct (export_exts unit decl_fresh hp ([], [], tt) uses) as [[[ids' ds'] m']|e] eqn:E; cbn [bind fst snd]; [|discriminate].
  intros H. inversion H; subst ds m. clear H.
  assert (I0 : inv hp [] []) by (split; [intros d []|split; [intros i []|reflexivity]]).
  destruct (export_exts_fresh _ _ _ _ _ _ _ E I0) as [[I1 [I2 I3]] [A B]].
  split; [|split; [|exact I3]].
  - intros d Hd. destruct (I1 d Hd) as [i [o [X [Y Z]]]]. exists i, o. split; [|split; assumption].
    destruct (B i X) as [[]|G]. exact G.
  - intros i Hi. apply I2. apply A. right. exact Hi.
Qed.

(* ------------------------------------------------------------------------------------------ histories, nothing remembered *)
(* what an observing step returns, as a function of the heap it sees and of nothing else *)
Definition observe (hp : heap) (op : hop) : option (list c11ext) :=
  match op with
  | HExport u => match export_one unit decl_fresh hp tt u with Ok dm => Some (fst dm) | Error _ => None end
  | HDecl k => match (o <- ofopt EMissing (nth_error hp k) ;; decl_of o) with Ok d => Some [d] | Error _ => None end
  | _ => None
  end.

Theorem fresh_history_independent : forall ops hp,
  run_hist unit decl_fresh hp tt ops = map (fun ho => observe (fst ho) (snd ho)) (heaps_seen hp ops).
Proof.
  induction ops as [|op r IH]; intros hp; [reflexivity|]. destruct op as [k mu|u|u|k]; cbn [run_hist heaps_seen].
  - destruct (mutate hp k mu); [apply IH|reflexivity].
  - cbn [map fst snd observe]. destruct (export_one unit decl_fresh hp tt u) as [[ds []]|e]; cbn [fst snd]; rewrite IH; reflexivity.
  - destruct (export_one unit decl_fresh hp tt u) as [[ds []]|e]; cbn [fst snd]; apply IH.
  - cbn [map fst snd observe]. destruct (nth_error hp k) as [o|]; cbn [ofopt bind].
    + unfold decl_fresh. destruct (decl_of o) as [d|e]; cbn [bind fst snd]; rewrite IH; reflexivity.
    + rewrite IH. reflexivity.
Qed.

Theorem fresh_history_current : forall ops hp n h u ds,
  nth_error (heaps_seen hp ops) n = Some (h, HExport u) ->
  nth_error (run_hist unit decl_fresh hp tt ops) n = Some (Some ds) -> decls_current h u ds.
Proof.
  intros ops hp n h u ds Hs Hr. rewrite fresh_history_independent in Hr.
  rewrite nth_error_map, Hs in Hr. cbn [option_map fst snd observe] in Hr.
  destruct (export_one unit decl_fresh h tt u) as [[ds' m]|e] eqn:E; [|discriminate].
  cbn [fst] in Hr. inversion Hr; subst ds'. destruct m. exact (fresh_export_current _ _ _ _ E).
Qed.

Theorem fresh_decl_current : forall ops hp n h k d,
  nth_error (heaps_seen hp ops) n = Some (h, HDecl k) ->
  nth_error (run_hist unit decl_fresh hp tt ops) n = Some (Some [d]) ->
  exists o, nth_error h k = Some o /\ decl_of o = Ok d.
Proof.
  intros ops hp n h k d Hs Hr. rewrite fresh_history_independent in Hr.
  rewrite nth_error_map, Hs in Hr. cbn [option_map fst snd observe] in Hr.
  destruct (nth_error h k) as [o|]; cbn [ofopt bind] in Hr; [|discriminate].
  destruct (decl_of o) as [d'|e] eqn:E; [|discriminate]. inversion Hr; subst d'. exists o. split; [reflexivity|exact E].
Qed.

(* ------------------------------------------------------------------------------------------ the boolean specification *)
Lemma decl_is_spec hp id d : decl_is hp id d = true <-> exists o, nth_error hp id = Some o /\ decl_of o = Ok d.
Proof.
  unfold decl_is. split.
  - destruct (nth_error hp id) as [o|]; [|discriminate]. destruct (decl_of o) as [d'|e] eqn:E; [|discriminate].
    intros H. apply c11ext_eqb_eq in H. subst d'. exists o. split; [reflexivity|exact E].
  - intros [o [A B]]. rewrite A, B. apply c11ext_eqb_refl.
Qed.

Theorem decls_current_b_spec hp uses ds : decls_current_b hp uses ds = true <-> decls_current hp uses ds.
Proof.
  unfold decls_current_b, decls_current. split.
  - intros H. apply andb_true_iff in H. destruct H as [H H3]. apply andb_true_iff in H. destruct H as [H1 H2].
    rewrite forallb_forall in H1, H2. split; [|split; [|exact H3]].
    + intros d Hd. specialize (H1 d Hd). apply existsb_exists in H1. destruct H1 as [id [A B]].
      apply decl_is_spec in B. destruct B as [o [B C]]. exists id, o. repeat split; assumption.
    + intros id Hid. specialize (H2 id Hid). apply existsb_exists in H2. destruct H2 as [d [A B]].
      apply decl_is_spec in B. destruct B as [o [B C]]. exists o, d. repeat split; assumption.
  - intros [H1 [H2 H3]]. rewrite H3, andb_true_r. apply andb_true_iff. split; apply forallb_forall.
    + intros d Hd. destruct (H1 d Hd) as [id [o [A [B C]]]]. apply existsb_exists. exists id. split; [exact A|].
      apply decl_is_spec. exists o. split; assumption.
    + intros id Hid. destruct (H2 id Hid) as [o [d [A [B C]]]]. apply existsb_exists. exists d. split; [exact C|].
      apply decl_is_spec. exists o. split; assumption.
Qed.

(* ------------------------------------------------------------------------------------------ a declaration cache keyed by identity *)
(* ... is indistinguishable from the tree's exporter as long as no object is mutated: the reason why single exports and
   histories over unchanged objects (all that the earlier streams and the test suite contain) cannot see it. *)
Definition memo_ok (hp : heap) (m : list (nat * c11ext)) : Prop :=
  forall id d, nassoc id m = Some d -> exists o, nth_error hp id = Some o /\ decl_of o = Ok d.

Definition agree {A B} (P : A -> B -> Prop) (r1 : result A) (r2 : result B) : Prop :=
  match r1, r2 with
  | Ok a, Ok b => P a b
  | Error _, Error _ => True
  | _, _ => False
  end.

Lemma decl_memo_agrees hp m id o : memo_ok hp m -> nth_error hp id = Some o ->
  agree (fun a b => fst a = fst b /\ memo_ok hp (snd a)) (decl_memo_id m id o) (decl_fresh tt id o).
Proof.
  intros Hm Ho. unfold decl_memo_id, decl_fresh. destruct (nassoc id m) as [d|] eqn:En.
  - destruct (Hm id d En) as [o' [A B]]. rewrite Ho in A. inversion A; subst o'. rewrite B. cbn [bind agree fst snd]. split; [reflexivity|exact Hm].
  - destruct (decl_of o) as [d|e] eqn:Ed; cbn [bind agree fst snd]; [|exact I]. split; [reflexivity|].
    intros id' d'. cbn [nassoc]. destruct (Nat.eqb id' id) eqn:E.
    + intros H. inversion H; subst d'. apply Nat.eqb_eq in E. subst id'. exists o. split; assumption.
    + apply Hm.
Qed.

Definition st_agree (hp : heap) (a : xstate (list (nat * c11ext))) (b : xstate unit) : Prop :=
  fst a = fst b /\ memo_ok hp (snd a).

Lemma export_ext_memo_agrees hp ids ds m id : memo_ok hp m ->
  agree (st_agree hp) (export_ext _ decl_memo_id hp (ids, ds, m) id) (export_ext unit decl_fresh hp (ids, ds, tt) id).
Proof.
  intros Hm. unfold export_ext. destruct (existsb (Nat.eqb id) ids).
  - cbn [agree]. split; [reflexivity|exact Hm].
  - destruct (nth_error hp id) as [o|] eqn:Ho; cbn [ofopt bind agree]; [|exact I].
    pose proof (decl_memo_agrees hp m id o Hm Ho) as A.
    destruct (decl_memo_id m id o) as [[d1 m1]|e1]; destruct (decl_fresh tt id o) as [[d2 []]|e2]; cbn [agree fst snd] in A; try contradiction; cbn [bind agree]; [|exact I].
    destruct A as [A1 A2]. subst d2. cbn [fst snd]. destruct (find_decl d1 ds) as [d'|].
    + destruct (c11ext_eqb d' d1); cbn [agree]; [|exact I]. split; [reflexivity|exact A2].
    + cbn [agree]. split; [reflexivity|exact A2].
Qed.

Lemma export_exts_memo_agrees hp uses : forall ids ds m, memo_ok hp m ->
  agree (st_agree hp) (export_exts _ decl_memo_id hp (ids, ds, m) uses) (export_exts unit decl_fresh hp (ids, ds, tt) uses).
Proof.
  induction uses as [|id r IH]; intros ids ds m Hm; cbn [export_exts].
  - cbn [agree]. split; [reflexivity|exact Hm].
  - pose proof (export_ext_memo_agrees hp ids ds m id Hm) as A.
    destruct (export_ext _ decl_memo_id hp (ids, ds, m) id) as [[[i1 d1] m1]|e1];
      destruct (export_ext unit decl_fresh hp (ids, ds, tt) id) as [[[i2 d2] []]|e2]; cbn [agree] in A; try contradiction; cbn [bind]; [|exact I].
    destruct A as [A1 A2]. cbn [fst snd] in A1, A2. inversion A1; subst i2 d2. apply IH. exact A2.
Qed.

Lemma export_one_memo_agrees hp uses m : memo_ok hp m ->
  agree (fun a b => fst a = fst b /\ memo_ok hp (snd a)) (export_one _ decl_memo_id hp m uses) (export_one unit decl_fresh hp tt uses).
Proof.
  intros Hm. unfold export_one. pose proof (export_exts_memo_agrees hp uses [] [] m Hm) as A.
  destruct (export_exts _ decl_memo_id hp ([], [], m) uses) as [[[i1 d1] m1]|e1];
    destruct (export_exts unit decl_fresh hp ([], [], tt) uses) as [[[i2 d2] []]|e2]; cbn [agree] in A; try contradiction; cbn [bind agree fst snd]; [|exact I].
  destruct A as [A1 A2]. cbn [fst snd] in A1, A2. inversion A1; subst. split; [reflexivity|exact A2].
Qed.

Definition no_mutation (ops : list hop) : bool := forallb (fun op => match op with HMut _ _ => false | _ => true end) ops.

Theorem memo_unseen_without_mutation : forall ops hp m, memo_ok hp m -> no_mutation ops = true ->
  run_hist _ decl_memo_id hp m ops = run_hist unit decl_fresh hp tt ops.
Proof.
  induction ops as [|op r IH]; intros hp m Hm Hn; [reflexivity|]. cbn [no_mutation forallb] in Hn. apply andb_true_iff in Hn. destruct Hn as [H1 H2].
  destruct op as [k mu|u|u|k]; [discriminate| | |]; cbn [run_hist].
  - pose proof (export_one_memo_agrees hp u m Hm) as A.
    destruct (export_one _ decl_memo_id hp m u) as [[d1 m1]|e1]; destruct (export_one unit decl_fresh hp tt u) as [[d2 []]|e2]; cbn [agree fst snd] in A; try contradiction; cbn [fst snd].
    + destruct A as [A1 A2]. subst d2. f_equal. apply IH; assumption.
    + f_equal. apply IH; assumption.
  - pose proof (export_one_memo_agrees hp u m Hm) as A.
    destruct (export_one _ decl_memo_id hp m u) as [[d1 m1]|e1]; destruct (export_one unit decl_fresh hp tt u) as [[d2 []]|e2]; cbn [agree fst snd] in A; try contradiction; cbn [fst snd].
    + destruct A as [A1 A2]. apply IH; assumption.
    + apply IH; assumption.
  - destruct (nth_error hp k) as [o|] eqn:Ho; cbn [ofopt bind].
    + pose proof (decl_memo_agrees hp m k o Hm Ho) as A.
      destruct (decl_memo_id m k o) as [[d1 m1]|e1]; destruct (decl_fresh tt k o) as [[d2 []]|e2]; cbn [agree fst snd] in A; try contradiction; cbn [fst snd].
      * destruct A as [A1 A2]. subst d2. f_equal. apply IH; assumption.
      * f_equal. apply IH; assumption.
    + f_equal. apply IH; assumption.
Qed.

(* ------------------------------------------------------------------------------------------ the seeded history *)
Definition cell3 : eobj :=
  {| eo_domain := "extlib"; eo_name := "cell3";
     eo_ports := [{| ep_name := "a"; ep_width := 1; ep_dir := "INPUT" |}; {| ep_name := "z"; ep_width := 1; ep_dir := "OUTPUT" |};
                  {| ep_name := "vss"; ep_width := 1; ep_dir := "NONE" |}];
     eo_spicetype := "SUBCKT" |}.
Definition vnw : eport := {| ep_name := "vnw"; ep_width := 1; ep_dir := "NONE" |}.
Definition well_tap_history : list hop := [HExport [0%nat]; HMut 0 (MAppend vnw); HExport [0%nat]].

(* ------------------------------------------------------------------------------------------ current declarations survive *)
(* an ExternalModule object the constructor accepts and the exporter can write: distinct port names, members of PortDir and
   of SpiceType *)
Definition obj_normal (o : eobj) : bool :=
  snodup (map ep_name (eo_ports o)) && forallb (fun p => smem (ep_dir p) portdir_names) (eo_ports o) &&
  smem (eo_spicetype o) spicetype_names.

Lemma smem_In s l : smem s l = true -> In s l.
Proof. unfold smem. intros H. apply existsb_exists in H. destruct H as [x [A B]]. apply String.eqb_eq in B. subst. exact A. Qed.
Lemma In_smem s l : In s l -> smem s l = true.
Proof. unfold smem. intros H. apply existsb_exists. exists s. split; [exact H|apply String.eqb_refl]. Qed.

Lemma dirs_exported : forallb (fun d => match export_dir d with Ok d' => smem d' direction_names | Error _ => true end) portdir_names = true.
Proof. vm_compute. reflexivity. Qed.
Lemma spicetypes_exported :
  forallb (fun s => match export_spicetype s with Ok s' => smem s' schema_spicetype_names | Error _ => true end) spicetype_names = true.
Proof. vm_compute. reflexivity. Qed.

Lemma export_ports_shape ports : forall ps,
  traverse (fun p => d <- export_dir (ep_dir p) ;; Ok (ep_name p, d)) ports = Ok ps ->
  forallb (fun p => smem (ep_dir p) portdir_names) ports = true ->
  map fst ps = map ep_name ports /\ forallb (fun p : name * string => smem (snd p) direction_names) ps = true.
Proof.
  induction ports as [|p r IH]; intros ps; cbn [traverse].
  - intros H _. inversion H. split; reflexivity.
  - destruct (export_dir (ep_dir p)) as [d|e] eqn:Ed; cbn [bind]; [|discriminate].
    destruct (traverse (fun p => d <- export_dir (ep_dir p) ;; Ok (ep_name p, d)) r) as [ps'|e]; cbn [bind]; [|discriminate].
    intros H F. inversion H; subst ps. cbn [forallb] in F. apply andb_true_iff in F. destruct F as [F1 F2].
    destruct (IH ps' eq_refl F2) as [A B]. cbn [map fst snd forallb]. rewrite A, B. split; [reflexivity|].
    apply smem_In in F1. pose proof dirs_exported as T. rewrite forallb_forall in T. specialize (T _ F1). rewrite Ed in T. rewrite T. reflexivity.
Qed.

Lemma forallb_smem_fst {B} (l : list (name * B)) names : map fst l = names -> forallb (fun p => smem (fst p) names) l = true.
Proof.
  intros E. apply forallb_forall. intros p Hp. apply In_smem. rewrite <- E. apply in_map. exact Hp.
Qed.

Lemma assoc_of_In {B} k (l : list (name * B)) : In k (map fst l) -> exists v, assoc k l = Some v.
Proof.
  induction l as [|[k' v'] l IH]; cbn [map fst In assoc]; [intros []|]. destruct (String.eqb k k') eqn:E.
  - intros _. exists v'. reflexivity.
  - intros [H|H]; [subst k'; rewrite String.eqb_refl in E; discriminate|apply IH; exact H].
Qed.

Lemma slist_eqb_same l : slist_eqb l l = true.
Proof. induction l as [|x l IH]; [reflexivity|]. cbn [slist_eqb]. rewrite String.eqb_refl, IH. reflexivity. Qed.

Theorem current_decl_normal o x : obj_normal o = true -> decl_of o = Ok x -> ext_normal x = true.
Proof.
  unfold obj_normal, decl_of. intros N. apply andb_true_iff in N. destruct N as [N N3]. apply andb_true_iff in N. destruct N as [N1 N2].
  destruct (export_spicetype (eo_spicetype o)) as [st|e] eqn:Es; cbn [bind]; [|discriminate].
  destruct (traverse (fun p => d <- export_dir (ep_dir p) ;; Ok (ep_name p, d)) (eo_ports o)) as [ps|e] eqn:Et; cbn [bind]; [|discriminate].
  intros H. inversion H; subst x. clear H. destruct (export_ports_shape _ _ Et N2) as [A B].
  assert (S : map fst (map (fun p => (ep_name p, ep_width p)) (eo_ports o)) = map ep_name (eo_ports o)) by (rewrite map_map; reflexivity).
  unfold ext_normal, ports_ok. cbn [cx_sigs cx_ports cx_spicetype]. rewrite S, A, N1, B. cbn [andb].
  rewrite andb_true_r. apply andb_true_iff. split; [apply andb_true_iff; split; [apply andb_true_iff; split|]|].
  - apply (forallb_smem_fst ps _ A).
  - apply forallb_forall. intros sw Hsw. unfold isp. destruct (assoc_of_In (fst sw) ps) as [v ->]; [|reflexivity].
    rewrite A, <- S. apply in_map. exact Hsw.
  - apply slist_eqb_same.
  - apply smem_In in N3. pose proof spicetypes_exported as T. rewrite forallb_forall in T. specialize (T _ N3). rewrite Es in T. exact T.
Qed.

(* the external-module part of every package the exporter returns over a heap of normal objects is a fixed point of the round trip *)
Theorem current_decls_roundtrip hp uses ds : forallb obj_normal hp = true -> decls_current hp uses ds ->
  forall d, In d ds -> rt_ext d = Ok d.
Proof.
  intros N [C _] d Hd. destruct (C d Hd) as [id [o [_ [A B]]]]. apply ext_roundtrip. apply (current_decl_normal o); [|exact B].
  rewrite forallb_forall in N. apply N. apply nth_error_In with id. exact A.
Qed.
