(* Proofs/C07EProofsFail.v — C08E: failing pass bodies of the concrete instance.
     err_at_stage    the error a module holds after k entries is the error of THE entry p < k whose body failed on it
     fail_at_unique  at most one entry fails on a module (after a failure no body runs on it again)
     in_failure_points  membership in the failure oracle handed to the machine of Model/C08PassFail.v *)
From Coq Require Import String.
Require Import Hdl21.Base.PyInt Hdl21.Base.Design Hdl21.Model.C01EElab Hdl21.Model.C02EPipeline Hdl21.Model.C07EConcrete
               Hdl21.Proofs.C07EProofsExt Hdl21.Proofs.C07EProofsInst.
Open Scope Z_scope.

Section Fail.
Variables (ck : bool) (xi : xinfo) (d : design) (m : nat) (m0 : module).
Hypothesis Hm : nth_error (d_mods d) m = Some m0.

Notation after k := (run_stages ck xi d m (eff_stages k) (cinit d m)).

Lemma after_S k : after (S k) = if PM.eff ccaches k then lift (stage_fn ck xi d k m) (after k) else after k.
Proof.
  rewrite eff_stages_S, run_stages_app. destruct (PM.eff ccaches k); [|reflexivity]. reflexivity.
Qed.

Lemma cc_err_lift f c : cc_err (lift f c) =
  match cc_err c with Some e => Some e | None => match f (cc_mod c) with Error e => Some e | Ok _ => None end end.
Proof. unfold lift. destruct (cc_err c) eqn:E; [exact E|]. destruct (f (cc_mod c)); reflexivity. Qed.

Lemma fail_at_S k : PM.eff ccaches k = true ->
  cc_err (after (S k)) = match cc_err (after k) with Some e => Some e | None => fail_at ck xi d m k end.
Proof.
  intros E. rewrite after_S, E, cc_err_lift. unfold fail_at. rewrite E. cbn [negb]. destruct (cc_err (after k)); reflexivity.
Qed.

Theorem err_at_stage : forall k e, cc_err (after k) = Some e <-> exists p, (p < k)%nat /\ fail_at ck xi d m p = Some e.
Proof.
  induction k as [|k IH]; intros e.
  - unfold eff_stages. cbn [seq filter run_stages fold_left]. unfold cinit. rewrite Hm. cbn [cok cc_err].
    split; [discriminate|intros [p [Hp _]]; lia].
  - destruct (PM.eff ccaches k) eqn:E.
    + rewrite (fail_at_S k E). destruct (cc_err (after k)) as [e'|] eqn:Ek.
      * split.
        -- intros H. inversion H; subst e'. destruct (proj1 (IH e) eq_refl) as [p [Hp Hf]]. exists p. split; [lia|exact Hf].
        -- intros [p [Hp Hf]]. destruct (Nat.eq_dec p k) as [->|Hne].
           ++ unfold fail_at in Hf. rewrite E, Ek in Hf. discriminate.
           ++ f_equal. assert (Some e' = Some e) as X; [|inversion X; reflexivity]. apply IH. exists p. split; [lia|exact Hf].
      * split.
        -- intros H. exists k. split; [lia|exact H].
        -- intros [p [Hp Hf]]. destruct (Nat.eq_dec p k) as [->|Hne]; [exact Hf|].
           assert (None = Some e) as X; [|discriminate]. apply IH. exists p. split; [lia|exact Hf].
    + rewrite after_S, E. rewrite IH. split; intros [p [Hp Hf]]; exists p; (split; [|exact Hf]); [lia|].
      destruct (Nat.eq_dec p k) as [->|Hne]; [unfold fail_at in Hf; rewrite E in Hf; discriminate|lia].
Qed.

Theorem fail_at_unique p p' e e' : fail_at ck xi d m p = Some e -> fail_at ck xi d m p' = Some e' -> p = p'.
Proof.
  assert (forall a b x y, (a < b)%nat -> fail_at ck xi d m a = Some x -> fail_at ck xi d m b = Some y -> False) as G.
  { intros a b x y Hab Ha Hb. assert (cc_err (after b) = Some x) as Hx by (apply err_at_stage; exists a; auto).
    unfold fail_at in Hb. destruct (negb (PM.eff ccaches b)); [discriminate|]. rewrite Hx in Hb. discriminate. }
  intros H1 H2. destruct (Nat.lt_trichotomy p p') as [L|[L|L]]; [exfalso; eapply G; eassumption|exact L|exfalso; eapply G; eassumption].
Qed.
End Fail.

Theorem in_failure_points_with enc ck xi d q m c : In (q, m, c) (failure_points_with enc ck xi d) <->
  exists p e, (m < Datatypes.length (d_mods d))%nat /\ (p < cP)%nat /\ fail_at ck xi d m p = Some e /\
              q = PM.cache_of ccaches p /\ c = enc p m e.
Proof.
  unfold failure_points_with. rewrite in_flat_map. split.
  - intros [m' [Hm' H]]. apply in_flat_map in H. destruct H as [p [Hp H]]. apply in_seq in Hm'. apply in_seq in Hp.
    destruct (fail_at ck xi d m' p) as [e|] eqn:E; [|destruct H]. destruct H as [H|[]]. inversion H; subst.
    exists p, e. repeat split; try lia. exact E.
  - intros [p [e [Hm [Hp [Hf [-> ->]]]]]]. exists m. split; [apply in_seq; lia|]. apply in_flat_map. exists p. split; [apply in_seq; lia|].
    rewrite Hf. left. reflexivity.
Qed.

(* ------------------------------------------------------------------------------------------ the machine of C08 on a written design *)
Require Hdl21.Model.C08PassFail.
Require Import Hdl21Gen.C08Passes.
Module PF := Hdl21.Model.C08PassFail.

(* the default pass list as Model/C08PassFail.v reads it: class identity = cache index, REWRITES_MODULES, sets _elaborated *)
Definition cpasses : list PF.pass :=
  map (fun e : string * nat * bool * bool * bool * string =>
         let '(_, idx, rw, mk, _, _) := e in {| PF.pid := idx; PF.prw := rw; PF.pmk := mk |}) c08_passes.

(* a call of elaborate (exporting = false) / to_proto (true) on modules `tops` of the written design d: the design graph of the
   concrete manager and, as failure oracle, the failure points of the concrete bodies *)
Definition ccall_with (enc : nat -> nat -> err -> Z) (ck : bool) (xi : xinfo) (d : design) (tops : list nat) (exporting : bool) : PF.call :=
  {| PF.c_kids := combine (seq 0 (Datatypes.length (d_mods d))) (ckids d); PF.c_passes := cpasses; PF.c_tops := tops;
     PF.c_fail := failure_points_with enc ck xi d; PF.c_export := exporting |}.
Definition ccall := ccall_with (fun _ _ e => err_code e).
