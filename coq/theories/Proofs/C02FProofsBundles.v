(* Proofs/C02FProofsBundles.v — the checked pipeline with Bundles (Model/C02FBundles.v):
     bundle_pipeline_inv / bundle_reject_complete   what it accepts passed every bundle check, its flattened design IS the
                                                    specification's member-wise lowering (C01G) and is a valid scalar design (C02F part A);
     *_rejected                                     a fault on a bundle / anonymous-bundle / instance-bundle connection, in ANY module,
                                                    on ANY instance (single, array, Pair), makes the whole pipeline fail. *)
From Coq Require Import String.
Require Import Hdl21.Base.PyInt Hdl21.Spec.PySlice Hdl21.Model.Slice Hdl21.Model.Resolve Hdl21.Base.Design
               Hdl21.Spec.WfDesign Hdl21.Base.Package Hdl21.Base.C01BDesign Hdl21.Spec.C01BWf Hdl21.Spec.C01GLower
               Hdl21.Model.BundleFlat Hdl21.Model.C01EElab Hdl21.Model.C01FElab Hdl21.Model.C01GBundlePasses
               Hdl21.Model.C02EPipeline Hdl21.Model.C02FPipeline Hdl21.Model.C02FBundles
               Hdl21.Proofs.BundleProofs Hdl21.Proofs.C01EProofsBase Hdl21.Proofs.C01EProofsPass
               Hdl21.Proofs.C01GProofsScopes Hdl21.Proofs.C01GProofsPasses Hdl21.Proofs.C01GProofsPairs
               Hdl21.Proofs.C02FProofsEnd.
Require Hdl21.Spec.BundleSpec.
Open Scope Z_scope.

(* ------------------------------------------------------------------------------------------ errors propagate *)
Lemma traverse_err {A B} (f : A -> result B) l x : In x l -> (exists e, f x = Error e) -> exists e, traverse f l = Error e.
Proof.
  induction l as [|y l IH]; intros Hin He; [destruct Hin|]. cbn [traverse]. destruct Hin as [->|Hin].
  - destruct He as [e ->]. cbn [bind]. eauto.
  - destruct (f y) as [b|e]; cbn [bind]; [|eauto]. destruct (IH Hin He) as [e ->]. cbn [bind]. eauto.
Qed.

Lemma all_ok_err {A} (f : A -> result unit) l x : In x l -> (exists e, f x = Error e) -> exists e, all_ok f l = Error e.
Proof. intros Hin He. unfold all_ok. destruct (traverse_err f l x Hin He) as [e ->]. cbn [bind]. eauto. Qed.

(* ------------------------------------------------------------------------------------------ what was accepted *)
Lemma bundle_pipeline_inv xi d p : checked_bundle_pipeline xi d = Ok p ->
  exists d1 d', ib_design d = Ok d1 /\ bundle_conntypes d1 = Ok tt /\ flat_design d1 = Ok d' /\ checked_pipeline2 xi d' = Ok p.
Proof.
  unfold checked_bundle_pipeline. intros H. apply bind_ok in H. destruct H as [d1 [H1 H]]. apply bind_ok in H. destruct H as [[] [H2 H]].
  apply bind_ok in H. destruct H as [d' [H3 H]]. exists d1, d'. auto.
Qed.

Theorem bundle_reject_complete xi d p : checked_bundle_pipeline xi d = Ok p ->
  exists d1 d', ib_design d = Ok d1 /\ no_pairs d1 = true /\ bundle_conntypes d1 = Ok tt /\ bundle_passes d = Ok d' /\
    (bp_wf d1 = true -> d' = lower_m fl_impl d1) /\
    elab_export_model2 xi d' = Ok p /\
    (given_e d' = true -> frag_f d' = true -> wf_design_reach d') /\
    (given_e d' = true -> frag_f d' = true -> all_used d' = true -> wf_design d' = Ok tt).
Proof.
  intros H. destruct (bundle_pipeline_inv xi d p H) as [d1 [d' [H1 [H2 [H3 H4]]]]]. exists d1, d'.
  split; [exact H1|]. split; [exact (ib_design_no_pairs d d1 H1)|]. split; [exact H2|].
  split; [unfold bundle_passes; rewrite H1; exact H3|]. split; [intros W; exact (flat_design_is_lower d1 d' W H3)|].
  split; [apply checked_pipeline2_elab; exact H4|]. split.
  - intros G F. exact (reject_complete2_reach xi d' p G F H4).
  - intros G F U. exact (reject_complete2 xi d' p G F U H4).
Qed.

Lemma checked_bundle_run_pipeline xi d : snd (checked_bundle_run xi d) = checked_bundle_pipeline xi d.
Proof.
  unfold checked_bundle_run, checked_bundle_pipeline. destruct (ib_design d) as [d1|e]; cbn [bind snd]; [|reflexivity].
  destruct (bundle_conntypes d1) as [[]|e]; cbn [bind snd]; [|reflexivity].
  destruct (flat_design d1) as [d'|e]; cbn [bind snd]; [|reflexivity]. apply checked_run2_pipeline.
Qed.

(* ------------------------------------------------------------------------------------------ to_anon: faults inside anonymous bundles *)
Section ToAnonErr.
Variables (d : bdesign) (m : bmodule) (own : list (string * BundleSpec.scope)).
Variable F : bexpr -> bool.
Hypothesis F_sx : forall x, F (BXSx x) = false.
Hypothesis F_ref : forall i p, F (BXRef i p) = false.
Hypothesis F_nc : forall s, F (BXNc s) = false.
Hypothesis F_nil : F (BXAnon []) = false.
Hypothesis F_cons : forall nb r, F (BXAnon (nb :: r)) = F (snd nb) || F (BXAnon r).
Hypothesis F_inst : forall b pre, F (BXInst b pre) = true -> exists e, resolve_ref m own b pre = Error e.

Lemma to_anon_err bx : F bx = true -> exists e, to_anon d m own bx = Error e.
Proof.
  induction bx as [x|b pre|ms IH|i p|s] using bexpr_ind'; intros H.
  - rewrite F_sx in H. discriminate.
  - destruct (F_inst b pre H) as [e He]. cbn [to_anon]. rewrite He. cbn [bind]. eauto.
  - induction IH as [|[n sub] r Hsub _ IHr].
    + rewrite F_nil in H. discriminate.
    + rewrite F_cons in H. cbn [snd] in *. cbn [to_anon]. apply orb_prop in H. destruct H as [H|H].
      * destruct (Hsub H) as [e He]. rewrite He. cbn [bind]. eauto.
      * destruct (IHr H) as [e He]. cbn [to_anon] in He. destruct (to_anon d m own sub) as [a|e']; cbn [bind]; [|eauto].
        match goal with
        | He : bind ?G _ = Error e |- context [bind ?G' _] => change G' with G; destruct G as [r'|e2]; cbn [bind] in *; [discriminate|eauto]
        end.
  - rewrite F_ref in H. discriminate.
  - rewrite F_nc in H. discriminate.
Qed.

(* a failing to_anon / resolve_ref makes the connection fail, whatever kind of port it sits on *)
Lemma flat_conn_err x c : F (snd c) = true -> exists e, flat_conn d m own x c = Error e.
Proof.
  intros H. pose proof (to_anon_err (snd c) H) as [e He]. unfold flat_conn.
  destruct (port_kind_of d (bi_of x) (fst c)) as [pk|e0]; cbn [bind]; [|eauto]. destruct pk as [w|tp].
  - destruct (snd c) as [cx|b pre|ms|i p|s] eqn:Ec; try (rewrite ?F_sx, ?F_ref, ?F_nc in H; discriminate); [|eauto].
    destruct (F_inst b pre H) as [e1 ->]. cbn [bind]. eauto.
  - destruct (port_scope d (bi_of x) (fst c)) as [csc|e1]; cbn [bind]; [|eauto].
    unfold parent_map. destruct (snd c) as [cx|b pre|ms|i p|s] eqn:Ec; try (rewrite ?F_sx, ?F_ref, ?F_nc in H; discriminate);
      rewrite He; cbn [bind]; eauto.
Qed.
End ToAnonErr.

Lemma resolve_ref_orphan m own b pre : mentions_orphan m (BXInst b pre) = true -> exists e, resolve_ref m own b pre = Error e.
Proof. cbn [mentions_orphan]. unfold resolve_ref. destruct (find_bundle (bm_bundles m) b); [discriminate|]. cbn [ofopt bind]. eauto. Qed.

Lemma flat_conn_orphan d m own x c : mentions_orphan m (snd c) = true -> exists e, flat_conn d m own x c = Error e.
Proof.
  apply (flat_conn_err d m own (mentions_orphan m)); try reflexivity. intros b pre. apply resolve_ref_orphan.
Qed.

Lemma resolve_ref_bad_member m own b pre : mscopes m = Ok own ->
  (forall pt, In pt (bm_bundles m) -> BundleSpec.wf_tree (snd pt) = true) ->
  NoDup (map (fun pt : bool * btree => BundleSpec.bname (snd pt)) (bm_bundles m)) ->
  mentions_bad_member m (BXInst b pre) = true -> exists e, resolve_ref m own b pre = Error e.
Proof.
  intros Hown W ND. cbn [mentions_bad_member]. unfold bad_member, resolve_ref.
  destruct (find_bundle (bm_bundles m) b) as [bt|] eqn:Ef; [|discriminate]. destruct pre as [|n r]; [discriminate|].
  destruct (member_width (snd bt) (n :: r)) eqn:Em; [discriminate|]. destruct (subtree (n :: r) (snd bt)) eqn:Es; [discriminate|]. intros _.
  cbn [ofopt bind]. destruct (assoc b own) as [sc|] eqn:Ea; cbn [ofopt bind]; [|eauto].
  destruct (BundleSpec.passoc (n :: r) sc) as [f|] eqn:Ep; [|rewrite Es; eauto]. exfalso.
  destruct (own_find m own Hown W ND b bt sc Ef Ea) as [[_ Hw] _]. apply passoc_In in Ep. rewrite (Hw _ _ Ep) in Em. discriminate.
Qed.

Lemma flat_conn_bad_member d m own x c : mscopes m = Ok own ->
  (forall pt, In pt (bm_bundles m) -> BundleSpec.wf_tree (snd pt) = true) ->
  NoDup (map (fun pt : bool * btree => BundleSpec.bname (snd pt)) (bm_bundles m)) ->
  mentions_bad_member m (snd c) = true -> exists e, flat_conn d m own x c = Error e.
Proof.
  intros Hown W ND. apply (flat_conn_err d m own (mentions_bad_member m)); try reflexivity.
  intros b pre. apply resolve_ref_bad_member; assumption.
Qed.

(* ------------------------------------------------------------------------------------------ BundleFlattener, anywhere in the design *)
Lemma flat_design_err d1 m x c : In m (bd_mods d1) -> In x (bm_insts m) -> In c (bi_conns x) ->
  (forall own, mscopes m = Ok own -> exists e, flat_conn d1 m own x c = Error e) -> exists e, flat_design d1 = Error e.
Proof.
  intros Hm Hx Hc H. unfold flat_design.
  assert (exists e, flat_module d1 m = Error e) as He.
  { unfold flat_module. destruct (mscopes m) as [own|e] eqn:Eo; cbn [bind]; [|eauto].
    assert (exists e, flat_xinst d1 m own x = Error e) as [e He].
    { unfold flat_xinst. destruct (traverse_err (flat_conn d1 m own x) (bi_conns x) c Hc (H own eq_refl)) as [e ->]. cbn [bind]. eauto. }
    destruct (traverse_err (flat_xinst d1 m own) (bm_insts m) x Hx (ex_intro _ e He)) as [e' ->]. cbn [bind]. eauto. }
  destruct (traverse_err (flat_module d1) (bd_mods d1) m Hm He) as [e ->]. cbn [bind]. eauto.
Qed.

Lemma pipeline_err_flat xi d d1 : ib_design d = Ok d1 -> (exists e, flat_design d1 = Error e) -> exists e, checked_bundle_pipeline xi d = Error e.
Proof.
  intros H1 [e He]. unfold checked_bundle_pipeline. rewrite H1. cbn [bind]. destruct (bundle_conntypes d1) as [[]|e']; cbn [bind]; [|eauto].
  rewrite He. cbn [bind]. eauto.
Qed.

(* ------------------------------------------------------------------------------------------ ConnTypes on bundle-valued ports *)
Lemma bct_mismatch d1 m x c : bundle_type_mismatch d1 m x c = true -> bct_conn d1 m x c = Error EWidth.
Proof.
  unfold bundle_type_mismatch, bct_conn. destruct (port_kind_of d1 (bi_of x) (fst c)) as [[w|tp]|e]; try discriminate.
  destruct (snd c) as [cx|b pre|ms|i p|s]; try discriminate. destruct (find_bundle (bm_bundles m) b) as [bt|]; [|discriminate]. cbn [ofopt bind].
  destruct (subtree pre (snd bt)) as [st|]; [|discriminate]. cbn [ofopt bind]. intros H. apply negb_true_iff in H. rewrite H. reflexivity.
Qed.

Lemma pipeline_err_bct xi d d1 m x c : ib_design d = Ok d1 -> In m (bd_mods d1) -> In x (bm_insts m) -> In c (bi_conns x) -> bi_n x <= 0 ->
  bundle_type_mismatch d1 m x c = true -> exists e, checked_bundle_pipeline xi d = Error e.
Proof.
  intros H1 Hm Hx Hc Hn H. unfold checked_bundle_pipeline. rewrite H1. cbn [bind].
  assert (exists e, bundle_conntypes d1 = Error e) as [e ->]; [|cbn [bind]; eauto].
  unfold bundle_conntypes. apply (all_ok_err _ _ m Hm). unfold bct_module. apply (all_ok_err _ _ x Hx). unfold bct_inst.
  destruct (bi_n x <=? 0) eqn:E; [|lia].
  assert (exists e, all_ok (bct_conn d1 m x) (bi_conns x) = Error e) as [e ->]; [|cbn [bind]; eauto].
  apply (all_ok_err _ _ c Hc). rewrite (bct_mismatch d1 m x c H). eauto.
Qed.

(* ------------------------------------------------------------------------------------------ InstBundleElabPass *)
Lemma ib_pairs_err x : forall prs ns acc names, In x prs ->
  ((exists e, traverse (pair_conn 0) (bi_conns x) = Error e) \/ (exists e, traverse (pair_conn 1) (bi_conns x) = Error e)) ->
  exists e, ib_pairs prs ns acc names = Error e.
Proof.
  induction prs as [|y prs IH]; intros ns acc names Hin He; [destruct Hin|]. cbn [ib_pairs].
  match goal with |- exists e, bind ?G _ = Error e => destruct G as [np|e0]; cbn [bind]; [|eauto] end.
  match goal with |- exists e, bind ?G _ = Error e => destruct G as [nn|e0]; cbn [bind]; [|eauto] end.
  destruct Hin as [->|Hin].
  - destruct He as [[e He]|[e He]].
    + rewrite He. cbn [bind]. eauto.
    + destruct (traverse (pair_conn 0) (bi_conns x)) as [cp|e0]; cbn [bind]; [|eauto]. rewrite He. cbn [bind]. eauto.
  - destruct (traverse (pair_conn 0) (bi_conns y)) as [cp|e0]; cbn [bind]; [|eauto].
    destruct (traverse (pair_conn 1) (bi_conns y)) as [cn|e0]; cbn [bind]; [|eauto]. apply IH; assumption.
Qed.

Lemma ib_design_err d m x c : In m (bd_mods d) -> In x (bm_insts m) -> bi_pair x = true -> In c (bi_conns x) ->
  ((exists e, pair_conn 0 c = Error e) \/ (exists e, pair_conn 1 c = Error e)) -> exists e, ib_design d = Error e.
Proof.
  intros Hm Hx Hp Hc He. unfold ib_design.
  assert (exists e, ib_module m = Error e) as Hme.
  { unfold ib_module. assert (exists e, ib_run m = Error e) as [e ->]; [|cbn [bind]; eauto]. unfold ib_run. apply (ib_pairs_err x).
    - apply in_rev. rewrite rev_involutive. apply filter_In. auto.
    - destruct He as [He|He]; [left|right]; apply (traverse_err _ _ c Hc He). }
  destruct (traverse_err ib_module (bd_mods d) m Hm Hme) as [e ->]. cbn [bind]. eauto.
Qed.

Lemma pair_conn_extra k c : pair_anon_extra (snd c) = true -> pair_conn k c = Error EExtra.
Proof.
  unfold pair_anon_extra, pair_conn. destruct (snd c) as [cx|b pre|ms|i p|s]; try discriminate. intros H. apply negb_true_iff in H.
  rewrite H. reflexivity.
Qed.

Lemma pair_conn_missing c : pair_anon_missing (snd c) = true -> (exists e, pair_conn 0 c = Error e) \/ (exists e, pair_conn 1 c = Error e).
Proof.
  unfold pair_anon_missing, pair_conn. destruct (snd c) as [cx|b pre|ms|i p|s]; try discriminate. intros H.
  destruct (forallb _ ms); cbn [check bind]; [|left; eauto].
  destruct (bassoc (pair_elem 0) ms); cbn [ofopt bind]; [|left; eauto]. destruct (bassoc (pair_elem 1) ms); cbn [ofopt bind]; [discriminate|right; eauto].
Qed.

Lemma pipeline_err_ib xi d : (exists e, ib_design d = Error e) -> exists e, checked_bundle_pipeline xi d = Error e.
Proof. intros [e He]. unfold checked_bundle_pipeline. rewrite He. cbn [bind]. eauto. Qed.

(* ------------------------------------------------------------------------------------------ the fault classes, anywhere *)
(* InstBundleElabPass keeps every module's bundles and its instances that are not Pairs *)
Lemma ib_design_keeps d d1 m : ib_design d = Ok d1 -> In m (bd_mods d) ->
  exists m1, In m1 (bd_mods d1) /\ bm_bundles m1 = bm_bundles m /\ forall x, In x (bm_insts m) -> bi_pair x = false -> In x (bm_insts m1).
Proof.
  unfold ib_design. intros H Hm. apply bind_ok in H. destruct H as [ms [Hms H]]. inversion H; subst d1. cbn [bd_mods].
  destruct (traverse_In _ _ _ _ Hms Hm) as [m1 [Hm1 Hin]]. exists m1. split; [exact Hin|]. unfold ib_module in Hm1.
  apply bind_ok in Hm1. destruct Hm1 as [r [_ Hm1]]. inversion Hm1; subst m1. cbn [bm_bundles bm_insts]. split; [reflexivity|].
  intros x Hx Hp. apply in_or_app. left. apply filter_In. split; [exact Hx|]. rewrite Hp. reflexivity.
Qed.

Theorem bundle_faults_rejected xi d m x c : In m (bd_mods d) -> In x (bm_insts m) -> In c (bi_conns x) ->
  (bi_pair x = false /\ mentions_orphan m (snd c) = true) \/
  (bi_pair x = false /\ mentions_bad_member m (snd c) = true /\ (forall d1, ib_design d = Ok d1 -> bp_wf d1 = true)) \/
  (bi_pair x = true /\ (pair_anon_extra (snd c) = true \/ pair_anon_missing (snd c) = true)) ->
  exists e, checked_bundle_pipeline xi d = Error e.
Proof.
  intros Hm Hx Hc [[Hp H]|[[Hp [H W]]|[Hp H]]].
  - destruct (ib_design d) as [d1|e] eqn:E1; [|apply pipeline_err_ib; eauto].
    destruct (ib_design_keeps d d1 m E1 Hm) as [m1 [Hm1 [Hb Hi]]]. apply (pipeline_err_flat xi d d1 E1).
    apply (flat_design_err d1 m1 x c Hm1 (Hi x Hx Hp) Hc). intros own _. apply flat_conn_orphan.
    clear - H Hb. revert H. generalize (snd c). intros bx. induction bx as [y|b pre|ms IH|i p|s] using bexpr_ind'; cbn [mentions_orphan]; try tauto.
    + rewrite Hb. tauto.
    + induction IH as [|nb r Hnb _ IHr]; [tauto|]. intros H. apply orb_prop in H. apply orb_true_iff. destruct H as [H|H]; [left; apply Hnb; exact H|right; apply IHr; exact H].
  - destruct (ib_design d) as [d1|e] eqn:E1; [|apply pipeline_err_ib; eauto].
    destruct (ib_design_keeps d d1 m E1 Hm) as [m1 [Hm1 [Hb Hi]]]. apply (pipeline_err_flat xi d d1 E1).
    apply (flat_design_err d1 m1 x c Hm1 (Hi x Hx Hp) Hc). intros own Hown.
    destruct (bp_wf_mod d1 m1 (W d1 eq_refl) Hm1) as [ND [Wt _]]. apply (flat_conn_bad_member d1 m1 own x c Hown Wt (NoDup_app_r _ _ ND)).
    clear - H Hb. revert H. generalize (snd c). intros bx. induction bx as [y|b pre|ms IH|i p|s] using bexpr_ind'; cbn [mentions_bad_member]; try tauto.
    + unfold bad_member. rewrite Hb. tauto.
    + induction IH as [|nb r Hnb _ IHr]; [tauto|]. intros H. apply orb_prop in H. apply orb_true_iff. destruct H as [H|H]; [left; apply Hnb; exact H|right; apply IHr; exact H].
  - apply pipeline_err_ib. apply (ib_design_err d m x c Hm Hx Hp Hc). destruct H as [H|H]; [left; rewrite (pair_conn_extra 0 c H); eauto|apply pair_conn_missing; exact H].
Qed.

Theorem bundle_type_mismatch_rejected xi d d1 m x c : ib_design d = Ok d1 -> In m (bd_mods d1) -> In x (bm_insts m) -> In c (bi_conns x) ->
  bi_n x <= 0 -> bundle_type_mismatch d1 m x c = true -> exists e, checked_bundle_pipeline xi d = Error e.
Proof. exact (pipeline_err_bct xi d d1 m x c). Qed.
