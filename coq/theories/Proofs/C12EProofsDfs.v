(* Proofs/C12EProofsDfs.v — the depth-first collection of a reference group (Model/C12EOrdered.v:follow_o) visits, for EVERY
   oracle that only permutes, exactly the weak component of its seed in the graph "port -> the port its connection refers
   to", each port once; and never runs out of the fuel the model gives it.  (Adapted from Proofs/C04GroupProofs.v /
   C04GroupComplete.v, where the order of the back-references is the fixed list order of the connection books.) *)
From Coq Require Import String Permutation.
Require Import Hdl21.Base.PyInt Hdl21.Spec.PySlice Hdl21.Model.Slice Hdl21.Model.Resolve Hdl21.Base.Design
               Hdl21.Spec.Nets Hdl21.Spec.WfDesign Hdl21.Model.C01EElab Hdl21.Model.C01FElab Hdl21.Proofs.FunGraph
               Hdl21.Proofs.ResolveProofs Hdl21.Proofs.C01EProofsBase Hdl21.Proofs.C01FProofsGroups Hdl21.Model.C12EOrdered.
Open Scope Z_scope.

Section Dfs.
Variables (o : orders) (m : module).
Hypothesis Hord : ord_ok o.

Notation cn := (conn key (nxt m)).

Lemma ord_In s l x : In x (o s l) <-> In x l.
Proof. split; apply Permutation_in; [apply Hord|apply Permutation_sym, Hord]. Qed.

Lemma back_In q k : In k (back m q) <-> In k (conn_keys m) /\ next m k = Some q.
Proof.
  unfold back. rewrite filter_In. split; intros [H1 H2]; split; try exact H1.
  - destruct (next m k) as [q'|]; [|discriminate]. apply key_eqb_eq in H2. congruence.
  - rewrite H2. apply key_eqb_eq. reflexivity.
Qed.

Lemma next_conn_keys k q : next m k = Some q -> In k (conn_keys m).
Proof.
  unfold next, pconn. destruct (find_inst (m_insts m) (fst k)) as [x|] eqn:Ef; [|discriminate].
  destruct (assoc (snd k) (i_conns x)) as [cx|] eqn:Ea; [|discriminate]. intros _.
  destruct (find_inst_In _ _ _ Ef) as [Hx Hn]. unfold conn_keys. apply in_flat_map. exists x. split; [exact Hx|].
  apply in_map_iff. exists (snd k, cx). split; [cbn [fst]; rewrite Hn; destruct k; reflexivity|apply assoc_In; exact Ea].
Qed.

Lemma nxt_next q y : next m q = Some y -> nxt m q = y.
Proof. unfold nxt. intros ->. reflexivity. Qed.

(* r has everything tied to it inside g *)
Definition closed (g : list key) (r : key) : Prop :=
  (forall y, next m r = Some y -> In y g) /\ (forall k, In k (back m r) -> In k g).

Lemma closed_mono g g' r : incl g g' -> closed g r -> closed g' r.
Proof. intros Hi [A B]. split; [intros y Hy; apply Hi, A, Hy|intros k Hk; apply Hi, B, Hk]. Qed.

Definition good (g g' : list key) : Prop := incl g g' /\ forall r, In r g' -> In r g \/ closed g' r.

Lemma good_refl g : good g g.
Proof. split; [intros x Hx; exact Hx|intros r Hr; left; exact Hr]. Qed.

Lemma good_trans g1 g2 g3 : good g1 g2 -> good g2 g3 -> good g1 g3.
Proof.
  intros [A1 B1] [A2 B2]. split; [intros x H; apply A2, A1, H|].
  intros r H. destruct (B2 r H) as [H2|H2]; [|right; exact H2].
  destruct (B1 r H2) as [H1|H1]; [left; exact H1|right]. eapply closed_mono; eauto.
Qed.

Notation loop f l r := (fold_left (fun acc k => match acc with Some g' => follow_o o m f k g' | None => None end) l r).

Lemma loop_none f l : loop f l None = None.
Proof. induction l; simpl; auto. Qed.

Lemma follow_closed : forall fuel q g g', follow_o o m fuel q g = Some g' -> good g g' /\ In q g'.
Proof.
  induction fuel as [|f IH]; intros q g g' H; [discriminate|].
  cbn [follow_o] in H. destruct (kmem q g) eqn:M.
  { inversion H; subst. apply kmem_In in M. split; [apply good_refl|exact M]. }
  set (g1 := g ++ [q]) in *.
  set (l := o (SFollow (m_name m) q g) (back m q)) in *.
  assert (R : forall g2, match next m q with Some q' => follow_o o m f q' g1 | None => Some g1 end = Some g2 ->
              good g1 g2 /\ (forall y, next m q = Some y -> In y g2)).
  { intros g2 E. destruct (next m q) as [q'|].
    - destruct (IH q' g1 g2 E) as [G I]. split; [exact G|]. intros y Hy. inversion Hy; subst. exact I.
    - inversion E; subst. split; [apply good_refl|]. intros y Hy. discriminate. }
  assert (L : forall l0 g2 g3, loop f l0 (Some g2) = Some g3 -> good g2 g3 /\ forall c, In c l0 -> In c g3).
  { induction l0 as [|c t IHl]; intros g2 g3 E; simpl in E.
    - inversion E; subst. split; [apply good_refl|]. intros c [].
    - destruct (follow_o o m f c g2) as [g2'|] eqn:F; [|rewrite loop_none in E; discriminate].
      destruct (IH c g2 g2' F) as [G1 I1]. destruct (IHl g2' g3 E) as [G2 I2]. split; [eapply good_trans; eauto|].
      intros c' [<-|Hc]; [apply (proj1 G2), I1|apply I2, Hc]. }
  destruct (match next m q with Some q' => follow_o o m f q' g1 | None => Some g1 end) as [g2|] eqn:E0;
    [|rewrite loop_none in H; discriminate].
  destruct (R g2 eq_refl) as [G1 C1]. destruct (L l g2 g' H) as [G2 C2].
  assert (Q : In q g').
  { apply (proj1 G2), (proj1 G1). unfold g1. apply in_app_iff. right. left. reflexivity. }
  split; [|exact Q]. split.
  - intros x Hx. apply (proj1 G2), (proj1 G1). unfold g1. apply in_app_iff. left; exact Hx.
  - intros r Hr. destruct (proj2 (good_trans _ _ _ G1 G2) r Hr) as [H1|H1]; [|right; exact H1].
    unfold g1 in H1. apply in_app_iff in H1. destruct H1 as [H1|[H1|[]]]; [left; exact H1|].
    subst r. right. split.
    + intros y Hy. apply (proj1 G2), C1, Hy.
    + intros k Hk. apply C2. unfold l. apply ord_In. exact Hk.
Qed.

Lemma follow_sound : forall fuel q g g', follow_o o m fuel q g = Some g' -> forall x, In x g' -> In x g \/ cn q x.
Proof.
  induction fuel as [|f IH]; intros q g g' H x Hx; [discriminate|].
  cbn [follow_o] in H. destruct (kmem q g).
  { inversion H; subst. left; exact Hx. }
  set (g1 := g ++ [q]) in *.
  assert (J1 : forall y, In y g1 -> In y g \/ cn q y).
  { intros y Hy. unfold g1 in Hy. apply in_app_iff in Hy. destruct Hy as [Hy|[<-|[]]]; [left; exact Hy|right; apply c_refl]. }
  set (r := match next m q with Some q' => follow_o o m f q' g1 | None => Some g1 end) in *.
  assert (J2 : forall g2, r = Some g2 -> forall y, In y g2 -> In y g \/ cn q y).
  { intros g2 Hr y Hy. unfold r in Hr. destruct (next m q) as [q'|] eqn:En.
    - destruct (IH q' g1 g2 Hr y Hy) as [Hy1|C]; [apply J1; exact Hy1|]. right. eapply c_trans; [|exact C].
      rewrite <- (nxt_next _ _ En). apply c_step.
    - inversion Hr; subst. apply J1, Hy. }
  set (l := o (SFollow (m_name m) q g) (back m q)) in *.
  assert (Hl : forall k, In k l -> cn q k).
  { intros k Hk. unfold l in Hk. apply ord_In in Hk. apply back_In in Hk. destruct Hk as [_ Hn]. apply c_sym.
    rewrite <- (nxt_next _ _ Hn). apply c_step. }
  clearbody r l. revert r J2 H. induction l as [|k t IHl]; intros r J2 H; simpl in H.
  - apply (J2 g' H x Hx).
  - apply (IHl (fun z Hz => Hl z (or_intror Hz)) (match r with Some g'0 => follow_o o m f k g'0 | None => None end)); [|exact H].
    intros g3 H3 y Hy. destruct r as [g2|]; [|discriminate].
    destruct (IH k g2 g3 H3 y Hy) as [Hy2|C]; [apply (J2 g2 eq_refl y Hy2)|]. right.
    eapply c_trans; [apply Hl; left; reflexivity|exact C].
Qed.

Lemma NoDup_snoc (g : list key) q : NoDup g -> ~ In q g -> NoDup (g ++ [q]).
Proof.
  intros Hn Hq. apply (Permutation_NoDup (l := q :: g)); [apply Permutation_cons_append|]. constructor; assumption.
Qed.

Lemma follow_nodup : forall fuel q g g', follow_o o m fuel q g = Some g' -> NoDup g -> NoDup g'.
Proof.
  induction fuel as [|f IH]; intros q g g' H Hn; [discriminate|].
  cbn [follow_o] in H. destruct (kmem q g) eqn:M.
  { inversion H; subst. exact Hn. }
  assert (NoDup (g ++ [q])) as Hn1.
  { apply NoDup_snoc; [exact Hn|]. intros Hin. apply kmem_In in Hin. congruence. }
  set (g1 := g ++ [q]) in *.
  assert (L : forall l0 g2 g3, loop f l0 (Some g2) = Some g3 -> NoDup g2 -> NoDup g3).
  { induction l0 as [|c t IHl]; intros g2 g3 E Hn2; simpl in E.
    - inversion E; subst. exact Hn2.
    - destruct (follow_o o m f c g2) as [g2'|] eqn:F; [|rewrite loop_none in E; discriminate].
      apply (IHl g2' g3 E). apply (IH c g2 g2' F Hn2). }
  destruct (match next m q with Some q' => follow_o o m f q' g1 | None => Some g1 end) as [g2|] eqn:E0;
    [|rewrite loop_none in H; discriminate].
  apply (L _ g2 g' H). destruct (next m q) as [q'|].
  - apply (IH q' g1 g2 E0 Hn1).
  - inversion E0; subst. exact Hn1.
Qed.

(* ---- totality: the fuel is never exhausted when it exceeds the number of ports not yet in the group *)
Definition missing (U g : list key) : nat := Datatypes.length (filter (fun u => negb (kmem u g)) U).

Lemma missing_mono U g g' : incl g g' -> (missing U g' <= missing U g)%nat.
Proof.
  intros Hi. unfold missing. induction U as [|u t IH]; simpl; [lia|].
  destruct (kmem u g') eqn:E'; destruct (kmem u g) eqn:E; simpl; try lia.
  apply kmem_In in E. apply Hi in E. apply kmem_In in E. congruence.
Qed.

Lemma missing_add U g q : In q U -> kmem q g = false -> (missing U (g ++ [q]) < missing U g)%nat.
Proof.
  intros Hq M. unfold missing. induction U as [|u t IH]; [destruct Hq|].
  assert (Hle : (Datatypes.length (filter (fun u0 => negb (kmem u0 (g ++ [q]))) t) <= Datatypes.length (filter (fun u0 => negb (kmem u0 g)) t))%nat).
  { apply (missing_mono t g (g ++ [q])). intros x Hx. apply in_app_iff. left; exact Hx. }
  simpl. destruct Hq as [->|Hq].
  - rewrite M. simpl. assert (E : kmem q (g ++ [q]) = true) by (apply kmem_In, in_app_iff; right; left; reflexivity).
    rewrite E. simpl. lia.
  - specialize (IH Hq). destruct (kmem u (g ++ [q])) eqn:E1; destruct (kmem u g) eqn:E2; simpl; try lia.
    exfalso. apply kmem_In in E2. assert (In u (g ++ [q])) as H by (apply in_app_iff; left; exact E2).
    apply kmem_In in H. congruence.
Qed.

Lemma missing_le U g : (missing U g <= Datatypes.length U)%nat.
Proof. unfold missing. induction U as [|u t IH]; simpl; [lia|]. destruct (negb (kmem u g)); simpl; lia. Qed.

Lemma follow_total U :
  (forall u y, In u U -> next m u = Some y -> In y U) -> (forall u k, In u U -> In k (back m u) -> In k U) ->
  forall fuel q g, In q U -> (missing U g < fuel)%nat -> exists g', follow_o o m fuel q g = Some g'.
Proof.
  intros PC1 PC2. induction fuel as [|f IH]; intros q g Hq Hm; [lia|].
  cbn [follow_o]. destruct (kmem q g) eqn:M; [eauto|].
  set (g1 := g ++ [q]).
  assert (M1 : (missing U g1 < f)%nat) by (pose proof (missing_add U g q Hq M); unfold g1; lia).
  assert (R : exists g2, match next m q with Some q' => follow_o o m f q' g1 | None => Some g1 end = Some g2 /\ incl g1 g2).
  { destruct (next m q) as [q'|] eqn:L.
    - destruct (IH q' g1 (PC1 q q' Hq L) M1) as [g2 E]. exists g2. split; [exact E|].
      apply (proj1 (proj1 (follow_closed f q' g1 g2 E))).
    - eexists. split; [reflexivity|]. intros x Hx; exact Hx. }
  destruct R as [g2 [E2 I2]]. rewrite E2.
  assert (Hl : forall c, In c (o (SFollow (m_name m) q g) (back m q)) -> In c U).
  { intros c Hc. apply ord_In in Hc. apply (PC2 q c Hq Hc). }
  clear E2. revert g2 I2 Hl.
  induction (o (SFollow (m_name m) q g) (back m q)) as [|c t IHl]; intros g2 I2 Hl; simpl.
  - eauto.
  - assert (M2 : (missing U g2 < f)%nat) by (pose proof (missing_mono U g1 g2 I2); lia).
    destruct (IH c g2 (Hl c (or_introl eq_refl)) M2) as [g3 E3]. rewrite E3.
    apply IHl.
    + intros x Hx. apply (proj1 (proj1 (follow_closed f c g2 g3 E3))), I2, Hx.
    + intros c' Hc'. apply Hl. right; exact Hc'.
Qed.

(* ---- what a traversal from scratch collects: the component of its seed, each port once *)
Definition is_comp (L : list key) (q : key) : Prop := NoDup L /\ forall k, In k L <-> cn q k.

Theorem follow_component fuel q L : follow_o o m fuel q [] = Some L -> is_comp L q.
Proof.
  intros H. split; [eapply follow_nodup; [exact H|constructor]|].
  destruct (follow_closed _ _ _ _ H) as [[_ G] Hq].
  assert (Cl : forall r, In r L -> closed L r) by (intros r Hr; destruct (G r Hr) as [[]|C]; exact C).
  intros k; split.
  - intros Hk. destruct (follow_sound _ _ _ _ H k Hk) as [[]|C]; exact C.
  - intros C. apply conn_meet in C. destruct C as [a [b E]].
    assert (Fw : forall n, In (Nat.iter n (nxt m) q) L).
    { induction n as [|n IHn]; simpl; [exact Hq|]. unfold nxt at 1.
      destruct (next m (Nat.iter n (nxt m) q)) as [y|] eqn:En; [apply (proj1 (Cl _ IHn)); exact En|exact IHn]. }
    assert (Bw : forall n z, In (Nat.iter n (nxt m) z) L -> In z L).
    { induction n as [|n IHn]; intros z Hz; [exact Hz|].
      change (Nat.iter (S n) (nxt m) z) with (nxt m (Nat.iter n (nxt m) z)) in Hz. rewrite <- (iter_comm key (nxt m) n z) in Hz.
      apply IHn in Hz. unfold nxt in Hz. destruct (next m z) as [y|] eqn:En; [|exact Hz].
      apply (proj2 (Cl y Hz)). apply back_In. split; [eapply next_conn_keys; exact En|exact En]. }
    apply (Bw b). rewrite <- E. apply Fw.
Qed.

Lemma is_comp_shift L q g : is_comp L q -> In g L -> is_comp L g.
Proof.
  intros [Hn HL] Hg. split; [exact Hn|]. apply HL in Hg. intros k. rewrite HL. split; intros C.
  - eapply c_trans; [apply c_sym; exact Hg|exact C].
  - eapply c_trans; [exact Hg|exact C].
Qed.
End Dfs.
