(* Proofs/C01EProofsSim.v — "local relations determine global nets", for passes that keep every connection bit.
   Two designs d, d' whose modules correspond (MR, along a map mu of module indices) such that the instance elements of a
   module correspond through a renaming rho (an array element becomes an instance), ports and signals are kept, and the
   LOCAL target of every port bit is kept (H_loc).  Then the node map phi (rename the path, rename the instance)
   commutes with the step of Spec/Nets.v on valid nodes, is injective on them, and therefore preserves same_net
   at every depth of the hierarchy and for any sharing of sub-modules (sim_same_net). *)
Require Import Hdl21.Base.PyInt Hdl21.Spec.PySlice Hdl21.Model.Slice Hdl21.Model.Resolve Hdl21.Base.Design
               Hdl21.Spec.Nets Hdl21.Spec.WfDesign Hdl21.Spec.C01ENets Hdl21.Proofs.ResolveProofs
               Hdl21.Proofs.C01EProofsGraph Hdl21.Proofs.C01EProofsBase.

Definition tgt_rel (mu : nat -> option nat) (t t' : target) : Prop :=
  match t, t' with
  | TMod k, TMod k' => mu k = Some k'
  | TDev dv ps, TDev dv' ps' => dv = dv' /\ ps = ps'
  | _, _ => False
  end.

Lemma iter_step_iter_r d n x : iter_step d n x = iter_r (Nets.step d) n x.
Proof. revert x. induction n as [|n IH]; intros x; cbn [iter_step iter_r]; [reflexivity|]. destruct (Nets.step d x); cbn [bind]; [apply IH|reflexivity]. Qed.

Lemma same_net_meet_r d x y : same_net d x y <-> meet_r (Nets.step d) x y.
Proof.
  unfold same_net, meet_r. split; intros [m [n [z [H1 H2]]]]; exists m, n, z.
  - rewrite <- !iter_step_iter_r. auto.
  - rewrite !iter_step_iter_r. auto.
Qed.

Section Sim.
Variables d d' : design.
Variable mu : nat -> option nat.
Variable rho : module -> pelem -> pelem.
Variable MR : module -> module -> Prop.

Hypothesis H_top : mu (d_top d) = Some (d_top d').
Hypothesis H_desc : forall k k' m, mu k = Some k' -> nth_mod d k = Ok m -> exists m', nth_mod d' k' = Ok m' /\ MR m m'.
Hypothesis H_ports : forall m m', MR m m' -> m_ports m = m_ports m'.
Hypothesis H_sigs : forall m m' s w, MR m m' -> sig_width m s = Some w -> sig_width m' s = Some w.
Hypothesis H_inst : forall m m' i e x, MR m m' -> find_inst (m_insts m) i = Some x -> elem_ok x e = true ->
  exists x', find_inst (m_insts m') (fst (rho m (i, e))) = Some x' /\ elem_ok x' (snd (rho m (i, e))) = true /\
             tgt_rel mu (i_of x) (i_of x').
Hypothesis H_single : forall m m' i x, MR m m' -> find_inst (m_insts m) i = Some x -> i_n x <= 0 -> snd (rho m (i, 0)) = 0.
Hypothesis H_inj : forall m m' i e x j f y, MR m m' -> find_inst (m_insts m) i = Some x -> elem_ok x e = true ->
  find_inst (m_insts m) j = Some y -> elem_ok y f = true -> rho m (i, e) = rho m (j, f) -> i = j /\ e = f.

Definition map_lt (m : module) (t : ltgt) : ltgt :=
  match t with
  | LtSig s j => LtSig s j
  | LtPort i p j => LtPort (fst (rho m (i, 0))) p j
  | LtSelf => LtSelf
  end.

Hypothesis H_loc : forall m m' i e x x' port k w t, MR m m' ->
  find_inst (m_insts m) i = Some x -> elem_ok x e = true ->
  find_inst (m_insts m') (fst (rho m (i, e))) = Some x' ->
  port_width d x port = Ok w -> 0 <= k < w ->
  local_tgt d m x e port k = Ok t -> ltgt_valid d m t ->
  local_tgt d' m' x' (snd (rho m (i, e))) port k = Ok (map_lt m t).

Hypothesis H_val : forall p m i e x port k w t, vmod_at d p = Ok m -> find_inst (m_insts m) i = Some x ->
  elem_ok x e = true -> port_width d x port = Ok w -> 0 <= k < w -> local_tgt d m x e port k = Ok t -> ltgt_valid d m t.

Hypothesis H_total : forall x, valid d x -> exists y, Nets.step d x = Ok y /\ valid d y.

Set Default Proof Using "All".

Fixpoint tr_down (m : module) (p : list pelem) : list pelem :=
  match p with
  | [] => []
  | (i, e) :: p' =>
      rho m (i, e) ::
      match find_inst (m_insts m) i with
      | Some x => match i_of x with
                  | TMod k => match nth_mod d k with Ok m' => tr_down m' p' | Error _ => p' end
                  | TDev _ _ => p'
                  end
      | None => p'
      end
  end.

Definition tr_path (p : path) : path :=
  match nth_mod d (d_top d) with Ok top => rev (tr_down top (rev p)) | Error _ => p end.

Definition phi (n : node) : node :=
  match n with
  | NSig p s k => NSig (tr_path p) s k
  | NPort p i e port k =>
      match vmod_at d p with
      | Ok m => NPort (tr_path p) (fst (rho m (i, e))) (snd (rho m (i, e))) port k
      | Error _ => n
      end
  | NNc _ _ _ => n
  end.

Lemma vdown_tr : forall p m m' mp, vdown d m p = Ok mp -> MR m m' ->
  exists mp', vdown d' m' (tr_down m p) = Ok mp' /\ MR mp mp'.
Proof.
  induction p as [|[i e] p IH]; intros m m' mp H R; cbn [vdown tr_down] in *.
  - inversion H; subst. exists m'. split; [reflexivity|exact R].
  - destruct (find_inst (m_insts m) i) as [x|] eqn:Ef; cbn [ofopt bind] in H; [|discriminate].
    destruct (elem_ok x e) eqn:Ee; [|discriminate]. destruct (i_of x) as [k|] eqn:Eo; [|discriminate].
    destruct (nth_mod d k) as [mk|] eqn:Ek; cbn [bind] in H; [|discriminate].
    destruct (H_inst m m' i e x R Ef Ee) as [x' [Hf' [He' Ht]]]. rewrite Eo in Ht.
    destruct (rho m (i, e)) as [i' e'] eqn:Er. cbn [fst snd] in *. cbn [vdown]. rewrite Hf'. cbn [ofopt bind]. rewrite He'.
    destruct (i_of x') as [k'|]; cbn [tgt_rel] in Ht; [|destruct Ht].
    destruct (H_desc k k' mk Ht Ek) as [mk' [Hk' Rk]]. rewrite Hk'. cbn [bind]. eapply IH; eassumption.
Qed.

Lemma vmod_at_tr p m : vmod_at d p = Ok m -> exists m', vmod_at d' (tr_path p) = Ok m' /\ MR m m'.
Proof.
  unfold vmod_at, tr_path. destruct (nth_mod d (d_top d)) as [top|] eqn:Et; cbn [bind]; [|discriminate].
  intros H. destruct (H_desc _ _ _ H_top Et) as [top' [Ht' Rt]]. rewrite Ht'. cbn [bind]. rewrite rev_involutive.
  eapply vdown_tr; eassumption.
Qed.

Lemma tr_down_app : forall p q m mp, vdown d m p = Ok mp -> tr_down m (p ++ q) = tr_down m p ++ tr_down mp q.
Proof.
  induction p as [|[i e] p IH]; intros q m mp H; cbn [vdown app tr_down] in *.
  - inversion H; subst. reflexivity.
  - destruct (find_inst (m_insts m) i) as [x|] eqn:Ef; cbn [ofopt bind] in H; [|discriminate].
    destruct (elem_ok x e); [|discriminate]. destruct (i_of x) as [k|]; [|discriminate].
    destruct (nth_mod d k) as [mk|]; cbn [bind] in H; [|discriminate]. f_equal. apply IH. exact H.
Qed.

Lemma tr_path_cons i e p m0 : vmod_at d p = Ok m0 ->
  tr_path (((i, e) : pelem) :: p) = rho m0 (i, e) :: tr_path p.
Proof.
  unfold vmod_at, tr_path. destruct (nth_mod d (d_top d)) as [top|]; cbn [bind]; [|discriminate]. intros H.
  cbn [rev]. rewrite (tr_down_app _ _ _ _ H). rewrite rev_app_distr. cbn [tr_down rev app].
  destruct (find_inst (m_insts m0) i) as [x|]; [destruct (i_of x) as [k|]; [destruct (nth_mod d k)|]|]; reflexivity.
Qed.

Lemma tr_path_nil : tr_path [] = [].
Proof. unfold tr_path. destruct (nth_mod d (d_top d)); reflexivity. Qed.

Lemma port_width_tr x x' port w : tgt_rel mu (i_of x) (i_of x') -> port_width d x port = Ok w -> port_width d' x' port = Ok w.
Proof.
  unfold port_width, target_ports. destruct (i_of x) as [k|dv ps], (i_of x') as [k'|dv' ps']; cbn [tgt_rel]; try tauto.
  - intros Hk. destruct (nth_mod d k) as [mk|] eqn:Ek; cbn [bind]; [|discriminate].
    destruct (H_desc _ _ _ Hk Ek) as [mk' [Hk' R]]. rewrite Hk'. cbn [bind]. rewrite (H_ports _ _ R). tauto.
  - intros [_ ->]. tauto.
Qed.

Lemma valid_tr x : valid d x -> valid d' (phi x).
Proof.
  destruct x as [p s k|p i e port k|p s k]; cbn [valid phi]; [| |tauto].
  - intros [m [w [Hm [Hs Hk]]]]. destruct (vmod_at_tr _ _ Hm) as [m' [Hm' R]]. exists m', w. eauto.
  - intros [m [x [w [Hm [Hf [He [Hw Hk]]]]]]]. rewrite Hm. destruct (vmod_at_tr _ _ Hm) as [m' [Hm' R]].
    destruct (H_inst _ _ _ _ _ R Hf He) as [x' [Hf' [He' Ht]]].
    exists m', x', w. repeat split; try assumption; try lia. eapply port_width_tr; eassumption.
Qed.

Lemma is_port_tr m m' s : MR m m' -> is_port m' s = is_port m s.
Proof. intros R. unfold is_port. rewrite (H_ports _ _ R). reflexivity. Qed.

Theorem sim_commute x y : valid d x -> Nets.step d x = Ok y -> Nets.step d' (phi x) = Ok (phi y).
Proof.
  destruct x as [p s k|p i e port k|p s k]; cbn [valid]; [| |tauto].
  - intros [m [w [Hm [Hs Hk]]]]. destruct p as [|[i e] p0].
    + cbn [Nets.step]. intros H; inversion H; subst. cbn [phi]. rewrite tr_path_nil. reflexivity.
    + rewrite (step_sig_up d i e p0 s k m (vmod_at_mod_at _ _ _ Hm)). intros H; inversion H; subst; clear H.
      destruct (vmod_at_tr _ _ Hm) as [m' [Hm' R]].
      pose proof Hm as Hc. apply vmod_at_cons in Hc. destruct Hc as [m0 [x [kx [H0 [Hf [He [Ho Hk']]]]]]].
      cbn [phi]. rewrite (tr_path_cons i e p0 m0 H0) in *. destruct (rho m0 (i, e)) as [i' e'] eqn:Er.
      rewrite (step_sig_up d' i' e' (tr_path p0) s k m' (vmod_at_mod_at _ _ _ Hm')). rewrite (is_port_tr _ _ s R).
      destruct (is_port m s); cbn [phi]; [|rewrite (tr_path_cons i e p0 m0 H0), Er; reflexivity].
      rewrite H0, Er. reflexivity.
  - intros [m [x [w [Hm [Hf [He [Hw Hk]]]]]]].
    rewrite (step_port d p i e port k m x (vmod_at_mod_at _ _ _ Hm) Hf).
    destruct (local_tgt d m x e port k) as [t|] eqn:Et; cbn [bind]; [|discriminate]. intros H; inversion H; subst; clear H.
    pose proof (H_val _ _ _ _ _ _ _ _ _ Hm Hf He Hw Hk Et) as Hval.
    destruct (vmod_at_tr _ _ Hm) as [m' [Hm' R]]. destruct (H_inst _ _ _ _ _ R Hf He) as [x' [Hf' [He' Ht]]].
    cbn [phi]. rewrite Hm.
    rewrite (step_port d' (tr_path p) _ _ port k m' x' (vmod_at_mod_at _ _ _ Hm') Hf').
    rewrite (H_loc _ _ _ _ _ _ _ _ _ _ R Hf He Hf' Hw Hk Et Hval). cbn [bind]. f_equal.
    destruct t as [s j|i1 p1 j|]; cbn [map_lt ltgt_node phi]; [reflexivity| |rewrite Hm; reflexivity].
    rewrite Hm. destruct Hval as [x1 [w1 [Hf1 [Hn1 _]]]]. rewrite (H_single _ _ _ _ R Hf1 Hn1). reflexivity.
Qed.

(* ---- phi is injective on valid nodes ---- *)
Lemma tr_down_inj : forall p q m m' mp mq, MR m m' -> vdown d m p = Ok mp -> vdown d m q = Ok mq -> tr_down m p = tr_down m q -> p = q.
Proof.
  induction p as [|[i e] p IH]; intros q m m' mp mq R Hp Hq E; destruct q as [|[j f] q]; cbn [tr_down] in E; try discriminate; [reflexivity|].
  cbn [vdown] in Hp, Hq.
  destruct (find_inst (m_insts m) i) as [x|] eqn:Ef; cbn [ofopt bind] in Hp; [|discriminate].
  destruct (elem_ok x e) eqn:Ee; [|discriminate].
  destruct (find_inst (m_insts m) j) as [y|] eqn:Eg; cbn [ofopt bind] in Hq; [|discriminate].
  destruct (elem_ok y f) eqn:Ey; [|discriminate].
  inversion E as [[Eh Et]]. destruct (H_inj _ _ _ _ _ _ _ _ R Ef Ee Eg Ey Eh) as [<- <-].
  rewrite Ef in Eg. inversion Eg; subst y.
  destruct (H_inst _ _ _ _ _ R Ef Ee) as [x' [_ [_ Ht]]].
  destruct (i_of x) as [k|]; [|discriminate]. destruct (nth_mod d k) as [mk|] eqn:Ek; cbn [bind] in *; [|discriminate].
  destruct (i_of x') as [k'|]; cbn [tgt_rel] in Ht; [|destruct Ht]. destruct (H_desc _ _ _ Ht Ek) as [mk' [_ Rk]].
  f_equal. eapply IH; eassumption.
Qed.

Lemma tr_path_inj p q mp mq : vmod_at d p = Ok mp -> vmod_at d q = Ok mq -> tr_path p = tr_path q -> p = q.
Proof.
  unfold vmod_at, tr_path. destruct (nth_mod d (d_top d)) as [top|] eqn:Et; cbn [bind]; [|discriminate].
  destruct (H_desc _ _ _ H_top Et) as [top' [_ Rt]].
  intros Hp Hq E. apply (f_equal (@rev pelem)) in E. rewrite !rev_involutive in E.
  pose proof (tr_down_inj _ _ _ _ _ _ Rt Hp Hq E) as Er. apply (f_equal (@rev pelem)) in Er. rewrite !rev_involutive in Er. exact Er.
Qed.

Theorem phi_inj x y : valid d x -> valid d y -> phi x = phi y -> x = y.
Proof.
  destruct x as [p s k|p i e port k|p s k], y as [q t l|q j f port' l|q t l]; cbn [valid]; try tauto.
  - intros [m [w [Hm _]]] [m2 [w2 [Hm2 _]]]. cbn [phi]. intros E. inversion E as [[Ep Es Ek]].
    rewrite (tr_path_inj _ _ _ _ Hm Hm2 Ep). reflexivity.
  - intros [m [w [Hm _]]] [m2 [x2 [w2 [Hm2 _]]]]. cbn [phi]. rewrite Hm2. discriminate.
  - intros [m [x [w [Hm _]]]] [m2 [w2 [Hm2 _]]]. cbn [phi]. rewrite Hm. discriminate.
  - intros [m [x [w [Hm [Hf [He _]]]]]] [m2 [x2 [w2 [Hm2 [Hf2 [He2 _]]]]]]. cbn [phi]. rewrite Hm, Hm2.
    intros E. inversion E as [[Ep Ei Ee Eport Ek]].
    pose proof (tr_path_inj _ _ _ _ Hm Hm2 Ep) as ->. rewrite Hm in Hm2. inversion Hm2; subst m2.
    destruct (vmod_at_tr _ _ Hm) as [m' [_ R]].
    destruct (H_inj _ _ _ _ _ _ _ _ R Hf He Hf2 He2) as [-> ->]; [|reflexivity].
    destruct (rho m (i, e)), (rho m (j, f)). cbn [fst snd] in *. congruence.
Qed.

Theorem sim_same_net x y : valid d x -> valid d y -> (same_net d x y <-> same_net d' (phi x) (phi y)).
Proof.
  intros Hx Hy. rewrite !same_net_meet_r.
  apply (sim_meet node node (Nets.step d) (Nets.step d') (valid d) phi H_total sim_commute phi_inj x y Hx Hy).
Qed.
(* the leaf device (or sub-module) an instance element stands for is kept *)
Lemma sim_inst p i e port k m x : vmod_at d p = Ok m -> find_inst (m_insts m) i = Some x -> elem_ok x e = true ->
  exists m' x', vmod_at d' (tr_path p) = Ok m' /\ find_inst (m_insts m') (fst (rho m (i, e))) = Some x' /\
    tgt_rel mu (i_of x) (i_of x') /\
    phi (NPort p i e port k) = NPort (tr_path p) (fst (rho m (i, e))) (snd (rho m (i, e))) port k.
Proof.
  intros Hm Hf He. destruct (vmod_at_tr _ _ Hm) as [m' [Hm' R]]. destruct (H_inst _ _ _ _ _ R Hf He) as [x' [Hf' [_ Ht]]].
  exists m', x'. split; [exact Hm'|]. split; [exact Hf'|]. split; [exact Ht|]. cbn [phi]. rewrite Hm. reflexivity.
Qed.

Theorem sim_dev n dev : valid d n -> dev_at d n = Ok dev -> dev_at d' (phi n) = Ok dev.
Proof.
  destruct n as [p s k|p i e port k|p s k]; cbn [valid dev_at phi]; [tauto| |tauto].
  intros [m [x [w [Hm [Hf [He _]]]]]]. rewrite Hm. cbn [bind]. rewrite Hf. cbn [ofopt bind dev_at].
  destruct (sim_inst p i e port k m x Hm Hf He) as [m' [x' [Hm' [Hf' [Ht _]]]]]. rewrite Hm'. cbn [bind]. rewrite Hf'. cbn [ofopt bind].
  destruct (i_of x) as [j|dv ps], (i_of x') as [j'|dv' ps']; cbn [tgt_rel] in Ht; try tauto; try discriminate.
  destruct Ht as [-> _]. tauto.
Qed.

End Sim.

(* a simulation that renames nothing is the identity on nodes *)
Lemma tr_down_id d rho : (forall m ie, rho m ie = ie) -> forall p m, tr_down d rho m p = p.
Proof.
  intros H. induction p as [|[i e] p IH]; intros m; cbn [tr_down]; [reflexivity|]. rewrite H. f_equal.
  destruct (find_inst (m_insts m) i) as [x|]; [|reflexivity]. destruct (i_of x) as [k|]; [|reflexivity].
  destruct (nth_mod d k); [apply IH|reflexivity].
Qed.

Lemma phi_id d rho : (forall m ie, rho m ie = ie) -> forall n, phi d rho n = n.
Proof.
  intros H n. assert (forall p, tr_path d rho p = p) as Hp.
  { intros p. unfold tr_path. destruct (nth_mod d (d_top d)); [|reflexivity]. rewrite tr_down_id by exact H. apply rev_involutive. }
  destruct n as [p s k|p i e port k|p s k]; cbn [phi]; [rewrite Hp; reflexivity| |reflexivity].
  destruct (vmod_at d p); [|reflexivity]. rewrite H, Hp. reflexivity.
Qed.
