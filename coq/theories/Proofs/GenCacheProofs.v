(* Proofs/GenCacheProofs.v — the invariant of the generator cache over all call histories. *)
Require Import Hdl21.Base.PyInt Hdl21.Model.GenCache.
From Coq Require Import String.
Open Scope list_scope.

Lemma NoDup_snoc {A} (l : list A) x : NoDup l -> ~ In x l -> NoDup (l ++ [x]).
Proof.
  induction l as [|a l IH]; simpl; intros N H.
  - constructor; [tauto|constructor].
  - inversion N; subst. constructor.
    + intros I. apply in_app_or in I. destruct I as [I|[I|[]]]; [contradiction|subst; apply H; auto].
    + apply IH; tauto.
Qed.

Lemma Forall2_len {A B} (P : A -> B -> Prop) l1 l2 : Forall2 P l1 l2 -> List.length l1 = List.length l2.
Proof. induction 1; simpl; congruence. Qed.

Ltac split5 := refine (conj _ (conj _ (conj _ (conj _ _)))).

Section Proofs.
Variable K : Type.
Variable keqb : K -> K -> bool.
Hypothesis keqb_eq : forall a b, keqb a b = true <-> a = b.
Variable prog : K -> body K.
Variable gen_name : K -> string.
Variable has_params : K -> bool.
Variable suffix : K -> string.

Notation run := (run keqb prog gen_name has_params suffix).
Notation run_hist := (run_hist keqb prog gen_name has_params suffix).
Notation lookup := (lookup keqb).
Notation memk := (memk keqb).
Notation removek := (removek keqb).
Notation cname := (created_name prog gen_name has_params suffix).
Notation Origin := (Origin prog).

Lemma keqb_refl a : keqb a a = true.
Proof. apply keqb_eq. reflexivity. Qed.

Lemma keqb_neq a b : keqb a b = false <-> a <> b.
Proof.
  split.
  - intros H E. apply keqb_eq in E. congruence.
  - intros H. destruct (keqb a b) eqn:E; [|reflexivity]. apply keqb_eq in E. contradiction.
Qed.

Lemma lookup_None k l : lookup k l = None <-> ~ In k (map fst l).
Proof.
  induction l as [|[k' m] l IH]; simpl.
  - tauto.
  - destruct (keqb k k') eqn:E.
    + apply keqb_eq in E. subst. split; [discriminate|]. intros H. exfalso. apply H. auto.
    + apply keqb_neq in E. rewrite IH. split; intros H; [intros [H1|H1]; [congruence|contradiction]|tauto].
Qed.

Lemma lookup_Some_in k l m : lookup k l = Some m -> In k (map fst l).
Proof.
  intros H. destruct (in_dec (fun a b => match keqb a b as x return (keqb a b = x -> _) with
    | true => fun E => left (proj1 (keqb_eq a b) E)
    | false => fun E => right (proj1 (keqb_neq a b) E) end eq_refl) k (map fst l)) as [I|N]; [assumption|].
  apply lookup_None in N. congruence.
Qed.

Lemma memk_false k l : memk k l = false <-> ~ In k l.
Proof.
  unfold GenCache.memk. induction l as [|x l IH]; simpl.
  - tauto.
  - rewrite orb_false_iff, IH, keqb_neq. split; [intros [H1 H2] [H|H]; [congruence|contradiction]|].
    intros H. split; [intros E; apply H; auto|tauto].
Qed.

Lemma removek_notin k l : ~ In k l -> removek k l = l.
Proof.
  unfold GenCache.removek. induction l as [|x l IH]; simpl; intros H; [reflexivity|].
  destruct (keqb k x) eqn:E.
  - apply keqb_eq in E. subst. exfalso. apply H. auto.
  - simpl. f_equal. apply IH. tauto.
Qed.

Lemma removek_head k l : ~ In k l -> removek k (k :: l) = l.
Proof.
  intros H. unfold GenCache.removek. simpl. rewrite keqb_refl. simpl. apply removek_notin. assumption.
Qed.

Lemma Origin_fun k c1 : Origin k c1 -> forall c2, Origin k c2 -> c1 = c2.
Proof.
  induction 1 as [k o R|k i k' c R N O IH]; intros c2 H2; inversion H2 as [k2 o2 R2|k2 i2 k2' c2' R2 N2 O2]; subst.
  - reflexivity.
  - congruence.
  - congruence.
  - rewrite R in R2. inversion R2; subst. rewrite N in N2. inversion N2; subst. apply IH. assumption.
Qed.

Lemma Forall2_nth {A B} (P : A -> B -> Prop) l1 l2 : Forall2 P l1 l2 ->
  forall i a b, nth_error l1 i = Some a -> nth_error l2 i = Some b -> P a b.
Proof.
  induction 1 as [|x y l1 l2 Hxy H IH]; intros i a b Ha Hb; destruct i; simpl in *; try discriminate.
  - inversion Ha; inversion Hb; subst. assumption.
  - eapply IH; eassumption.
Qed.

Lemma Forall2_nth_right {A B} (P : A -> B -> Prop) l1 l2 : Forall2 P l1 l2 ->
  forall i b, nth_error l2 i = Some b -> exists a, nth_error l1 i = Some a /\ P a b.
Proof.
  induction 1 as [|x y l1 l2 Hxy H IH]; intros i b Hb; destruct i; simpl in *; try discriminate.
  - inversion Hb; subst. eauto.
  - eapply IH; eassumption.
Qed.

(* ---------- the invariant ---------- *)
Record Inv (st : state K) : Prop := {
  I_nodup : NoDup (runs st);
  I_runs : forall k, In k (runs st) <-> (In k (map fst (done st)) \/ In k (pending st));
  I_disj : forall k, In k (pending st) -> ~ In k (map fst (done st));
  I_done : forall k m, lookup k (done st) = Some m ->
           exists gm, nth_error (heap st) m = Some gm /\ Origin k (m_creator gm);
  I_name : forall m gm, nth_error (heap st) m = Some gm -> m_name gm = cname (m_creator gm);
  I_creat : NoDup (map m_creator (heap st));
  I_creat_done : forall gm, In gm (heap st) -> In (m_creator gm) (map fst (done st))
}.

Definition Ext (st st' : state K) : Prop :=
  (forall k m, lookup k (done st) = Some m -> lookup k (done st') = Some m) /\
  (exists l, heap st' = heap st ++ l) /\
  (exists l, runs st' = l ++ runs st).

Lemma Ext_refl st : Ext st st.
Proof. repeat split; auto; exists []; [rewrite app_nil_r|]; reflexivity. Qed.

Lemma Ext_trans a b c : Ext a b -> Ext b c -> Ext a c.
Proof.
  intros [D1 [[h1 H1] [r1 R1]]] [D2 [[h2 H2] [r2 R2]]]. repeat split.
  - auto.
  - exists (h1 ++ h2). rewrite H2, H1, app_assoc. reflexivity.
  - exists (r2 ++ r1). rewrite R2, R1, app_assoc. reflexivity.
Qed.

Definition Post (st : state K) (k : K) (st' : state K) (m : nat) : Prop :=
  Inv st' /\ pending st' = pending st /\ stack st' = stack st /\ Ext st st' /\ lookup k (done st') = Some m.

Definition Good (r : state K -> K -> result (state K * nat)) : Prop :=
  forall st k st' m, Inv st -> r st k = Ok (st', m) -> Post st k st' m.

Lemma fold_good r : Good r -> forall ks st st' ms, Inv st -> fold_calls r st ks = Ok (st', ms) ->
  Inv st' /\ pending st' = pending st /\ stack st' = stack st /\ Ext st st' /\
  Forall2 (fun k m => lookup k (done st') = Some m) ks ms.
Proof.
  intros G. induction ks as [|k ks IH]; intros st st' ms I H; simpl in H.
  - inversion H; subst. split5; auto using Ext_refl.
  - destruct (r st k) as [[st1 m]|e] eqn:R; simpl in H; [|discriminate].
    destruct (fold_calls r st1 ks) as [[st2 ms2]|e] eqn:F; simpl in H; [|discriminate].
    inversion H; subst. clear H.
    destruct (G _ _ _ _ I R) as [I1 [P1 [S1 [E1 L1]]]].
    destruct (IH _ _ _ I1 F) as [I2 [P2 [S2 [E2 F2]]]].
    split5; try congruence.
    + eapply Ext_trans; eassumption.
    + constructor; [|assumption]. destruct E2 as [D2 _]. apply D2. assumption.
Qed.

Lemma inv_enter st k : Inv st -> lookup k (done st) = None -> memk k (pending st) = false ->
  Inv {| done := done st; pending := k :: pending st; stack := k :: stack st; heap := heap st; runs := k :: runs st |}.
Proof.
  intros I L M. apply lookup_None in L. apply memk_false in M. destruct I. constructor; cbn [done pending stack heap runs].
  - constructor; [|assumption]. intros H. apply I_runs0 in H. tauto.
  - intros k'. simpl. rewrite I_runs0. tauto.
  - intros k' [<-|H]; auto.
  - assumption.
  - assumption.
  - assumption.
  - assumption.
Qed.

Lemma nth_error_app_old {A} (l l' : list A) m x : nth_error l m = Some x -> nth_error (l ++ l') m = Some x.
Proof. intros H. rewrite nth_error_app1; [assumption|]. apply nth_error_Some. congruence. Qed.

Lemma run_good : forall fuel, Good (run fuel).
Proof.
  induction fuel as [|f IHf]; intros st k st' m I H; simpl in H; [discriminate|].
  destruct (lookup k (done st)) as [m0|] eqn:L.
  { inversion H; subst. split5; auto using Ext_refl. }
  destruct (memk k (pending st)) eqn:M; [discriminate|].
  pose proof (inv_enter st k I L M) as I1.
  set (st1 := {| done := done st; pending := k :: pending st; stack := k :: stack st; heap := heap st; runs := k :: runs st |}) in *.
  destruct (fold_calls (run f) st1 (b_calls (prog k))) as [[st2 ms]|e] eqn:F; simpl in H; [|discriminate].
  destruct (fold_good _ IHf _ _ _ _ I1 F) as [I2 [P2 [S2 [E2 F2]]]].
  cbn [pending stack st1] in P2, S2.
  assert (~ In k (pending st)) as NP by (apply memk_false; assumption).
  assert (~ In k (map fst (done st2))) as ND.
  { apply (I_disj _ I2). rewrite P2. left. reflexivity. }
  assert (Ext st st1) as E01.
  { refine (conj _ (conj _ _)); cbn [done heap runs st1]; auto; [exists []; rewrite app_nil_r; reflexivity|exists [k]; reflexivity]. }
  pose proof (Ext_trans _ _ _ E01 E2) as E02.
  assert (forall mm, Ext st2 {| done := (k, mm) :: done st2; pending := removek k (pending st2);
                               stack := tl (stack st2); heap := heap st2; runs := runs st2 |}) as Estep_pass.
  { intros mm. refine (conj _ (conj _ _)); cbn [done heap runs]; [|exists []; rewrite app_nil_r; reflexivity|exists []; reflexivity].
    intros k' m' H'. simpl. destruct (keqb k' k) eqn:E; [|assumption].
    apply keqb_eq in E. subst. apply lookup_Some_in in H'. contradiction. }
  destruct (b_ret (prog k)) as [o|i] eqn:R; simpl in H.
  - (* a module created by this body *)
    inversion H; subst. clear H. cbn [fst snd].
    set (gm := {| m_name := fresh_name gen_name has_params suffix k o; m_creator := k |}).
    split5; [|cbn [pending]|cbn [stack]|refine (conj _ (conj _ _)); cbn [done heap runs]|cbn [done]].
    + constructor; cbn [done pending stack heap runs].
      * apply (I_nodup _ I2).
      * intros k'. rewrite (I_runs _ I2), P2, removek_head by assumption. simpl. tauto.
      * rewrite P2, removek_head by assumption. intros k' Hk' [E|Hd]; [simpl in E; congruence|].
        apply (I_disj _ I2 k'); [rewrite P2; right; assumption|assumption].
      * intros k' m' H'. simpl in H'. destruct (keqb k' k) eqn:E.
        -- apply keqb_eq in E. inversion H'; subst. exists gm. split.
           ++ rewrite nth_error_app2 by lia. rewrite Nat.sub_diag. reflexivity.
           ++ eapply O_fresh. eassumption.
        -- destruct (I_done _ I2 _ _ H') as [g [Hg Og]]. exists g. split; [apply nth_error_app_old; assumption|assumption].
      * intros m' g Hg. destruct (Nat.lt_ge_cases m' (List.length (heap st2))) as [Hl|Hl].
        -- rewrite nth_error_app1 in Hg by assumption. apply (I_name _ I2 _ _ Hg).
        -- rewrite nth_error_app2 in Hg by assumption.
           destruct (m' - List.length (heap st2))%nat as [|n]; simpl in Hg; [|destruct n; discriminate].
           inversion Hg as [Hg']. unfold gm. cbn [m_name m_creator]. unfold created_name. rewrite R. reflexivity.
      * rewrite map_app. simpl. apply NoDup_snoc.
        -- apply (I_creat _ I2).
        -- intros Hin. apply in_map_iff in Hin. destruct Hin as [g [Eg Hg]]. apply (I_creat_done _ I2) in Hg.
           rewrite Eg in Hg. contradiction.
      * intros g Hg. apply in_app_or in Hg. destruct Hg as [Hg|[<-|[]]].
        -- right. apply (I_creat_done _ I2). assumption.
        -- left. reflexivity.
    + rewrite P2. apply removek_head. assumption.
    + rewrite S2. reflexivity.
    + destruct E02 as [D _]. intros k' m' H'. simpl. destruct (keqb k' k) eqn:E.
      * apply keqb_eq in E. subst. congruence.
      * apply D. assumption.
    + destruct E02 as [_ [[l Hl] _]]. exists (l ++ [gm]). rewrite Hl, app_assoc. reflexivity.
    + destruct E02 as [_ [_ HR]]. exact HR.
    + simpl. rewrite keqb_refl. reflexivity.
  - (* the module of the i-th nested call, handed on *)
    destruct (nth_error ms i) as [mi|] eqn:N; simpl in H; [|discriminate].
    inversion H; subst. clear H. cbn [fst snd].
    destruct (Forall2_nth_right _ _ _ F2 _ _ N) as [ki [Nk Lk]].
    split5; [|cbn [pending]|cbn [stack]|refine (conj _ (conj _ _)); cbn [done heap runs]|cbn [done]].
    + constructor; cbn [done pending stack heap runs].
      * apply (I_nodup _ I2).
      * intros k'. rewrite (I_runs _ I2), P2, removek_head by assumption. simpl. tauto.
      * rewrite P2, removek_head by assumption. intros k' Hk' [E|Hd]; [simpl in E; congruence|].
        apply (I_disj _ I2 k'); [rewrite P2; right; assumption|assumption].
      * intros k' m' H'. simpl in H'. destruct (keqb k' k) eqn:E.
        -- apply keqb_eq in E. inversion H'; subst.
           destruct (I_done _ I2 _ _ Lk) as [g [Hg Og]]. exists g. split; [assumption|].
           eapply O_pass; eassumption.
        -- apply (I_done _ I2 _ _ H').
      * apply (I_name _ I2).
      * apply (I_creat _ I2).
      * intros g Hg. right. apply (I_creat_done _ I2). assumption.
    + rewrite P2. apply removek_head. assumption.
    + rewrite S2. reflexivity.
    + destruct E02 as [D _]. intros k' m' H'. simpl. destruct (keqb k' k) eqn:E.
      * apply keqb_eq in E. subst. congruence.
      * apply D. assumption.
    + destruct E02 as [_ [HL _]]. exact HL.
    + destruct E02 as [_ [_ HR]]. exact HR.
    + simpl. rewrite keqb_refl. reflexivity.
Qed.

(* ---------- histories ---------- *)
Lemma Inv_init : Inv init.
Proof.
  constructor; simpl; try constructor; try tauto; try discriminate.
  intros m gm H. destruct m; discriminate.
Qed.

Lemma hist_inv fuel ks st ms : run_hist fuel ks = Ok (st, ms) ->
  Inv st /\ pending st = [] /\ stack st = [] /\ Forall2 (fun k m => lookup k (done st) = Some m) ks ms.
Proof.
  intros H. destruct (fold_good _ (run_good fuel) _ _ _ _ Inv_init H) as [I [P [S [_ F]]]]. auto.
Qed.

(* equal parameters -> the identical module *)
Lemma memo_same fuel ks st ms i j k mi mj : run_hist fuel ks = Ok (st, ms) ->
  nth_error ks i = Some k -> nth_error ks j = Some k ->
  nth_error ms i = Some mi -> nth_error ms j = Some mj -> mi = mj.
Proof.
  intros H Ki Kj Mi Mj. destruct (hist_inv _ _ _ _ H) as [_ [_ [_ F]]].
  pose proof (Forall2_nth _ _ _ F _ _ _ Ki Mi) as A. pose proof (Forall2_nth _ _ _ F _ _ _ Kj Mj) as B.
  simpl in A, B. congruence.
Qed.

(* every body that ran, ran once; the bodies that ran are exactly the calls that completed,
   and every top-level call is among them *)
Lemma memo_once fuel ks st ms : run_hist fuel ks = Ok (st, ms) ->
  NoDup (runs st) /\ (forall k, In k (runs st) <-> In k (map fst (done st))) /\ (forall k, In k ks -> In k (runs st)).
Proof.
  intros H. destruct (hist_inv _ _ _ _ H) as [I [P [_ F]]]. split; [apply (I_nodup _ I)|]. split.
  - intros k. rewrite (I_runs _ I), P. simpl. tauto.
  - intros k Hk. apply (I_runs _ I). left. apply In_nth_error in Hk. destruct Hk as [i Hi].
    destruct (nth_error ms i) as [m|] eqn:Mi.
    + eapply lookup_Some_in. eapply (Forall2_nth _ _ _ F); eassumption.
    + exfalso. apply Forall2_len in F. apply nth_error_None in Mi. assert (nth_error ks i <> None) as Q by congruence.
      apply nth_error_Some in Q. lia.
Qed.

Lemma count_once fuel ks st ms (dec : forall a b : K, {a = b} + {a <> b}) k :
  run_hist fuel ks = Ok (st, ms) -> In k ks -> count_occ dec (runs st) k = 1%nat.
Proof.
  intros H Hk. destruct (memo_once _ _ _ _ H) as [N [_ A]].
  pose proof (proj1 (NoDup_count_occ dec (runs st)) N k) as Le.
  pose proof (proj1 (count_occ_In dec (runs st) k) (A k Hk)) as Ge. lia.
Qed.

(* the module returned for a call is the one created by the call at the end of its hand-on chain,
   and carries the name that call gave it *)
Lemma returned_module fuel ks st ms i k m : run_hist fuel ks = Ok (st, ms) ->
  nth_error ks i = Some k -> nth_error ms i = Some m ->
  exists gm, nth_error (heap st) m = Some gm /\ Origin k (m_creator gm) /\ m_name gm = cname (m_creator gm).
Proof.
  intros H Ki Mi. destruct (hist_inv _ _ _ _ H) as [I [_ [_ F]]].
  pose proof (Forall2_nth _ _ _ F _ _ _ Ki Mi) as L. simpl in L.
  destruct (I_done _ I _ _ L) as [gm [Hg Og]]. exists gm. split; [assumption|]. split; [assumption|].
  apply (I_name _ I _ _ Hg).
Qed.

Lemma NoDup_map_nth {A B} (f : A -> B) (l : list A) : NoDup (map f l) ->
  forall i j a b, nth_error l i = Some a -> nth_error l j = Some b -> f a = f b -> i = j.
Proof.
  intros N i j a b Ha Hb E. apply (proj1 (NoDup_nth_error (map f l)) N).
  - rewrite map_length. apply nth_error_Some. congruence.
  - rewrite !nth_error_map, Ha, Hb. simpl. congruence.
Qed.

(* two calls return the same module exactly when their hand-on chains end at the same creating call *)
Lemma same_module_iff fuel ks st ms i j ki kj mi mj ci cj : run_hist fuel ks = Ok (st, ms) ->
  nth_error ks i = Some ki -> nth_error ks j = Some kj ->
  nth_error ms i = Some mi -> nth_error ms j = Some mj ->
  Origin ki ci -> Origin kj cj -> (mi = mj <-> ci = cj).
Proof.
  intros H Ki Kj Mi Mj Oi Oj.
  destruct (returned_module _ _ _ _ _ _ _ H Ki Mi) as [gi [Gi [Oi' _]]].
  destruct (returned_module _ _ _ _ _ _ _ H Kj Mj) as [gj [Gj [Oj' _]]].
  pose proof (Origin_fun _ _ Oi _ Oi') as Ei. pose proof (Origin_fun _ _ Oj _ Oj') as Ej.
  destruct (hist_inv _ _ _ _ H) as [I _]. split.
  - intros <-. rewrite Gi in Gj. inversion Gj; subst. congruence.
  - intros E. eapply (NoDup_map_nth m_creator); [apply (I_creat _ I)|eassumption|eassumption|congruence].
Qed.

(* unequal parameters, bodies that build their own module -> distinct modules *)
Lemma fresh_distinct fuel ks st ms i j ki kj mi mj oi oj : run_hist fuel ks = Ok (st, ms) ->
  nth_error ks i = Some ki -> nth_error ks j = Some kj ->
  nth_error ms i = Some mi -> nth_error ms j = Some mj ->
  b_ret (prog ki) = RFresh oi -> b_ret (prog kj) = RFresh oj -> ki <> kj -> mi <> mj.
Proof.
  intros H Ki Kj Mi Mj Ri Rj N E.
  assert (Origin ki ki) as Oi by (eapply O_fresh; eassumption).
  assert (Origin kj kj) as Oj by (eapply O_fresh; eassumption).
  apply N. apply (proj1 (same_module_iff _ _ _ _ _ _ _ _ _ _ _ _ H Ki Kj Mi Mj Oi Oj)). assumption.
Qed.

(* the name of the module returned for a call is the same in every history *)
Lemma name_history_free f1 f2 ks1 ks2 st1 st2 ms1 ms2 i j k m1 m2 g1 g2 :
  run_hist f1 ks1 = Ok (st1, ms1) -> run_hist f2 ks2 = Ok (st2, ms2) ->
  nth_error ks1 i = Some k -> nth_error ks2 j = Some k ->
  nth_error ms1 i = Some m1 -> nth_error ms2 j = Some m2 ->
  nth_error (heap st1) m1 = Some g1 -> nth_error (heap st2) m2 = Some g2 ->
  m_name g1 = m_name g2.
Proof.
  intros H1 H2 K1 K2 M1 M2 G1 G2.
  destruct (returned_module _ _ _ _ _ _ _ H1 K1 M1) as [a [Ga [Oa Na]]].
  destruct (returned_module _ _ _ _ _ _ _ H2 K2 M2) as [b [Gb [Ob Nb]]].
  rewrite G1 in Ga. rewrite G2 in Gb. inversion Ga; inversion Gb; subst.
  rewrite Na, Nb. f_equal. eapply Origin_fun; eassumption.
Qed.

(* if the naming function is injective on the calls that create modules, then
   no two generated modules of a history share a name *)
Lemma heap_names_unique fuel ks st ms m1 m2 g1 g2 : run_hist fuel ks = Ok (st, ms) ->
  (forall c1 c2, In c1 (map m_creator (heap st)) -> In c2 (map m_creator (heap st)) -> cname c1 = cname c2 -> c1 = c2) ->
  nth_error (heap st) m1 = Some g1 -> nth_error (heap st) m2 = Some g2 -> m_name g1 = m_name g2 -> m1 = m2.
Proof.
  intros H Inj G1 G2 E. destruct (hist_inv _ _ _ _ H) as [I _].
  rewrite (I_name _ I _ _ G1), (I_name _ I _ _ G2) in E.
  eapply (NoDup_map_nth m_creator); [apply (I_creat _ I)|eassumption|eassumption|].
  apply Inj; try assumption; apply in_map; eapply nth_error_In; eassumption.
Qed.

(* results do not depend on the fuel: more fuel gives the same answer *)
Lemma fold_mono (r r' : state K -> K -> result (state K * nat)) :
  (forall st k x, r st k = Ok x -> r' st k = Ok x) ->
  forall ks st x, fold_calls r st ks = Ok x -> fold_calls r' st ks = Ok x.
Proof.
  intros M. induction ks as [|k ks IH]; intros st x H; simpl in *; [assumption|].
  destruct (r st k) as [p|e] eqn:R; simpl in H; [|discriminate]. rewrite (M _ _ _ R). simpl.
  destruct (fold_calls r (fst p) ks) as [q|e] eqn:F; simpl in H; [|discriminate]. rewrite (IH _ _ F). simpl. assumption.
Qed.

Lemma run_step_mono f f' : (forall st k x, run f st k = Ok x -> run f' st k = Ok x) ->
  forall st k x, run (S f) st k = Ok x -> run (S f') st k = Ok x.
Proof.
  intros M st k x H. simpl in H |- *.
  destruct (lookup k (done st)); [assumption|].
  destruct (memk k (pending st)); [assumption|].
  match type of H with context [fold_calls ?r ?s ?l] => destruct (fold_calls r s l) as [p|e] eqn:F; simpl in H; [|discriminate] end.
  rewrite (fold_mono _ _ M _ _ _ F). simpl. assumption.
Qed.

Lemma run_fuel_mono : forall fuel st k x, run fuel st k = Ok x -> run (S fuel) st k = Ok x.
Proof.
  induction fuel as [|f IH]; intros st k x H; [discriminate|].
  eapply run_step_mono; [exact IH|exact H].
Qed.

End Proofs.
