(* Proofs/C06ExportProofs.v — invariants of the exporter model (Model/C06Export.v). *)
Require Import Hdl21.Base.PyInt Hdl21.Spec.PySlice Hdl21.Model.Slice Hdl21.Model.Resolve Hdl21.Base.Design
               Hdl21.Base.Package Hdl21.Spec.WfDesign Hdl21.Spec.PkgWf Hdl21.Spec.C06Accept Hdl21.Model.C06Export
               Hdl21.Proofs.PkgWfProofs.
From Coq Require Import String.
Local Open Scope list_scope.

(* ------------------------------------------------------------------------------------------ find_ext / nodup_exts *)
Definition xmatch (dom nm : name) (x : pext) : bool := String.eqb (px_domain x) dom && String.eqb (px_name x) nm.

Lemma find_ext_some xs dom nm x : find_ext xs dom nm = Some x -> In x xs /\ px_domain x = dom /\ px_name x = nm.
Proof.
  induction xs as [|y xs IH]; cbn [find_ext]; [discriminate|].
  destruct (String.eqb (px_domain y) dom && String.eqb (px_name y) nm) eqn:E.
  - intros H. inversion H; subst. apply andb_prop in E. destruct E as [E1 E2].
    apply String.eqb_eq in E1. apply String.eqb_eq in E2. split; [left; reflexivity|split; assumption].
  - intros H. destruct (IH H) as [Hin Hx]. split; [right; exact Hin|exact Hx].
Qed.

Lemma find_ext_none xs dom nm : find_ext xs dom nm = None -> forall x, In x xs -> xmatch dom nm x = false.
Proof.
  induction xs as [|y xs IH]; cbn [find_ext]; intros H x Hx; [destruct Hx|].
  unfold xmatch. destruct (String.eqb (px_domain y) dom && String.eqb (px_name y) nm) eqn:E; [discriminate|].
  destruct Hx as [<-|Hx]; [exact E|]. exact (IH H x Hx).
Qed.

Lemma find_ext_app xs ys dom nm x : find_ext xs dom nm = Some x -> find_ext (xs ++ ys) dom nm = Some x.
Proof.
  induction xs as [|y xs IH]; cbn [find_ext app]; [discriminate|].
  destruct (String.eqb (px_domain y) dom && String.eqb (px_name y) nm); [auto|exact IH].
Qed.

Lemma find_ext_app_new xs d : find_ext xs (px_domain d) (px_name d) = None ->
  find_ext (xs ++ [d]) (px_domain d) (px_name d) = Some d.
Proof.
  induction xs as [|y xs IH]; cbn [find_ext app].
  - intros _. rewrite !String.eqb_refl. reflexivity.
  - destruct (String.eqb (px_domain y) (px_domain d) && String.eqb (px_name y) (px_name d)); [discriminate|exact IH].
Qed.

Lemma nodup_exts_app_new xs d : nodup_exts xs = true -> find_ext xs (px_domain d) (px_name d) = None ->
  nodup_exts (xs ++ [d]) = true.
Proof.
  induction xs as [|y xs IH]; cbn [nodup_exts app find_ext]; [reflexivity|].
  intros Hn Hf. apply andb_prop in Hn. destruct Hn as [Hy Hn].
  destruct (String.eqb (px_domain y) (px_domain d) && String.eqb (px_name y) (px_name d)) eqn:E; [discriminate|].
  rewrite (IH Hn Hf), andb_true_r. rewrite existsb_app. cbn [existsb]. rewrite orb_false_r.
  apply negb_true_iff in Hy. rewrite Hy. cbn [orb]. rewrite E. reflexivity.
Qed.

(* ------------------------------------------------------------------------------------------ list facts *)
Lemma app_last_split {A} (l : list A) x pre m post : l ++ [x] = pre ++ m :: post ->
  (post = [] /\ pre = l /\ m = x) \/ (exists post', post = post' ++ [x] /\ l = pre ++ m :: post').
Proof.
  revert pre. induction l as [|a l IH]; intros pre H.
  - destruct pre as [|b pre]; cbn [app] in H.
    + inversion H; subst. left. auto.
    + inversion H. destruct pre; discriminate.
  - destruct pre as [|b pre]; cbn [app] in H.
    + inversion H; subst. right. exists l. auto.
    + inversion H; subst. destruct (IH pre H2) as [[-> [-> ->]]|[post' [-> ->]]].
      * left. auto.
      * right. exists post'. auto.
Qed.

Lemma NoDup_app_last {A} (l : list A) x : NoDup l -> ~ In x l -> NoDup (l ++ [x]).
Proof.
  induction l as [|a l IH]; cbn [app]; intros Hn Hx.
  - constructor; [intros []|constructor].
  - inversion Hn; subst. constructor.
    + intros Hin. apply in_app_or in Hin. destruct Hin as [Hin|[<-|[]]]; [contradiction|apply Hx; left; reflexivity].
    + apply IH; [assumption|intros Hin; apply Hx; right; exact Hin].
Qed.

Lemma mem_name_false n l : mem_name n l = false -> ~ In n l.
Proof.
  unfold mem_name. intros H Hin. assert (X : existsb (String.eqb n) l = true).
  { apply existsb_exists. exists n. split; [exact Hin|apply String.eqb_refl]. }
  congruence.
Qed.

(* ------------------------------------------------------------------------------------------ the invariant *)
Lemma pext_eqb_names x d : pext_eqb x d = true -> px_domain x = px_domain d /\ px_name x = px_name d.
Proof.
  unfold pext_eqb. intros H. apply andb_prop in H. destruct H as [H _]. apply andb_prop in H. destruct H as [H _].
  apply andb_prop in H. destruct H as [H1 H2]. apply String.eqb_eq in H1. apply String.eqb_eq in H2. auto.
Qed.

Lemma pext_eqb_refl d : pext_eqb d d = true.
Proof.
  unfold pext_eqb. rewrite !String.eqb_refl. cbn [andb]. rewrite andb_true_r.
  induction (px_ports d) as [|[[n w] dd] l IH]; cbn [ports_eqb]; [reflexivity|].
  rewrite String.eqb_refl, !Z.eqb_refl, IH. reflexivity.
Qed.

Section Inv.
Variable xh : xheap.

Record inv (st : xstate) : Prop := {
  inv_names : xs_by_name st = map fst (xs_out st);
  inv_ids : forall k nm, In (k, nm) (xs_by_id st) -> In nm (map fst (xs_out st));
  inv_nodup : NoDup (map fst (xs_out st));
  inv_dbu : forall pre m post, xs_out st = pre ++ m :: post -> forall nm, In (OLocal nm) (snd m) -> In nm (map fst pre);
  inv_ext_nodup : nodup_exts (xs_exts st) = true;
  inv_ext_ids : forall j x, In (j, x) (xs_ext_ids st) ->
     find_ext (xs_exts st) (px_domain x) (px_name x) = Some x /\ exists d, nth_error xh j = Some d /\ pext_eqb x d = true;
  inv_ext_closed : forall m d n, In m (xs_out st) -> In (OExt d n) (snd m) -> exists x, find_ext (xs_exts st) d n = Some x
}.

Definition grows (st st' : xstate) : Prop :=
  (exists more, xs_out st' = xs_out st ++ more) /\ (exists more, xs_exts st' = xs_exts st ++ more).

Lemma grows_refl st : grows st st.
Proof. split; exists []; rewrite app_nil_r; reflexivity. Qed.

Lemma grows_trans a b c : grows a b -> grows b c -> grows a c.
Proof.
  intros [[m1 H1] [e1 G1]] [[m2 H2] [e2 G2]]. split.
  - exists (m1 ++ m2). rewrite H2, H1, app_assoc. reflexivity.
  - exists (e1 ++ e2). rewrite G2, G1, app_assoc. reflexivity.
Qed.

Lemma grows_name a b nm : grows a b -> In nm (map fst (xs_out a)) -> In nm (map fst (xs_out b)).
Proof. intros [[m H] _] Hin. rewrite H, map_app. apply in_or_app. left. exact Hin. Qed.

Lemma grows_ext a b d n x : grows a b -> find_ext (xs_exts a) d n = Some x -> find_ext (xs_exts b) d n = Some x.
Proof. intros [_ [m H]] Hf. rewrite H. apply find_ext_app. exact Hf. Qed.

Lemma inv_init : inv xs_init.
Proof.
  constructor; cbn; try reflexivity; try (intros; contradiction); try constructor.
  intros pre m post H. destruct pre; discriminate.
Qed.

Lemma assoc_nat_in {A} k (l : list (nat * A)) v : assoc_nat k l = Some v -> In (k, v) l.
Proof.
  induction l as [|[k' v'] l IH]; cbn [assoc_nat]; [discriminate|].
  destruct (Nat.eqb k k') eqn:E.
  - intros H. inversion H; subst. apply Nat.eqb_eq in E. subst. left. reflexivity.
  - intros H. right. exact (IH H).
Qed.

(* export_external_module keeps the invariant, only ever appends, and afterwards the (domain, name) of the object's
   own declaration is declared in the package - by a declaration equal to the object's *)
Lemma export_ext_inv st j st' : inv st -> export_ext xh st j = Ok st' ->
  inv st' /\ grows st st' /\ xs_out st' = xs_out st /\
  exists d x, nth_error xh j = Some d /\ find_ext (xs_exts st') (px_domain d) (px_name d) = Some x /\ pext_eqb x d = true.
Proof.
  intros I. unfold export_ext.
  destruct (assoc_nat j (xs_ext_ids st)) as [x|] eqn:Ea.
  - intros H. inversion H; subst st'. split; [exact I|]. split; [apply grows_refl|]. split; [reflexivity|].
    apply assoc_nat_in in Ea. destruct (inv_ext_ids st I _ _ Ea) as [Hf [d [Hd He]]].
    exists d, x. split; [exact Hd|]. destruct (pext_eqb_names _ _ He) as [<- <-]. split; [exact Hf|exact He].
  - destruct (nth_error xh j) as [d|] eqn:Hd; cbn [ofopt bind]; [|discriminate].
    destruct (find_ext (xs_exts st) (px_domain d) (px_name d)) as [x|] eqn:Hf.
    + destruct (pext_eqb x d) eqn:He; [|discriminate]. intros H. inversion H; subst st'; clear H.
      split; [|split; [split; exists []; cbn [xs_out xs_exts]; rewrite app_nil_r; reflexivity|split; [reflexivity|exists d, x; repeat split; first [assumption|reflexivity]]]].
      destruct I as [I1 I2 I3 I4 I5 I6 I7]. constructor; cbn [xs_by_id xs_by_name xs_ext_ids xs_exts xs_out]; auto.
      intros j' x' [Heq|Hin]; [|exact (I6 _ _ Hin)]. inversion Heq; subst j' x'.
      destruct (find_ext_some _ _ _ _ Hf) as [_ [Hdom Hnm]]. split.
      * rewrite Hdom, Hnm. exact Hf.
      * exists d. split; [first [exact Hd|reflexivity]|exact He].
    + intros H. inversion H; subst st'; clear H.
      assert (G : grows st {| xs_by_id := xs_by_id st; xs_by_name := xs_by_name st; xs_ext_ids := (j, d) :: xs_ext_ids st;
                              xs_exts := xs_exts st ++ [d]; xs_out := xs_out st |}).
      { split; [exists []; cbn; rewrite app_nil_r; reflexivity|exists [d]; reflexivity]. }
      split; [|split; [exact G|split; [reflexivity|]]].
      * destruct I as [I1 I2 I3 I4 I5 I6 I7]. constructor; cbn [xs_by_id xs_by_name xs_ext_ids xs_exts xs_out]; auto.
        -- apply nodup_exts_app_new; assumption.
        -- intros j' x' [Heq|Hin].
           ++ inversion Heq; subst j' x'. split; [apply find_ext_app_new; exact Hf|]. exists d. split; [first [exact Hd|reflexivity]|apply pext_eqb_refl].
           ++ destruct (I6 _ _ Hin) as [Hf' Hd']. split; [apply find_ext_app; exact Hf'|exact Hd'].
        -- intros m d0 n Hm Hr. destruct (I7 m d0 n Hm Hr) as [x Hx]. exists x. apply find_ext_app. exact Hx.
      * exists d, d. split; [first [exact Hd|reflexivity]|]. split; [cbn [xs_exts]; apply find_ext_app_new; exact Hf|apply pext_eqb_refl].
Qed.

(* what export_module has to guarantee for export_instance to keep the invariant *)
Definition rec_spec (rec : xstate -> nat -> result (xstate * name)) : Prop :=
  forall st k st' nm, inv st -> rec st k = Ok (st', nm) -> inv st' /\ grows st st' /\ In nm (map fst (xs_out st')).

Lemma export_refs_inv rec : rec_spec rec -> forall l st st' refs, inv st -> export_refs xh rec st l = Ok (st', refs) ->
  inv st' /\ grows st st' /\
  (forall nm, In (OLocal nm) refs -> In nm (map fst (xs_out st'))) /\
  (forall d n, In (OExt d n) refs -> exists x, find_ext (xs_exts st') d n = Some x).
Proof.
  intros Hrec. induction l as [|r l IH]; intros st st' refs I H; cbn [export_refs] in H.
  - inversion H; subst. split; [exact I|]. split; [apply grows_refl|]. split; intros ? ? ; try intros ?; contradiction.
  - destruct r as [k|j|d n].
    + destruct (rec st k) as [[st1 nm]|e] eqn:Er; cbn [bind fst snd] in H; [|discriminate].
      destruct (Hrec _ _ _ _ I Er) as [I1 [G1 N1]].
      destruct (export_refs xh rec st1 l) as [[st2 refs2]|e] eqn:E2; cbn [bind fst snd] in H; [|discriminate].
      inversion H; subst st' refs; clear H. destruct (IH _ _ _ I1 E2) as [I2 [G2 [L2 X2]]].
      split; [exact I2|]. split; [eapply grows_trans; eauto|]. split.
      * intros nm0 [Heq|Hin]; [inversion Heq; subst; eapply grows_name; eauto|exact (L2 _ Hin)].
      * intros d n [Heq|Hin]; [discriminate|exact (X2 _ _ Hin)].
    + destruct (export_ext xh st j) as [st1|e] eqn:Ee; cbn [bind fst snd] in H; [|discriminate].
      destruct (export_ext_inv _ _ _ I Ee) as [I1 [G1 [_ [d [x [Hd [Hf He]]]]]]].
      rewrite Hd in H. cbn [ofopt bind fst snd] in H.
      destruct (export_refs xh rec st1 l) as [[st2 refs2]|e] eqn:E2; cbn [bind fst snd] in H; [|discriminate].
      inversion H; subst st' refs; clear H. destruct (IH _ _ _ I1 E2) as [I2 [G2 [L2 X2]]].
      split; [exact I2|]. split; [eapply grows_trans; eauto|]. split.
      * intros nm0 [Heq|Hin]; [discriminate|exact (L2 _ Hin)].
      * intros d0 n0 [Heq|Hin]; [inversion Heq; subst; exists x; eapply grows_ext; eauto|exact (X2 _ _ Hin)].
    + cbn [bind fst snd] in H.
      destruct (export_refs xh rec st l) as [[st2 refs2]|e] eqn:E2; cbn [bind fst snd] in H; [|discriminate].
      inversion H; subst st' refs; clear H. destruct (IH _ _ _ I E2) as [I2 [G2 [L2 X2]]].
      split; [exact I2|]. split; [exact G2|]. split.
      * intros nm0 [Heq|Hin]; [discriminate|exact (L2 _ Hin)].
      * intros d0 n0 [Heq|Hin]; [discriminate|exact (X2 _ _ Hin)].
Qed.

Lemma export_module_spec hp : forall fuel, rec_spec (export_module fuel hp xh).
Proof.
  induction fuel as [|f IH]; intros st k st' nm I H; cbn [export_module] in H; [discriminate|].
  destruct (assoc_nat k (xs_by_id st)) as [nm0|] eqn:Ea.
  - inversion H; subst. split; [exact I|]. split; [apply grows_refl|]. apply assoc_nat_in in Ea. exact (inv_ids _ I _ _ Ea).
  - destruct (nth_error hp k) as [m|]; cbn [ofopt bind] in H; [|discriminate].
    destruct (check (negb (mem_name (hm_name m) (xs_by_name st))) EName) as [[]|]; cbn [bind] in H; [|discriminate].
    destruct (export_refs xh (export_module f hp xh) st (elab_order (hm_insts m))) as [[st1 refs]|e] eqn:Er; cbn [bind fst snd] in H; [|discriminate].
    destruct (check (negb (mem_name (hm_name m) (xs_by_name st1))) EName) as [[]|] eqn:Hc; cbn [bind] in H; [|discriminate].
    apply check_ok in Hc. apply negb_true_iff in Hc. apply mem_name_false in Hc.
    inversion H; subst st' nm; clear H.
    destruct (export_refs_inv _ IH _ _ _ _ I Er) as [I1 [G1 [L1 X1]]].
    destruct I1 as [J1 J2 J3 J4 J5 J6 J7]. rewrite J1 in Hc.
    split; [|split].
    + constructor; cbn [xs_by_id xs_by_name xs_ext_ids xs_exts xs_out]; auto.
      * rewrite map_app, J1. reflexivity.
      * intros k0 nm0 [Heq|Hin]; rewrite map_app; apply in_or_app.
        -- inversion Heq; subst. right. left. reflexivity.
        -- left. exact (J2 _ _ Hin).
      * rewrite map_app. cbn [map fst]. apply NoDup_app_last; assumption.
      * intros pre m0 post Hs nm0 Hin. apply app_last_split in Hs. destruct Hs as [[-> [-> ->]]|[post' [-> Hs]]].
        -- cbn [snd] in Hin. exact (L1 _ Hin).
        -- exact (J4 _ _ _ Hs _ Hin).
      * intros m0 d n Hm Hr. apply in_app_or in Hm. destruct Hm as [Hm|[<-|[]]].
        -- exact (J7 _ _ _ Hm Hr).
        -- cbn [snd] in Hr. exact (X1 _ _ Hr).
    + destruct G1 as [[more Hm] Ge]. split; cbn [xs_out xs_exts].
      * exists (more ++ [(hm_name m, refs)]). rewrite Hm, app_assoc. reflexivity.
      * exact Ge.
    + cbn [xs_out]. rewrite map_app. apply in_or_app. right. left. reflexivity.
Qed.

Lemma export_tops_inv hp fuel : forall tops st st', inv st -> export_tops fuel hp xh st tops = Ok st' -> inv st'.
Proof.
  induction tops as [|k tops IH]; intros st st' I H; cbn [export_tops] in H.
  - inversion H; subst. exact I.
  - destruct (export_module fuel hp xh st k) as [[st1 nm]|e] eqn:E; cbn [bind fst] in H; [|discriminate].
    destruct (export_module_spec hp fuel _ _ _ _ I E) as [I1 _]. exact (IH _ _ I1 H).
Qed.

End Inv.

(* ------------------------------------------------------------------------------------------ the order of instances *)
Lemma elab_order_in l r : In r (elab_order l) -> exists n, In (r, n) l.
Proof.
  unfold elab_order. intros H. apply in_app_or in H. destruct H as [H|H].
  - apply in_map_iff in H. destruct H as [[r' n] [<- H]]. apply filter_In in H. exists n. exact (proj1 H).
  - apply in_flat_map in H. destruct H as [[r' n] [H1 H2]]. apply in_rev in H1. apply filter_In in H1.
    cbn [fst snd] in H2. apply repeat_spec in H2. subst. exists n. exact (proj1 H1).
Qed.

(* ------------------------------------------------------------------------------------------ fuel is never exhausted *)
Lemma export_ext_no_fuel xh st j : export_ext xh st j <> Error EFuel.
Proof.
  unfold export_ext. destruct (assoc_nat j (xs_ext_ids st)); [discriminate|].
  destruct (nth_error xh j) as [d|]; cbn [ofopt bind]; [|discriminate].
  destruct (find_ext (xs_exts st) (px_domain d) (px_name d)); [|discriminate].
  destruct (pext_eqb p d); discriminate.
Qed.

Lemma export_refs_no_fuel xh rec f : (forall st k, (k < f)%nat -> rec st k <> Error EFuel) ->
  forall l st, (forall k, In (HMod k) l -> (k < f)%nat) -> export_refs xh rec st l <> Error EFuel.
Proof.
  intros Hrec. induction l as [|r l IH]; intros st Hl; cbn [export_refs]; [discriminate|].
  assert (Hl' : forall k, In (HMod k) l -> (k < f)%nat) by (intros k Hk; apply Hl; right; exact Hk).
  destruct r as [k|j|d n].
  - pose proof (Hrec st k (Hl k (or_introl eq_refl))) as Hk.
    destruct (rec st k) as [[st1 nm]|e]; cbn [bind fst snd].
    + pose proof (IH st1 Hl') as H2. destruct (export_refs xh rec st1 l) as [[? ?]|e]; cbn [bind]; [discriminate|]. intros X. apply H2. exact X.
    + intros X. apply Hk. inversion X. reflexivity.
  - pose proof (export_ext_no_fuel xh st j) as Hj. destruct (export_ext xh st j) as [st1|e]; cbn [bind fst snd].
    + destruct (nth_error xh j); cbn [ofopt bind fst snd]; [|discriminate].
      pose proof (IH st1 Hl') as H2. destruct (export_refs xh rec st1 l) as [[? ?]|e]; cbn [bind]; [discriminate|]. intros X. apply H2. exact X.
    + intros X. apply Hj. inversion X. reflexivity.
  - cbn [bind fst snd]. pose proof (IH st Hl') as H2.
    destruct (export_refs xh rec st l) as [[? ?]|e]; cbn [bind]; [discriminate|]. intros X. apply H2. exact X.
Qed.

Lemma check_err b e e' : check b e = Error e' -> e' = e.
Proof. unfold check. destruct b; intros H; inversion H; reflexivity. Qed.

Lemma export_module_no_fuel hp xh : heap_ordered hp -> forall fuel st k, (k < fuel)%nat -> export_module fuel hp xh st k <> Error EFuel.
Proof.
  intros Ho. induction fuel as [|f IH]; intros st k Hk; [lia|]. cbn [export_module].
  destruct (assoc_nat k (xs_by_id st)); [discriminate|].
  destruct (nth_error hp k) as [m|] eqn:Hm; cbn [ofopt bind]; [|discriminate].
  destruct (check (negb (mem_name (hm_name m) (xs_by_name st))) EName) as [[]|e] eqn:Hc; cbn [bind].
  2:{ apply check_err in Hc. subst. discriminate. }
  assert (Hr : export_refs xh (export_module f hp xh) st (elab_order (hm_insts m)) <> Error EFuel).
  { apply export_refs_no_fuel with (f := f).
    - intros st0 j Hj. apply IH. exact Hj.
    - intros j Hj. apply elab_order_in in Hj. destruct Hj as [n Hn]. pose proof (Ho _ _ Hm _ _ Hn). lia. }
  destruct (export_refs xh (export_module f hp xh) st (elab_order (hm_insts m))) as [[st1 refs]|e]; cbn [bind fst snd].
  - destruct (check (negb (mem_name (hm_name m) (xs_by_name st1))) EName) as [[]|e] eqn:Hc2; cbn [bind]; [discriminate|].
    apply check_err in Hc2. subst. discriminate.
  - intros X. apply Hr. inversion X. reflexivity.
Qed.

Lemma export_tops_no_fuel hp xh fuel : heap_ordered hp -> forall tops st, (forall k, In k tops -> (k < fuel)%nat) ->
  export_tops fuel hp xh st tops <> Error EFuel.
Proof.
  intros Ho. induction tops as [|k tops IH]; intros st Ht; cbn [export_tops]; [discriminate|].
  pose proof (export_module_no_fuel hp xh Ho fuel st k (Ht k (or_introl eq_refl))) as Hk.
  destruct (export_module fuel hp xh st k) as [[st1 nm]|e]; cbn [bind fst].
  - apply IH. intros j Hj. apply Ht. right. exact Hj.
  - intros X. apply Hk. inversion X. reflexivity.
Qed.

(* ------------------------------------------------------------------------------------------ parameters *)
Lemma export_params_in ps k v : In (k, v) (export_params ps) -> In (k, Some v) ps.
Proof.
  induction ps as [|[k' [v'|]] ps IH]; cbn [export_params]; [intros []| |].
  - intros [H|H]; [inversion H; subst; left; reflexivity|right; exact (IH H)].
  - intros H. right. exact (IH H).
Qed.

Lemma export_params_keys ps k : In k (map fst (export_params ps)) -> In k (map fst ps).
Proof.
  intros H. apply in_map_iff in H. destruct H as [[k' v] [<- H]]. apply export_params_in in H.
  apply in_map_iff. exists (k', Some v). auto.
Qed.

Lemma nodup_names_export_params ps : nodup_names (map fst ps) = true -> nodup_names (map fst (export_params ps)) = true.
Proof.
  induction ps as [|[k [v|]] ps IH]; cbn [export_params map fst nodup_names]; [reflexivity| |].
  - intros H. apply andb_prop in H. destruct H as [H1 H2]. rewrite (IH H2), andb_true_r.
    apply negb_true_iff. apply negb_true_iff in H1. destruct (existsb (String.eqb k) (map fst (export_params ps))) eqn:E; [|reflexivity].
    apply existsb_exists in E. destruct E as [k' [Hk Heq]]. apply String.eqb_eq in Heq. subst k'.
    apply export_params_keys in Hk. assert (X : existsb (String.eqb k) (map fst ps) = true).
    { apply existsb_exists. exists k. split; [exact Hk|apply String.eqb_refl]. } congruence.
  - intros H. apply andb_prop in H. exact (IH (proj2 H)).
Qed.
