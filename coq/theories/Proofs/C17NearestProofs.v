(* Proofs/C17NearestProofs.v — C17 (strengthening round): facts about the specification predicate
   [nearest_double] of Spec/SimSpec.v ("d is the binary64 nearest to m*10^e", round-half-even):
   - it speaks of the VALUE m*10^e only: the same for every way of writing the value as coefficient and exponent;
   - it determines the double: two doubles that both satisfy it are equal.
   Hence a float field is right or wrong as a matter of the exact decimal value alone, and any two conversions that
   are both "the nearest double" agree. *)
Require Import Hdl21.Base.PyInt Hdl21.Spec.SimSpec.
Open Scope Z_scope.

(* ---------------------------------------------------------------- powers *)
Lemma p2_pos k : 0 <= k -> 0 < 2 ^ k.
Proof. intros. apply Z.pow_pos_nonneg; lia. Qed.
Lemma p10_pos k : 0 <= k -> 0 < 10 ^ k.
Proof. intros. apply Z.pow_pos_nonneg; lia. Qed.

Lemma cmp_mul_r p n m : 0 < p -> (n * p ?= m * p) = (n ?= m).
Proof. intros H. symmetry. apply Zmult_compare_compat_r. lia. Qed.

Lemma scale10_den_pos m e : 0 < snd (scale10 m e).
Proof. unfold scale10. destruct (0 <=? e) eqn:E; cbn [snd]; [lia|apply p10_pos; lia]. Qed.

(* ---------------------------------------------------------------- comparison at the common denominator 2^1076 *)
Definition B (c k : Z) : Z := c * 2 ^ (k + 1076).

Lemma cmp_dec_bin_norm m e c k : -1076 <= k ->
  cmp_dec_bin m e c k = (fst (scale10 m e) * 2 ^ 1076 ?= B c k * snd (scale10 m e)).
Proof.
  intros Hk. unfold cmp_dec_bin, B. destruct (scale10 m e) as [a b]. cbn [fst snd]. unfold scale2.
  destruct (0 <=? k) eqn:E.
  - rewrite Z.pow_add_r by lia. rewrite <- (cmp_mul_r (2 ^ 1076) (a * 1) (c * 2 ^ k * b)) by (apply p2_pos; lia).
    f_equal; ring.
  - assert (2 ^ 1076 = 2 ^ (- k) * 2 ^ (k + 1076)) as P by (rewrite <- Z.pow_add_r by lia; f_equal; lia).
    rewrite <- (cmp_mul_r (2 ^ (k + 1076)) (a * 2 ^ (- k)) (c * b)) by (apply p2_pos; lia).
    rewrite P. f_equal; ring.
Qed.

(* ---------------------------------------------------------------- the value only: m*10^k at e  =  m at e+k *)
Lemma cmp_dec_bin_shift m e k c j : 0 <= k -> cmp_dec_bin (m * 10 ^ k) e c j = cmp_dec_bin m (e + k) c j.
Proof.
  intros Hk. unfold cmp_dec_bin. destruct (scale2 c j) as [p q]. unfold scale10.
  destruct (0 <=? e) eqn:E1; destruct (0 <=? e + k) eqn:E2; try lia.
  - rewrite (Z.pow_add_r 10 e k) by lia. f_equal; ring.
  - assert (10 ^ k = 10 ^ (e + k) * 10 ^ (- e)) as P by (rewrite <- Z.pow_add_r by lia; f_equal; lia).
    rewrite P. rewrite <- (cmp_mul_r (10 ^ (- e)) (m * 10 ^ (e + k) * q) (p * 1)) by (apply p10_pos; lia).
    f_equal; ring.
  - assert (10 ^ (- e) = 10 ^ (- (e + k)) * 10 ^ k) as P by (rewrite <- Z.pow_add_r by lia; f_equal; lia).
    rewrite P. rewrite <- (cmp_mul_r (10 ^ k) (m * q) (p * 10 ^ (- (e + k)))) by (apply p10_pos; lia).
    f_equal; ring.
Qed.

Lemma near_abs_shift m e k M E : 0 <= k -> near_abs (m * 10 ^ k) e M E = near_abs m (e + k) M E.
Proof. intros Hk. unfold near_abs. rewrite !cmp_dec_bin_shift by exact Hk. reflexivity. Qed.

Lemma nearest_double_shift m e k d : 0 <= k -> nearest_double (m * 10 ^ k) e d = nearest_double m (e + k) d.
Proof.
  intros Hk. pose proof (p10_pos k Hk) as P.
  assert ((m * 10 ^ k <? 0) = (m <? 0)) as S by (apply Bool.eq_true_iff_eq; rewrite !Z.ltb_lt; nia).
  assert (Z.abs (m * 10 ^ k) = Z.abs m * 10 ^ k) as A by (rewrite Z.abs_mul; f_equal; lia).
  destruct d as [neg M E|neg|]; cbn [nearest_double]; rewrite ?S, ?A, ?near_abs_shift, ?cmp_dec_bin_shift by exact Hk; reflexivity.
Qed.

(* two ways of writing one value: a * 10^(ea - e) = b * 10^(eb - e) at a common exponent e *)
Lemma nearest_double_same_value a ea b eb e d : e <= ea -> e <= eb -> a * 10 ^ (ea - e) = b * 10 ^ (eb - e) ->
  nearest_double a ea d = nearest_double b eb d.
Proof.
  intros Ha Hb H.
  replace ea with (e + (ea - e)) at 1 by lia. rewrite <- nearest_double_shift by lia.
  replace eb with (e + (eb - e)) at 1 by lia. rewrite <- nearest_double_shift by lia.
  rewrite H. reflexivity.
Qed.

(* ---------------------------------------------------------------- canonical doubles *)
Lemma canonical_spec M E : canonical M E = true ->
  (M = 0 /\ E = -1074) \/ (4503599627370496 <= M < 9007199254740992 /\ -1074 <= E <= 971) \/ (0 < M < 4503599627370496 /\ E = -1074).
Proof. unfold canonical. change (2 ^ 52) with 4503599627370496. change (2 ^ 53) with 9007199254740992. lia. Qed.

(* the two midpoints that bound the rounding interval of M*2^E, at the denominator 2^1076 *)
Definition hiB (M E : Z) : Z := B (2 * M + 1) (E - 1).
Definition loB (M E : Z) : Z := if (M =? 2 ^ 52) && (-1074 <? E) then B (4 * M - 1) (E - 2) else B (2 * M - 1) (E - 1).

Lemma even_succ_false M : Z.even M = true -> Z.even (M + 1) = true -> False.
Proof. rewrite !Z.even_spec. intros [a Ha] [b Hb]. lia. Qed.

(* neighbouring rounding intervals do not overlap, and touch only in a point that at most one of them owns *)
Lemma intervals_ordered M E M' E' : canonical M E = true -> canonical M' E' = true -> (E < E' \/ (E = E' /\ M < M')) ->
  hiB M E <= loB M' E' /\ (hiB M E = loB M' E' -> Z.even M = true -> Z.even M' = true -> False).
Proof.
  intros C C' O. apply canonical_spec in C. apply canonical_spec in C'. unfold hiB, loB, B.
  change (2 ^ 52) with 4503599627370496.
  replace (E - 1 + 1076) with (E + 1075) by lia.
  assert (0 < 2 ^ (E + 1075)) as PT by (apply p2_pos; lia). set (T := 2 ^ (E + 1075)) in *.
  destruct O as [O|[O1 O2]].
  - (* a larger exponent: M' is normal *)
    assert (4503599627370496 <= M' /\ -1074 < E') as [N1 N2] by lia.
    assert (0 < 2 ^ (E' - E - 1)) as PP by (apply p2_pos; lia).
    assert (2 ^ (E' - 2 + 1076) = 2 ^ (E' - E - 1) * T) as Q1 by (unfold T; rewrite <- Z.pow_add_r by lia; f_equal; lia).
    assert (2 ^ (E' - 1 + 1076) = 2 * (2 ^ (E' - E - 1) * T)) as Q2.
    { unfold T. rewrite <- Z.pow_add_r by lia. rewrite <- (Z.pow_succ_r 2) by lia. f_equal. lia. }
    set (P := 2 ^ (E' - E - 1)) in *.
    assert (T <= P * T) as PTle by nia.
    assert (M <= 9007199254740991) as HM by lia.
    assert ((2 * M + 1) * T <= 18014398509481983 * T) as H1 by nia.
    assert (18014398509481983 * T <= 18014398509481983 * (P * T)) as H2 by lia.
    assert (18014398509481983 * (P * T) <= (if (M' =? 4503599627370496) && (-1074 <? E') then (4 * M' - 1) * 2 ^ (E' - 2 + 1076)
                                             else (2 * M' - 1) * 2 ^ (E' - 1 + 1076))) as H3.
    { destruct ((M' =? 4503599627370496) && (-1074 <? E')) eqn:EB.
      - rewrite Q1. assert (M' = 4503599627370496) as -> by lia. lia.
      - rewrite Q2. assert (4503599627370497 <= M') by lia. nia. }
    split; [lia|]. intros EQ EV _.
    assert (M <> 9007199254740991) as NE by (intros ->; vm_compute in EV; discriminate).
    assert ((2 * M + 1) * T < 18014398509481983 * T) by nia. lia.
  - (* the same exponent *)
    subst E'. replace (E - 1 + 1076) with (E + 1075) by lia. fold T.
    assert ((M' =? 4503599627370496) && (-1074 <? E) = false) as -> by lia.
    split; [nia|]. intros EQ EV EV'.
    assert (M' = M + 1) as -> by nia. exact (even_succ_false M EV EV').
Qed.

(* ---------------------------------------------------------------- the nearest double is unique *)
Lemma near_abs_parts m e M E : near_abs m e M E = true ->
  canonical M E = true /\
  let a := fst (scale10 m e) in let b := snd (scale10 m e) in
  (a * 2 ^ 1076 <= hiB M E * b /\ (a * 2 ^ 1076 = hiB M E * b -> Z.even M = true)) /\
  (loB M E * b <= a * 2 ^ 1076 /\ (a * 2 ^ 1076 = loB M E * b -> Z.even M = true)).
Proof.
  unfold near_abs. intros H. apply andb_true_iff in H. destruct H as [H L]. apply andb_true_iff in H. destruct H as [C H].
  split; [exact C|]. pose proof (canonical_spec M E C) as CS. cbn zeta. split.
  - rewrite cmp_dec_bin_norm in H by lia. fold (hiB M E) in H.
    destruct (Z.compare_spec (fst (scale10 m e) * 2 ^ 1076) (hiB M E * snd (scale10 m e))) as [Q|Q|Q]; try discriminate;
      split; try lia; intros; try assumption; lia.
  - unfold loB. destruct ((M =? 2 ^ 52) && (-1074 <? E)) eqn:EB.
    + rewrite cmp_dec_bin_norm in L by lia.
      destruct (Z.compare_spec (fst (scale10 m e) * 2 ^ 1076) (B (4 * M - 1) (E - 2) * snd (scale10 m e))) as [Q|Q|Q]; try discriminate;
        split; try lia; intros; try assumption; lia.
    + rewrite cmp_dec_bin_norm in L by lia.
      destruct (Z.compare_spec (fst (scale10 m e) * 2 ^ 1076) (B (2 * M - 1) (E - 1) * snd (scale10 m e))) as [Q|Q|Q]; try discriminate;
        split; try lia; intros; try assumption; lia.
Qed.

Lemma near_abs_ordered_absurd m e M E M' E' : near_abs m e M E = true -> near_abs m e M' E' = true ->
  (E < E' \/ (E = E' /\ M < M')) -> False.
Proof.
  intros H H' O. apply near_abs_parts in H. apply near_abs_parts in H'.
  destruct H as [C [[U UE] _]]. destruct H' as [C' [_ [L LE]]]. cbn zeta in *.
  pose proof (scale10_den_pos m e) as PB. set (b := snd (scale10 m e)) in *. set (V := fst (scale10 m e) * 2 ^ 1076) in *.
  destruct (intervals_ordered M E M' E' C C' O) as [LEQ NEQ].
  assert (hiB M E * b <= loB M' E' * b) as K by nia.
  assert (V = hiB M E * b) as V1 by lia. assert (V = loB M' E' * b) as V2 by lia.
  apply NEQ; [nia|exact (UE V1)|exact (LE V2)].
Qed.

Lemma near_abs_unique m e M E M' E' : near_abs m e M E = true -> near_abs m e M' E' = true -> M = M' /\ E = E'.
Proof.
  intros H H'.
  destruct (Z.lt_trichotomy E E') as [O|[O|O]].
  - exfalso. apply (near_abs_ordered_absurd m e M E M' E' H H'). lia.
  - destruct (Z.lt_trichotomy M M') as [O2|[O2|O2]]; [exfalso|split; assumption|exfalso].
    + apply (near_abs_ordered_absurd m e M E M' E' H H'). lia.
    + apply (near_abs_ordered_absurd m e M' E' M E H' H). lia.
  - exfalso. apply (near_abs_ordered_absurd m e M' E' M E H' H). lia.
Qed.

(* a finite nearest double excludes overflow *)
Lemma near_abs_not_inf m e M E : near_abs m e M E = true -> cmp_dec_bin m e (2 ^ 54 - 1) 970 = Lt.
Proof.
  intros H. apply near_abs_parts in H. destruct H as [C [[U UE] _]]. cbn zeta in *.
  rewrite cmp_dec_bin_norm by lia. apply Z.compare_lt_iff.
  pose proof (scale10_den_pos m e) as PB. set (b := snd (scale10 m e)) in *. set (V := fst (scale10 m e) * 2 ^ 1076) in *.
  pose proof (canonical_spec M E C) as CS.
  unfold hiB, B in *. change (2 ^ 54 - 1) with 18014398509481983. replace (970 + 1076) with 2046 by lia.
  replace (E - 1 + 1076) with (E + 1075) in * by lia.
  assert (0 < 2 ^ (E + 1075)) as PT by (apply p2_pos; lia).
  assert (2 ^ 2046 = 2 ^ (971 - E) * 2 ^ (E + 1075)) as Q by (rewrite <- Z.pow_add_r by lia; f_equal; lia).
  assert (0 < 2 ^ (971 - E)) as PP by (apply p2_pos; lia).
  set (T := 2 ^ (E + 1075)) in *. set (P := 2 ^ (971 - E)) in *. rewrite Q.
  assert (T <= P * T) as PTle by nia.
  assert (M <= 9007199254740991) as HM by lia.
  destruct (Z.eq_dec M 9007199254740991) as [EM|NM].
  - (* the largest mantissa is odd: the upper midpoint itself is not owned *)
    assert (V <> (2 * M + 1) * T * b) as NQ by (intros QQ; apply UE in QQ; rewrite EM in QQ; vm_compute in QQ; discriminate).
    assert ((2 * M + 1) * T * b <= 18014398509481983 * (P * T) * b) by (rewrite EM; nia).
    nia.
  - assert ((2 * M + 1) * T < 18014398509481983 * T) by nia.
    assert ((2 * M + 1) * T * b < 18014398509481983 * (P * T) * b) by nia.
    nia.
Qed.

Theorem nearest_double_unique m e d d' : nearest_double m e d = true -> nearest_double m e d' = true -> d = d'.
Proof.
  destruct d as [n M E|n|]; destruct d' as [n' M' E'|n'|]; cbn [nearest_double]; intros H H'; try discriminate;
    apply andb_true_iff in H; destruct H as [S H]; apply andb_true_iff in H'; destruct H' as [S' H'];
    apply Bool.eqb_prop in S; apply Bool.eqb_prop in S'.
  - destruct (near_abs_unique _ _ _ _ _ _ H H') as [-> ->]. congruence.
  - rewrite (near_abs_not_inf _ _ _ _ H) in H'. discriminate.
  - rewrite (near_abs_not_inf _ _ _ _ H') in H. discriminate.
  - congruence.
Qed.
