(* Proofs/C02FProofsReparent.v — re-parenting (Model/C01FElab.v:reparent, update_ref_deps) on ARBITRARY expressions:
   more fuel gives the same result; the width of the result is the width of the written expression when every
   substituted leaf has the width that was written on it. *)
From Coq Require Import String.
Require Import Hdl21.Base.PyInt Hdl21.Spec.PySlice Hdl21.Model.Slice Hdl21.Model.Resolve Hdl21.Base.Design
               Hdl21.Spec.WfDesign Hdl21.Model.C01EElab Hdl21.Model.C01FElab
               Hdl21.Proofs.ResolveProofs Hdl21.Proofs.C01EProofsBase Hdl21.Proofs.C01EProofsPass Hdl21.Proofs.C01FProofsReparent.
Open Scope Z_scope.

Lemma sx_subst_mono f g e : forall e',
  (forall id w r, In (id, w) (sx_leaves e) -> f id w = Ok r -> g id w = Ok r) -> sx_subst f e = Ok e' -> sx_subst g e = Ok e'.
Proof.
  induction e as [id w|p ix IH|ps IH] using sx_ind'; intros e' H Hs.
  - cbn [sx_subst] in *. apply (H id w e'); [left; reflexivity|exact Hs].
  - cbn [sx_subst] in *. apply bind_ok in Hs. destruct Hs as [p' [Hp Hs]]. rewrite (IH p' H Hp). exact Hs.
  - rewrite sx_subst_concat in *. apply bind_ok in Hs. destruct Hs as [ps' [Hps Hs]].
    assert (traverse (sx_subst g) ps = Ok ps') as ->; [|exact Hs]. clear Hs e'.
    revert ps' Hps. induction IH as [|p ps Hp _ IHps]; intros ps' Hps; cbn [traverse] in *; [exact Hps|].
    apply bind_ok in Hps. destruct Hps as [p' [Hp' Hps]]. apply bind_ok in Hps. destruct Hps as [r' [Hr' Hps]].
    rewrite (Hp p'); [|intros id w r Hin; apply H; cbn [sx_leaves map concat]; apply in_or_app; left; exact Hin|exact Hp'].
    cbn [bind]. rewrite (IHps (fun id w r Hin => H id w r ltac:(cbn [sx_leaves map concat]; apply in_or_app; right; exact Hin)) r' Hr').
    exact Hps.
Qed.

Lemma reparent_mono1 m : forall f e e', reparent m f e = Ok e' -> reparent m (S f) e = Ok e'.
Proof.
  induction f as [|f IH]; intros e e' H; rewrite reparent_unfold in *.
  - eapply sx_subst_mono; [|exact H]. intros id w r _. unfold rp_leaf. destruct (ref_leaf m id); [discriminate|auto].
  - eapply sx_subst_mono; [|exact H]. intros id w r _. unfold rp_leaf. destruct (ref_leaf m id) as [q|]; [|auto].
    intros Hr. apply bind_ok in Hr. destruct Hr as [cx [Hcx Hr]]. rewrite Hcx. cbn [bind]. apply IH. exact Hr.
Qed.

Lemma reparent_mono m f f' e e' : (f <= f')%nat -> reparent m f e = Ok e' -> reparent m f' e = Ok e'.
Proof. induction 1 as [|f' _ IH]; intros H; [exact H|]. apply reparent_mono1. apply IH. exact H. Qed.

Lemma sx_subst_width f e : forall e', sx_subst f e = Ok e' ->
  (forall id w r, In (id, w) (sx_leaves e) -> f id w = Ok r -> xwidth r = xwidth (XSig id w)) -> xwidth e' = xwidth e.
Proof.
  induction e as [id w|p ix IH|ps IH] using sx_ind'; intros e' Hs H.
  - cbn [sx_subst] in Hs. apply (H id w e'); [left; reflexivity|exact Hs].
  - cbn [sx_subst] in Hs. apply bind_ok in Hs. destruct Hs as [p' [Hp Hs]]. inversion Hs; subst e'. cbn [xwidth].
    rewrite (IH p' Hp H). reflexivity.
  - rewrite sx_subst_concat in Hs. apply bind_ok in Hs. destruct Hs as [ps' [Hps Hs]]. inversion Hs; subst e'. cbn [xwidth]. f_equal.
    clear Hs. revert ps' Hps. induction IH as [|p ps Hp _ IHps]; intros ps' Hps; cbn [traverse] in Hps.
    + inversion Hps. reflexivity.
    + apply bind_ok in Hps. destruct Hps as [p' [Hp' Hps]]. apply bind_ok in Hps. destruct Hps as [r' [Hr' Hps]]. inversion Hps; subst ps'.
      cbn [map]. f_equal.
      * apply (Hp p' Hp'). intros id w r Hin. apply H. cbn [sx_leaves map concat]. apply in_or_app. left. exact Hin.
      * apply IHps; [|exact Hr']. intros id w r Hin. apply H. cbn [sx_leaves map concat]. apply in_or_app. right. exact Hin.
Qed.

(* an expression without reference leaves is left alone *)
Lemma reparent_no_refs m fuel e : (forall id w, In (id, w) (sx_leaves e) -> ref_leaf m id = None) -> reparent m fuel e = Ok e.
Proof.
  intros H. rewrite reparent_unfold. apply sx_subst_id. intros id w Hin. unfold rp_leaf. rewrite (H id w Hin). reflexivity.
Qed.
