(* Proofs/C04Proofs.v — invariants and refinement of the connection-operation model. *)
Require Import Hdl21.Base.PyInt Hdl21.Model.C04ConnOps Hdl21.Spec.C04LastWrite.

(* ---------------------------------------------------------------- decidable equalities *)
Lemma pid_eqb_eq a b : pid_eqb a b = true <-> a = b.
Proof.
  destruct a as [a1 a2], b as [b1 b2]. unfold pid_eqb; cbn [fst snd]. rewrite andb_true_iff, !Z.eqb_eq.
  split; [intros [-> ->]; reflexivity | intros H; inversion H; auto].
Qed.
Lemma pid_eqb_refl a : pid_eqb a a = true.
Proof. apply pid_eqb_eq; reflexivity. Qed.
Lemma pid_eqb_neq a b : pid_eqb a b = false <-> a <> b.
Proof. rewrite <- pid_eqb_eq. destruct (pid_eqb a b); split; congruence. Qed.
Lemma pid_eqb_sym a b : pid_eqb a b = pid_eqb b a.
Proof.
  destruct (pid_eqb a b) eqn:E.
  - apply pid_eqb_eq in E. subst. symmetry. apply pid_eqb_refl.
  - apply pid_eqb_neq in E. symmetry. apply pid_eqb_neq. congruence.
Qed.

Lemma kind_eqb_eq a b : kind_eqb a b = true <-> a = b.
Proof. destruct a, b; simpl; split; congruence. Qed.
Lemma conn_eqb_eq a b : conn_eqb a b = true <-> a = b.
Proof.
  destruct a as [k x|i p], b as [l y|j q]; simpl; try (split; congruence).
  - rewrite andb_true_iff, kind_eqb_eq, Z.eqb_eq. split; [intros [-> ->]; reflexivity | intros H; inversion H; auto].
  - rewrite andb_true_iff, !Z.eqb_eq. split; [intros [-> ->]; reflexivity | intros H; inversion H; auto].
Qed.
Lemma conn_eqb_refl a : conn_eqb a a = true.
Proof. apply conn_eqb_eq; reflexivity. Qed.
Lemma conn_eqb_neq a b : conn_eqb a b = false <-> a <> b.
Proof. rewrite <- conn_eqb_eq. destruct (conn_eqb a b); split; congruence. Qed.

(* ---------------------------------------------------------------- sets of ports *)
Lemma mem_In q l : mem q l = true <-> In q l.
Proof.
  unfold mem. rewrite existsb_exists. split.
  - intros [x [Hx E]]. apply pid_eqb_eq in E. subst. exact Hx.
  - intros H. exists q. split; [exact H | apply pid_eqb_refl].
Qed.

Lemma In_set_add x q l : In x (set_add q l) <-> x = q \/ In x l.
Proof.
  unfold set_add. destruct (mem q l) eqn:E.
  - apply mem_In in E. split; [auto | intros [->|H]; assumption].
  - rewrite in_app_iff. simpl. split; [intros [H|[H|[]]]; auto | intros [H|H]; auto].
Qed.

Lemma In_set_remove x q l : In x (set_remove q l) <-> x <> q /\ In x l.
Proof.
  unfold set_remove. rewrite filter_In. rewrite negb_true_iff, pid_eqb_neq. split; intros [A B]; split; auto; congruence.
Qed.

Lemma NoDup_set_add q l : NoDup l -> NoDup (set_add q l).
Proof.
  intros H. unfold set_add. destruct (mem q l) eqn:E; [exact H|].
  assert (~ In q l) by (rewrite <- mem_In; congruence).
  clear E. induction H; simpl.
  - constructor; [intros []|constructor].
  - constructor.
    + rewrite in_app_iff. simpl. intros [A|[A|[]]]; [contradiction|]. subst. apply H0. left; reflexivity.
    + apply IHNoDup. intros A. apply H0. right; exact A.
Qed.

Lemma NoDup_filter {A} (f : A -> bool) l : NoDup l -> NoDup (filter f l).
Proof.
  induction 1; simpl; [constructor|]. destruct (f x); [constructor|]; auto.
  rewrite filter_In. tauto.
Qed.

(* ---------------------------------------------------------------- the conns dict *)
Lemma lookup_dict_set q c l q' :
  lookup q' (dict_set q c l) = if pid_eqb q q' then Some c else lookup q' l.
Proof.
  induction l as [|[k v] t IH]; simpl.
  - rewrite (pid_eqb_sym q' q). destruct (pid_eqb q q'); reflexivity.
  - destruct (pid_eqb q k) eqn:E; simpl.
    + apply pid_eqb_eq in E. subst k. rewrite (pid_eqb_sym q' q). destruct (pid_eqb q q'); reflexivity.
    + rewrite IH. destruct (pid_eqb q' k) eqn:E2; [|reflexivity].
      apply pid_eqb_eq in E2. subst k. rewrite E. reflexivity.
Qed.

Lemma lookup_dict_pop q l q' :
  lookup q' (dict_pop q l) = if pid_eqb q q' then None else lookup q' l.
Proof.
  unfold dict_pop. induction l as [|[k v] t IH]; simpl.
  - destruct (pid_eqb q q'); reflexivity.
  - destruct (pid_eqb q k) eqn:E; simpl.
    + rewrite IH. apply pid_eqb_eq in E. subst k. rewrite (pid_eqb_sym q' q). destruct (pid_eqb q q'); reflexivity.
    + rewrite IH. destruct (pid_eqb q' k) eqn:E2; [|reflexivity].
      apply pid_eqb_eq in E2. subst k. rewrite E. reflexivity.
Qed.

Definition keys (l : list (pid * conn)) := map fst l.

Lemma lookup_None_keys q l : lookup q l = None <-> ~ In q (keys l).
Proof.
  induction l as [|[k v] t IH]; simpl; [tauto|].
  destruct (pid_eqb q k) eqn:E.
  - apply pid_eqb_eq in E. subst. split; [discriminate | intros H; exfalso; apply H; left; reflexivity].
  - apply pid_eqb_neq in E. rewrite IH. split; [intros H [A|A]; [congruence|tauto] | tauto].
Qed.

Lemma keys_dict_set_in q c l : In q (keys l) -> keys (dict_set q c l) = keys l.
Proof.
  induction l as [|[k v] t IH]; simpl; [tauto|]. intros H.
  destruct (pid_eqb q k) eqn:E; simpl.
  - apply pid_eqb_eq in E. subst; reflexivity.
  - f_equal. apply IH. destruct H as [H|H]; [|exact H]. apply pid_eqb_neq in E. congruence.
Qed.

Lemma keys_dict_set_new q c l : ~ In q (keys l) -> keys (dict_set q c l) = keys l ++ [q].
Proof.
  induction l as [|[k v] t IH]; simpl; [reflexivity|]. intros H.
  destruct (pid_eqb q k) eqn:E; simpl.
  - apply pid_eqb_eq in E. subst. exfalso. apply H. left; reflexivity.
  - f_equal. apply IH. tauto.
Qed.

Lemma NoDup_snoc {A} (l : list A) x : NoDup l -> ~ In x l -> NoDup (l ++ [x]).
Proof.
  induction 1; simpl; intros Hx.
  - constructor; [intros []|constructor].
  - constructor; [rewrite in_app_iff; simpl; intros [A0|[A0|[]]]; [contradiction|subst; tauto] | apply IHNoDup; tauto].
Qed.

Lemma lookup_Some_keys q l c : lookup q l = Some c -> In q (keys l).
Proof.
  induction l as [|[k v] t IH]; simpl; [discriminate|].
  destruct (pid_eqb q k) eqn:E; [apply pid_eqb_eq in E; subst; auto | auto].
Qed.

Lemma NoDup_keys_dict_set q c l : NoDup (keys l) -> NoDup (keys (dict_set q c l)).
Proof.
  intros H. destruct (lookup q l) eqn:E.
  - rewrite keys_dict_set_in; [exact H|]. eapply lookup_Some_keys; exact E.
  - apply lookup_None_keys in E. rewrite keys_dict_set_new by exact E. apply NoDup_snoc; assumption.
Qed.

Lemma NoDup_keys_dict_pop q l : NoDup (keys l) -> NoDup (keys (dict_pop q l)).
Proof.
  unfold dict_pop, keys. induction l as [|[k v] t IH]; simpl; intros H; [constructor|].
  inversion H; subst. destruct (pid_eqb q k); simpl; [apply IH; assumption|].
  constructor; [|apply IH; assumption].
  intros A. apply H2. apply in_map_iff in A. destruct A as [e [E1 E2]]. apply filter_In in E2.
  apply in_map_iff. exists e. tauto.
Qed.

(* ---------------------------------------------------------------- the back-reference table *)
Lemma back_of_put c s b c' : back_of c' (back_put c s b) = if conn_eqb c c' then s else back_of c' b.
Proof.
  induction b as [|[k v] t IH]; simpl.
  - destruct (conn_eqb c' c) eqn:E; destruct (conn_eqb c c') eqn:E2; try reflexivity.
    + apply conn_eqb_eq in E. subst. rewrite conn_eqb_refl in E2. discriminate.
    + apply conn_eqb_eq in E2. subst. rewrite conn_eqb_refl in E. discriminate.
  - destruct (conn_eqb c k) eqn:E; simpl.
    + apply conn_eqb_eq in E. subst k. destruct (conn_eqb c' c) eqn:E1; destruct (conn_eqb c c') eqn:E2; try reflexivity.
      * apply conn_eqb_eq in E1. subst. rewrite conn_eqb_refl in E2. discriminate.
      * apply conn_eqb_eq in E2. subst. rewrite conn_eqb_refl in E1. discriminate.
    + rewrite IH. destruct (conn_eqb c' k) eqn:E1; [|reflexivity].
      apply conn_eqb_eq in E1. subst k. rewrite E. reflexivity.
Qed.

Lemma In_back_add c q b c0 q0 :
  In q0 (back_of c0 (back_add c q b)) <-> (c0 = c /\ q0 = q) \/ In q0 (back_of c0 b).
Proof.
  unfold back_add. rewrite back_of_put. destruct (conn_eqb c c0) eqn:E.
  - apply conn_eqb_eq in E. subst c0. rewrite In_set_add. tauto.
  - apply conn_eqb_neq in E. split; [auto | intros [[A _]|A]; [congruence|exact A]].
Qed.

Lemma In_back_remove c q b b' c0 q0 : back_remove c q b = COk b' ->
  (In q0 (back_of c0 b') <-> In q0 (back_of c0 b) /\ ~ (c0 = c /\ q0 = q)).
Proof.
  unfold back_remove. destruct (mem q (back_of c b)); [|discriminate]. intros H. inversion H; subst b'. clear H.
  rewrite back_of_put. destruct (conn_eqb c c0) eqn:E.
  - apply conn_eqb_eq in E. subst c0. rewrite In_set_remove. tauto.
  - apply conn_eqb_neq in E. split; [intros A; split; [exact A|intros [B _]; congruence] | tauto].
Qed.

Lemma back_remove_ok c q b : In q (back_of c b) -> exists b', back_remove c q b = COk b'.
Proof. intros H. unfold back_remove. apply mem_In in H. rewrite H. eauto. Qed.

(* ---------------------------------------------------------------- the invariant *)
Record Inv (s : state) : Prop := {
  inv_sync : forall c q, In q (back_of c (st_back s)) <-> lookup q (st_conns s) = Some c;
  inv_keys : NoDup (keys (st_conns s));
  inv_sets : forall c, NoDup (back_of c (st_back s))
}.

Lemma inv_init : Inv init.
Proof. split; simpl; [intros; split; [tauto|discriminate] | constructor | intros; constructor]. Qed.

Lemma NoDup_back_add c q b : (forall c0, NoDup (back_of c0 b)) -> forall c0, NoDup (back_of c0 (back_add c q b)).
Proof.
  intros H c0. unfold back_add. rewrite back_of_put. destruct (conn_eqb c c0); [apply NoDup_set_add|]; apply H.
Qed.

Lemma NoDup_back_remove c q b b' : back_remove c q b = COk b' ->
  (forall c0, NoDup (back_of c0 b)) -> forall c0, NoDup (back_of c0 b').
Proof.
  unfold back_remove. destruct (mem q (back_of c b)); [|discriminate]. intros E H c0. inversion E; subst.
  rewrite back_of_put. destruct (conn_eqb c c0); [apply NoDup_filter|]; apply H.
Qed.

Definition writes_to (s s' : state) (q : pid) (v : option conn) : Prop :=
  Inv s' /\ st_handed s' = st_handed s /\
  forall q', lookup q' (st_conns s') = if pid_eqb q q' then v else lookup q' (st_conns s).

Lemma do_replace_spec s q c old : Inv s -> lookup q (st_conns s) = Some old ->
  exists s', do_replace s q c = COk s' /\ writes_to s s' q (Some c).
Proof.
  intros I L. unfold do_replace. rewrite L.
  destruct (back_remove_ok old q (st_back s)) as [b Hb]; [apply (inv_sync s I); exact L|].
  rewrite Hb. eexists. split; [reflexivity|]. split; [|split; [reflexivity|]]; cbn [st_conns st_back st_handed].
  - split; cbn [st_conns st_back st_handed].
    + intros c0 q0. rewrite In_back_add, (In_back_remove _ _ _ _ c0 q0 Hb), (inv_sync s I), lookup_dict_set.
      destruct (pid_eqb q q0) eqn:E.
      * apply pid_eqb_eq in E. subst q0. split.
        -- intros [[-> _]|[A B]]; [reflexivity|]. exfalso. apply B. split; [congruence|reflexivity].
        -- intros A. inversion A; subst. left; split; reflexivity.
      * apply pid_eqb_neq in E. split.
        -- intros [[_ A]|[A _]]; [congruence|exact A].
        -- intros A. right. split; [exact A|]. intros [_ B]. congruence.
    + apply NoDup_keys_dict_set. apply (inv_keys s I).
    + apply NoDup_back_add. apply (NoDup_back_remove _ _ _ _ Hb). apply (inv_sets s I).
  - intros q'. apply lookup_dict_set.
Qed.

Lemma connect_new_spec s q c : Inv s -> lookup q (st_conns s) = None ->
  writes_to s {| st_conns := dict_set q c (st_conns s); st_back := back_add c q (st_back s); st_handed := st_handed s |} q (Some c).
Proof.
  intros I L. split; [|split; [reflexivity|]]; cbn [st_conns st_back st_handed].
  - split; cbn [st_conns st_back st_handed].
    + intros c0 q0. rewrite In_back_add, (inv_sync s I), lookup_dict_set.
      destruct (pid_eqb q q0) eqn:E.
      * apply pid_eqb_eq in E. subst q0. split.
        -- intros [[-> _]|A]; [reflexivity|congruence].
        -- intros A. inversion A; subst. left; split; reflexivity.
      * apply pid_eqb_neq in E. split; [intros [[_ A]|A]; [congruence|exact A] | auto].
    + apply NoDup_keys_dict_set. apply (inv_keys s I).
    + apply NoDup_back_add. apply (inv_sets s I).
  - intros q'. apply lookup_dict_set.
Qed.

Lemma connect_spec s q a : Inv s ->
  match norm a with
  | None => connect s q a = CErr ETypeErr
  | Some c => exists s', connect s q a = COk s' /\ writes_to s s' q (Some c)
  end.
Proof.
  intros I. unfold connect. destruct (norm a) as [c|]; [|reflexivity].
  destruct (lookup q (st_conns s)) eqn:L.
  - apply (do_replace_spec s q c c0 I L).
  - eexists. split; [reflexivity|]. apply connect_new_spec; assumption.
Qed.

Lemma replace_spec s q a : Inv s ->
  match norm a, lookup q (st_conns s) with
  | None, _ => replace s q a = CErr ETypeErr
  | Some c, None => replace s q a = CErr EKey
  | Some c, Some _ => exists s', replace s q a = COk s' /\ writes_to s s' q (Some c)
  end.
Proof.
  intros I. unfold replace. destruct (norm a) as [c|]; [|reflexivity].
  destruct (lookup q (st_conns s)) eqn:L.
  - apply (do_replace_spec s q c c0 I L).
  - unfold do_replace. rewrite L. reflexivity.
Qed.

Lemma disconnect_spec s q : Inv s ->
  match lookup q (st_conns s) with
  | None => disconnect s q = CErr EKey
  | Some _ => exists s', disconnect s q = COk s' /\ writes_to s s' q None
  end.
Proof.
  intros I. unfold disconnect. destruct (lookup q (st_conns s)) as [old|] eqn:L; [|reflexivity].
  destruct (back_remove_ok old q (st_back s)) as [b Hb]; [apply (inv_sync s I); exact L|].
  rewrite Hb. eexists. split; [reflexivity|]. split; [|split; [reflexivity|]]; cbn [st_conns st_back st_handed].
  - split; cbn [st_conns st_back st_handed].
    + intros c0 q0. rewrite (In_back_remove _ _ _ _ c0 q0 Hb), (inv_sync s I), lookup_dict_pop.
      destruct (pid_eqb q q0) eqn:E.
      * apply pid_eqb_eq in E. subst q0. split; [|discriminate].
        intros [A B]. exfalso. apply B. split; [congruence|reflexivity].
      * apply pid_eqb_neq in E. split; [tauto|]. intros A. split; [exact A|]. intros [_ B]. congruence.
    + apply NoDup_keys_dict_pop. apply (inv_keys s I).
    + apply (NoDup_back_remove _ _ _ _ Hb). apply (inv_sets s I).
  - intros q'. apply lookup_dict_pop.
Qed.

(* ---------------------------------------------------------------- one operation *)
Ltac spl := repeat match goal with |- _ /\ _ => split end.
Lemma call_spec i kvs : forall s, Inv s ->
  Inv (fst (call s i kvs)) /\ snd (call s i kvs) = call_accepted kvs /\
  st_handed (fst (call s i kvs)) = st_handed s /\
  forall q, lookup q (st_conns (fst (call s i kvs))) = call_port q i kvs (lookup q (st_conns s)).
Proof.
  induction kvs as [|[p a] t IH]; intros s I; simpl.
  - spl; auto.
  - pose proof (connect_spec s (i, p) a I) as H. destruct (norm a) as [c|].
    + destruct H as [s' [E [I' [Hh Hl]]]]. rewrite E. destruct (IH s' I') as [A [B [C D]]].
      spl; [exact A | exact B | congruence |].
      intros q. rewrite D, Hl. reflexivity.
    + rewrite H. simpl. spl; auto.
Qed.

Lemma step_spec s o : Inv s ->
  Inv (apply s o) /\
  snd (step s o) = accepted (fun q => lookup q (st_conns s)) o /\
  forall q, lookup q (st_conns (apply s o)) = port_step q (lookup q (st_conns s)) o.
Proof.
  intros I. unfold apply. destruct o as [i kvs|i p a|i p a|i p a|i p|i p]; cbn [step accepted port_step].
  - destruct (call_spec i kvs s I) as [A [B [_ D]]]. auto.
  - pose proof (connect_spec s (i, p) a I) as H. destruct (norm a) as [c|].
    + destruct H as [s' [E [I' [_ Hl]]]]. rewrite E. simpl. spl; auto; try (intros q; rewrite Hl; reflexivity).
    + rewrite H. simpl. spl; auto; try (intros q; destruct (pid_eqb (i, p) q); reflexivity).
  - pose proof (connect_spec s (i, p) a I) as H. destruct (norm a) as [c|].
    + destruct H as [s' [E [I' [_ Hl]]]]. rewrite E. simpl. spl; auto; try (intros q; rewrite Hl; reflexivity).
    + rewrite H. simpl. spl; auto; try (intros q; destruct (pid_eqb (i, p) q); reflexivity).
  - pose proof (replace_spec s (i, p) a I) as H. destruct (norm a) as [c|]; [destruct (lookup (i, p) (st_conns s)) eqn:L|].
    + destruct H as [s' [E [I' [_ Hl]]]]. rewrite E. simpl. spl; auto.
      intros q. rewrite Hl. destruct (pid_eqb (i, p) q) eqn:Eq; [|reflexivity].
      apply pid_eqb_eq in Eq. subst q. rewrite L. reflexivity.
    + rewrite H. simpl. spl; auto. intros q. destruct (pid_eqb (i, p) q) eqn:Eq; [|reflexivity].
      apply pid_eqb_eq in Eq. subst q. rewrite L. reflexivity.
    + rewrite H. simpl. spl; auto; try (destruct (lookup (i, p) (st_conns s)); reflexivity);
        try (intros q; destruct (pid_eqb (i, p) q); [|reflexivity]; destruct (lookup q (st_conns s)); reflexivity).
  - pose proof (disconnect_spec s (i, p) I) as H. destruct (lookup (i, p) (st_conns s)) eqn:L.
    + destruct H as [s' [E [I' [_ Hl]]]]. rewrite E. simpl. spl; auto.
    + rewrite H. simpl. spl; auto. intros q. destruct (pid_eqb (i, p) q) eqn:Eq; [|reflexivity].
      apply pid_eqb_eq in Eq. subst q. exact L.
  - simpl. split; [|split; [reflexivity|intros q; reflexivity]].
    split; cbn [st_conns st_back]; [apply (inv_sync s I) | apply (inv_keys s I) | apply (inv_sets s I)].
Qed.

Lemma inv_apply s o : Inv s -> Inv (apply s o).
Proof. intros I. apply (step_spec s o I). Qed.

Lemma inv_run_from ops : forall s, Inv s -> Inv (run_from s ops).
Proof. unfold run_from. induction ops as [|o t IH]; simpl; intros s I; [exact I | apply IH, inv_apply, I]. Qed.

Lemma inv_run ops : Inv (run ops).
Proof. apply inv_run_from, inv_init. Qed.

Lemma run_from_final q ops : forall s, Inv s ->
  lookup q (st_conns (run_from s ops)) = fold_left (port_step q) ops (lookup q (st_conns s)).
Proof.
  unfold run_from. induction ops as [|o t IH]; simpl; intros s I; [reflexivity|].
  rewrite IH by (apply inv_apply, I). f_equal. apply (step_spec s o I).
Qed.

Lemma run_app a b : run (a ++ b) = run_from (run a) b.
Proof. unfold run, run_from. apply fold_left_app. Qed.

(* no KeyError out of a back-reference set: the books never disagree *)
Lemma step_no_internal s o : Inv s -> step_err s o <> Some EInternal.
Proof.
  intros I. destruct o as [i kvs|i p a|i p a|i p a|i p|i p]; cbn [step_err]; try discriminate.
  - revert s I. induction kvs as [|[p a] t IH]; intros s I; [discriminate|].
    pose proof (connect_spec s (i, p) a I) as H. destruct (norm a).
    + destruct H as [s' [E [I' _]]]. rewrite E. apply IH, I'.
    + rewrite H. discriminate.
  - pose proof (connect_spec s (i, p) a I) as H. destruct (norm a); [destruct H as [s' [E _]]; rewrite E|rewrite H]; discriminate.
  - pose proof (connect_spec s (i, p) a I) as H. destruct (norm a); [destruct H as [s' [E _]]; rewrite E|rewrite H]; discriminate.
  - pose proof (replace_spec s (i, p) a I) as H. destruct (norm a); [destruct (lookup (i, p) (st_conns s))|];
      [destruct H as [s' [E _]]; rewrite E| rewrite H | rewrite H]; discriminate.
  - pose proof (disconnect_spec s (i, p) I) as H. destruct (lookup (i, p) (st_conns s));
      [destruct H as [s' [E _]]; rewrite E| rewrite H]; discriminate.
Qed.

(* operations that do not address q do not change it *)
Lemma call_port_untouched q i kvs : forall cur,
  existsb (fun kv => pid_eqb (i, fst kv) q) kvs = false -> call_port q i kvs cur = cur.
Proof.
  induction kvs as [|[p a] t IH]; simpl; intros cur H; [reflexivity|].
  apply orb_false_iff in H. destruct H as [H1 H2]. destruct (norm a); [|reflexivity]. rewrite H1. apply IH, H2.
Qed.

Lemma port_step_untouched q o cur : touches q o = false -> port_step q cur o = cur.
Proof.
  destruct o; simpl; intros H; try (rewrite H; reflexivity); [apply call_port_untouched, H | reflexivity].
Qed.

Lemma fold_untouched q ops : forall cur,
  forallb (fun o => negb (touches q o)) ops = true -> fold_left (port_step q) ops cur = cur.
Proof.
  induction ops as [|o t IH]; simpl; intros cur H; [reflexivity|].
  apply andb_true_iff in H. destruct H as [H1 H2]. apply negb_true_iff in H1.
  rewrite port_step_untouched by exact H1. apply IH, H2.
Qed.
