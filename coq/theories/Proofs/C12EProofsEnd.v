(* Proofs/C12EProofsEnd.v — the whole pipeline with oracle-ordered set iteration (Model/C12EOrdered.v:pipeline_o) is the
   fixed-order pipeline model (Model/C01FElab.v:elab_export_model2) on every valid design of the fragment frag_ok2, for every
   oracle that only permutes; hence it is the same for any two such oracles. *)
From Coq Require Import String Permutation.
Require Import Hdl21.Base.PyInt Hdl21.Spec.PySlice Hdl21.Model.Slice Hdl21.Model.Resolve Hdl21.Base.Design
               Hdl21.Spec.Nets Hdl21.Spec.WfDesign Hdl21.Spec.C01ENets Hdl21.Model.C01EElab Hdl21.Model.C01FElab Hdl21.Spec.C01FNets
               Hdl21.Proofs.FunGraph Hdl21.Proofs.ResolveProofs Hdl21.Proofs.C01EProofsBase Hdl21.Proofs.C01FProofsGroups
               Hdl21.Proofs.C01FProofsPlan Hdl21.Proofs.C01FProofsPortRefs Hdl21.Proofs.C01FProofsPortRefsD
               Hdl21.Model.C12EOrdered Hdl21.Proofs.C12EProofsDfs Hdl21.Proofs.C12EProofsGroups Hdl21.Proofs.C12EProofsPlan.
Open Scope Z_scope.

Theorem portrefs2_module_o_agrees o xi d k m : ord_ok o -> wf_design d = Ok tt -> frag_ok2 d = true -> xinfo_ok xi d = true ->
  nth_mod d k = Ok m -> portrefs2_module_o o d (ncnames xi m) m = portrefs2_module d (ncnames xi m) m.
Proof.
  intros Ho Hwf Hfr Hxi Hk. destruct (wf_design_inv _ Hwf) as [_ [_ Hmods]]. pose proof (Hmods k m (proj1 (nth_mod_nth _ _ _) Hk)) as Hwm.
  pose proof (frag_ok2_module d k m Hfr Hk) as Hfrag.
  assert (forall x ports pw, In x (m_insts m) -> target_ports d (i_of x) = Ok ports -> In pw ports -> 1 <= snd pw) as Hpw.
  { intros x ports pw Hx Hp Hin. eapply port_widths_pos; try eassumption. }
  destruct (all_keys d m) as [keys|e] eqn:Hkeys.
  - apply (portrefs2_module_o_eq o d (ncnames xi m) k m Ho Hwm Hfrag Hpw keys Hkeys).
  - unfold portrefs2_module_o, portrefs1_module_o, portrefs2_module, portrefs1_module, pr_table2. rewrite Hkeys. reflexivity.
Qed.

Theorem portrefs2_design_o_agrees o xi d : ord_ok o -> wf_design d = Ok tt -> frag_ok2 d = true -> xinfo_ok xi d = true ->
  portrefs2_design_o o xi d = portrefs2_design xi d.
Proof.
  intros Ho Hwf Hfr Hxi. unfold portrefs2_design_o, portrefs2_design, map_modules.
  assert (forall l : list module, (forall m, In m l -> exists k, nth_mod d k = Ok m) ->
            traverse (fun m => portrefs2_module_o o d (ncnames xi m) m) l = traverse (fun m => portrefs2_module d (ncnames xi m) m) l) as G.
  { induction l as [|m l IH]; intros Hl; cbn [traverse]; [reflexivity|]. destruct (Hl m (or_introl eq_refl)) as [k Hk].
    rewrite (portrefs2_module_o_agrees o xi d k m Ho Hwf Hfr Hxi Hk). rewrite IH by (intros y Hy; apply Hl; right; exact Hy). reflexivity. }
  rewrite G; [reflexivity|]. intros m Hm. apply In_nth_error in Hm. destruct Hm as [k Hk]. exists k. apply nth_mod_nth. exact Hk.
Qed.

Theorem pipeline_o_is_reference o xi d : ord_ok o -> wf_design d = Ok tt -> frag_ok2 d = true -> xinfo_ok xi d = true ->
  pipeline_o o xi d = elab_export_model2 xi d.
Proof.
  intros Ho Hwf Hfr Hxi. unfold pipeline_o, elab_model_o, elab_export_model2, elab_model2.
  rewrite (portrefs2_design_o_agrees o xi d Ho Hwf Hfr Hxi). reflexivity.
Qed.

Theorem pipeline_o_order_free o1 o2 xi d : ord_ok o1 -> ord_ok o2 -> wf_design d = Ok tt -> frag_ok2 d = true -> xinfo_ok xi d = true ->
  pipeline_o o1 xi d = pipeline_o o2 xi d.
Proof.
  intros H1 H2 Hwf Hfr Hxi. rewrite (pipeline_o_is_reference o1 xi d H1 Hwf Hfr Hxi), (pipeline_o_is_reference o2 xi d H2 Hwf Hfr Hxi). reflexivity.
Qed.

(* group discovery and the group's result, as statements of their own *)
Theorem group_res_o_order_free d km m keys g L1 L2 : wf_module d km m = Ok tt -> all_keys d m = Ok keys ->
  In g keys -> gid m keys g = Some g -> is_comp m L1 g -> is_comp m L2 g -> group_res_o m keys g L1 = group_res_o m keys g L2.
Proof.
  intros Hwm Hkeys Hg Hgg H1 H2.
  rewrite (group_res_o_eq d km m keys Hwm Hkeys g L1 Hg Hgg H1), (group_res_o_eq d km m keys Hwm Hkeys g L2 Hg Hgg H2). reflexivity.
Qed.

Theorem follow_o_perm o1 o2 m f1 f2 q L1 L2 : ord_ok o1 -> ord_ok o2 ->
  follow_o o1 m f1 q [] = Some L1 -> follow_o o2 m f2 q [] = Some L2 -> Permutation L1 L2.
Proof.
  intros H1 H2 E1 E2. destruct (follow_component o1 m H1 f1 q L1 E1) as [N1 C1]. destruct (follow_component o2 m H2 f2 q L2 E2) as [N2 C2].
  apply NoDup_Permutation; [exact N1|exact N2|]. intros k. rewrite C1, C2. reflexivity.
Qed.
