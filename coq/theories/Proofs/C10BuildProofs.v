(* Proofs/C10BuildProofs.v — lemmas about Model/C10Build.v (how a Bundle definition comes to have its members). *)
From Coq Require Import String Ascii.
Require Import Hdl21.Base.PyInt Hdl21.Spec.BundleSpec Hdl21.Model.BundleFlat Hdl21.Model.C10Build Hdl21.Proofs.BundleProofs.
Open Scope string_scope.
Open Scope list_scope.
Open Scope Z_scope.

(* ---------- insertion-ordered dicts ---------- *)
Section DictLemmas.
  Context {A : Type} (key : A -> string).

  Lemma dlookup_dassign x d k :
    dlookup key k (dassign key x d) = if String.eqb (key x) k then Some x else dlookup key k d.
  Proof.
    induction d as [|y ys IH]; cbn [dassign dlookup]; [reflexivity|].
    destruct (String.eqb (key y) (key x)) eqn:E.
    - apply String.eqb_eq in E. cbn [dlookup]. rewrite E. destruct (String.eqb (key x) k); reflexivity.
    - cbn [dlookup]. destruct (String.eqb (key y) k) eqn:E2; [|exact IH].
      destruct (String.eqb (key x) k) eqn:E3; [|reflexivity].
      apply String.eqb_eq in E2. apply String.eqb_eq in E3. rewrite E2, E3, String.eqb_refl in E. discriminate.
  Qed.

  Lemma dlookup_ddel k' d k :
    dlookup key k (ddel key k' d) = if String.eqb k' k then None else dlookup key k d.
  Proof.
    unfold ddel. induction d as [|y ys IH]; cbn [filter dlookup].
    - destruct (String.eqb k' k); reflexivity.
    - destruct (String.eqb (key y) k') eqn:E; cbn [negb].
      + rewrite IH. destruct (String.eqb k' k) eqn:E2; [reflexivity|].
        destruct (String.eqb (key y) k) eqn:E3; [|reflexivity].
        apply String.eqb_eq in E. apply String.eqb_eq in E3. rewrite <- E, E3, String.eqb_refl in E2. discriminate.
      + cbn [dlookup]. destruct (String.eqb (key y) k) eqn:E3; [|exact IH].
        destruct (String.eqb k' k) eqn:E2; [|reflexivity].
        apply String.eqb_eq in E2. apply String.eqb_eq in E3. rewrite E2, E3, String.eqb_refl in E. discriminate.
  Qed.

  Lemma dlookup_in k d : In k (map key d) <-> dlookup key k d <> None.
  Proof.
    induction d as [|y ys IH]; cbn [map dlookup In].
    - split; [contradiction|congruence].
    - destruct (String.eqb (key y) k) eqn:E.
      + apply String.eqb_eq in E. split; [congruence|]. intros _. left. exact E.
      + apply String.eqb_neq in E. rewrite <- IH. split; [intros [H|H]; [contradiction|exact H]|intros H; right; exact H].
  Qed.

  Lemma dlookup_notin k d : ~ In k (map key d) -> dlookup key k d = None.
  Proof.
    intros H. destruct (dlookup key k d) eqn:E; [|reflexivity]. exfalso. apply H. apply dlookup_in. congruence.
  Qed.

  Lemma dlookup_some k d x : dlookup key k d = Some x -> In x d /\ key x = k.
  Proof.
    induction d as [|y ys IH]; cbn [dlookup]; [discriminate|].
    destruct (String.eqb (key y) k) eqn:E.
    - intros H. inversion H; subst. apply String.eqb_eq in E. split; [left; reflexivity|exact E].
    - intros H. destruct (IH H) as [H1 H2]. split; [right; exact H1|exact H2].
  Qed.

  Lemma dlookup_NoDup d x : NoDup (map key d) -> In x d -> dlookup key (key x) d = Some x.
  Proof.
    induction d as [|y ys IH]; [contradiction|]. cbn [map dlookup]. intros N [->|H].
    - rewrite String.eqb_refl. reflexivity.
    - inversion N; subst. destruct (String.eqb (key y) (key x)) eqn:E; [|apply IH; assumption].
      apply String.eqb_eq in E. exfalso. apply H2. rewrite E. apply in_map. exact H.
  Qed.

  Lemma keys_dassign k x d : In k (map key (dassign key x d)) <-> k = key x \/ In k (map key d).
  Proof.
    rewrite !dlookup_in, dlookup_dassign. destruct (String.eqb (key x) k) eqn:E.
    - apply String.eqb_eq in E. split; [intros _; left; symmetry; exact E|congruence].
    - apply String.eqb_neq in E. split; [intros H; right; exact H|intros [H|H]; [congruence|exact H]].
  Qed.

  Lemma keys_ddel k k' d : In k (map key (ddel key k' d)) <-> k <> k' /\ In k (map key d).
  Proof.
    rewrite !dlookup_in, dlookup_ddel. destruct (String.eqb k' k) eqn:E.
    - apply String.eqb_eq in E. split; [congruence|]. intros [H _]. congruence.
    - apply String.eqb_neq in E. split; [intros H; split; [congruence|exact H]|intros [_ H]; exact H].
  Qed.

  Lemma NoDup_dassign x d : NoDup (map key d) -> NoDup (map key (dassign key x d)).
  Proof.
    induction d as [|y ys IH]; cbn [dassign map]; intros N.
    - constructor; [intros []|constructor].
    - destruct (String.eqb (key y) (key x)) eqn:E.
      + apply String.eqb_eq in E. cbn [map]. rewrite <- E. exact N.
      + apply String.eqb_neq in E. inversion N; subst. cbn [map]. constructor; [|apply IH; assumption].
        rewrite keys_dassign. intros [H|H]; [contradiction|contradiction].
  Qed.

  Lemma NoDup_ddel k' d : NoDup (map key d) -> NoDup (map key (ddel key k' d)).
  Proof.
    unfold ddel. induction d as [|y ys IH]; cbn [filter map]; intros N; [constructor|].
    inversion N; subst. destruct (negb (String.eqb (key y) k')); [|apply IH; assumption].
    cbn [map]. constructor; [|apply IH; assumption].
    intros H. apply H1. apply in_map_iff in H. destruct H as [z [Ez Hz]]. apply filter_In in Hz.
    rewrite <- Ez. apply in_map. tauto.
  Qed.
End DictLemmas.

Lemma find_leaf_dlookup k l : find_leaf k l = dlookup lname k l.
Proof. induction l as [|x xs IH]; cbn [find_leaf dlookup]; [reflexivity|]. rewrite IH. reflexivity. Qed.
Lemma find_sub_dlookup k l : find_sub k l = dlookup bname k l.
Proof. induction l as [|x xs IH]; cbn [find_sub dlookup]; [reflexivity|]. rewrite IH. reflexivity. Qed.

(* ---------- the two containers stay dicts over disjoint names ---------- *)
Definition inv (st : members) : Prop :=
  NoDup (map lname (fst st)) /\ NoDup (map bname (snd st)) /\
  forall k, In k (map lname (fst st)) -> ~ In k (map bname (snd st)).

Lemma inv_add1 st o : inv st -> inv (add1 st o).
Proof.
  destruct st as [sigs subs]. unfold inv. cbn [fst snd]. intros [N1 [N2 D]].
  destruct o as [l|t|k]; cbn [add1 fst snd]; [| |repeat split; assumption].
  - repeat split; [apply NoDup_dassign; exact N1|apply NoDup_ddel; exact N2|].
    intros k. rewrite keys_dassign, keys_ddel. intros [->|H] [Hn H2]; [congruence|]. exact (D k H H2).
  - repeat split; [apply NoDup_ddel; exact N1|apply NoDup_dassign; exact N2|].
    intros k. rewrite keys_dassign, keys_ddel. intros [Hn H] [->|H2]; [congruence|]. exact (D k H H2).
Qed.

Lemma inv_fold ops : forall st, inv st -> inv (fold_left add1 ops st).
Proof.
  induction ops as [|o rest IH]; intros st H; cbn [fold_left]; [exact H|]. apply IH. apply inv_add1. exact H.
Qed.

Lemma inv_empty : inv ([], []).
Proof. repeat split; cbn; try constructor. intros k []. Qed.

Lemma inv_build cls ops : inv (build cls ops).
Proof. unfold build, build_proc. destruct cls; apply inv_fold; exact inv_empty. Qed.

Lemma inv_snodup st : inv st -> snodup (map lname (fst st) ++ map bname (snd st)) = true.
Proof.
  intros [N1 [N2 D]]. apply snodup_NoDup. apply NoDup_app_iff. repeat split; assumption.
Qed.

(* ---------- the last assignment to a name decides ---------- *)
Definition sig_or (o : option mop) (dflt : option leaf) : option leaf :=
  match o with Some (MSig l) => Some l | Some _ => None | None => dflt end.
Definition sub_or (o : option mop) (dflt : option btree) : option btree :=
  match o with Some (MSub t) => Some t | Some _ => None | None => dflt end.

Lemma last_write_cons k o rest :
  last_write k (o :: rest) = match last_write k rest with Some o' => Some o' | None => if String.eqb (mkey o) k then Some o else None end.
Proof. reflexivity. Qed.

Lemma fold_sigs k ops : forall st,
  dlookup lname k (fst (fold_left add1 ops st)) = sig_or (last_write k (attr_ops ops)) (dlookup lname k (fst st)).
Proof.
  induction ops as [|o rest IH]; intros st; cbn [fold_left]; [reflexivity|].
  rewrite IH. destruct o as [l|t|j]; cbn [attr_ops filter]; fold (attr_ops rest); [| |reflexivity].
  - rewrite last_write_cons. destruct (last_write k (attr_ops rest)) as [o'|]; [reflexivity|].
    cbn [add1 fst mkey sig_or]. rewrite dlookup_dassign. destruct (String.eqb (lname l) k); reflexivity.
  - rewrite last_write_cons. destruct (last_write k (attr_ops rest)) as [o'|]; [reflexivity|].
    cbn [add1 fst mkey sig_or]. rewrite dlookup_ddel. destruct (String.eqb (bname t) k); reflexivity.
Qed.

Lemma fold_subs k ops : forall st,
  dlookup bname k (snd (fold_left add1 ops st)) = sub_or (last_write k (attr_ops ops)) (dlookup bname k (snd st)).
Proof.
  induction ops as [|o rest IH]; intros st; cbn [fold_left]; [reflexivity|].
  rewrite IH. destruct o as [l|t|j]; cbn [attr_ops filter]; fold (attr_ops rest); [| |reflexivity].
  - rewrite last_write_cons. destruct (last_write k (attr_ops rest)) as [o'|]; [reflexivity|].
    cbn [add1 snd mkey sub_or]. rewrite dlookup_ddel. destruct (String.eqb (lname l) k); reflexivity.
  - rewrite last_write_cons. destruct (last_write k (attr_ops rest)) as [o'|]; [reflexivity|].
    cbn [add1 snd mkey sub_or]. rewrite dlookup_dassign. destruct (String.eqb (bname t) k); reflexivity.
Qed.

(* the class body *)
Lemma class_fold k ops : forall d,
  dlookup mkey k (fold_left (fun d o => dassign mkey o d) ops d) =
  match last_write k ops with Some o => Some o | None => dlookup mkey k d end.
Proof.
  induction ops as [|o rest IH]; intros d; cbn [fold_left]; [reflexivity|].
  rewrite IH, last_write_cons. destruct (last_write k rest); [reflexivity|].
  rewrite dlookup_dassign. destruct (String.eqb (mkey o) k); reflexivity.
Qed.

Lemma class_fold_NoDup ops : forall d, NoDup (map mkey d) -> NoDup (map mkey (fold_left (fun d o => dassign mkey o d) ops d)).
Proof.
  induction ops as [|o rest IH]; intros d N; cbn [fold_left]; [exact N|]. apply IH. apply NoDup_dassign. exact N.
Qed.

Lemma class_dict_lookup k ops : dlookup mkey k (class_dict ops) = last_write k ops.
Proof. unfold class_dict. rewrite class_fold. destruct (last_write k ops); reflexivity. Qed.

Lemma class_dict_NoDup ops : NoDup (map mkey (class_dict ops)).
Proof. apply class_fold_NoDup. constructor. Qed.

Definition not_junk (o : option mop) : option mop := match o with Some (MJunk _) => None | x => x end.

Lemma last_write_dict k d : NoDup (map mkey d) -> last_write k (attr_ops d) = not_junk (dlookup mkey k d).
Proof.
  induction d as [|o rest IH]; [reflexivity|]. cbn [map]. intros N. inversion N; subst.
  cbn [dlookup]. destruct (String.eqb (mkey o) k) eqn:E.
  - apply String.eqb_eq in E. subst k. pose proof (IH H2) as IH'. rewrite (dlookup_notin mkey _ _ H1) in IH'. cbn [not_junk] in IH'.
    destruct o as [l|t|j]; cbn [attr_ops filter]; fold (attr_ops rest); [| |exact IH'];
      rewrite last_write_cons, IH', String.eqb_refl; reflexivity.
  - destruct o as [l|t|j]; cbn [attr_ops filter]; fold (attr_ops rest); [| |apply IH; exact H2];
      rewrite last_write_cons, (IH H2), E; destruct (not_junk (dlookup mkey k rest)); reflexivity.
Qed.

Lemma last_write_In k ops o : last_write k ops = Some o -> In o ops /\ mkey o = k.
Proof.
  induction ops as [|x rest IH]; [discriminate|]. rewrite last_write_cons.
  destruct (last_write k rest) as [o'|].
  - intros H. inversion H; subst. destruct (IH eq_refl) as [H1 H2]. split; [right; exact H1|exact H2].
  - destruct (String.eqb (mkey x) k) eqn:E; [|discriminate]. intros H. inversion H; subst.
    apply String.eqb_eq in E. split; [left; reflexivity|exact E].
Qed.

Lemma attr_ops_In o ops : In o (attr_ops ops) -> In o ops.
Proof. unfold attr_ops. intros H. apply filter_In in H. tauto. Qed.

(* the writes that count: every one in a class body, the accepted ones in a procedural history *)
Definition writes (cls : bool) (ops : list mop) : list mop := if cls then ops else attr_ops ops.

Lemma build_sigs cls ops k : find_leaf k (fst (build cls ops)) = final_sig k (writes cls ops).
Proof.
  rewrite find_leaf_dlookup. unfold build, build_proc, final_sig, writes. destruct cls.
  - rewrite fold_sigs, (last_write_dict k _ (class_dict_NoDup ops)), class_dict_lookup. cbn [fst dlookup].
    destruct (last_write k ops) as [[l|t|j]|]; reflexivity.
  - rewrite fold_sigs. cbn [fst dlookup]. destruct (last_write k (attr_ops ops)) as [[l|t|j]|]; reflexivity.
Qed.

Lemma build_subs cls ops k : find_sub k (snd (build cls ops)) = final_sub k (writes cls ops).
Proof.
  rewrite find_sub_dlookup. unfold build, build_proc, final_sub, writes. destruct cls.
  - rewrite fold_subs, (last_write_dict k _ (class_dict_NoDup ops)), class_dict_lookup. cbn [snd dlookup].
    destruct (last_write k ops) as [[l|t|j]|]; reflexivity.
  - rewrite fold_subs. cbn [snd dlookup]. destruct (last_write k (attr_ops ops)) as [[l|t|j]|]; reflexivity.
Qed.

Lemma writes_In cls o ops : In o (writes cls ops) -> In o ops.
Proof. destruct cls; [tauto|apply attr_ops_In]. Qed.

(* membership in the final containers *)
Lemma build_sig_In cls ops l : In l (fst (build cls ops)) <-> final_sig (lname l) (writes cls ops) = Some l.
Proof.
  rewrite <- build_sigs, find_leaf_dlookup. destruct (inv_build cls ops) as [N _]. split.
  - apply dlookup_NoDup. exact N.
  - intros H. apply dlookup_some in H. tauto.
Qed.

Lemma build_sub_In cls ops t : In t (snd (build cls ops)) <-> final_sub (bname t) (writes cls ops) = Some t.
Proof.
  rewrite <- build_subs, find_sub_dlookup. destruct (inv_build cls ops) as [_ [N _]]. split.
  - apply dlookup_NoDup. exact N.
  - intros H. apply dlookup_some in H. tauto.
Qed.

Lemma build_sub_from_ops cls ops t : In t (snd (build cls ops)) -> In (MSub t) ops.
Proof.
  rewrite build_sub_In. unfold final_sub. destruct (last_write (bname t) (writes cls ops)) as [[l|t'|j]|] eqn:E; try discriminate.
  intros H. inversion H; subst. apply last_write_In in E. apply (writes_In cls). tauto.
Qed.

(* ---------- whole trees ---------- *)
Definition hop_P (P : htree -> Prop) (o : hop htree) : Prop := match o with OSub s => P s | _ => True end.

Section htree_ind'.
  Variable P : htree -> Prop.
  Hypothesis H : forall n cf nf r cls ops, Forall (hop_P P) ops -> P (HT n cf nf r cls ops).
  Fixpoint htree_ind' (h : htree) : P h :=
    match h with
    | HT n cf nf r cls ops =>
        H n cf nf r cls ops
          ((fix go (l : list (hop htree)) : Forall (hop_P P) l :=
              match l with
              | [] => Forall_nil _
              | o :: rest =>
                  Forall_cons _ (match o return hop_P P o with OSub s => htree_ind' s | OSig _ => I | OJunk _ => I end) (go rest)
              end) ops)
    end.
End htree_ind'.

Definition mop_of (o : hop htree) : mop :=
  match o with OSig l => MSig l | OSub s => MSub (resolve s) | OJunk k => MJunk k end.

Lemma resolve_eq n cf nf r cls ops :
  resolve (HT n cf nf r cls ops) = BT n cf nf r (fst (build cls (map mop_of ops))) (snd (build cls (map mop_of ops))).
Proof.
  cbn [resolve].
  replace ((fix go (l : list (hop htree)) : list mop :=
              match l with
              | [] => []
              | o :: rest => match o with OSig l0 => MSig l0 | OSub s => MSub (resolve s) | OJunk k => MJunk k end :: go rest
              end) ops) with (map mop_of ops); [reflexivity|].
  induction ops as [|o rest IH]; [reflexivity|]. cbn [map]. rewrite IH. destruct o; reflexivity.
Qed.

Lemma resolve_wf h : wf_tree (resolve h) = true.
Proof.
  induction h as [n cf nf r cls ops IH] using htree_ind'. rewrite resolve_eq, wf_tree_eq.
  apply andb_true_intro. split; [apply inv_snodup; apply inv_build|].
  apply forallb_forall. intros t Ht. apply build_sub_from_ops in Ht. apply in_map_iff in Ht.
  destruct Ht as [o [Eo Ho]]. rewrite Forall_forall in IH. specialize (IH o Ho).
  destruct o as [l|s|k]; cbn [mop_of] in Eo; try discriminate. inversion Eo; subst. exact IH.
Qed.
