(* Proofs/C02EProofsBase.v — lemmas shared by the reject-completeness proof of the checked pipeline
   (Model/C02EPipeline.v): the per-module drivers, ConnTypes.check_instance without assuming that the connection
   names are distinct, orbits cut after `fuel` steps, what passes keep, the universe of reference groups. *)
From Coq Require Import String.
Require Import Hdl21.Base.PyInt Hdl21.Spec.PySlice Hdl21.Model.Slice Hdl21.Model.Resolve Hdl21.Base.Design
               Hdl21.Spec.WfDesign Hdl21.Model.Checks Hdl21.Model.C02Checks Hdl21.Model.C01EElab Hdl21.Model.C02EPipeline
               Hdl21.Proofs.FunGraph Hdl21.Proofs.ResolveProofs Hdl21.Proofs.ChecksProofs
               Hdl21.Proofs.C01EProofsBase Hdl21.Proofs.C01EProofsPass Hdl21.Proofs.C01EProofsGroups.
Open Scope Z_scope.

Lemma unit_result (r : result unit) u : r = Ok u -> r = Ok tt.
Proof. destruct u. auto. Qed.

(* ------------------------------------------------------------------------------------------ each_module *)
Lemma each_from_nth f : forall ms k j m, each_from f k ms = Ok tt -> nth_error ms j = Some m -> f (k + j)%nat m = Ok tt.
Proof.
  induction ms as [|m0 ms IH]; intros k j m H Hn; [destruct j; discriminate|].
  cbn [each_from] in H. apply bind_ok in H. destruct H as [[] [H0 H1]].
  destruct j as [|j]; cbn [nth_error] in Hn.
  - inversion Hn; subst. rewrite Nat.add_0_r. exact H0.
  - replace (k + S j)%nat with (S k + j)%nat by lia. eapply IH; eassumption.
Qed.

Lemma each_from_intro f : forall ms k, (forall j m, nth_error ms j = Some m -> f (k + j)%nat m = Ok tt) -> each_from f k ms = Ok tt.
Proof.
  induction ms as [|m0 ms IH]; intros k H; cbn [each_from]; [reflexivity|].
  pose proof (H 0%nat m0 eq_refl) as H0. rewrite Nat.add_0_r in H0. rewrite H0. cbn [bind]. apply IH.
  intros j m Hj. replace (S k + j)%nat with (k + S j)%nat by lia. apply H. exact Hj.
Qed.

Lemma each_module_nth f d k m : each_module f d = Ok tt -> nth_error (d_mods d) k = Some m -> f k m = Ok tt.
Proof. intros H Hn. apply (each_from_nth f (d_mods d) 0%nat k m H Hn). Qed.

Lemma each_module_intro f d : (forall k m, nth_error (d_mods d) k = Some m -> f k m = Ok tt) -> each_module f d = Ok tt.
Proof. intros H. apply each_from_intro. intros j m Hj. apply H. exact Hj. Qed.

Lemma each_module_unit f d u : each_module f d = Ok u -> each_module f d = Ok tt.
Proof. apply unit_result. Qed.

(* ------------------------------------------------------------------------------------------ check_instance *)
Lemma pop_keys {A} k (l : list (name * A)) q : In q (map fst l) -> q = k \/ In q (map fst (snd (pop k l))).
Proof.
  induction l as [|[k0 v] l IH]; cbn [pop map fst]; [intros []|].
  destruct (String.eqb k k0) eqn:E.
  - apply String.eqb_eq in E. subst k0. cbn [snd]. intros [<-|H]; [left; reflexivity|right; exact H].
  - destruct (pop k l) as [r rest] eqn:Ep. cbn [snd map fst] in *. intros [<-|H]; [right; left; reflexivity|].
    destruct (IH H) as [->|H']; [left; reflexivity|right; right; exact H'].
Qed.

(* what an accepted instance looks like, whether or not the connection names are distinct *)
Lemma check_instance_sound ports : forall conns,
  nodup_names (map fst ports) = true -> check_instance ports conns = true ->
  (forall p w, assoc p ports = Some w -> assoc p conns = Some w) /\
  (forall p, In p (map fst conns) -> In p (map fst ports)).
Proof.
  unfold check_instance.
  induction ports as [|[p w] ports IH]; intros conns Np H; cbn [check_ports] in H.
  - destruct conns; [|discriminate]. split; [intros ? ? H0; discriminate|intros ? []].
  - cbn [map fst nodup_names] in Np. apply andb_prop in Np. destruct Np as [Np1 Np2].
    pose proof (pop_spec p conns) as [P1 [P2 _]]. pose proof (pop_keys p conns) as P3.
    destruct (pop p conns) as [c rest] eqn:Ep. cbn [fst snd] in *.
    specialize (IH rest Np2). destruct (check_ports ports rest) as [ok lft] eqn:Ec.
    apply andb_prop in H. destruct H as [H1 H2].
    destruct c as [cw|]; [|discriminate]. apply andb_prop in H1. destruct H1 as [Hw Hok].
    assert (X : ok && match lft with [] => true | _ :: _ => false end = true) by (rewrite Hok, H2; reflexivity).
    apply IH in X. destruct X as [X1 X2]. split.
    + intros q qw Hq. cbn [assoc] in Hq. destruct (String.eqb q p) eqn:Eq.
      * apply String.eqb_eq in Eq. subst q. inversion Hq; subst. rewrite <- P1. f_equal. lia.
      * rewrite <- P2 by (intros ->; rewrite String.eqb_refl in Eq; discriminate). apply X1. exact Hq.
    + intros q Hq. cbn [map fst]. destruct (P3 q Hq) as [->|Hr]; [left; reflexivity|right; apply X2; exact Hr].
Qed.

(* ------------------------------------------------------------------------------------------ orbits, without a closed node set *)
Section Orbits.
Variable A : Type.
Variable f : A -> A.
Variable eqb : A -> A -> bool.
Hypothesis eqb_eq : forall a b, eqb a b = true <-> a = b.

Lemma orbitf_le fuel : forall x y, In y (orbitf A f eqb fuel x) -> exists n, (n <= fuel)%nat /\ y = Nat.iter n f x.
Proof.
  induction fuel as [|k IH]; intros x y H; cbn [orbitf] in H.
  - destruct H as [<-|[]]. exists 0%nat. split; [lia|reflexivity].
  - destruct (eqb (f x) x).
    + destruct H as [<-|[]]. exists 0%nat. split; [lia|reflexivity].
    + destruct H as [<-|H]; [exists 0%nat; split; [lia|reflexivity]|].
      destruct (IH _ _ H) as [n [Hn ->]]. exists (S n). split; [lia|]. cbn [Nat.iter]. apply iter_comm.
Qed.

Lemma orbitf_fixed fuel x : f x = x -> orbitf A f eqb fuel x = [x].
Proof. intros H. destruct fuel; cbn [orbitf]; [reflexivity|]. rewrite (proj2 (eqb_eq (f x) x) H). reflexivity. Qed.

(* an orbit that meets the orbit of a fixed point ends in it *)
Lemma meets_fixed fuel g q : f q = q -> meets A eqb (orbitf A f eqb fuel g) (orbitf A f eqb fuel q) = true ->
  Nat.iter fuel f g = q.
Proof.
  intros Hq H. rewrite (orbitf_fixed fuel q Hq) in H. unfold meets in H. apply existsb_exists in H.
  destruct H as [a [Ha H]]. cbn [existsb] in H. rewrite orb_false_r in H. apply eqb_eq in H. subst a.
  destruct (orbitf_le _ _ _ Ha) as [n [Hn E]].
  replace fuel with ((fuel - n) + n)%nat by lia. rewrite iter_add, <- E. apply fixed_iter. exact Hq.
Qed.

(* the iterates of s: s itself, or something that is the image of a point it is not equal to *)
Lemma iter_image n : forall s t, Nat.iter n f s = t -> s = t \/ exists z, f z = t /\ z <> t.
Proof.
  induction n as [|n IH]; intros s t H; cbn [Nat.iter] in H; [left; exact H|].
  destruct (eqb (Nat.iter n f s) t) eqn:E.
  - apply eqb_eq in E. apply IH. exact E.
  - right. exists (Nat.iter n f s). split; [exact H|]. intros Heq. apply eqb_eq in Heq. congruence.
Qed.
End Orbits.

(* ------------------------------------------------------------------------------------------ what the passes keep *)
Lemma target_ports_same f d d' t : map_modules f d = Ok d' -> (forall m m', f m = Ok m' -> m_ports m' = m_ports m) ->
  target_ports d' t = target_ports d t.
Proof.
  intros H Hp. destruct t as [k|dev ps]; [|reflexivity]. cbn [target_ports]. unfold nth_mod.
  destruct (nth_error (d_mods d) k) as [m|] eqn:E.
  - assert (nth_mod d k = Ok m) as E' by (unfold nth_mod; rewrite E; reflexivity).
    destruct (map_modules_nth _ _ _ _ _ H E') as [m' [Hm' Hf]]. unfold nth_mod in Hm'.
    destruct (nth_error (d_mods d') k) as [m2|]; cbn [ofopt] in Hm'; [|discriminate]. inversion Hm'; subst m2.
    cbn [ofopt bind]. rewrite (Hp _ _ Hf). reflexivity.
  - destruct (nth_error (d_mods d') k) as [m'|] eqn:E'; [|reflexivity].
    destruct (map_modules_nth_rev _ _ _ _ _ H E') as [m [Em _]]. rewrite Em in E. discriminate.
Qed.

Lemma port_width_same f d d' x x' p : map_modules f d = Ok d' -> (forall m m', f m = Ok m' -> m_ports m' = m_ports m) ->
  i_of x' = i_of x -> port_width d' x' p = port_width d x p.
Proof. intros H Hp Ho. unfold port_width. rewrite Ho, (target_ports_same f d d' _ H Hp). reflexivity. Qed.

(* ------------------------------------------------------------------------------------------ the universe of groups *)
Lemma keys_In_nd d m keys : NoDup (map i_name (m_insts m)) -> all_keys d m = Ok keys ->
  forall q, In q keys <-> exists x w, find_inst (m_insts m) (fst q) = Some x /\ single x = true /\ port_width d x (snd q) = Ok w.
Proof.
  intros Hnd Hkeys q. pose proof Hkeys as Hk. unfold all_keys in Hk. apply cat_results_map_ok in Hk.
  destruct Hk as [rs [Hrs ->]]. apply traverse_Forall2 in Hrs. split.
  - intros Hin. apply in_concat in Hin. destruct Hin as [l [Hl Hq]]. destruct (Forall2_In_r _ _ _ l Hrs Hl) as [x [Hx Hf]].
    cbv beta in Hf. destruct (single x) eqn:Es; [|inversion Hf; subst; destruct Hq].
    apply bind_ok in Hf. destruct Hf as [ps [Hps Hf]]. inversion Hf; subst. apply in_map_iff in Hq. destruct Hq as [[pn w] [<- Hpw]].
    cbn [fst snd]. destruct (assoc pn ps) as [w'|] eqn:Ea.
    + exists x, w'. split; [apply find_inst_unique; [exact Hnd|exact Hx]|]. split; [exact Es|].
      unfold port_width. rewrite Hps. cbn [bind]. rewrite Ea. reflexivity.
    + exfalso. apply (assoc_None_notin _ _ Ea). apply (in_map fst) in Hpw. exact Hpw.
  - intros [x [w [Hf [Es Hw]]]]. destruct (find_inst_In _ _ _ Hf) as [Hx Hn].
    destruct (Forall2_In_l _ _ _ x Hrs Hx) as [l [Hl Hfx]]. cbv beta in Hfx. rewrite Es in Hfx.
    unfold port_width in Hw. destruct (target_ports d (i_of x)) as [ps|]; cbn [bind] in *; [|discriminate].
    inversion Hfx; subst l. apply ofopt_ok in Hw. apply in_concat. eexists. split; [exact Hl|].
    apply in_map_iff. exists (snd q, w). split; [destruct q; cbn [fst snd] in *; subst; reflexivity|apply assoc_In; exact Hw].
Qed.

(* a fixed point of nxt: a port whose connection is not a reference to another port *)
Lemma nxt_fixed_of_next m q : next m q = None -> nxt m q = q.
Proof. unfold nxt. intros ->. reflexivity. Qed.

Lemma nxt_image m z t : nxt m z = t -> z <> t -> next m z = Some t.
Proof. unfold nxt. destruct (next m z) as [q'|]; intros H Hne; [congruence|contradiction]. Qed.
