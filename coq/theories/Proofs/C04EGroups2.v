(* Proofs/C04EGroups2.v — the groups agree WITHOUT the hypothesis closed_ok: instances that are not part of the module (the
   template consumed by `n * Instance` stays connected to whatever it was connected to) may hold connections, also references
   to ports of the module.  `follow` filters them out of the back-reference sets (repair C04-2), the design does not contain
   them.  Argument: two ports of the module are in one group of the design iff their orbits under "the port my connection
   refers to" meet; these orbits stay inside the module (shape_ok), the group of `follow` is closed forwards and - for
   instances of the module - backwards (Props/C04.v:C04_groups_closed), so it contains both orbits up to the meeting point. *)
From Coq Require Import String.
Require Import Hdl21.Base.PyInt Hdl21.Spec.PySlice Hdl21.Model.Slice Hdl21.Model.Resolve Hdl21.Base.Design
               Hdl21.Spec.WfDesign Hdl21.Model.C04ConnOps Hdl21.Spec.C04LastWrite Hdl21.Proofs.C04Proofs
               Hdl21.Model.C04Groups Hdl21.Proofs.C04GroupProofs Hdl21.Proofs.C04GroupComplete
               Hdl21.Proofs.FunGraph Hdl21.Model.C01EElab Hdl21.Proofs.C01EProofsBase Hdl21.Proofs.C01FProofsGroups
               Hdl21.Model.C04EBridge Hdl21.Proofs.C04EProofs Hdl21.Proofs.C04EEnd Hdl21.Proofs.C04EShape.
Require Hdl21.Props.C04.
Open Scope Z_scope.

Section G2.
Variables (u : universe) (ops : list op) (inmod : Z -> bool) (fuel : nat) (q : pid) (g : list gitem).
Let m := fun x => final x ops.
Hypothesis Hu : u_ok u = true.
Hypothesis Hs : shape_ok u m = true.
Hypothesis Hi : forall x, In x (u_insts u) -> inmod (ui_id x) = true.
Hypothesis Hf : follow (run ops) inmod fuel q [] = Some g.

Lemma fwd x : In (GRef x) g -> In (GRef (nxtP m x)) g.
Proof.
  intros Hx. unfold nxtP, m. destruct (final x ops) as [[kd id|i p]|] eqn:E; try exact Hx.
  destruct (Hdl21.Props.C04.C04_groups_closed ops inmod fuel q g x Hf Hx) as [_ [F _]]. exact (F i p E).
Qed.

Lemma fwd_iter n x : In (GRef x) g -> In (GRef (Nat.iter n (nxtP m) x)) g.
Proof. induction n as [|n IH]; intros Hx; [exact Hx|]. cbn [Nat.iter]. apply fwd. apply IH. exact Hx. Qed.

Lemma bwd x : In (GRef (nxtP m x)) g -> inmod (fst x) = true -> In (GRef x) g.
Proof.
  unfold nxtP, m. destruct (final x ops) as [[kd id|i p]|] eqn:E; try (intros H _; exact H).
  intros H M. destruct (Hdl21.Props.C04.C04_groups_closed ops inmod fuel q g (i, p) Hf H) as [_ [_ [_ F]]].
  apply (F x); [cbn [fst snd]; exact E|exact M].
Qed.

Lemma orbit_inmod k a n x : key_of u x k = Some a -> inmod (fst (Nat.iter n (nxtP m) x)) = true.
Proof.
  intros Hk. pose proof (key_iter u m Hu Hs n x k a Hk) as H. destruct (key_of_spec u _ _ _ H) as [y [_ [Hy _]]].
  destruct (find_ui_spec u _ _ Hy) as [Iy Ey]. rewrite <- Ey. apply Hi. exact Iy.
Qed.

Lemma bwd_iter k a x : key_of u x k = Some a -> forall n, In (GRef (Nat.iter n (nxtP m) x)) g -> In (GRef x) g.
Proof.
  intros Hk. induction n as [|n IH]; intros H; [exact H|]. cbn [Nat.iter] in H. apply IH. apply bwd; [exact H|].
  exact (orbit_inmod k a n x Hk).
Qed.

Theorem member_iff_conn r k a b : key_of u q k = Some a -> key_of u r k = Some b ->
  (In (GRef r) g <-> FunGraph.conn key (nxt (top_of u m)) a b).
Proof.
  intros Ha Hb. rewrite <- (conn_key u m Hu Hs q r k a b Ha Hb). split.
  - intros Hr. destruct (Hdl21.Props.C04.C04_groups_follow_final_mapping ops inmod fuel q g _ Hf Hr) as [[r' [E R]]|[r' [c [E _]]]];
      [|discriminate]. inversion E; subst r'.
    apply (reach_conn (run ops) m q r (fun x => Hdl21.Props.C04.C04_final_mapping_only ops x)). exact R.
  - intros C. apply conn_meet in C. destruct C as [n1 [n2 E]].
    destruct (follow_closed (run ops) inmod fuel q [] g Hf) as [_ Q].
    apply (bwd_iter k b r Hb n2). rewrite <- E. apply fwd_iter. exact Q.
Qed.
End G2.

Theorem groups_agree_open u ops inmod fuel q r g k a b keys :
  u_ok u = true -> (forall x, In x (u_insts u) -> inmod (ui_id x) = true) ->
  wf_design (design_of u (fun x => final x ops)) = Ok tt ->
  all_keys (design_of u (fun x => final x ops)) (top_of u (fun x => final x ops)) = Ok keys ->
  follow (run ops) inmod fuel q [] = Some g ->
  key_of u q k = Some a -> key_of u r k = Some b -> In a keys -> In b keys ->
  (In (GRef r) g <-> gid (top_of u (fun x => final x ops)) keys a = gid (top_of u (fun x => final x ops)) keys b).
Proof.
  intros Hu Hi Hwf Hk Hf Ha Hb Ia Ib.
  rewrite (member_iff_conn u ops inmod fuel q g Hu (wf_shape u _ Hu Hwf) Hi Hf r k a b Ha Hb).
  destruct (wf_design_inv _ Hwf) as [_ [_ Hm]]. pose proof (Hm _ _ (top_nth u _)) as Hw.
  symmetry. apply (gid_eq_conn _ _ _ keys a b Hw Hk Ia Ib).
Qed.
