(* Proofs/ParamNameProofs.v — injectivity of the readable parameter suffix, decidable equality of values. *)
Require Import Hdl21.Base.PyInt Hdl21.Model.ParamName.
From Coq Require Import String Ascii DecimalString DecimalZ Decimal.
Require Import Hdl21Gen.Limits.
Open Scope string_scope.
Open Scope Z_scope.

(* ---------- strings ---------- *)
Lemma append_inv_head k : forall a b, k ++ a = k ++ b -> a = b.
Proof. induction k as [|c k IH]; simpl; intros a b H; [assumption|]. inversion H. auto. Qed.

Lemma append_inv_tail_char c : forall a b, a ++ String c "" = b ++ String c "" -> a = b.
Proof.
  induction a as [|x a IH]; destruct b as [|y b]; simpl; intros H; try reflexivity.
  - inversion H as [[H1 H2]]. destruct b; discriminate.
  - inversion H as [[H1 H2]]. destruct a; discriminate.
  - inversion H. f_equal. auto.
Qed.

Lemma append_assoc' (a b c : string) : (a ++ b) ++ c = a ++ b ++ c.
Proof. induction a; simpl; congruence. Qed.

Definition nospace (s : string) : Prop := has_char " " s = false.

Lemma split_first_space : forall r r' t t', nospace r -> nospace r' ->
  r ++ " " ++ t = r' ++ " " ++ t' -> r = r' /\ t = t'.
Proof.
  unfold nospace. induction r as [|c r IH]; destruct r' as [|c' r']; simpl; intros t t' H1 H2 H.
  - inversion H. auto.
  - inversion H as [[Hc Ht]]. subst c'. simpl in H2. discriminate.
  - inversion H as [[Hc Ht]]. subst c. simpl in H1. discriminate.
  - inversion H as [[Hc Ht]]. subst c'.
    apply orb_false_iff in H1. apply orb_false_iff in H2.
    destruct (IH r' t t') as [-> ->]; try tauto.
Qed.

(* a space-free string is never a space-free string followed by " ..." *)
Lemma nospace_no_split : forall r r' t, nospace r -> nospace r' -> r = r' ++ " " ++ t -> False.
Proof.
  unfold nospace. induction r as [|c r IH]; destruct r' as [|c' r']; simpl; intros t H1 H2 H; try discriminate.
  - inversion H. subst c. simpl in H1. discriminate.
  - inversion H as [[Hc Ht]]. subst c'. apply orb_false_iff in H1. apply orb_false_iff in H2.
    apply (IH r' t); tauto.
Qed.

Lemma all_chars_has p c : p c = false -> forall s, all_chars p s = true -> has_char c s = false.
Proof.
  intros Hp. induction s as [|a s IH]; simpl; intros H; [reflexivity|].
  apply andb_true_iff in H. destruct H as [Ha Hs]. rewrite (IH Hs), orb_false_r.
  destruct (Ascii.eqb_spec a c); [subst; congruence|reflexivity].
Qed.

(* ---------- decimal text ---------- *)
Definition dec_char (a : ascii) : bool := has_char a "0123456789-".

Lemma uint_chars d : all_chars dec_char (NilEmpty.string_of_uint d) = true.
Proof. induction d; simpl; auto. Qed.

Lemma dec_chars z : all_chars dec_char (dec z) = true.
Proof. unfold dec. destruct (Z.to_int z); simpl; apply uint_chars. Qed.

Lemma dec_inj a b : dec a = dec b -> a = b.
Proof.
  unfold dec. intros H.
  apply DecimalZ.to_int_inj.
  pose proof (NilEmpty.isi (Z.to_int a)) as Ha. pose proof (NilEmpty.isi (Z.to_int b)) as Hb.
  rewrite H in Ha. congruence.
Qed.

Lemma dec_nospace z : nospace (dec z).
Proof. apply (all_chars_has dec_char); [reflexivity|apply dec_chars]. Qed.

Lemma dec_not_None z : dec z <> "None".
Proof.
  intros H. pose proof (dec_chars z) as C. rewrite H in C. vm_compute in C. discriminate.
Qed.

Lemma float_ok_nospace r : float_ok r = true -> nospace r.
Proof.
  unfold float_ok. intros H. repeat (apply andb_true_iff in H; destruct H as [H ?]).
  apply (all_chars_has float_char); [reflexivity|assumption].
Qed.

Lemma float_ok_not_None r : float_ok r = true -> r <> "None".
Proof. intros H ->. vm_compute in H. discriminate. Qed.

(* ---------- rendering of scalar values ---------- *)
Lemma render_nospace d v : scalar_dtype d = true -> typed d v = true -> plain v = true -> nospace (render v).
Proof.
  intros Hd Ht Hp.
  assert (forall s, plain (VStr s) = true -> nospace s) as PS.
  { intros s H. unfold plain in H. apply negb_true_iff in H. apply orb_false_iff in H. destruct H as [H _].
    apply orb_false_iff in H. tauto. }
  destruct d as [| | | |d'|?|?|?]; try discriminate; destruct v; try discriminate; simpl in *;
    try apply dec_nospace; try (apply float_ok_nospace; assumption); try (apply PS; assumption).
  all: destruct d'; try discriminate; simpl in *; try reflexivity; try discriminate;
    try apply dec_nospace; try (apply float_ok_nospace; assumption); try (apply PS; assumption).
Qed.

Lemma render_inj d v w : scalar_dtype d = true -> typed d v = true -> typed d w = true ->
  plain v = true -> plain w = true -> render v = render w -> v = w.
Proof.
  intros Hd Hv Hw Pv Pw H.
  assert (forall s, plain (VStr s) = true -> s <> "None") as PN.
  { intros s Hs ->. vm_compute in Hs. discriminate. }
  destruct d as [| | | |d'|?|?|?]; try discriminate.
  - destruct v, w; try discriminate. simpl in H. f_equal. apply dec_inj. assumption.
  - destruct v, w; try discriminate. simpl in H. congruence.
  - destruct v, w; try discriminate. simpl in H. congruence.
  - destruct d'; try discriminate; destruct v, w; try discriminate; simpl in *; try reflexivity;
      try (f_equal; apply dec_inj; assumption); try congruence.
    + exfalso. symmetry in H. apply (dec_not_None _ H).
    + exfalso. apply (dec_not_None _ H).
    + exfalso. symmetry in H. apply (float_ok_not_None _ Hw H).
    + exfalso. apply (float_ok_not_None _ Hv H).
    + exfalso. symmetry in H. apply (PN _ Pw H).
    + exfalso. apply (PN _ Pv H).
Qed.

(* ---------- the readable form is injective on validated, plain, scalar parameter sets ---------- *)
Lemma readable_inj : forall (ks : list string) (ds : list dtype) (vs ws : list pval),
  List.length ks = List.length ds ->
  forallb scalar_dtype ds = true ->
  typed_all ds vs = true -> typed_all ds ws = true ->
  forallb plain vs = true -> forallb plain ws = true ->
  readable ks vs = readable ks ws -> vs = ws.
Proof.
  induction ks as [|k ks IH]; intros ds vs ws Hl Hs Tv Tw Pv Pw H.
  - destruct ds; [|discriminate]. destruct vs, ws; try discriminate. reflexivity.
  - destruct ds as [|d ds]; [discriminate|]. destruct vs as [|v vs]; [discriminate|]. destruct ws as [|w ws]; [discriminate|].
    simpl in Hl, Hs, Tv, Tw, Pv, Pw.
    apply andb_true_iff in Hs. destruct Hs as [Hd Hs].
    apply andb_true_iff in Tv. destruct Tv as [Tv Tvs].
    apply andb_true_iff in Tw. destruct Tw as [Tw Tws].
    apply andb_true_iff in Pv. destruct Pv as [Pv Pvs].
    apply andb_true_iff in Pw. destruct Pw as [Pw Pws].
    pose proof (render_nospace d v Hd Tv Pv) as Nv. pose proof (render_nospace d w Hd Tw Pw) as Nw.
    cbn [readable] in H. destruct ks as [|k2 ks].
    + destruct ds; [|discriminate]. destruct vs; [|discriminate]. destruct ws; [|discriminate].
      apply append_inv_head in H. inversion H as [H'].
      f_equal. eapply render_inj; eassumption.
    + apply append_inv_head in H. inversion H as [H']. apply split_first_space in H'; try assumption.
      destruct H' as [Hr Hrest]. f_equal.
      * eapply render_inj; eassumption.
      * eapply (IH ds); try eassumption. injection Hl as Hl. exact Hl.
Qed.

Lemma typed_all_length : forall ds vs, typed_all ds vs = true -> List.length ds = List.length vs.
Proof.
  induction ds as [|d ds IH]; destruct vs as [|v vs]; simpl; intros H; try discriminate; [reflexivity|].
  apply andb_true_iff in H. destruct H as [_ H]. f_equal. auto.
Qed.

(* every readable name of a class with at least one field contains '=' *)
Lemma has_char_app c : forall a b, has_char c (a ++ b) = has_char c a || has_char c b.
Proof. induction a as [|x a IH]; simpl; intros b; [reflexivity|]. rewrite IH, orb_assoc. reflexivity. Qed.

Lemma readable_has_eq ks vs : ks <> [] -> vs <> [] -> has_char "=" (readable ks vs) = true.
Proof.
  destruct ks as [|k ks]; [congruence|]. destruct vs as [|v vs]; [congruence|]. intros _ _.
  cbn [readable]. destruct ks; rewrite has_char_app; simpl; apply orb_true_r.
Qed.

(* ---------- decidable equality of values ---------- *)
Lemma pval_eqb_eq : forall a b, pval_eqb a b = true <-> a = b.
Proof.
  fix IH 1. intros a b. destruct a; destruct b; simpl; try (split; [discriminate|congruence]).
  - tauto.
  - rewrite Z.eqb_eq. split; congruence.
  - rewrite String.eqb_eq. split; congruence.
  - rewrite String.eqb_eq. split; congruence.
  - rewrite Bool.eqb_true_iff. split; congruence.
  - rewrite N.eqb_eq. split; congruence.
  - rewrite N.eqb_eq. split; congruence.
  - revert vs0. induction vs as [|x xs IHl]; intros [|y ys]; try (split; [discriminate|congruence]).
    + tauto.
    + rewrite andb_true_iff, IH, IHl. split.
      * intros [-> E]. inversion E. reflexivity.
      * intros E. inversion E. auto.
Qed.

Lemma pvals_eqb_eq : forall xs ys, pvals_eqb xs ys = true <-> xs = ys.
Proof.
  induction xs as [|x xs IH]; intros [|y ys]; simpl; try (split; [discriminate|congruence]).
  - tauto.
  - rewrite andb_true_iff, pval_eqb_eq, IH. split; [intros [-> ->]; reflexivity|intros E; inversion E; auto].
Qed.

(* ---------- call normalisation yields validated values ---------- *)
Lemma norm_typed : forall d v x, ParamName.norm d v = Ok x -> typed d x = true.
Proof.
  fix IH 1. intros d v x H. destruct d as [| | | |d'|n| |ds].
  - destruct v; simpl in H; try discriminate; inversion H; reflexivity.
  - destruct v; simpl in H; try discriminate.
    + destruct (_ && _) eqn:E; [|discriminate]. inversion H. simpl. apply andb_true_iff in E. tauto.
    + destruct (float_ok r) eqn:E; [|discriminate]. inversion H. simpl. assumption.
    + inversion H. destruct b; reflexivity.
  - destruct v; simpl in H; try discriminate; inversion H; reflexivity.
  - destruct v; simpl in H; try discriminate; inversion H; reflexivity.
  - assert (forall y, typed d' y = true -> typed (DOpt d') y = true) as L by (intros y Hy; destruct y; simpl; auto).
    destruct v; simpl in H; try (inversion H; reflexivity); apply L; eapply IH; eassumption.
  - destruct v; simpl in H; try discriminate. destruct (N.ltb i n) eqn:E; [|discriminate]. inversion H. simpl. assumption.
  - destruct v; simpl in H; try discriminate; inversion H; reflexivity.
  - destruct v; try discriminate. simpl in H.
    match type of H with (bind ?g _) = _ => destruct g as [r|] eqn:G; simpl in H; [|discriminate] end.
    inversion H. subst x. simpl. clear H. revert vs r G.
    induction ds as [|d0 ds IHl]; intros vs r G; destruct vs as [|v0 vs]; try discriminate.
    + inversion G. reflexivity.
    + destruct (ParamName.norm d0 v0) as [x0|] eqn:N0; simpl in G; [|discriminate].
      match type of G with (bind ?g _) = _ => destruct g as [r'|] eqn:G'; simpl in G; [|discriminate] end.
      inversion G. subst r. rewrite (IH _ _ _ N0). simpl. eapply IHl. eassumption.
Qed.

Lemma norm_args_typed : forall fs args vs, norm_args fs args = Ok vs -> typed_all (map f_dtype fs) vs = true.
Proof.
  induction fs as [|f fs IH]; intros args vs H; destruct args as [|a args]; simpl in H; try discriminate.
  - inversion H. reflexivity.
  - match type of H with (bind ?g _) = _ => destruct g as [x|] eqn:G; simpl in H; [|discriminate] end.
    destruct (norm_args fs args) as [xs|] eqn:G'; simpl in H; [|discriminate]. inversion H. subst vs. simpl.
    rewrite (IH _ _ G'), andb_true_r.
    destruct a as [v|]; [eapply norm_typed; eassumption|].
    destruct (f_default f); [eapply norm_typed; eassumption|discriminate].
Qed.
