(* Proofs/ParamNameProofs.v — injectivity of the readable parameter suffix, decidable equality of values. *)
Require Import Hdl21.Base.PyInt Hdl21.Model.ParamName.
From Coq Require Import String Ascii DecimalString DecimalZ Decimal.
Require Import Hdl21Gen.Limits.
Open Scope string_scope.
Open Scope Z_scope.

(* ---------- strings ---------- *)
Lemma append_inv_head k : forall a b, k ++ a = k ++ b -> a = b.
Proof. induction k as [|c k IH]; simpl; intros a b H; [assumption|]. inversion H. auto. Qed.

Lemma append_inv_tail_char c : forall a b, a ++ String c "" = b ++ String c "" -> a = b.
Proof.
  induction a as [|x a IH]; destruct b as [|y b]; simpl; intros H; try reflexivity.
  - inversion H as [[H1 H2]]. destruct b; discriminate.
  - inversion H as [[H1 H2]]. destruct a; discriminate.
  - inversion H. f_equal. auto.
Qed.

Lemma append_assoc' (a b c : string) : (a ++ b) ++ c = a ++ b ++ c.
Proof. induction a; simpl; congruence. Qed.

Definition nospace (s : string) : Prop := has_char " " s = false.

Lemma split_first_space : forall r r' t t', nospace r -> nospace r' ->
  r ++ " " ++ t = r' ++ " " ++ t' -> r = r' /\ t = t'.
Proof.
  unfold nospace. induction r as [|c r IH]; destruct r' as [|c' r']; simpl; intros t t' H1 H2 H.
  - inversion H. auto.
  - inversion H as [[Hc Ht]]. subst c'. simpl in H2. discriminate.
  - inversion H as [[Hc Ht]]. subst c. simpl in H1. discriminate.
  - inversion H as [[Hc Ht]]. subst c'.
    apply orb_false_iff in H1. apply orb_false_iff in H2.
    destruct (IH r' t t') as [-> ->]; try tauto.
Qed.

(* a space-free string is never a space-free string followed by " ..." *)
Lemma nospace_no_split : forall r r' t, nospace r -> nospace r' -> r = r' ++ " " ++ t -> False.
Proof.
  unfold nospace. induction r as [|c r IH]; destruct r' as [|c' r']; simpl; intros t H1 H2 H; try discriminate.
  - inversion H. subst c. simpl in H1. discriminate.
  - inversion H as [[Hc Ht]]. subst c'. apply orb_false_iff in H1. apply orb_false_iff in H2.
    apply (IH r' t); tauto.
Qed.

Lemma all_chars_has p c : p c = false -> forall s, all_chars p s = true -> has_char c s = false.
Proof.
  intros Hp. induction s as [|a s IH]; simpl; intros H; [reflexivity|].
  apply andb_true_iff in H. destruct H as [Ha Hs]. rewrite (IH Hs), orb_false_r.
  destruct (Ascii.eqb_spec a c); [subst; congruence|reflexivity].
Qed.

(* ---------- decimal text ---------- *)
Definition dec_char (a : ascii) : bool := has_char a "0123456789-".

Lemma uint_chars d : all_chars dec_char (NilEmpty.string_of_uint d) = true.
Proof. induction d; simpl; auto. Qed.

Lemma dec_chars z : all_chars dec_char (dec z) = true.
Proof. unfold dec. destruct (Z.to_int z); simpl; apply uint_chars. Qed.

Lemma dec_inj a b : dec a = dec b -> a = b.
Proof.
  unfold dec. intros H.
  apply DecimalZ.to_int_inj.
  pose proof (NilEmpty.isi (Z.to_int a)) as Ha. pose proof (NilEmpty.isi (Z.to_int b)) as Hb.
  rewrite H in Ha. congruence.
Qed.

Lemma dec_nospace z : nospace (dec z).
Proof. apply (all_chars_has dec_char); [reflexivity|apply dec_chars]. Qed.

Lemma dec_not_None z : dec z <> "None".
Proof.
  intros H. pose proof (dec_chars z) as C. rewrite H in C. vm_compute in C. discriminate.
Qed.

Lemma float_ok_nospace r : float_ok r = true -> nospace r.
Proof.
  unfold float_ok. intros H. repeat (apply andb_true_iff in H; destruct H as [H ?]).
  apply (all_chars_has float_char); [reflexivity|assumption].
Qed.

Lemma float_ok_not_None r : float_ok r = true -> r <> "None".
Proof. intros H ->. vm_compute in H. discriminate. Qed.

(* ---------- rendering of scalar values ---------- *)
Lemma render_nospace d v : scalar_dtype d = true -> typed d v = true -> plain v = true -> nospace (render v).
Proof.
  intros Hd Ht Hp.
  assert (forall s, plain (VStr s) = true -> nospace s) as PS.
  { intros s H. unfold plain in H. apply negb_true_iff in H. apply orb_false_iff in H. destruct H as [H _].
    apply orb_false_iff in H. tauto. }
  destruct d as [| | | |d'|?|?|?| | | | | ]; try discriminate; destruct v; try discriminate; simpl in *;
    try apply dec_nospace; try (apply float_ok_nospace; assumption); try (apply PS; assumption).
  all: destruct d'; try discriminate; simpl in *; try reflexivity; try discriminate;
    try apply dec_nospace; try (apply float_ok_nospace; assumption); try (apply PS; assumption).
Qed.

Lemma render_inj d v w : scalar_dtype d = true -> typed d v = true -> typed d w = true ->
  plain v = true -> plain w = true -> render v = render w -> v = w.
Proof.
  intros Hd Hv Hw Pv Pw H.
  assert (forall s, plain (VStr s) = true -> s <> "None") as PN.
  { intros s Hs ->. vm_compute in Hs. discriminate. }
  destruct d as [| | | |d'|?|?|?| | | | | ]; try discriminate.
  - destruct v, w; try discriminate. simpl in H. f_equal. apply dec_inj. assumption.
  - destruct v, w; try discriminate. simpl in H. congruence.
  - destruct v, w; try discriminate. simpl in H. congruence.
  - destruct d'; try discriminate; destruct v, w; try discriminate; simpl in *; try reflexivity;
      try (f_equal; apply dec_inj; assumption); try congruence.
    + exfalso. symmetry in H. apply (dec_not_None _ H).
    + exfalso. apply (dec_not_None _ H).
    + exfalso. symmetry in H. apply (float_ok_not_None _ Hw H).
    + exfalso. apply (float_ok_not_None _ Hv H).
    + exfalso. symmetry in H. apply (PN _ Pw H).
    + exfalso. apply (PN _ Pv H).
Qed.

(* ---------- the readable form is injective on validated, plain, scalar parameter sets ---------- *)
Lemma readable_inj : forall (ks : list string) (ds : list dtype) (vs ws : list pval),
  List.length ks = List.length ds ->
  forallb scalar_dtype ds = true ->
  typed_all ds vs = true -> typed_all ds ws = true ->
  forallb plain vs = true -> forallb plain ws = true ->
  readable ks vs = readable ks ws -> vs = ws.
Proof.
  induction ks as [|k ks IH]; intros ds vs ws Hl Hs Tv Tw Pv Pw H.
  - destruct ds; [|discriminate]. destruct vs, ws; try discriminate. reflexivity.
  - destruct ds as [|d ds]; [discriminate|]. destruct vs as [|v vs]; [discriminate|]. destruct ws as [|w ws]; [discriminate|].
    simpl in Hl, Hs, Tv, Tw, Pv, Pw.
    apply andb_true_iff in Hs. destruct Hs as [Hd Hs].
    apply andb_true_iff in Tv. destruct Tv as [Tv Tvs].
    apply andb_true_iff in Tw. destruct Tw as [Tw Tws].
    apply andb_true_iff in Pv. destruct Pv as [Pv Pvs].
    apply andb_true_iff in Pw. destruct Pw as [Pw Pws].
    pose proof (render_nospace d v Hd Tv Pv) as Nv. pose proof (render_nospace d w Hd Tw Pw) as Nw.
    cbn [readable] in H. destruct ks as [|k2 ks].
    + destruct ds; [|discriminate]. destruct vs; [|discriminate]. destruct ws; [|discriminate].
      apply append_inv_head in H. inversion H as [H'].
      f_equal. eapply render_inj; eassumption.
    + apply append_inv_head in H. inversion H as [H']. apply split_first_space in H'; try assumption.
      destruct H' as [Hr Hrest]. f_equal.
      * eapply render_inj; eassumption.
      * eapply (IH ds); try eassumption. injection Hl as Hl. exact Hl.
Qed.

Lemma typed_all_length : forall ds vs, typed_all ds vs = true -> List.length ds = List.length vs.
Proof.
  induction ds as [|d ds IH]; destruct vs as [|v vs]; simpl; intros H; try discriminate; [reflexivity|].
  apply andb_true_iff in H. destruct H as [_ H]. f_equal. auto.
Qed.

(* every readable name of a class with at least one field contains '=' *)
Lemma has_char_app c : forall a b, has_char c (a ++ b) = has_char c a || has_char c b.
Proof. induction a as [|x a IH]; simpl; intros b; [reflexivity|]. rewrite IH, orb_assoc. reflexivity. Qed.

Lemma readable_has_eq ks vs : ks <> [] -> vs <> [] -> has_char "=" (readable ks vs) = true.
Proof.
  destruct ks as [|k ks]; [congruence|]. destruct vs as [|v vs]; [congruence|]. intros _ _.
  cbn [readable]. destruct ks; rewrite has_char_app; simpl; apply orb_true_r.
Qed.

(* ---------- decidable equality of values ---------- *)
Lemma dec_eqb_eq a b : dec_eqb a b = true <-> a = b.
Proof.
  destruct a as [s c e], b as [s' c' e']. unfold dec_eqb. cbn [Dec.dsign Dec.dcoef Dec.dexp].
  rewrite !andb_true_iff, Bool.eqb_true_iff, N.eqb_eq, Z.eqb_eq.
  split; [intros [[-> ->] ->]; reflexivity|intros E; inversion E; auto].
Qed.

Lemma pval_eqb_eq : forall a b, pval_eqb a b = true <-> a = b.
Proof.
  fix IH 1. intros a b. destruct a; destruct b; simpl; try (split; [discriminate|congruence]).
  - tauto.
  - rewrite Z.eqb_eq. split; congruence.
  - rewrite String.eqb_eq. split; congruence.
  - rewrite String.eqb_eq. split; congruence.
  - rewrite Bool.eqb_true_iff. split; congruence.
  - rewrite N.eqb_eq. split; congruence.
  - rewrite N.eqb_eq. split; congruence.
  - revert vs0. induction vs as [|x xs IHl]; intros [|y ys]; try (split; [discriminate|congruence]).
    + tauto.
    + rewrite andb_true_iff, IH, IHl. split.
      * intros [-> E]. inversion E. reflexivity.
      * intros E. inversion E. auto.
  - rewrite String.eqb_eq. split; congruence.
  - rewrite andb_true_iff, dec_eqb_eq, Z.eqb_eq. split; [intros [-> ->]; reflexivity|intros E; inversion E; auto].
  - rewrite dec_eqb_eq. split; congruence.
  - rewrite andb_true_iff, !Z.eqb_eq. split; [intros [-> ->]; reflexivity|intros E; inversion E; auto].
  - rewrite andb_true_iff, !Z.eqb_eq. split; [intros [-> ->]; reflexivity|intros E; inversion E; auto].
  - rewrite N.eqb_eq. split; congruence.
  - rewrite N.eqb_eq. split; congruence.
Qed.

Lemma pvals_eqb_eq : forall xs ys, pvals_eqb xs ys = true <-> xs = ys.
Proof.
  induction xs as [|x xs IH]; intros [|y ys]; simpl; try (split; [discriminate|congruence]).
  - tauto.
  - rewrite andb_true_iff, pval_eqb_eq, IH. split; [intros [-> ->]; reflexivity|intros E; inversion E; auto].
Qed.

(* ---------- facts about the generated prefix table used by the number-like values ---------- *)
Lemma unit_prefix_0 : Prefixed.unit_prefix = Ok 0.
Proof. reflexivity. Qed.
Lemma unit_is_prefix : Prefixed.is_prefix 0 = true.
Proof. reflexivity. Qed.

Lemma canon_dec_total d : exists c e, canon_dec d = Ok (c, e).
Proof. unfold canon_dec. destruct (Dec.dnorm_total d) as [c [e H]]. rewrite H. eauto. Qed.

Lemma canon_pref_unfold d q : canon_pref d q = canon_dec (Dec.dscale10 d (q - 0)).
Proof. unfold canon_pref, Prefixed.unit_number. rewrite unit_prefix_0. reflexivity. Qed.

Lemma canon_pref_total d q : exists c e, canon_pref d q = Ok (c, e).
Proof. rewrite canon_pref_unfold. apply canon_dec_total. Qed.

Lemma canon_dec_ok d ce : canon_dec d = Ok ce -> canon_ok (fst ce) (snd ce) = true.
Proof.
  unfold canon_dec. destruct (Dec.dnorm d) as [[c e]|] eqn:N; [|discriminate]. intros H. inversion H. subst ce. cbn [fst snd].
  unfold canon_ok. destruct (Dec.dnorm_spec d c e N) as [[_ [-> ->]]|[_ [_ [_ M]]]]; [reflexivity|].
  destruct (c =? 0) eqn:E; [apply Z.eqb_eq in E; subst c; exfalso; apply M; reflexivity|].
  apply negb_true_iff. apply Z.eqb_neq. assumption.
Qed.

Lemma canon_pref_ok d q ce : canon_pref d q = Ok ce -> canon_ok (fst ce) (snd ce) = true.
Proof. rewrite canon_pref_unfold. apply canon_dec_ok. Qed.

Lemma float_ok_held r : float_ok r = true -> float_held r = true.
Proof.
  unfold float_ok, float_held. intros H. repeat (apply andb_true_iff in H; destruct H as [H ?]).
  rewrite H, H0, H2. reflexivity.
Qed.

Lemma float_held_fzero r : float_held r = true -> float_ok (fzero r) = true.
Proof.
  unfold fzero. destruct (String.eqb r "-0.0") eqn:E; [reflexivity|].
  unfold float_ok, float_held. intros H. repeat (apply andb_true_iff in H; destruct H as [H ?]).
  rewrite H, H0, H1, E. reflexivity.
Qed.

(* ---------- validation yields level-2 values, canonicalisation yields cache-key values ---------- *)
Lemma validate_valid : forall d v x, validate d v = Ok x -> valid d x = true.
Proof.
  fix IH 1. intros d v x H. destruct d as [| | | |d'|n| |ds| | | | | ].
  - destruct v; simpl in H; try discriminate; inversion H; reflexivity.
  - destruct v; simpl in H; try discriminate.
    + destruct (_ && _) eqn:E; [|discriminate]. inversion H. simpl. apply andb_true_iff in E. apply float_ok_held. tauto.
    + destruct (float_held r) eqn:E; [|discriminate]. inversion H. simpl. assumption.
    + inversion H. destruct b; reflexivity.
  - destruct v; simpl in H; try discriminate; inversion H; reflexivity.
  - destruct v; simpl in H; try discriminate; inversion H; reflexivity.
  - assert (forall y, valid d' y = true -> valid (DOpt d') y = true) as L by (intros y Hy; destruct y; simpl; auto).
    destruct v; simpl in H; try (inversion H; reflexivity); apply L; eapply IH; eassumption.
  - destruct v; simpl in H; try discriminate. destruct (N.ltb i n) eqn:E; [|discriminate]. inversion H. simpl. assumption.
  - destruct v; simpl in H; try discriminate; inversion H; reflexivity.
  - destruct v; try discriminate. simpl in H.
    match type of H with (bind ?g _) = _ => destruct g as [r|] eqn:G; simpl in H; [|discriminate] end.
    inversion H. subst x. simpl. clear H. revert vs r G.
    induction ds as [|d0 ds IHl]; intros vs r G; destruct vs as [|v0 vs]; try discriminate.
    + inversion G. reflexivity.
    + destruct (validate d0 v0) as [x0|] eqn:N0; simpl in G; [|discriminate].
      match type of G with (bind ?g _) = _ => destruct g as [r'|] eqn:G'; simpl in G; [|discriminate] end.
      inversion G. subst r. rewrite (IH _ _ _ N0). simpl. eapply IHl. eassumption.
  - assert (forall o, (o0 <- Ok o ;; u <- Prefixed.unit_prefix ;;
                       match o0, v with Some x0, _ => Ok (VPrefW x0 u) | None, VStr s => Ok (VLit s) | None, _ => Error EBadKind end) = Ok x ->
                      valid DScalar x = true) as L.
    { intros o Ho. cbn [bind] in Ho. rewrite unit_prefix_0 in Ho. cbn [bind] in Ho.
      destruct o; [inversion Ho; reflexivity|]. destruct v; try discriminate. inversion Ho. reflexivity. }
    destruct v; simpl in H; try discriminate.
    + apply (L (Some (Dec.of_int z 0))). exact H.
    + destruct (dec_of_float r) eqn:E; simpl in H; [|discriminate]. apply (L (Some a)). exact H.
    + destruct (parse_pystr s) eqn:E; try discriminate.
      * apply (L (Some d)). exact H.
      * apply (L None). exact H.
    + inversion H. reflexivity.
    + destruct (Prefixed.is_prefix q) eqn:E; [|discriminate]. inversion H. simpl. assumption.
    + apply (L (Some d)). exact H.
  - destruct v; simpl in H; try discriminate.
    destruct (Prefixed.is_prefix q) eqn:E; [|discriminate]. inversion H. simpl. assumption.
  - simpl in H. destruct (to_number false v) as [[y|]|]; simpl in H; try discriminate. inversion H. reflexivity.
  - destruct v; simpl in H; try discriminate; inversion H; reflexivity.
  - destruct v; simpl in H; try discriminate; inversion H; reflexivity.
Qed.

Definition simple (v : pval) : bool :=
  match v with VPrefW _ _ | VDecW _ | VRec _ | VPref _ _ | VDec _ _ | VFloat _ | VMut _ => false | _ => true end.

Lemma canon_simple v : simple v = true -> canon v = Ok v.
Proof. destruct v; try discriminate; reflexivity. Qed.

Lemma canon_typed : forall d x y, valid d x = true -> canon x = Ok y -> typed d y = true.
Proof.
  fix IH 1. intros d x y V C. destruct d as [| | | |d'|n| |ds| | | | | ].
  1,3-4,6-7: destruct x; try discriminate; simpl in C; inversion C; subst; exact V.
  1: { destruct x; try discriminate. simpl in C. inversion C. simpl. apply float_held_fzero. exact V. }
  - assert (forall z, typed d' z = true -> typed (DOpt d') z = true) as L by (intros z Hz; destruct z; simpl; auto).
    destruct x; simpl in V; try (simpl in C; inversion C; reflexivity); apply L; eapply IH; eassumption.
  - destruct x; try discriminate. simpl in C.
    match type of C with (bind ?g _) = _ => destruct g as [r|] eqn:G; simpl in C; [|discriminate] end.
    inversion C. subst y. simpl. simpl in V. clear C. revert vs r V G.
    induction ds as [|d0 ds IHl]; intros vs r V G; destruct vs as [|v0 vs]; try discriminate.
    + inversion G. reflexivity.
    + apply andb_true_iff in V. destruct V as [V0 V].
      destruct (canon v0) as [x0|] eqn:N0; simpl in G; [|discriminate].
      match type of G with (bind ?g _) = _ => destruct g as [r'|] eqn:G'; simpl in G; [|discriminate] end.
      inversion G. subst r. rewrite (IH _ _ _ V0 N0). simpl. eapply IHl; eassumption.
  - destruct x; try discriminate; simpl in C.
    + inversion C. reflexivity.
    + destruct (canon_pref d q) as [ce|] eqn:E; simpl in C; [|discriminate]. inversion C. simpl. eapply canon_pref_ok. eassumption.
  - destruct x; try discriminate; simpl in C.
    destruct (canon_pref d q) as [ce|] eqn:E; simpl in C; [|discriminate]. inversion C. simpl. eapply canon_pref_ok. eassumption.
  - destruct x; try discriminate; simpl in C.
    destruct (canon_dec d) as [ce|] eqn:E; simpl in C; [|discriminate]. inversion C. simpl. eapply canon_dec_ok. eassumption.
  - destruct x; try discriminate; simpl in C; inversion C; subst; exact V.
  - destruct x; try discriminate; simpl in C; inversion C; subst; exact V.
Qed.

(* canonicalisation never fails on a validated value that holds no unhashable container ... *)
Lemma canon_total : forall d x, valid d x = true -> has_mut x = false -> exists y, canon x = Ok y.
Proof.
  fix IH 1. intros d x V M. destruct d as [| | | |d'|n| |ds| | | | | ].
  1-4,6-7: destruct x; try discriminate; eexists; reflexivity.
  - destruct x; simpl in V; try (eexists; reflexivity); eapply IH; eassumption.
  - destruct x; try discriminate. simpl in V. simpl in M.
    assert (exists r, (fix go (vs : list pval) : result (list pval) :=
              match vs with [] => Ok [] | x :: vs' => y <- canon x ;; ys <- go vs' ;; Ok (y :: ys) end) vs = Ok r) as [r R].
    { revert vs V M. induction ds as [|d0 ds IHl]; intros vs V M; destruct vs as [|v0 vs]; try discriminate.
      - eexists; reflexivity.
      - apply andb_true_iff in V. destruct V as [V0 V]. apply orb_false_iff in M. destruct M as [M0 M].
        destruct (IH _ _ V0 M0) as [y0 Y0]. destruct (IHl _ V M) as [r R].
        exists (y0 :: r). rewrite Y0. simpl. rewrite R. reflexivity. }
    exists (VRec r). simpl. rewrite R. reflexivity.
  - destruct x; try discriminate.
    + eexists; reflexivity.
    + destruct (canon_pref_total d q) as [c [e E]]. eexists. simpl. rewrite E. reflexivity.
  - destruct x; try discriminate. destruct (canon_pref_total d q) as [c [e E]]. eexists. simpl. rewrite E. reflexivity.
  - destruct x; try discriminate. destruct (canon_dec_total d) as [c [e E]]. eexists. simpl. rewrite E. reflexivity.
  - destruct x; try discriminate.
  - destruct x; try discriminate; eexists; reflexivity.
Qed.

(* ... and ONLY on such a value: a value that has a cache key holds no unhashable container (no validity needed) *)
Lemma canon_ok_no_mut : forall x y, canon x = Ok y -> has_mut x = false.
Proof.
  fix IH 1. intros x y C. destruct x; try reflexivity; [|discriminate].
  simpl in C. simpl.
  match type of C with (bind ?g _) = _ => destruct g as [r|] eqn:G; simpl in C; [|discriminate] end.
  clear C. revert r G. induction vs as [|v0 vs IHl]; intros r G; [reflexivity|].
  destruct (canon v0) as [x0|] eqn:N0; simpl in G; [|discriminate].
  match type of G with (bind ?g _) = _ => destruct g as [r'|] eqn:G'; simpl in G; [|discriminate] end.
  rewrite (IH _ _ N0). simpl. eapply IHl. reflexivity.
Qed.

Lemma canon_all_ok_no_mut : forall vs r, canon_all vs = Ok r -> existsb has_mut vs = false.
Proof.
  induction vs as [|v vs IH]; intros r H; [reflexivity|]. simpl in H.
  destruct (canon v) as [x|] eqn:C; simpl in H; [|discriminate].
  destruct (canon_all vs) as [xs|] eqn:Cs; simpl in H; [|discriminate].
  simpl. rewrite (canon_ok_no_mut _ _ C). simpl. eapply IH. reflexivity.
Qed.

Lemma norm_typed d v x : ParamName.norm d v = Ok x -> typed d x = true.
Proof.
  unfold ParamName.norm. destruct (validate d v) as [y|] eqn:V; simpl; [|discriminate].
  intros C. eapply canon_typed; [eapply validate_valid; eassumption|eassumption].
Qed.

Lemma norm_args_typed : forall fs args vs, norm_args fs args = Ok vs -> typed_all (map f_dtype fs) vs = true.
Proof.
  induction fs as [|f fs IH]; intros args vs H; destruct args as [|a args]; simpl in H; try discriminate.
  - inversion H. reflexivity.
  - match type of H with (bind ?g _) = _ => destruct g as [x|] eqn:G; simpl in H; [|discriminate] end.
    destruct (norm_args fs args) as [xs|] eqn:G'; simpl in H; [|discriminate]. inversion H. subst vs. simpl.
    rewrite (IH _ _ G'), andb_true_r.
    destruct a as [v|]; [eapply norm_typed; eassumption|].
    destruct (f_default f); [eapply norm_typed; eassumption|discriminate].
Qed.

Lemma validate_args_valid : forall fs args vs, validate_args fs args = Ok vs -> valid_all (map f_dtype fs) vs = true.
Proof.
  induction fs as [|f fs IH]; intros args vs H; destruct args as [|a args]; simpl in H; try discriminate.
  - inversion H. reflexivity.
  - match type of H with (bind ?g _) = _ => destruct g as [x|] eqn:G; simpl in H; [|discriminate] end.
    destruct (validate_args fs args) as [xs|] eqn:G'; simpl in H; [|discriminate]. inversion H. subst vs. simpl.
    rewrite (IH _ _ G'), andb_true_r.
    destruct a as [v|]; [eapply validate_valid; eassumption|].
    destruct (f_default f); [eapply validate_valid; eassumption|discriminate].
Qed.

(* a call is keyed by the canonical form of the validated instance *)
Lemma norm_args_split : forall fs args vs,
  norm_args fs args = Ok vs <-> exists ws, validate_args fs args = Ok ws /\ canon_all ws = Ok vs.
Proof.
  induction fs as [|f fs IH]; intros args vs; destruct args as [|a args]; simpl.
  - split; [intros H; inversion H; exists []; split; reflexivity|intros [ws [H1 H2]]; inversion H1; subst; exact H2].
  - split; [discriminate|intros [ws [H _]]; discriminate].
  - split; [discriminate|intros [ws [H _]]; discriminate].
  - set (w := match a with Some v => Some v | None => f_default f end).
    assert (match a, f_default f with Some v, _ => ParamName.norm (f_dtype f) v | None, Some dv => ParamName.norm (f_dtype f) dv
                                 | None, None => Error EMissing end
            = match w with Some v => ParamName.norm (f_dtype f) v | None => Error EMissing end) as -> by (subst w; destruct a; reflexivity).
    assert (match a, f_default f with Some v, _ => validate (f_dtype f) v | None, Some dv => validate (f_dtype f) dv
                                 | None, None => Error EMissing end
            = match w with Some v => validate (f_dtype f) v | None => Error EMissing end) as -> by (subst w; destruct a; reflexivity).
    clearbody w. destruct w as [v|]; [|split; [discriminate|intros [ws [H _]]; discriminate]].
    unfold ParamName.norm. destruct (validate (f_dtype f) v) as [x|]; simpl; [|split; [discriminate|intros [ws [H _]]; discriminate]].
    split.
    + intros H. destruct (canon x) as [y|] eqn:C; simpl in H; [|discriminate].
      destruct (norm_args fs args) as [ys|] eqn:N; simpl in H; [|discriminate]. inversion H. subst vs.
      destruct (proj1 (IH args ys) N) as [ws [W1 W2]]. exists (x :: ws). rewrite W1. simpl. rewrite C. simpl. rewrite W2. split; reflexivity.
    + intros [ws [H1 H2]]. destruct (validate_args fs args) as [ws'|] eqn:W; simpl in H1; [|discriminate]. inversion H1. subst ws.
      simpl in H2. destruct (canon x) as [y|]; simpl in H2; [|discriminate]. destruct (canon_all ws') as [ys|] eqn:CA; simpl in H2; [|discriminate].
      inversion H2. subst vs. rewrite (proj2 (IH args ys)); [reflexivity|]. exists ws'. split; [exact W|assumption].
Qed.

(* ================= exact values, normal forms, == and hash of the number-like values ================= *)
(* the exact value of Prefixed(number = d, prefix = q): d * 10^q as one decimal (Model/Prefixed.v: pval) *)
Definition pvalue (d : Dec.dec) (q : Z) : Dec.dec := Dec.dscaleb d q.

Lemma dnorm_at d c e m : Dec.dnorm d = Some (c, e) -> m <= Dec.dexp d -> Dec.at_ m d = c * 10 ^ (e - m).
Proof.
  intros N Hm. unfold Dec.at_. rewrite Dec.pow10_spec.
  destruct (Dec.dnorm_spec d c e N) as [[Z0 [-> ->]]|[NZ [Le [Eq _]]]].
  - rewrite Z0. rewrite !Z.mul_0_l. reflexivity.
  - rewrite Eq. replace (e - m) with ((e - Dec.dexp d) + (Dec.dexp d - m)) by lia. rewrite Dec.p10_add by lia. ring.
Qed.

(* two decimals have the same normal form exactly when they have the same value *)
Lemma dnorm_value_iff a b : Dec.dnorm a = Dec.dnorm b <-> Dec.deqb a b = true.
Proof.
  unfold Dec.deqb. rewrite Z.eqb_eq. split.
  - intros H. destruct (Dec.dnorm_total a) as [c [e Na]]. pose proof Na as Nb. rewrite H in Nb.
    rewrite (dnorm_at a c e _ Na), (dnorm_at b c e _ Nb); [reflexivity|unfold Dec.dmin; lia|unfold Dec.dmin; lia].
  - apply Dec.dnorm_eqv.
Qed.

Lemma canon_dec_eq_iff a b : canon_dec a = canon_dec b <-> Dec.deqb a b = true.
Proof.
  rewrite <- dnorm_value_iff. unfold canon_dec.
  destruct (Dec.dnorm_total a) as [c [e ->]]. destruct (Dec.dnorm_total b) as [c' [e' ->]]. split; congruence.
Qed.

Lemma at_scaleb m d q : Dec.at_ m (Dec.dscaleb d q) = Dec.at_ (m - q) d.
Proof. replace m with ((m - q) + q) at 1 by lia. apply Dec.dscaleb_exact. Qed.

Lemma dexp_scale10_nonneg d k : 0 <= k -> Dec.dexp (Dec.dscale10 d k) = Dec.dexp d.
Proof. intros H. rewrite Dec.dexp_dscale10. lia. Qed.

(* the name / hash form of a prefixed number is a function of its exact value, and determines it *)
Lemma canon_pref_eq_iff x q y r : canon_pref x q = canon_pref y r <-> Dec.deqb (pvalue x q) (pvalue y r) = true.
Proof.
  rewrite !canon_pref_unfold, canon_dec_eq_iff. unfold pvalue.
  set (m := Z.min (Z.min (Dec.dexp x) (Dec.dexp x + q)) (Z.min (Dec.dexp y) (Dec.dexp y + r))).
  rewrite (Dec.deqb_spec m) by (rewrite Dec.dexp_dscale10; lia).
  rewrite (Dec.deqb_spec m (Dec.dscaleb x q) (Dec.dscaleb y r)) by (rewrite Dec.dexp_dscaleb; lia).
  rewrite !Dec.dscale10_exact by lia. rewrite !at_scaleb. replace (q - 0) with q by lia. replace (r - 0) with r by lia. tauto.
Qed.

(* Prefixed.__eq__ unfolded: both numbers scaled to the smaller prefix and quantized to EPSILON places *)
Lemma pcmp_eq_unfold x q y r :
  Prefixed.pcmp Prefixed.OEq (Prefixed.mkP x q) (Prefixed.mkP y r) =
  let s := if q <? r then q else r in
  (Dec.dq_int (Dec.dscale10 x (q - s)) (- PrefixTable.EPSILON) =? Dec.dq_int (Dec.dscale10 y (r - s)) (- PrefixTable.EPSILON)).
Proof. reflexivity. Qed.

(* numbers of equal value compare equal (whatever their digits) *)
Lemma pcmp_eq_of_value x q y r : Dec.deqb (pvalue x q) (pvalue y r) = true ->
  Prefixed.pcmp Prefixed.OEq (Prefixed.mkP x q) (Prefixed.mkP y r) = true.
Proof.
  intros V. rewrite pcmp_eq_unfold. cbv zeta. set (s := if q <? r then q else r).
  assert (s <= q /\ s <= r) as [Sq Sr] by (subst s; destruct (q <? r) eqn:E; lia).
  set (E := PrefixTable.EPSILON) in *. clearbody E.
  set (e := Z.min (- E) (Z.min (Dec.dexp x) (Dec.dexp y))).
  rewrite (Dec.dq_int_rhe e) by (rewrite ?dexp_scale10_nonneg; lia).
  rewrite (Dec.dq_int_rhe e (Dec.dscale10 y (r - s))) by (rewrite ?dexp_scale10_nonneg; lia).
  rewrite !Dec.dscale10_exact by lia.
  unfold pvalue in V. rewrite (Dec.deqb_spec (e + s)) in V by (rewrite Dec.dexp_dscaleb; lia).
  rewrite !at_scaleb in V. replace (e - (q - s)) with (e + s - q) by lia. replace (e - (r - s)) with (e + s - r) by lia.
  rewrite V. apply Z.eqb_refl.
Qed.

(* and conversely, when neither number has more than EPSILON decimal places *)
Lemma pcmp_eq_fine x q y r : - PrefixTable.EPSILON <= Dec.dexp x -> - PrefixTable.EPSILON <= Dec.dexp y ->
  Prefixed.pcmp Prefixed.OEq (Prefixed.mkP x q) (Prefixed.mkP y r) = true -> Dec.deqb (pvalue x q) (pvalue y r) = true.
Proof.
  intros Fx Fy. rewrite pcmp_eq_unfold. cbv zeta. set (s := if q <? r then q else r).
  assert (s <= q /\ s <= r) as [Sq Sr] by (subst s; destruct (q <? r) eqn:E; lia).
  set (E := PrefixTable.EPSILON) in *. clearbody E.
  unfold Dec.dq_int. rewrite !dexp_scale10_nonneg by lia.
  replace (- E <=? Dec.dexp x) with true by (symmetry; apply Z.leb_le; lia).
  replace (- E <=? Dec.dexp y) with true by (symmetry; apply Z.leb_le; lia).
  rewrite Z.eqb_eq. rewrite !Dec.dscale10_exact by lia. intros H.
  unfold pvalue. rewrite (Dec.deqb_spec (s - E)) by (rewrite Dec.dexp_dscaleb; lia).
  rewrite !at_scaleb. replace (s - E - q) with (- E - (q - s)) by lia. replace (s - E - r) with (- E - (r - s)) by lia. exact H.
Qed.

(* values that are tolerance-equal without being equal exist (so the restriction above is needed) ... *)
Example tolerance_equal_not_equal :
  let a := Dec.mkDec false 1 (-21) in let b := Dec.mkDec false 0 0 in
  Prefixed.pcmp Prefixed.OEq (Prefixed.mkP a 0) (Prefixed.mkP b 0) = true /\ Dec.deqb (pvalue a 0) (pvalue b 0) = false /\
  canon_pref a 0 <> canon_pref b 0.
Proof. repeat split; try (vm_compute; reflexivity). vm_compute. discriminate. Qed.

(* ================= the cache key (level 3, Leibniz) against == / hash / dict lookup on level 2 ================= *)
Lemma canon_nonsimple v y : canon v = Ok y -> simple v = false -> simple y = false.
Proof.
  destruct v; try discriminate; simpl; intros C _.
  - inversion C. reflexivity.
  - match type of C with (bind ?g _) = _ => destruct g; simpl in C; [|discriminate] end. inversion C. reflexivity.
  - destruct (canon_pref d q); simpl in C; [|discriminate]. inversion C. reflexivity.
  - destruct (canon_dec d); simpl in C; [|discriminate]. inversion C. reflexivity.
Qed.

Section LiftProofs.
Variable RP : Dec.dec -> Z -> Dec.dec -> Z -> bool.
Variable RD : Dec.dec -> Dec.dec -> bool.
Variable RF : string -> string -> bool.
Variable G : Dec.dec -> bool.          (* a side condition on the Prefixed numbers *)

Fixpoint guard (v : pval) : bool :=
  match v with
  | VPrefW d _ => G d
  | VRec vs => (fix go (vs : list pval) : bool := match vs with [] => true | x :: vs' => guard x && go vs' end) vs
  | _ => true
  end.

Lemma lift_simple a b : simple a = true -> lift_eqb RP RD RF a b = pval_eqb a b.
Proof. destruct a; try discriminate; reflexivity. Qed.

(* soundness: leaf tests that imply equal canonical forms lift to whole values *)
Lemma lift_sound :
  (forall x q y r, G x = true -> G y = true -> RP x q y r = true -> canon_pref x q = canon_pref y r) ->
  (forall x y, RD x y = true -> canon_dec x = canon_dec y) ->
  (forall r s, RF r s = true -> fzero r = fzero s) ->
  forall a b x y, canon a = Ok x -> canon b = Ok y -> guard a = true -> guard b = true ->
  lift_eqb RP RD RF a b = true -> x = y.
Proof.
  intros HP HD HF. fix IH 1. intros a b x y Ca Cb Ga Gb L.
  destruct (simple a) eqn:Sa.
  - rewrite (lift_simple a b Sa) in L. apply pval_eqb_eq in L. subst b. congruence.
  - destruct a; try discriminate.
    + (* VFloat *)
      destruct b; try discriminate. simpl in Ca, Cb, L. rewrite (HF _ _ L) in Ca. congruence.
    + (* VRec *)
      destruct b; try discriminate. simpl in Ca, Cb.
      match type of Ca with (bind ?g _) = _ => destruct g as [ra|] eqn:Ra; simpl in Ca; [|discriminate] end.
      match type of Cb with (bind ?g _) = _ => destruct g as [rb|] eqn:Rb; simpl in Cb; [|discriminate] end.
      inversion Ca. inversion Cb. f_equal. clear Ca Cb H0 H1 Sa. simpl in L, Ga, Gb.
      revert vs0 ra rb Ra Rb Ga Gb L. induction vs as [|v vs IHl]; intros ws ra rb Ra Rb Ga Gb L; destruct ws as [|w ws]; try discriminate.
      * inversion Ra. inversion Rb. reflexivity.
      * destruct (canon v) as [xv|] eqn:Cv; simpl in Ra; [|discriminate].
        match type of Ra with (bind ?g _) = _ => destruct g as [ra'|] eqn:Ra'; simpl in Ra; [|discriminate] end.
        destruct (canon w) as [xw|] eqn:Cw; simpl in Rb; [|discriminate].
        match type of Rb with (bind ?g _) = _ => destruct g as [rb'|] eqn:Rb'; simpl in Rb; [|discriminate] end.
        inversion Ra. inversion Rb.
        apply andb_true_iff in L. destruct L as [L1 L2]. apply andb_true_iff in Ga. destruct Ga as [Ga1 Ga2].
        apply andb_true_iff in Gb. destruct Gb as [Gb1 Gb2].
        f_equal; [eapply IH; eassumption|eapply IHl; [reflexivity|eassumption..]].
    + (* VPrefW *)
      destruct b; try discriminate. simpl in Ca, Cb, L, Ga, Gb.
      rewrite (HP _ _ _ _ Ga Gb L) in Ca. congruence.
    + (* VDecW *)
      destruct b; try discriminate. simpl in Ca, Cb, L. rewrite (HD _ _ L) in Ca. congruence.
Qed.

(* completeness: leaf tests that hold whenever the canonical forms agree lift to whole values *)
Lemma lift_complete :
  (forall x q y r, canon_pref x q = canon_pref y r -> RP x q y r = true) ->
  (forall x y, canon_dec x = canon_dec y -> RD x y = true) ->
  (forall r s, fzero r = fzero s -> RF r s = true) ->
  forall a b x, canon a = Ok x -> canon b = Ok x -> lift_eqb RP RD RF a b = true.
Proof.
  intros HP HD HF. fix IH 1. intros a b x Ca Cb.
  destruct (simple a) eqn:Sa.
  - rewrite (lift_simple a b Sa). apply pval_eqb_eq. rewrite (canon_simple _ Sa) in Ca. inversion Ca. subst x.
    destruct (simple b) eqn:Sb; [rewrite (canon_simple _ Sb) in Cb; congruence|].
    pose proof (canon_nonsimple _ _ Cb Sb). congruence.
  - destruct a; try discriminate.
    + (* VFloat *)
      simpl in Ca. inversion Ca. subst x. clear Ca.
      destruct b; simpl in Cb; try discriminate.
      * inversion Cb. simpl. apply HF. congruence.
      * match type of Cb with (bind ?g _) = _ => destruct g; simpl in Cb; discriminate end.
      * destruct (canon_pref d q); simpl in Cb; discriminate.
      * destruct (canon_dec d); simpl in Cb; discriminate.
    + (* VRec *)
      simpl in Ca. match type of Ca with (bind ?g _) = _ => destruct g as [ra|] eqn:Ra; simpl in Ca; [|discriminate] end.
      inversion Ca. subst x. clear Ca Sa.
      destruct b; simpl in Cb; try discriminate;
        try (destruct (canon_pref d q); simpl in Cb; discriminate); try (destruct (canon_dec d); simpl in Cb; discriminate).
      match type of Cb with (bind ?g _) = _ => destruct g as [rb|] eqn:Rb; simpl in Cb; [|discriminate] end.
      inversion Cb. subst rb. clear Cb. simpl.
      revert vs0 ra Ra Rb. induction vs as [|v vs IHl]; intros ws ra Ra Rb; destruct ws as [|w ws].
      * reflexivity.
      * inversion Ra. subst ra. destruct (canon w); simpl in Rb; [|discriminate].
        match type of Rb with (bind ?g _) = _ => destruct g; simpl in Rb; discriminate end.
      * inversion Rb. subst ra. destruct (canon v); simpl in Ra; [|discriminate].
        match type of Ra with (bind ?g _) = _ => destruct g; simpl in Ra; discriminate end.
      * destruct (canon v) as [xv|] eqn:Cv; simpl in Ra; [|discriminate].
        match type of Ra with (bind ?g _) = _ => destruct g as [ra'|] eqn:Ra'; simpl in Ra; [|discriminate] end.
        destruct (canon w) as [xw|] eqn:Cw; simpl in Rb; [|discriminate].
        match type of Rb with (bind ?g _) = _ => destruct g as [rb'|] eqn:Rb'; simpl in Rb; [|discriminate] end.
        inversion Ra. subst ra. inversion Rb. subst xw rb'.
        apply andb_true_iff. split; [eapply IH; eassumption|eapply IHl; [reflexivity|eassumption]].
    + (* VPrefW *)
      simpl in Ca. destruct (canon_pref d q) as [ce|] eqn:E; simpl in Ca; [|discriminate]. inversion Ca. subst x. clear Ca.
      destruct b; simpl in Cb; try discriminate.
      * match type of Cb with (bind ?g _) = _ => destruct g; simpl in Cb; discriminate end.
      * destruct (canon_pref d0 q0) as [ce'|] eqn:E'; simpl in Cb; [|discriminate]. inversion Cb.
        simpl. apply HP. rewrite E, E'. destruct ce, ce'. simpl in *. congruence.
      * destruct (canon_dec d0); simpl in Cb; discriminate.
    + (* VDecW *)
      simpl in Ca. destruct (canon_dec d) as [ce|] eqn:E; simpl in Ca; [|discriminate]. inversion Ca. subst x. clear Ca.
      destruct b; simpl in Cb; try discriminate.
      * match type of Cb with (bind ?g _) = _ => destruct g; simpl in Cb; discriminate end.
      * destruct (canon_pref d0 q); simpl in Cb; discriminate.
      * destruct (canon_dec d0) as [ce'|] eqn:E'; simpl in Cb; [|discriminate]. inversion Cb.
        simpl. apply HD. rewrite E, E'. destruct ce, ce'. simpl in *. congruence.
Qed.
End LiftProofs.

(* lists of field values behave like one paramclass instance *)
Lemma lifts_as_rec RP RD RF xs ys : lifts_eqb RP RD RF xs ys = lift_eqb RP RD RF (VRec xs) (VRec ys).
Proof. revert ys. induction xs as [|x xs IH]; intros [|y ys]; simpl; try reflexivity; rewrite IH; reflexivity. Qed.

Lemma canon_all_as_rec xs : canon (VRec xs) = (r <- canon_all xs ;; Ok (VRec r)).
Proof.
  simpl. f_equal.
Qed.

Lemma guard_all_as_rec G xs : guard G (VRec xs) = forallb (guard G) xs.
Proof. simpl. induction xs as [|x xs IH]; simpl; [reflexivity|]. rewrite IH. reflexivity. Qed.

Definition fine_dec (d : Dec.dec) : bool := - PrefixTable.EPSILON <=? Dec.dexp d.

Lemma fine_guard : forall v, fine v = guard fine_dec v.
Proof. intros v. destruct v; reflexivity. Qed.

Lemma fine_all_forallb vs : fine_all vs = forallb (guard fine_dec) vs.
Proof. induction vs as [|x xs IH]; simpl; [reflexivity|]. rewrite fine_guard, IH. reflexivity. Qed.

Lemma guard_true : forall v, guard (fun _ => true) v = true.
Proof.
  fix IH 1. intros v. destruct v; try reflexivity. simpl.
  induction vs as [|x xs IHl]; [reflexivity|]. rewrite IH, IHl. reflexivity.
Qed.

Lemma res_eqb_iff a b : is_ok a = true -> (res_eqb a b = true <-> a = b).
Proof.
  destruct a as [[c e]|]; [|discriminate]. intros _. destruct b as [[c' e']|]; simpl; [|split; discriminate].
  rewrite andb_true_iff, !Z.eqb_eq. split; [intros [-> ->]; reflexivity|intros H; inversion H; auto].
Qed.

Lemma pref_hash_eq_iff x q y r : pref_hash_eq x q y r = true <-> canon_pref x q = canon_pref y r.
Proof. unfold pref_hash_eq. apply res_eqb_iff. destruct (canon_pref_total x q) as [c [e ->]]. reflexivity. Qed.
Lemma dec_hash_eq_iff x y : dec_hash_eq x y = true <-> canon_dec x = canon_dec y.
Proof. unfold dec_hash_eq. apply res_eqb_iff. destruct (canon_dec_total x) as [c [e ->]]. reflexivity. Qed.

Lemma float_eq_iff r s : float_eq r s = true <-> fzero r = fzero s.
Proof. unfold float_eq. apply String.eqb_eq. Qed.

(* (1) == on validated instances against the cache key: values with equal keys compare equal ... *)
Lemma inst_eqb_of_key a b x : canon a = Ok x -> canon b = Ok x -> inst_eqb a b = true.
Proof.
  apply lift_complete.
  - intros p q y r H. apply pcmp_eq_of_value. apply canon_pref_eq_iff. assumption.
  - intros p y H. apply canon_dec_eq_iff. assumption.
  - intros r s. apply float_eq_iff.
Qed.

(* ... and, when no Prefixed number has more than EPSILON decimal places, values that compare equal have equal keys *)
Lemma inst_eqb_key a b x y : canon a = Ok x -> canon b = Ok y -> fine a = true -> fine b = true ->
  inst_eqb a b = true -> x = y.
Proof.
  rewrite !fine_guard. apply lift_sound.
  - intros p q y' r Fp Fy H. apply canon_pref_eq_iff. unfold fine_dec in *. apply pcmp_eq_fine; try lia. exact H.
  - intros p y' H. apply canon_dec_eq_iff. assumption.
  - intros r s. apply float_eq_iff.
Qed.

(* (2) the idealised hash agrees exactly on equal keys *)
Lemma hash_eqb_key a b x y : canon a = Ok x -> canon b = Ok y -> (hash_eqb a b = true <-> x = y).
Proof.
  intros Ca Cb. split.
  - intros H. eapply (lift_sound pref_hash_eq dec_hash_eq float_eq (fun _ => true)); try eassumption; try apply guard_true.
    + intros p q y' r _ _. apply pref_hash_eq_iff.
    + intros p y'. apply dec_hash_eq_iff.
    + intros r s. apply float_eq_iff.
  - intros <-. eapply lift_complete; try eassumption.
    + intros p q y' r. apply pref_hash_eq_iff.
    + intros p y'. apply dec_hash_eq_iff.
    + intros r s. apply float_eq_iff.
Qed.

(* whole parameter sets *)
Lemma canon_all_rec xs r : canon_all xs = Ok r -> canon (VRec xs) = Ok (VRec r).
Proof. intros H. rewrite canon_all_as_rec, H. reflexivity. Qed.

Lemma insts_eqb_of_key xs ys r : canon_all xs = Ok r -> canon_all ys = Ok r -> insts_eqb xs ys = true.
Proof.
  intros Hx Hy. unfold insts_eqb. rewrite lifts_as_rec.
  apply (inst_eqb_of_key _ _ (VRec r)); apply canon_all_rec; assumption.
Qed.

Lemma insts_eqb_key xs ys r s : canon_all xs = Ok r -> canon_all ys = Ok s -> fine_all xs = true -> fine_all ys = true ->
  insts_eqb xs ys = true -> r = s.
Proof.
  intros Hx Hy Fx Fy E. unfold insts_eqb in E. rewrite lifts_as_rec in E.
  assert (VRec r = VRec s) as Q; [|inversion Q; reflexivity].
  eapply inst_eqb_key; try (apply canon_all_rec; eassumption); try exact E.
  - rewrite fine_guard, guard_all_as_rec, <- fine_all_forallb. assumption.
  - rewrite fine_guard, guard_all_as_rec, <- fine_all_forallb. assumption.
Qed.

Lemma hashes_eqb_key xs ys r s : canon_all xs = Ok r -> canon_all ys = Ok s -> (hashes_eqb xs ys = true <-> r = s).
Proof.
  intros Hx Hy. unfold hashes_eqb. rewrite lifts_as_rec.
  rewrite (hash_eqb_key _ _ (VRec r) (VRec s)) by (apply canon_all_rec; assumption).
  split; [intros Q; inversion Q; reflexivity|intros ->; reflexivity].
Qed.

(* (3) the dict lookup of the generator cache (hash equal and ==) hits exactly on equal keys - with no restriction *)
Lemma lookup_hit_key xs ys r s : canon_all xs = Ok r -> canon_all ys = Ok s -> (lookup_hit xs ys = true <-> r = s).
Proof.
  intros Hx Hy. unfold lookup_hit. rewrite andb_true_iff, (hashes_eqb_key xs ys r s Hx Hy). split; [tauto|].
  intros ->. split; [reflexivity|]. eapply insts_eqb_of_key; eassumption.
Qed.

(* ================= the hashed form: the encoded JSON value is injective on cache-key values ================= *)
Lemma split_at_char c : forall r r' t t', has_char c r = false -> has_char c r' = false ->
  r ++ String c t = r' ++ String c t' -> r = r' /\ t = t'.
Proof.
  induction r as [|x r IH]; destruct r' as [|x' r']; simpl; intros t t' H1 H2 H.
  - inversion H. auto.
  - inversion H as [[Hc Ht]]. subst x'. rewrite Ascii.eqb_refl in H2. discriminate.
  - inversion H as [[Hc Ht]]. subst x. rewrite Ascii.eqb_refl in H1. discriminate.
  - inversion H as [[Hc Ht]]. subst x'.
    apply orb_false_iff in H1. apply orb_false_iff in H2.
    destruct (IH r' t t') as [-> ->]; tauto.
Qed.

Lemma dec_no_e z : has_char "e" (dec z) = false.
Proof. apply (all_chars_has dec_char); [reflexivity|apply dec_chars]. Qed.

(* _value_name is injective on (coefficient, exponent) *)
Lemma canon_str_inj c e c' e' : canon_str c e = canon_str c' e' -> c = c' /\ e = e'.
Proof.
  unfold canon_str. intros H. apply (split_at_char "e") in H; try apply dec_no_e.
  destruct H as [H1 H2]. split; apply dec_inj; assumption.
Qed.

(* ... hence on VALUES: two numbers in normal form with the same text are the same number *)
Lemma index_keys_inj : forall l l' n, index_keys n l = index_keys n l' -> l = l'.
Proof.
  induction l as [|x l IH]; intros [|y l'] n H; simpl in H; try discriminate; [reflexivity|].
  inversion H. f_equal. eapply IH. eassumption.
Qed.

Fixpoint lvl3 (v : pval) : bool :=
  match v with
  | VPrefW _ _ | VDecW _ | VMut _ => false
  | VRec vs => (fix go (vs : list pval) : bool := match vs with [] => true | x :: vs' => lvl3 x && go vs' end) vs
  | _ => true
  end.

Lemma typed_lvl3 : forall d v, typed d v = true -> lvl3 v = true.
Proof.
  fix IH 1. intros d v H. destruct d as [| | | |d'|n| |ds| | | | | ]; try (destruct v; try discriminate; reflexivity).
  - destruct v; simpl in H; try reflexivity; try (eapply IH; eassumption).
  - destruct v; try discriminate. simpl in H. simpl. revert vs H.
    induction ds as [|d0 ds IHl]; intros [|v0 vs] H; try discriminate; [reflexivity|].
    apply andb_true_iff in H. destruct H as [H0 H]. rewrite (IH _ _ H0). simpl. apply IHl. assumption.
Qed.

Lemma encode_inj : forall a b, lvl3 a = true -> lvl3 b = true -> encode a = encode b -> a = b.
Proof.
  fix IH 1. intros a b La Lb E.
  destruct a; destruct b; simpl in E; try discriminate; try (inversion E; reflexivity).
  - (* paramclass instances *)
    inversion E as [E']. apply index_keys_inj in E'. f_equal. simpl in La, Lb. clear E. revert vs0 Lb E'.
    induction vs as [|x xs IHl]; intros [|y ys] Lb E'; try discriminate; [reflexivity|].
    apply andb_true_iff in La. destruct La as [La1 La2]. apply andb_true_iff in Lb. destruct Lb as [Lb1 Lb2].
    inversion E' as [[Ex Er]]. f_equal; [apply IH; assumption|apply IHl; assumption].
  - destruct vs as [|x [|? ?]]; simpl in E; try discriminate; inversion E as [[K _]]; vm_compute in K; discriminate.
  - destruct vs as [|x [|? ?]]; simpl in E; try discriminate; inversion E as [[K _]]; vm_compute in K; discriminate.
  - destruct vs as [|x [|? ?]]; simpl in E; try discriminate; inversion E as [[K _]]; vm_compute in K; discriminate.
  - destruct vs as [|x [|? ?]]; simpl in E; try discriminate; inversion E as [[K _]]; vm_compute in K; discriminate.
  - destruct vs as [|x [|? ?]]; simpl in E; try discriminate; inversion E as [[K _]]; vm_compute in K; discriminate.
  - inversion E as [E']. apply canon_str_inj in E'. destruct E' as [-> ->]. reflexivity.
  - destruct vs as [|x [|? ?]]; simpl in E; try discriminate; inversion E as [[K _]]; vm_compute in K; discriminate.
  - inversion E as [E']. apply canon_str_inj in E'. destruct E' as [-> ->]. reflexivity.
Qed.

Lemma zip_keys_inj : forall ks l l', List.length l = List.length ks -> List.length l' = List.length ks ->
  zip_keys ks l = zip_keys ks l' -> l = l'.
Proof.
  induction ks as [|k ks IH]; intros [|x l] [|y l'] H1 H2 H; simpl in *; try discriminate; [reflexivity|].
  inversion H. f_equal. apply IH; auto.
Qed.

Lemma map_encode_inj : forall ds vs ws, typed_all ds vs = true -> typed_all ds ws = true ->
  map encode vs = map encode ws -> vs = ws.
Proof.
  induction ds as [|d ds IH]; intros [|v vs] [|w ws] Tv Tw H; simpl in *; try discriminate; [reflexivity|].
  apply andb_true_iff in Tv. destruct Tv as [Tv Tvs]. apply andb_true_iff in Tw. destruct Tw as [Tw Tws].
  inversion H. f_equal; [apply encode_inj; try assumption; eapply typed_lvl3; eassumption|eapply IH; eassumption].
Qed.

(* the JSON value of a parameter set determines the parameter set *)
Lemma json_tree_inj fs vs ws : typed_all (map f_dtype fs) vs = true -> typed_all (map f_dtype fs) ws = true ->
  json_tree fs vs = json_tree fs ws -> vs = ws.
Proof.
  intros Tv Tw H. unfold json_tree in H. inversion H as [H'].
  apply zip_keys_inj in H'.
  - eapply map_encode_inj; eassumption.
  - rewrite !map_length. symmetry. apply typed_all_length in Tv. rewrite map_length in Tv. exact Tv.
  - rewrite !map_length. symmetry. apply typed_all_length in Tw. rewrite map_length in Tw. exact Tw.
Qed.

(* what the implementation encodes (the validated instance) is a function of the cache key only *)
Lemma encode_inst_key a b x : canon a = Ok x -> canon b = Ok x -> encode_inst a = encode_inst b.
Proof. unfold encode_inst. intros -> ->. reflexivity. Qed.

(* the text written for a prefixed number (repaired encoder) is the same exactly for numbers of the same value *)
Lemma encode_inst_pref_iff x q y r :
  encode_inst (VPrefW x q) = encode_inst (VPrefW y r) <-> Dec.deqb (pvalue x q) (pvalue y r) = true.
Proof.
  rewrite <- canon_pref_eq_iff. unfold encode_inst. simpl.
  destruct (canon_pref_total x q) as [c [e ->]]. destruct (canon_pref_total y r) as [c' [e' ->]]. simpl. split.
  - intros H. inversion H as [H']. apply canon_str_inj in H'. destruct H' as [-> ->]. reflexivity.
  - intros H. inversion H. reflexivity.
Qed.

Lemma encode_inst_dec_iff x y : encode_inst (VDecW x) = encode_inst (VDecW y) <-> Dec.deqb x y = true.
Proof.
  rewrite <- canon_dec_eq_iff. unfold encode_inst. simpl.
  destruct (canon_dec_total x) as [c [e ->]]. destruct (canon_dec_total y) as [c' [e' ->]]. simpl. split.
  - intros H. inversion H as [H']. apply canon_str_inj in H'. destruct H' as [-> ->]. reflexivity.
  - intros H. inversion H. reflexivity.
Qed.
