(* Proofs/C16EProofsRefine.v — the package-level model Model/C16EPkg.v:flatten_pkg refines the tree model
   Model/C16Flatten.v:flatten along Corr/C16.v:hmod_of_pkg (the reading of a package as the tree of Spec/C16Flat.v):
   same verdict, same error, same flat module.  No hypothesis beyond "the package reads as a tree". *)
Require Import Hdl21.Base.PyInt Hdl21.Base.Design Hdl21.Base.Package Hdl21.Base.PrimTable
               Hdl21.Spec.C16Flat Hdl21.Model.C16Flatten Hdl21.Corr.C16 Hdl21.Model.C16EPkg
               Hdl21.Proofs.C01EProofsBase.
From Coq Require Import String.
Open Scope string_scope.
Open Scope list_scope.
Open Scope Z_scope.

Definition rmap {A B} (g : A -> B) (r : result A) : result B := match r with Ok a => Ok (g a) | Error e => Error e end.
Definition strip (r : pwout) : wout := (map fst (fst r), snd r).

(* one instance of a package module against the instance of the tree read from it *)
Definition inst_rel (p : package) (f : nat) (i : pinst) (x : hinst) : Prop :=
  (fun i =>
     let conns := map pconn_hconn (pi_conns i) in
     match pi_ref i with
     | PLocal nm =>
         m' <- ofopt EMissing (find_pmodule (pk_mods p) nm) ;;
         M' <- hmod_of_pkg p f m' ;;
         Ok (ISub (pi_name i) (h_ports M') (h_sigs M') (h_body M') conns)
     | PExt _ _ =>
         t <- pinst_target prims_ext p i ;;
         match t with
         | TDev dev ps => Ok (ILeaf (pi_name i) dev ps conns)
         | TMod _ => Error EBadKind
         end
     end) i = Ok x.

Lemma hmod_of_pkg_inv p f m M : hmod_of_pkg p (S f) m = Ok M ->
  exists body ports, Forall2 (inst_rel p f) (pm_insts m) body /\ pm_port_widths m = Ok ports /\
    M = {| h_ports := ports; h_sigs := pm_internal m; h_body := body |}.
Proof.
  cbn [hmod_of_pkg]. intros H. apply bind_ok in H. destruct H as [body [Hb H]]. apply bind_ok in H. destruct H as [ports [Hp H]].
  inversion H; subst; clear H. exists body, ports. split; [|split; [exact Hp|reflexivity]].
  apply traverse_Forall2 in Hb. exact Hb.
Qed.

Section Walk.
Variable p : package.

Lemma pcollect_collect {A B} (fp : A -> result pwout) (ft : B -> result wout) (R : A -> B -> Prop) la lb :
  Forall2 R la lb -> (forall a b, R a b -> rmap strip (fp a) = ft b) ->
  rmap strip (pcollect fp la) = collect ft lb.
Proof.
  intros HF Hab. induction HF as [|a b la lb Hr _ IH]; [reflexivity|].
  cbn [pcollect collect]. rewrite <- (Hab a b Hr), <- IH.
  destruct (fp a) as [r1|e]; cbn [bind rmap]; [|reflexivity].
  destruct (pcollect fp la) as [r2|e]; cbn [bind rmap]; [|reflexivity].
  unfold strip. cbn [fst snd]. rewrite map_app. reflexivity.
Qed.

Lemma pwalk_refines : forall f m M path env, hmod_of_pkg p f m = Ok M ->
  rmap strip (pwalk p f path m env) = collect (walk_inst path (h_ports M) (h_sigs M) env) (h_body M).
Proof.
  induction f as [|f IH]; intros m M path env H; [discriminate|].
  destruct (hmod_of_pkg_inv p f m M H) as [body [ports [HF [Hp ->]]]]. cbn [h_ports h_sigs h_body].
  cbn [pwalk]. rewrite Hp. cbn [bind].
  apply (pcollect_collect _ _ (inst_rel p f)); [exact HF|].
  intros i x Hr. unfold inst_rel in Hr. cbv beta zeta in Hr.
  destruct (pi_ref i) as [nm|dom nm] eqn:Eref.
  - apply bind_ok in Hr. destruct Hr as [m' [Hm' Hr]]. apply bind_ok in Hr. destruct Hr as [M' [HM' Hr]].
    inversion Hr; subst x; clear Hr. cbn [walk_inst].
    destruct (new_conns path ports (pm_internal m) env (map pconn_hconn (pi_conns i))) as [nc|e]; cbn [bind rmap]; [|reflexivity].
    rewrite Hm'. cbn [bind]. rewrite <- (IH m' M' (pi_name i :: path) (fst nc) HM').
    destruct (pwalk p f (pi_name i :: path) m' (fst nc)) as [r|e]; cbn [bind rmap]; reflexivity.
  - apply bind_ok in Hr. destruct Hr as [t [Ht Hr]]. destruct t as [k|dev ps]; [discriminate|].
    inversion Hr; subst x; clear Hr. cbn [walk_inst].
    destruct (new_conns path ports (pm_internal m) env (map pconn_hconn (pi_conns i))) as [nc|e]; cbn [bind rmap]; [|reflexivity].
    rewrite Ht. cbn [bind rmap]. reflexivity.
Qed.

(* every yielded node records the instance it came from: a PExt instance with exactly this target, the instance's name at the
   head of the path, and the ports connected in the order of the instance's connections *)
Definition pnode_ok (n : pnode) : Prop :=
  is_ext (snd n) = true /\
  pinst_target prims_ext p (snd n) = Ok (TDev (an_dev (fst n)) (an_dports (fst n))) /\
  (exists path, an_path (fst n) = pi_name (snd n) :: path) /\
  map fst (an_conns (fst n)) = map fst (pi_conns (snd n)).

Lemma new_conns_keys path mp ms env : forall conns nc cl, new_conns path mp ms env conns = Ok (nc, cl) -> map fst nc = map fst conns.
Proof.
  induction conns as [|[port c] rest IH]; intros nc cl H; cbn [new_conns] in H.
  - inversion H; reflexivity.
  - destruct c as [key|]; [|discriminate]. apply bind_ok in H. destruct H as [r [_ H]]. apply bind_ok in H. destruct H as [[rs1 rs2] [Hrs H]].
    inversion H; subst; clear H. cbn [map fst]. f_equal. exact (IH _ _ Hrs).
Qed.

Lemma pcollect_Forall {A} (fp : A -> result pwout) (P : pnode -> Prop) l :
  (forall a r, In a l -> fp a = Ok r -> Forall P (fst r)) -> forall r, pcollect fp l = Ok r -> Forall P (fst r).
Proof.
  induction l as [|a l IH]; intros Ha r H; cbn [pcollect] in H.
  - inversion H; subst. constructor.
  - apply bind_ok in H. destruct H as [r1 [H1 H]]. apply bind_ok in H. destruct H as [r2 [H2 H]]. inversion H; subst; clear H.
    cbn [fst]. apply Forall_app. split; [apply (Ha a r1 (or_introl eq_refl) H1)|].
    apply IH; [|exact H2]. intros a' r' Hin. apply Ha. right. exact Hin.
Qed.

Lemma pwalk_nodes_ok : forall f path m env r, pwalk p f path m env = Ok r -> Forall pnode_ok (fst r).
Proof.
  induction f as [|f IH]; intros path m env r H; [discriminate|]. cbn [pwalk] in H.
  apply bind_ok in H. destruct H as [mports [_ H]]. revert r H. apply pcollect_Forall.
  intros i r _ Hi. apply bind_ok in Hi. destruct Hi as [[nc cl] [Hnc Hi]].
  destruct (pi_ref i) as [nm|dom nm] eqn:Eref.
  - apply bind_ok in Hi. destruct Hi as [m' [_ Hi]]. apply bind_ok in Hi. destruct Hi as [r' [Hr' Hi]]. inversion Hi; subst; clear Hi.
    cbn [fst]. exact (IH _ _ _ _ Hr').
  - apply bind_ok in Hi. destruct Hi as [t [Ht Hi]]. destruct t as [k|dev ps]; [discriminate|]. inversion Hi; subst; clear Hi.
    cbn [fst]. constructor; [|constructor]. unfold pnode_ok. cbn [fst snd an_dev an_dports an_path an_conns].
    split; [unfold is_ext; rewrite Eref; reflexivity|]. split; [exact Ht|]. split; [eexists; reflexivity|].
    rewrite (new_conns_keys _ _ _ _ _ _ _ Hnc). rewrite map_map. reflexivity.
Qed.
End Walk.

Lemma is_flat_rel p f la lb : Forall2 (inst_rel p f) la lb -> forallb is_ext la = forallb is_leafb lb.
Proof.
  induction 1 as [|i x la lb Hr _ IH]; [reflexivity|]. cbn [forallb]. rewrite IH. f_equal.
  unfold inst_rel in Hr. cbv beta zeta in Hr. unfold is_ext. destruct (pi_ref i).
  - apply bind_ok in Hr. destruct Hr as [m' [_ Hr]]. apply bind_ok in Hr. destruct Hr as [M' [_ Hr]]. inversion Hr; reflexivity.
  - apply bind_ok in Hr. destruct Hr as [t [_ Hr]]. destruct t; [discriminate|]. inversion Hr; reflexivity.
Qed.

(* the flat module of the tree model, read off the package the package-level model returns *)
Definition flat_fmod (t : hmod) (nodes : list pnode) : fmod := build t (map fst nodes).

Theorem flatten_pkg_refines p top hm t :
  find_pmodule (pk_mods p) top = Some hm -> hmod_of_pkg p (pkg_fuel p) hm = Ok t ->
  match flatten t with
  | Error e => flatten_pkg p top = Error e
  | Ok FSame => flatten_pkg p top = Ok (one_module p hm) /\ pm_is_flat hm = true
  | Ok (FNew f) =>
      exists nodes, flatten_pkg p top = Ok (one_module p (flat_pmodule top hm (h_ports t) nodes)) /\ pm_is_flat hm = false /\
        f = flat_fmod t nodes /\ Forall (pnode_ok p) nodes /\
        pm_sigs (flat_pmodule top hm (h_ports t) nodes) = f_sigs f ++ f_ports f /\
        map (fun i => (pi_name i, map (fun c => (fst c, match snd c with PSig s => s | _ => "" end)) (pi_conns i)))
            (pm_insts (flat_pmodule top hm (h_ports t) nodes)) = map (fun fi => (fi_name fi, fi_conns fi)) (f_insts f)
  end.
Proof.
  intros Hfind Ht. unfold pkg_fuel in Ht.
  pose proof (pwalk_refines p _ hm t [] (ptop_env (h_ports t) (h_sigs t)) Ht) as Hw.
  destruct (hmod_of_pkg_inv p _ hm t Ht) as [body [ports [HF [Hp ->]]]]. cbn [h_ports h_sigs h_body] in *.
  unfold flatten, flatten_pkg. rewrite Hfind. cbn [ofopt bind].
  unfold is_flat, pm_is_flat. cbn [h_body]. rewrite (is_flat_rel p _ _ _ HF).
  destruct (forallb is_leafb body) eqn:Efl; [split; reflexivity|].
  rewrite Hp. cbn [bind]. unfold walk_top. cbn [h_ports h_sigs h_body].
  change (top_env {| h_ports := ports; h_sigs := pm_internal hm; h_body := body |}) with (ptop_env ports (pm_internal hm)).
  unfold pkg_fuel. rewrite <- Hw.
  destruct (pwalk p (S (Datatypes.length (pk_mods p))) [] hm (ptop_env ports (pm_internal hm))) as [r|e] eqn:Er; cbn [bind rmap]; [|reflexivity].
  change (top_claims {| h_ports := ports; h_sigs := pm_internal hm; h_body := body |}) with (ptop_claims ports (pm_internal hm)).
  unfold strip at 1. cbn [snd].
  destruct (check_claims [] (ptop_claims ports (pm_internal hm) ++ snd r)) as [[]|e]; cbn [bind]; [|reflexivity].
  exists (fst r). split; [reflexivity|]. split; [reflexivity|]. split; [reflexivity|].
  split; [exact (pwalk_nodes_ok p _ _ _ _ _ Er)|]. split; [reflexivity|].
  unfold flat_pmodule, build, strip. cbn [pm_insts f_insts fst]. rewrite !map_map. apply map_ext. intros [an i].
  unfold pnode_inst. cbn [pi_name pi_conns fst snd fi_name fi_conns]. f_equal. rewrite map_map. reflexivity.
Qed.
