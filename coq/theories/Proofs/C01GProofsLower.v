(* Proofs/C01GProofsLower.v — the lowering lemma for `lower_m` (Spec/C01GLower.v): with a naming that depends on the module, the
   node map phi_m commutes with the one-step maps (Spec/C01BNets.bstep on the bundle design, Spec/Nets.step on lower_m d) and is
   injective on the nodes of the design; hence "the orbits meet" is preserved and reflected (lower_m_meet).
   Adapted from Proofs/C01BLowerProofs.v (whose general lemmas are imported, not repeated). *)
From Coq Require Import String.
Require Import Hdl21.Base.PyInt Hdl21.Spec.PySlice Hdl21.Model.Slice Hdl21.Model.Resolve Hdl21.Base.Design
               Hdl21.Spec.Nets Hdl21.Spec.WfDesign Hdl21.Base.C01BDesign Hdl21.Spec.C01BNets Hdl21.Spec.C01BLower
               Hdl21.Spec.C01GLower
               Hdl21.Proofs.FunGraph Hdl21.Proofs.ResolveProofs Hdl21.Proofs.C01BProofs Hdl21.Proofs.C01BLowerProofs.
Require Hdl21.Spec.BundleSpec Hdl21.Proofs.BundleProofs.
Open Scope Z_scope.

(* ------------------------------------------------------------------------------------------------ *)
(* 0. lists                                                                                          *)
(* ------------------------------------------------------------------------------------------------ *)
Lemma assoc_app {V} k (a b : list (name * V)) :
  assoc k (a ++ b) = match assoc k a with Some v => Some v | None => assoc k b end.
Proof. induction a as [|[k' v] a IH]; [reflexivity|]. cbn [app assoc]. destruct (String.eqb k k'); [reflexivity|exact IH]. Qed.

Lemma assoc_map_val {V W} (h : V -> W) k (l : list (name * V)) :
  assoc k (map (fun c : name * V => (fst c, h (snd c))) l) = option_map h (assoc k l).
Proof. induction l as [|[k' v] l IH]; [reflexivity|]. cbn [map assoc fst snd]. destruct (String.eqb k k'); [reflexivity|exact IH]. Qed.

Lemma NoDup_map_filter {A B} (key : A -> B) (f : A -> bool) l : NoDup (map key l) -> NoDup (map key (filter f l)).
Proof.
  induction l as [|x l IH]; intros H; [constructor|]. cbn [map] in H. inversion H as [|? ? Hx ND]; subst. cbn [filter].
  destruct (f x); [|apply IH; exact ND]. cbn [map]. constructor; [|apply IH; exact ND].
  intros G. apply Hx. apply in_map_iff in G. destruct G as [y [E Hy]]. apply filter_In in Hy. rewrite <- E. apply in_map. tauto.
Qed.

Lemma bassoc_In k v l : bassoc k l = Some v -> In (k, v) l.
Proof.
  induction l as [|[k' v'] l IH]; cbn [bassoc]; [discriminate|]. destruct (String.eqb k k') eqn:E.
  - apply String.eqb_eq in E. subst. intros H. inversion H. left. reflexivity.
  - intros H. right. apply IH. exact H.
Qed.

(* the connections of a lowered instance, looked up by the flat name of a member of a port *)
Lemma assoc_flat_conns {V} (key : sitem -> name) (g : bexpr -> sitem -> V) (items : list sitem) (it : sitem) :
  NoDup (map key items) -> In it items -> forall conns,
  assoc (key it) (flat_map (fun c : name * bexpr =>
                              map (fun it' : sitem => (key it', g (snd c) it'))
                                  (filter (fun it' : sitem => String.eqb (fst (fst it')) (fst c)) items)) conns) =
  match bassoc (fst (fst it)) conns with Some bx => Some (g bx it) | None => None end.
Proof.
  intros ND Hin. induction conns as [|[p bx] rest IH]; [reflexivity|]. cbn [flat_map bassoc fst snd]. rewrite assoc_app.
  destruct (String.eqb (fst (fst it)) p) eqn:E.
  - rewrite (assoc_map_key_in key (g bx)).
    + reflexivity.
    + apply NoDup_map_filter. exact ND.
    + apply filter_In. split; [exact Hin|exact E].
  - rewrite assoc_map_key_notin; [exact IH|].
    intros G. apply in_map_iff in G. destruct G as [it' [E' Hit']]. apply filter_In in Hit'. destruct Hit' as [Hit' Ep].
    assert (it' = it) by (eapply (NoDup_map_inj key); eauto). subst it'. rewrite Ep in E. discriminate.
Qed.

(* ------------------------------------------------------------------------------------------------ *)
(* 1. leaves of a finished module                                                                    *)
(* ------------------------------------------------------------------------------------------------ *)
Section Finish.
Variables (m : bmodule) (own : naming) (ports sigs : list (name * Z)) (xs : list xinst).
Let fm := finish_module m own ports sigs xs.

Lemma finished_leaf_old id lf : assocN id (bm_leaves m) = Some lf -> assocN id (m_leaves fm) = Some (lower_leaf own lf).
Proof. intros H. unfold fm, finish_module. cbn [m_leaves]. apply assocN_app_l. rewrite assocN_map, H. reflexivity. Qed.

Lemma finished_leaf_new lf : In lf (xinsts_leaves xs) ->
  assocN (leaf_id (leaf_off m) (xinsts_leaves xs) lf) (m_leaves fm) = Some lf.
Proof.
  intros H. unfold fm, finish_module. cbn [m_leaves]. rewrite assocN_app_r.
  - unfold leaf_id. apply assocN_number_from. exact H.
  - rewrite assocN_map. rewrite assocN_above; [reflexivity|]. unfold leaf_id, leaf_off. lia.
Qed.

Lemma find_inst_finish off ex l i :
  find_inst (map (finish_inst off ex) l) i =
  option_map (finish_inst off ex) ((fix go (l : list xinst) := match l with [] => None | x :: r => if String.eqb (xi_name x) i then Some x else go r end) l).
Proof. induction l as [|x l IH]; [reflexivity|]. cbn [map find_inst finish_inst i_name]. destruct (String.eqb (xi_name x) i); [reflexivity|exact IH]. Qed.
End Finish.

Lemma xinsts_leaves_In xs x k lf w : In x xs -> In (k, PLeaf lf w) (xi_conns x) -> In lf (xinsts_leaves xs).
Proof.
  intros Hx Hc. unfold xinsts_leaves. apply in_flat_map. exists x. split; [exact Hx|]. apply in_flat_map. exists (k, PLeaf lf w).
  split; [exact Hc|]. left. reflexivity.
Qed.

(* ------------------------------------------------------------------------------------------------ *)
(* 2. the structure of lower_m d                                                                     *)
(* ------------------------------------------------------------------------------------------------ *)
Section Structure.
Variable nm : bmodule -> naming.
Variable d : bdesign.

Lemma nth_mod_lower_m k : nth_mod (lower_m nm d) k = rmap (lower_m_module nm d) (nth_bmod d k).
Proof. unfold nth_mod, nth_bmod, lower_m. cbn [d_mods]. rewrite nth_error_map. destruct (nth_error (bd_mods d) k); reflexivity. Qed.

Lemma find_inst_lower_m m off ex l i :
  find_inst (map (finish_inst off ex) (map (lower_xinst nm d m) l)) i = option_map (fun x => finish_inst off ex (lower_xinst nm d m x)) (find_binst l i).
Proof.
  induction l as [|x l IH]; [reflexivity|]. cbn [map find_inst find_binst finish_inst lower_xinst i_name xi_name].
  destruct (String.eqb (bi_name x) i); [reflexivity|exact IH].
Qed.

Lemma mod_down_lower_m p : forall m, mod_down (lower_m nm d) (lower_m_module nm d m) p = rmap (lower_m_module nm d) (bmod_down d m p).
Proof.
  induction p as [|[i e] p IH]; intros m; [reflexivity|].
  cbn [mod_down bmod_down]. unfold lower_m_module at 1. unfold finish_module at 1. cbn [m_insts]. rewrite find_inst_lower_m.
  destruct (find_binst (bm_insts m) i) as [x|]; [|reflexivity]. cbn [option_map ofopt bind finish_inst lower_xinst i_of xi_of].
  destruct (bi_of x) as [k|dev ps]; [|reflexivity].
  rewrite nth_mod_lower_m. destruct (nth_bmod d k) as [m'|err]; [|reflexivity]. cbn [rmap bind]. apply IH.
Qed.

Lemma mod_at_lower_m p : mod_at (lower_m nm d) p = rmap (lower_m_module nm d) (bmod_at d p).
Proof.
  unfold mod_at, bmod_at. rewrite nth_mod_lower_m. cbn [lower_m d_top].
  destruct (nth_bmod d (bd_top d)) as [m|err]; [|reflexivity]. cbn [rmap bind]. apply mod_down_lower_m.
Qed.

(* going one instance down *)
Lemma bmod_down_app p1 : forall m p2, bmod_down d m (p1 ++ p2) = (m1 <- bmod_down d m p1 ;; bmod_down d m1 p2).
Proof.
  induction p1 as [|[i e] p1 IH]; intros m p2; [reflexivity|]. cbn [app bmod_down].
  destruct (find_binst (bm_insts m) i) as [x|]; [|reflexivity]. cbn [ofopt bind].
  destruct (bi_of x) as [k|]; [|reflexivity]. destruct (nth_bmod d k) as [mk|]; [|reflexivity]. cbn [bind]. apply IH.
Qed.

Lemma bmod_at_cons i e p m : bmod_at d ((i, e) :: p) = Ok m ->
  exists m0 x k, bmod_at d p = Ok m0 /\ find_binst (bm_insts m0) i = Some x /\ bi_of x = TMod k /\ nth_bmod d k = Ok m.
Proof.
  unfold bmod_at. destruct (nth_bmod d (bd_top d)) as [top|]; [|discriminate]. cbn [bind rev]. rewrite bmod_down_app.
  match goal with |- context [bmod_down d top ?q] => destruct (bmod_down d top q) as [m0|] end; cbn [bind bmod_down]; [|discriminate].
  destruct (find_binst (bm_insts m0) i) as [x|] eqn:Hx; cbn [ofopt bind]; [|discriminate].
  destruct (bi_of x) as [k|] eqn:Hof; [|discriminate]. destruct (nth_bmod d k) as [mk|] eqn:Hk; cbn [bind]; [|discriminate].
  intros H. inversion H; subst. exists m0, x, k. auto.
Qed.
End Structure.

(* ------------------------------------------------------------------------------------------------ *)
(* 3. items in BundleFlattener's order                                                               *)
(* ------------------------------------------------------------------------------------------------ *)
Lemma bundle_members_rev port bs it : In it (bundle_members port (rev bs)) <-> In it (bundle_members port bs).
Proof.
  destruct it as [[b q] w]. rewrite !bundle_members_In. split; intros [t [H1 H2]]; exists t; (split; [|exact H2]).
  - apply in_rev. exact H1.
  - apply in_rev in H1. exact H1.
Qed.

Lemma mod_sports_r_In m it : In it (mod_sports_r m) <-> In it (mod_sports m).
Proof. unfold mod_sports_r, mod_sports. rewrite !in_app_iff, bundle_members_rev. reflexivity. Qed.

Lemma mod_ssigs_r_In m it : In it (mod_ssigs_r m) <-> In it (mod_ssigs m).
Proof. unfold mod_ssigs_r, mod_ssigs. rewrite !in_app_iff, bundle_members_rev. reflexivity. Qed.

Lemma target_sports_r_In d t it : In it (target_sports_r d t) <-> In it (target_sports d t).
Proof.
  destruct t as [k|dev ps]; cbn [target_sports_r target_sports]; [|reflexivity].
  destruct (nth_error (bd_mods d) k); [apply mod_sports_r_In|reflexivity].
Qed.

(* ------------------------------------------------------------------------------------------------ *)
(* 4. names                                                                                          *)
(* ------------------------------------------------------------------------------------------------ *)
Section Names.
Variable nm : bmodule -> naming.
Variable d : bdesign.

Lemma module_names_ok_m_split m : module_names_ok_m nm m = true ->
  NoDup (map (skey (nm m)) (mod_sports_r m) ++ map (skey (nm m)) (mod_ssigs_r m)) /\
  NoDup (map (fun pt : bool * btree => BundleSpec.bname (snd pt)) (bm_bundles m)).
Proof.
  unfold module_names_ok_m. intros H. apply andb_prop in H. destruct H as [H1 H2].
  apply nodup_names_NoDup in H1, H2. rewrite map_app in H1. auto.
Qed.

Lemma is_port_lower_m m s mp w : module_names_ok_m nm m = true -> In (s, mp, w) (mod_sports m ++ mod_ssigs m) ->
  is_port (lower_m_module nm d m) (lname (nm m) s mp) = is_bport m s mp.
Proof.
  intros Hok Hin. destruct (module_names_ok_m_split m Hok) as [ND NDb].
  unfold is_port, lower_m_module, finish_module. cbn [m_ports]. unfold lower_sigs.
  change (lname (nm m) s mp) with (skey (nm m) (s, mp, w)).
  apply in_app_or in Hin. destruct Hin as [Hin|Hin].
  - rewrite (assoc_map_key_in (skey (nm m)) (fun x : sitem => snd x)); [|eauto using NoDup_app_l|apply mod_sports_r_In; exact Hin].
    symmetry. unfold mod_sports in Hin. apply in_app_or in Hin. destruct Hin as [Hin|Hin].
    + apply scalar_items_In in Hin. destruct Hin as [-> Hin]. cbn [is_bport].
      destruct (In_assoc_some _ _ _ Hin) as [w' ->]. reflexivity.
    + apply bundle_members_In in Hin. destruct Hin as [t [Ht [Hn Hq]]].
      assert (Hne : mp <> []). { intros ->. apply tree_members_In in Hq. destruct Hq as [Hq _]. exact (paths_nonempty t Hq). }
      destruct mp as [|n r]; [congruence|]. cbn [is_bport]. subst s.
      pose proof (find_bundle_nodup _ (true, t) NDb Ht) as Hf. cbn [snd] in Hf. rewrite Hf. reflexivity.
  - rewrite assoc_map_key_notin.
    2:{ intros H. eapply (NoDup_app_disj _ _ _ ND H). apply (in_map (skey (nm m))). apply mod_ssigs_r_In. exact Hin. }
    symmetry. unfold mod_ssigs in Hin. apply in_app_or in Hin. destruct Hin as [Hin|Hin].
    + pose proof Hin as Hin0. apply scalar_items_In in Hin. destruct Hin as [-> Hin]. cbn [is_bport].
      destruct (assoc s (bm_ports m)) as [w'|] eqn:E; [|reflexivity]. exfalso.
      apply assoc_In_some in E. eapply (NoDup_app_disj _ _ (skey (nm m) (s, [], w)) ND).
      * change (skey (nm m) (s, [], w)) with (skey (nm m) (s, [], w')). apply in_map. unfold mod_sports_r. apply in_app_iff. left.
        apply scalar_items_In. auto.
      * apply in_map. unfold mod_ssigs_r. apply in_app_iff. left. exact Hin0.
    + apply bundle_members_In in Hin. destruct Hin as [t [Ht [Hn Hq]]].
      assert (Hne : mp <> []). { intros ->. apply tree_members_In in Hq. destruct Hq as [Hq _]. exact (paths_nonempty t Hq). }
      destruct mp as [|n r]; [congruence|]. cbn [is_bport]. subst s.
      pose proof (find_bundle_nodup _ (false, t) NDb Ht) as Hf. cbn [snd] in Hf. rewrite Hf. reflexivity.
Qed.

Lemma names_ok_m_mod m : names_ok_m nm d = true -> In m (bd_mods d) ->
  module_names_ok_m nm m = true /\ forall x, In x (bm_insts m) -> dev_names_ok x = true.
Proof.
  unfold names_ok_m. intros H Hin. rewrite forallb_forall in H. specialize (H m Hin). apply andb_prop in H.
  destruct H as [H1 H2]. split; [exact H1|]. rewrite forallb_forall in H2. exact H2.
Qed.

Lemma target_sports_r_nodup m x : names_ok_m nm d = true -> In m (bd_mods d) -> In x (bm_insts m) ->
  NoDup (map (skey (tnm nm d (bi_of x))) (target_sports_r d (bi_of x))).
Proof.
  intros Hok Hm Hx. destruct (names_ok_m_mod m Hok Hm) as [_ Hdev]. specialize (Hdev x Hx). unfold dev_names_ok in Hdev.
  unfold target_sports_r, tnm. destruct (bi_of x) as [k|dev ps].
  - destruct (nth_error (bd_mods d) k) as [mk|] eqn:E; [|constructor].
    apply nth_error_In in E. destruct (names_ok_m_mod mk Hok E) as [Hmk _].
    destruct (module_names_ok_m_split mk Hmk) as [ND _]. eapply NoDup_app_l; eauto.
  - rewrite skey_scalar. apply nodup_names_NoDup. exact Hdev.
Qed.
End Names.

(* ------------------------------------------------------------------------------------------------ *)
(* 5. the lowering lemma                                                                             *)
(* ------------------------------------------------------------------------------------------------ *)
Section Main.
Variable nm : bmodule -> naming.
Variable d : bdesign.
Hypothesis Hnames : names_ok_m nm d = true.
Hypothesis Hnp : no_pairs d = true.

Lemma no_pairs_inst m x : In m (bd_mods d) -> In x (bm_insts m) -> bi_pair x = false.
Proof.
  intros Hm Hx. unfold no_pairs in Hnp. rewrite forallb_forall in Hnp. specialize (Hnp m Hm). rewrite forallb_forall in Hnp.
  specialize (Hnp x Hx). destruct (bi_pair x); [discriminate|reflexivity].
Qed.

Lemma lname_nil (f : naming) s : lname f s [] = s.
Proof. reflexivity. Qed.

Section Member.
Variable m : bmodule.
Variable p : path.
Hypothesis Hm : bmod_at d p = Ok m.
Let lm := lower_m_module nm d m.
Let off := leaf_off m.
Let ex := xinsts_leaves (map (lower_xinst nm d m) (bm_insts m)).

Lemma path_nm_at : path_nm nm d p = nm m.
Proof. unfold path_nm. rewrite Hm. reflexivity. Qed.

Lemma port_nm_at i : port_nm nm d p i = inst_nm nm d m i.
Proof. unfold port_nm. rewrite Hm. reflexivity. Qed.

Lemma resolve_old_m self id j n' : leaf_node m p self id j = Ok n' -> resolve lm p (phi_m nm d self) (id, j) = Ok (phi_m nm d n').
Proof.
  unfold leaf_node, resolve. cbn [fst snd]. destruct (assocN id (bm_leaves m)) as [lf|] eqn:E; [|discriminate].
  cbn [ofopt bind]. unfold lm, lower_m_module. rewrite (finished_leaf_old _ _ _ _ _ id lf E). cbn [ofopt bind].
  destruct lf; cbn [lower_leaf]; intros H; inversion H; subst; cbn [phi_m]; rewrite ?path_nm_at; reflexivity.
Qed.

Lemma after_member_lowered_m self nn w e k t n' :
  (forall lf w', mt_pval nm d m (Ok t) w = PLeaf lf w' -> In lf ex) ->
  after_member m p self nn (Ok w) e k t = Ok n' ->
  exists bits ij, xbits (pval_sx off ex (mt_pval nm d m (Ok t) w)) = Ok bits /\ 0 <= k < w /\ selects bits nn w e k ij /\
                  resolve lm p (phi_m nm d self) ij = Ok (phi_m nm d n').
Proof.
  intros Hex H. destruct t as [b q|cx|i' p' q|]; cbn [after_member] in H.
  - (* MTSig *)
    destruct (in_width (Ok w) k) as [[]|] eqn:Ew; [|discriminate]. cbn [bind] in H. inversion H; subst n'.
    apply in_width_inv in Ew. cbn [mt_pval mt_leaf_m pval_sx].
    exists (sig_bits (leaf_id off ex (LSig (lname (nm m) b q))) w), (leaf_id off ex (LSig (lname (nm m) b q)), k).
    split; [apply xbits_xsig; lia|]. split; [exact Ew|]. split.
    + left. split; [apply sig_bits_len; lia|apply pick_sig_bits; exact Ew].
    + unfold resolve. cbn [fst snd]. unfold lm, lower_m_module, off, ex. rewrite finished_leaf_new by (eapply Hex; reflexivity).
      cbn [ofopt bind phi_m]. rewrite path_nm_at. reflexivity.
  - (* MTSx *)
    unfold sx_bit in H. destruct (xbits cx) as [bits|] eqn:Eb; [|discriminate]. cbn [bind] in H.
    destruct ((k <? 0) || (w <=? k)) eqn:Ek; [discriminate|].
    cbn [mt_pval pval_sx]. exists bits.
    destruct (zlen bits =? w) eqn:E1.
    + destruct (pick bits k) as [[id j]|] eqn:Ep; [|discriminate]. cbn [bind fst snd] in H. exists (id, j).
      split; [exact Eb|]. split; [lia|]. split; [left; split; [lia|exact Ep]|]. apply resolve_old_m. exact H.
    + destruct ((0 <? nn) && (zlen bits =? nn * w)) eqn:E2; [|discriminate].
      destruct (pick bits (e * w + k)) as [[id j]|] eqn:Ep; [|discriminate]. cbn [bind fst snd] in H. exists (id, j).
      split; [exact Eb|]. split; [lia|]. split; [right; repeat split; try lia; exact Ep|]. apply resolve_old_m. exact H.
  - (* MTRef *)
    destruct (in_width (Ok w) k) as [[]|] eqn:Ew; [|discriminate]. cbn [bind] in H. inversion H; subst n'.
    apply in_width_inv in Ew. cbn [mt_pval mt_leaf_m pval_sx].
    exists (sig_bits (leaf_id off ex (LRef i' (lname (inst_nm nm d m i') p' q))) w), (leaf_id off ex (LRef i' (lname (inst_nm nm d m i') p' q)), k).
    split; [apply xbits_xsig; lia|]. split; [exact Ew|]. split.
    + left. split; [apply sig_bits_len; lia|apply pick_sig_bits; exact Ew].
    + unfold resolve. cbn [fst snd]. unfold lm, lower_m_module, off, ex. rewrite finished_leaf_new by (eapply Hex; reflexivity).
      cbn [ofopt bind phi_m]. rewrite port_nm_at. reflexivity.
  - (* MTNc *)
    destruct (in_width (Ok w) k) as [[]|] eqn:Ew; [|discriminate]. cbn [bind] in H. inversion H; subst n'.
    apply in_width_inv in Ew. cbn [mt_pval mt_leaf_m pval_sx].
    exists (sig_bits (leaf_id off ex (LNc 0)) w), (leaf_id off ex (LNc 0), k).
    split; [apply xbits_xsig; lia|]. split; [exact Ew|]. split.
    + left. split; [apply sig_bits_len; lia|apply pick_sig_bits; exact Ew].
    + unfold resolve. cbn [fst snd]. unfold lm, lower_m_module, off, ex. rewrite finished_leaf_new by (eapply Hex; reflexivity). reflexivity.
Qed.
End Member.

Lemma target_ports_lower_m_in t it : In it (target_sports_r d t) ->
  target_ports (lower_m nm d) t = Ok (lower_sigs (tnm nm d t) (target_sports_r d t)).
Proof.
  intros Hin. destruct t as [k|dev ps]; cbn [target_ports target_sports_r tnm] in *.
  - rewrite nth_mod_lower_m. unfold nth_bmod. destruct (nth_error (bd_mods d) k) as [mk|]; [reflexivity|destruct Hin].
  - rewrite lower_sigs_scalar. reflexivity.
Qed.

Theorem lower_m_step n n' : bnode_ok d n = true -> bstep d n = Ok n' -> step (lower_m nm d) (phi_m nm d n) = Ok (phi_m nm d n').
Proof.
  intros Hok H. destruct n as [[|[i e] p'] s mp k|p i e port mp k|p s k].
  - cbn [bstep] in H. inversion H; subst. reflexivity.
  - (* a signal / bundle member of a non-top module *)
    cbn [bnode_ok] in Hok. cbn [bstep] in H. cbn [phi_m step].
    match type of H with context [bmod_at d ?q] => destruct (bmod_at d q) as [m|] eqn:Hm; [|discriminate] end.
    apply existsb_item in Hok. destruct Hok as [w Hit]. cbn [bind] in H.
    match goal with |- context [mod_at (lower_m nm d) ?q] =>
      rewrite (mod_at_lower_m nm d q); assert (Hm' : bmod_at d q = Ok m) by exact Hm; rewrite Hm' end.
    cbn [rmap bind].
    destruct (names_ok_m_mod nm d m Hnames (bmod_at_In d _ m Hm)) as [Hmok _].
    rewrite (path_nm_at m _ Hm). rewrite (is_port_lower_m nm d m s mp w Hmok Hit).
    destruct (is_bport m s mp); inversion H; subst; cbn [phi_m]; [|rewrite (path_nm_at m _ Hm); reflexivity].
    destruct (bmod_at_cons d i e p' m Hm) as [m0 [x [k0 [Hm0 [Hx [Hof Hk]]]]]].
    rewrite (port_nm_at m0 p' Hm0). unfold inst_nm. rewrite Hx. unfold tnm. rewrite Hof.
    unfold nth_bmod in Hk. destruct (nth_error (bd_mods d) k0) as [mk|]; [|discriminate]. inversion Hk; subst. reflexivity.
  - (* a port (member) of an instance *)
    cbn [bnode_ok] in Hok. destruct (bmod_at d p) as [m|] eqn:Hm; [|discriminate].
    destruct (find_binst (bm_insts m) i) as [x|] eqn:Hx; [|discriminate].
    apply andb_prop in Hok. destruct Hok as [Hit He].
    apply existsb_item in Hit. destruct Hit as [w0 Hit]. apply target_sports_r_In in Hit.
    pose proof (bmod_at_In d p m Hm) as HmIn.
    destruct (find_binst_In _ _ _ Hx) as [HxIn _].
    pose proof (no_pairs_inst m x HmIn HxIn) as Hpair.
    pose proof (target_sports_r_nodup nm d m x Hnames HmIn HxIn) as ND.
    set (tn := tnm nm d (bi_of x)) in *.
    assert (L1 : mod_at (lower_m nm d) p = Ok (lower_m_module nm d m)) by (rewrite mod_at_lower_m, Hm; reflexivity).
    set (off := leaf_off m). set (xs := map (lower_xinst nm d m) (bm_insts m)). set (ex := xinsts_leaves xs).
    set (lx := finish_inst off ex (lower_xinst nm d m x)).
    assert (L2 : find_inst (m_insts (lower_m_module nm d m)) i = Some lx).
    { unfold lower_m_module, finish_module. cbn [m_insts]. rewrite find_inst_lower_m, Hx. reflexivity. }
    assert (L3 : forall w, In (port, mp, w) (target_sports_r d (bi_of x)) ->
                 assoc (lname tn port mp) (i_conns lx) =
                 match bassoc port (bi_conns x) with Some bx => Some (pval_sx off ex (mt_pval nm d m (member bx mp) w)) | None => None end).
    { intros w Hin. unfold lx, finish_inst, lower_xinst. cbn [i_conns xi_conns]. rewrite assoc_map_val.
      unfold lower_conn, port_items. fold tn. change (lname tn port mp) with (skey tn (port, mp, w)).
      rewrite (assoc_flat_conns (skey tn) (fun bx (it : sitem) => mt_pval nm d m (member bx (snd (fst it))) (snd it))
                                (target_sports_r d (bi_of x)) (port, mp, w) ND Hin (bi_conns x)).
      cbn [fst snd]. destruct (bassoc port (bi_conns x)); reflexivity. }
    cbn [phi_m]. rewrite (port_nm_at m p Hm). unfold inst_nm. rewrite Hx. fold tn.
    destruct (bassoc port (bi_conns x)) as [bx|] eqn:Hc.
    2:{ cbn [bstep] in H. rewrite Hm in H. cbn [bind] in H. rewrite Hx in H. cbn [ofopt bind] in H. rewrite Hc in H.
        inversion H; subst n'. cbn [phi_m]. rewrite (port_nm_at m p Hm). unfold inst_nm. rewrite Hx. fold tn.
        apply (step_port_none _ _ _ _ _ _ _ lx L1 L2). rewrite (L3 w0 Hit). reflexivity. }
    rewrite (bstep_port_unfold d p i e port mp k m x bx Hm Hx Hc) in H. rewrite Hpair in H. cbn [andb] in H.
    destruct (btarget_port_width d (bi_of x) port mp) as [w|err] eqn:Hw.
    2:{ destruct (member bx mp) as [t|]; [|discriminate].
        cbn [bind] in H. exfalso. eapply after_member_width; eauto. }
    pose proof (width_item d _ _ _ _ Hw) as Hitw. apply target_sports_r_In in Hitw.
    assert (L4 : port_width (lower_m nm d) lx (lname tn port mp) = Ok w).
    { unfold port_width. unfold lx at 1. cbn [finish_inst lower_xinst i_of xi_of]. rewrite (target_ports_lower_m_in _ _ Hitw). cbn [bind].
      unfold lower_sigs. fold tn. change (lname tn port mp) with (skey tn (port, mp, w)).
      rewrite (assoc_map_key_in (skey tn) (fun x : sitem => snd x) _ _ ND Hitw). reflexivity. }
    specialize (L3 w Hitw).
    destruct (member bx mp) as [t|] eqn:Ht; [|discriminate]. cbn [bind] in H.
    destruct (after_member_lowered_m m p Hm (NBPort p i e port mp k) (bi_n x) w e k t n') as [bits [ij [Hb [Hk [Hs Hr]]]]]; [|exact H|].
    { intros lf w' E. apply (xinsts_leaves_In _ (lower_xinst nm d m x) (lname tn port mp) lf w').
      - apply in_map. exact HxIn.
      - unfold lower_xinst. cbn [xi_conns]. apply in_flat_map. exists (port, bx). split; [apply bassoc_In; exact Hc|].
        unfold lower_conn. apply in_map_iff. exists (port, mp, w). cbn [fst snd]. rewrite Ht, E. split; [reflexivity|].
        unfold port_items. apply filter_In. split; [exact Hitw|]. cbn [fst]. apply String.eqb_refl. }
    fold off xs ex in Hb.
    cbn [phi_m] in Hr. rewrite (port_nm_at m p Hm) in Hr. unfold inst_nm in Hr at 1. rewrite Hx in Hr. fold tn in Hr.
    rewrite (step_port _ p i e (lname tn port mp) k _ lx _ _ w ij L1 L2 L3 Hb L4 Hk); [exact Hr|].
    destruct Hs as [Hs|[Hne [Hlt [Hz Hp]]]]; [left; exact Hs|right].
    unfold lx. cbn [finish_inst lower_xinst i_n xi_n]. auto.
  - cbn [bstep] in H. inversion H; subst. reflexivity.
Qed.

(* on the nodes of the design, the flat names tell the members apart *)
Lemma phi_m_inj a b : bnode_ok d a = true -> bnode_ok d b = true -> phi_m nm d a = phi_m nm d b -> a = b.
Proof.
  intros Ha Hb E. destruct a as [p s mp k|p i e port mp k|p s k], b as [p2 s2 mp2 k2|p2 i2 e2 port2 mp2 k2|p2 s2 k2];
    cbn [phi_m] in E; try discriminate.
  - inversion E; subst p2 k2. cbn [bnode_ok] in Ha, Hb. destruct (bmod_at d p) as [m|] eqn:Hm; [|discriminate].
    rewrite (path_nm_at m p Hm) in *.
    apply existsb_item in Ha, Hb. destruct Ha as [w Ha], Hb as [w2 Hb].
    destruct (names_ok_m_mod nm d m Hnames (bmod_at_In d p m Hm)) as [Hmok _].
    destruct (module_names_ok_m_split nm m Hmok) as [ND _]. rewrite <- map_app in ND.
    assert (X : (s, mp, w) = (s2, mp2, w2)).
    { eapply (NoDup_map_inj (skey (nm m))); [exact ND| | |exact H1].
      - apply in_app_iff. apply in_app_or in Ha. destruct Ha; [left; apply mod_sports_r_In|right; apply mod_ssigs_r_In]; assumption.
      - apply in_app_iff. apply in_app_or in Hb. destruct Hb; [left; apply mod_sports_r_In|right; apply mod_ssigs_r_In]; assumption. }
    inversion X; subst. reflexivity.
  - inversion E; subst p2 i2 e2 k2. cbn [bnode_ok] in Ha, Hb. destruct (bmod_at d p) as [m|] eqn:Hm; [|discriminate].
    rewrite (port_nm_at m p Hm) in *. unfold inst_nm in *.
    destruct (find_binst (bm_insts m) i) as [x|] eqn:Hx; [|discriminate].
    apply andb_prop in Ha, Hb. destruct Ha as [Ha _], Hb as [Hb _].
    apply existsb_item in Ha, Hb. destruct Ha as [w Ha], Hb as [w2 Hb].
    destruct (find_binst_In _ _ _ Hx) as [HxIn _].
    pose proof (target_sports_r_nodup nm d m x Hnames (bmod_at_In d p m Hm) HxIn) as ND.
    assert (X : (port, mp, w) = (port2, mp2, w2)).
    { eapply (NoDup_map_inj (skey (tnm nm d (bi_of x)))); [exact ND| | |exact H3]; apply target_sports_r_In; assumption. }
    inversion X; subst. reflexivity.
  - inversion E; subst. reflexivity.
Qed.
End Main.
