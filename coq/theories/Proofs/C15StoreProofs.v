(* Proofs/C15StoreProofs.v — lemmas about Model/C15Store.v (shared mutable modules, partial compilations, histories
   over several PDKs).  Induction over the recursion fuel of `svisit` and over the instance loop `sloop`. *)
From Coq Require Import String.
Require Import Hdl21.Base.PyInt Hdl21.Spec.PdkSpec Hdl21.Model.PdkSelect Hdl21.Model.Walker Hdl21.Spec.C15Swap
               Hdl21.Proofs.C15Proofs Hdl21.Model.C15Store.
Open Scope string_scope.
Open Scope list_scope.

(* ================================================================ A. lists *)
Lemma F2_refl {A} (R : A -> A -> Prop) (H : forall x, R x x) l : Forall2 R l l.
Proof. induction l; constructor; auto. Qed.

Lemma F2_trans {A} (R : A -> A -> Prop) (H : forall x y z, R x y -> R y z -> R x z) :
  forall l1 l2 l3, Forall2 R l1 l2 -> Forall2 R l2 l3 -> Forall2 R l1 l3.
Proof.
  induction l1 as [|a l1 IH]; intros l2 l3 H1 H2; inversion H1; subst; inversion H2; subst; constructor; eauto.
Qed.

Lemma F2_mono {A} (R R' : A -> A -> Prop) (H : forall x y, R x y -> R' x y) l l' : Forall2 R l l' -> Forall2 R' l l'.
Proof. induction 1; constructor; auto. Qed.

Lemma F2_nth_l {A} (R : A -> A -> Prop) l l' : Forall2 R l l' ->
  forall n x, nth_error l n = Some x -> exists y, nth_error l' n = Some y /\ R x y.
Proof.
  induction 1 as [|a b l l' Hab _ IH]; intros n x Hn; destruct n; cbn in *; try discriminate.
  - inversion Hn; subst. eauto.
  - eauto.
Qed.

Lemma F2_nth_r {A} (R : A -> A -> Prop) l l' : Forall2 R l l' ->
  forall n y, nth_error l' n = Some y -> exists x, nth_error l n = Some x /\ R x y.
Proof.
  induction 1 as [|a b l l' Hab _ IH]; intros n y Hn; destruct n; cbn in *; try discriminate.
  - inversion Hn; subst. eauto.
  - eauto.
Qed.

Lemma F2_In_l {A} (R : A -> A -> Prop) l l' : Forall2 R l l' -> forall x, In x l -> exists y, In y l' /\ R x y.
Proof.
  intros H x Hx. destruct (In_nth_error _ _ Hx) as [n Hn]. destruct (F2_nth_l _ _ _ H _ _ Hn) as [y [Hy Rxy]].
  exists y. split; [eapply nth_error_In; eauto|exact Rxy].
Qed.

Lemma F2_In_r {A} (R : A -> A -> Prop) l l' : Forall2 R l l' -> forall y, In y l' -> exists x, In x l /\ R x y.
Proof.
  intros H y Hy. destruct (In_nth_error _ _ Hy) as [n Hn]. destruct (F2_nth_r _ _ _ H _ _ Hn) as [x [Hx Rxy]].
  exists x. split; [eapply nth_error_In; eauto|exact Rxy].
Qed.

Lemma F2_len {A} (R : A -> A -> Prop) l l' : Forall2 R l l' -> length l = length l'.
Proof. induction 1; cbn; auto. Qed.

Lemma F2_upd {A} (R : A -> A -> Prop) (Hr : forall x, R x x) (f : A -> A) :
  forall l n, (forall x, nth_error l n = Some x -> R x (f x)) -> Forall2 R l (upd l n f).
Proof.
  induction l as [|a l IH]; intros n H; destruct n; cbn [upd].
  - constructor.
  - constructor.
  - constructor; [apply H; reflexivity|apply F2_refl; auto].
  - constructor; [apply Hr|]. apply IH. intros x Hx. apply H. exact Hx.
Qed.

Lemma nth_upd_same {A} (f : A -> A) : forall l n x, nth_error l n = Some x -> nth_error (upd l n f) n = Some (f x).
Proof.
  induction l as [|a l IH]; intros n x H; destruct n; cbn in *; try discriminate.
  - inversion H; subst. reflexivity.
  - eauto.
Qed.

Lemma nth_upd_other {A} (f : A -> A) : forall l n m, n <> m -> nth_error (upd l n f) m = nth_error l m.
Proof.
  induction l as [|a l IH]; intros n m H; destruct n, m; cbn; auto; try congruence.
Qed.

Lemma nth_lt_some {A} (l : list A) n : (n < length l)%nat -> exists x, nth_error l n = Some x.
Proof. intros H. destruct (nth_error l n) eqn:E; [eauto|]. apply nth_error_None in E. lia. Qed.

(* ================================================================ B. the relation "only targets of mapped primitives changed" *)
Definition Qtop : prim -> pparams -> call -> Prop := fun _ _ _ => True.

Lemma tstep_refl Q t : tstep Q t t. Proof. left. reflexivity. Qed.

Lemma tstep_trans Q a b c : tstep Q a b -> tstep Q b c -> tstep Q a c.
Proof.
  intros [E|(p & prm & cl & E1 & E2 & HQ)] H2.
  - subst. exact H2.
  - subst. destruct H2 as [E|(p' & prm' & c' & E & _)]; [|discriminate E]. subst. right. eauto 6.
Qed.

Lemma tstep_mono (Q Q' : prim -> pparams -> call -> Prop) (H : forall p prm c, Q p prm c -> Q' p prm c) a b :
  tstep Q a b -> tstep Q' a b.
Proof. intros [E|(p & prm & cl & E1 & E2 & HQ)]; [left; exact E|right; eauto 7]. Qed.

Lemma istep_refl Q a : istep Q a a. Proof. split; [reflexivity|apply tstep_refl]. Qed.
Lemma istep_trans Q a b c : istep Q a b -> istep Q b c -> istep Q a c.
Proof. intros [A1 A2] [B1 B2]. split; [congruence|eapply tstep_trans; eauto]. Qed.
Lemma mstep_refl Q a : mstep Q a a. Proof. split; [reflexivity|apply F2_refl; apply istep_refl]. Qed.
Lemma mstep_trans Q a b c : mstep Q a b -> mstep Q b c -> mstep Q a c.
Proof. intros [A1 A2] [B1 B2]. split; [congruence|eapply F2_trans; [apply istep_trans|eauto|eauto]]. Qed.

Lemma srel_refl Q s : srel Q s s. Proof. apply F2_refl. apply mstep_refl. Qed.
Lemma srel_trans Q a b c : srel Q a b -> srel Q b c -> srel Q a c.
Proof. apply F2_trans. apply mstep_trans. Qed.
Lemma srel_mono (Q Q' : prim -> pparams -> call -> Prop) (H : forall p prm c, Q p prm c -> Q' p prm c) s s' :
  srel Q s s' -> srel Q' s s'.
Proof.
  apply F2_mono. intros a b [A1 A2]. split; [exact A1|]. eapply F2_mono; [|exact A2].
  intros x y [B1 B2]. split; [exact B1|]. eapply tstep_mono; eauto.
Qed.
Lemma srel_top Q s s' : srel Q s s' -> srel Qtop s s'.
Proof. apply srel_mono. intros; exact I. Qed.

Lemma srel_len Q s s' : srel Q s s' -> length s = length s'. Proof. apply F2_len. Qed.

Lemma srel_insts Q s s' i : srel Q s s' -> Forall2 (istep Q) (mod_insts s i) (mod_insts s' i).
Proof.
  intros H. unfold mod_insts. destruct (nth_error s i) as [m|] eqn:E.
  - destruct (F2_nth_l _ _ _ H _ _ E) as [m' [E' [_ F]]]. rewrite E'. exact F.
  - apply nth_error_None in E. rewrite (srel_len _ _ _ H) in E. apply nth_error_None in E. rewrite E. constructor.
Qed.

Lemma srel_ilen Q s s' i : srel Q s s' -> length (mod_insts s i) = length (mod_insts s' i).
Proof. intros H. apply (F2_len _ _ _ (srel_insts Q s s' i H)). Qed.

Lemma srel_get_l Q s s' i q t : srel Q s s' -> get_target s i q = Some t ->
  exists t', get_target s' i q = Some t' /\ tstep Q t t'.
Proof.
  intros H G. unfold get_target in *. destruct (nth_error (mod_insts s i) q) as [it|] eqn:E; [|discriminate].
  inversion G; subst. destruct (F2_nth_l _ _ _ (srel_insts Q s s' i H) _ _ E) as [it' [E' [_ T]]].
  rewrite E'. eauto.
Qed.

Lemma srel_get_r Q s s' i q t' : srel Q s s' -> get_target s' i q = Some t' ->
  exists t, get_target s i q = Some t /\ tstep Q t t'.
Proof.
  intros H G. unfold get_target in *. destruct (nth_error (mod_insts s' i) q) as [it'|] eqn:E; [|discriminate].
  inversion G; subst. destruct (F2_nth_r _ _ _ (srel_insts Q s s' i H) _ _ E) as [it [E' [_ T]]].
  rewrite E'. eauto.
Qed.

Lemma tstep_from_mod Q j t' : tstep Q (SMod j) t' -> t' = SMod j.
Proof. intros [E|(p & prm & c & E & _)]; [exact E|discriminate E]. Qed.
Lemma tstep_to_mod Q j t : tstep Q t (SMod j) -> t = SMod j.
Proof. intros [E|(p & prm & c & _ & E & _)]; [symmetry; exact E|discriminate E]. Qed.
Lemma tstep_to_prim Q p prm t : tstep Q t (SPrim p prm) -> t = SPrim p prm.
Proof. intros [E|(p' & prm' & c & _ & E & _)]; [symmetry; exact E|discriminate E]. Qed.

Lemma srel_sub_l Q s s' i n c j : srel Q s s' -> In (n, c, SMod j) (mod_insts s i) -> In (n, c, SMod j) (mod_insts s' i).
Proof.
  intros H HI. destruct (F2_In_l _ _ _ (srel_insts Q s s' i H) _ HI) as [[[n' c'] t'] [HI' [E T]]].
  cbn in E, T. apply tstep_from_mod in T. inversion E; subst. exact HI'.
Qed.

Lemma srel_sub_r Q s s' i n c j : srel Q s s' -> In (n, c, SMod j) (mod_insts s' i) -> In (n, c, SMod j) (mod_insts s i).
Proof.
  intros H HI. destruct (F2_In_r _ _ _ (srel_insts Q s s' i H) _ HI) as [[[n' c'] t'] [HI' [E T]]].
  cbn in E, T. apply tstep_to_mod in T. inversion E; subst. exact HI'.
Qed.

Lemma srel_prim_r Q s s' i n c p prm : srel Q s s' -> In (n, c, SPrim p prm) (mod_insts s' i) -> In (n, c, SPrim p prm) (mod_insts s i).
Proof.
  intros H HI. destruct (F2_In_r _ _ _ (srel_insts Q s s' i H) _ HI) as [[[n' c'] t'] [HI' [E T]]].
  cbn in E, T. apply tstep_to_prim in T. inversion E; subst. exact HI'.
Qed.

Lemma srel_reach_l Q s s' : srel Q s s' -> forall i j, reach s i j -> reach s' i j.
Proof. intros H i j R. induction R; [constructor|]. econstructor; [eapply srel_sub_l; eauto|exact IHR]. Qed.
Lemma srel_reach_r Q s s' : srel Q s s' -> forall i j, reach s' i j -> reach s i j.
Proof. intros H i j R. induction R; [constructor|]. econstructor; [eapply srel_sub_r; eauto|exact IHR]. Qed.

Lemma tstep_clean Q k t t' : tstep Q t t' -> tclean k t = true -> tclean k t' = true.
Proof. intros [E|(p & prm & c & _ & E & _)]; subst; auto. Qed.

Lemma srel_mclean Q k s s' i : srel Q s s' -> mclean k s i -> mclean k s' i.
Proof.
  intros H M it' HI. destruct (F2_In_r _ _ _ (srel_insts Q s s' i H) _ HI) as [it [HI' [_ T]]].
  eapply tstep_clean; eauto.
Qed.

Lemma srel_cleanR Q k s s' i : srel Q s s' -> cleanR k s i -> cleanR k s' i.
Proof. intros H C j R. eapply srel_mclean; eauto. apply C. eapply srel_reach_r; eauto. Qed.

Lemma srel_wf Q s s' : srel Q s s' -> wf s -> wf s'.
Proof. intros H W i n c j HI. eapply W. eapply srel_sub_r; eauto. Qed.

Lemma get_in s i q t : get_target s i q = Some t -> exists n c, In (n, c, t) (mod_insts s i).
Proof.
  unfold get_target. destruct (nth_error (mod_insts s i) q) as [[[n c] t']|] eqn:E; [|discriminate].
  intros H. inversion H; subst. exists n, c. eapply nth_error_In; eauto.
Qed.

Lemma in_get s i it : In it (mod_insts s i) -> exists q, (q < length (mod_insts s i))%nat /\ get_target s i q = Some (snd it).
Proof.
  intros H. destruct (In_nth_error _ _ H) as [q E]. exists q. split.
  - apply nth_error_Some. congruence.
  - unfold get_target. rewrite E. reflexivity.
Qed.

Lemma get_lt s i q : (q < length (mod_insts s i))%nat -> exists t, get_target s i q = Some t.
Proof. intros H. destruct (nth_lt_some _ _ H) as [it E]. unfold get_target. rewrite E. eauto. Qed.

Lemma srel_set_target (Q : prim -> pparams -> call -> Prop) s i pos p prm c :
  get_target s i pos = Some (SPrim p prm) -> Q p prm c -> srel Q s (set_target s i pos (SCall c)).
Proof.
  intros G HQ. unfold set_target, srel. apply F2_upd; [apply mstep_refl|].
  intros m Hm. split; [reflexivity|]. cbn [snd]. apply F2_upd; [apply istep_refl|].
  intros it Hit. split; [reflexivity|]. cbn [snd]. right. exists p, prm, c.
  unfold get_target, mod_insts in G. rewrite Hm in G. rewrite Hit in G. inversion G. auto.
Qed.

Lemma get_set_same s i pos t0 t : get_target s i pos = Some t0 -> get_target (set_target s i pos t) i pos = Some t.
Proof.
  unfold get_target, mod_insts, set_target. destruct (nth_error s i) as [m|] eqn:Hm; [|destruct pos; discriminate].
  destruct (nth_error (snd m) pos) as [it|] eqn:Hit; [|discriminate]. intros _.
  rewrite (nth_upd_same _ _ _ _ Hm). cbn [snd]. rewrite (nth_upd_same _ _ _ _ Hit). reflexivity.
Qed.

Lemma Qin_mono k c c' : cache_ext c c' -> forall p prm cl, Qin k c p prm cl -> Qin k c' p prm cl.
Proof. intros H p prm cl [g [G L]]. exists g. split; [exact G|apply H; exact L]. Qed.

Lemma module_call_err k g prm st e : module_call k g prm st = SErr e -> conv_g k g prm = SErr e.
Proof.
  unfold module_call. destruct (lookup (g, prm) (cache st)); [discriminate|].
  destruct (conv_g k g prm) as [cs|e0]; cbn [sbind]; [discriminate|]. intros H. inversion H. reflexivity.
Qed.

(* ================================================================ C. only targets of mapped primitives change — also when the walk raises *)
Definition rel_post (k : pdk) (s : store) (st : wst) (r : sres) : Prop :=
  let '(s', st', _) := r in
  cache_ext (cache st) (cache st') /\ srel (Qin k (cache st')) s s' /\ (cache_ok k (cache st) -> cache_ok k (cache st')).

Lemma sloop_rel vs k i (IH : forall s st j, rel_post k s st (vs s st j)) :
  forall n pos s st, rel_post k s st (sloop vs k i n pos s st).
Proof.
  induction n as [|n IHn]; intros pos s st; cbn [sloop].
  - cbn. split; [apply cache_ext_refl|]. split; [apply srel_refl|auto].
  - destruct (get_target s i pos) as [t|] eqn:G.
    2:{ cbn. split; [apply cache_ext_refl|]. split; [apply srel_refl|auto]. }
    destruct t as [j|p prm|c|x].
    + pose proof (IH s st j) as H1. destruct (vs s st j) as [[s1 st1] [e1|]]; [exact H1|].
      pose proof (IHn (S pos) s1 st1) as H2. destruct (sloop vs k i n (S pos) s1 st1) as [[s2 st2] e2].
      cbn in H1, H2 |- *. destruct H1 as (A1 & B1 & C1). destruct H2 as (A2 & B2 & C2).
      split; [eapply cache_ext_trans; eauto|]. split; [|auto].
      eapply srel_trans; [|exact B2]. eapply srel_mono; [apply (Qin_mono k _ _ A2)|exact B1].
    + destruct (group_of k p) as [g|] eqn:Gp; [|apply IHn].
      destruct (module_call k g prm st) as [[c st1]|e1] eqn:M.
      2:{ cbn. split; [apply cache_ext_refl|]. split; [apply srel_refl|auto]. }
      pose proof (IHn (S pos) (set_target s i pos (SCall c)) st1) as H2.
      destruct (sloop vs k i n (S pos) (set_target s i pos (SCall c)) st1) as [[s2 st2] e2].
      cbn in H2 |- *. destruct H2 as (A2 & B2 & C2). destruct (module_call_spec _ _ _ _ _ _ M) as (A1 & B1 & C1).
      split; [eapply cache_ext_trans; eauto|]. split; [|auto].
      eapply srel_trans; [|exact B2]. apply srel_set_target with (p := p) (prm := prm); [exact G|].
      exists g. split; [exact Gp|apply A2; exact B1].
    + apply IHn.
    + apply IHn.
Qed.

Lemma svisit_rel k : forall fuel s st i, rel_post k s st (svisit fuel k s st i).
Proof.
  induction fuel as [|f IH]; intros s st i; cbn [svisit].
  - cbn. split; [apply cache_ext_refl|]. split; [apply srel_refl|auto].
  - destruct (nth_error s i) as [m|].
    + apply sloop_rel. exact IH.
    + cbn. split; [apply cache_ext_refl|]. split; [apply srel_refl|auto].
Qed.

Lemma svisit_rel' k fuel s st i s' st' e : svisit fuel k s st i = (s', st', e) ->
  cache_ext (cache st) (cache st') /\ srel (Qin k (cache st')) s s' /\ (cache_ok k (cache st) -> cache_ok k (cache st')).
Proof. intros H. pose proof (svisit_rel k fuel s st i) as R. rewrite H in R. exact R. Qed.

Definition top_post (s : store) (r : sres) : Prop := srel Qtop s (fst (fst r)).

Lemma svisit_top k fuel s st i : top_post s (svisit fuel k s st i).
Proof.
  pose proof (svisit_rel k fuel s st i) as R. destruct (svisit fuel k s st i) as [[s' st'] e].
  destruct R as (_ & B & _). eapply srel_top. exact B.
Qed.

Lemma sloop_top vs k i (IH : forall s st j, top_post s (vs s st j)) : forall n pos s st, top_post s (sloop vs k i n pos s st).
Proof.
  induction n as [|n IHn]; intros pos s st; cbn [sloop]; [apply srel_refl|].
  destruct (get_target s i pos) as [t|] eqn:G; [|apply srel_refl].
  destruct t as [j|p prm|c|x]; try apply IHn.
  - pose proof (IH s st j) as H1. destruct (vs s st j) as [[s1 st1] [e1|]]; [exact H1|].
    pose proof (IHn (S pos) s1 st1) as H2. unfold top_post in *. cbn [fst] in H1. eapply srel_trans; eauto.
  - destruct (group_of k p) as [g|] eqn:Gp; [|apply IHn].
    destruct (module_call k g prm st) as [[c st1]|e1] eqn:M; [|apply srel_refl].
    pose proof (IHn (S pos) (set_target s i pos (SCall c)) st1) as H2. unfold top_post in *.
    eapply srel_trans; [|exact H2]. apply srel_set_target with (p := p) (prm := prm); [exact G|exact I].
Qed.

(* ================================================================ D. a walk that returns leaves no mapped primitive below the module it entered *)
Definition tdone (k : pdk) (s : store) (t : starget) : Prop :=
  match t with SMod j => cleanR k s j | _ => tclean k t = true end.

Lemma tdone_mono Q k s s' t t' : srel Q s s' -> tstep Q t t' -> tdone k s t -> tdone k s' t'.
Proof.
  intros H [E|(p & prm & c & E1 & E2 & _)] D.
  - subst. destruct t; cbn in *; auto. eapply srel_cleanR; eauto.
  - subst. reflexivity.
Qed.

Lemma sloop_tail vs k i (IHt : forall s st j, top_post s (vs s st j)) n pos s1 st1 s' st' e t1 :
  sloop vs k i n (S pos) s1 st1 = (s', st', e) -> get_target s1 i pos = Some t1 -> tdone k s1 t1 ->
  forall t, get_target s' i pos = Some t -> tdone k s' t.
Proof.
  intros H G D t G'. pose proof (sloop_top vs k i IHt n (S pos) s1 st1) as T. rewrite H in T. unfold top_post in T. cbn [fst] in T.
  destruct (srel_get_l _ _ _ _ _ _ T G) as [t' [G2 S]]. rewrite G2 in G'. inversion G'; subst.
  eapply tdone_mono; eauto.
Qed.

Lemma sloop_clean vs k i (IHt : forall s st j, top_post s (vs s st j))
  (IHc : forall s st j s' st', vs s st j = (s', st', None) -> cleanR k s' j) :
  forall n pos s st s' st', sloop vs k i n pos s st = (s', st', None) ->
    forall q t, (pos <= q < pos + n)%nat -> get_target s' i q = Some t -> tdone k s' t.
Proof.
  induction n as [|n IHn]; intros pos s st s' st' H q t Hq G'; [lia|].
  cbn [sloop] in H. destruct (get_target s i pos) as [t0|] eqn:G; [|discriminate].
  assert (Hgt : forall s1 st1 t1, sloop vs k i n (S pos) s1 st1 = (s', st', None) -> get_target s1 i pos = Some t1 ->
                tdone k s1 t1 -> tdone k s' t).
  { intros s1 st1 t1 H1 G1 D1. destruct (Nat.eq_dec q pos) as [->|Nq].
    - eapply sloop_tail; eauto.
    - eapply (IHn (S pos)); eauto. lia. }
  destruct t0 as [j|p prm|c|x].
  - pose proof (IHt s st j) as T1. destruct (vs s st j) as [[s1 st1] [e1|]] eqn:V; [discriminate|].
    unfold top_post in T1. cbn [fst] in T1. destruct (srel_get_l _ _ _ _ _ _ T1 G) as [t1 [G1 S1]].
    apply tstep_from_mod in S1. subst. eapply Hgt; eauto. cbn. eapply IHc; eauto.
  - destruct (group_of k p) as [g|] eqn:Gp.
    + destruct (module_call k g prm st) as [[c st1]|e1] eqn:M; [|discriminate].
      eapply Hgt; [exact H|eapply get_set_same; eauto|reflexivity].
    + eapply Hgt; eauto. cbn. rewrite Gp. reflexivity.
  - eapply Hgt; eauto. reflexivity.
  - eapply Hgt; eauto. reflexivity.
Qed.

Lemma done_cleanR k s i : (forall it, In it (mod_insts s i) -> tdone k s (snd it)) -> cleanR k s i.
Proof.
  intros H j R. destruct R as [i|i j l n c HI R].
  - intros it HI. specialize (H it HI). destruct (snd it); cbn in *; auto.
  - specialize (H _ HI). cbn in H. apply H. exact R.
Qed.

Lemma svisit_clean k : forall fuel s st i s' st', svisit fuel k s st i = (s', st', None) -> cleanR k s' i.
Proof.
  induction fuel as [|f IH]; intros s st i s' st' H; cbn [svisit] in H; [discriminate|].
  destruct (nth_error s i) as [m|] eqn:E; [|discriminate].
  apply done_cleanR. intros it HI. destruct (in_get _ _ _ HI) as [q [Hq G]].
  eapply (sloop_clean (svisit f k) k i (svisit_top k f) IH _ 0%nat s st s' st' H q); [|exact G].
  pose proof (svisit_top k (S f) s st i) as T. cbn [svisit] in T. rewrite E, H in T. unfold top_post in T. cbn [fst] in T.
  rewrite <- (srel_ilen _ _ _ i T) in Hq. unfold mod_insts in Hq at 1. rewrite E in Hq. lia.
Qed.

(* ================================================================ E. well-formed stores: the walk neither runs out of fuel nor leaves the store *)
Definition benign (e : option serr) : Prop := match e with Some SEFuel | Some SEBadRef => False | _ => True end.

Lemma sloop_total vs k i (IHt : forall s st j, top_post s (vs s st j))
  (IHb : forall s st j, wf s -> (j < i)%nat -> (j < length s)%nat -> benign (snd (vs s st j))) :
  forall n pos s st, wf s -> (i < length s)%nat -> (pos + n = length (mod_insts s i))%nat ->
    benign (snd (sloop vs k i n pos s st)).
Proof.
  induction n as [|n IHn]; intros pos s st W Li Ln; cbn [sloop]; [exact I|].
  destruct (get_lt s i pos ltac:(lia)) as [t0 G]. rewrite G.
  assert (Hnext : forall s1 st1, srel Qtop s s1 -> benign (snd (sloop vs k i n (S pos) s1 st1))).
  { intros s1 st1 T. apply IHn; [eapply srel_wf; eauto|rewrite <- (srel_len _ _ _ T); exact Li|].
    rewrite <- (srel_ilen _ _ _ i T). lia. }
  destruct t0 as [j|p prm|c|x].
  - destruct (get_in _ _ _ _ G) as [nm [cn HI]]. pose proof (W _ _ _ _ HI) as Hj.
    pose proof (IHb s st j W Hj ltac:(lia)) as B. pose proof (IHt s st j) as T.
    destruct (vs s st j) as [[s1 st1] [e1|]]; [exact B|]. apply Hnext. exact T.
  - destruct (group_of k p) as [g|] eqn:Gp; [|apply Hnext; apply srel_refl].
    destruct (module_call k g prm st) as [[c st1]|e1] eqn:M; [|exact I].
    apply Hnext. apply srel_set_target with (p := p) (prm := prm); [exact G|exact I].
  - apply Hnext. apply srel_refl.
  - apply Hnext. apply srel_refl.
Qed.

Lemma svisit_total k : forall fuel s st i, wf s -> (i < fuel)%nat -> (i < length s)%nat -> benign (snd (svisit fuel k s st i)).
Proof.
  induction fuel as [|f IH]; intros s st i W Hf Hl; [lia|]. cbn [svisit].
  destruct (nth_lt_some _ _ Hl) as [m E]. rewrite E.
  apply sloop_total; auto.
  - apply svisit_top.
  - intros s1 st1 j W1 Hj Hl1. apply IH; auto. lia.
  - unfold mod_insts. rewrite E. reflexivity.
Qed.

(* ================================================================ F. a walk that raises was given a request the selection rejects *)
Definition failing (k : pdk) (s : store) (i : nat) (e : perr) : Prop :=
  exists j n c p prm g, reach s i j /\ In (n, c, SPrim p prm) (mod_insts s j) /\ group_of k p = Some g /\ conv_g k g prm = SErr e.

Lemma failing_back Q k s s1 i e : srel Q s s1 -> failing k s1 i e -> failing k s i e.
Proof.
  intros H (j & n & c & p & prm & g & R & HI & G & C). exists j, n, c, p, prm, g.
  split; [eapply srel_reach_r; eauto|]. split; [eapply srel_prim_r; eauto|auto].
Qed.

Lemma failing_sub k s i n c j e : In (n, c, SMod j) (mod_insts s i) -> failing k s j e -> failing k s i e.
Proof.
  intros HI (j' & n' & c' & p & prm & g & R & HI' & G & C). exists j', n', c', p, prm, g.
  split; [econstructor; eauto|auto].
Qed.

Lemma sloop_err vs k i (IHt : forall s st j, top_post s (vs s st j))
  (IHe : forall s st j s' st' e, vs s st j = (s', st', Some (SE e)) -> failing k s j e) :
  forall n pos s st s' st' e, sloop vs k i n pos s st = (s', st', Some (SE e)) -> failing k s i e.
Proof.
  induction n as [|n IHn]; intros pos s st s' st' e H; cbn [sloop] in H; [discriminate|].
  destruct (get_target s i pos) as [t0|] eqn:G; [|discriminate].
  destruct t0 as [j|p prm|c|x]; try (eapply IHn; eauto; fail).
  - destruct (get_in _ _ _ _ G) as [nm [cn HI]]. pose proof (IHt s st j) as T.
    destruct (vs s st j) as [[s1 st1] [e1|]] eqn:V.
    + inversion H; subst. eapply failing_sub; eauto.
    + eapply failing_back; [exact T|]. eapply IHn; eauto.
  - destruct (group_of k p) as [g|] eqn:Gp; [|eapply IHn; eauto].
    destruct (module_call k g prm st) as [[c st1]|e1] eqn:M.
    + eapply failing_back; [|eapply IHn; eauto].
      apply srel_set_target with (Q := Qtop) (p := p) (prm := prm); [exact G|exact I].
    + inversion H; subst. destruct (get_in _ _ _ _ G) as [nm [cn HI]].
      exists i, nm, cn, p, prm, g. split; [constructor|]. split; [exact HI|]. split; [exact Gp|].
      eapply module_call_err; eauto.
Qed.

Lemma svisit_err k : forall fuel s st i s' st' e, svisit fuel k s st i = (s', st', Some (SE e)) -> failing k s i e.
Proof.
  induction fuel as [|f IH]; intros s st i s' st' e H; cbn [svisit] in H; [discriminate|].
  destruct (nth_error s i) as [m|] eqn:E; [|discriminate].
  eapply sloop_err; [apply svisit_top|exact IH|exact H].
Qed.

(* ================================================================ G. modules the walk does not reach are left alone *)
Lemma sloop_frame vs k i (IHt : forall s st j, top_post s (vs s st j))
  (IHf : forall s st j x, ~ reach s j x -> nth_error (fst (fst (vs s st j))) x = nth_error s x) :
  forall n pos s st x, ~ reach s i x -> nth_error (fst (fst (sloop vs k i n pos s st))) x = nth_error s x.
Proof.
  induction n as [|n IHn]; intros pos s st x NR; cbn [sloop]; [reflexivity|].
  destruct (get_target s i pos) as [t0|] eqn:G; [|reflexivity].
  destruct t0 as [j|p prm|c|y]; try (apply IHn; exact NR).
  - destruct (get_in _ _ _ _ G) as [nm [cn HI]].
    assert (NRj : ~ reach s j x) by (intros R; apply NR; econstructor; eauto).
    pose proof (IHf s st j x NRj) as F. pose proof (IHt s st j) as T.
    destruct (vs s st j) as [[s1 st1] [e1|]]; cbn [fst] in *; [exact F|].
    rewrite IHn; [exact F|]. intros R. apply NR. eapply srel_reach_r; eauto.
  - destruct (group_of k p) as [g|] eqn:Gp; [|apply IHn; exact NR].
    destruct (module_call k g prm st) as [[c st1]|e1] eqn:M; [|reflexivity].
    assert (T : srel Qtop s (set_target s i pos (SCall c)))
      by (apply srel_set_target with (p := p) (prm := prm); [exact G|exact I]).
    rewrite IHn.
    + unfold set_target. apply nth_upd_other. intros ->. apply NR. constructor.
    + intros R. apply NR. eapply srel_reach_r; eauto.
Qed.

Lemma svisit_frame k : forall fuel s st i x, ~ reach s i x -> nth_error (fst (fst (svisit fuel k s st i))) x = nth_error s x.
Proof.
  induction fuel as [|f IH]; intros s st i x NR; cbn [svisit]; [reflexivity|].
  destruct (nth_error s i) as [m|] eqn:E; [|reflexivity].
  apply sloop_frame; auto. apply svisit_top.
Qed.

(* ================================================================ H. nothing mapped left below a module => walking it changes nothing *)
Lemma sloop_noop vs k i s st : forall n pos,
  (forall q, (pos <= q < pos + n)%nat -> exists t, get_target s i q = Some t /\ tclean k t = true /\
                                                forall j, t = SMod j -> vs s st j = (s, st, None)) ->
  sloop vs k i n pos s st = (s, st, None).
Proof.
  induction n as [|n IHn]; intros pos H; cbn [sloop]; [reflexivity|].
  destruct (H pos ltac:(lia)) as (t & G & C & V). rewrite G.
  assert (Hn : sloop vs k i n (S pos) s st = (s, st, None)) by (apply IHn; intros q Hq; apply H; lia).
  destruct t as [j|p prm|c|x]; auto.
  - rewrite (V j eq_refl). exact Hn.
  - cbn in C. destruct (group_of k p); [discriminate|exact Hn].
Qed.

Lemma svisit_noop k : forall fuel s st i, wf s -> cleanR k s i -> (i < fuel)%nat -> (i < length s)%nat ->
  svisit fuel k s st i = (s, st, None).
Proof.
  induction fuel as [|f IH]; intros s st i W C Hf Hl; [lia|]. cbn [svisit].
  destruct (nth_lt_some _ _ Hl) as [m E]. rewrite E.
  apply sloop_noop. intros q Hq.
  assert (Hq' : (q < length (mod_insts s i))%nat) by (unfold mod_insts; rewrite E; lia).
  destruct (get_lt s i q Hq') as [t G]. exists t. split; [exact G|].
  destruct (get_in _ _ _ _ G) as [nm [cn HI]]. split.
  - apply (C i (reach_refl s i) _ HI).
  - intros j ->. pose proof (W _ _ _ _ HI) as Hj. apply IH; auto; try lia.
    intros l R. apply C. econstructor; eauto.
Qed.

(* ================================================================ I. the specification relation of Spec/C15Swap.v on the unfolded hierarchies *)
Definition ufold (f : nat) (s : store) (l : list sinst) : ilist :=
  fold_right (fun it acc =>
            ICons (fst (fst it)) (snd (fst it))
                  (match snd it with
                   | SMod j => TMod (unfold f s j)
                   | SPrim p prm => TPrim p prm
                   | SCall c => TCall c
                   | SExt x => TExt x
                   end) acc) INil l.

Lemma ufold_rel k cch f s s' (IH : forall i, cleanR k s' i -> mrel k (in_cache cch) (unfold f s i) (unfold f s' i)) :
  forall l l', Forall2 (istep (Qin k cch)) l l' ->
    (forall it, In it l' -> tclean k (snd it) = true /\ forall j, snd it = SMod j -> cleanR k s' j) ->
    irel k (in_cache cch) (ufold f s l) (ufold f s' l').
Proof.
  induction 1 as [|x y l l' [E T] _ IHl]; intros Hc; cbn [ufold fold_right]; [constructor|].
  fold (ufold f s l). fold (ufold f s' l'). rewrite E.
  destruct (Hc y (or_introl eq_refl)) as [Cy My].
  constructor; [|apply IHl; intros it HI; apply Hc; right; exact HI].
  destruct T as [Eq|(p & prm & c & E1 & E2 & (g & Gp & L))].
  - rewrite Eq in *. destruct (snd x) as [j|p prm|c|nm].
    + constructor. apply IH. apply My. reflexivity.
    + constructor. cbn in Cy. destruct (group_of k p); [discriminate|reflexivity].
    + constructor.
    + constructor.
  - rewrite E1, E2. eapply TR_swap; [exact Gp|exact L].
Qed.

Lemma unfold_rel k cch s s' : srel (Qin k cch) s s' ->
  forall f i, cleanR k s' i -> mrel k (in_cache cch) (unfold f s i) (unfold f s' i).
Proof.
  intros H. induction f as [|f IH]; intros i C; cbn [unfold]; [constructor; constructor|].
  destruct (nth_error s i) as [m|] eqn:E.
  - destruct (F2_nth_l _ _ _ H _ _ E) as [m' [E' [En F]]]. rewrite E', En. constructor.
    apply (ufold_rel k cch f s s' IH); [exact F|].
    intros it HI. assert (HI' : In it (mod_insts s' i)) by (unfold mod_insts; rewrite E'; exact HI). split.
    + apply (C i (reach_refl _ _) _ HI').
    + intros j Ej l R. apply C. destruct it as [[nm cn] t]. cbn in Ej. subst. econstructor; eauto.
  - apply nth_error_None in E. rewrite (srel_len _ _ _ H) in E. apply nth_error_None in E. rewrite E.
    constructor; constructor.
Qed.

(* ================================================================ J. histories *)
Definition hinv (h : hst) : Prop := cache_ok Sky130 (h_sky h) /\ cache_ok Gf180 (h_gf h).

Lemma cache_of_ok k h : hinv h -> cache_ok k (cache_of k h).
Proof. intros [A B]. destruct k; cbn; auto; apply cache_ok_nil. Qed.

Lemma Qin_sel k c : cache_ok k c -> forall p prm cl, Qin k c p prm cl -> Qsel k p prm cl.
Proof. intros H p prm cl [g [G L]]. exists g. split; [exact G|apply (H g prm cl L)]. Qed.

Lemma hstep_rel k top h h' e : hstep k top h = (h', e) -> hinv h -> srel (Qsel k) (h_store h) (h_store h') /\ hinv h'.
Proof.
  unfold hstep. intros H I.
  destruct (svisit (fuel_of (h_store h)) k (h_store h) {| cache := cache_of k h; next := h_next h |} top) as [[s' st'] e'] eqn:V.
  inversion H; subst. cbn [h_store]. destruct (svisit_rel' _ _ _ _ _ _ _ _ V) as (_ & B & C). cbn [cache] in C.
  specialize (C (cache_of_ok k h I)). split.
  - eapply srel_mono; [apply (Qin_sel k _ C)|exact B].
  - destruct I as [I1 I2]. destruct k; split; cbn [h_sky h_gf]; auto.
Qed.

Lemma Qany_here k ks p prm c : Qsel k p prm c -> Qany (k :: ks) p prm c.
Proof. intros H. exists k. split; [left; reflexivity|exact H]. Qed.
Lemma Qany_later k ks p prm c : Qany ks p prm c -> Qany (k :: ks) p prm c.
Proof. intros [k' [H1 H2]]. exists k'. split; [right; exact H1|exact H2]. Qed.

Lemma hrun_rel : forall ops h h' es, hrun ops h = (h', es) -> hinv h ->
  srel (Qany (map fst ops)) (h_store h) (h_store h') /\ hinv h'.
Proof.
  induction ops as [|[k top] r IH]; intros h h' es H I; cbn [hrun] in H.
  - inversion H; subst. split; [apply srel_refl|exact I].
  - destruct (hstep k top h) as [h1 e] eqn:S. destruct (hrun r h1) as [h2 es2] eqn:R. inversion H; subst.
    destruct (hstep_rel _ _ _ _ _ S I) as [A1 I1]. destruct (IH _ _ _ R I1) as [A2 I2]. split; [|exact I2].
    cbn [map fst]. eapply srel_trans.
    + eapply srel_mono; [apply Qany_here|exact A1].
    + eapply srel_mono; [apply Qany_later|exact A2].
Qed.

Lemma hinv_h0 s : hinv (h0 s). Proof. split; apply cache_ok_nil. Qed.

Lemma hstep_clean k top h h' : hstep k top h = (h', None) -> cleanR k (h_store h') top.
Proof.
  unfold hstep. intros H.
  destruct (svisit (fuel_of (h_store h)) k (h_store h) {| cache := cache_of k h; next := h_next h |} top) as [[s' st'] e'] eqn:V.
  inversion H; subst. cbn [h_store]. eapply svisit_clean; eauto.
Qed.

Lemma hstep_total k top h h' e : hstep k top h = (h', e) -> wf (h_store h) -> (top < length (h_store h))%nat -> benign e.
Proof.
  unfold hstep. intros H W L.
  pose proof (svisit_total k (fuel_of (h_store h)) (h_store h) {| cache := cache_of k h; next := h_next h |} top W
                ltac:(unfold fuel_of; lia) L) as B.
  destruct (svisit (fuel_of (h_store h)) k (h_store h) {| cache := cache_of k h; next := h_next h |} top) as [[s' st'] e'].
  inversion H; subst. exact B.
Qed.

Lemma hstep_err k top h h' e : hstep k top h = (h', Some (SE e)) -> failing k (h_store h) top e.
Proof.
  unfold hstep. intros H.
  destruct (svisit (fuel_of (h_store h)) k (h_store h) {| cache := cache_of k h; next := h_next h |} top) as [[s' st'] e'] eqn:V.
  inversion H; subst. eapply svisit_err; eauto.
Qed.

(* a compilation that returns: every mapped request below `top` was one the selection accepts *)
Lemma hstep_ok_requests k top h h' : hstep k top h = (h', None) -> hinv h ->
  forall j n c p prm g, reach (h_store h) top j -> In (n, c, SPrim p prm) (mod_insts (h_store h) j) -> group_of k p = Some g ->
  exists cl, conv_g k g prm = SOk (c_spec cl) /\ In (n, c, SCall cl) (mod_insts (h_store h') j).
Proof.
  intros H I j n c p prm g R HI G. destruct (hstep_rel _ _ _ _ _ H I) as [A _]. pose proof (hstep_clean _ _ _ _ H) as C.
  destruct (F2_In_l _ _ _ (srel_insts _ _ _ j A) _ HI) as [[[n' c'] t'] [HI' [E T]]]. cbn in E, T. inversion E; subst.
  destruct T as [Eq|(p' & prm' & cl & E1 & E2 & (g' & G' & S))].
  - subst. pose proof (C j (srel_reach_l _ _ _ A _ _ R) _ HI') as Cl. cbn in Cl. rewrite G in Cl. discriminate.
  - inversion E1; subst. rewrite G in G'. inversion G'; subst. exists cl. split; [exact S|exact HI'].
Qed.
