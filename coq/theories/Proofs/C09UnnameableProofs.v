(* Proofs/C09UnnameableProofs.v — parameter values without a JSON form on the concrete universe (Model/GenUniverse.v):
   naming such a parameter set raises, a call whose own result would have to be named by it can never complete, and
   the unique-name theorem of the hashed form carries over to histories with refused calls. *)
Require Import Hdl21.Base.PyInt Hdl21.Model.ParamName Hdl21.Model.GenCache Hdl21.Model.C09GenFail Hdl21.Model.GenUniverse
               Hdl21.Proofs.ParamNameProofs Hdl21.Proofs.GenCacheProofs Hdl21.Proofs.NamingProofs Hdl21.Proofs.C09FailProofs.
From Coq Require Import String Ascii.
Open Scope string_scope.

(* a name is only ever computed for a parameter set without such objects, and is then the name of Model/ParamName.v
   (so that the injectivity theorems about unique_name apply to every name that exists) *)
Lemma unique_name_f_ok fs vs u : unique_name_f fs vs = Ok u -> existsb has_obj vs = false /\ unique_name fs vs = Ok u.
Proof. unfold unique_name_f. destruct (existsb has_obj vs); [discriminate|auto]. Qed.

Lemma unique_name_f_refuses fs vs : existsb has_obj vs = true -> unique_name_f fs vs = Error EName.
Proof. unfold unique_name_f. intros ->. reflexivity. Qed.

Lemma unnameable_suffix_none U k : existsb has_obj (snd k) = true -> suffix_opt_of U k = None.
Proof. intros H. unfold suffix_opt_of, uname_of. rewrite (unique_name_f_refuses _ _ H). reflexivity. Qed.

Lemma key_with_obj_has_params U c k : mk_key U c = Ok k -> existsb has_obj (snd k) = true -> has_params_of U k = true.
Proof.
  intros M H. pose proof (mk_key_typed _ _ _ M) as Ty. unfold has_params_of.
  destruct (g_fields (gen_of U k)) as [|f fs]; [|reflexivity].
  simpl in Ty. rewrite (typed_all_nil _ Ty) in H. discriminate.
Qed.

(* a call of a generator that builds its own module, with an object without a JSON form anywhere in its parameters
   (nested param-classes included), is doomed: whatever the history, it never completes *)
Lemma unnameable_doomed U T c k o : mk_key U c = Ok k -> existsb has_obj (snd k) = true ->
  b_ret (prog_of U T k) = RFresh o -> Doomed (prog_of U T) (has_params_of U) (suffix_opt_of U) k.
Proof.
  intros M H R. eapply D_name; [exact R|]. unfold name_ok.
  rewrite (key_with_obj_has_params _ _ _ M H), (unnameable_suffix_none _ _ H). reflexivity.
Qed.

(* ---------- unique names in histories with refused calls (relative to the md5 / json premises of NamingProofs) ---------- *)
Section HashedF.
Variable md5hex : string -> string.
Variable json : list field -> list pval -> string.
Hypothesis md5_collision_free : forall a b, md5hex a = md5hex b -> a = b.
Hypothesis md5_hex : forall a, has_char "=" (md5hex a) = false.
Hypothesis json_injective : forall fs vs ws,
  typed_all (map f_dtype fs) vs = true -> typed_all (map f_dtype fs) ws = true -> json fs vs = json fs ws -> vs = ws.
Variable U : list gen.
Variable T : list entry.

(* _unique_name with the digest: raises on a parameter set that holds an object without a JSON form *)
Definition suffix_hopt (k : key) : option string :=
  if existsb has_obj (snd k) then None else Some (suffix_h md5hex json U k).

Definition hist_fh := hist_f key_eqb (prog_of U T) (gen_name_of U) (has_params_of U) suffix_hopt StoreNamed.

Lemma cname_hopt c : name_ok (has_params_of U) suffix_hopt c = true ->
  created_name (prog_of U T) (gen_name_of U) (has_params_of U) (sfx suffix_hopt) c = cname_h md5hex json U T c.
Proof.
  unfold name_ok, cname_h, created_name, fresh_name, sfx, suffix_hopt. intros H.
  destruct (b_ret (prog_of U T c)); [|reflexivity].
  destruct (has_params_of U c); [|reflexivity]. simpl in H.
  destruct (existsb has_obj (snd c)); [discriminate|reflexivity].
Qed.

Lemma design_names_unique_f fuel ks st os m1 m2 g1 g2 : hist_fh fuel ks = (st, os) ->
  creators_ok U T (map m_creator (heap st)) ->
  nth_error (heap st) m1 = Some g1 -> nth_error (heap st) m2 = Some g2 -> m_name g1 = m_name g2 -> m1 = m2.
Proof.
  intros H C G1 G2 E.
  destruct (histf_inv key key_eqb key_eqb_eq _ _ _ _ _ _ _ _ H) as [I _].
  eapply (heap_names_uniqueF key key_eqb key_eqb_eq); try eassumption.
  intros c1 c2 I1 I2 Ec.
  assert (forall c, In c (map m_creator (heap st)) -> name_ok (has_params_of U) suffix_hopt c = true) as OK.
  { intros c Hc. apply in_map_iff in Hc. destruct Hc as [g [<- Hg]]. apply In_nth_error in Hg. destruct Hg as [n Hn].
    destruct (F_name _ _ _ _ _ _ _ I _ _ Hn) as [_ [Q _]]. exact Q. }
  rewrite (cname_hopt _ (OK _ I1)), (cname_hopt _ (OK _ I2)) in Ec.
  eapply (cname_injective md5hex json md5_collision_free md5_hex json_injective U T); eassumption.
Qed.
End HashedF.
