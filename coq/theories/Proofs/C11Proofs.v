(* Proofs/C11Proofs.v — lemmas of C11 (round trip through from_proto). *)
Require Import Hdl21.Base.PyInt Hdl21.Spec.PySlice Hdl21.Model.Slice Hdl21.Model.Resolve Hdl21.Base.Design
               Hdl21.Base.Package Hdl21.Base.Dec Hdl21.Model.C11RoundTrip.
Require Import Hdl21Gen.PrefixTable Hdl21Gen.PrefixMaps Hdl21Gen.Primitives Hdl21Gen.C11Maps.
From Coq Require Import String Ascii.
Open Scope string_scope.
Open Scope Z_scope.

(* ------------------------------------------------------------------------------------------ generic *)
Lemma smem_In s l : smem s l = true <-> In s l.
Proof.
  unfold smem. rewrite existsb_exists. split.
  - intros [x [Hx E]]. apply String.eqb_eq in E. subst. exact Hx.
  - intros H. exists s. split; [exact H | apply String.eqb_refl].
Qed.

Lemma traverse_map_ok {A B} (f : A -> result B) (g : A -> B) l :
  (forall x, In x l -> f x = Ok (g x)) -> traverse f l = Ok (map g l).
Proof.
  induction l as [|x xs IH]; intros H; simpl; [reflexivity|].
  rewrite (H x (or_introl eq_refl)). simpl. rewrite IH by (intros y Hy; apply H; right; exact Hy). reflexivity.
Qed.

Lemma traverse_id {A} (f : A -> result A) l : (forall x, In x l -> f x = Ok x) -> traverse f l = Ok l.
Proof. intros H. rewrite (traverse_map_ok f (fun x => x)) by exact H. rewrite map_id. reflexivity. Qed.

Lemma assoc_In {A} k (v : A) l : snodup (map fst l) = true -> In (k, v) l -> assoc k l = Some v.
Proof.
  induction l as [|[k' v'] l IH]; simpl; intros N H; [tauto|].
  apply andb_true_iff in N. destruct N as [N1 N2].
  destruct H as [H|H].
  - inversion H; subst. rewrite String.eqb_refl. reflexivity.
  - destruct (String.eqb k k') eqn:E.
    + apply String.eqb_eq in E. subst k'. apply negb_true_iff in N1.
      assert (smem k (map fst l) = true) as C by (apply smem_In; apply (in_map fst) in H; exact H).
      congruence.
    + apply IH; assumption.
Qed.

(* a boolean check of "b = f a and a = g b" lifted to an existential statement *)
Definition rt_ok (ex im : string -> result string) (a : string) : bool :=
  match ex a with Ok b => match im b with Ok a' => String.eqb a a' | Error _ => false end | Error _ => false end.

Lemma rt_ok_spec ex im a : rt_ok ex im a = true -> exists b, ex a = Ok b /\ im b = Ok a.
Proof.
  unfold rt_ok. destruct (ex a) as [b|] eqn:E1; [|discriminate]. destruct (im b) as [a'|] eqn:E2; [|discriminate].
  intros H. apply String.eqb_eq in H. subst a'. exists b. split; [reflexivity | exact E2].
Qed.

Lemma rt_all_spec ex im l : forallb (rt_ok ex im) l = true -> forall a, In a l -> exists b, ex a = Ok b /\ im b = Ok a.
Proof. intros H a Ha. rewrite forallb_forall in H. apply rt_ok_spec. apply H. exact Ha. Qed.

(* ------------------------------------------------------------------------------------------ enumerations *)
Lemma dir_roundtrip d : In d portdir_names -> exists v, export_dir d = Ok v /\ import_dir v = Ok d.
Proof. apply rt_all_spec. vm_compute. reflexivity. Qed.

Lemma dir_roundtrip_back v : In v direction_names -> exists d, import_dir v = Ok d /\ export_dir d = Ok v.
Proof. apply (rt_all_spec import_dir export_dir). vm_compute. reflexivity. Qed.

Lemma spicetype_roundtrip s : In s spicetype_names -> exists v, export_spicetype s = Ok v /\ import_spicetype v = Ok s.
Proof. apply rt_all_spec. vm_compute. reflexivity. Qed.

Lemma spicetype_roundtrip_back v : In v schema_spicetype_names -> exists s, import_spicetype v = Ok s /\ export_spicetype s = Ok v.
Proof. apply (rt_all_spec import_spicetype export_spicetype). vm_compute. reflexivity. Qed.

(* prefixes: the Prefix enumeration (name, exponent) through export_prefix and back *)
Definition prefix_rt_ok (ne : string * Z) : bool :=
  match export_prefix (snd ne) with
  | Ok v => match import_prefix v with Ok e => e =? snd ne | Error _ => false end
  | Error _ => false
  end.

Lemma prefix_roundtrip nm e : In (nm, e) prefix_table -> exists v, export_prefix e = Ok v /\ import_prefix v = Ok e.
Proof.
  assert (forallb prefix_rt_ok prefix_table = true) as H by (vm_compute; reflexivity).
  rewrite forallb_forall in H. intros Hin. specialize (H _ Hin). unfold prefix_rt_ok in H. simpl in H.
  destruct (export_prefix e) as [v|]; [|discriminate]. destruct (import_prefix v) as [e'|] eqn:E; [|discriminate].
  apply Z.eqb_eq in H. subst e'. exists v. split; [reflexivity | exact E].
Qed.

Definition siprefix_rt_ok (v : string) : bool :=
  match import_prefix v with
  | Ok e => match export_prefix e with Ok v' => String.eqb v v' | Error _ => false end
  | Error _ => false
  end.

Lemma prefix_roundtrip_back v : In v siprefix_names -> exists e, import_prefix v = Ok e /\ export_prefix e = Ok v.
Proof.
  assert (forallb siprefix_rt_ok siprefix_names = true) as H by (vm_compute; reflexivity).
  rewrite forallb_forall in H. intros Hin. specialize (H _ Hin). unfold siprefix_rt_ok in H.
  destruct (import_prefix v) as [e|]; [|discriminate]. destruct (export_prefix e) as [v'|] eqn:E; [|discriminate].
  apply String.eqb_eq in H. subst v'. exists e. split; [reflexivity | exact E].
Qed.

Lemma prefix_counts : List.length prefix_table = 21%nat /\ List.length siprefix_names = 21%nat /\
                      snodup (map fst prefix_table) = true /\ snodup siprefix_names = true.
Proof. vm_compute. repeat split; reflexivity. Qed.

(* two association tables that are inverse to each other *)
Definition inverse_tables (ab ba : list (string * string)) : bool :=
  forallb (fun p : string * string => match assoc (snd p) ba with Some a => String.eqb (fst p) a | None => false end) ab.

Lemma inverse_tables_spec ab ba : inverse_tables ab ba = true -> forall a b, In (a, b) ab -> assoc b ba = Some a.
Proof.
  unfold inverse_tables. rewrite forallb_forall. intros H a b Hin. specialize (H _ Hin). simpl in H.
  destruct (assoc b ba) as [a'|]; [|discriminate]. apply String.eqb_eq in H. subst. reflexivity.
Qed.

Lemma prim_map_inverse :
  (forall h v, In (h, v) prim_map_export -> assoc v prim_map_import = Some h) /\
  (forall v h, In (v, h) prim_map_import -> assoc h prim_map_export = Some v).
Proof. split; apply inverse_tables_spec; vm_compute; reflexivity. Qed.

(* every IDEAL primitive of the library has a VLSIR name; every look-up the importer makes finds the primitive of that name *)
Lemma prim_map_total : forallb (fun e : string * string * list (string * Z) =>
    negb (String.eqb (snd (fst e)) "IDEAL") || match assoc (fst (fst e)) prim_map_export with Some _ => true | None => false end) primitives = true.
Proof. vm_compute. reflexivity. Qed.

Lemma prim_lookups_identity : forallb (fun p : string * string => String.eqb (fst p) (snd p)) prim_lookups = true.
Proof. vm_compute. reflexivity. Qed.

Lemma pulse_rename_inverse :
  (forall vn f, In (vn, f) pulse_export -> assoc f pulse_import = Some vn) /\
  (forall f vn, In (f, vn) pulse_import -> assoc vn pulse_export = Some f).
Proof. split; apply inverse_tables_spec; vm_compute; reflexivity. Qed.

(* the renaming covers every field of the pulse source's parameter class, once *)
Definition pulse_fields : list string :=
  match find_prim pulse_prim prim_fields with Some (_, fl) => map (fun f : string * string * bool * bool => fst (fst (fst f))) fl | None => [] end.

Lemma pulse_rename_covers :
  pulse_fields <> [] /\
  forallb (fun f => smem f (map snd pulse_export) && smem f (map fst pulse_import)) pulse_fields = true /\
  List.length pulse_export = List.length pulse_fields /\ List.length pulse_import = List.length pulse_fields /\
  snodup (map fst pulse_export) = true /\ snodup (map snd pulse_export) = true /\
  snodup (map fst pulse_import) = true /\ snodup (map snd pulse_import) = true.
Proof. vm_compute. repeat split; try reflexivity. discriminate. Qed.

(* ------------------------------------------------------------------------------------------ connection targets *)
(* the image of export_connection_target after slice resolution: signals, proper (not full-width) in-range slices of
   signals, and non-empty concatenations of those *)
Definition flat_normal (sigs : list (name * Z)) (t : ptarget) : bool :=
  match t with
  | PSig s => match assoc s sigs with Some w => 1 <=? w | None => false end
  | PSlice s tp bt =>
      match assoc s sigs with
      | Some w => (0 <=? bt) && (bt <=? tp) && (tp <? w) && negb ((bt =? 0) && (tp =? w - 1))
      | None => false
      end
  | PConcat _ => false
  end.

Definition target_normal (sigs : list (name * Z)) (t : ptarget) : bool :=
  match t with
  | PConcat [] => false
  | PConcat ps => forallb (flat_normal sigs) ps
  | _ => flat_normal sigs t
  end.

Lemma index_of_nth s l : forall k id, index_of s l k = Some id ->
  exists n, id = (k + N.of_nat n)%N /\ nth_error (map fst l) n = Some s.
Proof.
  induction l as [|[s' w] l IH]; simpl; intros k id H; [discriminate|].
  destruct (String.eqb s s') eqn:E.
  - inversion H; subst. apply String.eqb_eq in E. subst. exists 0%nat. split; [lia | reflexivity].
  - apply IH in H. destruct H as [n [-> Hn]]. exists (S n). split; [lia | exact Hn].
Qed.

Lemma assoc_index_of {A} s (l : list (name * A)) (w : A) : assoc s l = Some w ->
  forall (l' : list (name * Z)), map fst l' = map fst l -> forall k, exists id, index_of s l' k = Some id.
Proof.
  induction l as [|[s' w'] l IH]; simpl; intros H l' Hl k; [discriminate|].
  destruct l' as [|[s'' w''] l']; [discriminate|]. simpl in Hl. inversion Hl; subst. simpl.
  destruct (String.eqb s s'); [eexists; reflexivity|]. apply IH; assumption.
Qed.

Lemma sig_name_index s sigs id : index_of s sigs 0%N = Some id -> sig_name sigs id = Ok s.
Proof.
  intros H. apply index_of_nth in H. destruct H as [n [-> Hn]]. unfold sig_name.
  replace (N.to_nat (0 + N.of_nat n)) with n by lia. rewrite Hn. reflexivity.
Qed.

Lemma slice_inner_unit w bt tp : 0 <= bt -> bt <= tp -> tp < w ->
  slice_inner w (Sl (Some bt) (Some (tp + 1)) None) = Ok {| top := tp + 1; bot := bt; step := 1; width := tp - bt + 1 |}.
Proof.
  intros H1 H2 H3. unfold slice_inner, step_of, py_start_stop, norm_pos, clamp, py_len.
  change (1 =? 0) with false. change (0 <? 1) with true. cbv iota.
  assert (bt <? 0 = false) as -> by lia. assert (tp + 1 <? 0 = false) as -> by lia.
  replace (Z.max 0 (Z.min w bt)) with bt by lia. replace (Z.max 0 (Z.min w (tp + 1))) with (tp + 1) by lia.
  assert (bt <? tp + 1 = true) as -> by lia. rewrite Z.div_1_r.
  assert (tp + 1 - bt - 1 + 1 <? 1 = false) as -> by lia.
  f_equal. f_equal; lia.
Qed.

(* one flat part: import, resolution and export *)
Lemma flat_roundtrip sigs p : flat_normal sigs p = true ->
  exists x f, import_target sigs p = Ok x /\ list_flat x = Ok [f] /\ resolve x = Ok (RSingle f) /\ export_flat sigs f = Ok p.
Proof.
  destruct p as [s|s tp bt|ps]; simpl; [| |discriminate].
  - destruct (assoc s sigs) as [w|] eqn:Ea; [|discriminate]. intros Hw.
    destruct (assoc_index_of s sigs w Ea sigs eq_refl 0%N) as [id Hid]. rewrite Hid. simpl.
    exists (XSig id w), (FSig id w). simpl. assert (w <? 1 = false) as -> by lia.
    rewrite (sig_name_index _ _ _ Hid). simpl. repeat split; reflexivity.
  - destruct (assoc s sigs) as [w|] eqn:Ea; [|discriminate]. intros H.
    destruct (assoc_index_of s sigs w Ea sigs eq_refl 0%N) as [id Hid]. rewrite Hid. simpl.
    apply andb_true_iff in H. destruct H as [H Hfull]. apply andb_true_iff in H. destruct H as [H H3].
    apply andb_true_iff in H. destruct H as [H1 H2]. apply negb_true_iff in Hfull.
    assert (0 <= bt) by lia. assert (bt <= tp) by lia. assert (tp < w) by lia.
    exists (XSlice (XSig id w) (Sl (Some bt) (Some (tp + 1)) None)), (FSl id w bt (tp + 1)).
    assert (list_flat (XSlice (XSig id w) (Sl (Some bt) (Some (tp + 1)) None)) = Ok [FSl id w bt (tp + 1)]) as LF.
    { cbn [list_flat xwidth]. assert (w <? 1 = false) as -> by lia. cbn [bind].
      rewrite slice_inner_unit by assumption. cbn [bind step width top bot is_sig].
      change (1 =? 1) with true. cbn [andb].
      assert (tp - bt + 1 =? w = false) as -> by lia. reflexivity. }
    split; [reflexivity|]. split; [exact LF|]. split.
    + unfold resolve. rewrite LF. reflexivity.
    + cbn [export_flat]. rewrite (sig_name_index _ _ _ Hid). cbn [bind]. replace (tp + 1 - 1) with tp by lia. reflexivity.
Qed.

Lemma cat_results_app {A} (a b : list (result (list A))) x y :
  cat_results a = Ok x -> cat_results b = Ok y -> cat_results (a ++ b)%list = Ok (x ++ y)%list.
Proof.
  revert x. induction a as [|r a IH]; simpl; intros x Ha Hb.
  - inversion Ha; subst. exact Hb.
  - destruct r as [l|]; simpl in *; [|discriminate]. destruct (cat_results a) as [la|] eqn:E; simpl in *; [|discriminate].
    inversion Ha; subst. rewrite (IH la eq_refl Hb). simpl. rewrite app_assoc. reflexivity.
Qed.

Lemma traverse_app {A B} (f : A -> result B) a b x y :
  traverse f a = Ok x -> traverse f b = Ok y -> traverse f (a ++ b)%list = Ok (x ++ y)%list.
Proof.
  revert x. induction a as [|r a IH]; simpl; intros x Ha Hb.
  - inversion Ha; subst. exact Hb.
  - destruct (f r) as [l|]; simpl in *; [|discriminate]. destruct (traverse f a) as [la|] eqn:E; simpl in *; [|discriminate].
    inversion Ha; subst. rewrite (IH la eq_refl Hb). reflexivity.
Qed.

(* a list of flat parts: imported in order, flattened and exported after reversal *)
Lemma parts_roundtrip sigs ps : forallb (flat_normal sigs) ps = true ->
  exists xs fs, seq_results (map (import_target sigs) ps) = Ok xs /\
                cat_results (map list_flat (rev xs)) = Ok (rev fs) /\
                traverse (export_flat sigs) (rev fs) = Ok (rev ps) /\ List.length xs = List.length ps.
Proof.
  induction ps as [|p ps IH]; simpl; intros H.
  - exists [], []. repeat split; reflexivity.
  - apply andb_true_iff in H. destruct H as [Hp Hps].
    destruct (flat_roundtrip sigs p Hp) as [x [f [Hi [Hl [_ He]]]]].
    destruct (IH Hps) as [xs [fs [Hs [Hc [Ht Hlen]]]]].
    exists (x :: xs), (f :: fs). rewrite Hi, Hs. simpl. split; [reflexivity|]. split; [|split].
    + rewrite map_app. apply cat_results_app; [exact Hc|]. simpl. rewrite Hl. reflexivity.
    + apply traverse_app; [exact Ht|]. simpl. rewrite He. reflexivity.
    + rewrite Hlen. reflexivity.
Qed.

Lemma target_roundtrip sigs t : target_normal sigs t = true -> rt_target sigs t = Ok t.
Proof.
  destruct t as [s|s tp bt|ps].
  - intros H. destruct (flat_roundtrip sigs (PSig s) H) as [x [f [Hi [_ [Hr He]]]]].
    unfold rt_target. rewrite Hi. cbn [bind]. rewrite Hr. cbn [bind export_resolved_r]. exact He.
  - intros H. destruct (flat_roundtrip sigs (PSlice s tp bt) H) as [x [f [Hi [_ [Hr He]]]]].
    unfold rt_target. rewrite Hi. cbn [bind]. rewrite Hr. cbn [bind export_resolved_r]. exact He.
  - destruct ps as [|p ps]; [discriminate|]. intros H.
    change (forallb (flat_normal sigs) (p :: ps) = true) in H.
    destruct (parts_roundtrip sigs (p :: ps) H) as [xs [fs [Hs [Hc [Ht Hlen]]]]].
    unfold rt_target. cbn [import_target]. rewrite Hs. cbn [bind].
    assert (rev xs <> []) as Hne.
    { intros C. apply (f_equal (@List.length sx)) in C. rewrite rev_length, Hlen in C. simpl in C. discriminate. }
    unfold resolve. destruct (rev xs) as [|y ys] eqn:Er; [congruence|].
    change (list_flat (XConcat (y :: ys))) with (cat_results (map list_flat (y :: ys))).
    rewrite Hc. cbn [bind export_resolved_r]. rewrite Ht. cbn [bind]. rewrite rev_involutive. reflexivity.
Qed.

(* ------------------------------------------------------------------------------------------ parameter values *)
(* the image of export_param_value: int64 integers, doubles, literals, prefixed numbers that are int64 integers or
   non-integral decimals.  (string_value is never written; a VStr comes back as a literal.) *)
Definition num_normal (n : pnum) : bool :=
  match n with
  | NInt z => in_i64 z
  | NDec d => negb (dec_is_int d)
  | _ => false
  end.

Definition value_normal (v : pvalue) : bool :=
  match v with
  | VInt z => in_i64 z
  | VDbl _ => true
  | VLit _ => true
  | VPre p n => smem p siprefix_names && num_normal n
  | VStr _ | VUnset => false
  end.

Lemma pow10_0 : pow10 0 = 1.
Proof. rewrite pow10_spec. reflexivity. Qed.

Lemma num_roundtrip_int z e p : in_i64 z = true -> export_prefix e = Ok p ->
  export_value (HPre (of_int z 0) e) = Ok (Some (VPre p (NInt z))).
Proof.
  intros Hz Hp. cbn [export_value]. rewrite Hp. cbn [bind]. unfold export_num, dec_is_int.
  rewrite dexp_of_int. change (0 <=? 0) with true. cbv iota.
  unfold dtrunc. rewrite dexp_of_int. change (0 <=? 0) with true. cbv iota. rewrite dint_of_int, pow10_0, Z.mul_1_r.
  rewrite Hz. reflexivity.
Qed.

Lemma value_roundtrip v : value_normal v = true -> rt_value v = Ok v.
Proof.
  destruct v as [z|h|s|s|p n|]; intros H; cbn [value_normal] in H; try discriminate.
  - unfold rt_value. cbn [import_value bind export_value]. rewrite H. reflexivity.
  - reflexivity.
  - reflexivity.
  - apply andb_true_iff in H. destruct H as [Hp Hn]. apply smem_In in Hp.
    destruct (prefix_roundtrip_back p Hp) as [e [Hi He]].
    unfold rt_value. cbn [import_value]. rewrite Hi. cbn [bind].
    destruct n as [z|h|d|s|]; cbn [num_normal] in Hn; try discriminate.
    + cbn [bind]. rewrite (num_roundtrip_int z e p Hn He). reflexivity.
    + cbn [bind export_value]. rewrite He. cbn [bind]. unfold export_num. apply negb_true_iff in Hn. rewrite Hn. reflexivity.
Qed.

Definition dict_params_normal (ps : params) : bool :=
  snodup (map fst ps) && forallb (fun kv : name * pvalue => value_normal (snd kv)) ps.

Lemma dict_params_roundtrip ps : dict_params_normal ps = true -> rt_dict_params ps = Ok ps.
Proof.
  unfold dict_params_normal, rt_dict_params. intros H. apply andb_true_iff in H. destruct H as [H1 H2].
  rewrite H1. cbn [chk bind]. apply traverse_id. intros [k v] Hin. rewrite forallb_forall in H2.
  specialize (H2 _ Hin). simpl in *. rewrite (value_roundtrip v H2). reflexivity.
Qed.

(* ------------------------------------------------------------------------------------------ names *)
Lemma split_dot_nonempty s : split_dot s <> [].
Proof. destruct s as [|c s]; simpl; [discriminate|]. destruct (Ascii.eqb c "."); [discriminate|]. destruct (split_dot s); discriminate. Qed.

Lemma join_cons p l : l <> [] -> join_dot (p :: l) = p ++ String "." (join_dot l).
Proof. destruct l; [congruence | reflexivity]. Qed.

Lemma name_roundtrip s : rt_name s = s.
Proof.
  unfold rt_name. induction s as [|c s IH]; [reflexivity|]. cbn [split_dot].
  destruct (Ascii.eqb c ".") eqn:E.
  - apply Ascii.eqb_eq in E. subst c. rewrite join_cons by apply split_dot_nonempty. rewrite IH. reflexivity.
  - pose proof (split_dot_nonempty s) as N. destruct (split_dot s) as [|p ps] eqn:Es; [congruence|].
    rewrite <- IH. destruct ps as [|q qs]; reflexivity.
Qed.

(* ------------------------------------------------------------------------------------------ signals and ports *)
Definition isp (ports : list (name * string)) (sw : name * Z) : bool :=
  match assoc (fst sw) ports with Some _ => true | None => false end.
Definition idir (d : string) : string := match import_dir d with Ok x => x | Error _ => d end.
Definition hsig_of (ports : list (name * string)) (sw : name * Z) : hsignal :=
  {| hs_name := fst sw; hs_width := snd sw; hs_dir := option_map idir (assoc (fst sw) ports) |}.
Definition dir_of (ports : list (name * string)) (n : name) : string := match assoc n ports with Some d => d | None => "" end.

Definition ports_ok (sigs : list (name * Z)) (ports : list (name * string)) : bool :=
  snodup (map fst sigs) && snodup (map fst ports) && forallb (fun p : name * string => smem (fst p) (map fst sigs)) ports &&
  forallb (fun p : name * string => smem (snd p) direction_names) ports.

Lemma assoc_Some_In {A} k (v : A) l : assoc k l = Some v -> In (k, v) l.
Proof.
  induction l as [|[k' v'] l IH]; simpl; [discriminate|]. destruct (String.eqb k k') eqn:E.
  - intros H. inversion H; subst. apply String.eqb_eq in E. subst. left. reflexivity.
  - intros H. right. apply IH. exact H.
Qed.

Lemma traverse_map_in {A B C} (f : B -> result C) (g : A -> B) (k : A -> C) l :
  (forall x, In x l -> f (g x) = Ok (k x)) -> traverse f (map g l) = Ok (map k l).
Proof.
  induction l as [|x xs IH]; intros H; simpl; [reflexivity|].
  rewrite (H x (or_introl eq_refl)). simpl. rewrite IH by (intros y Hy; apply H; right; exact Hy). reflexivity.
Qed.

Lemma filter_map_comm {A B} (p : B -> bool) (q : A -> bool) (g : A -> B) l :
  (forall x, p (g x) = q x) -> filter p (map g l) = map g (filter q l).
Proof. intros H. induction l as [|x xs IH]; simpl; [reflexivity|]. rewrite H. destruct (q x); simpl; rewrite IH; reflexivity. Qed.

Lemma import_sigs_ok sigs ports : ports_ok sigs ports = true -> import_sigs sigs ports = Ok (map (hsig_of ports) sigs).
Proof.
  unfold ports_ok, import_sigs. intros H. apply andb_true_iff in H. destruct H as [H H4].
  apply andb_true_iff in H. destruct H as [H H3]. apply andb_true_iff in H. destruct H as [H1 H2].
  rewrite H1, H2, H3. cbn [chk bind]. apply traverse_map_ok. intros sw Hin. unfold hsig_of.
  destruct (assoc (fst sw) ports) as [d|] eqn:Ea; [|reflexivity].
  apply assoc_Some_In in Ea. rewrite forallb_forall in H4. specialize (H4 _ Ea). cbn [snd] in H4. apply smem_In in H4.
  destruct (dir_roundtrip_back d H4) as [x [Hi _]]. cbn [option_map]. unfold idir. rewrite Hi. reflexivity.
Qed.

Lemma is_port_hsig ports sw : is_port (hsig_of ports sw) = isp ports sw.
Proof. unfold is_port, hsig_of, isp. simpl. destruct (assoc (fst sw) ports); reflexivity. Qed.

Lemma export_ports_ok sigs ports : ports_ok sigs ports = true ->
  export_ports (map (hsig_of ports) sigs) = Ok (map (fun sw : name * Z => (fst sw, dir_of ports (fst sw))) (filter (isp ports) sigs)).
Proof.
  intros H. unfold export_ports. rewrite (filter_map_comm _ (isp ports)) by (apply is_port_hsig).
  apply traverse_map_in. intros sw Hin. apply filter_In in Hin. destruct Hin as [_ Hp].
  unfold isp in Hp. unfold hsig_of, dir_of. cbn [hs_dir hs_name].
  destruct (assoc (fst sw) ports) as [d|] eqn:Ea; [|discriminate]. cbn [option_map].
  unfold ports_ok in H. apply andb_true_iff in H. destruct H as [_ H4].
  apply assoc_Some_In in Ea. rewrite forallb_forall in H4. specialize (H4 _ Ea). cbn [snd] in H4. apply smem_In in H4.
  destruct (dir_roundtrip_back d H4) as [x [Hi He]]. unfold idir. rewrite Hi, He. reflexivity.
Qed.

Lemma ports_rebuild (ports : list (name * string)) : snodup (map fst ports) = true ->
  map (fun n => (n, dir_of ports n)) (map fst ports) = ports.
Proof.
  intros N. rewrite map_map. rewrite <- (map_id ports) at 2. apply map_ext_in. intros [n d] Hin. simpl.
  unfold dir_of. rewrite (assoc_In n d ports N Hin). reflexivity.
Qed.

Fixpoint slist_eqb (a b : list string) : bool :=
  match a, b with
  | [], [] => true
  | x :: a', y :: b' => String.eqb x y && slist_eqb a' b'
  | _, _ => false
  end.
Lemma slist_eqb_eq a : forall b, slist_eqb a b = true -> a = b.
Proof.
  induction a as [|x a IH]; destruct b as [|y b]; simpl; try discriminate; [reflexivity|].
  intros H. apply andb_true_iff in H. destruct H as [H1 H2]. apply String.eqb_eq in H1. subst. f_equal. apply IH. exact H2.
Qed.

(* the ports of a normal module / external module come back as they were *)
Lemma export_ports_normal sigs ports : ports_ok sigs ports = true ->
  slist_eqb (map fst (filter (isp ports) sigs)) (map fst ports) = true ->
  export_ports (map (hsig_of ports) sigs) = Ok ports.
Proof.
  intros H E. rewrite (export_ports_ok sigs ports H). apply slist_eqb_eq in E.
  rewrite <- (map_map fst (fun n => (n, dir_of ports n))). rewrite E. rewrite ports_rebuild; [reflexivity|].
  unfold ports_ok in H. apply andb_true_iff in H. destruct H as [H _]. apply andb_true_iff in H. destruct H as [H _].
  apply andb_true_iff in H. destruct H as [_ H]. exact H.
Qed.

(* ------------------------------------------------------------------------------------------ external modules *)
Definition ext_normal (x : c11ext) : bool :=
  ports_ok (cx_sigs x) (cx_ports x) && forallb (isp (cx_ports x)) (cx_sigs x) &&
  slist_eqb (map fst (cx_sigs x)) (map fst (cx_ports x)) && smem (cx_spicetype x) schema_spicetype_names.

Lemma filter_all {A} (p : A -> bool) l : forallb p l = true -> filter p l = l.
Proof. induction l as [|x xs IH]; simpl; [reflexivity|]. intros H. apply andb_true_iff in H. destruct H as [H1 H2]. rewrite H1, IH by exact H2. reflexivity. Qed.

Lemma ext_roundtrip x : ext_normal x = true -> rt_ext x = Ok x.
Proof.
  unfold ext_normal. intros H. apply andb_true_iff in H. destruct H as [H Hs]. apply andb_true_iff in H. destruct H as [H He].
  apply andb_true_iff in H. destruct H as [Hp Ha]. unfold rt_ext.
  rewrite (import_sigs_ok _ _ Hp). cbn [bind].
  assert (forallb is_port (map (hsig_of (cx_ports x)) (cx_sigs x)) = true) as ->.
  { rewrite forallb_forall. intros h Hh. apply in_map_iff in Hh. destruct Hh as [sw [<- Hin]]. rewrite is_port_hsig.
    rewrite forallb_forall in Ha. apply Ha. exact Hin. }
  cbn [chk bind]. apply smem_In in Hs. destruct (spicetype_roundtrip_back _ Hs) as [st [Hi Hx]]. rewrite Hi. cbn [bind].
  rewrite export_ports_normal; [| exact Hp | rewrite (filter_all _ _ Ha); exact He]. cbn [bind]. rewrite Hx. cbn [bind].
  rewrite map_map. destruct x as [d n sg pt st']. cbn [cx_domain cx_name cx_sigs cx_ports cx_spicetype] in *.
  f_equal. f_equal. rewrite <- (map_id sg) at 2. apply map_ext. intros [a b]. reflexivity.
Qed.

(* ------------------------------------------------------------------------------------------ instances *)
Definition conns_normal (sigs : list (name * Z)) (ports : list string) (cs : list (name * ptarget)) : bool :=
  forallb (fun c : name * ptarget => smem (fst c) ports) cs && snodup (map fst cs) &&
  forallb (fun c : name * ptarget => target_normal sigs (snd c)) cs.

(* the reference and the parameters of an instance come back unchanged; `ports` are the port names of its target *)
Definition ref_roundtrips (exts : list c11ext) (earlier : list c11mod) (i : c11inst) (ports : list string) : Prop :=
  rt_ref exts earlier (ci_ref i) (ci_params i) = Ok (ci_ref i, ci_params i, ports).

Lemma inst_roundtrip exts earlier sigs i ports :
  ref_roundtrips exts earlier i ports -> conns_normal sigs ports (ci_conns i) = true -> rt_inst exts earlier sigs i = Ok i.
Proof.
  unfold ref_roundtrips, conns_normal, rt_inst. intros Hr H. apply andb_true_iff in H. destruct H as [H H3].
  apply andb_true_iff in H. destruct H as [H1 H2]. rewrite Hr. cbn [bind]. rewrite H1, H2. cbn [chk bind].
  rewrite (traverse_id _ (ci_conns i)).
  - cbn [bind]. destruct i; reflexivity.
  - intros [p t] Hin. rewrite forallb_forall in H3. specialize (H3 _ Hin). cbn [snd fst] in *.
    rewrite (target_roundtrip sigs t H3). reflexivity.
Qed.

(* instances of modules defined earlier in the package *)
Lemma ref_local_roundtrip exts earlier i nm m :
  ci_ref i = PLocal nm -> find_c11mod earlier nm = Some m -> ci_params i = [] ->
  ref_roundtrips exts earlier i (map fst (cm_ports m)).
Proof.
  intros Hr Hf Hp. unfold ref_roundtrips. rewrite Hr, Hp. cbn [rt_ref]. rewrite Hf. cbn [bind chk]. rewrite name_roundtrip. reflexivity.
Qed.

(* instances of external modules declared in the package *)
Definition is_prim_domain (dom : string) : bool :=
  String.eqb dom "vlsir.primitives" || String.eqb dom "hdl21.primitives" || String.eqb dom "hdl21.ideal".

Lemma ref_ext_roundtrip exts earlier i dom nm x :
  ci_ref i = PExt dom nm -> is_prim_domain dom = false -> find_c11ext exts dom nm = Some x ->
  dict_params_normal (ci_params i) = true -> ref_roundtrips exts earlier i (map fst (cx_sigs x)).
Proof.
  intros Hr Hd Hf Hp. unfold ref_roundtrips. rewrite Hr. cbn [rt_ref]. unfold is_prim_domain in Hd.
  apply orb_false_iff in Hd. destruct Hd as [Hd H3]. apply orb_false_iff in Hd. destruct Hd as [H1 H2].
  rewrite H1, H2, H3. cbn [orb]. rewrite Hf. cbn [bind]. rewrite (dict_params_roundtrip _ Hp). reflexivity.
Qed.

(* instances of primitives: the reference comes back for every primitive of the regenerated tables *)
Definition ideal_ref_ok (vh : string * string) : bool :=
  match lookup_prim (snd vh) with
  | Ok h => match export_prim_ref h with Ok r => pref_eqb r (PExt "vlsir.primitives" (fst vh)) | Error _ => false end
  | Error _ => false
  end.
Definition physical_ref_ok (e : string * string * list (string * string * bool * bool)) : bool :=
  negb (String.eqb (snd (fst e)) "PHYSICAL") ||
  match lookup_prim (fst (fst e)) with
  | Ok h => match export_prim_ref h with Ok r => pref_eqb r (PExt "hdl21.primitives" (fst (fst e))) | Error _ => false end
  | Error _ => false
  end.

Lemma prim_refs_roundtrip :
  forallb ideal_ref_ok prim_map_import = true /\ forallb physical_ref_ok prim_fields = true.
Proof. vm_compute. split; reflexivity. Qed.

(* ------------------------------------------------------------------------------------------ modules *)
Fixpoint pairs_eqb (a b : list (name * Z)) : bool :=
  match a, b with
  | [], [] => true
  | x :: a', y :: b' => String.eqb (fst x) (fst y) && (snd x =? snd y) && pairs_eqb a' b'
  | _, _ => false
  end.
Lemma pairs_eqb_eq a : forall b, pairs_eqb a b = true -> a = b.
Proof.
  induction a as [|[x1 x2] a IH]; destruct b as [|[y1 y2] b]; simpl; try discriminate; [reflexivity|].
  intros H. apply andb_true_iff in H. destruct H as [H H3]. apply andb_true_iff in H. destruct H as [H1 H2].
  apply String.eqb_eq in H1. apply Z.eqb_eq in H2. subst. f_equal. apply IH. exact H3.
Qed.

(* what the exporter writes for the signals of a module: internal signals first, then the ports in port order *)
Definition mod_sigs_normal (m : c11mod) : bool :=
  ports_ok (cm_sigs m) (cm_ports m) &&
  slist_eqb (map fst (filter (isp (cm_ports m)) (cm_sigs m))) (map fst (cm_ports m)) &&
  pairs_eqb ((filter (fun sw => negb (isp (cm_ports m) sw)) (cm_sigs m)) ++ filter (isp (cm_ports m)) (cm_sigs m))%list (cm_sigs m).

Definition mod_normal_head (earlier : list c11mod) (m : c11mod) : bool :=
  negb (existsb (fun m' => String.eqb (cm_name m') (cm_name m)) earlier) && mod_sigs_normal m && snodup (map ci_name (cm_insts m)).

Lemma mod_roundtrip exts earlier m :
  mod_normal_head earlier m = true ->
  (forall i, In i (cm_insts m) -> exists ports, ref_roundtrips exts earlier i ports /\ conns_normal (cm_sigs m) ports (ci_conns i) = true) ->
  rt_mod exts earlier m = Ok m.
Proof.
  unfold mod_normal_head, mod_sigs_normal. intros H Hi. apply andb_true_iff in H. destruct H as [H Hn].
  apply andb_true_iff in H. destruct H as [He H]. apply andb_true_iff in H. destruct H as [H Hs].
  apply andb_true_iff in H. destruct H as [Hp Hf].
  unfold rt_mod. rewrite He. cbn [chk bind]. rewrite (import_sigs_ok _ _ Hp). cbn [bind]. rewrite Hn. cbn [chk bind].
  rewrite (traverse_id _ (cm_insts m)).
  2:{ intros i Hin. destruct (Hi i Hin) as [ports [Hr Hc]]. apply (inst_roundtrip _ _ _ _ ports); assumption. }
  cbn [bind]. rewrite (export_ports_normal _ _ Hp Hf). cbn [bind]. rewrite name_roundtrip.
  rewrite (filter_map_comm _ (fun sw => negb (isp (cm_ports m) sw))) by (intros x; rewrite is_port_hsig; reflexivity).
  rewrite (filter_map_comm _ (isp (cm_ports m))) by (apply is_port_hsig).
  rewrite !map_map. cbn [hsig_of hs_name hs_width].
  assert (forall l : list (name * Z), map (fun x => (fst x, snd x)) l = l) as Hid.
  { intros l. rewrite <- (map_id l) at 2. apply map_ext. intros [a b]. reflexivity. }
  rewrite !Hid. apply pairs_eqb_eq in Hs. rewrite Hs. destruct m; reflexivity.
Qed.

(* ------------------------------------------------------------------------------------------ packages *)
Lemma rt_mods_roundtrip exts ms : forall earlier,
  (forall pre m post, ms = (pre ++ m :: post)%list -> rt_mod exts (earlier ++ pre)%list m = Ok m) ->
  rt_mods exts earlier ms = Ok ms.
Proof.
  induction ms as [|m ms IH]; intros earlier H; [reflexivity|]. cbn [rt_mods].
  pose proof (H [] m ms eq_refl) as H0. rewrite app_nil_r in H0. rewrite H0. cbn [bind].
  rewrite IH; [reflexivity|]. intros pre m' post E. specialize (H (m :: pre) m' post). rewrite <- app_assoc. apply H.
  rewrite E. reflexivity.
Qed.

Lemma pkg_roundtrip p :
  nodup_ext_names (ck_exts p) = true ->
  forallb ext_normal (ck_exts p) = true ->
  (forall pre m post, ck_mods p = (pre ++ m :: post)%list -> rt_mod (ck_exts p) pre m = Ok m) ->
  rt_pkg p = Ok p.
Proof.
  intros Hn He Hm. unfold rt_pkg. rewrite Hn. cbn [chk bind].
  rewrite (traverse_id rt_ext).
  2:{ intros x Hin. apply ext_roundtrip. rewrite forallb_forall in He. apply He. exact Hin. }
  cbn [bind]. rewrite rt_mods_roundtrip; [destruct p; reflexivity|]. intros pre m post E. apply (Hm pre m post). exact E.
Qed.

(* ------------------------------------------------------------------------------------------ primitive parameter schemas *)
(* table-level coherence of export order and parameter class, for every primitive: the exported names are distinct,
   the fields are distinct, and each field is exported exactly under the name the importer reads it from *)
Definition schema_coherent (sc : pschema) : bool :=
  snodup (map fst (sc_export sc)) && snodup (map snd (sc_export sc)) && snodup (map pf_name (sc_fields sc)) &&
  Nat.eqb (List.length (sc_export sc)) (List.length (sc_fields sc)) &&
  forallb (fun f => match assoc (pf_vname f) (sc_export sc) with Some fn => String.eqb fn (pf_name f) | None => false end) (sc_fields sc).

Lemma prim_schemas_coherent :
  forallb (fun e : string * string * list (string * string * bool * bool) =>
     match schema_of (fst (fst e)) with Ok sc => schema_coherent sc | Error _ => false end) prim_fields = true.
Proof. vm_compute. reflexivity. Qed.
