(* Proofs/C02EProofsNames.v — unnamed / name-clashing modules and the top index, for an ARBITRARY design the exporter accepted:
   export_module_name sees every module the depth-first walk reaches (dfs_closed: the walk is closed under "instantiates");
   when every module other than the top one is instantiated somewhere (all_used) and instantiation follows the listing order
   (hier_design), that is every module of the design; the rewriting passes keep what each module instantiates (same_targets)
   and the module names. *)
From Coq Require Import String.
Require Import Hdl21.Base.PyInt Hdl21.Spec.PySlice Hdl21.Model.Slice Hdl21.Model.Resolve Hdl21.Base.Design
               Hdl21.Spec.WfDesign Hdl21.Base.Package Hdl21.Model.C01EElab Hdl21.Model.C02EPipeline
               Hdl21.Proofs.C01EProofsBase Hdl21.Proofs.C01EProofsPass Hdl21.Proofs.C01EProofsNames Hdl21.Proofs.C01EProofsPortRefs
               Hdl21.Proofs.C01EProofsPortRefsD Hdl21.Proofs.C01EProofsArrays Hdl21.Proofs.C01EProofsSlices Hdl21.Proofs.C01EProofsDfs
               Hdl21.Proofs.C02EProofsBase Hdl21.Proofs.C02EProofsArrays.
Open Scope Z_scope.

(* ------------------------------------------------------------------------------------------ what a module instantiates *)
Definition same_targets (m m' : module) : Prop :=
  forall t, (exists x, In x (m_insts m) /\ i_of x = t) <-> (exists x', In x' (m_insts m') /\ i_of x' = t).

Lemma same_targets_Forall2 m m' : Forall2 (fun x x' => i_of x' = i_of x) (m_insts m) (m_insts m') -> same_targets m m'.
Proof.
  intros F t. split.
  - intros [x [Hx E]]. destruct (Forall2_In_l _ _ _ x F Hx) as [x' [Hx' Ho]]. exists x'. split; [exact Hx'|congruence].
  - intros [x' [Hx' E]]. destruct (Forall2_In_r _ _ _ x' F Hx') as [x [Hx Ho]]. exists x. split; [exact Hx|congruence].
Qed.

Lemma portrefs_targets d ncn m m' : portrefs_module d ncn m = Ok m' -> same_targets m m'.
Proof.
  intros H. destruct (portrefs_module_inv _ _ _ _ H) as [keys [allocs [names [insts1 [_ [_ [_ [F ->]]]]]]]].
  apply same_targets_Forall2. cbn [m1 m_insts]. eapply Forall2_impl'; [|exact F]. intros x x1 Hr.
  apply rewrite_inst_inv in Hr. tauto.
Qed.

Lemma slices_targets m m' : slices_module m = Ok m' -> same_targets m m'.
Proof.
  intros H. destruct (slices_module_inv _ _ H) as [_ [_ [_ [_ [_ F]]]]]. apply same_targets_Forall2.
  eapply Forall2_impl'; [|exact F]. intros x x' Hr. apply slices_inst_inv in Hr. tauto.
Qed.

Lemma arrays_targets d m m' : arrays_module d m = Ok m' -> same_targets m m'.
Proof.
  intros H. destruct (arrays_module_inv _ _ _ H) as [tbl [new [Ht [Hnew [_ [_ [_ [_ Hi]]]]]]]].
  pose proof (array_names_lengths _ _ _ Ht) as Hlen. intros t. split.
  - intros [x [Hx E]]. destruct (single x) eqn:Hs.
    + exists x. split; [rewrite Hi; apply in_or_app; left; apply filter_In; auto|exact E].
    + assert (In x (dissolved m)) as Hd by (apply dissolved_In; auto).
      destruct (combine_In_l _ tbl x (Forall2_length' _ _ _ Hlen) Hd) as [nms Hpair].
      pose proof (Forall2_combine_In _ _ _ _ _ Hlen Hpair) as Hl. cbv beta in Hl.
      destruct (traverse_In _ _ _ _ Hnew Hpair) as [els [Hex Hels]].
      unfold expand_array in Hex. cbn [fst snd] in Hex. apply bind_ok in Hex. destruct Hex as [ps [Hps Hex]].
      assert (0 < i_n x) as Hpos by (unfold single in Hs; lia).
      destruct (Z.to_nat (i_n x)) as [|n'] eqn:En; [lia|]. destruct nms as [|nm nms']; [discriminate|].
      cbn [iota combine traverse] in Hex. apply bind_ok in Hex. destruct Hex as [el [Hel Hex]]. apply bind_ok in Hex. destruct Hex as [rest [_ Hex]].
      inversion Hex; subst els. exists el. split.
      * rewrite Hi. apply in_or_app. right. apply in_concat. exists (el :: rest). split; [exact Hels|left; reflexivity].
      * apply elem_inst_inv in Hel. destruct Hel as [_ [_ [Ho _]]]. congruence.
  - intros [x' [Hx' E]]. rewrite Hi in Hx'. apply in_app_or in Hx'. destruct Hx' as [Hx'|Hx'].
    + apply filter_In in Hx'. exists x'. tauto.
    + apply in_concat in Hx'. destruct Hx' as [els [Hels Hx']]. apply traverse_Forall2 in Hnew.
      destruct (Forall2_In_r _ _ _ els Hnew Hels) as [[x nms] [Hpair Hex]]. apply in_combine_l in Hpair. apply dissolved_In in Hpair.
      unfold expand_array in Hex. cbn [fst snd] in Hex. apply bind_ok in Hex. destruct Hex as [ps [_ Hex]]. apply traverse_Forall2 in Hex.
      destruct (Forall2_In_r _ _ _ x' Hex Hx') as [knm [_ Hel]]. apply elem_inst_inv in Hel. destruct Hel as [_ [_ [Ho _]]].
      exists x. split; [tauto|congruence].
Qed.

Lemma same_targets_trans a b c : same_targets a b -> same_targets b c -> same_targets a c.
Proof. intros H1 H2 t. rewrite (H1 t). apply H2. Qed.

(* ------------------------------------------------------------------------------------------ designs with the same instantiation structure *)
Definition same_hier (d d' : design) : Prop :=
  d_top d' = d_top d /\ Datatypes.length (d_mods d') = Datatypes.length (d_mods d) /\
  map m_name (d_mods d') = map m_name (d_mods d) /\
  forall k m m', nth_error (d_mods d) k = Some m -> nth_error (d_mods d') k = Some m' -> same_targets m m'.

Lemma map_modules_same_hier f d d' : map_modules f d = Ok d' ->
  (forall m m', f m = Ok m' -> m_name m' = m_name m /\ same_targets m m') -> same_hier d d'.
Proof.
  intros H Hf. split; [apply (map_modules_inv _ _ _ H)|]. split; [apply (map_modules_length _ _ _ H)|].
  split; [apply (map_modules_names _ _ _ H); intros m m' E; apply (Hf m m' E)|].
  intros k m m' Hk Hk'. destruct (map_modules_nth_rev _ _ _ _ _ H Hk') as [m0 [Hm0 E]]. rewrite Hk in Hm0. inversion Hm0; subst m0.
  apply (Hf m m' E).
Qed.

Lemma same_hier_trans a b c : same_hier a b -> same_hier b c -> same_hier a c.
Proof.
  intros [T1 [L1 [N1 S1]]] [T2 [L2 [N2 S2]]]. split; [congruence|]. split; [congruence|]. split; [congruence|].
  intros k m m'' Hk Hk''. destruct (nth_error (d_mods b) k) as [m'|] eqn:E.
  - eapply same_targets_trans; [eapply S1; eassumption|eapply S2; eassumption].
  - exfalso. apply nth_error_None in E. assert (k < Datatypes.length (d_mods a))%nat by (apply nth_error_Some; congruence). lia.
Qed.

Lemma elab_same_hier xi d d1 d2 d3 : portrefs_design xi d = Ok d1 -> arrays_design d1 = Ok d2 -> slices_design d2 = Ok d3 -> same_hier d d3.
Proof.
  intros H1 H2 H3. eapply same_hier_trans; [|eapply same_hier_trans].
  - apply (map_modules_same_hier _ _ _ H1). intros m m' E. split; [|eapply portrefs_targets; exact E].
    destruct (portrefs_module_inv _ _ _ _ E) as [keys [allocs [names [insts1 [_ [_ [_ [_ ->]]]]]]]]. reflexivity.
  - apply (map_modules_same_hier _ _ _ H2). intros m m' E. split; [|eapply arrays_targets; exact E].
    destruct (arrays_module_inv _ _ _ E) as [_ [_ [_ [_ [Hn _]]]]]. exact Hn.
  - apply (map_modules_same_hier _ _ _ H3). intros m m' E. split; [|eapply slices_targets; exact E].
    apply slices_module_inv in E. tauto.
Qed.

(* ------------------------------------------------------------------------------------------ the listing order *)
Definition hier_ok (d : design) : Prop :=
  forall k m x k', nth_error (d_mods d) k = Some m -> In x (m_insts m) -> i_of x = TMod k' -> (k' < k)%nat.

Lemma hier_design_ok d : hier_design d = Ok tt -> hier_ok d.
Proof.
  intros H k m x k' Hk Hx Ho. pose proof (each_module_nth _ _ _ _ H Hk) as Hm. unfold hier_module in Hm.
  pose proof (all_ok_In _ _ x Hm Hx) as Hc. cbv beta in Hc. rewrite Ho in Hc. apply check_ok in Hc. apply Nat.ltb_lt. exact Hc.
Qed.

Lemma hier_ok_same d d' : same_hier d d' -> hier_ok d -> hier_ok d'.
Proof.
  intros [_ [L [_ S]]] H k m' x' k' Hk Hx Ho.
  destruct (nth_error (d_mods d) k) as [m|] eqn:E.
  - destruct (proj2 (S k m m' E Hk (TMod k')) (ex_intro _ x' (conj Hx Ho))) as [x [Hxin Hxo]]. eapply H; eassumption.
  - exfalso. apply nth_error_None in E. assert (k < Datatypes.length (d_mods d'))%nat by (apply nth_error_Some; congruence). lia.
Qed.

(* a set of module indices that holds the top module and is closed under "instantiates" holds every module that is used *)
Lemma closed_covers d (S : nat -> Prop) : hier_ok d -> all_used d = true ->
  (d_top d < Datatypes.length (d_mods d))%nat -> S (d_top d) -> (forall j j', S j -> child d j j' -> S j') ->
  forall k, (k < Datatypes.length (d_mods d))%nat -> S k.
Proof.
  intros Hh Hu Ht Stop Scl. set (n := Datatypes.length (d_mods d)) in *.
  assert (forall r k, (n - k <= r)%nat -> (k < n)%nat -> S k) as G.
  { induction r as [|r IH]; intros k Hr Hk; [lia|].
    unfold all_used in Hu. rewrite forallb_forall in Hu. specialize (Hu k). fold n in Hu.
    assert (In k (seq 0 n)) as Hin by (apply in_seq; lia). specialize (Hu Hin). apply orb_prop in Hu. destruct Hu as [Hu|Hu].
    - apply Nat.eqb_eq in Hu. subst k. exact Stop.
    - unfold instantiated in Hu. apply existsb_exists in Hu. destruct Hu as [mj [Hmj Hu]]. apply existsb_exists in Hu. destruct Hu as [x [Hx Hu]].
      destruct (i_of x) as [k'|] eqn:Eo; [|discriminate]. apply Nat.eqb_eq in Hu. subst k'.
      apply In_nth_error in Hmj. destruct Hmj as [j Hj]. pose proof (Hh j mj x k Hj Hx Eo) as Hlt.
      assert (j < n)%nat as Hjn by (apply nth_error_Some; unfold n; congruence).
      apply (Scl j k); [apply IH; lia|]. exists mj, x. split; [apply nth_mod_nth; exact Hj|auto]. }
  intros k Hk. apply (G n k); lia.
Qed.

Lemma all_used_same d d' : same_hier d d' -> all_used d = true -> all_used d' = true.
Proof.
  intros [T [L [_ S]]] Hu. unfold all_used in *. rewrite forallb_forall in *. rewrite L, T. intros k Hk. specialize (Hu k Hk).
  apply orb_prop in Hu. destruct Hu as [Hu|Hu]; [rewrite Hu; reflexivity|]. apply orb_true_iff. right.
  unfold instantiated in *. apply existsb_exists in Hu. destruct Hu as [mj [Hmj Hu]]. apply existsb_exists in Hu. destruct Hu as [x [Hx Hu]].
  destruct (i_of x) as [k'|] eqn:Eo; [|discriminate]. apply In_nth_error in Hmj. destruct Hmj as [j Hj].
  destruct (nth_error (d_mods d') j) as [mj'|] eqn:E.
  - destruct (proj1 (S j mj mj' Hj E (TMod k')) (ex_intro _ x (conj Hx Eo))) as [x' [Hx' Ho']].
    apply existsb_exists. exists mj'. split; [eapply nth_error_In; exact E|]. apply existsb_exists. exists x'. split; [exact Hx'|]. rewrite Ho'. exact Hu.
  - exfalso. apply nth_error_None in E. assert (j < Datatypes.length (d_mods d))%nat by (apply nth_error_Some; congruence). lia.
Qed.

(* ------------------------------------------------------------------------------------------ the exporter's walk is closed *)
Section DfsAny.
Variables (xi : xinfo) (d : design).
Hypothesis Hh : hier_ok d.

Definition cl (st : visit) : Prop := forall j, In j (fst st) -> forall j', child d j j' -> In j' (fst st).

Lemma fold_error f l e : fold_left (visit_step xi d f) l (Error e) = Error e.
Proof. induction l as [|x l IH]; cbn [fold_left]; [reflexivity|]. exact IH. Qed.

Lemma dfs_closed : forall fuel k st st', dfs xi d fuel k st = Ok st' -> (k < fuel)%nat -> cl st ->
  cl st' /\ incl (fst st) (fst st') /\ In k (fst st').
Proof.
  induction fuel as [|f IH]; intros k st st' H Hf Hcl; [lia|]. rewrite dfs_unfold in H.
  destruct (existsb (Nat.eqb k) (fst st)) eqn:Ein.
  - inversion H; subst st'. split; [exact Hcl|]. split; [apply incl_refl|].
    apply existsb_exists in Ein. destruct Ein as [j [Hj E]]. apply Nat.eqb_eq in E. subst j. exact Hj.
  - apply bind_ok in H. destruct H as [m [Hm H]]. apply bind_ok in H. destruct H as [s' [Hfold H]]. inversion H; subst st'. cbn [fst].
    assert (forall l s s1, (forall x, In x l -> In x (m_insts m)) -> cl s -> fold_left (visit_step xi d f) l (Ok s) = Ok s1 ->
              cl s1 /\ incl (fst s) (fst s1) /\ forall x k', In x l -> i_of x = TMod k' -> In k' (fst s1)) as Loop.
    { induction l as [|x l IHl]; intros s s1 Hsub Hs Hfl; cbn [fold_left] in Hfl.
      - inversion Hfl; subst s1. split; [exact Hs|]. split; [apply incl_refl|intros x k' []].
      - destruct (visit_step xi d f (Ok s) x) as [s2|e] eqn:Est; [|rewrite fold_error in Hfl; discriminate].
        assert (cl s2 /\ incl (fst s) (fst s2) /\ forall k', i_of x = TMod k' -> In k' (fst s2)) as [C2 [I2 K2]].
        { unfold visit_step in Est. cbn [bind] in Est. destruct (i_of x) as [k'|dev ps] eqn:Eo.
          - assert (k' < k)%nat as Hlt by (eapply Hh; [apply nth_mod_nth; exact Hm|apply Hsub; left; reflexivity|exact Eo]).
            destruct (IH k' s s2 Est ltac:(lia) Hs) as [A [B C]]. split; [exact A|]. split; [exact B|]. intros k2 E2. inversion E2; subst. exact C.
          - apply bind_ok in Est. destruct Est as [v [_ Est]].
            assert (fst s2 = fst s) as Efst by (destruct (dv_ext v); [destruct (ext_mem p (snd s))|]; inversion Est; reflexivity).
            split; [unfold cl; rewrite Efst; exact Hs|]. split; [rewrite Efst; apply incl_refl|intros k2 E2; discriminate]. }
        destruct (IHl s2 s1 (fun y Hy => Hsub y (or_intror Hy)) C2 Hfl) as [C1 [I1 K1]].
        split; [exact C1|]. split; [eapply incl_tran; eassumption|]. intros y k' [<-|Hy] Ey; [apply I1; apply K2; exact Ey|eapply K1; eassumption]. }
    destruct (Loop (m_insts m) st s' (fun x H => H) Hcl Hfold) as [C1 [I1 K1]]. split; [|split].
    + intros j Hj j' Hch. apply in_or_app. left. apply in_app_or in Hj. destruct Hj as [Hj|[<-|[]]]; [apply (C1 j Hj j' Hch)|].
      destruct Hch as [m0 [x [Hm0 [Hx Ex]]]]. rewrite Hm in Hm0. inversion Hm0; subst m0. eapply K1; eassumption.
    + intros j Hj. apply in_or_app. left. apply I1. exact Hj.
    + apply in_or_app. right. left. reflexivity.
Qed.
End DfsAny.

(* ------------------------------------------------------------------------------------------ export_module_name *)
Lemma export_mods_names xi d : forall order seen pms, export_mods xi d order seen = Ok pms ->
  forall a b k1 k2 m1 m2, nth_error order a = Some k1 -> nth_error order b = Some k2 -> a <> b ->
    nth_mod d k1 = Ok m1 -> nth_mod d k2 = Ok m2 -> m_name m1 <> m_name m2.
Proof.
  assert (forall order seen pms, export_mods xi d order seen = Ok pms ->
            forall a k m, nth_error order a = Some k -> nth_mod d k = Ok m -> ~ In (m_name m) seen) as Hseen.
  { induction order as [|k r IH]; intros seen pms H a k0 m0 Ha Hm; [destruct a; discriminate|].
    cbn [export_mods] in H. apply bind_ok in H. destruct H as [m [Hk H]]. apply bind_ok in H. destruct H as [[] [Hc H]].
    apply bind_ok in H. destruct H as [pm [_ H]]. apply bind_ok in H. destruct H as [rest [Hr _]].
    destruct a as [|a]; cbn [nth_error] in Ha.
    - inversion Ha; subst k0. rewrite Hk in Hm. inversion Hm; subst m0. apply check_ok in Hc. apply negb_true_iff in Hc.
      intros Hin. unfold smem in Hc. assert (existsb (String.eqb (m_name m)) seen = true); [|congruence].
      apply existsb_exists. exists (m_name m). split; [exact Hin|apply String.eqb_refl].
    - intros Hin. apply (IH _ _ Hr a k0 m0 Ha Hm). right. exact Hin. }
  induction order as [|k r IH]; intros seen pms H a b k1 k2 m1 m2 Ha Hb Hab H1 H2; [destruct a; discriminate|].
  cbn [export_mods] in H. apply bind_ok in H. destruct H as [m [Hk H]]. apply bind_ok in H. destruct H as [[] [Hc H]].
  apply bind_ok in H. destruct H as [pm [_ H]]. apply bind_ok in H. destruct H as [rest [Hr _]].
  destruct a as [|a], b as [|b]; cbn [nth_error] in Ha, Hb; [congruence| | |].
  - inversion Ha; subst k1. rewrite Hk in H1. inversion H1; subst m1. intros E.
    apply (Hseen _ _ _ Hr b k2 m2 Hb H2). left. exact E.
  - inversion Hb; subst k2. rewrite Hk in H2. inversion H2; subst m2. intros E.
    apply (Hseen _ _ _ Hr a k1 m1 Ha H1). left. symmetry. exact E.
  - apply (IH _ _ Hr a b k1 k2 m1 m2 Ha Hb); [congruence|exact H1|exact H2].
Qed.

Theorem export_names xi d p : hier_ok d -> all_used d = true -> export_model xi d = Ok p ->
  (d_top d < Datatypes.length (d_mods d))%nat /\ NoDup (map m_name (d_mods d)).
Proof.
  intros Hh Hu H. unfold export_model in H. apply bind_ok in H. destruct H as [st [Hdfs H]]. apply bind_ok in H. destruct H as [pms [Hex _]].
  assert (d_top d < Datatypes.length (d_mods d))%nat as Htop.
  { cbn [dfs existsb fst] in Hdfs. apply bind_ok in Hdfs. destruct Hdfs as [mt [Hmt _]]. apply nth_mod_nth in Hmt. apply nth_error_Some. congruence. }
  split; [exact Htop|].
  destruct (dfs_closed xi d Hh _ _ _ _ Hdfs ltac:(lia) ltac:(intros j [])) as [Hcl [_ Hin]].
  pose proof (closed_covers d (fun k => In k (fst st)) Hh Hu Htop Hin (fun j j' Hj Hc => Hcl j Hj j' Hc)) as Hall.
  apply (NoDup_nth_error). intros i j Hi E. rewrite map_length in Hi.
  destruct (Nat.eq_dec i j) as [|Hne]; [assumption|exfalso].
  assert (j < Datatypes.length (d_mods d))%nat as Hj.
  { rewrite <- (map_length m_name). apply nth_error_Some. rewrite <- E. intros C. apply nth_error_None in C. rewrite map_length in C. lia. }
  destruct (nth_error (d_mods d) i) as [mi|] eqn:Ei; [|apply nth_error_None in Ei; lia].
  destruct (nth_error (d_mods d) j) as [mj|] eqn:Ej; [|apply nth_error_None in Ej; lia].
  rewrite !nth_error_map, Ei, Ej in E. cbn in E. inversion E as [En].
  destruct (In_nth_error _ _ (Hall i Hi)) as [a Ha]. destruct (In_nth_error _ _ (Hall j Hj)) as [b Hb].
  assert (a <> b) as Hab by (intros ->; congruence).
  apply (export_mods_names xi d _ _ _ Hex a b i j mi mj Ha Hb Hab); [apply nth_mod_nth; exact Ei|apply nth_mod_nth; exact Ej|exact En].
Qed.
