(* Proofs/C14XFloatProofs.v — C14X: float(Prefixed) with the concrete round-to-nearest-even function.

   Built on the C17 strengthening round (Spec/SimSpec.v nearest_double = "the value lies between the midpoints to the two
   neighbouring doubles, a midpoint only for an even mantissa"; Proofs/C17RoundProofs.v: round_dbl satisfies it).  Proved here:
   - the midpoint characterisation implies the GEOMETRIC one: no canonical double (of either sign) is strictly closer to the
     value than the result, and a double at the same distance exists only when the result's mantissa is even;
   - float(Prefixed) = round_dbl (value as an integer multiple of 10^e) e for every exponent e of the value, hence a function
     of the value alone;
   - |float - value| <= half a unit in the last place; a value that is a double is returned unchanged. *)
Require Import Hdl21.Base.PyInt Hdl21.Base.Dec Hdl21.Model.Prefixed Hdl21Gen.PrefixTable.
Require Import Hdl21.Spec.SimSpec Hdl21.Model.C17Float Hdl21.Proofs.C17NearestProofs Hdl21.Proofs.C17RoundProofs.
Require Import Hdl21.Proofs.C14Proofs Hdl21.Model.C14XModel.
Open Scope Z_scope.

(* ---------------------------------------------------------------- the grid in units of 2^-1076, quarter steps *)
Lemma pow2_split E : -1074 <= E -> 2 ^ (E + 1076) = 4 * 2 ^ (E + 1074) /\ 2 ^ (E + 1075) = 2 * 2 ^ (E + 1074) /\ 0 < 2 ^ (E + 1074).
Proof.
  intros H. repeat split.
  - replace (E + 1076) with (E + 1074 + 2) by lia. rewrite Z.pow_add_r by lia. change (2 ^ 2) with 4. ring.
  - replace (E + 1075) with (E + 1074 + 1) by lia. rewrite Z.pow_add_r by lia. change (2 ^ 1) with 2. ring.
  - apply Z.pow_pos_nonneg; lia.
Qed.

Lemma grid_B M E : -1074 <= E -> B M E = 4 * (M * 2 ^ (E + 1074)).
Proof. intros H. unfold B. destruct (pow2_split E H) as [P _]. rewrite P. ring. Qed.
Lemma grid_hi M E : -1074 <= E -> hiB M E = 4 * (M * 2 ^ (E + 1074)) + 2 * 2 ^ (E + 1074).
Proof.
  intros H. unfold hiB, B. replace (E - 1 + 1076) with (E + 1075) by lia. destruct (pow2_split E H) as [_ [P _]]. rewrite P. ring.
Qed.
Lemma grid_lo M E : -1074 <= E ->
  loB M E = if (M =? 2 ^ 52) && (-1074 <? E) then 4 * (M * 2 ^ (E + 1074)) - 2 ^ (E + 1074)
            else 4 * (M * 2 ^ (E + 1074)) - 2 * 2 ^ (E + 1074).
Proof.
  intros H. unfold loB, B. destruct ((M =? 2 ^ 52) && (-1074 <? E)).
  - replace (E - 2 + 1076) with (E + 1074) by lia. ring.
  - replace (E - 1 + 1076) with (E + 1075) by lia. destruct (pow2_split E H) as [_ [P _]]. rewrite P. ring.
Qed.

Lemma canonical_E M E : canonical M E = true -> -1074 <= E <= 971 /\ 0 <= M < 2 ^ 53.
Proof. intros C. apply canonical_spec in C. change (2 ^ 53) with 9007199254740992. lia. Qed.

Lemma B_mono M E M' E' : 0 <= M -> M <= M' -> -1076 <= E -> E <= E' -> B M E <= B M' E'.
Proof.
  intros H0 HM HE HE'. unfold B.
  assert (2 ^ (E' + 1076) = 2 ^ (E' - E) * 2 ^ (E + 1076)) as Q by (rewrite <- Z.pow_add_r by lia; f_equal; lia).
  assert (0 < 2 ^ (E + 1076)) by (apply Z.pow_pos_nonneg; lia).
  assert (0 < 2 ^ (E' - E)) by (apply Z.pow_pos_nonneg; lia).
  rewrite Q. nia.
Qed.

(* the lexicographic order (E, M) of canonical doubles is the order of their values: the next canonical double above
   M*2^E is (M+1)*2^E (possibly written in the next binade) *)
Lemma canonical_next M E M' E' : canonical M E = true -> canonical M' E' = true -> (E < E' \/ (E = E' /\ M < M')) ->
  B (M + 1) E <= B M' E'.
Proof.
  intros C C' O. apply canonical_spec in C. apply canonical_spec in C'. destruct O as [O|[O1 O2]].
  - unfold B.
    assert (2 ^ (E' + 1076) = 2 ^ (E' - E) * 2 ^ (E + 1076)) as Q by (rewrite <- Z.pow_add_r by lia; f_equal; lia).
    assert (0 < 2 ^ (E + 1076)) by (apply Z.pow_pos_nonneg; lia).
    assert (2 ^ 1 <= 2 ^ (E' - E)) as P by (apply Z.pow_le_mono_r; lia). change (2 ^ 1) with 2 in P.
    rewrite Q. set (T := 2 ^ (E + 1076)) in *. set (K := 2 ^ (E' - E)) in *.
    assert (M + 1 <= M' * K) by nia. nia.
  - subst E'. apply B_mono; lia.
Qed.

(* ... and the next one below M'*2^E' is 2*lo - M'*2^E', lo the lower midpoint *)
Lemma canonical_prev M E M' E' : canonical M E = true -> canonical M' E' = true -> (E < E' \/ (E = E' /\ M < M')) ->
  B M E <= 2 * loB M' E' - B M' E'.
Proof.
  intros C C' O. pose proof (canonical_spec M E C) as S. pose proof (canonical_spec M' E' C') as S'.
  destruct (canonical_E _ _ C') as [HE' _].
  rewrite (grid_lo M' E') by lia. rewrite (grid_B M' E') by lia.
  change (2 ^ 52) with 4503599627370496.
  destruct ((M' =? 4503599627370496) && (-1074 <? E')) eqn:EB.
  - (* binade boundary: the predecessor is (2^53 - 1) * 2^(E'-1) *)
    assert (M' = 4503599627370496 /\ -1074 < E') as [-> HB] by lia.
    assert (E < E') as OE by lia.
    assert (4 * (4503599627370496 * 2 ^ (E' + 1074)) - 2 ^ (E' + 1074) = 18014398509481983 * 2 ^ (E' + 1074)) as R1 by ring.
    replace (2 * (4 * (4503599627370496 * 2 ^ (E' + 1074)) - 2 ^ (E' + 1074)) - 4 * (4503599627370496 * 2 ^ (E' + 1074)))
      with (B 9007199254740991 (E' - 1)).
    + apply B_mono; lia.
    + unfold B. replace (E' - 1 + 1076) with (E' + 1074 + 1) by lia. rewrite Z.pow_add_r by lia. change (2 ^ 1) with 2. ring.
  - replace (2 * (4 * (M' * 2 ^ (E' + 1074)) - 2 * 2 ^ (E' + 1074)) - 4 * (M' * 2 ^ (E' + 1074))) with (B (M' - 1) E').
    + destruct O as [O|[O1 O2]].
      * (* lower binade: M' is normal and not the boundary mantissa, so (M'-1)*2^E' >= 2^52 * 2^E' >= 2^53 * 2^(E'-1) *)
        assert (4503599627370497 <= M') by lia.
        apply Z.le_trans with (B 9007199254740992 (E' - 1)); [apply B_mono; lia|].
        unfold B. replace (E' + 1076) with (E' - 1 + 1076 + 1) by lia. rewrite (Z.pow_add_r 2 (E' - 1 + 1076) 1) by lia.
        change (2 ^ 1) with 2. assert (0 < 2 ^ (E' - 1 + 1076)) by (apply Z.pow_pos_nonneg; lia). nia.
      * subst E'. apply B_mono; lia.
    + unfold B. destruct (pow2_split E' ltac:(lia)) as [P _]. rewrite P. ring.
Qed.

(* ---------------------------------------------------------------- midpoints => nearest, geometrically *)
(* V = value * b * 2^1076 lies between the midpoints of M*2^E (times b): every canonical M'*2^E' is at least as far;
   one at exactly the same distance exists only when V is one of the two midpoints *)
Lemma midpoints_closest V b M E M' E' :
  0 < b -> canonical M E = true -> canonical M' E' = true ->
  loB M E * b <= V <= hiB M E * b ->
  Z.abs (V - B M E * b) <= Z.abs (V - B M' E' * b) /\
  (Z.abs (V - B M E * b) = Z.abs (V - B M' E' * b) -> (M', E') <> (M, E) -> V = hiB M E * b \/ V = loB M E * b).
Proof.
  intros Hb C C' [L U].
  destruct (canonical_E _ _ C) as [HE _]. destruct (canonical_E _ _ C') as [HE' _].
  pose proof (grid_B M E ltac:(lia)) as GD. pose proof (grid_hi M E ltac:(lia)) as GH. pose proof (grid_lo M E ltac:(lia)) as GL.
  destruct (pow2_split E ltac:(lia)) as [_ [_ PT]].
  set (T4 := 2 ^ (E + 1074)) in *.
  assert (0 < T4 * b) as PU by nia.
  set (d := B M E * b). set (d' := B M' E' * b). set (h := hiB M E * b) in *. set (l := loB M E * b) in *.
  assert (h = d + 2 * (T4 * b)) as Hh by (unfold h, d; rewrite GH, GD; ring).
  assert (d - 2 * (T4 * b) <= l /\ l <= d - T4 * b) as Hl.
  { unfold l, d. rewrite GL, GD. destruct ((M =? 2 ^ 52) && (-1074 <? E)); split; nia. }
  assert ((E < E' \/ (E = E' /\ M < M')) \/ (M', E') = (M, E) \/ (E' < E \/ (E' = E /\ M' < M))) as [O|[O|O]].
  { destruct (Z.lt_trichotomy E E') as [?|[?|?]]; [left; lia| |right; right; lia].
    destruct (Z.lt_trichotomy M M') as [?|[?|?]]; [left; lia|right; left; f_equal; lia|right; right; lia]. }
  - (* d' above *)
    pose proof (canonical_next M E M' E' C C' O) as N.
    assert (d + 4 * (T4 * b) <= d') as N'.
    { unfold d, d'. replace (B M E * b + 4 * (T4 * b)) with (B (M + 1) E * b); [nia|].
      rewrite (grid_B (M + 1) E) by lia. rewrite GD. fold T4. ring. }
    split; [lia|]. intros EQ _. lia.
  - inversion O; subst. split; [lia|]. intros _ NE. exfalso. apply NE. reflexivity.
  - (* d' below *)
    pose proof (canonical_prev M' E' M E C' C O) as N.
    assert (d' <= 2 * l - d) as N' by (unfold d, d', l; nia).
    split; [lia|]. intros EQ _. lia.
Qed.

(* ---------------------------------------------------------------- signs *)
Lemma scale10_abs m e : fst (scale10 (Z.abs m) e) = Z.abs (fst (scale10 m e)) /\ snd (scale10 (Z.abs m) e) = snd (scale10 m e).
Proof.
  unfold scale10. destruct (0 <=? e) eqn:E; cbn [fst snd]; split; try reflexivity.
  rewrite Z.abs_mul. f_equal. pose proof (C17NearestProofs.p10_pos e ltac:(lia)). lia.
Qed.
Lemma scale10_sign m e : (fst (scale10 m e) <? 0) = (m <? 0).
Proof.
  unfold scale10. destruct (0 <=? e) eqn:E; cbn [fst]; [|reflexivity].
  pose proof (C17NearestProofs.p10_pos e ltac:(lia)). apply Bool.eq_true_iff_eq. rewrite !Z.ltb_lt. nia.
Qed.

Lemma eqb_false_negb x y : Bool.eqb x y = false -> x = negb y.
Proof. destruct x, y; cbn; congruence. Qed.

Lemma canonical_zero : canonical 0 (-1074) = true. Proof. reflexivity. Qed.

(* what round_dbl returns, as facts about the unsigned value *)
Lemma round_dbl_cases m e :
  let a := Z.abs (val_num m e) in let b := val_den m e in
  match round_dbl m e with
  | DFin neg M E => neg = (m <? 0) /\ canonical M E = true /\
                    (loB M E * b <= a * 2 ^ 1076 <= hiB M E * b) /\
                    (a * 2 ^ 1076 = hiB M E * b \/ a * 2 ^ 1076 = loB M E * b -> Z.even M = true)
  | DInf neg => neg = (m <? 0) /\ B (2 ^ 54 - 1) 970 * b <= a * 2 ^ 1076
  | DNan => False
  end.
Proof.
  cbn zeta. unfold val_num, val_den. destruct (scale10_abs m e) as [SA SB]. rewrite <- SA, <- SB.
  pose proof (scale10_den_pos (Z.abs m) e) as Pb.
  assert (0 <= fst (scale10 (Z.abs m) e)) as Pa by (rewrite SA; lia).
  unfold round_dbl. pose proof (round_abs_spec _ _ Pa Pb) as S.
  destruct (round_abs (fst (scale10 (Z.abs m) e)) (snd (scale10 (Z.abs m) e))) as [[M E]|].
  - destruct S as [C [HI LO]]. repeat split; try assumption; try lia. intros [Q|Q]; [destruct HI as [HI|[_ HI]]; [lia|exact HI]|destruct LO as [LO|[_ LO]]; [lia|exact LO]].
  - split; [reflexivity|exact S].
Qed.

Lemma dist_same_sign m e M E : dist_units m e (m <? 0) M E = Z.abs (Z.abs (val_num m e) * 2 ^ 1076 - B M E * val_den m e).
Proof.
  unfold dist_units, dbl_units, B, val_num, val_den. rewrite <- (scale10_sign m e).
  destruct (fst (scale10 m e) <? 0) eqn:S.
  - replace (Z.abs (fst (scale10 m e))) with (- fst (scale10 m e)) by lia.
    rewrite <- Z.abs_opp. f_equal. ring.
  - replace (Z.abs (fst (scale10 m e))) with (fst (scale10 m e)) by lia. reflexivity.
Qed.
Lemma dist_other_sign m e M E : 0 <= M -> -1076 <= E ->
  dist_units m e (negb (m <? 0)) M E = Z.abs (val_num m e) * 2 ^ 1076 + B M E * val_den m e.
Proof.
  intros HM HE. unfold dist_units, dbl_units, B, val_num, val_den. rewrite <- (scale10_sign m e).
  pose proof (scale10_den_pos m e) as Pb. assert (0 < 2 ^ (E + 1076)) as P2 by (apply Z.pow_pos_nonneg; lia).
  assert (0 <= M * 2 ^ (E + 1076) * snd (scale10 m e)) as PP by nia.
  assert (0 < 2 ^ 1076) as PX by (apply Z.pow_pos_nonneg; lia).
  destruct (fst (scale10 m e) <? 0) eqn:S; cbn [negb].
  - assert (fst (scale10 m e) * 2 ^ 1076 <= 0) by nia.
    replace (Z.abs (fst (scale10 m e))) with (- fst (scale10 m e)) by lia. lia.
  - assert (0 <= fst (scale10 m e) * 2 ^ 1076) by nia.
    replace (Z.abs (fst (scale10 m e))) with (fst (scale10 m e)) by lia. lia.
Qed.

(* THE statement: round_dbl returns a canonical double of the sign of the value such that NO canonical double of either sign is
   strictly closer to m*10^e; a different double at the same distance exists only if the returned mantissa is even; the result
   is an infinity exactly from the overflow threshold 2^1024 - 2^970 on. *)
Theorem round_dbl_is_nearest m e :
  match round_dbl m e with
  | DFin neg M E =>
      neg = (m <? 0) /\ canonical M E = true /\
      Z.abs (val_num m e) * 2 ^ 1076 < overflow_units m e /\
      dist_units m e neg M E <= half_ulp_units m e E /\
      forall neg' M' E', canonical M' E' = true ->
        dist_units m e neg M E <= dist_units m e neg' M' E' /\
        (dist_units m e neg M E = dist_units m e neg' M' E' -> DFin neg' M' E' <> DFin neg M E -> Z.even M = true)
  | DInf neg => neg = (m <? 0) /\ overflow_units m e <= Z.abs (val_num m e) * 2 ^ 1076
  | DNan => False
  end.
Proof.
  pose proof (round_dbl_cases m e) as R. pose proof (round_dbl_nearest m e) as ND. cbn zeta in R.
  destruct (round_dbl m e) as [neg M E|neg|]; [|exact R|exact R].
  destruct R as [-> [C [[L U] EV]]]. pose proof (scale10_den_pos m e) as Pb. fold (val_den m e) in Pb.
  destruct (canonical_E _ _ C) as [HE HM].
  split; [reflexivity|]. split; [exact C|]. split.
  { (* finite => below the threshold *)
    cbn [nearest_double] in ND. apply andb_true_iff in ND. destruct ND as [_ ND]. apply near_abs_not_inf in ND.
    rewrite cmp_dec_bin_norm in ND by lia.
    destruct (scale10_abs m e) as [SA SB]. rewrite SA, SB in ND. unfold overflow_units, val_num, val_den. unfold B in ND.
    apply Z.compare_lt_iff. exact ND. }
  split.
  { rewrite dist_same_sign. unfold half_ulp_units.
    rewrite (grid_hi M E) in U by lia. pose proof (grid_lo M E ltac:(lia)) as GL. rewrite (grid_B M E) by lia.
    destruct (pow2_split E ltac:(lia)) as [_ [P2 P0]]. rewrite P2.
    assert (4 * (M * 2 ^ (E + 1074)) - 2 * 2 ^ (E + 1074) <= loB M E) as GL' by (rewrite GL; destruct ((M =? 2 ^ 52) && (-1074 <? E)); lia).
    set (T4 := 2 ^ (E + 1074)) in *. set (b := val_den m e) in *. nia. }
  intros neg' M' E' C'. destruct (canonical_E _ _ C') as [HE' HM'].
  destruct (midpoints_closest (Z.abs (val_num m e) * 2 ^ 1076) (val_den m e) M E M' E' Pb C C' (conj L U)) as [LE TIE].
  destruct (midpoints_closest (Z.abs (val_num m e) * 2 ^ 1076) (val_den m e) M E 0 (-1074) Pb C canonical_zero (conj L U)) as [LE0 TIE0].
  rewrite dist_same_sign.
  destruct (Bool.eqb neg' (m <? 0)) eqn:SG.
  - apply Bool.eqb_prop in SG. subst neg'. rewrite dist_same_sign. split; [exact LE|].
    intros EQ NE. apply EV. apply TIE; [exact EQ|]. intros Q. inversion Q; subst. apply NE. reflexivity.
  - assert (neg' = negb (m <? 0)) as -> by (apply eqb_false_negb; exact SG).
    rewrite dist_other_sign by lia.
    assert (B 0 (-1074) = 0) as Z0 by reflexivity. rewrite Z0 in LE0, TIE0.
    assert (0 <= B M' E' * val_den m e) as PD.
    { unfold B. assert (0 < 2 ^ (E' + 1076)) by (apply Z.pow_pos_nonneg; lia). nia. }
    assert (0 <= Z.abs (val_num m e) * 2 ^ 1076) as PV by (assert (0 < 2 ^ 1076) by (apply Z.pow_pos_nonneg; lia); nia).
    split; [lia|]. intros EQ _.
    destruct (Z.eq_dec M 0) as [->|NZ]; [reflexivity|].
    apply EV. apply TIE0; [lia|]. intros Q. inversion Q. lia.
Qed.

(* ---------------------------------------------------------------- float(Prefixed) is a function of the value *)
Lemma round_dbl_same_value a ea b eb e : e <= ea -> e <= eb -> a * 10 ^ (ea - e) = b * 10 ^ (eb - e) -> round_dbl a ea = round_dbl b eb.
Proof.
  intros Ha Hb H. apply nearest_double_iff.
  rewrite <- (nearest_double_same_value a ea b eb e _ Ha Hb H). apply round_dbl_nearest.
Qed.

Lemma round_dec_at d e : e <= dexp d -> round_dec d = round_dbl (at_ e d) e.
Proof.
  intros H. unfold round_dec. apply (round_dbl_same_value _ _ _ _ e); try lia.
  unfold at_. rewrite pow10_spec. replace (e - e) with 0 by lia. change (10 ^ 0) with 1. ring.
Qed.

Lemma round_dec_value d1 d2 : deqb d1 d2 = true -> round_dec d1 = round_dec d2.
Proof.
  intros H. apply (deqb_spec (dmin d1 d2)) in H; [|unfold dmin; lia|unfold dmin; lia].
  rewrite (round_dec_at d1 (dmin d1 d2)) by (unfold dmin; lia). rewrite (round_dec_at d2 (dmin d1 d2)) by (unfold dmin; lia).
  rewrite H. reflexivity.
Qed.

Lemma pfloat_c_value p e : e <= pexp p -> pfloat_c p = Ok (round_dbl (vat e p) e).
Proof.
  intros H. unfold pfloat_c, pfloat. rewrite unit_number_spec. cbn [bind]. f_equal.
  pose proof (unit_number_exp p) as X.
  set (x := number (pscale p 0)) in *.
  destruct (Z_le_gt_dec e (dexp x)) as [L|G].
  - rewrite (round_dec_at x e L). unfold x. rewrite unit_number_at by exact L. reflexivity.
  - (* e above the exponent of the rescaled number: go through the lower exponent *)
    rewrite (round_dec_at x (dexp x)) by lia.
    assert (at_ (dexp x) x = vat (dexp x) p) as Q by (unfold x; apply unit_number_at; lia). rewrite Q.
    apply (round_dbl_same_value _ _ _ _ (dexp x)); try lia.
    replace (dexp x - dexp x) with 0 by lia. change (10 ^ 0) with 1. rewrite Z.mul_1_r.
    apply vat_shift; lia.
Qed.

Lemma pfloat_c_representation_free a b e : e <= pexp a -> e <= pexp b -> vat e a = vat e b -> pfloat_c a = pfloat_c b.
Proof. intros Ha Hb H. rewrite (pfloat_c_value a e Ha), (pfloat_c_value b e Hb), H. reflexivity. Qed.

(* a value that IS a canonical double is returned unchanged (in particular every integer below 2^53) *)
Lemma round_dbl_exact m e neg M E : canonical M E = true -> neg = (m <? 0) -> dist_units m e neg M E = 0 ->
  exists neg0 M0 E0, round_dbl m e = DFin neg0 M0 E0 /\ dbl_units neg0 M0 E0 * val_den m e = dbl_units neg M E * val_den m e.
Proof.
  intros C S D0. pose proof (round_dbl_is_nearest m e) as R.
  destruct (round_dbl m e) as [neg0 M0 E0|neg0|]; [| |contradiction].
  - exists neg0, M0, E0. split; [reflexivity|].
    destruct R as [_ [_ [_ [_ R]]]]. destruct (R neg M E C) as [LE _]. rewrite D0 in LE.
    unfold dist_units in *. lia.
  - exfalso. destruct R as [_ R]. destruct (canonical_E _ _ C) as [HE HM].
    unfold dist_units in D0. unfold overflow_units in R. pose proof (scale10_den_pos m e) as Pb. fold (val_den m e) in Pb.
    assert (Z.abs (val_num m e * 2 ^ 1076) = Z.abs (dbl_units neg M E * val_den m e)) as Q by lia.
    rewrite !Z.abs_mul in Q. rewrite (Z.abs_eq (2 ^ 1076)) in Q by (apply Z.pow_nonneg; lia).
    rewrite (Z.abs_eq (val_den m e)) in Q by lia. rewrite Q in R.
    assert (Z.abs (dbl_units neg M E) = B M E) as AB.
    { unfold dbl_units, B. assert (0 < 2 ^ (E + 1076)) by (apply Z.pow_pos_nonneg; lia). destruct neg; rewrite Z.abs_mul; rewrite (Z.abs_eq (2 ^ (E + 1076))) by lia; f_equal; lia. }
    rewrite AB in R.
    set (THR := (2 ^ 54 - 1) * 2 ^ (970 + 1076)) in *.
    assert (B M E < THR) as LT.
    { apply Z.le_lt_trans with (B 9007199254740991 971); [apply B_mono; change (2 ^ 53) with 9007199254740992 in HM; lia|].
      unfold THR. vm_compute. reflexivity. }
    assert (B M E * val_den m e < THR * val_den m e) by (apply Z.mul_lt_mono_pos_r; lia). lia.
Qed.
