(* Proofs/C17FloatProofs.v — C17 (strengthening round): lemmas about Model/C17Float.v.
   export_float rounds ONCE, a Decimal that denotes exactly the prefixed value; under a correctly rounding float() the
   field is therefore THE nearest double of the value; the concrete exporter is the symbolic one of Model/SimExport.v
   with every symbol `FDec m e` replaced by that double. *)
From Coq Require Import String Ascii.
Require Import Hdl21.Base.PyInt Hdl21.Base.Dec Hdl21.Model.Prefixed Hdl21.Spec.SimSpec Hdl21.Model.SimExport.
Require Import Hdl21.Model.C17Float Hdl21.Proofs.C14Proofs Hdl21.Proofs.C17Proofs Hdl21.Proofs.C17NearestProofs.
Open Scope Z_scope.

(* ---------------------------------------------------------------- the Decimal handed to float() *)
Definition unit_dec (nm ne pe : Z) : dec := number (pscale (num_pfx nm ne pe) 0).

Lemma pexp_num_pfx nm ne pe : pexp (num_pfx nm ne pe) = ne + pe.
Proof. reflexivity. Qed.

Lemma vat_num_pfx e nm ne pe : e <= ne + pe -> vat e (num_pfx nm ne pe) = nm * 10 ^ (ne + pe - e).
Proof.
  intros H. unfold vat, Hdl21.Model.Prefixed.pval, num_pfx, at_. cbn [number prefix]. rewrite pow10_spec, dint_dscaleb, dexp_dscaleb, dint_of_int, dexp_of_int.
  reflexivity.
Qed.

(* it denotes the prefixed value nm * 10^(ne+pe), exactly *)
Lemma unit_dec_value nm ne pe :
  dexp (unit_dec nm ne pe) <= ne + pe /\ dint (unit_dec nm ne pe) = nm * 10 ^ (ne + pe - dexp (unit_dec nm ne pe)).
Proof.
  unfold unit_dec. pose proof (unit_number_exp (num_pfx nm ne pe)) as L. rewrite pexp_num_pfx in L. split; [exact L|].
  pose proof (unit_number_at (dexp (number (pscale (num_pfx nm ne pe) 0))) (num_pfx nm ne pe) (Z.le_refl _)) as A.
  rewrite vat_num_pfx in A by exact L. rewrite <- A. unfold at_. rewrite Z.sub_diag, pow10_spec. change (10 ^ 0) with 1. lia.
Qed.

Lemma nearest_unit_dec nm ne pe d :
  nearest_double (dint (unit_dec nm ne pe)) (dexp (unit_dec nm ne pe)) d = nearest_double nm (ne + pe) d.
Proof.
  destruct (unit_dec_value nm ne pe) as [L V].
  apply (nearest_double_same_value _ _ _ _ (dexp (unit_dec nm ne pe))); [lia|exact L|].
  rewrite Z.sub_diag. change (10 ^ 0) with 1. lia.
Qed.

Section Float.
Variable rnd : dec -> dbl.

Lemma export_float_pre nm ne pe : export_float rnd (NPre nm ne pe) = Ok (rnd (unit_dec nm ne pe)).
Proof. unfold export_float, pfloat. rewrite unit_number_spec. reflexivity. Qed.

(* exactly one rounding, of a Decimal denoting the exact value; only a Literal is refused *)
Lemma export_float_one_rounding x :
  match x with
  | NPre nm ne pe =>
      exists d, export_float rnd x = Ok (rnd d) /\ dexp d <= ne + pe /\ dint d = nm * 10 ^ (ne + pe - dexp d)
  | NLit _ => export_float rnd x = Error EBadKind
  end.
Proof.
  destruct x as [nm ne pe|s]; [|reflexivity].
  exists (unit_dec nm ne pe). split; [apply export_float_pre|apply unit_dec_value].
Qed.

(* the code is the exact-context instance of the context-parametrised conversion *)
Lemma export_float_ctx_none x : export_float_ctx rnd None x = export_float rnd x.
Proof. destruct x as [nm ne pe|s]; [|reflexivity]. rewrite export_float_pre. reflexivity. Qed.

(* ---- under a correctly rounding float() *)
Hypothesis rnd_near : forall d, nearest_double (dint d) (dexp d) (rnd d) = true.

Lemma export_float_nearest x f : export_float rnd x = Ok f -> num_ok frel_nearest x (FDbl f) = true.
Proof.
  destruct x as [nm ne pe|s]; [|discriminate]. rewrite export_float_pre. intros H. inversion H; subst.
  cbn [num_ok frel_nearest]. rewrite <- nearest_unit_dec. apply rnd_near.
Qed.

(* float() depends on the value of its argument only (because the nearest double is unique) *)
Lemma rnd_value d m e : e <= dexp d -> dint d * 10 ^ (dexp d - e) = m -> rnd d = rnd (of_int m e).
Proof.
  intros L V. apply (nearest_double_unique m e).
  - rewrite <- (nearest_double_same_value (dint d) (dexp d) m e e); [apply rnd_near|exact L|lia|].
    rewrite Z.sub_diag. change (10 ^ 0) with 1. lia.
  - pose proof (rnd_near (of_int m e)) as H. rewrite dint_of_int, dexp_of_int in H. exact H.
Qed.

Definition fl_of (m e : Z) : dbl := rnd (of_int m e).

Lemma fl_of_near m e : nearest_double m e (fl_of m e) = true.
Proof. unfold fl_of. pose proof (rnd_near (of_int m e)) as H. rewrite dint_of_int, dexp_of_int in H. exact H. Qed.

Lemma rnd_unit_dec nm ne pe : rnd (unit_dec nm ne pe) = fl_of nm (ne + pe).
Proof.
  unfold fl_of. apply (nearest_double_unique nm (ne + pe)).
  - rewrite <- nearest_unit_dec. apply rnd_near.
  - apply fl_of_near.
Qed.

(* ---- the concrete exporter is the symbolic one, rendered by g *)
Definition rmap {A B} (f : A -> B) (r : result A) : result B := match r with Ok a => Ok (f a) | Error e => Error e end.
Lemma bind_rmap {A B C} (f : A -> B) (r : result A) (k : B -> result C) : bind (rmap f r) k = bind r (fun a => k (f a)).
Proof. destruct r; reflexivity. Qed.

Let g := conc fl_of.

Lemma xf_c_sim x : xf_c rnd x = rmap g (xf x).
Proof.
  destruct x as [nm ne pe|s]; [|reflexivity]. unfold xf_c. rewrite export_float_pre. cbn [bind xf rmap g conc].
  rewrite rnd_unit_dec. reflexivity.
Qed.
Lemma xf_opt_c_sim x : xf_opt_c rnd x = rmap g (xf_opt x).
Proof.
  destruct x as [y|]; [apply xf_c_sim|]. cbn [xf_opt_c xf_opt rmap g conc]. do 2 f_equal. unfold export_float_none.
  apply (nearest_double_unique 0 0); [vm_compute; reflexivity|apply fl_of_near].
Qed.
Lemma xf_int_c_sim n : xf_int_c rnd n = g (xf_int n).
Proof. reflexivity. Qed.
Lemma traverse_xf_c_sim l : traverse (xf_c rnd) l = rmap (map g) (traverse xf l).
Proof.
  induction l as [|x l IH]; [reflexivity|]. cbn [traverse]. rewrite xf_c_sim, IH, !bind_rmap.
  destruct (xf x); [|reflexivity]. cbn [bind]. destruct (traverse xf l); reflexivity.
Qed.
Lemma xsweep_c_sim s : xsweep_c rnd s = rmap (map_osweep g) (xsweep s).
Proof.
  destruct s as [a b c|a b n|l]; cbn [xsweep_c xsweep].
  - rewrite !xf_c_sim, !bind_rmap. destruct (xf a); [|reflexivity]. cbn [bind]. rewrite bind_rmap.
    destruct (xf b); [|reflexivity]. cbn [bind]. rewrite bind_rmap. destruct (xf c); reflexivity.
  - rewrite !xf_c_sim, !bind_rmap. destruct (xf a); [|reflexivity]. cbn [bind]. rewrite bind_rmap.
    destruct (xf b); reflexivity.
  - rewrite traverse_xf_c_sim, bind_rmap. destruct (traverse xf l); reflexivity.
Qed.

Definition an_map (p : oan * N) : oan * N := (map_oan g (fst p), snd p).
Definition ans_map (p : list oan * N) : list oan * N := (map (map_oan g) (fst p), snd p).

Lemma thread_sim l : Forall (fun a => forall k, xan_c rnd a k = rmap an_map (xan a k)) l ->
  forall k, thread (xan_c rnd) l k = rmap ans_map (thread xan l k).
Proof.
  induction 1 as [|a l Ha _ IH]; intros k; [reflexivity|].
  rewrite !thread_cons, Ha, bind_rmap. destruct (xan a k) as [[o k1]|e]; [|reflexivity]. cbn [bind an_map fst snd].
  rewrite IH, bind_rmap. destruct (thread xan l k1) as [[os k2]|e]; reflexivity.
Qed.

Lemma xan_c_sweep inner v sw n k :
  xan_c rnd (ASweep inner v sw n) k =
  (let '(nm, k1) := pick_name n k in
   sw' <- xsweep_c rnd sw ;; r <- thread (xan_c rnd) inner k1 ;; Ok (OSweep nm (xvar v) sw' (fst r), snd r)).
Proof. reflexivity. Qed.
Lemma xan_c_monte inner np n k :
  xan_c rnd (AMonte inner np n) k =
  (let '(nm, k1) := pick_name n k in
   r <- thread (xan_c rnd) inner k1 ;; _ <- chk (in_i64 np) ;; Ok (OMonte nm np 0 (fst r), snd r)).
Proof. reflexivity. Qed.

Lemma xan_c_sim a : forall k, xan_c rnd a k = rmap an_map (xan a k).
Proof.
  induction a using analysis_ind'; intros k0.
  - cbn [xan_c xan]. destruct (pick_name n k0). reflexivity.
  - cbn [xan_c xan]. destruct (pick_name n k0). rewrite xsweep_c_sim, bind_rmap. destruct (xsweep sw); reflexivity.
  - cbn [xan_c xan]. destruct (pick_name n k0). rewrite !xf_c_sim, !bind_rmap. destruct (xf a); [|reflexivity]. cbn [bind].
    rewrite bind_rmap. destruct (xf b); [|reflexivity]. cbn [bind]. destruct (chk (in_u64 k)); reflexivity.
  - cbn [xan_c xan]. destruct (pick_name n k0). rewrite xf_c_sim, bind_rmap. destruct (xf t); [|reflexivity]. cbn [bind].
    rewrite xf_opt_c_sim, bind_rmap. destruct (xf_opt ts); reflexivity.
  - cbn [xan_c xan]. destruct (pick_name n k0). destruct (xnout o); [|reflexivity]. cbn [bind].
    rewrite !xf_c_sim, !bind_rmap. destruct (xf a); [|reflexivity]. cbn [bind].
    rewrite bind_rmap. destruct (xf b); [|reflexivity]. cbn [bind]. destruct (chk (in_u64 k)); reflexivity.
  - rewrite xan_c_sweep, xan_sweep. destruct (pick_name n k0) as [nm k1]. rewrite xsweep_c_sim, bind_rmap.
    destruct (xsweep sw); [|reflexivity]. cbn [bind]. rewrite (thread_sim inner H), bind_rmap.
    destruct (thread xan inner k1) as [[os k2]|e]; reflexivity.
  - rewrite xan_c_monte, xan_monte. destruct (pick_name n k0) as [nm k1]. rewrite (thread_sim inner H), bind_rmap.
    destruct (thread xan inner k1) as [[os k2]|e]; [|reflexivity]. cbn [bind ans_map fst snd].
    destruct (chk (in_i64 k)); reflexivity.
  - cbn [xan_c xan]. destruct (pick_name n k0). reflexivity.
Qed.

Definition outs_map (r : outs) : outs := let '(os, ans, cs) := r in (os, map (map_oan g) ans, cs).

Lemma xattrs_c_sim l : forall k, xattrs_c rnd l k = rmap outs_map (xattrs l k).
Proof.
  induction l as [|a l IH]; intros k; [reflexivity|]. destruct a as [a|c|n v]; cbn [xattrs_c xattrs].
  - rewrite xan_c_sim, bind_rmap. destruct (xan a k) as [[o k1]|e]; [|reflexivity]. cbn [bind an_map fst snd].
    rewrite IH, bind_rmap. destruct (xattrs l k1) as [[[os ans] cs]|e]; reflexivity.
  - destruct (xctrl c); [|reflexivity]. cbn [bind]. rewrite IH, bind_rmap.
    destruct (xattrs l k) as [[[os ans] cs]|e]; reflexivity.
  - destruct (xoval v); [|reflexivity]. cbn [bind]. rewrite IH, bind_rmap.
    destruct (xattrs l k) as [[[os ans] cs]|e]; reflexivity.
Qed.

Lemma export_one_c_sim pkg s : export_one_c rnd pkg s = rmap (map_si g) (export_one pkg s).
Proof.
  unfold export_one_c, export_one. destruct (negb (one_scalar_port (tb_ports (s_tb s)))); [reflexivity|].
  rewrite xattrs_c_sim, bind_rmap. destruct (xattrs (s_attrs s) 0) as [[[os ans] cs]|e]; reflexivity.
Qed.

Lemma traverse_rmap {A B} (f : B -> B) (h h' : A -> result B) l : (forall x, h' x = rmap f (h x)) ->
  traverse h' l = rmap (map f) (traverse h l).
Proof.
  intros E. induction l as [|x l IH]; [reflexivity|]. cbn [traverse]. rewrite E, IH, !bind_rmap.
  destruct (h x); [|reflexivity]. cbn [bind]. destruct (traverse h l); reflexivity.
Qed.

Lemma export_all_c_sim l : export_all_c rnd l = rmap (map (map_si g)) (export_all l).
Proof.
  unfold export_all_c, export_all.
  destruct (seq_fold xmod (map (fun s => tb_mod (s_tb s)) l) {| reserved := []; done := [] |}) as [st|e]; [|reflexivity].
  cbn [bind]. apply traverse_rmap. intros s. apply export_one_c_sim.
Qed.
End Float.
