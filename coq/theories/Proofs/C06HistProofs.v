(* Proofs/C06HistProofs.v *)
Require Import Hdl21.Base.PyInt Hdl21.Model.C06Hist.

Definition inv (st : est) : Prop := forall m, In m (e_done st) -> ok_at (e_heap st) m = true.

Lemma memn_in m l : memn m l = true <-> In m l.
Proof.
  unfold memn. rewrite existsb_exists. split.
  - intros [x [Hin He]]. apply Nat.eqb_eq in He. subst. assumption.
  - intros H. exists m. split; [assumption|apply Nat.eqb_refl].
Qed.

Lemma ok_at_app hp x m : ok_at hp m = true -> ok_at (hp ++ [x]) m = true.
Proof.
  unfold ok_at. destruct (nth_error hp m) eqn:E; [|discriminate].
  rewrite nth_error_app1; [rewrite E; auto|]. apply nth_error_Some. rewrite E. discriminate.
Qed.

Lemma ok_at_upd hp p f m : (forall x, hm_ok (f x) = hm_ok x) -> ok_at (upd hp p f) m = ok_at hp m.
Proof.
  intros Hf. unfold ok_at. revert p m. induction hp as [|x r IH]; intros p m; cbn [upd].
  - destruct p; reflexivity.
  - destruct p; destruct m; cbn [nth_error]; auto.
Qed.

Lemma elab_on_inv st visit st' : inv st -> elab_on st visit = Some st' -> inv st' /\ e_heap st' = e_heap st /\
  (forall m, In m visit -> In m (e_done st')).
Proof.
  unfold elab_on. intros Hi. destruct (forallb _ visit) eqn:E; [|discriminate].
  intros H. inversion H; subst; clear H. cbn [e_heap e_done]. repeat split.
  - intros m Hin. cbn [e_heap e_done] in *. apply in_app_or in Hin. destruct Hin as [Hin|Hin]; [|auto].
    rewrite forallb_forall in E. specialize (E m Hin). apply orb_true_iff in E. destruct E as [E|E]; [|assumption].
    apply Hi. apply memn_in. assumption.
  - intros m Hin. apply in_or_app. auto.
Qed.

Lemma estep_inv st op : inv st -> inv (estep st op).
Proof.
  intros Hi. destruct op as [x|p i c|tops|tops]; cbn [estep].
  - intros m Hin. cbn [e_heap e_done] in *. apply ok_at_app. auto.
  - intros m Hin. cbn [e_heap e_done] in *. rewrite ok_at_upd; [auto|]. intros x. reflexivity.
  - unfold elaborate. destruct (elab_on st _) eqn:E; [|assumption]. apply (elab_on_inv _ _ _ Hi E).
  - unfold export, elaborate. destruct (elab_on st _) eqn:E; [|assumption]. apply (elab_on_inv _ _ _ Hi E).
Qed.

Lemma erun_inv ops : inv (erun ops).
Proof.
  unfold erun. assert (H : inv est0) by (intros m []). revert H. generalize est0.
  induction ops as [|op r IH]; cbn [fold_left]; intros st H; auto using estep_inv.
Qed.

(* every module of a returned package was completed by the call, and passes its checks *)
Lemma export_checked st tops st' pk : inv st -> export st tops = Some (st', pk) ->
  forall m, In m pk -> In m (e_done st') /\ ok_at (e_heap st') m = true.
Proof.
  intros Hi. unfold export, elaborate. destruct (elab_on st _) eqn:E; [|discriminate].
  intros H. inversion H; subst; clear H. destruct (elab_on_inv _ _ _ Hi E) as [Hi' [Hh Hv]].
  intros m Hin. rewrite Hh in Hin. split; [auto|]. apply Hi'. auto.
Qed.
