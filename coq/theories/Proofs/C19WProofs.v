(* Proofs/C19WProofs.v — lemmas behind Props/C19W.v: the whole of elaboration on the stack module of the repaired Series
   (every port of every unit, for every n and every width w of the series ports) gives exactly the nets the specification
   names; the reading `net_of` is injective on the keys of the specification; what is refused. *)
Require Import Hdl21.Base.PyInt Hdl21.Spec.PySlice Hdl21.Model.Slice Hdl21.Model.Resolve Hdl21.Model.Arrays
               Hdl21.Base.Design Hdl21.Spec.C19Topology Hdl21.Model.C19Series
               Hdl21.Proofs.SliceProofs Hdl21.Proofs.ResolveProofs Hdl21.Proofs.ArraysProofs Hdl21.Proofs.C19Proofs.
Open Scope string_scope.
Open Scope Z_scope.

Lemma traverse_ok_map {A B} (f : A -> result B) (h : A -> B) l :
  (forall y, In y l -> f y = Ok (h y)) -> traverse f l = Ok (map h l).
Proof.
  induction l as [|y l IH]; intros H; [reflexivity|]. cbn [map traverse].
  rewrite (H y (or_introl eq_refl)). cbn [bind]. rewrite IH; [reflexivity|]. intros z Hz. apply H. right. exact Hz.
Qed.

(* the nets of every bit of every port of every unit, as the model of elaboration lists them *)
Definition series_nets (iname : name) (io : list (name * Z)) (a b : name) (w n : Z) : list (list (list (name * Z))) :=
  map (fun k => map (fun pw : name * Z => map (fun j => net_of iname w (series_key n a b k (fst pw) j)) (bits_of (snd pw))) io) (bits_of n).

Lemma all_unit_bits_series u a b w n iname uname :
  wf_unit u = true -> 2 <= n -> a <> b -> assoc a (u_sigs u) = Some w -> assoc b (u_sigs u) = Some w ->
  mem iname (map fst (unit_io u)) = false ->
  all_unit_bits (series_module u a b w n iname uname) = Ok (series_nets iname (unit_io u) a b w n).
Proof.
  intros Hwf Hn Hab Ha Hb Hi. unfold all_unit_bits, series_module. rewrite m_insts_x.
  unfold elems_of. cbn [i_n]. assert (n =? 0 = false) as -> by lia.
  unfold series_nets. apply traverse_ok_map. intros k Hk. apply In_bits_of in Hk.
  cbn [inst_ports i_of]. apply traverse_ok_map. intros [p wp] Hin. cbn [fst snd].
  exact (series_model_meets_spec u a b w n iname uname k p wp Hwf Hn Hab Ha Hb Hi Hk Hin).
Qed.

(* flattened, they are the keys Spec/C19Topology.v lists for the unit terminals, read through net_of *)
Lemma series_nets_flat iname io a b w n :
  concat (map (@concat _) (series_nets iname io a b w n)) = map (net_of iname w) (unit_keys (series_key n a b) n io).
Proof.
  unfold series_nets, unit_keys. rewrite concat_map, !map_map. f_equal. apply map_ext. intros k.
  rewrite concat_map, map_map. f_equal. apply map_ext. intros pw. rewrite map_map. reflexivity.
Qed.

Lemma port_keys_flat iname io w :
  map (net_of iname w) (port_keys io) = concat (map (fun pw : name * Z => map (pair (fst pw)) (bits_of (snd pw))) io).
Proof.
  unfold port_keys. rewrite concat_map, map_map. f_equal. apply map_ext. intros pw. rewrite map_map. reflexivity.
Qed.

(* ---- the keys of the specification, and net_of on them ---- *)
Lemma In_port_keys io key : In key (port_keys io) -> exists p wp j, key = KPort p j /\ In (p, wp) io /\ 0 <= j < wp.
Proof.
  unfold port_keys. intros H. apply in_concat in H. destruct H as [l [Hl Hk]].
  apply in_map_iff in Hl. destruct Hl as [[p wp] [<- Hin]]. cbn [fst snd] in Hk.
  apply in_map_iff in Hk. destruct Hk as [j [<- Hj]]. apply In_bits_of in Hj. exists p, wp, j. auto.
Qed.

Lemma In_unit_keys key n io k0 : In k0 (unit_keys key n io) ->
  exists k p wp j, k0 = key k p j /\ In (p, wp) io /\ 0 <= j < wp /\ 0 <= k < n.
Proof.
  unfold unit_keys. intros H. apply in_concat in H. destruct H as [l [Hl Hk]].
  apply in_map_iff in Hl. destruct Hl as [k [<- Hkn]]. apply In_bits_of in Hkn.
  apply in_concat in Hk. destruct Hk as [l [Hl Hk]].
  apply in_map_iff in Hl. destruct Hl as [[p wp] [<- Hin]]. cbn [fst snd] in Hk.
  apply in_map_iff in Hk. destruct Hk as [j [<- Hj]]. apply In_bits_of in Hj. exists k, p, wp, j. auto.
Qed.

(* a key of spec_series is a port key of a port of the unit, or a chain key with bit index below w *)
Definition good_key (io : list (name * Z)) (w : Z) (key : netkey) : Prop :=
  match key with KPort p j => In p (map fst io) | KChain k j => 0 <= j < w end.

Lemma spec_series_good io a b w n key : nodup_names (map fst io) = true -> In (a, w) io -> In (b, w) io ->
  In key (spec_series n io a b) -> good_key io w key.
Proof.
  intros Hnd Ha Hb H. unfold spec_series in H. apply in_app_or in H. destruct H as [H|H].
  - destruct (In_port_keys io key H) as [p [wp [j [-> [Hin _]]]]]. cbn [good_key]. apply (in_map fst) in Hin. exact Hin.
  - destruct (In_unit_keys _ n io key H) as [k [p [wp [j [-> [Hin [Hj Hk]]]]]]].
    unfold series_key. destruct (String.eqb p a) eqn:Ea.
    + apply String.eqb_eq in Ea. subst p.
      assert (wp = w) as -> by (pose proof (assoc_In_nodup io a wp Hnd Hin); pose proof (assoc_In_nodup io a w Hnd Ha); congruence).
      destruct (k =? 0); cbn [good_key]; [apply (in_map fst) in Ha; exact Ha|exact Hj].
    + destruct (String.eqb p b) eqn:Eb.
      * apply String.eqb_eq in Eb. subst p.
        assert (wp = w) as -> by (pose proof (assoc_In_nodup io b wp Hnd Hin); pose proof (assoc_In_nodup io b w Hnd Hb); congruence).
        destruct (k =? n - 1); cbn [good_key]; [apply (in_map fst) in Hb; exact Hb|exact Hj].
      * cbn [good_key]. apply (in_map fst) in Hin. exact Hin.
Qed.

Lemma net_of_inj_good iname w io k1 k2 : mem iname (map fst io) = false -> good_key io w k1 -> good_key io w k2 ->
  (net_of iname w k1 = net_of iname w k2 <-> k1 = k2).
Proof.
  intros Hi G1 G2. split; [|intros ->; reflexivity].
  apply (net_of_injective iname w io k1 k2 Hi).
  - intros p j ->. exact G1.
  - intros p j ->. exact G2.
  - intros k j ->. exact G1.
  - intros k j ->. exact G2.
Qed.

(* ---------------- the statements of Props/C19W.v ---------------- *)
Lemma w_valid_series_elaborates u a b w n : wf_unit u = true -> 2 <= n -> a <> b ->
  assoc a (u_sigs u) = Some w -> assoc b (u_sigs u) = Some w ->
  valid_series u a b n = true /\
  exists iname uname, series_gen u a b n = Ok (series_module u a b w n iname uname) /\
    mem iname (map fst (unit_io u)) = false /\
    all_unit_bits (series_module u a b w n iname uname) = Ok (series_nets iname (unit_io u) a b w n) /\
    concat (map (@concat _) (series_nets iname (unit_io u) a b w n))
      = map (net_of iname w) (unit_keys (series_key n a b) n (unit_io u)).
Proof.
  intros Hwf Hn Hab Ha Hb. split.
  - unfold valid_series, sig_width. rewrite Ha, Hb, Z.eqb_refl.
    assert (String.eqb a b = false) as -> by (apply String.eqb_neq; exact Hab).
    pose proof (w_pos u a w Hwf Ha). cbn [negb andb]. destruct (n =? 1); lia.
  - destruct (series_gen_valid u a b n w w Hwf Hn Ha Hb) as [iname [uname [Hg [Hi _]]]].
    exists iname, uname. split; [exact Hg|]. split; [exact Hi|]. split.
    + exact (all_unit_bits_series u a b w n iname uname Hwf Hn Hab Ha Hb Hi).
    + exact (series_nets_flat iname (unit_io u) a b w n).
Qed.

Lemma w_keys_faithful u a b w n iname k1 k2 : wf_unit u = true ->
  assoc a (u_sigs u) = Some w -> assoc b (u_sigs u) = Some w -> mem iname (map fst (unit_io u)) = false ->
  In k1 (spec_series n (unit_io u) a b) -> In k2 (spec_series n (unit_io u) a b) ->
  (net_of iname w k1 = net_of iname w k2 <-> k1 = k2).
Proof.
  intros Hwf Ha Hb Hi H1 H2. destruct (wf_parts u Hwf) as [_ Hnd].
  apply (net_of_inj_good iname w (unit_io u) k1 k2 Hi).
  - exact (spec_series_good (unit_io u) a b w n k1 Hnd (sig_in_io u a w Ha) (sig_in_io u b w Hb) H1).
  - exact (spec_series_good (unit_io u) a b w n k2 Hnd (sig_in_io u a w Ha) (sig_in_io u b w Hb) H2).
Qed.

Lemma w_unequal_widths_refused u a b wa wb n : wf_unit u = true -> 2 <= n -> a <> b ->
  assoc a (u_sigs u) = Some wa -> assoc b (u_sigs u) = Some wb -> wa <> wb ->
  must_reject_series u a b n = true /\ valid_series u a b n = false /\
  exists iname uname, series_gen u a b n = Ok (series_module u a b wa n iname uname) /\
    exists e, all_unit_bits (series_module u a b wa n iname uname) = Error e.
Proof.
  intros Hwf Hn Hab Ha Hb Hne. split; [|split].
  - unfold must_reject_series, sig_width. rewrite Ha, Hb. assert (wa =? wb = false) as -> by lia.
    assert (2 <=? n = true) as -> by lia. apply orb_true_r.
  - unfold valid_series, sig_width. rewrite Ha, Hb. assert (wa =? wb = false) as -> by lia.
    assert (n =? 1 = false) as -> by lia. rewrite !andb_false_r. reflexivity.
  - destruct (series_gen_valid u a b n wa wb Hwf Hn Ha Hb) as [iname [uname [Hg _]]].
    exists iname, uname. split; [exact Hg|].
    exact (proj2 (series_unequal_refused u a b wa wb n iname uname Hwf Hn Hab Ha Hb Hne)).
Qed.

Lemma w_pinned_wide_refuted_all u a b w n : wf_unit u = true -> 2 <= n -> a <> b ->
  assoc a (u_sigs u) = Some w -> assoc b (u_sigs u) = Some w -> 2 <= w ->
  valid_series u a b n = true /\
  exists iname uname, series_gen_pinned u a b n = Ok (series_module_pinned u a b n iname uname) /\
    exists e, all_unit_bits (series_module_pinned u a b n iname uname) = Error e.
Proof.
  intros Hwf Hn Hab Ha Hb Hw. split; [exact (proj1 (w_valid_series_elaborates u a b w n Hwf Hn Hab Ha Hb))|].
  destruct (series_gen_pinned_valid u a b n w w Hn Ha Hb) as [iname [uname [Hg _]]].
  exists iname, uname. split; [exact Hg|].
  exact (series_pinned_wide_refused u a b w n iname uname Hwf Hn Hab Ha Hw).
Qed.

Lemma w_pinned_refuted : exists u a b n, wf_unit u = true /\ valid_series u a b n = true /\
  (m <- series_gen_pinned u a b n ;; all_unit_bits m) = Error EWidth /\
  exists l, (m <- series_gen u a b n ;; all_unit_bits m) = Ok l.
Proof.
  exists {| u_sigs := [("a", 2); ("b", 2); ("c", 1)]; u_buns := [] |}, "a", "b", 2.
  split; [reflexivity|]. split; [reflexivity|]. split; [reflexivity|]. eexists. vm_compute. reflexivity.
Qed.

Lemma w_mosstack_wide u w n : wf_unit u = true -> 2 <= n ->
  assoc "d" (u_sigs u) = Some w -> assoc "s" (u_sigs u) = Some w ->
  exists iname uname, mosstack_gen u n = Ok (series_module u "d" "s" w n iname uname) /\
    all_unit_bits (series_module u "d" "s" w n iname uname) = Ok (series_nets iname (unit_io u) "d" "s" w n).
Proof.
  intros Hwf Hn Ha Hb.
  destruct (w_valid_series_elaborates u "d" "s" w n Hwf Hn ltac:(discriminate) Ha Hb) as [_ [iname [uname [Hg [_ [He _]]]]]].
  exists iname, uname. split; [exact Hg|exact He].
Qed.
