(* Proofs/C07EProofsHist.v — histories of elaborate / to_proto / netlist calls on the concrete pass manager:
   the theorems of Props/C07.v instantiated with the hypotheses discharged in Proofs/C07EProofsInst.v, the canonical
   content replaced by `elab_mod` (canon_is_elab_mod).
     calls_ok         a history of calls accepts no add() and keeps the design
     hist_content     once a call of the history reached m, the content of m is elab_mod d m (= fresh single call)
     hist_export      the answer of Export / Netlist after any history lists elab_mod d m for the modules below the tops
     state_design_iff reading the final state as a design: Ok d3 iff, module by module, d3 holds the contents
     top_reaches_all  with all_used, every module is below the top module *)
From Coq Require Import String.
Require Import Hdl21.Base.PyInt Hdl21.Spec.PySlice Hdl21.Model.Slice Hdl21.Model.Resolve Hdl21.Base.Design
               Hdl21.Spec.WfDesign Hdl21.Base.Package Hdl21.Model.C01EElab Hdl21.Model.C02EPipeline Hdl21.Model.C07EConcrete
               Hdl21.Proofs.C01EProofsBase Hdl21.Proofs.C01EProofsDfs Hdl21.Proofs.C02EProofsNames
               Hdl21.Proofs.C07EProofsExt Hdl21.Proofs.C07EProofsInst Hdl21.Proofs.C07EProofsChain.
Require Hdl21.Proofs.C07Proofs Hdl21.Props.C07.
Module PT := Hdl21.Props.C07.
Open Scope Z_scope.

Definition calls_only (h : list PM.op) : bool := forallb is_call h.

(* module m is, or is below, a top of some (well-formed) call of the history *)
Definition reached (d : design) (h : list PM.op) (m : nat) : Prop :=
  exists o t, In o h /\ is_call o = true /\ PM.all_below (Datatypes.length (d_mods d)) (op_tops o) = true /\
              In t (op_tops o) /\ PP.desc (ckids d) t m.

Section Hist.
Variables (ck : bool) (xi : xinfo) (d : design).
Hypothesis Hh : hier_design d = Ok tt.

Notation kd := (ckids d).
Notation step := (cstep ck xi).
Notation run := (crun ck xi).
Notation CInv := (PP.Inv ccont ports ports (cinit d) cbio cbio (cbody ck xi) ccaches cbf cmk).
Notation creach := (PP.reachable ccont ports ports (cinit d) cbio cbio (cbody ck xi) caddc ccaches cbf cmk kd).
Notation ccanon := (PP.canon ccont ports ports (cinit d) cbio cbio (cbody ck xi) ccaches cbf).
Notation n := (Datatypes.length (d_mods d)).

Let W : PM.wf_design kd = true := ckids_wf d Hh.

Lemma creach_inv st : creach st -> CInv st.
Proof. apply (PT.r_inv ccont ports ports (cinit d) cbio cbio (cbody ck xi) caddc ccaches cbf cmk cbf_eff cmk_eff (cframe_b ck xi) (cframe_f ck xi) kd st W). Qed.

Lemma call_step st o : CInv st -> is_call o = true ->
  PP.no_edit ccont (snd (step st o)) /\ PM.s_design (fst (step st o)) = PM.s_design st.
Proof.
  intros I Ho. unfold cstep.
  assert (forall tops, PM.all_below (Datatypes.length (PM.s_design st)) tops = true ->
            PM.s_design (PM.elab_call ccont ports ports cbio cbio (cbody ck xi) ccaches cbf cmk tops st) = PM.s_design st) as G.
  { intros tops A.
    destruct (PP.elab_call_ok ccont ports ports (cinit d) cbio cbio (cbody ck xi) caddc ccaches cbf cmk cbf_eff cmk_eff
                (cframe_b ck xi) (cframe_f ck xi) tops st I (PP.all_below_spec _ _ A)) as [_ [D1 _]]. exact D1. }
  destruct o as [tops|tops|tops|ks|m a]; try discriminate; cbn [PM.step];
    destruct (PM.all_below (Datatypes.length (PM.s_design st)) tops) eqn:A; cbn [fst snd];
    (split; [discriminate|]); try reflexivity; apply G; exact A.
Qed.

Lemma calls_ok : forall h st, creach st -> calls_only h = true ->
  PP.no_edits ccont (snd (run st h)) /\ PM.s_design (fst (run st h)) = PM.s_design st /\ creach (fst (run st h)).
Proof.
  induction h as [|o h IH]; intros st R Hc; cbn [PM.run crun]; [cbn; auto|].
  unfold calls_only in Hc. cbn [forallb] in Hc. apply andb_prop in Hc. destruct Hc as [Ho Hc].
  destruct (call_step st o (creach_inv st R) Ho) as [NE D1].
  unfold crun. cbn [PM.run]. fold (cstep ck xi st o).
  destruct (step st o) as [st1 r] eqn:E1. cbn [fst snd] in NE, D1.
  assert (creach st1) as R1.
  { replace st1 with (fst (step st o)) by (rewrite E1; reflexivity). constructor; [exact R|]. unfold cstep in E1. rewrite E1. exact NE. }
  destruct (IH st1 R1 Hc) as [NE2 [D2 R2]]. unfold crun in NE2, D2, R2.
  destruct (PM.run ccont ports ports cbio cbio (cbody ck xi) caddc ccaches cbf cmk st1 h) as [st2 rs] eqn:E2. cbn [fst snd] in *.
  split; [split; assumption|]. split; [congruence|exact R2].
Qed.

Lemma run_app : forall h1 h2 st,
  fst (run st (h1 ++ h2)) = fst (run (fst (run st h1)) h2).
Proof.
  unfold crun. induction h1 as [|o h1 IH]; intros h2 st; cbn [app PM.run fst]; [reflexivity|].
  destruct (PM.step ccont ports ports cbio cbio (cbody ck xi) caddc ccaches cbf cmk st o) as [st1 r].
  specialize (IH h2 st1).
  destruct (PM.run ccont ports ports cbio cbio (cbody ck xi) caddc ccaches cbf cmk st1 (h1 ++ h2)) as [sa ra].
  destruct (PM.run ccont ports ports cbio cbio (cbody ck xi) caddc ccaches cbf cmk st1 h1) as [sb rb].
  cbn [fst] in *. exact IH.
Qed.

Lemma run_cons o h st : fst (run st (o :: h)) = fst (run (fst (step st o)) h).
Proof.
  unfold crun, cstep. cbn [PM.run]. destruct (PM.step ccont ports ports cbio cbio (cbody ck xi) caddc ccaches cbf cmk st o) as [st1 r].
  cbn [fst]. destruct (PM.run ccont ports ports cbio cbio (cbody ck xi) caddc ccaches cbf cmk st1 h) as [st2 rs]. reflexivity.
Qed.

Lemma fresh_reach : creach (cfresh d).
Proof. unfold cfresh. constructor. Qed.

Lemma desc_lt t m : (t < n)%nat -> PP.desc kd t m -> (m < n)%nat.
Proof. intros Ht D. pose proof (PP.desc_below kd t m (ckids_WF d Hh) D). lia. Qed.

Lemma canon_elab m : (m < n)%nat -> ccanon kd cP m = elab_mod ck xi d m.
Proof.
  intros Hm. destruct (nth_error (d_mods d) m) as [m0|] eqn:E; [|apply nth_error_None in E; lia].
  apply (canon_is_elab_mod ck xi d Hh m m0 E).
Qed.

(* once a call of the history has reached module m, its content is the per-module pipeline of the written design -
   which is also what the single call elaborate([m]) computes in a fresh process *)
Theorem hist_content h m : calls_only h = true -> reached d h m ->
  PM.s_content (fst (run (cfresh d) h)) m = elab_mod ck xi d m /\
  PM.s_content (fst (run (cfresh d) h)) m = PM.s_content (fst (step (cfresh d) (PM.Elaborate [m]))) m.
Proof.
  intros Hc [o [t [Hin [Ho [A [Ht D]]]]]].
  destruct (in_split _ _ Hin) as [h1 [h2 ->]].
  unfold calls_only in Hc. rewrite forallb_app in Hc. apply andb_prop in Hc. destruct Hc as [Hc1 Hc2].
  cbn [forallb] in Hc2. apply andb_prop in Hc2. destruct Hc2 as [_ Hc2].
  rewrite run_app, run_cons.
  set (st1 := fst (run (cfresh d) h1)). set (st2 := fst (step st1 o)). set (st3 := fst (run st2 h2)).
  destruct (calls_ok h1 (cfresh d) fresh_reach Hc1) as [_ [D1 R1]]. fold st1 in D1, R1.
  assert (PM.s_design st1 = kd) as D1' by (rewrite D1; reflexivity).
  destruct (call_step st1 o (creach_inv st1 R1) Ho) as [NE2 D2]. fold st2 in D2.
  assert (creach st2) as R2 by (unfold st2; constructor; [exact R1|exact NE2]).
  destruct (calls_ok h2 st2 R2 Hc2) as [NE3 [D3 R3]]. fold st3 in D3, R3.
  assert (PM.s_design st3 = kd) as D3' by congruence.
  destruct (PT.C07_continuation ccont ports ports (cinit d) cbio cbio (cbody ck xi) caddc ccaches cbf cmk cbf_eff cmk_eff
              (cframe_b ck xi) (cframe_f ck xi) kd st2 h2 W R2 NE3) as [_ [Mono _]].
  assert (o = PM.Elaborate (op_tops o) \/ o = PM.Export (op_tops o) \/ o = PM.Netlist (op_tops o)) as Hform.
  { destruct o; try discriminate; cbn [op_tops]; auto. }
  assert (PM.all_below (Datatypes.length (PM.s_design st1)) (op_tops o) = true) as A1 by (rewrite D1', ckids_length; exact A).
  assert (PP.desc (PM.s_design st1) t m) as Dd by (rewrite D1'; exact D).
  destruct (PT.C07_content_history_independent ccont ports ports (cinit d) cbio cbio (cbody ck xi) caddc ccaches cbf cmk cbf_eff cmk_eff
              (cframe_b ck xi) (cframe_f ck xi) kd st1 o (op_tops o) t m st3 W R1 Hform A1 Ht Dd R3 Mono
              ltac:(intros x _; rewrite D3', D1'; reflexivity) ltac:(rewrite D3', D1'; lia)) as [E1 E2].
  rewrite D3' in E1, E2. split; [|exact E1]. rewrite E2.
  apply canon_elab. apply (desc_lt t m); [|exact D]. apply (PP.all_below_spec _ _ A t Ht).
Qed.

(* the observable: after any history of calls, an Export / Netlist of any tops answers the per-module pipeline of the
   written design for every module below the tops, dependencies first - and so does the same call in a fresh process *)
Theorem hist_export h tops : calls_only h = true -> PM.all_below n tops = true ->
  let st := fst (run (cfresh d) h) in
  snd (step st (PM.Export tops)) = PM.RPkg ccont (map (fun m => (m, elab_mod ck xi d m)) (PM.export_order kd tops)) /\
  snd (step st (PM.Netlist tops)) = snd (step st (PM.Export tops)) /\
  snd (step st (PM.Export tops)) = snd (step (cfresh d) (PM.Export tops)).
Proof.
  intros Hc A st. destruct (calls_ok h (cfresh d) fresh_reach Hc) as [_ [D1 R1]]. fold st in D1, R1.
  assert (PM.s_design st = kd) as D1' by (rewrite D1; reflexivity).
  assert (PM.all_below (Datatypes.length (PM.s_design st)) tops = true) as A1 by (rewrite D1', ckids_length; exact A).
  destruct (PT.C07_history_independent ccont ports ports (cinit d) cbio cbio (cbody ck xi) caddc ccaches cbf cmk cbf_eff cmk_eff
              (cframe_b ck xi) (cframe_f ck xi) kd st tops W R1 A1) as [E1 [E2 E3]].
  rewrite D1' in E1, E2, E3. unfold cstep, cfresh.
  assert (snd (PM.step ccont ports ports cbio cbio (cbody ck xi) caddc ccaches cbf cmk st (PM.Netlist tops)) =
          snd (PM.step ccont ports ports cbio cbio (cbody ck xi) caddc ccaches cbf cmk st (PM.Export tops))) as EN by reflexivity.
  split; [|split; [exact EN|exact E1]].
  rewrite E3. f_equal. apply map_ext_in. intros m Hm. f_equal. apply canon_elab.
  apply PP.export_order_desc in Hm. destruct Hm as [t [Ht D]]. apply (desc_lt t m); [|exact D].
  apply (PP.all_below_spec _ _ A t Ht).
Qed.

(* elaborating or exporting again changes nothing *)
Theorem hist_idempotent h tops tops' : calls_only h = true -> PM.all_below n tops = true ->
  (forall t', In t' tops' -> exists t, In t tops /\ PP.desc kd t t') ->
  let st1 := fst (step (fst (run (cfresh d) h)) (PM.Elaborate tops)) in
  fst (step st1 (PM.Elaborate tops')) = st1 /\ fst (step st1 (PM.Export tops')) = st1 /\ fst (step st1 (PM.Netlist tops')) = st1.
Proof.
  intros Hc A Hd. destruct (calls_ok h (cfresh d) fresh_reach Hc) as [_ [D1 R1]].
  set (st := fst (run (cfresh d) h)) in *.
  assert (PM.s_design st = kd) as D1' by (rewrite D1; reflexivity).
  apply (PT.C07_idempotent ccont ports ports (cinit d) cbio cbio (cbody ck xi) caddc ccaches cbf cmk cbf_eff cmk_eff
           (cframe_b ck xi) (cframe_f ck xi) kd st tops tops' W R1).
  - rewrite D1', ckids_length. exact A.
  - rewrite D1'. exact Hd.
Qed.

(* ------------------------------------------------------------------------------------------ the state as a design *)
Lemma traverse_seq_nth {A} (f : nat -> result A) : forall len a l, traverse f (seq a len) = Ok l <->
  (Datatypes.length l = len /\ forall j, (j < len)%nat -> exists x, nth_error l j = Some x /\ f (a + j)%nat = Ok x).
Proof.
  induction len as [|len IH]; intros a l; cbn [seq traverse].
  - split.
    + intros H. inversion H; subst. split; [reflexivity|]. intros j Hj. lia.
    + intros [Hl _]. destruct l; [reflexivity|discriminate].
  - split.
    + intros H. apply bind_ok in H. destruct H as [x [Hx H]]. apply bind_ok in H. destruct H as [r [Hr H]]. inversion H; subst.
      apply IH in Hr. destruct Hr as [Hl Hn]. split; [cbn; congruence|].
      intros j Hj. destruct j as [|j]; [exists x; rewrite Nat.add_0_r; auto|].
      destruct (Hn j ltac:(lia)) as [y [H1 H2]]. exists y. split; [exact H1|]. replace (a + S j)%nat with (S a + j)%nat by lia. exact H2.
    + intros [Hl Hn]. destruct l as [|x r]; [discriminate|].
      destruct (Hn 0%nat ltac:(lia)) as [x' [H1 H2]]. cbn in H1. inversion H1; subst x'. rewrite Nat.add_0_r in H2. rewrite H2. cbn [bind].
      assert (traverse f (seq (S a) len) = Ok r) as Hr.
      { apply IH. split; [cbn in Hl; lia|]. intros j Hj. destruct (Hn (S j) ltac:(lia)) as [y [Hy1 Hy2]]. exists y. split; [exact Hy1|].
        replace (S a + j)%nat with (a + S j)%nat by lia. exact Hy2. }
      rewrite Hr. reflexivity.
Qed.

Lemma state_design_iff (st : cstate) d3 : state_design d st = Ok d3 <->
  (d_top d3 = d_top d /\ Datatypes.length (d_mods d3) = n /\
   forall j, (j < n)%nat -> exists m3, nth_error (d_mods d3) j = Some m3 /\ PM.s_content st j = cok m3).
Proof.
  unfold state_design. split.
  - intros H. apply bind_ok in H. destruct H as [ms [Hms H]]. inversion H; subst d3. cbn [d_mods d_top].
    apply traverse_seq_nth in Hms. destruct Hms as [Hl Hn]. split; [reflexivity|]. split; [exact Hl|].
    intros j Hj. destruct (Hn j Hj) as [x [H1 H2]]. exists x. split; [exact H1|]. apply cont_result_cok. exact H2.
  - intros [Ht [Hl Hn]].
    assert (traverse (fun k => cont_result (PM.s_content st k)) (seq 0 n) = Ok (d_mods d3)) as Hms.
    { apply traverse_seq_nth. split; [exact Hl|]. intros j Hj. destruct (Hn j Hj) as [m3 [H1 H2]]. exists m3. split; [exact H1|].
      apply cont_result_cok. exact H2. }
    rewrite Hms. cbn [bind]. rewrite <- Ht. destruct d3; reflexivity.
Qed.

(* a history whose calls reach every module: the design the manager then holds is the per-module pipeline's *)
Theorem hist_state_design h d3 : calls_only h = true -> (forall m, (m < n)%nat -> reached d h m) ->
  (state_design d (fst (run (cfresh d) h)) = Ok d3 <-> per_module ck xi d d3).
Proof.
  intros Hc Hr. rewrite state_design_iff. unfold per_module. split.
  - intros [Ht [Hl Hn]]. split; [exact Ht|]. split; [exact Hl|]. intros j m Hj.
    assert (j < n)%nat as Hjn by (apply nth_error_Some; congruence).
    destruct (Hn j Hjn) as [m3 [H1 H2]]. exists m3. split; [exact H1|].
    rewrite <- (proj1 (hist_content h j Hc (Hr j Hjn))). exact H2.
  - intros [Ht [Hl Hn]]. split; [exact Ht|]. split; [exact Hl|]. intros j Hjn.
    destruct (nth_error (d_mods d) j) as [m|] eqn:Ej; [|apply nth_error_None in Ej; lia].
    destruct (Hn j m Ej) as [m3 [H1 H2]]. exists m3. split; [exact H1|].
    rewrite (proj1 (hist_content h j Hc (Hr j Hjn))). exact H2.
Qed.
End Hist.

(* ------------------------------------------------------------------------------------------ the top module reaches everything *)
Lemma child_kids d j j' : child d j j' -> In j' (PM.kids (ckids d) j).
Proof.
  intros [m [x [Hm [Hx Ho]]]]. apply nth_mod_nth in Hm. rewrite (ckids_kids d j m Hm). apply mod_kids_In. eauto.
Qed.

Theorem top_reaches_all d : hier_design d = Ok tt -> all_used d = true -> (d_top d < Datatypes.length (d_mods d))%nat ->
  forall m, (m < Datatypes.length (d_mods d))%nat -> PP.desc (ckids d) (d_top d) m.
Proof.
  intros Hh Hu Ht. apply (closed_covers d (fun k => PP.desc (ckids d) (d_top d) k) (hier_design_ok d Hh) Hu Ht).
  - apply PP.desc_refl.
  - intros j j' Hj Hc. clear Ht. induction Hj as [x|x c y Hin Hd IH].
    + apply (PP.desc_step _ x j' j'); [apply child_kids; exact Hc|apply PP.desc_refl].
    + apply (PP.desc_step _ x c j' Hin). apply IH. exact Hc.
Qed.
