(* Proofs/C01EProofsPortRefsD.v — ResolvePortRefs on a whole design: the result is wfs; the only failure on a valid
   design of the fragment is flatname's length limit; same_net is kept (a rewiring in the sense of
   C01EProofsGraph.rewire_meet: references are replaced by the group's connection, implicit and private signals are new
   nodes that the retraction psi sends back to a port of the group they stand for). *)
From Coq Require Import String.
Require Import Hdl21.Base.PyInt Hdl21.Spec.PySlice Hdl21.Model.Slice Hdl21.Model.Resolve Hdl21.Base.Design
               Hdl21.Spec.Nets Hdl21.Spec.WfDesign Hdl21.Spec.C01ENets Hdl21.Model.C01EElab Hdl21.Proofs.FunGraph
               Hdl21.Proofs.ResolveProofs Hdl21.Proofs.C01EProofsGraph Hdl21.Proofs.C01EProofsBase Hdl21.Proofs.C01EProofsPass
               Hdl21.Proofs.C01EProofsSim Hdl21.Proofs.C01EProofsWfs Hdl21.Proofs.C01EProofsNames Hdl21.Proofs.C01EProofsGroups
               Hdl21.Proofs.C01EProofsPlan Hdl21.Proofs.C01EProofsPortRefs Hdl21.Proofs.C01EProofsSlices
               Hdl21.Proofs.C01EProofsArrays Hdl21.Proofs.C01EProofsExport.
Open Scope Z_scope.

(* ---- port widths of a valid design are at least 1 ---- *)
Lemma port_widths_pos xi d k m x ports pw : wf_design d = Ok tt -> xinfo_ok xi d = true ->
  nth_mod d k = Ok m -> In x (m_insts m) -> target_ports d (i_of x) = Ok ports -> In pw ports -> 1 <= snd pw.
Proof.
  intros Hwf Hxi Hm Hx Hp Hin. destruct (i_of x) as [j|dev dports] eqn:Eo; cbn [target_ports] in Hp.
  - destruct (nth_mod d j) as [mj|] eqn:Ej; cbn [bind] in Hp; [|discriminate]. inversion Hp; subst ports.
    destruct (wf_design_inv _ Hwf) as [_ [_ Hmods]]. pose proof (Hmods j mj (proj1 (nth_mod_nth _ _ _) Ej)) as Hwj.
    destruct (wf_module_inv _ _ _ Hwj) as [_ [_ [Hw _]]]. rewrite forallb_forall in Hw. specialize (Hw pw (in_or_app _ _ _ (or_introl Hin))). lia.
  - inversion Hp; subst ports. destruct (xinfo_dev xi d k m x dev dports Hxi Hm Hx Eo) as [v [e [_ [_ [Hw _]]]]].
    rewrite forallb_forall in Hw. specialize (Hw pw Hin). lia.
Qed.

Lemma portrefs_module_inv d ncn m m1' : portrefs_module d ncn m = Ok m1' ->
  exists keys allocs names insts1, all_keys d m = Ok keys /\ plan d ncn m keys (seeds m) [] = Ok allocs /\
    alloc_names (map a_base allocs) (namespace m) = Ok names /\
    Forall2 (fun x x1 => rewrite_inst m keys (number_allocs (combine allocs names) (next_leaf m)) x = Ok x1) (m_insts m) insts1 /\
    m1' = m1 m allocs names insts1.
Proof.
  unfold portrefs_module, pr_table. intros H. apply bind_ok in H. destruct H as [[keys table] [Ht H]].
  apply bind_ok in Ht. destruct Ht as [keys' [Hk Ht]]. apply bind_ok in Ht. destruct Ht as [allocs [Ha Ht]].
  apply bind_ok in Ht. destruct Ht as [names [Hn Ht]]. inversion Ht; subst keys' table. cbn [fst snd] in H.
  apply bind_ok in H. destruct H as [insts1 [Hi H]]. inversion H; subst m1'.
  exists keys, allocs, names, insts1. split; [exact Hk|]. split; [exact Ha|]. split; [exact Hn|]. split; [apply traverse_Forall2; exact Hi|reflexivity].
Qed.

Lemma frag_ok_module d k m : frag_ok d = true -> nth_mod d k = Ok m -> forall x c, In x (m_insts m) -> In c (i_conns x) -> conn_frag d m x c = true.
Proof. intros H Hm x c Hx Hc. eapply frag_ok_conn; eassumption. Qed.

Lemma module_ok_keep d d' k m : (forall t ps, target_ports d t = Ok ps -> target_ports d' t = Ok ps) -> module_ok d k m -> module_ok d' k m.
Proof.
  intros Htp [H1 [H2 [H3 H4]]]. split; [exact H1|]. split; [exact H2|]. split; [exact H3|].
  eapply Forall_impl; [|exact H4]. intros x. apply inst_ok_keep; auto.
Qed.

Lemma portrefs_ports_keep d ncn : forall m m', portrefs_module d ncn m = Ok m' -> m_ports m' = m_ports m.
Proof. intros m m' H. destruct (portrefs_module_inv _ _ _ _ H) as [keys [allocs [names [insts1 [_ [_ [_ [_ ->]]]]]]]]. reflexivity. Qed.

Theorem portrefs_wfs xi d d1 : wf_design d = Ok tt -> frag_ok d = true -> xinfo_ok xi d = true ->
  portrefs_design xi d = Ok d1 -> wfs d1.
Proof.
  intros Hwf Hfr Hxi Hpass. destruct (wf_design_inv _ Hwf) as [Htop [Hnd Hmods]]. unfold portrefs_design in Hpass.
  assert (forall t ps, target_ports d t = Ok ps -> target_ports d1 t = Ok ps) as Htp.
  { intros t ps. apply (target_ports_keep _ _ _ t Hpass). intros m m' H. eapply portrefs_ports_keep. exact H. }
  split; [|split].
  - rewrite (map_modules_length _ _ _ Hpass). rewrite (proj1 (map_modules_inv _ _ _ Hpass)). exact Htop.
  - rewrite (map_modules_names _ _ _ Hpass); [exact Hnd|]. intros m m' H. destruct (portrefs_module_inv _ _ _ _ H) as [keys [allocs [names [insts1 [_ [_ [_ [_ ->]]]]]]]]. reflexivity.
  - intros k m1' Hk. destruct (map_modules_nth_rev _ _ _ _ _ Hpass Hk) as [m [Hkm Hm]].
    destruct (portrefs_module_inv _ _ _ _ Hm) as [keys [allocs [names [insts1 [Hkeys [Hplan [Hnames [Hins ->]]]]]]]].
    apply (module_ok_keep d d1 k _ Htp).
    refine (pr_module_ok d (ncnames xi m) k m (Hmods k m Hkm) (frag_ok_module d k m Hfr (proj2 (nth_mod_nth _ _ _) Hkm)) _
              keys allocs names Hkeys Hplan Hnames insts1 Hins).
    intros x ports pw Hx Hp Hin. eapply port_widths_pos; try eassumption. apply nth_mod_nth. exact Hkm.
Qed.

(* ------------------------------------------------------------------------------------------ the only failure is the name length limit *)
Section PRTotal.
Variables (d : design) (ncn : list (N * name)) (km : nat) (m : module).
Hypothesis Hwm : wf_module d km m = Ok tt.
Hypothesis Hfrag : forall x c, In x (m_insts m) -> In c (i_conns x) -> conn_frag d m x c = true.
Hypothesis Hpw : forall x ports pw, In x (m_insts m) -> target_ports d (i_of x) = Ok ports -> In pw ports -> 1 <= snd pw.

Lemma all_keys_total : exists keys, all_keys d m = Ok keys.
Proof.
  unfold all_keys.
  assert (forall l : list inst, (forall x, In x l -> exists ps, target_ports d (i_of x) = Ok ps) ->
            exists keys, cat_results (map (fun x => if single x then ps <- target_ports d (i_of x) ;; Ok (map (fun pw : name * Z => (i_name x, fst pw)) ps)
                                                  else Ok []) l) = Ok keys) as G.
  { induction l as [|x l IH]; intros H; cbn [map cat_results]; [eauto|].
    destruct IH as [keys Hk]; [intros y Hy; apply H; right; exact Hy|]. rewrite Hk.
    destruct (single x); [destruct (H x (or_introl eq_refl)) as [ps ->]|]; cbn [bind]; eauto. }
  apply G. intros x Hx. destruct (wf_module_inv _ _ _ Hwm) as [_ [_ [_ Hi]]]. destruct (wf_inst_inv _ _ _ _ (Hi x Hx)) as [_ [ports [Hp _]]]. eauto.
Qed.

Variable keys : list key.
Hypothesis Hkeys : all_keys d m = Ok keys.

Lemma group_res_total q g : In q (mentioned m) -> In q keys -> gid m keys q = Some g -> exists gr, group_res m keys g = Ok gr.
Proof.
  intros Hq Hqk Hg. destruct (gid_spec d km m keys Hwm Hfrag Hkeys q g Hqk Hg) as [Hgk Cg].
  pose proof (gid_idem d km m keys Hwm Hfrag Hkeys q g Hqk Hg) as Hgg.
  destruct (attr_spec d km m keys Hwm Hfrag Hkeys g Hgk) as [Hrk Cr]. unfold group_res.
  destruct (pconn m (attr m keys g)) as [cx|] eqn:Ep; [|eauto].
  destruct (as_ref m cx) eqn:Er.
  - destruct (members m keys g) as [|x t] eqn:Em; [|eauto]. exfalso.
    assert (In g (members m keys g)) as Hin by (apply members_In; auto). rewrite Em in Hin. destruct Hin.
  - destruct (as_nc m cx) as [site|] eqn:En; [|eauto]. exfalso.
    apply (root_not_nc d km m Hwm Hfrag Hpw keys Hkeys q (attr m keys g) cx site Hq Hrk); [|exact Ep|exact En].
    eapply c_trans; [apply c_sym; exact Cg|exact Cr].
Qed.

Lemma plan_total : forall ss done, Forall (seed_ok m keys) ss -> (forall q, In (SRef q) ss -> In q (mentioned m)) ->
  exists allocs, plan d ncn m keys ss done = Ok allocs.
Proof.
  induction ss as [|s r IH]; intros done Hok Hment; cbn [plan]; [eauto|]. inversion Hok as [|? ? Hs Hr]; subst.
  assert (forall q, In (SRef q) r -> In q (mentioned m)) as Hment' by (intros q Hq; apply Hment; right; exact Hq).
  destruct s as [q|x p site].
  - cbn [seed_ok] in Hs. destruct (gid_total d km m keys Hwm Hfrag Hkeys q Hs) as [g Hg]. rewrite Hg. cbn [ofopt bind].
    destruct (kmem g done); [apply IH; assumption|].
    destruct (group_res_total q g (Hment q (or_introl eq_refl)) Hs Hg) as [gr Hgr]. rewrite Hgr. cbn [bind].
    destruct gr as [cx|o namer]; [apply IH; assumption|].
    destruct (gid_spec d km m keys Hwm Hfrag Hkeys q g Hs Hg) as [Hgk _].
    destruct (group_res_fresh d km m Hwm Hfrag keys Hkeys g o namer Hgk (gid_idem d km m keys Hwm Hfrag Hkeys q g Hs Hg) Hgr) as [_ [_ [Hnk _]]].
    destruct (key_width_keys d km m keys Hwm Hkeys namer Hnk) as [w Hw]. rewrite Hw. cbn [bind].
    destruct (IH (g :: done) Hr Hment') as [rest ->]. cbn [bind]. eauto.
  - cbn [seed_ok] in Hs. destruct Hs as [Hx [cx [Hc _]]].
    destruct (wf_module_inv _ _ _ Hwm) as [_ [_ [_ Hi]]]. destruct (wf_inst_inv _ _ _ _ (Hi x Hx)) as [_ [ports [Hp [_ [Hwc _]]]]].
    destruct (wf_conn_inv _ _ _ _ _ (Hwc _ Hc)) as [w [Hw _]]. cbn [fst] in Hw.
    assert (port_width d x p = Ok w) as -> by (unfold port_width; rewrite Hp; cbn [bind]; rewrite Hw; reflexivity). cbn [bind].
    destruct (IH done Hr Hment') as [rest ->]. cbn [bind]. eauto.
Qed.

Lemma seeds_mentioned q : In (SRef q) (seeds m) -> In q (mentioned m).
Proof.
  unfold seeds. intros H. apply in_flat_map in H. destruct H as [x [_ H]]. unfold inst_seeds in H. apply in_app_or in H. destruct H as [H|H].
  - apply in_map_iff in H. destruct H as [q' [E H]]. inversion E; subst q'. apply filter_In in H. tauto.
  - apply in_flat_map in H. destruct H as [c [_ H]]. destruct (as_nc m (snd c)); [destruct H as [E|[]]; discriminate|destruct H].
Qed.

Theorem portrefs_module_total : (exists m', portrefs_module d ncn m = Ok m') \/ portrefs_module d ncn m = Error EName.
Proof.
  unfold portrefs_module, pr_table. rewrite Hkeys. cbn [bind].
  destruct (plan_total (seeds m) [] (pr_seeds_ok d km m Hwm Hfrag keys Hkeys) seeds_mentioned) as [allocs Hplan]. rewrite Hplan. cbn [bind].
  destruct (alloc_names (map a_base allocs) (namespace m)) as [names|e] eqn:Hnames; cbn [bind fst snd].
  2:{ right. rewrite (alloc_names_err _ _ _ Hnames). reflexivity. }
  left. destruct (traverse_total (rewrite_inst m keys (number_allocs (combine allocs names) (next_leaf m))) (m_insts m)) as [is ->]; [|cbn [bind]; eauto].
  intros x Hx. unfold rewrite_inst.
  destruct (traverse_total (rewrite_conn m keys (number_allocs (combine allocs names) (next_leaf m)) x) (i_conns x)) as [cs ->]; [|cbn [bind]; eauto].
  intros c Hc. destruct (pr_rewrite_conn d ncn km m Hwm Hfrag Hpw keys allocs names Hkeys Hplan Hnames x c Hx Hc) as [e [He _]]. eauto.
Qed.
End PRTotal.

Theorem portrefs_total xi d : wf_design d = Ok tt -> frag_ok d = true -> xinfo_ok xi d = true ->
  (exists d1, portrefs_design xi d = Ok d1) \/ portrefs_design xi d = Error EName.
Proof.
  intros Hwf Hfr Hxi. destruct (wf_design_inv _ Hwf) as [_ [_ Hmods]]. unfold portrefs_design. apply map_modules_ok_or.
  intros k m Hk. destruct (all_keys_total d k m (Hmods k m Hk)) as [keys Hkeys].
  refine (portrefs_module_total d (ncnames xi m) k m (Hmods k m Hk) (frag_ok_module d k m Hfr (proj2 (nth_mod_nth _ _ _) Hk)) _ keys Hkeys).
  intros x ports pw Hx Hp Hin. eapply port_widths_pos; try eassumption. apply nth_mod_nth. exact Hk.
Qed.
