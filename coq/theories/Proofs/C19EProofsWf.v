(* Proofs/C19EProofsWf.v — the Series / Wrapper designs are valid (Spec/WfDesign.v) and inside the fragment of the
   end-to-end theorem (frag_ok, hence frag_ok2), their terminal bits are valid nodes; composition with
   Proofs/C01FProofsEnd.v:end_to_end2 (= Props/C01F.v:C01F_valid_nodes_partial). For all n >= 2, all units. *)
Require Import Hdl21.Base.PyInt Hdl21.Spec.PySlice Hdl21.Model.Slice Hdl21.Model.Resolve Hdl21.Base.Design
               Hdl21.Spec.Nets Hdl21.Spec.WfDesign Hdl21.Spec.C01ENets Hdl21.Base.Package Hdl21.Base.PrimTable
               Hdl21.Model.C01EElab Hdl21.Model.C01FElab Hdl21.Spec.C01FNets
               Hdl21.Proofs.C01EProofsBase Hdl21.Proofs.C01FProofsEnd
               Hdl21.Spec.C19Topology Hdl21.Model.C19Series Hdl21.Proofs.ResolveProofs Hdl21.Proofs.C19Proofs
               Hdl21.Model.C19EDesign Hdl21.Proofs.C19EProofsStep Hdl21.Proofs.C19EProofsTopo.
From Coq Require String.
Open Scope string_scope.
Open Scope Z_scope.

(* ---------------- small list facts ---------------- *)
Lemma existsb_false {A} (f : A -> bool) l : (forall x, In x l -> f x = false) -> existsb f l = false.
Proof.
  intros H. destruct (existsb f l) eqn:E; [|reflexivity]. apply existsb_exists in E. destruct E as [x [Hin Hx]].
  rewrite (H x Hin) in Hx. discriminate.
Qed.

Lemma assoc_notin {V} k (l : list (name * V)) : ~ In k (map fst l) -> assoc k l = None.
Proof.
  induction l as [|[q v] t IH]; cbn [assoc map fst In]; [reflexivity|]. intros H.
  destruct (String.eqb k q) eqn:E; [apply String.eqb_eq in E; subst; exfalso; apply H; left; reflexivity|].
  apply IH. intros Hin. apply H. right. exact Hin.
Qed.

Lemma nodup_names_app l r : WfDesign.nodup_names l = true -> WfDesign.nodup_names r = true ->
  (forall x, In x l -> ~ In x r) -> WfDesign.nodup_names (l ++ r) = true.
Proof.
  induction l as [|x t IH]; intros Hl Hr Hd; [exact Hr|]. cbn [app WfDesign.nodup_names] in *.
  apply andb_prop in Hl. destruct Hl as [Hx Ht]. apply andb_true_intro. split.
  - rewrite existsb_app. apply negb_true_iff. apply orb_false_intro; [apply negb_true_iff; exact Hx|].
    apply existsb_false. intros y Hy. apply String.eqb_neq. intros ->. exact (Hd y (or_introl eq_refl) Hy).
  - apply IH; [exact Ht|exact Hr|]. intros y Hy. apply Hd. right. exact Hy.
Qed.

Lemma map_key_number {V} (f : N * (name * Z) -> name * V) (l : list (name * Z)) :
  (forall e, fst (f e) = fst (snd e)) -> forall k, map fst (map f (number l k)) = map fst l.
Proof.
  intros Hf. induction l as [|[q v] t IH]; intros k; [reflexivity|]. cbn [number map]. rewrite Hf, IH. reflexivity.
Qed.

Lemma conn_of_number {V} (f : N * (name * Z) -> name * V) (l : list (name * Z)) c :
  In c (map f (number l 0%N)) -> exists id p wp, c = f (id, (p, wp)) /\ In (id, (p, wp)) (number l 0%N) /\ In (p, wp) l.
Proof.
  intros H. apply in_map_iff in H. destruct H as [[id [p wp]] [<- Hin]]. exists id, p, wp.
  split; [reflexivity|]. split; [exact Hin|]. exact (proj2 (number_In l _ _ _ Hin)).
Qed.

(* ---------------- a connection whose leaves are all declared signals of their width ---------------- *)
Lemma wf_conn_sigs d m x ports c w cw :
  assoc (fst c) ports = Some w ->
  (forall lw, In lw (sx_leaves (snd c)) ->
     exists s, assocN (fst lw) (m_leaves m) = Some (LSig s) /\ Design.sig_width m s = Some (snd lw)) ->
  xwidth (snd c) = Ok cw -> (cw = w \/ (0 < i_n x /\ cw = i_n x * w)) ->
  wf_conn d m x ports c = Ok tt.
Proof.
  intros Hp Hl Hw Hcw. unfold wf_conn. rewrite Hp. cbn [ofopt bind].
  rewrite (all_ok_intro (wf_leaf d m) (sx_leaves (snd c))).
  2:{ intros lw Hin. destruct (Hl lw Hin) as [s [H1 H2]]. unfold wf_leaf. rewrite H1. cbn [ofopt bind]. rewrite H2.
      cbn [ofopt bind]. rewrite Z.eqb_refl. reflexivity. }
  cbn [bind].
  assert (is_nc m (snd c) = None) as ->.
  { unfold is_nc. destruct (snd c) as [id w0|q ix|ps] eqn:E; try reflexivity.
    destruct (Hl (id, w0)) as [s [H1 _]]; [left; reflexivity|]. cbn [fst] in H1. rewrite H1. reflexivity. }
  assert (has_nc_inside m (snd c) = false) as ->.
  { unfold has_nc_inside. apply existsb_false. intros lw Hin. destruct (Hl lw Hin) as [s [H1 _]]. rewrite H1. reflexivity. }
  cbn [negb check bind]. rewrite Hw. cbn [bind].
  assert ((cw =? w) || (0 <? i_n x) && (cw =? i_n x * w) = true) as -> by lia. reflexivity.
Qed.

Lemma conn_frag_sigs d m x c :
  (forall lw, In lw (sx_leaves (snd c)) -> exists s, assocN (fst lw) (m_leaves m) = Some (LSig s)) ->
  conn_frag d m x c = true.
Proof.
  intros Hl. unfold conn_frag. destruct (snd c) as [id w0|q ix|ps] eqn:E.
  - destruct (Hl (id, w0)) as [s H1]; [left; reflexivity|]. cbn [fst] in H1. rewrite H1. reflexivity.
  - apply forallb_forall. intros lw Hin. unfold leaf_kind. destruct (Hl lw Hin) as [s ->]. reflexivity.
  - apply forallb_forall. intros lw Hin. unfold leaf_kind. destruct (Hl lw Hin) as [s ->]. reflexivity.
Qed.

(* ---------------- the Series design ---------------- *)
Section Series.
Variables (nm : snames) (io : list (name * Z)) (a b : name) (w n : Z).
Hypothesis Hok : series_ok nm io a b w n = true.
Let iw := (n - 1) * w.
Let iid := N.of_nat (List.length io).
Let d := series_design nm io a b w n.
Let top := series_top nm io a b n iw.
Let x := series_inst nm io a b n iw.

Lemma series_leaves c id p wp : c = series_conn_w iid iw a b (id, (p, wp)) -> In (id, (p, wp)) (number io 0%N) -> In (p, wp) io ->
  forall lw, In lw (sx_leaves (snd c)) ->
     exists s, assocN (fst lw) (m_leaves top) = Some (LSig s) /\ Design.sig_width top s = Some (snd lw).
Proof.
  destruct (series_ok_inv _ _ _ _ _ _ Hok) as [Hw [Hnd [Hab [Ha [Hb [Hi [Hu [Hui [Hm Hn]]]]]]]]].
  intros -> Hid Hin lw.
  assert (assocN id (m_leaves top) = Some (LSig p) /\ Design.sig_width top p = Some wp) as Lp.
  { split; [exact (leaf_of_port io _ id p wp Hid)|]. unfold Design.sig_width. cbn [m_ports top series_top].
    rewrite (assoc_In_nodup io p wp Hnd Hin). reflexivity. }
  assert (assocN iid (m_leaves top) = Some (LSig (sn_i nm)) /\ Design.sig_width top (sn_i nm) = Some iw) as Li.
  { split; [exact (leaf_of_bus io (sn_i nm) iw)|]. unfold Design.sig_width. cbn [m_ports m_sigs top series_top].
    rewrite (assoc_notin (sn_i nm) io Hi). cbn [assoc]. rewrite String.eqb_refl. reflexivity. }
  cbn [series_conn_w snd]. destruct (String.eqb p b) eqn:Eb; [|destruct (String.eqb p a) eqn:Ea].
  - apply String.eqb_eq in Eb. subst p.
    assert (wp = w) as ->. { pose proof (assoc_In_nodup io b wp Hnd Hin) as A. rewrite Hb in A. inversion A; reflexivity. }
    cbn [sx_leaves map concat app In]. intros [<-|[<-|[]]]; cbn [fst snd]; [exists (sn_i nm); exact Li|exists b; exact Lp].
  - apply String.eqb_eq in Ea. subst p.
    assert (wp = w) as ->. { pose proof (assoc_In_nodup io a wp Hnd Hin) as A. rewrite Ha in A. inversion A; reflexivity. }
    cbn [sx_leaves map concat app In]. intros [<-|[<-|[]]]; cbn [fst snd]; [exists a; exact Lp|exists (sn_i nm); exact Li].
  - cbn [sx_leaves In]. intros [<-|[]]. cbn [fst snd]. exists p. exact Lp.
Qed.

Lemma series_conn_width id p wp : In (p, wp) io ->
  exists cw, xwidth (snd (series_conn_w iid iw a b (id, (p, wp)))) = Ok cw /\ (cw = wp \/ (0 < n /\ cw = n * wp)).
Proof.
  destruct (series_ok_inv _ _ _ _ _ _ Hok) as [Hw [Hnd [Hab [Ha [Hb [Hi [Hu [Hui [Hm Hn]]]]]]]]].
  intros Hin. pose proof (Hw p wp Hin) as Hwp.
  assert (1 <= w) as Hw1 by (apply (Hw a); apply assoc_In; exact Ha).
  assert (1 <= iw) as Hiw by (unfold iw; nia).
  cbn [series_conn_w snd]. destruct (String.eqb p b) eqn:Eb; [|destruct (String.eqb p a) eqn:Ea].
  - apply String.eqb_eq in Eb. subst p.
    assert (wp = w) as ->. { pose proof (assoc_In_nodup io b wp Hnd Hin) as A. rewrite Hb in A. inversion A; reflexivity. }
    cbn [xwidth map sum_results]. destruct (iw <? 1) eqn:E1; [lia|]. destruct (w <? 1) eqn:E2; [lia|]. cbn [bind].
    eexists. split; [reflexivity|]. right. unfold iw. lia.
  - apply String.eqb_eq in Ea. subst p.
    assert (wp = w) as ->. { pose proof (assoc_In_nodup io a wp Hnd Hin) as A. rewrite Ha in A. inversion A; reflexivity. }
    cbn [xwidth map sum_results]. destruct (iw <? 1) eqn:E1; [lia|]. destruct (w <? 1) eqn:E2; [lia|]. cbn [bind].
    eexists. split; [reflexivity|]. right. unfold iw. lia.
  - cbn [xwidth]. destruct (wp <? 1) eqn:E1; [lia|]. eexists. split; [reflexivity|]. left. reflexivity.
Qed.

Lemma series_wf_inst : wf_inst d 0 top x = Ok tt.
Proof.
  destruct (series_ok_inv _ _ _ _ _ _ Hok) as [Hw [Hnd [Hab [Ha [Hb [Hi [Hu [Hui [Hm Hn]]]]]]]]].
  unfold wf_inst. cbn [i_of x series_inst target_ports bind].
  change (i_conns x) with (map (series_conn_w iid iw a b) (number io 0%N)).
  rewrite (map_key_number (series_conn_w iid iw a b) io (series_conn_w_key iid iw a b) 0%N).
  rewrite nodup_names_same, Hnd. cbn [check bind].
  rewrite (all_ok_intro (wf_conn d top x io)).
  2:{ intros c Hc. destruct (conn_of_number _ io c Hc) as [id [p [wp [Ec [Hid Hin]]]]].
      destruct (series_conn_width id p wp Hin) as [cw [Hcw Hor]].
      apply (wf_conn_sigs d top x io c wp cw).
      - rewrite Ec, series_conn_w_key. cbn [fst snd]. exact (assoc_In_nodup io p wp Hnd Hin).
      - exact (series_leaves c id p wp Ec Hid Hin).
      - rewrite Ec. exact Hcw.
      - exact Hor. }
  cbn [bind]. apply all_ok_intro. intros [p wp] Hin. cbn [fst].
  destruct (series_conn_lookup io iid iw a b p wp Hnd Hin) as [id [_ ->]]. reflexivity.
Qed.

Lemma series_wf_module : wf_module d 0 top = Ok tt.
Proof.
  destruct (series_ok_inv _ _ _ _ _ _ Hok) as [Hw [Hnd [Hab [Ha [Hb [Hi [Hu [Hui [Hm Hn]]]]]]]]].
  assert (1 <= w) as Hw1 by (apply (Hw a); apply assoc_In; exact Ha).
  unfold wf_module. cbn [m_name m_ports m_sigs m_insts top series_top map fst].
  assert (String.eqb (sn_mod nm) "" = false) as -> by (apply String.eqb_neq; exact Hm). cbn [negb check bind].
  change (i_name (series_inst nm io a b n iw)) with (sn_units nm).
  rewrite nodup_names_app.
  2:{ rewrite nodup_names_same. exact Hnd. }
  2:{ cbn [app WfDesign.nodup_names existsb]. assert (String.eqb (sn_i nm) (sn_units nm) = false) as ->
        by (apply String.eqb_neq; intros E; apply Hui; symmetry; exact E). reflexivity. }
  2:{ intros y Hy [<-|[<-|[]]]; contradiction. }
  cbn [check bind]. rewrite forallb_app.
  assert (forallb (fun pw : name * Z => 1 <=? snd pw) io = true) as ->.
  { apply forallb_forall. intros [p wp] Hin. cbn [snd]. pose proof (Hw p wp Hin). lia. }
  cbn [forallb snd andb]. assert (1 <=? iw = true) as -> by (unfold iw; nia). cbn [andb check bind].
  apply all_ok_intro. intros y [<-|[]]. exact series_wf_inst.
Qed.

Lemma series_wf_design : wf_design d = Ok tt.
Proof.
  unfold wf_design. change (d_mods d) with [top]. change (d_top d) with 0%nat.
  cbn [List.length Nat.ltb Nat.leb check bind map WfDesign.nodup_names existsb negb andb wf_mods].
  rewrite series_wf_module. reflexivity.
Qed.

Lemma series_frag_ok : frag_ok d = true.
Proof.
  unfold frag_ok. change (d_mods d) with [top]. cbn [forallb]. change (m_insts top) with [x]. cbn [forallb].
  rewrite !andb_true_r. apply forallb_forall. intros c Hc.
  change (i_conns x) with (map (series_conn_w iid iw a b) (number io 0%N)) in Hc.
  destruct (conn_of_number _ io c Hc) as [id [p [wp [Ec [Hid Hin]]]]].
  apply conn_frag_sigs. intros lw Hl. destruct (series_leaves c id p wp Ec Hid Hin lw Hl) as [s [H1 _]]. eauto.
Qed.

Lemma series_frag_ok2 : frag_ok2 d = true.
Proof. exact (frag_ok_frag_ok2 d series_frag_ok). Qed.

Lemma series_valid t : stack_term nm io n t -> valid d t.
Proof.
  destruct (series_ok_inv _ _ _ _ _ _ Hok) as [Hw [Hnd [Hab [Ha [Hb [Hi [Hu [Hui [Hm Hn]]]]]]]]].
  intros [[p [wp [k [-> [Hin Hk]]]]]|[e [p [wp [k [-> [Hin [Hk He]]]]]]]].
  - exists top, wp. split; [reflexivity|]. split; [|exact Hk].
    unfold Design.sig_width. cbn [m_ports top series_top]. rewrite (assoc_In_nodup io p wp Hnd Hin). reflexivity.
  - exists top, x, wp. split; [reflexivity|]. split.
    { cbn [m_insts top series_top find_inst]. change (i_name (series_inst nm io a b n iw)) with (sn_units nm).
      rewrite String.eqb_refl. reflexivity. }
    split. { unfold elem_ok. cbn [i_n x series_inst]. destruct (n <=? 0) eqn:E; lia. }
    split; [|exact Hk]. unfold port_width. cbn [i_of x series_inst target_ports bind].
    rewrite (assoc_In_nodup io p wp Hnd Hin). reflexivity.
Qed.

Lemma series_dev_at t : unit_port nm io n t -> dev_at d t = Ok (sn_dev nm).
Proof.
  intros [e [p [wp [k [-> _]]]]]. unfold dev_at. change (vmod_at d []) with (Ok top). cbn [bind m_insts top series_top find_inst].
  change (i_name (series_inst nm io a b n iw)) with (sn_units nm). rewrite String.eqb_refl. reflexivity.
Qed.

(* the package the pipeline model exports has exactly the documented partition *)
Theorem series_exported xi p : xinfo_ok xi d = true -> elab_export_model2 xi d = Ok p ->
  exists pd, design_of_pkg prims_ext p (sn_mod nm) = Ok pd /\
    (forall t, stack_term nm io n t -> valid pd (term_map2 xi d t)) /\
    (forall t1 t2, stack_term nm io n t1 -> stack_term nm io n t2 ->
       (same_net pd (term_map2 xi d t1) (term_map2 xi d t2) <-> series_node_key n a b t1 = series_node_key n a b t2)) /\
    (forall t, unit_port nm io n t -> dev_at pd (term_map2 xi d t) = Ok (sn_dev nm)).
Proof.
  intros Hxi Hp. destruct (end_to_end2 xi d p series_wf_design series_frag_ok2 Hxi Hp) as [tn [pd [Htn [Hpd [Hv [Hs Hd]]]]]].
  change (top_name d) with (Ok (sn_mod nm)) in Htn. injection Htn as <-.
  exists pd. split; [exact Hpd|]. split; [|split].
  - intros t Ht. apply Hv. exact (series_valid t Ht).
  - intros t1 t2 H1 H2. rewrite (Hs t1 t2 (series_valid t1 H1) (series_valid t2 H2)).
    exact (series_partition nm io a b w n t1 t2 Hok H1 H2).
  - intros t Ht. apply Hd; [apply series_valid; right; exact Ht|exact (series_dev_at t Ht)].
Qed.

Theorem series_export_total xi : xinfo_ok xi d = true ->
  (exists p, elab_export_model2 xi d = Ok p) \/ elab_export_model2 xi d = Error EName.
Proof. intros Hxi. exact (pipeline_total2 xi d series_wf_design series_frag_ok2 Hxi). Qed.
End Series.
