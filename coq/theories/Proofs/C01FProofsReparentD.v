(* Proofs/C01FProofsReparentD.v — STEP 2 of the extended ResolvePortRefs model (re-parenting, update_ref_deps) on a module
   and on a whole design: the result is wfs (signals only, every port connected), valid nodes are the same, and same_net
   is kept: a rewiring in the sense of C01EProofsGraph.rewire_meet with the identity for a retraction - the new step of a
   port bit is a (non-empty) power of the old step: references are followed to the signal bit they end on. *)
From Coq Require Import String.
Require Import Hdl21.Base.PyInt Hdl21.Spec.PySlice Hdl21.Model.Slice Hdl21.Model.Resolve Hdl21.Base.Design
               Hdl21.Spec.Nets Hdl21.Spec.WfDesign Hdl21.Spec.C01ENets Hdl21.Model.C01EElab Hdl21.Model.C01FElab Hdl21.Spec.C01FNets
               Hdl21.Proofs.ResolveProofs Hdl21.Proofs.C01EProofsGraph Hdl21.Proofs.C01EProofsBase Hdl21.Proofs.C01EProofsPass
               Hdl21.Proofs.C01EProofsSim Hdl21.Proofs.C01EProofsWfs Hdl21.Proofs.C01FProofsWfs1 Hdl21.Proofs.C01FProofsReparent.
Require Hdl21.Proofs.C01EProofsPortRefsD.
Open Scope Z_scope.

Definition vdown_skel := C01EProofsPortRefsD.vdown_skel.
Definition Forall2_flip {A B} := @C01EProofsPortRefsD.Forall2_flip A B.

Lemma reparent_inst_inv m fuel x x2 : reparent_inst m fuel x = Ok x2 ->
  i_name x2 = i_name x /\ i_n x2 = i_n x /\ i_of x2 = i_of x /\
  Forall2 (fun c c2 : name * sx => fst c2 = fst c /\ reparent m fuel (snd c) = Ok (snd c2)) (i_conns x) (i_conns x2).
Proof.
  unfold reparent_inst. intros H. apply bind_ok in H. destruct H as [cs [Hcs H]]. inversion H; subst. cbn. repeat split.
  apply traverse_Forall2 in Hcs. eapply Forall2_impl'; [|exact Hcs]. intros c c2 Hc. cbv beta in Hc.
  apply bind_ok in Hc. destruct Hc as [e [He Hc]]. inversion Hc; subst. cbn. auto.
Qed.

Lemma reparent_module_inv fuel m m2 : reparent_module fuel m = Ok m2 ->
  m_name m2 = m_name m /\ m_ports m2 = m_ports m /\ m_sigs m2 = m_sigs m /\ m_leaves m2 = m_leaves m /\
  Forall2 (fun x x2 => reparent_inst m fuel x = Ok x2) (m_insts m) (m_insts m2).
Proof.
  unfold reparent_module. intros H. apply bind_ok in H. destruct H as [is [His H]]. inversion H; subst. cbn. repeat split.
  apply traverse_Forall2. exact His.
Qed.

(* ------------------------------------------------------------------------------------------ one module *)
Section RpMod.
Variables (d : design) (km : nat) (m : module) (fuel : nat) (m2 : module).
Hypothesis Hok : module_ok1 d km m.
Hypothesis Hrp : reparent_module fuel m = Ok m2.

Lemma rp_insts : Forall2 (fun x x2 => reparent_inst m fuel x = Ok x2) (m_insts m) (m_insts m2).
Proof. apply (reparent_module_inv fuel m m2 Hrp). Qed.

Lemma rp_find i x : find_inst (m_insts m) i = Some x ->
  exists x2, find_inst (m_insts m2) i = Some x2 /\ reparent_inst m fuel x = Ok x2.
Proof.
  intros Hf. apply (find_inst_Forall2 _ _ _ i x rp_insts); [|exact Hf]. intros a b H. apply reparent_inst_inv in H. symmetry. tauto.
Qed.

Lemma rp_find_rev i x2 : find_inst (m_insts m2) i = Some x2 ->
  exists x, find_inst (m_insts m) i = Some x /\ reparent_inst m fuel x = Ok x2.
Proof.
  intros Hf. apply (find_inst_Forall2 _ _ _ i x2 (Forall2_flip _ _ _ rp_insts)); [|exact Hf]. intros a b H. apply reparent_inst_inv in H. tauto.
Qed.

Lemma rp_leaf_ok lw : leaf_ok m lw -> leaf_ok m2 lw.
Proof.
  destruct (reparent_module_inv fuel m m2 Hrp) as [_ [Hp [Hs [Hl _]]]]. apply leaf_ok_keep; assumption.
Qed.

Lemma rp_conn x x2 port cx : In x (m_insts m) -> reparent_inst m fuel x = Ok x2 -> assoc port (i_conns x) = Some cx ->
  exists e', assoc port (i_conns x2) = Some e' /\ reparent m fuel cx = Ok e'.
Proof.
  intros Hx Hr Ha. destruct (reparent_inst_inv m fuel x x2 Hr) as [_ [_ [_ F]]].
  destruct (assoc_Forall2 _ _ _ port cx F) as [e' [He' [_ Hre]]]; [intros a b [H _]; symmetry; exact H|exact Ha|]. eauto.
Qed.

Theorem rp_module_ok : module_ok d km m2.
Proof.
  destruct (reparent_module_inv fuel m m2 Hrp) as [Hn [Hp [Hs [Hl F]]]]. destruct Hok as [H1 [H2 [H3 H4]]].
  split; [rewrite Hn; exact H1|]. split; [|split].
  - unfold mod_names in *. rewrite Hp, Hs.
    assert (map i_name (m_insts m2) = map i_name (m_insts m)) as ->; [|exact H2].
    symmetry. eapply Forall2_map_eq; [exact F|]. intros a b H. apply reparent_inst_inv in H. symmetry. tauto.
  - rewrite Hp, Hs. exact H3.
  - apply Forall_forall. intros x2 Hx2. destruct (Forall2_In_r _ _ _ x2 F Hx2) as [x [Hx Hr]].
    rewrite Forall_forall in H4. destruct (H4 x Hx) as [Ho [ports [Hpt [Hnd [Hc Hall]]]]].
    destruct (reparent_inst_inv m fuel x x2 Hr) as [Hnm [Hnn [Hof Fc]]].
    assert (map fst (i_conns x2) = map fst (i_conns x)) as Hfst.
    { symmetry. eapply Forall2_map_eq; [exact Fc|]. intros a b [H _]. symmetry. exact H. }
    split; [rewrite Hof; exact Ho|]. exists ports. split; [rewrite Hof; exact Hpt|]. split; [rewrite Hfst; exact Hnd|]. split.
    + apply Forall_forall. intros c2 Hc2. destruct (Forall2_In_r _ _ _ c2 Fc Hc2) as [c [Hcin [Hf Hre]]].
      rewrite Forall_forall in Hc. destruct (Hc c Hcin) as [w [cw [Hw [Hw1 [Hlv [Hcw Hcase]]]]]].
      destruct (xwidth_ok_xbits _ _ Hcw) as [bits [Hb Hlen]].
      destruct (reparent_sem d km m Hok fuel (snd c) (snd c2) Hre Hlv bits Hb) as [bits' [Hb' [Hlen' [Hl' _]]]].
      exists w, cw. rewrite Hf. split; [exact Hw|]. split; [exact Hw1|]. split.
      * eapply Forall_impl; [|exact Hl']. intros lw. apply rp_leaf_ok.
      * split; [|rewrite Hnn; exact Hcase]. pose proof (xwidth_xbits (snd c2)) as X. rewrite Hb' in X. rewrite X. f_equal. lia.
    + intros pw Hpw. specialize (Hall pw Hpw). destruct (assoc (fst pw) (i_conns x)) as [cx|] eqn:Ea; [|congruence].
      destruct (rp_conn x x2 (fst pw) cx Hx Hr Ea) as [e' [He' _]]. rewrite He'. discriminate.
Qed.

(* the local target of a port bit after re-parenting, against the one before *)
Lemma rp_local x x2 e port k w : In x (m_insts m) -> reparent_inst m fuel x = Ok x2 -> elem_ok x e = true ->
  port_width d x port = Ok w -> 0 <= k < w ->
  exists t1 s' j', local_tgt d m x e port k = Ok t1 /\ local_tgt d m2 x2 e port k = Ok (LtSig s' j') /\ ltgt_valid d m t1 /\
    ( t1 = LtSig s' j' \/ exists i p jj, t1 = LtPort i p jj /\ rtgt m (i, p) jj (s', j') ).
Proof.
  intros Hx Hr He Hw Hk.
  destruct (wfs1_local_tgt d km m x e port k w Hok Hx He Hw Hk) as [cx [bits [id [j [lf [t1 [Ha [Hb [Hcase [Hpk [Hlf [Htg [_ [Hval Hlt]]]]]]]]]]]]]].
  destruct (rp_conn x x2 port cx Hx Hr Ha) as [e' [Ha2 Hre]].
  assert (Forall (leaf_ok1 d m) (sx_leaves cx)) as Hlv.
  { destruct Hok as [_ [_ [_ Hi]]]. rewrite Forall_forall in Hi. destruct (Hi x Hx) as [_ [ports [_ [_ [Hc _]]]]]. rewrite Forall_forall in Hc.
    destruct (Hc (port, cx) (assoc_In _ _ _ Ha)) as [w' [cw [_ [_ [Hl _]]]]]. exact Hl. }
  destruct (reparent_sem d km m Hok fuel cx e' Hre Hlv bits Hb) as [bits' [Hb' [Hlen' [Hl' Hk']]]].
  destruct (Hk' _ _ Hpk) as [[id' j'] [Hpk' Hrel]].
  (* the new bit is a bit of a declared signal *)
  destruct (xbits_inside _ _ Hb' _ _ (pick_In _ _ _ Hpk')) as [wl [Hin' _]]. rewrite leaves_sx_leaves in Hin'.
  rewrite Forall_forall in Hl'. destruct (Hl' _ Hin') as [s' [Hs' _]]. cbn [fst] in Hs'.
  destruct (reparent_inst_inv m fuel x x2 Hr) as [_ [Hnn [Hof _]]].
  destruct (reparent_module_inv fuel m m2 Hrp) as [_ [_ [_ [Hl2 _]]]].
  exists t1, s', j'. split; [exact Hlt|]. split; [|split; [exact Hval|]].
  - apply (local_tgt_leaf d m2 x2 e port k w e' bits' id' j' (LSig s') (LtSig s' j') Ha2 Hb').
    + unfold port_width in *. rewrite Hof. exact Hw.
    + exact Hk.
    + unfold elem_ok in *. rewrite Hnn. exact He.
    + rewrite Hlen', Hnn. exact Hcase.
    + rewrite Hlen'. unfold conn_index in *. exact Hpk'.
    + rewrite Hl2. exact Hs'.
    + reflexivity.
  - destruct Hrel as [[s [Hs Hbb]]|[i [p [s'' [Hlr [Hs'' Hrt]]]]]]; cbn [fst snd] in *.
    + inversion Hbb; subst id' j'. rewrite Hlf in Hs. inversion Hs; subst lf. cbn [leaf_tgt] in Htg. inversion Htg; subst t1.
      rewrite Hlf in Hs'. inversion Hs'; subst s'. left. reflexivity.
    + rewrite Hlf in Hlr. inversion Hlr; subst lf. cbn [leaf_tgt] in Htg. inversion Htg; subst t1.
      rewrite Hs' in Hs''. inversion Hs''; subst s''. right. exists i, p, j. auto.
Qed.

(* the new target of a bit of a port of a single instance is where its chain ends *)
Lemma rp_key_tgt i p xq w j : find_inst (m_insts m) i = Some xq -> i_n xq <= 0 -> port_width d xq p = Ok w -> 0 <= j < w ->
  exists xq2 s' j', find_inst (m_insts m2) i = Some xq2 /\ local_tgt d m2 xq2 0 p j = Ok (LtSig s' j') /\ rtgt m (i, p) j (s', j').
Proof.
  intros Hf Hn Hw Hj. destruct (find_inst_In _ _ _ Hf) as [Hx _]. destruct (rp_find i xq Hf) as [xq2 [Hf2 Hr]].
  assert (elem_ok xq 0 = true) as He by (unfold elem_ok; destruct (i_n xq <=? 0) eqn:E; lia).
  destruct (rp_local xq xq2 0 p j w Hx Hr He Hw Hj) as [t1 [s' [j' [Hlt [Hlt2 [_ Hcases]]]]]].
  exists xq2, s', j'. split; [exact Hf2|]. split; [exact Hlt2|].
  (* the first link of the chain *)
  destruct (wfs1_local_tgt d km m xq 0 p j w Hok Hx He Hw Hj) as [cx [bits [id [jb [lf [t [Ha [Hb [Hcase [Hpk [Hlf [Htg [_ [_ Hlt']]]]]]]]]]]]]].
  rewrite Hlt in Hlt'. inversion Hlt'; subst t.
  assert (zlen bits = w) as Hlen by (destruct Hcase as [H|[H _]]; [exact H|lia]).
  assert (conn_index xq (zlen bits) w 0 j = j) as Ei by (unfold conn_index; rewrite Hlen, Z.eqb_refl; reflexivity). rewrite Ei in Hpk.
  assert (pconn m (i, p) = Some cx) as Hpc by (unfold pconn; cbn [fst snd]; rewrite Hf; exact Ha).
  destruct Hcases as [->|[i2 [p2 [jj [-> Hrt]]]]].
  - destruct lf; cbn [leaf_tgt] in Htg; inversion Htg; subst. eapply rt_sig; eassumption.
  - destruct lf; cbn [leaf_tgt] in Htg; inversion Htg; subst. eapply rt_ref; eassumption.
Qed.
End RpMod.

(* ------------------------------------------------------------------------------------------ a whole design *)
Definition RPM (m m2 : module) : Prop := exists fuel, reparent_module fuel m = Ok m2.
Definition RPD (d1 d2 : design) : Prop := d_top d2 = d_top d1 /\ Forall2 RPM (d_mods d1) (d_mods d2).

Section RPSem.
Variables d1 d2 : design.
Hypothesis W1 : wfs1 d1.
Hypothesis HR : RPD d1 d2.

Lemma rpd_nth k m : nth_mod d1 k = Ok m -> exists m2, nth_mod d2 k = Ok m2 /\ RPM m m2.
Proof.
  intros Hk. apply nth_mod_nth in Hk. destruct (Forall2_nth _ _ _ (proj2 HR) k m Hk) as [m2 [Hk2 R]]. exists m2. split; [apply nth_mod_nth; exact Hk2|exact R].
Qed.

Lemma rpd_nth_rev k m2 : nth_mod d2 k = Ok m2 -> exists m, nth_mod d1 k = Ok m /\ RPM m m2.
Proof.
  intros Hk. apply nth_mod_nth in Hk. destruct (Forall2_nth_rev _ _ _ (proj2 HR) k m2 Hk) as [m [Hk1 R]]. exists m. split; [apply nth_mod_nth; exact Hk1|exact R].
Qed.

Lemma rpm_ports m m2 : RPM m m2 -> m_ports m2 = m_ports m.
Proof. intros [fuel H]. apply (reparent_module_inv fuel m m2 H). Qed.

Lemma rpd_target_ports t : target_ports d2 t = target_ports d1 t.
Proof.
  unfold target_ports. destruct t as [k|dv ps]; [|reflexivity].
  destruct (nth_mod d1 k) as [m|] eqn:E1.
  - destruct (rpd_nth k m E1) as [m2 [E2 R]]. rewrite E2. cbn [bind]. rewrite (rpm_ports m m2 R). reflexivity.
  - destruct (nth_mod d2 k) as [m2|] eqn:E2.
    + destruct (rpd_nth_rev k m2 E2) as [m [E1' _]]. rewrite E1' in E1. discriminate.
    + unfold nth_mod in E1, E2. destruct (nth_error (d_mods d1) k); [discriminate|]. destruct (nth_error (d_mods d2) k); [discriminate|].
      cbn [ofopt] in E1, E2. inversion E1. inversion E2. reflexivity.
Qed.

Lemma rpd_port_width x x2 port : i_of x2 = i_of x -> port_width d2 x2 port = port_width d1 x port.
Proof. intros Ho. unfold port_width. rewrite Ho, rpd_target_ports. reflexivity. Qed.

Lemma rpm_find_fwd m m2 i x : RPM m m2 -> find_inst (m_insts m) i = Some x ->
  exists x2, find_inst (m_insts m2) i = Some x2 /\ i_n x2 = i_n x /\ i_of x2 = i_of x.
Proof.
  intros [fuel H] Hf. destruct (rp_find m fuel m2 H i x Hf) as [x2 [Hf2 Hr]]. exists x2. split; [exact Hf2|]. apply reparent_inst_inv in Hr. tauto.
Qed.

Lemma rpm_find_bwd m m2 i x2 : RPM m m2 -> find_inst (m_insts m2) i = Some x2 ->
  exists x, find_inst (m_insts m) i = Some x /\ i_n x = i_n x2 /\ i_of x = i_of x2.
Proof.
  intros [fuel H] Hf. destruct (rp_find_rev m fuel m2 H i x2 Hf) as [x [Hf1 Hr]]. exists x. split; [exact Hf1|]. apply reparent_inst_inv in Hr. split; symmetry; tauto.
Qed.

Lemma rpd_vmod_fwd p m : vmod_at d1 p = Ok m -> exists m2, vmod_at d2 p = Ok m2 /\ RPM m m2.
Proof.
  unfold vmod_at. rewrite (proj1 HR). destruct (nth_mod d1 (d_top d1)) as [top|] eqn:Et; cbn [bind]; [|discriminate].
  destruct (rpd_nth _ _ Et) as [top2 [Ht2 Rt]]. rewrite Ht2. cbn [bind]. intros H.
  apply (vdown_skel RPM d1 d2 rpm_find_fwd rpd_nth (rev p) top top2 m Rt H).
Qed.

Lemma rpd_vmod_bwd p m2 : vmod_at d2 p = Ok m2 -> exists m, vmod_at d1 p = Ok m /\ RPM m m2.
Proof.
  unfold vmod_at. rewrite (proj1 HR). destruct (nth_mod d2 (d_top d1)) as [top2|] eqn:Et; cbn [bind]; [|discriminate].
  destruct (rpd_nth_rev _ _ Et) as [top [Ht Rt]]. rewrite Ht. cbn [bind]. intros H.
  destruct (vdown_skel (fun a b => RPM b a) d2 d1 (fun m m' i x R Hf => rpm_find_bwd m' m i x R Hf) rpd_nth_rev (rev p) top2 top m2 Rt H) as [m [Hm R]].
  eauto.
Qed.

Lemma rpm_sig_width m m2 s : RPM m m2 -> sig_width m2 s = sig_width m s.
Proof. intros [fuel H]. destruct (reparent_module_inv fuel m m2 H) as [_ [Hp [Hs _]]]. unfold sig_width. rewrite Hp, Hs. reflexivity. Qed.

Lemma rpd_valid_fwd x : valid d1 x -> valid d2 x.
Proof.
  destruct x as [p s k|p i e port k|p s k]; cbn [valid]; [| |tauto].
  - intros [m [w [Hm [Hs Hk]]]]. destruct (rpd_vmod_fwd p m Hm) as [m2 [Hm2 R]]. exists m2, w. split; [exact Hm2|]. split; [|exact Hk].
    rewrite (rpm_sig_width m m2 s R). exact Hs.
  - intros [m [x [w [Hm [Hf [He [Hw Hk]]]]]]]. destruct (rpd_vmod_fwd p m Hm) as [m2 [Hm2 R]].
    destruct (rpm_find_fwd m m2 i x R Hf) as [x2 [Hf2 [Hn2 Ho2]]]. exists m2, x2, w. split; [exact Hm2|]. split; [exact Hf2|].
    split; [unfold elem_ok in *; rewrite Hn2; exact He|]. split; [rewrite (rpd_port_width x x2 port Ho2); exact Hw|exact Hk].
Qed.

Lemma rpd_valid_bwd x : valid d2 x -> valid d1 x.
Proof.
  destruct x as [p s k|p i e port k|p s k]; cbn [valid]; [| |tauto].
  - intros [m2 [w [Hm2 [Hs Hk]]]]. destruct (rpd_vmod_bwd p m2 Hm2) as [m [Hm R]]. exists m, w. split; [exact Hm|]. split; [|exact Hk].
    rewrite <- (rpm_sig_width m m2 s R). exact Hs.
  - intros [m2 [x2 [w [Hm2 [Hf2 [He [Hw Hk]]]]]]]. destruct (rpd_vmod_bwd p m2 Hm2) as [m [Hm R]].
    destruct (rpm_find_bwd m m2 i x2 R Hf2) as [x [Hf [Hn Ho]]]. exists m, x, w. split; [exact Hm|]. split; [exact Hf|].
    split; [unfold elem_ok in *; rewrite Hn; exact He|]. split; [rewrite <- (rpd_port_width x x2 port (eq_sym Ho)); exact Hw|exact Hk].
Qed.

Lemma module_ok_keep2 k m : module_ok d1 k m -> module_ok d2 k m.
Proof.
  intros [H1 [H2 [H3 H4]]]. split; [exact H1|]. split; [exact H2|]. split; [exact H3|].
  eapply Forall_impl; [|exact H4]. intros x [Ho [ports [Hpt [Hnd [Hc Hall]]]]]. split; [exact Ho|]. exists ports.
  split; [rewrite rpd_target_ports; exact Hpt|]. auto.
Qed.

Theorem rpd_wfs : wfs d2.
Proof.
  destruct W1 as [Htop [Hnd Hmods]]. destruct HR as [Ht F]. split; [|split].
  - rewrite Ht, <- (Forall2_length' _ _ _ F). exact Htop.
  - assert (map m_name (d_mods d2) = map m_name (d_mods d1)) as ->; [|exact Hnd].
    symmetry. eapply Forall2_map_eq; [exact F|]. intros a b [fuel H]. symmetry. apply (reparent_module_inv fuel a b H).
  - intros k m2 Hk. destruct (Forall2_nth_rev _ _ _ F k m2 Hk) as [m [Hk1 [fuel H]]].
    apply module_ok_keep2. apply (rp_module_ok d1 k m fuel m2 (Hmods k m Hk1) H).
Qed.

Let ec1 := ec (Nets.step d1) (valid d1).
Let ec2 := ec (Nets.step d2) (valid d2).

Lemma local_tgt_d2 m2 x2 e port k : port_width d2 x2 port = port_width d1 x2 port ->
  local_tgt d2 m2 x2 e port k = local_tgt d1 m2 x2 e port k.
Proof. intros H. unfold local_tgt, conn_bit. rewrite H. reflexivity. Qed.

(* everything about one port bit, before and after *)
Lemma rpd_port p i e port k : valid d1 (NPort p i e port k) ->
  exists m m2 km fuel x x2 w, vmod_at d1 p = Ok m /\ vmod_at d2 p = Ok m2 /\ module_ok1 d1 km m /\ reparent_module fuel m = Ok m2 /\
    find_inst (m_insts m) i = Some x /\ find_inst (m_insts m2) i = Some x2 /\ reparent_inst m fuel x = Ok x2 /\
    elem_ok x e = true /\ port_width d1 x port = Ok w /\ 0 <= k < w.
Proof.
  intros [m [x [w [Hm [Hf [He [Hw Hk]]]]]]]. destruct (rpd_vmod_fwd p m Hm) as [m2 [Hm2 [fuel R]]].
  destruct (wfs1_module d1 p m W1 Hm) as [km [_ Hok]]. destruct (rp_find m fuel m2 R i x Hf) as [x2 [Hf2 Hr]].
  exists m, m2, km, fuel, x, x2, w. auto 12.
Qed.

Lemma step_port2 p i e port k m m2 x2 fuel : vmod_at d2 p = Ok m2 -> find_inst (m_insts m2) i = Some x2 ->
  reparent_module fuel m = Ok m2 -> (exists x, reparent_inst m fuel x = Ok x2) ->
  Nets.step d2 (NPort p i e port k) = (t <- local_tgt d1 m2 x2 e port k ;; Ok (ltgt_node p i e port k t)).
Proof.
  intros Hm2 Hf2 _ [x Hr]. rewrite (step_port d2 p i e port k m2 x2 (vmod_at_mod_at _ _ _ Hm2) Hf2).
  rewrite local_tgt_d2; [reflexivity|]. unfold port_width. rewrite rpd_target_ports. reflexivity.
Qed.

(* the chain of old steps from a port bit to the signal bit it ends on *)
Lemma rtgt_ec p m km : vmod_at d1 p = Ok m -> module_ok1 d1 km m ->
  forall q j b, rtgt m q j b -> forall xq w, find_inst (m_insts m) (fst q) = Some xq -> i_n xq <= 0 -> port_width d1 xq (snd q) = Ok w -> 0 <= j < w ->
  ec1 (NPort p (fst q) 0 (snd q) j) (NSig p (fst b) (snd b)).
Proof.
  intros Hm Hok q j b H.
  induction H as [q j cx bits id' j' s Hp Hb Hk Hl|q j cx bits id2 j2 i2 p2 b Hp Hb Hk Hl Hr IH]; intros xq w Hf Hn Hw Hj.
  - cbn [fst snd]. apply ec_step.
    + exists m, xq, w. split; [exact Hm|]. split; [exact Hf|]. split; [unfold elem_ok; destruct (i_n xq <=? 0) eqn:E; lia|auto].
    + rewrite (step_port d1 p (fst q) 0 (snd q) j m xq (vmod_at_mod_at _ _ _ Hm) Hf).
      unfold pconn in Hp. rewrite Hf in Hp.
      destruct (key_conn d1 km m Hok (fst q) (snd q) xq w Hf Hn Hw) as [cx' [bits' [Hp' [Hb' [Hlen [Hw1 _]]]]]].
      unfold pconn in Hp'. cbn [fst snd] in Hp'. rewrite Hf in Hp'. rewrite Hp in Hp'. inversion Hp'; subst cx'. rewrite Hb in Hb'. inversion Hb'; subst bits'.
      rewrite (local_tgt_leaf d1 m xq 0 (snd q) j w cx bits id' j' (LSig s) (LtSig s j') Hp Hb Hw Hj); [reflexivity| |left; exact Hlen| |exact Hl|reflexivity].
      * unfold elem_ok. destruct (i_n xq <=? 0) eqn:E; lia.
      * unfold conn_index. rewrite Hlen, Z.eqb_refl. exact Hk.
  - (* one link, then the rest of the chain *)
    destruct (key_conn d1 km m Hok (fst q) (snd q) xq w Hf Hn Hw) as [cx' [bits' [Hp' [Hb' [Hlen [Hw1 Hlv]]]]]].
    assert (pconn m q = pconn m (fst q, snd q)) as Eq by (destruct q; reflexivity). rewrite Eq, Hp' in Hp. inversion Hp; subst cx'.
    rewrite Hb in Hb'. inversion Hb'; subst bits'.
    destruct (xbits_inside _ _ Hb _ _ (pick_In _ _ _ Hk)) as [wl [Hin Hj2]]. rewrite leaves_sx_leaves in Hin.
    rewrite Forall_forall in Hlv. destruct (Hlv _ Hin) as [[s0 [Hs0 _]]|[i0 [p0 [x0 [Hl0 [Hf0 [Hn0 Hw0]]]]]]]; cbn [fst snd] in *; [congruence|].
    rewrite Hl in Hl0. inversion Hl0; subst i0 p0.
    pose proof (IH x0 wl Hf0 Hn0 Hw0 Hj2) as Hec.
    eapply ec_trans; [|exact Hec]. apply ec_step.
    + exists m, xq, w. split; [exact Hm|]. split; [exact Hf|]. split; [unfold elem_ok; destruct (i_n xq <=? 0) eqn:E; lia|auto].
    + rewrite (step_port d1 p (fst q) 0 (snd q) j m xq (vmod_at_mod_at _ _ _ Hm) Hf).
      unfold pconn in Hp'. cbn [fst snd] in Hp'. rewrite Hf in Hp'.
      rewrite (local_tgt_leaf d1 m xq 0 (snd q) j w cx bits id2 j2 (LRef i2 p2) (LtPort i2 p2 j2) Hp' Hb Hw Hj); [reflexivity| |left; exact Hlen| |exact Hl|reflexivity].
      * unfold elem_ok. destruct (i_n xq <=? 0) eqn:E; lia.
      * unfold conn_index. rewrite Hlen, Z.eqb_refl. exact Hk.
Qed.

(* ---- every old connection is still joined by the new ones ---- *)
Lemma rpd_sem_fwd x y : valid d1 x -> Nets.step d1 x = Ok y -> ec2 x y.
Proof.
  intros Hv Hs. destruct x as [p s k|p i e port k|p s k]; [| |destruct Hv].
  - pose proof (rpd_valid_fwd _ Hv) as Hv2. destruct Hv as [m [w [Hm [Hsw Hk]]]]. destruct p as [|[i e] p0].
    + cbn [Nets.step] in Hs. inversion Hs; subst. apply ec_refl.
    + rewrite (step_sig_up d1 i e p0 s k m (vmod_at_mod_at _ _ _ Hm)) in Hs. inversion Hs; subst y; clear Hs.
      destruct (rpd_vmod_fwd _ m Hm) as [m2 [Hm2 R]]. apply ec_step; [exact Hv2|].
      rewrite (step_sig_up d2 i e p0 s k m2 (vmod_at_mod_at _ _ _ Hm2)). unfold is_port. rewrite (rpm_ports m m2 R). reflexivity.
  - pose proof (rpd_valid_fwd _ Hv) as Hv2.
    destruct (rpd_port p i e port k Hv) as [m [m2 [km [fuel [x [x2 [w [Hm [Hm2 [Hok [Hrp [Hf [Hf2 [Hr [He [Hw Hk]]]]]]]]]]]]]]]].
    destruct (find_inst_In _ _ _ Hf) as [Hx _].
    destruct (rp_local d1 km m fuel m2 Hok Hrp x x2 e port k w Hx Hr He Hw Hk) as [t1 [s' [j' [Hlt [Hlt2 [Hval Hcases]]]]]].
    rewrite (step_port d1 p i e port k m x (vmod_at_mod_at _ _ _ Hm) Hf), Hlt in Hs. cbn [bind] in Hs. inversion Hs; subst y; clear Hs.
    assert (Nets.step d2 (NPort p i e port k) = Ok (NSig p s' j')) as Hst2.
    { rewrite (step_port2 p i e port k m m2 x2 fuel Hm2 Hf2 Hrp (ex_intro _ x Hr)), Hlt2. reflexivity. }
    destruct Hcases as [->|[i2 [p2 [jj [-> Hrt]]]]]; cbn [ltgt_node].
    + apply ec_step; [exact Hv2|exact Hst2].
    + (* both the port and the port it referred to now step to the signal bit the chain ends on *)
      destruct Hval as [xq [wq [Hfq [Hnq [Hwq Hjj]]]]].
      destruct (rp_key_tgt d1 km m fuel m2 Hok Hrp i2 p2 xq wq jj Hfq Hnq Hwq Hjj) as [xq2 [s'' [j'' [Hfq2 [Hltq Hrt']]]]].
      pose proof (rtgt_fun m _ _ _ Hrt _ Hrt') as Eb. inversion Eb; subst s'' j''.
      assert (valid d1 (NPort p i2 0 p2 jj)) as Hvy.
      { exists m, xq, wq. split; [exact Hm|]. split; [exact Hfq|]. split; [unfold elem_ok; destruct (i_n xq <=? 0) eqn:E; lia|auto]. }
      eapply ec_trans; [apply ec_step; [exact Hv2|exact Hst2]|]. apply ec_sym. apply ec_step; [apply rpd_valid_fwd; exact Hvy|].
      destruct (rp_find m fuel m2 Hrp i2 xq Hfq) as [xq2' [Hfq2' Hrq]]. rewrite Hfq2 in Hfq2'. inversion Hfq2'; subst xq2'.
      rewrite (step_port2 p i2 0 p2 jj m m2 xq2 fuel Hm2 Hfq2 Hrp (ex_intro _ xq Hrq)), Hltq. reflexivity.
Qed.

(* ---- every new connection joins only what the old ones joined ---- *)
Lemma rpd_sem_bwd u v : valid d2 u -> Nets.step d2 u = Ok v -> ec1 u v.
Proof.
  intros Hv2 Hs. pose proof (rpd_valid_bwd _ Hv2) as Hv1. destruct u as [p s k|p i e port k|p s k]; [| |destruct Hv2].
  - destruct Hv1 as [m [w [Hm [Hsw Hk]]]]. destruct p as [|[i e] p0].
    + cbn [Nets.step] in Hs. inversion Hs; subst. apply ec_refl.
    + destruct (rpd_vmod_fwd _ m Hm) as [m2 [Hm2 R]].
      rewrite (step_sig_up d2 i e p0 s k m2 (vmod_at_mod_at _ _ _ Hm2)) in Hs. inversion Hs; subst v; clear Hs.
      apply ec_step; [exists m, w; auto|]. rewrite (step_sig_up d1 i e p0 s k m (vmod_at_mod_at _ _ _ Hm)).
      unfold is_port. rewrite (rpm_ports m m2 R). reflexivity.
  - destruct (rpd_port p i e port k Hv1) as [m [m2 [km [fuel [x [x2 [w [Hm [Hm2 [Hok [Hrp [Hf [Hf2 [Hr [He [Hw Hk]]]]]]]]]]]]]]]].
    destruct (find_inst_In _ _ _ Hf) as [Hx _].
    destruct (rp_local d1 km m fuel m2 Hok Hrp x x2 e port k w Hx Hr He Hw Hk) as [t1 [s' [j' [Hlt [Hlt2 [Hval Hcases]]]]]].
    rewrite (step_port2 p i e port k m m2 x2 fuel Hm2 Hf2 Hrp (ex_intro _ x Hr)), Hlt2 in Hs. cbn [bind ltgt_node] in Hs. inversion Hs; subst v; clear Hs.
    assert (Nets.step d1 (NPort p i e port k) = Ok (ltgt_node p i e port k t1)) as Hst1.
    { rewrite (step_port d1 p i e port k m x (vmod_at_mod_at _ _ _ Hm) Hf), Hlt. reflexivity. }
    destruct Hcases as [->|[i2 [p2 [jj [-> Hrt]]]]]; cbn [ltgt_node] in Hst1.
    + apply ec_step; [exact Hv1|exact Hst1].
    + destruct Hval as [xq [wq [Hfq [Hnq [Hwq Hjj]]]]].
      pose proof (rtgt_ec p m km Hm Hok (i2, p2) jj (s', j') Hrt xq wq Hfq Hnq Hwq Hjj) as Hec. cbn [fst snd] in *.
      eapply ec_trans; [apply ec_step; [exact Hv1|exact Hst1]|exact Hec].
Qed.

Theorem reparent_dev x dev : valid d1 x -> dev_at d1 x = Ok dev -> dev_at d2 x = Ok dev.
Proof.
  destruct x as [p s k|p i e port k|p s k]; cbn [valid dev_at]; [tauto| |tauto].
  intros [m [x [w [Hm [Hf _]]]]]. rewrite Hm. cbn [bind]. rewrite Hf. cbn [ofopt bind].
  destruct (rpd_vmod_fwd p m Hm) as [m2 [Hm2 R]]. destruct (rpm_find_fwd m m2 i x R Hf) as [x2 [Hf2 [_ Ho]]].
  rewrite Hm2. cbn [bind]. rewrite Hf2. cbn [ofopt bind]. rewrite Ho. tauto.
Qed.

Theorem reparent_same_net x y : valid d1 x -> valid d1 y -> (same_net d1 x y <-> same_net d2 x y).
Proof.
  intros Hx Hy. rewrite !same_net_meet_r.
  apply (rewire_meet node (Nets.step d1) (Nets.step d2) (valid d1) (valid d2) (fun n => n)
           (wfs1_step_total d1 W1) (wfs_step_total d2 rpd_wfs) rpd_valid_fwd (fun x _ => eq_refl) rpd_sem_fwd rpd_sem_bwd x y Hx Hy).
Qed.
End RPSem.
