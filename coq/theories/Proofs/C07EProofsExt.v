(* Proofs/C07EProofsExt.v — the READ DISCIPLINE of the concrete pass bodies.

   The per-module functions of Model/C01EElab.v / Model/C02EPipeline.v take a whole design `d`.  This file proves that
   they look at it only through `target_ports d (i_of x)` for the instances x of the module they work on: two designs
   that give the same port lists to the targets of the module's instances give the same result (portrefs_module_ext,
   arrays_module_ext, conntypes_check_ext, kind_fn_ext).  So a pass body sees of another module its port list and
   nothing else; Model/C07EConcrete.v:vdesign, which holds nothing but the views, is enough (vdesign_target). *)
From Coq Require Import String.
Require Import Hdl21.Base.PyInt Hdl21.Spec.PySlice Hdl21.Model.Slice Hdl21.Model.Resolve Hdl21.Base.Design
               Hdl21.Spec.WfDesign Hdl21.Base.Package Hdl21.Model.Checks Hdl21.Model.C02Checks Hdl21.Model.C01EElab
               Hdl21.Model.C02EPipeline Hdl21.Model.C07EConcrete
               Hdl21.Proofs.C01EProofsBase Hdl21.Proofs.C01EProofsArrays Hdl21.Proofs.C01EProofsPortRefsD
               Hdl21.Proofs.C01EProofsSlices.
Open Scope Z_scope.

(* the two designs give the same port lists to everything module m instantiates *)
Definition agree (d1 d2 : design) (m : module) : Prop :=
  forall x, In x (m_insts m) -> target_ports d1 (i_of x) = target_ports d2 (i_of x).

Lemma agree_port_width d1 d2 m x p : agree d1 d2 m -> In x (m_insts m) -> port_width d1 x p = port_width d2 x p.
Proof. intros A Hx. unfold port_width. rewrite (A x Hx). reflexivity. Qed.

Lemma traverse_ext_in {A B} (f g : A -> result B) l : (forall x, In x l -> f x = g x) -> traverse f l = traverse g l.
Proof.
  induction l as [|a l IH]; intros H; cbn [traverse]; [reflexivity|].
  rewrite (H a (or_introl eq_refl)). rewrite IH; [reflexivity|]. intros x Hx. apply H. right. exact Hx.
Qed.

Lemma cat_results_map_ext {A B} (f g : A -> result (list B)) l : (forall x, In x l -> f x = g x) ->
  cat_results (map f l) = cat_results (map g l).
Proof.
  induction l as [|a l IH]; intros H; cbn [map cat_results]; [reflexivity|].
  rewrite (H a (or_introl eq_refl)). rewrite IH; [reflexivity|]. intros x Hx. apply H. right. exact Hx.
Qed.

(* ------------------------------------------------------------------------------------------ ResolvePortRefs *)
Lemma all_keys_ext d1 d2 m : agree d1 d2 m -> all_keys d1 m = all_keys d2 m.
Proof.
  intros A. unfold all_keys. apply cat_results_map_ext. intros x Hx. rewrite (A x Hx). reflexivity.
Qed.

Lemma key_width_ext d1 d2 m q : agree d1 d2 m -> key_width d1 m q = key_width d2 m q.
Proof.
  intros A. unfold key_width. destruct (find_inst (m_insts m) (fst q)) as [x|] eqn:E; cbn [ofopt bind]; [|reflexivity].
  apply find_inst_In in E. apply (agree_port_width d1 d2 m x (snd q) A). tauto.
Qed.

Lemma plan_ext d1 d2 ncn m keys : agree d1 d2 m ->
  forall ss done, (forall x p s, In (SNc x p s) ss -> In x (m_insts m)) ->
  plan d1 ncn m keys ss done = plan d2 ncn m keys ss done.
Proof.
  intros A. induction ss as [|s ss IH]; intros done H; cbn [plan]; [reflexivity|].
  assert (forall x p s', In (SNc x p s') ss -> In x (m_insts m)) as H' by (intros x p s' Hin; apply (H x p s'); right; exact Hin).
  destruct s as [q|x p site].
  - destruct (gid m keys q) as [g|]; cbn [ofopt bind]; [|reflexivity].
    destruct (kmem g done); [apply IH; exact H'|].
    destruct (group_res m keys g) as [[cx|owner namer]|e]; cbn [bind]; [apply IH; exact H'| |reflexivity].
    rewrite (key_width_ext d1 d2 m namer A). destruct (key_width d2 m namer); cbn [bind]; [|reflexivity].
    rewrite (IH (g :: done) H'). reflexivity.
  - rewrite (agree_port_width d1 d2 m x p A (H x p site (or_introl eq_refl))).
    destruct (port_width d2 x p); cbn [bind]; [|reflexivity]. rewrite (IH done H'). reflexivity.
Qed.

Lemma seeds_insts m x p s : In (SNc x p s) (seeds m) -> In x (m_insts m).
Proof.
  unfold seeds. intros H. apply in_flat_map in H. destruct H as [y [Hy H]].
  assert (In y (m_insts m)) as Hym.
  { apply in_app_or in Hy. destruct Hy as [Hy|Hy]; apply filter_In in Hy; tauto. }
  unfold inst_seeds in H. apply in_app_or in H. destruct H as [H|H].
  - apply in_map_iff in H. destruct H as [q [Hq _]]. discriminate.
  - apply in_flat_map in H. destruct H as [c [_ H]]. destruct (as_nc m (snd c)); [|destruct H].
    destruct H as [H|[]]. inversion H; subst. exact Hym.
Qed.

Lemma pr_table_ext d1 d2 ncn m : agree d1 d2 m -> pr_table d1 ncn m = pr_table d2 ncn m.
Proof.
  intros A. unfold pr_table. rewrite (all_keys_ext d1 d2 m A). destruct (all_keys d2 m) as [keys|]; cbn [bind]; [|reflexivity].
  rewrite (plan_ext d1 d2 ncn m keys A (seeds m) [] (seeds_insts m)). reflexivity.
Qed.

Theorem portrefs_module_ext d1 d2 ncn m : agree d1 d2 m -> portrefs_module d1 ncn m = portrefs_module d2 ncn m.
Proof. intros A. unfold portrefs_module. rewrite (pr_table_ext d1 d2 ncn m A). reflexivity. Qed.

(* ------------------------------------------------------------------------------------------ ArrayFlattener *)
Lemma elem_inst_ext d1 d2 x ps knm : elem_inst d1 x ps knm = elem_inst d2 x ps knm.
Proof. reflexivity. Qed.

Theorem arrays_module_ext d1 d2 m : agree d1 d2 m -> arrays_module d1 m = arrays_module d2 m.
Proof.
  intros A. unfold arrays_module. destruct (array_names (dissolved m) (namespace m)) as [tbl|]; cbn [bind]; [|reflexivity].
  rewrite (traverse_ext_in (expand_array d1) (expand_array d2)); [reflexivity|].
  intros [x nms] Hin. apply in_combine_l in Hin. apply dissolved_In in Hin. unfold expand_array. cbn [fst snd].
  rewrite (A x (proj1 Hin)). reflexivity.
Qed.

(* ------------------------------------------------------------------------------------------ ConnTypes *)
Theorem conntypes_check_ext d1 d2 self m : agree d1 d2 m -> conntypes_check d1 self m = conntypes_check d2 self m.
Proof.
  intros A. unfold conntypes_check, all_ok. rewrite (traverse_ext_in (conntypes_inst d1 m) (conntypes_inst d2 m)); [reflexivity|].
  intros x Hx. unfold conntypes_inst. rewrite (A x Hx). reflexivity.
Qed.

(* ------------------------------------------------------------------------------------------ every entry of the list *)
Theorem kind_fn_ext ck xi kind self d1 d2 m : agree d1 d2 m -> kind_fn ck xi kind self d1 m = kind_fn ck xi kind self d2 m.
Proof.
  intros A. unfold kind_fn. rewrite (portrefs_module_ext d1 d2 _ m A), (arrays_module_ext d1 d2 m A).
  unfold chk_mod. rewrite (conntypes_check_ext d1 d2 self m A). reflexivity.
Qed.

(* ------------------------------------------------------------------------------------------ the design made of views *)
Lemma find_view_In k vs v : find_view k vs = Some v -> In v vs /\ PM.v_mid v = k.
Proof.
  induction vs as [|a vs IH]; cbn [find_view]; [discriminate|]. destruct (Nat.eqb (PM.v_mid a) k) eqn:E.
  - intros H. inversion H; subst. split; [left; reflexivity|apply Nat.eqb_eq; exact E].
  - intros H. destruct (IH H). split; [right; assumption|assumption].
Qed.

Lemma fold_max_ge (l : list nat) x : In x l -> (x <= fold_right Nat.max 0%nat l)%nat.
Proof.
  induction l as [|a l IH]; intros H; [destruct H|]. cbn [fold_right]. destruct H as [->|H]; [lia|]. specialize (IH H). lia.
Qed.

(* what the body can learn about child k from the views: exactly the port list of its view *)
Lemma vdesign_target vs k v : find_view k vs = Some v -> target_ports (vdesign vs) (TMod k) = Ok (vports v).
Proof.
  intros H. pose proof (find_view_In _ _ _ H) as [Hin Hk]. cbn [target_ports]. unfold nth_mod, vdesign. cbn [d_mods].
  assert (k < S (fold_right Nat.max 0%nat (map (@PM.v_mid ports ports) vs)))%nat as Hlt.
  { assert (k <= fold_right Nat.max 0%nat (map (@PM.v_mid ports ports) vs))%nat; [|lia].
    apply fold_max_ge. rewrite <- Hk. apply in_map. exact Hin. }
  rewrite nth_error_map.
  assert (nth_error (seq 0 (S (fold_right Nat.max 0%nat (map (@PM.v_mid ports ports) vs)))) k = Some k) as E.
  { rewrite (nth_error_nth' _ 0%nat); [|rewrite seq_length; exact Hlt]. rewrite seq_nth by exact Hlt. reflexivity. }
  rewrite E. cbn [option_map]. rewrite H. reflexivity.
Qed.

Lemma vdesign_target_dev vs dev ps : target_ports (vdesign vs) (TDev dev ps) = Ok ps.
Proof. reflexivity. Qed.

(* ------------------------------------------------------------------------------------------ what every entry keeps *)
Lemma chk_mod_ok f m m' : chk_mod f m = Ok m' -> m' = m /\ f m = Ok tt.
Proof. unfold chk_mod. intros H. apply bind_ok in H. destruct H as [[] [Hf H]]. inversion H; subst. auto. Qed.

Lemma kind_fn_keeps ck xi kind self d m m' : kind_fn ck xi kind self d m = Ok m' ->
  m_ports m' = m_ports m /\ m_name m' = m_name m.
Proof.
  assert (forall f, (if ck then chk_mod f m else Ok m) = Ok m' -> m' = m) as Hc.
  { intros f H. destruct ck; [apply chk_mod_ok in H; tauto|inversion H; reflexivity]. }
  unfold kind_fn. intros H.
  destruct (String.eqb kind "Orphanage"); [apply Hc in H; subst; auto|].
  destruct (String.eqb kind "InstBundleElabPass"); [inversion H; subst; auto|].
  destruct (String.eqb kind "ResolvePortRefs").
  { destruct (portrefs_module_inv _ _ _ _ H) as [keys [allocs [names [insts1 [_ [_ [_ [_ ->]]]]]]]]. split; reflexivity. }
  destruct (String.eqb kind "ConnTypes"); [apply Hc in H; subst; auto|].
  destruct (String.eqb kind "BundleFlattener"); [inversion H; subst; auto|].
  destruct (String.eqb kind "ArrayFlattener").
  { destruct (arrays_module_inv _ _ _ H) as [_ [_ [_ [_ [Hn [Hp _]]]]]]. split; assumption. }
  destruct (String.eqb kind "SliceResolver"); [apply slices_module_inv in H; tauto|].
  destruct (String.eqb kind "MarkModules"); [apply Hc in H; subst; auto|discriminate].
Qed.
