(* Proofs/C02EProofsPlan.v — what a SUCCESSFUL run of ResolvePortRefs' allocation plan (Model/C01EElab.v:plan) says about
   an ARBITRARY module (no validity assumed): every reference that was taken belongs to a group whose resolution
   (handle_portconn / handle_noconn) succeeded, and every implicit signal belongs to such a group and has the width of
   the port it was copied from. *)
From Coq Require Import String.
Require Import Hdl21.Base.PyInt Hdl21.Spec.PySlice Hdl21.Model.Slice Hdl21.Model.Resolve Hdl21.Base.Design
               Hdl21.Spec.WfDesign Hdl21.Model.C01EElab
               Hdl21.Proofs.FunGraph Hdl21.Proofs.ResolveProofs Hdl21.Proofs.C01EProofsBase Hdl21.Proofs.C01EProofsPass
               Hdl21.Proofs.C01EProofsGroups Hdl21.Proofs.C01EProofsPlan Hdl21.Proofs.C01EProofsPortRefs
               Hdl21.Proofs.C02EProofsBase.
Open Scope Z_scope.

Section PlanAny.
Variables (d : design) (ncn : list (N * name)) (m : module) (keys : list key).

(* the group was resolved: a declared connection, or an implicit signal copied from an existing port *)
Definition gok (g : key) : Prop :=
  exists gr, group_res m keys g = Ok gr /\
    match gr with GSrc _ => True | GFresh _ namer => exists w, key_width d m namer = Ok w end.

Lemma plan_any : forall ss done allocs, plan d ncn m keys ss done = Ok allocs ->
  (forall q, In (SRef q) ss -> exists g, gid m keys q = Some g /\ (In g done \/ gok g)) /\
  (forall a g o, In a allocs -> a_kind a = AGroup g o ->
     exists q namer, In (SRef q) ss /\ gid m keys q = Some g /\ group_res m keys g = Ok (GFresh o namer) /\
                     key_width d m namer = Ok (a_width a)).
Proof.
  induction ss as [|s r IH]; intros done allocs H; cbn [plan] in H.
  - inversion H; subst. split; [intros q []|intros a g o []].
  - destruct s as [q|x p site].
    + apply bind_ok in H. destruct H as [g [Hg H]]. apply ofopt_ok in Hg.
      destruct (kmem g done) eqn:Ek.
      * destruct (IH _ _ H) as [I1 I2]. split.
        -- intros q' [E|Hin]; [inversion E; subst q'; exists g; split; [exact Hg|left; apply kmem_In; exact Ek]|apply I1; exact Hin].
        -- intros a g' o Ha Hk. destruct (I2 a g' o Ha Hk) as [q' [nm [Hq' Hrest]]]. exists q', nm. split; [right; exact Hq'|exact Hrest].
      * apply bind_ok in H. destruct H as [gr [Hgr H]]. destruct gr as [cx|o namer].
        -- destruct (IH _ _ H) as [I1 I2]. assert (gok g) as Hok by (exists (GSrc cx); split; [exact Hgr|exact I]). split.
           ++ intros q' [E|Hin]; [inversion E; subst q'; exists g; split; [exact Hg|right; exact Hok]|].
              destruct (I1 q' Hin) as [g' [Hg' [[E|Hd]|Hk]]]; exists g'; (split; [exact Hg'|]); [right; rewrite <- E; exact Hok|left; exact Hd|right; exact Hk].
           ++ intros a g' o' Ha Hk. destruct (I2 a g' o' Ha Hk) as [q' [nm [Hq' Hrest]]]. exists q', nm. split; [right; exact Hq'|exact Hrest].
        -- apply bind_ok in H. destruct H as [w [Hw H]]. apply bind_ok in H. destruct H as [rest [Hrest H]]. inversion H; subst allocs.
           destruct (IH _ _ Hrest) as [I1 I2].
           assert (gok g) as Hok by (exists (GFresh o namer); split; [exact Hgr|exists w; exact Hw]). split.
           ++ intros q' [E|Hin]; [inversion E; subst q'; exists g; split; [exact Hg|right; exact Hok]|].
              destruct (I1 q' Hin) as [g' [Hg' [[E|Hd]|Hk]]]; exists g'; (split; [exact Hg'|]); [right; rewrite <- E; exact Hok|left; exact Hd|right; exact Hk].
           ++ intros a g' o' [<-|Ha] Hk.
              ** cbn [a_kind] in Hk. inversion Hk; subst g' o'. exists q, namer. cbn [a_width]. split; [left; reflexivity|]. split; [exact Hg|]. split; [exact Hgr|exact Hw].
              ** destruct (I2 a g' o' Ha Hk) as [q' [nm [Hq' Hr']]]. exists q', nm. split; [right; exact Hq'|exact Hr'].
    + apply bind_ok in H. destruct H as [w [Hw H]]. apply bind_ok in H. destruct H as [rest [Hrest H]]. inversion H; subst allocs.
      destruct (IH _ _ Hrest) as [I1 I2]. split.
      * intros q' [E|Hin]; [discriminate|apply I1; exact Hin].
      * intros a g o [<-|Ha] Hk; [cbn [a_kind] in Hk; discriminate|].
        destruct (I2 a g o Ha Hk) as [q' [nm [Hq' Hr']]]. exists q', nm. split; [right; exact Hq'|exact Hr'].
Qed.

(* a reference to a port of an existing instance is handed to the plan *)
Lemma seed_of_mentioned q y : In q (mentioned m) -> find_inst (m_insts m) (fst q) = Some y -> In (SRef q) (seeds m).
Proof.
  intros Hq Hf. destruct (find_inst_In _ _ _ Hf) as [Hy Hn]. unfold seeds. apply in_flat_map. exists y.
  split; [apply pr_insts_split; exact Hy|]. unfold inst_seeds. apply in_or_app. left. apply in_map. apply filter_In.
  split; [exact Hq|]. rewrite Hn. apply String.eqb_refl.
Qed.

Lemma seed_is_mentioned q : In (SRef q) (seeds m) -> In q (mentioned m).
Proof.
  unfold seeds. intros H. apply in_flat_map in H. destruct H as [x [_ H]]. unfold inst_seeds in H. apply in_app_or in H.
  destruct H as [H|H].
  - apply in_map_iff in H. destruct H as [q' [E Hq']]. inversion E; subst q'. apply filter_In in Hq'. tauto.
  - apply in_flat_map in H. destruct H as [c [_ H]]. destruct (as_nc m (snd c)); [destruct H as [E|[]]; discriminate|destruct H].
Qed.
End PlanAny.
