(* Proofs/C11ENormal.v — C11E: the boolean normal form c11_normal (Model/C11EConv.v) implies every hypothesis of
   C11_pkg_roundtrip_partial, hence rt_pkg p = Ok p. *)
Require Import Hdl21.Base.PyInt Hdl21.Spec.PySlice Hdl21.Model.Slice Hdl21.Model.Resolve Hdl21.Base.Design
               Hdl21.Base.Package Hdl21.Base.Dec Hdl21.Model.C11RoundTrip Hdl21.Proofs.C11Proofs Hdl21.Model.C01EElab
               Hdl21.Model.C11EConv.
From Coq Require Import String Ascii.
Open Scope string_scope.
Open Scope Z_scope.

(* ------------------------------------------------------------------------------------------ the eqb's decide equality *)
Lemma list_eqb_eq {A} (f : A -> A -> bool) : (forall x y, f x y = true -> x = y) ->
  forall a b, list_eqb f a b = true -> a = b.
Proof.
  intros Hf. induction a as [|x a IH]; intros [|y b]; cbn [list_eqb]; intros H; try discriminate; [reflexivity|].
  apply andb_prop in H. destruct H as [H1 H2]. rewrite (Hf x y H1), (IH b H2). reflexivity.
Qed.

Lemma dec_eqb_eq a b : dec_eqb a b = true -> a = b.
Proof.
  unfold dec_eqb. destruct a as [s1 c1 e1], b as [s2 c2 e2]. cbn [dsign dcoef dexp]. intros H.
  apply andb_prop in H. destruct H as [H H3]. apply andb_prop in H. destruct H as [H1 H2].
  apply Bool.eqb_prop in H1. apply N.eqb_eq in H2. apply Z.eqb_eq in H3. subst. reflexivity.
Qed.

Lemma pnum_eqb_eq a b : pnum_eqb a b = true -> a = b.
Proof.
  destruct a, b; cbn [pnum_eqb]; intros H; try discriminate; try reflexivity.
  - apply Z.eqb_eq in H. subst. reflexivity.
  - apply String.eqb_eq in H. subst. reflexivity.
  - apply dec_eqb_eq in H. subst. reflexivity.
  - apply String.eqb_eq in H. subst. reflexivity.
Qed.

Lemma pvalue_eqb_eq a b : pvalue_eqb a b = true -> a = b.
Proof.
  destruct a, b; cbn [pvalue_eqb]; intros H; try discriminate; try reflexivity.
  - apply Z.eqb_eq in H. subst. reflexivity.
  - apply String.eqb_eq in H. subst. reflexivity.
  - apply String.eqb_eq in H. subst. reflexivity.
  - apply String.eqb_eq in H. subst. reflexivity.
  - apply andb_prop in H. destruct H as [H1 H2]. apply String.eqb_eq in H1. apply pnum_eqb_eq in H2. subst. reflexivity.
Qed.

Lemma params_eqb_eq a b : params_eqb a b = true -> a = b.
Proof.
  apply list_eqb_eq. intros [k1 v1] [k2 v2]. unfold pair_eqb. cbn [fst snd]. intros H. apply andb_prop in H. destruct H as [H1 H2].
  apply String.eqb_eq in H1. apply pvalue_eqb_eq in H2. subst. reflexivity.
Qed.

Lemma pref_eqb_eq a b : pref_eqb a b = true -> a = b.
Proof.
  destruct a, b; cbn [pref_eqb]; intros H; try discriminate.
  - apply String.eqb_eq in H. subst. reflexivity.
  - apply andb_prop in H. destruct H as [H1 H2]. apply String.eqb_eq in H1. apply String.eqb_eq in H2. subst. reflexivity.
Qed.

(* ------------------------------------------------------------------------------------------ primitives: rt_ref looks at no table of the package *)
Lemma rt_ref_prim_indep exts earlier dom nm ps : is_prim_domain dom = true ->
  rt_ref exts earlier (PExt dom nm) ps = rt_ref [] [] (PExt dom nm) ps.
Proof.
  unfold is_prim_domain. intros H. cbn [rt_ref]. destruct (String.eqb dom "vlsir.primitives"); [reflexivity|].
  cbn [orb] in H. rewrite H. reflexivity.
Qed.

(* ------------------------------------------------------------------------------------------ one instance *)
Lemma inst_normal_sound exts earlier sigs i : inst_normal exts earlier sigs i = true ->
  exists ports, ref_roundtrips exts earlier i ports /\ conns_normal sigs ports (ci_conns i) = true.
Proof.
  unfold inst_normal. destruct (ci_ref i) as [nm|dom nm] eqn:Er.
  - destruct (find_c11mod earlier nm) as [m'|] eqn:Ef; [|discriminate]. intros H. apply andb_prop in H. destruct H as [Hp Hc].
    exists (map fst (cm_ports m')). split; [|exact Hc]. apply (ref_local_roundtrip exts earlier i nm m' Er Ef).
    destruct (ci_params i); [reflexivity|discriminate].
  - destruct (is_prim_domain dom) eqn:Ed.
    + destruct (rt_ref [] [] (PExt dom nm) (ci_params i)) as [[[r ps] ports]|] eqn:Ert; [|discriminate].
      intros H. apply andb_prop in H. destruct H as [H Hc]. apply andb_prop in H. destruct H as [H1 H2].
      apply pref_eqb_eq in H1. apply params_eqb_eq in H2. subst r ps. exists ports. split; [|exact Hc].
      unfold ref_roundtrips. rewrite Er. rewrite (rt_ref_prim_indep exts earlier dom nm _ Ed). exact Ert.
    + destruct (find_c11ext exts dom nm) as [x|] eqn:Ef; [|discriminate]. intros H. apply andb_prop in H. destruct H as [Hp Hc].
      exists (map fst (cx_sigs x)). split; [|exact Hc]. apply (ref_ext_roundtrip exts earlier i dom nm x Er Ed Ef Hp).
Qed.

Lemma mod_normal_sound exts earlier m : mod_normal exts earlier m = true -> rt_mod exts earlier m = Ok m.
Proof.
  unfold mod_normal. intros H. apply andb_prop in H. destruct H as [Hh Hi]. apply mod_roundtrip; [exact Hh|].
  intros i Hin. apply inst_normal_sound. rewrite forallb_forall in Hi. apply Hi. exact Hin.
Qed.

Lemma mods_normal_sound exts ms : forall earlier, mods_normal exts earlier ms = true ->
  forall pre m post, ms = (pre ++ m :: post)%list -> rt_mod exts (earlier ++ pre)%list m = Ok m.
Proof.
  induction ms as [|m0 ms IH]; intros earlier H pre m post E.
  - destruct pre; discriminate.
  - cbn [mods_normal] in H. apply andb_prop in H. destruct H as [H0 Hr]. destruct pre as [|p0 pre].
    + cbn [app] in E. inversion E; subst. rewrite app_nil_r. apply mod_normal_sound. exact H0.
    + cbn [app] in E. inversion E; subst. specialize (IH (earlier ++ [p0])%list Hr pre m post eq_refl).
      rewrite <- app_assoc in IH. exact IH.
Qed.

(* the boolean normal form is sufficient for the round trip *)
Theorem normal_roundtrip p : c11_normal p = true -> rt_pkg p = Ok p.
Proof.
  unfold c11_normal. intros H. apply andb_prop in H. destruct H as [H Hm]. apply andb_prop in H. destruct H as [Hn He].
  apply pkg_roundtrip; [exact Hn|exact He|]. intros pre m post E.
  exact (mods_normal_sound (ck_exts p) (ck_mods p) [] Hm pre m post E).
Qed.
