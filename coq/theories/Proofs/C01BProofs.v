(* Proofs/C01BProofs.v — lemmas about the path-based net meaning of the bundle fragment (Spec/C01BNets.v):
   1. node equality is decided by bnode_eqb; the executable relation decides the equivalence closure of the one-step relation
      (as Proofs/NetsProofs.v, over bnode);
   2. conservative extension: on a design without bundles (Base/Design.v embedded into Base/C01BDesign.v) the one-step map,
      the orbits and the labels coincide with those of Spec/Nets.v;
   3. the one-step map on a bundle-valued port, case by case (the sentence of the property, member-wise). *)
Require Import Hdl21.Base.PyInt Hdl21.Spec.PySlice Hdl21.Model.Slice Hdl21.Model.Resolve Hdl21.Base.Design
               Hdl21.Spec.Nets Hdl21.Base.C01BDesign Hdl21.Spec.C01BNets Hdl21.Proofs.FunGraph Hdl21.Proofs.NetsProofs.
Require Hdl21.Spec.BundleSpec Hdl21.Proofs.BundleProofs.

(* ------------------------------------------------------------------------------------------------ *)
(* 1. equality, decision                                                                             *)
(* ------------------------------------------------------------------------------------------------ *)
Lemma mpath_eqb_eq a b : mpath_eqb a b = true <-> a = b.
Proof. unfold mpath_eqb. apply BundleProofs.path_eqb_eq. Qed.

Lemma mpath_eqb_refl a : mpath_eqb a a = true.
Proof. apply mpath_eqb_eq. reflexivity. Qed.

Lemma path_eqb_refl a : path_eqb a a = true.
Proof. apply path_eqb_eq. reflexivity. Qed.

Lemma bnode_eqb_eq a b : bnode_eqb a b = true <-> a = b.
Proof.
  destruct a, b; cbn [bnode_eqb]; split; intros H; try discriminate.
  - repeat (apply andb_prop in H; destruct H as [H ?]).
    apply path_eqb_eq in H. apply String.eqb_eq in H2. apply mpath_eqb_eq in H1. apply Z.eqb_eq in H0. subst. reflexivity.
  - inversion H; subst. rewrite String.eqb_refl, Z.eqb_refl, path_eqb_refl, mpath_eqb_refl. reflexivity.
  - repeat (apply andb_prop in H; destruct H as [H ?]).
    apply path_eqb_eq in H. apply String.eqb_eq in H4. apply Z.eqb_eq in H3. apply String.eqb_eq in H2.
    apply mpath_eqb_eq in H1. apply Z.eqb_eq in H0. subst. reflexivity.
  - inversion H; subst. rewrite !String.eqb_refl, !Z.eqb_refl, path_eqb_refl, mpath_eqb_refl. reflexivity.
  - repeat (apply andb_prop in H; destruct H as [H ?]).
    apply path_eqb_eq in H. apply N.eqb_eq in H1. apply Z.eqb_eq in H0. subst. reflexivity.
  - inversion H; subst. rewrite N.eqb_refl, Z.eqb_refl, path_eqb_refl. reflexivity.
Qed.

Section BDecide.
Variable d : bdesign.
Variable f : bnode -> bnode.
Variable nodes : list bnode.
Hypothesis step_f : forall x, In x nodes -> bstep d x = Ok (f x).
Hypothesis closed : forall x, In x nodes -> In (f x) nodes.

Lemma borbit_orbitf fuel : forall x, In x nodes -> borbit d fuel x = Ok (orbitf bnode f bnode_eqb fuel x).
Proof.
  induction fuel as [|k IH]; intros x Hx; cbn [borbit orbitf]; [reflexivity|].
  rewrite (step_f x Hx). cbn [bind]. destruct (bnode_eqb (f x) x); [reflexivity|].
  rewrite IH by (apply closed; exact Hx). reflexivity.
Qed.

Theorem bsame_net_decided fuel x y : (Datatypes.length nodes <= fuel)%nat -> In x nodes -> In y nodes ->
  ((exists ox oy, borbit d fuel x = Ok ox /\ borbit d fuel y = Ok oy /\ bmeets ox oy = true) <-> conn bnode f x y).
Proof.
  intros Hf Hx Hy. rewrite <- (meets_iff bnode f bnode_eqb bnode_eqb_eq nodes closed fuel x y Hf Hx Hy).
  rewrite !borbit_orbitf by assumption. split.
  - intros [ox [oy [H1 [H2 H3]]]]. inversion H1; inversion H2; subst. exact H3.
  - intros H. eauto.
Qed.
End BDecide.

(* ------------------------------------------------------------------------------------------------ *)
(* 2. conservative extension                                                                         *)
(* ------------------------------------------------------------------------------------------------ *)
Definition embed_leaf (l : leaf) : bleaf :=
  match l with LSig s => BLSig s | LRef i p => BLRef i p | LNc s => BLNc s end.

Definition embed_inst (x : inst) : binst :=
  {| bi_name := i_name x; bi_n := i_n x; bi_pair := false; bi_of := i_of x;
     bi_conns := map (fun c => (fst c, BXSx (snd c))) (i_conns x) |}.

Definition embed_module (m : module) : bmodule :=
  {| bm_name := m_name m; bm_ports := m_ports m; bm_sigs := m_sigs m; bm_bundles := [];
     bm_insts := map embed_inst (m_insts m);
     bm_leaves := map (fun il => (fst il, embed_leaf (snd il))) (m_leaves m) |}.

Definition embed (d : design) : bdesign := {| bd_mods := map embed_module (d_mods d); bd_top := d_top d |}.

Definition embed_node (n : node) : bnode :=
  match n with
  | NSig p s k => NBSig p s [] k
  | NPort p i e port k => NBPort p i e port [] k
  | NNc p s k => NBNc p s k
  end.

Definition rmap {A B} (f : A -> B) (r : result A) : result B :=
  match r with Ok a => Ok (f a) | Error e => Error e end.

Lemma nth_bmod_embed d k : nth_bmod (embed d) k = rmap embed_module (nth_mod d k).
Proof.
  unfold nth_bmod, nth_mod, embed. cbn [bd_mods]. rewrite nth_error_map.
  destruct (nth_error (d_mods d) k); reflexivity.
Qed.

Lemma find_binst_embed l i : find_binst (map embed_inst l) i = option_map embed_inst (find_inst l i).
Proof.
  induction l as [|x l IH]; [reflexivity|]. cbn [map find_binst find_inst embed_inst bi_name].
  destruct (String.eqb (i_name x) i); [reflexivity|exact IH].
Qed.

Lemma bmod_down_embed d p : forall m, bmod_down (embed d) (embed_module m) p = rmap embed_module (mod_down d m p).
Proof.
  induction p as [|[i e] p IH]; intros m; [reflexivity|].
  cbn [bmod_down mod_down]. cbn [embed_module bm_insts]. rewrite find_binst_embed.
  destruct (find_inst (m_insts m) i) as [x|]; [|reflexivity]. cbn [option_map ofopt bind embed_inst bi_of].
  destruct (i_of x) as [k|dev ps]; [|reflexivity].
  rewrite nth_bmod_embed. destruct (nth_mod d k) as [m'|err]; [|reflexivity]. cbn [rmap bind]. apply IH.
Qed.

Lemma bmod_at_embed d p : bmod_at (embed d) p = rmap embed_module (mod_at d p).
Proof.
  unfold bmod_at, mod_at. rewrite nth_bmod_embed. cbn [embed bd_top].
  destruct (nth_mod d (d_top d)) as [m|err]; [|reflexivity]. cbn [rmap bind]. apply bmod_down_embed.
Qed.

Lemma bassoc_embed port cs : bassoc port (map (fun c : name * sx => (fst c, BXSx (snd c))) cs) = option_map BXSx (assoc port cs).
Proof.
  induction cs as [|[k v] cs IH]; [reflexivity|]. cbn [map bassoc assoc fst snd].
  destruct (String.eqb port k); [reflexivity|exact IH].
Qed.

Lemma width_embed d x port : btarget_port_width (embed d) (i_of x) port [] = port_width d x port.
Proof.
  unfold btarget_port_width, port_width, target_ports. destruct (i_of x) as [k|dev ps]; [|reflexivity].
  rewrite nth_bmod_embed. destruct (nth_mod d k) as [m|err]; reflexivity.
Qed.

Lemma assocN_embed id ls : assocN id (map (fun il : N * leaf => (fst il, embed_leaf (snd il))) ls) = option_map embed_leaf (assocN id ls).
Proof.
  induction ls as [|[k v] ls IH]; [reflexivity|]. cbn [map assocN fst snd].
  destruct (N.eqb id k); [reflexivity|exact IH].
Qed.

Lemma is_bport_embed m s : is_bport (embed_module m) s [] = is_port m s.
Proof. reflexivity. Qed.

Theorem bstep_embed d n : bstep (embed d) (embed_node n) = rmap embed_node (step d n).
Proof.
  destruct n as [[|[i e] p'] s k|p i e port k|p s k]; cbn [embed_node bstep step]; [reflexivity| | |reflexivity].
  - rewrite bmod_at_embed. match goal with |- context [mod_at d ?q] => destruct (mod_at d q) as [m|err]; [|reflexivity] end.
    cbn [rmap bind]. rewrite is_bport_embed. destruct (is_port m s); reflexivity.
  - rewrite bmod_at_embed. destruct (mod_at d p) as [m|err]; [|reflexivity]. cbn [rmap bind].
    cbn [embed_module bm_insts]. rewrite find_binst_embed.
    destruct (find_inst (m_insts m) i) as [x|]; [|reflexivity]. cbn [option_map ofopt bind].
    unfold conn_bit. cbn [embed_inst bi_conns bi_pair bi_of bi_n]. rewrite bassoc_embed.
    destruct (assoc port (i_conns x)) as [cx|]; [|reflexivity]. cbn [option_map is_sx negb andb member bind].
    unfold sx_bit. rewrite width_embed.
    destruct (xbits cx) as [bits|err]; [|reflexivity]. cbn [bind].
    destruct (port_width d x port) as [w|err]; [|reflexivity]. cbn [bind].
    destruct ((k <? 0) || (w <=? k)); [reflexivity|].
    assert (L : forall ij : N * Z,
              leaf_node (embed_module m) p (NBPort p i e port [] k) (fst ij) (snd ij) =
              rmap embed_node (let (id, j) := ij in
                               lf <- ofopt EMissing (assocN id (m_leaves m)) ;;
                               match lf with
                               | LSig s => Ok (NSig p s j)
                               | LRef i' p' => Ok (NPort p i' 0 p' j)
                               | LNc _ => Ok (NPort p i e port k)
                               end)).
    { intros [id j]. unfold leaf_node. cbn [fst snd embed_module bm_leaves]. rewrite assocN_embed.
      destruct (assocN id (m_leaves m)) as [lf|]; [|reflexivity]. destruct lf; reflexivity. }
    destruct (zlen bits =? w).
    + destruct (pick bits k) as [ij|err]; [|reflexivity]. cbn [bind]. apply L.
    + destruct ((0 <? i_n x) && (zlen bits =? i_n x * w)); [|reflexivity].
      destruct (pick bits (e * w + k)) as [ij|err]; [|reflexivity]. cbn [bind]. apply L.
Qed.

Lemma bnode_eqb_embed a b : bnode_eqb (embed_node a) (embed_node b) = node_eqb a b.
Proof.
  destruct a, b; cbn [embed_node bnode_eqb node_eqb]; try reflexivity.
  - cbn [mpath_eqb BundleSpec.path_eqb]. rewrite andb_true_r. reflexivity.
  - cbn [mpath_eqb BundleSpec.path_eqb]. rewrite andb_true_r. reflexivity.
Qed.

Theorem borbit_embed d fuel : forall n, borbit (embed d) fuel (embed_node n) = rmap (map embed_node) (orbit d fuel n).
Proof.
  induction fuel as [|f IH]; intros n; [reflexivity|].
  cbn [borbit orbit]. rewrite bstep_embed. destruct (step d n) as [n'|err]; [|reflexivity]. cbn [rmap bind].
  rewrite bnode_eqb_embed. destruct (node_eqb n' n); [reflexivity|].
  rewrite IH. destruct (orbit d f n'); reflexivity.
Qed.

Lemma bmeets_embed a b : bmeets (map embed_node a) (map embed_node b) = Nets.meets a b.
Proof.
  unfold bmeets, Nets.meets. induction a as [|x a IH]; [reflexivity|]. cbn [map existsb]. rewrite IH. f_equal.
  clear IH. induction b as [|y b IHb]; [reflexivity|]. cbn [map existsb]. rewrite bnode_eqb_embed, IHb. reflexivity.
Qed.

Lemma bfirst_meet_embed o os : forall k, bfirst_meet (map embed_node o) (map (map embed_node) os) k = first_meet o os k.
Proof.
  induction os as [|o' os IH]; intros k; [reflexivity|]. cbn [map bfirst_meet first_meet].
  rewrite bmeets_embed. destruct (Nets.meets o o'); [reflexivity|apply IH].
Qed.

Lemma traverse_borbit_embed d fuel ts :
  traverse (borbit (embed d) fuel) (map embed_node ts) = rmap (map (map embed_node)) (traverse (orbit d fuel) ts).
Proof.
  induction ts as [|t ts IH]; [reflexivity|]. cbn [map traverse]. rewrite borbit_embed.
  destruct (orbit d fuel t) as [o|err]; [|reflexivity]. cbn [rmap bind]. rewrite IH.
  destruct (traverse (orbit d fuel) ts); reflexivity.
Qed.

Theorem blabels_embed d fuel ts : blabels (embed d) fuel (map embed_node ts) = labels d fuel ts.
Proof.
  unfold blabels, labels. rewrite traverse_borbit_embed.
  destruct (traverse (orbit d fuel) ts) as [os|err]; [|reflexivity]. cbn [rmap bind]. f_equal.
  rewrite map_map. apply map_ext. intros o. apply bfirst_meet_embed.
Qed.

(* ------------------------------------------------------------------------------------------------ *)
(* 3. the one-step map on a bundle-valued port, member-wise                                          *)
(* ------------------------------------------------------------------------------------------------ *)
Section MemberStep.
Variable d : bdesign.
Variables (p : path) (i : name) (e : Z) (port : name) (mp : mpath) (k : Z).
Variables (m : bmodule) (x : binst) (w : Z).
Hypothesis Hm : bmod_at d p = Ok m.
Hypothesis Hx : find_binst (bm_insts m) i = Some x.
Hypothesis Hw : btarget_port_width d (bi_of x) port mp = Ok w.
Hypothesis Hk : 0 <= k < w.

Lemma in_width_ok : in_width (Ok w) k = Ok tt.
Proof. unfold in_width. cbn [bind]. destruct ((k <? 0) || (w <=? k)) eqn:E; [lia|reflexivity]. Qed.

(* a bundle instance / sub-bundle reference: the same member below the prefix, the same bit *)
Lemma bstep_inst b pre : bi_pair x = false -> bassoc port (bi_conns x) = Some (BXInst b pre) ->
  bstep d (NBPort p i e port mp k) = Ok (NBSig p b (pre ++ mp) k).
Proof.
  intros Hp Hc. cbn [bstep]. rewrite Hm. cbn [bind]. rewrite Hx. cbn [ofopt bind]. rewrite Hc, Hp. cbn [andb member bind].
  rewrite Hw, in_width_ok. reflexivity.
Qed.

(* the bundle port p' of instance i': the same member of that port *)
Lemma bstep_ref i' p' : bi_pair x = false -> bassoc port (bi_conns x) = Some (BXRef i' p') ->
  bstep d (NBPort p i e port mp k) = Ok (NBPort p i' 0 p' mp k).
Proof.
  intros Hp Hc. cbn [bstep]. rewrite Hm. cbn [bind]. rewrite Hx. cbn [ofopt bind]. rewrite Hc, Hp. cbn [andb member bind].
  rewrite Hw, in_width_ok. reflexivity.
Qed.

(* a no-connect: every member bit (of every array element) is a net of its own *)
Lemma bstep_nc site : bi_pair x = false -> bassoc port (bi_conns x) = Some (BXNc site) ->
  bstep d (NBPort p i e port mp k) = Ok (NBPort p i e port mp k).
Proof.
  intros Hp Hc. cbn [bstep]. rewrite Hm. cbn [bind]. rewrite Hx. cbn [ofopt bind]. rewrite Hc, Hp. cbn [andb member bind].
  rewrite Hw, in_width_ok. reflexivity.
Qed.

(* unconnected (only referenced): a fixed point *)
Lemma bstep_unconnected : bassoc port (bi_conns x) = None ->
  bstep d (NBPort p i e port mp k) = Ok (NBPort p i e port mp k).
Proof. intros Hc. cbn [bstep]. rewrite Hm. cbn [bind]. rewrite Hx. cbn [ofopt bind]. rewrite Hc. reflexivity. Qed.
End MemberStep.

(* an anonymous bundle: member n :: rest is member rest of what the anonymous bundle holds under n *)
Fixpoint anon_find (n : name) (ms : list (name * bexpr)) : option bexpr :=
  match ms with
  | [] => None
  | (n', sub) :: ms' => if String.eqb n n' then Some sub else anon_find n ms'
  end.

Lemma member_anon ms n rest : member (BXAnon ms) (n :: rest) =
  match anon_find n ms with Some sub => member sub rest | None => Error EMissing end.
Proof.
  cbn [member]. induction ms as [|[n' sub] ms IH]; [reflexivity|]. cbn [anon_find].
  destruct (String.eqb n n'); [reflexivity|exact IH].
Qed.

(* a bundle port connected to an anonymous bundle steps exactly as if it were connected, with the rest of the path,
   to the member the anonymous bundle holds under the first segment *)
Lemma bstep_anon d p i e port n rest k m x ms sub :
  bmod_at d p = Ok m -> find_binst (bm_insts m) i = Some x -> bi_pair x = false ->
  bassoc port (bi_conns x) = Some (BXAnon ms) -> anon_find n ms = Some sub ->
  bstep d (NBPort p i e port (n :: rest) k) =
  (let wr := btarget_port_width d (bi_of x) port (n :: rest) in
   t <- member sub rest ;;
   match t with
   | MTSx cx => ij <- sx_bit (bi_n x) cx wr e k ;; leaf_node m p (NBPort p i e port (n :: rest) k) (fst ij) (snd ij)
   | MTSig b q => _ <- in_width wr k ;; Ok (NBSig p b q k)
   | MTRef i' p' q => _ <- in_width wr k ;; Ok (NBPort p i' 0 p' q k)
   | MTNc => _ <- in_width wr k ;; Ok (NBPort p i e port (n :: rest) k)
   end).
Proof.
  intros Hm Hx Hp Hc Hf. cbn [bstep]. rewrite Hm. cbn [bind]. rewrite Hx. cbn [ofopt bind]. rewrite Hc, Hp.
  cbn [andb]. rewrite member_anon, Hf. reflexivity.
Qed.

(* a Pair: element p / n of the pair takes member p / n of a bundle-like connection, and the whole of a scalar one *)
Lemma bstep_pair_bundle d p i e port k m x bx :
  bmod_at d p = Ok m -> find_binst (bm_insts m) i = Some x -> bi_pair x = true -> is_sx bx = false ->
  bassoc port (bi_conns x) = Some bx ->
  bstep d (NBPort p i e port [] k) =
  (let wr := btarget_port_width d (bi_of x) port [] in
   t <- member bx [pair_elem e] ;;
   match t with
   | MTSx cx => ij <- sx_bit 0 cx wr e k ;; leaf_node m p (NBPort p i e port [] k) (fst ij) (snd ij)
   | MTSig b q => _ <- in_width wr k ;; Ok (NBSig p b q k)
   | MTRef i' p' q => _ <- in_width wr k ;; Ok (NBPort p i' 0 p' q k)
   | MTNc => _ <- in_width wr k ;; Ok (NBPort p i e port [] k)
   end).
Proof.
  intros Hm Hx Hp Hs Hc. cbn [bstep]. rewrite Hm. cbn [bind]. rewrite Hx. cbn [ofopt bind]. rewrite Hc, Hp, Hs. reflexivity.
Qed.

(* a port-bundle member of a non-top module goes up to the same member of the port of the instance it was reached through *)
Lemma bstep_up d i e p' s mp k m : bmod_at d ((i, e) :: p') = Ok m -> is_bport m s mp = true ->
  bstep d (NBSig ((i, e) :: p') s mp k) = Ok (NBPort p' i e s mp k).
Proof. intros Hm Hp. cbn [bstep]. rewrite Hm. cbn [bind]. rewrite Hp. reflexivity. Qed.
