(* Proofs/C14XOrderProofs.v — C14X: chains of comparisons, mixed operands (Prefixed vs int / float / Decimal), hashes across
   types, and int() / float() side by side.

   The comparison of two prefixed numbers rounds both to the grid 10^(s - 20), s the SMALLER of the two prefixes.  Three numbers
   are therefore compared on up to three different grids, and `<` is transitive exactly when the grid of the outer pair is one
   of the two inner grids (prefix b >= min (prefix a) (prefix c)); in general only "never inverted" survives (a < b < c => a <= c),
   and there are chains a < b < c with a == c (within the documented tolerance) - shown by witnesses. *)
Require Import Hdl21.Base.PyInt Hdl21.Base.Dec Hdl21.Model.Prefixed Hdl21Gen.PrefixTable.
Require Import Hdl21.Spec.SimSpec Hdl21.Model.C17Float.
Require Import Hdl21.Proofs.C14Proofs Hdl21.Model.C14XModel Hdl21.Proofs.C14XFloatProofs.
Open Scope Z_scope.

(* ---------------------------------------------------------------- keys of three numbers at one exponent *)
Definition exp3 (a b c : pfx) : Z :=
  Z.min (Z.min (pexp a) (Z.min (pexp b) (pexp c))) (Z.min (prefix a) (Z.min (prefix b) (prefix c)) - EPSILON).

Lemma lt_values a b e : e <= pexp a -> e <= pexp b -> pcmp OLt a b = true -> vat e a < vat e b.
Proof.
  intros Ha Hb H. destruct (Z_lt_le_dec (vat e a) (vat e b)) as [L|L]; [exact L|].
  destruct (pcmp_never_inverts b a e Hb Ha L) as [G _]. rewrite <- (pcmp_swap OGt b a) in G. cbn [swap_op] in G. congruence.
Qed.

Lemma le_values_key a b e : e <= pexp a -> e <= pexp b -> e <= smaller_prefix a b - EPSILON -> forall s, e <= s - EPSILON ->
  vat e a <= vat e b -> rhe (vat e a) (10 ^ (s - EPSILON - e)) <= rhe (vat e b) (10 ^ (s - EPSILON - e)).
Proof. intros _ _ _ s Hs H. apply rhe_mono; [apply p10_pos'; lia|exact H]. Qed.

Lemma lt_trans_partial a b c : Z.min (prefix a) (prefix c) <= prefix b ->
  pcmp OLt a b = true -> pcmp OLt b c = true -> pcmp OLt a c = true.
Proof.
  intros HP Hab Hbc. set (e := exp3 a b c).
  assert (e <= pexp a /\ e <= pexp b /\ e <= pexp c) as [Ea [Eb Ec]] by (unfold e, exp3; lia).
  pose proof (lt_values a b e Ea Eb Hab) as Vab. pose proof (lt_values b c e Eb Ec Hbc) as Vbc.
  pose proof (smaller_prefix_min a b) as Sab. pose proof (smaller_prefix_min b c) as Sbc. pose proof (smaller_prefix_min a c) as Sac.
  rewrite pcmp_key in *.
  rewrite (rkey_spec a b e) in Hab by (unfold e, exp3; lia).
  rewrite (rkey_spec b c e) in Hbc by (unfold e, exp3; lia).
  rewrite (rkey_spec a c e) by (unfold e, exp3; lia).
  cbn [fst snd int_op] in *. apply Z.ltb_lt. apply Z.ltb_lt in Hab. apply Z.ltb_lt in Hbc.
  destruct (Z_le_gt_dec (prefix a) (prefix c)) as [Q|Q].
  - (* the grid of (a, c) is the grid of (a, b) *)
    assert (smaller_prefix a c = smaller_prefix a b) as -> by lia.
    apply Z.lt_le_trans with (1 := Hab). apply rhe_mono; [apply p10_pos'; unfold e, exp3; lia|lia].
  - assert (smaller_prefix a c = smaller_prefix b c) as -> by lia.
    apply Z.le_lt_trans with (2 := Hbc). apply rhe_mono; [apply p10_pos'; unfold e, exp3; lia|lia].
Qed.

Lemma lt_chain_never_inverted a b c : pcmp OLt a b = true -> pcmp OLt b c = true ->
  pcmp OLe a c = true /\ pcmp OGt a c = false /\ forall e, e <= pexp a -> e <= pexp b -> e <= pexp c -> vat e a < vat e c.
Proof.
  intros Hab Hbc.
  assert (forall e, e <= pexp a -> e <= pexp b -> e <= pexp c -> vat e a < vat e c) as V.
  { intros e Ea Eb Ec. pose proof (lt_values a b e Ea Eb Hab). pose proof (lt_values b c e Eb Ec Hbc). lia. }
  set (e := exp3 a b c).
  assert (e <= pexp a /\ e <= pexp b /\ e <= pexp c) as [Ea [Eb Ec]] by (unfold e, exp3; lia).
  destruct (pcmp_never_inverts a c e Ea Ec ltac:(specialize (V e Ea Eb Ec); lia)) as [G L].
  repeat split; assumption.
Qed.

(* le/lt chains with a middle operand of the same value *)
Lemma le_lt_values a b c e : e <= pexp a -> e <= pexp b -> e <= pexp c ->
  vat e a = vat e b -> pcmp OLt b c = true -> prefix a = prefix b -> pcmp OLt a c = true.
Proof.
  intros Ea Eb Ec V H P. rewrite pcmp_key in *.
  set (e0 := Z.min e (exp3 a b c)).
  assert (vat e0 a = vat e0 b) as V0.
  { rewrite (vat_shift e0 e a), (vat_shift e0 e b) by (unfold e0; lia). rewrite V. reflexivity. }
  pose proof (smaller_prefix_min a c) as Sac. pose proof (smaller_prefix_min b c) as Sbc.
  rewrite (rkey_spec b c e0) in H by (unfold e0, exp3; lia).
  rewrite (rkey_spec a c e0) by (unfold e0, exp3; lia).
  cbn [fst snd int_op] in *. rewrite V0. replace (smaller_prefix a c) with (smaller_prefix b c) by lia. exact H.
Qed.

(* ---------------------------------------------------------------- mixed operands *)
Definition oprefix (x : operand) : Z := match x with OpPre p => prefix p | _ => 0 end.

Lemma to_pfx_spec x : exists b, to_pfx x = Ok b /\ pexp b = oexp x /\ prefix b = oprefix x /\ forall e, vat e b = ovat e x.
Proof.
  destruct x as [p|d|n|d]; cbn [to_pfx oexp oprefix ovat]; rewrite ?to_prefixed_spec.
  - exists p. repeat split; reflexivity.
  - exists (mkP d 0). split; [reflexivity|]. split; [unfold pexp; cbn [number prefix]; lia|]. split; [reflexivity|]. intros e; apply vat_unit.
  - exists (mkP (of_int n 0) 0). split; [reflexivity|]. split; [unfold pexp; cbn [number prefix]; rewrite dexp_of_int; lia|]. split; [reflexivity|]. intros e; apply vat_unit.
  - exists (mkP d 0). split; [reflexivity|]. split; [unfold pexp; cbn [number prefix]; lia|]. split; [reflexivity|]. intros e; apply vat_unit.
Qed.

Lemma pcmp_mixed_total o a x : exists b, to_pfx x = Ok b /\ pcmp_mixed o a x = Ok (pcmp o a b).
Proof. destruct (to_pfx_spec x) as [b [E _]]. exists b. split; [exact E|]. unfold pcmp_mixed. rewrite E. reflexivity. Qed.

Lemma pcmp_mixed_same_value a x e : e <= pexp a -> e <= oexp x -> vat e a = ovat e x ->
  pcmp_mixed OEq a x = Ok true /\ pcmp_mixed OLe a x = Ok true /\ pcmp_mixed OGe a x = Ok true /\
  pcmp_mixed OLt a x = Ok false /\ pcmp_mixed OGt a x = Ok false /\ pcmp_mixed ONe a x = Ok false.
Proof.
  intros Ha Hx V. destruct (to_pfx_spec x) as [b [E [PE [_ VB]]]]. unfold pcmp_mixed. rewrite E. cbn [bind].
  rewrite <- PE in Hx. rewrite <- VB in V. destruct (pcmp_same_value a b e Ha Hx V) as [Q1 [Q2 [Q3 [Q4 [Q5 Q6]]]]].
  rewrite Q1, Q2, Q3, Q4, Q5, Q6. repeat split; reflexivity.
Qed.

Lemma pcmp_mixed_sound a x e :
  let s := Z.min (prefix a) (oprefix x) in
  e <= pexp a -> e <= oexp x -> e <= s - EPSILON ->
  10 ^ (s - EPSILON - e) < Z.abs (vat e a - ovat e x) ->
  (pcmp_mixed OLt a x = Ok true <-> vat e a < ovat e x) /\ (pcmp_mixed OGt a x = Ok true <-> ovat e x < vat e a) /\
  pcmp_mixed OEq a x = Ok false /\ pcmp_mixed ONe a x = Ok true.
Proof.
  intros s Ha Hx Hs H. destruct (to_pfx_spec x) as [b [E [PE [PP VB]]]]. unfold pcmp_mixed. rewrite E. cbn [bind].
  rewrite <- PE in Hx. rewrite <- VB in *. unfold s in *. rewrite <- PP in *. rewrite <- smaller_prefix_min in *.
  destruct (pcmp_sound a b e Ha Hx Hs H) as [Q1 [Q2 [Q3 [Q4 _]]]]. rewrite Q3, Q4.
  repeat split; try reflexivity; intros X.
  - apply Q1. inversion X. reflexivity.
  - f_equal. apply Q1. exact X.
  - apply Q2. inversion X. reflexivity.
  - f_equal. apply Q2. exact X.
Qed.

Lemma pcmp_mixed_relations a x : exists lt le eq ne gt ge,
  pcmp_mixed OLt a x = Ok lt /\ pcmp_mixed OLe a x = Ok le /\ pcmp_mixed OEq a x = Ok eq /\
  pcmp_mixed ONe a x = Ok ne /\ pcmp_mixed OGt a x = Ok gt /\ pcmp_mixed OGe a x = Ok ge /\
  ((lt = true /\ eq = false /\ gt = false) \/ (lt = false /\ eq = true /\ gt = false) \/ (lt = false /\ eq = false /\ gt = true)) /\
  le = (lt || eq) /\ ge = (gt || eq) /\ ne = negb eq /\ le = negb gt /\ ge = negb lt.
Proof.
  destruct (to_pfx_spec x) as [b [E _]]. unfold pcmp_mixed. rewrite E. cbn [bind].
  exists (pcmp OLt a b), (pcmp OLe a b), (pcmp OEq a b), (pcmp ONe a b), (pcmp OGt a b), (pcmp OGe a b).
  repeat split; try reflexivity; try apply pcmp_trichotomy; apply pcmp_rel.
Qed.

(* x op a (x an int, float or Decimal: their own operator returns NotImplemented) is the mirrored operator of a;
   for two Prefixed the mirrored operator agrees with the direct one *)
Lemma swap_is_mirror o : swap_op o = mirror o.
Proof. destruct o; reflexivity. Qed.
Lemma pcmp_reflected_prefixed o b a : pcmp_reflected o (OpPre b) a = Ok (pcmp o b a).
Proof. unfold pcmp_reflected, pcmp_mixed. cbn [to_pfx bind]. rewrite <- swap_is_mirror. rewrite pcmp_swap. reflexivity. Qed.

(* ---------------------------------------------------------------- hashes across types *)
Lemma phash_unit d : phash (mkP d 0) = Ok (dnorm d).
Proof.
  unfold phash, unit_number. rewrite unit_prefix_ok. cbn [bind]. f_equal. unfold pscale. cbn [number prefix].
  apply dnorm_eqv.
  assert (dexp (dscale10 d (0 - 0)) = dexp d) as EX by (rewrite dexp_dscale10; lia).
  unfold dmin. rewrite EX. rewrite Z.min_id. rewrite dscale10_exact by lia. f_equal. lia.
Qed.

Lemma ohash_to_pfx x b : to_pfx x = Ok b -> ohash x = phash b.
Proof.
  destruct x as [p|d|n|d]; cbn [to_pfx ohash]; rewrite ?to_prefixed_spec; intros H; inversion H; subst; try reflexivity;
    symmetry; apply phash_unit.
Qed.

Lemma hash_mixed a x e : e <= pexp a -> e <= oexp x -> vat e a = ovat e x -> phash a = ohash x.
Proof.
  intros Ha Hx V. destruct (to_pfx_spec x) as [b [E [PE [_ VB]]]]. rewrite (ohash_to_pfx x b E).
  apply (phash_consistent a b e); [exact Ha|lia|rewrite VB; exact V].
Qed.

(* ---------------------------------------------------------------- int() and float() side by side *)
Lemma int_float_consistent p e : e <= pexp p -> e <= 0 ->
  exists t, pint p = Ok t /\ int_part_at t (vat e p) e /\
            pfloat_c p = Ok (round_dbl (vat e p) e) /\
            match round_dbl (vat e p) e with
            | DFin neg M E => canonical M E = true /\ dist_units (vat e p) e neg M E <= half_ulp_units (vat e p) e E
            | DInf _ => overflow_units (vat e p) e <= Z.abs (val_num (vat e p) e) * 2 ^ 1076
            | DNan => False
            end.
Proof.
  intros He H0. destruct (pint_trunc p e He H0) as [t [P I]]. exists t. split; [exact P|]. split; [exact I|].
  split; [exact (pfloat_c_value p e He)|].
  pose proof (round_dbl_is_nearest (vat e p) e) as R.
  destruct (round_dbl (vat e p) e) as [neg M E|neg|]; [|exact (proj2 R)|exact R].
  destruct R as [_ [C [_ [HU _]]]]. split; assumption.
Qed.
